(* C08 - lemmas about the model (Model.v) over the libraries Varint, Protobuf,
   Digits, Base58, SymCrypto. *)
From Coq Require Import List NArith ZArith Lia Bool Arith.
From Verif Require Import c08.Varint c08.Protobuf c08.Digits c08.Base58 c08.Model gen.Consts_c08.
Import ListNotations.
Local Open Scope N_scope.

(* ---- bytes_eqb -------------------------------------------------------------- *)
Lemma bytes_eqb_eq : forall a b, bytes_eqb a b = true <-> a = b.
Proof.
  induction a as [|x a IH]; intros [|y b]; cbn; split; intro H; try reflexivity; try discriminate.
  - apply andb_true_iff in H. destruct H as [H1 H2]. apply N.eqb_eq in H1. apply IH in H2. congruence.
  - inversion H; subst. rewrite N.eqb_refl. cbn. apply IH. reflexivity.
Qed.

Lemma bytes_eqb_refl : forall a, bytes_eqb a a = true.
Proof. intros a. apply bytes_eqb_eq. reflexivity. Qed.

(* ---- makeUnsigned ------------------------------------------------------------ *)
Lemma parse_make_unsigned : forall d t p, parse_unsigned (make_unsigned d t p) = Some (d, t, p).
Proof.
  intros d t p. unfold parse_unsigned, make_unsigned.
  rewrite take_put_field. rewrite take_put_field.
  rewrite <- (app_nil_r (put_field p)). rewrite take_put_field. reflexivity.
Qed.

Lemma make_unsigned_injective_l : forall d t p d' t' p',
  make_unsigned d t p = make_unsigned d' t' p' -> d = d' /\ t = t' /\ p = p'.
Proof.
  intros d t p d' t' p' H.
  pose proof (parse_make_unsigned d t p) as H1. rewrite H, parse_make_unsigned in H1.
  inversion H1. repeat split; reflexivity.
Qed.

(* ---- PublicKey framing --------------------------------------------------------- *)
Lemma pb_fields_marshal_pubkey : forall kt d, kt < 2 ^ 64 -> nlen d < 2 ^ 64 ->
  pb_fields (marshal_pubkey kt d) = Some [(1, WVarint kt); (2, WLen d)].
Proof.
  intros kt d Hk Hd. unfold marshal_pubkey.
  rewrite pb_fields_varint_field by (try exact Hk; lia).
  rewrite <- (app_nil_r (put_len_field 2 d)).
  rewrite pb_fields_len_field by (try exact Hd; lia).
  rewrite pb_fields_nil. reflexivity.
Qed.

Lemma enum32_small : forall kt, kt < 2 ^ 32 -> enum32 kt = kt.
Proof. intros kt H. unfold enum32. apply N.mod_small. exact H. Qed.

Lemma pubkey_proto_roundtrip_l : forall kt d, kt < 2 ^ 32 -> nlen d < 2 ^ 64 ->
  parse_pubkey (marshal_pubkey kt d) = Some (kt, d).
Proof.
  intros kt d Hk Hd. unfold parse_pubkey.
  assert (Hk64 : kt < 2 ^ 64).
  { eapply N.lt_trans; [exact Hk|]. vm_compute. reflexivity. }
  rewrite pb_fields_marshal_pubkey by assumption.
  cbn [merge_pubkey last_varint last_bytes fst snd N.eqb Pos.eqb].
  rewrite enum32_small by exact Hk. reflexivity.
Qed.

Lemma marshal_pubkey_injective_l : forall kt d kt' d',
  kt < 2 ^ 32 -> kt' < 2 ^ 32 -> nlen d < 2 ^ 64 -> nlen d' < 2 ^ 64 ->
  marshal_pubkey kt d = marshal_pubkey kt' d' -> kt = kt' /\ d = d'.
Proof.
  intros kt d kt' d' H1 H2 H3 H4 H.
  pose proof (pubkey_proto_roundtrip_l kt d H1 H3) as R. rewrite H in R.
  rewrite pubkey_proto_roundtrip_l in R by assumption. inversion R. split; reflexivity.
Qed.

Lemma marshal_pubkey_bytes_ok : forall kt d, bytes_ok d -> bytes_ok (marshal_pubkey kt d).
Proof.
  intros kt d H. unfold marshal_pubkey, put_varint_field, put_len_field, tag.
  unfold put_field. repeat (apply Forall_app; split); try apply encode_bytes_ok. exact H.
Qed.

(* ---- multihash ------------------------------------------------------------------- *)
Lemma mh_wrap_length : forall code dg, 2 <= nlen (mh_wrap code dg).
Proof.
  intros code dg. unfold mh_wrap, put_field, nlen. rewrite !app_length.
  pose proof (encode_length_pos code). pose proof (encode_length_pos (N.of_nat (length dg))). lia.
Qed.

Lemma mh_roundtrip_l : forall code dg, code < 2 ^ 63 -> nlen dg <= 2 ^ 31 - 1 ->
  mh_decode (mh_wrap code dg) = Some (code, dg).
Proof.
  intros code dg Hc Hd. unfold mh_decode.
  pose proof (mh_wrap_length code dg) as HL.
  assert (E : (nlen (mh_wrap code dg) <? 2) = false) by (apply N.ltb_ge; exact HL). rewrite E.
  unfold mh_wrap, put_field. rewrite decode_mf_encode by exact Hc.
  assert (Hd63 : nlen dg < 2 ^ 63).
  { eapply N.le_lt_trans; [exact Hd|]. vm_compute. reflexivity. }
  rewrite decode_mf_encode by exact Hd63.
  apply N.leb_le in Hd. rewrite Hd, N.eqb_refl. reflexivity.
Qed.

Lemma mh_wrap_bytes_ok : forall code dg, bytes_ok dg -> bytes_ok (mh_wrap code dg).
Proof.
  intros code dg H. unfold mh_wrap. apply Forall_app. split; [apply encode_bytes_ok|].
  apply put_field_bytes_ok, H.
Qed.

(* ---- peer IDs ---------------------------------------------------------------------- *)
Definition digest_ok (dg : bytes) : Prop := length dg = 32%nat /\ bytes_ok dg.

Lemma id_of_key_inline : forall mx m dg, nlen m <= mx ->
  id_of_key mx m dg = 0 :: put_field m.
Proof.
  intros mx m dg H. unfold id_of_key. apply N.leb_le in H. rewrite H.
  unfold mh_wrap, MH_IDENTITY. rewrite encode_small by reflexivity. reflexivity.
Qed.

Lemma id_of_key_hashed : forall mx m dg, mx < nlen m -> length dg = 32%nat ->
  id_of_key mx m dg = 18 :: 32 :: dg.
Proof.
  intros mx m dg H Hd. unfold id_of_key. apply N.leb_gt in H. rewrite H.
  unfold mh_wrap, MH_SHA2_256, put_field, nlen. rewrite Hd.
  rewrite (encode_small 18) by reflexivity.
  change (N.of_nat 32) with 32. rewrite (encode_small 32) by reflexivity. reflexivity.
Qed.

Lemma id_of_key_valid : forall mx m dg, nlen m <= 2 ^ 31 - 1 -> length dg = 32%nat ->
  exists c d, mh_decode (id_of_key mx m dg) = Some (c, d).
Proof.
  intros mx m dg Hm Hd. unfold id_of_key. destruct (nlen m <=? mx).
  - exists MH_IDENTITY, m. apply mh_roundtrip_l; [reflexivity|exact Hm].
  - exists MH_SHA2_256, dg. apply mh_roundtrip_l; [reflexivity|]. unfold nlen. rewrite Hd. vm_compute. discriminate.
Qed.

Lemma id_of_key_bytes_ok : forall mx m dg, bytes_ok m -> bytes_ok dg -> bytes_ok (id_of_key mx m dg).
Proof.
  intros mx m dg H1 H2. unfold id_of_key. destruct (nlen m <=? mx); apply mh_wrap_bytes_ok; assumption.
Qed.

(* ExtractPublicKey recovers the key iff the identity form was used *)
Lemma id_embeds_key_l : forall mx m dg, nlen m <= 2 ^ 31 - 1 -> length dg = 32%nat ->
  extract_key (id_of_key mx m dg) = if nlen m <=? mx then ExKey m else ExNoKey.
Proof.
  intros mx m dg Hm Hd. unfold extract_key, id_of_key. destruct (nlen m <=? mx).
  - rewrite mh_roundtrip_l by (try exact Hm; reflexivity). reflexivity.
  - rewrite mh_roundtrip_l; [reflexivity|reflexivity|]. unfold nlen. rewrite Hd. vm_compute. discriminate.
Qed.

(* ---- text forms ---------------------------------------------------------------------- *)
Lemma starts_with_cons_ne : forall c p x s, x <> c -> starts_with (c :: p) (x :: s) = false.
Proof.
  intros c p x s H. unfold starts_with. cbn [length firstn bytes_eqb].
  apply N.eqb_neq in H. rewrite N.eqb_sym, H. reflexivity.
Qed.

Lemma peer_decode_b58_l : forall mx m dg,
  bytes_ok m -> digest_ok dg -> nlen m <= 2 ^ 31 - 1 ->
  peer_decode (id_b58 (id_of_key mx m dg)) = DecId (id_of_key mx m dg).
Proof.
  intros mx m dg Hm [Hd Hdok] Hlen.
  pose proof (id_of_key_valid mx m dg Hlen Hd) as (c & d & Hv).
  pose proof (id_of_key_bytes_ok mx m dg Hm Hdok) as Hok.
  unfold peer_decode, id_b58.
  assert (Hpre : starts_with [81; 109] (b58_encode (id_of_key mx m dg))
                 || starts_with [49] (b58_encode (id_of_key mx m dg)) = true).
  { destruct (N.le_gt_cases (nlen m) mx) as [Hi|Hh].
    - rewrite id_of_key_inline by exact Hi.
      destruct (b58_leading_zero (put_field m)) as [t Ht]. rewrite Ht.
      apply orb_true_iff. right. unfold starts_with. cbn. reflexivity.
    - rewrite id_of_key_hashed by assumption.
      destruct (b58_sha256_Qm dg Hdok Hd) as (t & Ht & _). rewrite Ht.
      unfold starts_with. cbn. reflexivity. }
  rewrite Hpre.
  rewrite b58_roundtrip; [rewrite Hv; reflexivity|exact Hok|].
  intros E. rewrite E in Hv. discriminate.
Qed.

Lemma b32_encode_nonempty : forall bs, bs <> [] -> b32_encode bs <> [].
Proof.
  intros bs H E. apply (f_equal (@length N)) in E. unfold b32_encode in E. cbv zeta in E.
  rewrite map_length, fixed_length in E by lia. destruct bs as [|b bs]; [congruence|].
  cbn [length] in E.
  pose proof (Nat.div_mod (8 * S (length bs) + 4) 5). pose proof (Nat.mod_upper_bound (8 * S (length bs) + 4) 5).
  cbn [length] in *. lia.
Qed.

Lemma peer_decode_cid_l : forall mx m dg,
  bytes_ok m -> digest_ok dg -> nlen m <= 2 ^ 31 - 1 ->
  peer_decode (id_cid_text (id_of_key mx m dg)) = DecId (id_of_key mx m dg).
Proof.
  intros mx m dg Hm [Hd Hdok] Hlen.
  pose proof (id_of_key_valid mx m dg Hlen Hd) as (c & d & Hv).
  pose proof (id_of_key_bytes_ok mx m dg Hm Hdok) as Hok.
  set (id := id_of_key mx m dg) in *.
  unfold peer_decode, id_cid_text, MB_BASE32.
  rewrite starts_with_cons_ne by discriminate. rewrite starts_with_cons_ne by discriminate.
  cbn [orb].
  assert (Hcb : cid_bytes id = 1 :: 114 :: id).
  { unfold cid_bytes, CID_V1, LIBP2P_KEY. rewrite (encode_small 1), (encode_small 114) by reflexivity. reflexivity. }
  assert (Hne : b32_encode (cid_bytes id) <> []) by (apply b32_encode_nonempty; rewrite Hcb; discriminate).
  assert (Hl : (nlen (98 :: b32_encode (cid_bytes id)) <? 2) = false).
  { apply N.ltb_ge. unfold nlen. cbn [length]. destruct (b32_encode (cid_bytes id)); [congruence|cbn [length]; lia]. }
  rewrite Hl. rewrite N.eqb_refl.
  rewrite b32_roundtrip.
  - rewrite Hcb. unfold id_of_cid_bytes.
    change (1 :: 114 :: id) with (encode 1 ++ (encode 114 ++ id)).
    rewrite (decode_mf_encode 1) by reflexivity.
    unfold CID_V1. rewrite N.eqb_refl.
    rewrite (decode_mf_encode 114) by reflexivity.
    rewrite Hv. unfold LIBP2P_KEY. rewrite N.eqb_refl. reflexivity.
  - rewrite Hcb. constructor; [unfold byte_ok; lia|]. constructor; [unfold byte_ok; lia|exact Hok].
Qed.

(* ---- RSA size range ---------------------------------------------------------------------- *)
Lemma rsa_size_ok_iff : forall mn mx bits, rsa_size_ok mn mx bits = true <-> mn <= bits /\ bits <= mx.
Proof.
  intros mn mx bits. unfold rsa_size_ok. rewrite andb_true_iff, !negb_true_iff, !N.ltb_ge. reflexivity.
Qed.

Lemma rsa_size_range_l :
  (minRsaKeyBits = 2048 /\ maxRsaKeyBits = 8192)%Z /\
  forall bits, rsa_size_ok (Z.to_N minRsaKeyBits) (Z.to_N maxRsaKeyBits) bits = true <->
               2048 <= bits /\ bits <= 8192.
Proof.
  split; [split; reflexivity|]. intros bits. rewrite rsa_size_ok_iff. reflexivity.
Qed.

(* Correspondence driver, shared by all properties.  The per-property main file
   is "open <Cnn>_model" followed by this text.  Reads one case per line
   (integers separated by spaces; '#' lines ignored) and prints
     C <lineno> <diagnostic ints>   when conform_case returns a non-empty list
     M <lineno> <diagnostic ints>   when monitor_case returns a non-empty list
     DONE <cases> <conform_failures> <monitor_failures>
   Tokens must fit OCaml's native int (|x| < 2^62). *)

let rec pos_of_int (n : int) : positive =
  if n = 1 then XH
  else if n land 1 = 0 then XO (pos_of_int (n lsr 1))
  else XI (pos_of_int (n lsr 1))

let z_of_int (n : int) : z =
  if n = 0 then Z0 else if n > 0 then Zpos (pos_of_int n) else Zneg (pos_of_int (- n))

let rec int_of_pos (p : positive) : int =
  match p with XH -> 1 | XO q -> 2 * int_of_pos q | XI q -> 2 * int_of_pos q + 1

let int_of_z (x : z) : int =
  match x with Z0 -> 0 | Zpos p -> int_of_pos p | Zneg p -> - (int_of_pos p)

let parse_line s : z list =
  let toks = Stdlib.String.split_on_char ' ' s in
  Stdlib.List.fold_right (fun t acc -> if t = "" then acc else z_of_int (int_of_string t) :: acc) toks []

let print_diag tag lineno (d : z list) =
  print_string tag; print_char ' '; print_int lineno;
  Stdlib.List.iter (fun x -> print_char ' '; print_int (int_of_z x)) d;
  print_newline ()

let () =
  let mode = if Array.length Sys.argv > 1 then Sys.argv.(1) else "both" in
  let n = ref 0 and cf = ref 0 and mf = ref 0 and lineno = ref 0 in
  (try
     while true do
       let s = input_line stdin in
       incr lineno;
       if Stdlib.String.length s > 0 && s.[0] <> '#' then begin
         incr n;
         let l = parse_line s in
         if mode <> "monitor" then begin
           match conform_case l with
           | [] -> ()
           | d -> incr cf; print_diag "C" !lineno d
         end;
         if mode <> "conform" then begin
           match monitor_case l with
           | [] -> ()
           | d -> incr mf; print_diag "M" !lineno d
         end
       end
     done
   with End_of_file -> ());
  Printf.printf "DONE %d %d %d\n" !n !cf !mf

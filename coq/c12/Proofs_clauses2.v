(* C12 — monitor clauses 9 (a NewStream call is answered ErrLimitedConn only when
   a direct connection has just come and gone) and 10 (a force-direct
   BasicHost.Connect succeeds only with a non-proxy connection) on model traces. *)
From Coq Require Import List Arith ZArith Bool Lia.
From Verif Require Import lib.Wire c12.Model c12.SpecSwarm c12.Proofs_conn c12.Proofs_inv c12.Proofs_wait
  c12.Proofs_wake c12.Proofs_trace c12.Proofs_quiesce c12.Proofs_stim c12.Proofs_clauses.
Import ListNotations.

(* ---- clause 10 ------------------------------------------------------------------------------ *)
Lemma status_six : forall s t, fst (status s t) = 6 -> exists c, t_pc t = PDone (ROk c) /\ t_dial t = true.
Proof.
  intros s t H. unfold status in H.
  destruct (t_pc t) as [| | |rid|c0| |w| |w|c0|c0|c0|[c0|e]]; cbn in H; try discriminate.
  - destruct (t_ctx t); discriminate.
  - destruct (mem w (closedw s) || t_ctx t); discriminate.
  - exists c0. split; [reflexivity|]. destruct (t_dial t); [reflexivity|]. cbn in H. discriminate.
Qed.

Lemma clause10_holds : forall s, InvA s ->
  forallb (connect_ok (o_conns (obs_of s))) (o_calls (obs_of s)) = true.
Proof.
  intros s HI. cbn [obs_of o_conns o_calls]. apply forallb_forall. intros co Hco.
  apply in_map_iff in Hco. destruct Hco as [t [<- Hin]]. apply In_nth_error in Hin. destruct Hin as [tid Ht].
  unfold connect_ok. cbn [call_of co_st co_dial co_onconn co_force].
  destruct (t_dial t && t_onconn t && t_force t && Nat.eqb (fst (status s t)) 6) eqn:E; [|reflexivity]. cbn [negb orb].
  apply andb_true_iff in E. destruct E as [E E4]. apply andb_true_iff in E. destruct E as [E E3].
  apply Nat.eqb_eq in E4. destruct (status_six s t E4) as [c [Hpc Hd]].
  destruct (A1 s HI tid t Ht) as [_ K]. rewrite Hpc, Hd in K. destruct K as [Kc Kp].
  apply existsb_exists. exists (conn_of (get_conn (conns s) c)). split.
  - apply in_map. apply nth_In. exact Kc.
  - cbn. rewrite (Kp E3). reflexivity.
Qed.

(* ---- clause 9: where an ErrLimitedConn answer can come from ---------------------------------- *)
(* a NewStream call ends with ErrLimitedConn only through PWoken, and gets there
   only from a wait whose channel was closed *)
Definition flaggedb (cw : list nat) (t : thread) : bool :=
  match t_pc t with
  | PDone (RErr e) => Nat.eqb e E_LIMITED
  | PWoken => true
  | PWaiting w => mem w cw
  | _ => false
  end.

Definition good_r (r : result) : Prop := match r with RErr e => e <> E_LIMITED | ROk _ => True end.

Lemma deliver_unflagged : forall cw t r, t_dial t = false -> good_r r -> flaggedb cw (deliver t r) = false.
Proof.
  intros cw t [c|e] Hd G; cbn [deliver]; [rewrite Hd; reflexivity|].
  unfold flaggedb. cbn [t_pc with_pc]. destruct (t_ctx t); [reflexivity|].
  apply Nat.eqb_neq. exact G.
Qed.

Lemma worker_request_unflagged : forall s tid t cw,
  nth_error (threads s) tid = Some t -> t_dial t = false ->
  exists t1, nth_error (threads (worker_request s tid t)) tid = Some t1 /\ flaggedb cw t1 = false.
Proof.
  intros s tid t cw Ht Hd. assert (L : tid < length (threads s)) by (eapply nth_error_lt; eauto).
  assert (Dl : forall r, good_r r ->
            exists t1, nth_error (threads (set_thread s tid (deliver t r))) tid = Some t1 /\ flaggedb cw t1 = false).
  { intros r G. exists (deliver t r). split; [ssimpl; apply nth_error_set_nth_eq; exact L|].
    apply deliver_unflagged; assumption. }
  unfold worker_request.
  destruct (best_acceptable (t_force t) (conns s)); [apply Dl; exact I|].
  destruct (paddrs s); [apply Dl; cbn; discriminate|].
  destruct (addrs_for_dial (t_force t) (a :: l)); [apply Dl; cbn; discriminate|].
  destruct (scan (tracked s) (a0 :: l0) [] []) as [c|rem td]; [apply Dl; exact I|].
  destruct rem; [apply Dl; cbn; discriminate|].
  eexists. split; [ssimpl; apply nth_error_set_nth_eq; exact L|]. reflexivity.
Qed.

(* one step of call i: the new thread is flagged only if the old one was *)
Lemma thread_step_flag : forall x i x1 t,
  InvA x -> InvB x -> thread_step x i = Some x1 -> nth_error (threads x) i = Some t ->
  t_dial t = false -> t_onconn t = false ->
  exists t1, nth_error (threads x1) i = Some t1 /\
             (flaggedb (closedw x) t1 = true -> flaggedb (closedw x) t = true).
Proof.
  intros x i x1 t IA IB H Ht Hd Ho. unfold thread_step in H. rewrite Ht in H.
  assert (L : i < length (threads x)) by (eapply nth_error_lt; eauto).
  assert (Pc : forall p, (flaggedb (closedw x) (with_pc t p) = true -> flaggedb (closedw x) t = true) ->
            exists t1, nth_error (threads (set_thread x i (with_pc t p))) i = Some t1 /\
                       (flaggedb (closedw x) t1 = true -> flaggedb (closedw x) t = true)).
  { intros p Hp. exists (with_pc t p). split; [ssimpl; apply nth_error_set_nth_eq; exact L|exact Hp]. }
  pose proof (A1 x IA i t Ht) as [_ K2].
  destruct (t_pc t) as [| | |rid|c| |w| |w|c|c|c|r] eqn:Hpc.
  - destruct (best_conn (conns x)); [injection H as <-; apply Pc; discriminate|].
    destruct (t_nodial t); [injection H as <-; apply Pc; discriminate|].
    destruct (Nat.ltb (dial_attempts x) (S (t_dials t))); injection H as <-; [apply Pc; discriminate|].
    eexists. split; [ssimpl; apply nth_error_set_nth_eq; exact L|]. discriminate.
  - destruct (best_acceptable (t_force t) (conns x)) as [c|]; injection H as <-; [|apply Pc; discriminate].
    exists (deliver t (ROk c)). split; [ssimpl; apply nth_error_set_nth_eq; exact L|].
    rewrite (deliver_unflagged _ t (ROk c) Hd I). discriminate.
  - destruct (busy x); [discriminate|]. injection H as <-.
    destruct (worker_request_unflagged x i t (closedw x) Ht Hd) as [t1 [T1 F1]]. exists t1. split; [exact T1|].
    rewrite F1. discriminate.
  - destruct (t_ctx t); [|discriminate]. injection H as <-. apply Pc. discriminate.
  - destruct (negb (t_allow t) && c_lim (get_conn (conns x) c)); injection H as <-; apply Pc; discriminate.
  - destruct (best_conn (conns x)) as [c|]; [|injection H as <-; apply Pc; discriminate].
    destruct (c_lim (get_conn (conns x) c)); injection H as <-; [|apply Pc; discriminate].
    (* registration with a fresh channel: it is not closed *)
    exists (with_pc t (PWaiting (nextw x))). split; [ssimpl; apply nth_error_set_nth_eq; exact L|].
    unfold flaggedb at 1. cbn [t_pc with_pc]. intros M. exfalso. apply mem_In in M.
    assert (X : nextw x < nextw x); [|lia]. apply (B2 x IB). unfold wl. apply in_or_app. right. apply in_or_app. left. exact M.
  - destruct (mem w (closedw x)) eqn:M.
    + injection H as <-. apply Pc. intros _. unfold flaggedb. rewrite Hpc. exact M.
    + destruct (t_ctx t); [|discriminate]. injection H as <-. apply Pc. discriminate.
  - destruct (best_conn (conns x)) as [c|]; [destruct (c_lim (get_conn (conns x) c))|]; injection H as <-; apply Pc;
      try discriminate. intros _. unfold flaggedb. rewrite Hpc. reflexivity.
  - destruct (mem w (waiters x)); injection H as <-.
    + eexists. split; [ssimpl; apply nth_error_set_nth_eq; exact L|]. discriminate.
    + apply Pc. discriminate.
  - destruct (c_lim (get_conn (conns x) c) && negb (t_allow t)) eqn:T; injection H as <-; [|apply Pc; discriminate].
    (* Conn.NewStream's re-check cannot fail for a Swarm.NewStream call *)
    exfalso. apply andb_true_iff in T. destruct T as [T1 T2]. destruct K2 as [_ K]. rewrite (K Ho T1) in T2. discriminate.
  - discriminate.
  - destruct (c_closed (get_conn (conns x) c)); injection H as <-; apply Pc; discriminate.
  - discriminate.
Qed.

(* ---- what a stimulus can do to a NewStream call ------------------------------------------------ *)
Definition uf (p : pc) : bool :=
  match p with
  | PDone (RErr e) => negb (Nat.eqb e E_LIMITED)
  | PWoken | PWaiting _ => false
  | _ => true
  end.

Lemma uf_unflagged : forall cw t, uf (t_pc t) = true -> flaggedb cw t = false.
Proof.
  intros cw t H. unfold uf, flaggedb in *. destruct (t_pc t) as [| | |rid|c| |w| |w|c|c|c|[c|e]]; try reflexivity; try discriminate.
  apply negb_true_iff in H. exact H.
Qed.

(* thread i of ths' is thread i of ths with the same pc, or its pc is harmless *)
Definition srel (ths ths' : list thread) : Prop :=
  forall i t1, nth_error ths' i = Some t1 -> t_dial t1 = false -> t_onconn t1 = false ->
    (exists t, nth_error ths i = Some t /\ t_pc t = t_pc t1 /\ t_dial t = false /\ t_onconn t = false) \/
    uf (t_pc t1) = true.

Lemma srel_refl : forall ths, srel ths ths.
Proof. intros ths i t1 H Hd Ho. left. exists t1. auto. Qed.

Lemma srel_trans : forall a b c, srel a b -> srel b c -> srel a c.
Proof.
  intros a b c H1 H2 i t2 Ht Hd Ho. destruct (H2 i t2 Ht Hd Ho) as [[t1 [T1 [P1 [D1 O1]]]]|U]; [|auto].
  destruct (H1 i t1 T1 D1 O1) as [[t0 [T0 [P0 [D0 O0]]]]|U].
  - left. exists t0. repeat split; auto. congruence.
  - right. rewrite <- P1. exact U.
Qed.

Lemma deliver_uf : forall t r, t_dial t = false -> good_r r -> uf (t_pc (deliver t r)) = true.
Proof.
  intros t [c|e] Hd G; cbn [deliver]; [rewrite Hd; reflexivity|]. cbn [t_pc with_pc uf].
  destruct (t_ctx t); [reflexivity|]. apply negb_true_iff. apply Nat.eqb_neq. exact G.
Qed.

Lemma deliver_flags : forall t r, t_dial (deliver t r) = t_dial t /\ t_onconn (deliver t r) = t_onconn t.
Proof. intros t [c|e]; cbn [deliver]; [destruct (t_dial t) eqn:D|]; cbn; rewrite ?D; auto. Qed.

Lemma srel_respond : forall ths rid tid r, good_r r -> srel ths (respond ths rid tid r).
Proof.
  intros ths rid tid r G i t1 H Hd Ho. apply respond_rel in H. destruct H as [H|[-> [t [Ht [Hpc ->]]]]].
  - left. exists t1. auto.
  - right. destruct (deliver_flags t r) as [D _]. rewrite D in Hd. apply deliver_uf; assumption.
Qed.

Lemma srel_deliver_conn : forall a c pe ths pe' ths', deliver_conn a c pe ths = (pe', ths') -> srel ths ths'.
Proof.
  induction pe as [|p r IH]; intros ths pe' ths' H; cbn [deliver_conn] in H.
  - injection H as _ <-. apply srel_refl.
  - destruct (mem a (p_addrs p)).
    + eapply srel_trans; [apply (srel_respond ths (p_rid p) (p_tid p) (ROk c) I)|eapply IH; eauto].
    + destruct (deliver_conn a c r ths) as [pe1 ths1] eqn:D. injection H as _ <-. eapply IH; eauto.
Qed.

Lemma srel_dispatch_error : forall a cs pe ths pe' ths', dispatch_error a cs pe ths = (pe', ths') -> srel ths ths'.
Proof.
  induction pe as [|p r IH]; intros ths pe' ths' H; cbn [dispatch_error] in H.
  - injection H as _ <-. apply srel_refl.
  - destruct (mem a (p_addrs p)).
    + destruct (remove_nat a (p_addrs p)).
      * eapply srel_trans; [|eapply IH; eauto]. apply srel_respond.
        destruct (best_acceptable (p_force p) cs); cbn; [exact I|discriminate].
      * destruct (dispatch_error a cs r ths) as [pe1 ths1] eqn:D. injection H as _ <-. eapply IH; eauto.
    + destruct (dispatch_error a cs r ths) as [pe1 ths1] eqn:D. injection H as _ <-. eapply IH; eauto.
Qed.

Lemma srel_app : forall ths x, (t_dial x = false -> t_onconn x = false -> uf (t_pc x) = true) -> srel ths (ths ++ [x]).
Proof.
  intros ths x Hx i t1 H Hd Ho. destruct (Nat.lt_ge_cases i (length ths)) as [L|L].
  - rewrite nth_error_app1 in H by exact L. left. exists t1. auto.
  - rewrite nth_error_app2 in H by exact L. destruct (i - length ths); [|destruct n; discriminate].
    cbn in H. injection H as <-. right. auto.
Qed.

Lemma srel_set : forall ths i t x, nth_error ths i = Some t ->
  (t_pc x = t_pc t /\ t_dial t = t_dial x /\ t_onconn t = t_onconn x) \/ uf (t_pc x) = true ->
  srel ths (set_nth ths i x).
Proof.
  intros ths i t x Ht Hx j t1 H Hd Ho. apply nth_error_set_nth in H. destruct H as [[<- [-> _]]|[_ H]].
  - destruct Hx as [[P [D O]]|U]; [|auto]. left. exists t. repeat split; auto; congruence.
  - left. exists t1. auto.
Qed.

Definition env_action (a : action) : Prop := match a with AThread _ | AThreadAlt _ => False | _ => True end.

Lemma step_raw_srel : forall s a s1, step_raw s a = Some s1 -> env_action a -> srel (threads s) (threads s1).
Proof.
  intros s a s1 H E. destruct a; cbn [step_raw env_action] in *; try contradiction.
  - injection H as <-. destruct lim; apply srel_refl.
  - destruct (mem c (pending s)); [|discriminate]. injection H as <-. apply srel_refl.
  - destruct (Nat.ltb c (length (conns s))); [|discriminate]. injection H as <-. apply srel_refl.
  - destruct (Nat.ltb c (length (conns s))); [|discriminate]. injection H as <-. apply srel_refl.
  - injection H as <-. ssimpl. apply srel_app. cbn. intros ->. reflexivity.
  - destruct (Nat.ltb c (length (conns s))); [|discriminate]. injection H as <-. ssimpl. apply srel_app. cbn. discriminate.
  - destruct (nth_error (threads s) tid) as [t|] eqn:Ht; [|discriminate]. injection H as <-. ssimpl.
    eapply srel_set; [exact Ht|]. left. auto.
  - destruct (nth_error (threads s) tid) as [t|] eqn:Ht; [|discriminate]. destruct (t_pc t); try discriminate.
    destruct (ok && c_listed (get_conn (conns s) c)); [|destruct (t_onconn t)]; injection H as <-; ssimpl;
      (eapply srel_set; [exact Ht|]); right; try reflexivity. destruct ok; reflexivity.
  - injection H as <-. apply srel_refl.
  - destruct (busy s); [discriminate|]. destruct (mem a (map fst (inflight s))); [|discriminate]. destruct ok.
    + injection H as <-. destruct lim; apply srel_refl.
    + destruct (dispatch_error a (conns s) (pend s) (threads s)) as [pe ths] eqn:D. injection H as <-. ssimpl.
      eapply srel_dispatch_error; eauto.
  - destruct (busy s) as [[a c]|]; [|discriminate]. destruct (mem c (pending s)); [discriminate|].
    destruct (deliver_conn a c (pend s) (threads s)) as [pe ths] eqn:D. injection H as <-. ssimpl.
    eapply srel_deliver_conn; eauto.
  - injection H as <-. ssimpl. apply srel_app. cbn. discriminate.
Qed.

Lemma do_step_srel : forall s a, env_action a -> srel (threads s) (threads (do_step s a)).
Proof.
  intros s a E. destruct (step_raw s a) as [s1|] eqn:H.
  - rewrite (do_step_some _ _ _ H). destruct (cleanup_same s1) as [A _]. rewrite A. eapply step_raw_srel; eauto.
  - rewrite (do_step_none _ _ H). apply srel_refl.
Qed.

Lemma expire_all_srel : forall n s tid, srel (threads s) (threads (expire_all s tid n)).
Proof.
  induction n as [|k IH]; intros s tid; cbn [expire_all]; [apply srel_refl|].
  eapply srel_trans; [|apply IH]. destruct (nth_error (threads s) tid) as [t|]; [|apply srel_refl].
  destruct (waits t); [apply do_step_srel; exact I|apply srel_refl].
Qed.

Lemma stimulate_srel : forall s o, srel (threads s) (threads (stimulate s o)).
Proof.
  intros s o. destruct o; cbn [stimulate];
    repeat (eapply srel_trans; [|apply do_step_srel; exact I]); try apply srel_refl.
  apply expire_all_srel.
Qed.

(* ---- closedw changes only when a non-limited connection is added -------------------------------- *)
Lemma step_raw_closedw : forall s a s1, step_raw s a = Some s1 -> env_action a -> (forall c, a <> ANotify c) ->
  closedw s1 = closedw s.
Proof.
  intros s a s1 H E N. destruct a; cbn [step_raw env_action] in *; try contradiction.
  - injection H as <-. destruct lim; reflexivity.
  - exfalso. eapply N; eauto.
  - destruct (Nat.ltb c (length (conns s))); [|discriminate]. injection H as <-. reflexivity.
  - destruct (Nat.ltb c (length (conns s))); [|discriminate]. injection H as <-. reflexivity.
  - injection H as <-. reflexivity.
  - destruct (Nat.ltb c (length (conns s))); [|discriminate]. injection H as <-. reflexivity.
  - destruct (nth_error (threads s) tid); [|discriminate]. injection H as <-. reflexivity.
  - destruct (nth_error (threads s) tid) as [t|]; [|discriminate]. destruct (t_pc t); try discriminate.
    destruct (ok && c_listed (get_conn (conns s) c)); [|destruct (t_onconn t)]; injection H as <-; reflexivity.
  - injection H as <-. reflexivity.
  - destruct (busy s); [discriminate|]. destruct (mem a (map fst (inflight s))); [|discriminate]. destruct ok.
    + injection H as <-. destruct lim; reflexivity.
    + destruct (dispatch_error a (conns s) (pend s) (threads s)) as [pe ths]. injection H as <-. reflexivity.
  - destruct (busy s) as [[a c]|]; [|discriminate]. destruct (mem c (pending s)); [discriminate|].
    destruct (deliver_conn a c (pend s) (threads s)) as [pe ths]. injection H as <-. reflexivity.
  - injection H as <-. reflexivity.
Qed.

Lemma do_step_closedw : forall s a, env_action a -> (forall c, a <> ANotify c) -> closedw (do_step s a) = closedw s.
Proof.
  intros s a E N. destruct (step_raw s a) as [s1|] eqn:H.
  - rewrite (do_step_some _ _ _ H). destruct (cleanup_same s1) as [_ [_ [C _]]]. rewrite C. eapply step_raw_closedw; eauto.
  - rewrite (do_step_none _ _ H). reflexivity.
Qed.

Lemma expire_all_closedw : forall n s tid, closedw (expire_all s tid n) = closedw s.
Proof.
  induction n as [|k IH]; intros s tid; cbn [expire_all]; [reflexivity|]. rewrite IH.
  destruct (nth_error (threads s) tid) as [t|]; [|reflexivity]. destruct (waits t); [|reflexivity].
  apply do_step_closedw; [exact I|discriminate].
Qed.

Ltac dsc := rewrite do_step_closedw by (try exact I; discriminate).

Lemma stimulate_closedw : forall s o, pending s = [] -> ~ da_conns (conns s) (conns (stimulate s o)) ->
  closedw (stimulate s o) = closedw s.
Proof.
  intros s o P ND. destruct o; cbn [stimulate] in *; try (dsc; reflexivity).
  - (* OAdd *)
    destruct (do_step_append s lim proxy) as [Hc [_ [Hw [_ Hp]]]]. rewrite P in Hp.
    set (s1 := do_step s (AAppend lim proxy)) in *. destruct lim.
    + rewrite do_step_notify_off; [exact Hw|]. rewrite Hp. reflexivity.
    + exfalso. apply ND.
      assert (M : mem (length (conns s)) (pending s1) = true) by (rewrite Hp; cbn; rewrite Nat.eqb_refl; reflexivity).
      destruct (do_step_notify_on s1 _ M) as [Hc2 _]. rewrite Hc2, Hc. apply da_conns_app.
  - (* ODialRes *)
    destruct (do_step_dialres s a ok lim) as [Hw Hd]. rewrite P in Hd.
    set (s1 := do_step s (ADialRes a ok lim)) in *.
    assert (Off : pending s1 = [] ->
              closedw (do_step (do_step s1 (ANotify (length (conns s)))) ADeliver) = closedw s).
    { intros Hp. rewrite do_step_notify_off by (rewrite Hp; reflexivity). dsc. exact Hw. }
    destruct Hd as [[Hc Hp]|[Hc Hp]]; [apply Off; exact Hp|]. destruct lim; [apply Off; exact Hp|].
    exfalso. apply ND. rewrite do_step_deliver_conns.
    assert (M : mem (length (conns s)) (pending s1) = true) by (rewrite Hp; cbn; rewrite Nat.eqb_refl; reflexivity).
    destruct (do_step_notify_on s1 _ M) as [Hc2 _]. rewrite Hc2, Hc. apply da_conns_app.
  - apply expire_all_closedw.
  - (* OAddClosed *)
    destruct (do_step_append s lim proxy) as [Hc [_ [Hw [_ Hp]]]]. rewrite P in Hp.
    set (s1 := do_step s (AAppend lim proxy)) in *.
    set (s2 := do_step s1 (AMark (length (conns s)))) in *.
    assert (Hw2 : closedw s2 = closedw s) by (unfold s2; dsc; exact Hw).
    assert (Hp2 : pending s2 = pending s1) by (apply do_step_pending_same; exact I).
    destruct lim.
    + rewrite do_step_notify_off; [exact Hw2|]. rewrite Hp2, Hp. reflexivity.
    + exfalso. apply ND.
      assert (M : mem (length (conns s)) (pending s2) = true) by (rewrite Hp2, Hp; cbn; rewrite Nat.eqb_refl; reflexivity).
      destruct (do_step_notify_on s2 _ M) as [Hc2 _]. rewrite Hc2.
      unfold s2. destruct (step_raw s1 (AMark (length (conns s)))) as [s3|] eqn:E.
      * rewrite (do_step_some _ _ _ E). destruct (cleanup_same s3) as [_ [B _]]. rewrite B.
        cbn [step_raw] in E. destruct (Nat.ltb (length (conns s)) (length (conns s1))) eqn:L; [|discriminate].
        injection E as <-. ssimpl. rewrite Hc. split; [rewrite set_nth_length, app_length; cbn; lia|].
        eexists. split; [apply nth_error_set_nth_eq; rewrite app_length; cbn; lia|]. cbn.
        rewrite get_conn_app_new. reflexivity.
      * rewrite (do_step_none _ _ E), Hc. apply da_conns_app.
  - reflexivity.
Qed.

(* ---- clause 9 on model traces --------------------------------------------------------------------- *)
Lemma lim_err_iff : forall s t, lim_err (call_of s t) = true <->
  t_dial t = false /\ t_onconn t = false /\ t_pc t = PDone (RErr E_LIMITED).
Proof.
  intros s t. unfold lim_err, call_of. cbn [co_dial co_onconn co_st co_arg]. unfold status. split.
  - intros H. apply andb_true_iff in H. destruct H as [H H4]. apply andb_true_iff in H. destruct H as [H H3].
    apply andb_true_iff in H. destruct H as [H1 H2]. apply negb_true_iff in H1. apply negb_true_iff in H2.
    split; [exact H1|]. split; [exact H2|].
    destruct (t_pc t) as [| | |rid|c| |w| |w|c|c|c|[c|e]]; cbn in H3, H4; try discriminate.
    + destruct (t_ctx t); discriminate.
    + destruct (mem w (closedw s) || t_ctx t); discriminate.
    + destruct (t_dial t && t_onconn t); discriminate.
    + apply Nat.eqb_eq in H4. cbn in H4. subst e. reflexivity.
  - intros [-> [-> ->]]. reflexivity.
Qed.

Lemma lim_errs_old_intro : forall now prev,
  (forall i n, nth_error now i = Some n -> lim_err n = true ->
               exists q, nth_error prev i = Some q /\ lim_err q = true) ->
  lim_errs_old prev now = true.
Proof.
  induction now as [|n nr IH]; intros prev H; [reflexivity|]. cbn [lim_errs_old]. apply andb_true_iff. split.
  - destruct (lim_err n) eqn:E; [|reflexivity]. cbn. destruct (H 0 n eq_refl E) as [q [Hq Lq]].
    destruct prev as [|q0 pr]; [discriminate|]. cbn in Hq. injection Hq as ->. exact Lq.
  - apply IH. intros i m Hm Lm. destruct (H (S i) m Hm Lm) as [q [Hq Lq]]. exists q. split; [|exact Lq].
    destruct prev; [discriminate|exact Hq].
Qed.

Definition lim_origin (s : state) (i : nat) : Prop :=
  exists t, nth_error (threads s) i = Some t /\ t_dial t = false /\ t_onconn t = false /\
            t_pc t = PDone (RErr E_LIMITED).

Lemma clause9_holds : forall da s o, reachable da s -> quiescent s -> pending s = [] ->
  limited_err_ok (obs_of s) (obs_of (apply_op s o)) = true.
Proof.
  intros da s o R Q P. unfold limited_err_ok.
  destruct (direct_added (obs_of s) (obs_of (apply_op s o))) eqn:D; [reflexivity|]. cbn [orb].
  assert (ND : ~ da_conns (conns s) (conns (stimulate s o))).
  { intros X. assert (Y : da_conns (conns s) (conns (apply_op s o))) by (unfold apply_op; rewrite settle_conns; exact X).
    apply direct_added_iff in Y. congruence. }
  set (s1 := stimulate s o).
  assert (R1 : reachable da s1).
  { unfold s1. destruct o; cbn [stimulate]; repeat apply reachable_do_step; try exact R.
    apply reachable_expire_all. exact R. }
  set (Pred := fun x => reachable da x /\ closedw x = closedw s /\
                 forall i t', nth_error (threads x) i = Some t' -> t_dial t' = false -> t_onconn t' = false ->
                              flaggedb (closedw s) t' = true -> lim_origin s i).
  assert (P1 : Pred s1).
  { split; [exact R1|]. split; [apply stimulate_closedw; assumption|].
    intros i t1 Ht1 Hd Ho Hf. destruct (stimulate_srel s o i t1 Ht1 Hd Ho) as [[t [Ht [Hp [Hd0 Ho0]]]]|U].
    - exists t. split; [exact Ht|]. split; [exact Hd0|]. split; [exact Ho0|].
      unfold flaggedb in Hf. rewrite <- Hp in Hf.
      destruct (t_pc t) as [| | |rid|c| |w| |w|c|c|c|[c|e]] eqn:Hpc; try discriminate.
      + (* PWaiting with a closed channel: not at a quiescent state *)
        destruct (quiescent_waiting s i t w Q Ht Hpc) as [_ [M _]]. congruence.
      + (* PWoken is never quiescent *)
        specialize (Q i). unfold thread_step in Q. rewrite Ht, Hpc in Q.
        destruct (best_conn (conns s)) as [c|]; [destruct (c_lim (get_conn (conns s) c))|]; discriminate.
      + apply Nat.eqb_eq in Hf. subst e. reflexivity.
    - rewrite (uf_unflagged _ _ U) in Hf. discriminate. }
  assert (P2 : Pred (apply_op s o)).
  { unfold apply_op. fold s1. apply settle_inv; [|exact P1].
    intros x tid x' [Rx [Cx Fx]] Hs.
    assert (Rx' : reachable da x').
    { assert (E : x' = do_step x (AThread tid)) by (unfold do_step; rewrite Hs; reflexivity).
      rewrite E. apply reachable_do_step. exact Rx. }
    destruct (step_thread_inv _ _ _ Hs) as [x1 [H1 ->]]. destruct (cleanup_same x1) as [A [_ [C _]]].
    destruct (thread_step_frame _ _ _ H1) as [ta [tb F1]].
    split; [exact Rx'|]. split; [rewrite C, (F_closedw _ _ _ _ _ F1); exact Cx|].
    rewrite A. intros i t' Ht' Hd Ho Hf. destruct (Nat.eq_dec tid i) as [->|Ne].
    - pose proof (F_old _ _ _ _ _ F1) as Hold.
      assert (Et : t' = tb).
      { rewrite (F_new _ _ _ _ _ F1) in Ht'. rewrite nth_error_set_nth_eq in Ht'; [congruence|eapply nth_error_lt; eauto]. }
      subst t'.
      assert (Hd0 : t_dial ta = false) by (rewrite <- (F_dial _ _ _ _ _ F1); exact Hd).
      assert (Ho0 : t_onconn ta = false) by (rewrite <- (F_onconn _ _ _ _ _ F1); exact Ho).
      destruct (thread_step_flag x i x1 ta (reachable_InvA _ _ Rx) (reachable_InvB _ _ Rx) H1 Hold Hd0 Ho0)
        as [t1 [T1 Imp]].
      rewrite (F_new _ _ _ _ _ F1) in T1. rewrite nth_error_set_nth_eq in T1 by (eapply nth_error_lt; eauto).
      injection T1 as <-. rewrite Cx in Imp. apply (Fx i ta Hold Hd0 Ho0). apply Imp. exact Hf.
    - rewrite (F_new _ _ _ _ _ F1) in Ht'. rewrite nth_error_set_nth_neq in Ht' by exact Ne. eapply Fx; eauto. }
  destruct P2 as [_ [_ F2]]. cbn [obs_of o_calls]. apply lim_errs_old_intro.
  intros i n Hn Ln. rewrite nth_error_map in Hn.
  destruct (nth_error (threads (apply_op s o)) i) as [t'|] eqn:Ht'; [|discriminate]. injection Hn as <-.
  apply lim_err_iff in Ln. destruct Ln as [Hd [Ho Hpc]].
  destruct (F2 i t' Ht' Hd Ho) as [t [Ht [Hd0 [Ho0 Hp0]]]]; [unfold flaggedb; rewrite Hpc; reflexivity|].
  exists (call_of s t). split; [rewrite nth_error_map, Ht; reflexivity|]. apply lim_err_iff. auto.
Qed.

(* ---- clause 11: nobody waits while a usable non-limited connection is listed -------------------- *)
Lemma clause11_holds : forall da s, reachable da s -> quiescent s -> pending s = [] ->
  no_waiter_with_direct (obs_of s) = true.
Proof.
  intros da s R Q P. unfold no_waiter_with_direct. destruct (has_direct (o_conns (obs_of s))) eqn:H; [|reflexivity].
  cbn [negb orb]. unfold has_direct in H. cbn [obs_of o_conns o_calls] in *.
  apply existsb_exists in H. destruct H as [k [Hk Hb]]. apply in_map_iff in Hk. destruct Hk as [c [<- Hc]].
  cbn in Hb. apply andb_true_iff in Hb. destruct Hb as [Hu Hl]. apply negb_true_iff in Hl.
  apply In_nth_error in Hc. destruct Hc as [i Hi].
  assert (W : waiters s = []).
  { apply (no_lost_wakeup_l da s i R); [eapply nth_error_lt; eauto| | |exact P]; rewrite (get_conn_nth _ _ _ Hi); assumption. }
  apply Nat.eqb_eq. rewrite <- (clause2_at_quiescence da s R Q), W. reflexivity.
Qed.

(* C12 — invariant B: the waiter list (directConnNotifs.m[p]).  Every channel
   ever registered is in exactly one of: the list, closed by addConn, removed
   by its own waiter; every entry of the list has exactly one live owner. *)
From Coq Require Import List Arith ZArith Bool Lia Permutation.
From Verif Require Import c12.Model c12.Proofs_conn c12.Proofs_inv.
Import ListNotations.

Definition owns (t : thread) (w : nat) : Prop := t_pc t = PWaiting w \/ t_pc t = PExpired w.

Definition wl (s : state) : list nat := waiters s ++ closedw s ++ removedw s.

Record InvB (s : state) : Prop := mkInvB {
  B1 : NoDup (wl s);
  B2 : forall w, In w (wl s) -> w < nextw s;
  B3 : forall w, In w (waiters s) -> exists tid t, nth_error (threads s) tid = Some t /\ owns t w;
  B4 : forall tid t w, nth_error (threads s) tid = Some t -> owns t w -> In w (waiters s) \/ In w (closedw s);
  B5 : forall i j t1 t2 w, nth_error (threads s) i = Some t1 -> nth_error (threads s) j = Some t2 ->
         owns t1 w -> owns t2 w -> i = j }.

Lemma InvB_init : forall da, InvB (init_state da).
Proof.
  intros da. constructor; unfold wl; cbn; intros; try contradiction.
  - constructor.
  - destruct tid; discriminate.
  - destruct i; discriminate.
Qed.

(* two thread lists with the same owners at every index *)
Definition same_owners (ths ths' : list thread) : Prop :=
  length ths = length ths' /\
  forall j t x, nth_error ths j = Some t -> nth_error ths' j = Some x -> forall w, owns t w <-> owns x w.

Lemma same_owners_refl : forall ths, same_owners ths ths.
Proof. intros ths. split; [reflexivity|]. intros j t x H1 H2 w. rewrite H1 in H2. injection H2 as <-. tauto. Qed.

Lemma same_owners_trans : forall a b c, same_owners a b -> same_owners b c -> same_owners a c.
Proof.
  intros a b c [L1 H1] [L2 H2]. split; [congruence|]. intros j t x Ht Hx w.
  destruct (nth_error b j) as [y|] eqn:Hy.
  - rewrite (H1 j t y Ht Hy w). apply (H2 j y x Hy Hx).
  - exfalso. apply nth_error_None in Hy. apply nth_error_lt in Ht. lia.
Qed.

Lemma same_owners_set : forall ths i t x,
  nth_error ths i = Some t -> (forall w, owns t w <-> owns x w) -> same_owners ths (set_nth ths i x).
Proof.
  intros ths i t x Ht H. split; [rewrite set_nth_length; reflexivity|]. intros j t0 x0 H1 H2 w.
  apply nth_error_set_nth in H2. destruct H2 as [[E [-> _]]|[_ H2]].
  - subst j. rewrite Ht in H1. injection H1 as <-. apply H.
  - rewrite H1 in H2. injection H2 as <-. tauto.
Qed.

Lemma same_owners_app : forall ths x, (forall w, ~ owns x w) ->
  length ths = length ths ->
  (forall j t, nth_error (ths ++ [x]) j = Some t -> nth_error ths j = Some t \/ (j = length ths /\ t = x)).
Proof.
  intros ths x _ _ j t H. destruct (Nat.lt_ge_cases j (length ths)) as [L|L].
  - rewrite nth_error_app1 in H by exact L. auto.
  - rewrite nth_error_app2 in H by exact L. destruct (j - length ths) eqn:E; [|destruct n; discriminate].
    cbn in H. injection H as <-. right. split; [lia|reflexivity].
Qed.

(* InvB is insensitive to anything but these components *)
Lemma InvB_same_owners : forall s s',
  waiters s' = waiters s -> closedw s' = closedw s -> removedw s' = removedw s -> nextw s' = nextw s ->
  same_owners (threads s) (threads s') -> InvB s -> InvB s'.
Proof.
  intros s s' E1 E2 E3 E4 [L SO] [H1 H2 H3 H4 H5].
  assert (Back : forall j x, nth_error (threads s') j = Some x -> exists t, nth_error (threads s) j = Some t).
  { intros j x Hx. destruct (nth_error (threads s) j) eqn:E; [eauto|].
    apply nth_error_None in E. apply nth_error_lt in Hx. lia. }
  constructor; unfold wl in *; rewrite ?E1, ?E2, ?E3, ?E4; auto.
  - intros w Hw. destruct (H3 w Hw) as [tid [t [Ht Ho]]].
    destruct (nth_error (threads s') tid) as [x|] eqn:Hx.
    + exists tid, x. split; [exact Hx|]. apply (SO tid t x Ht Hx w). exact Ho.
    + exfalso. apply nth_error_None in Hx. apply nth_error_lt in Ht. lia.
  - intros tid x w Hx Ho. destruct (Back tid x Hx) as [t Ht]. apply (H4 tid t w Ht). apply (SO tid t x Ht Hx w). exact Ho.
  - intros i j x1 x2 w Hx1 Hx2 O1 O2. destruct (Back i x1 Hx1) as [t1 Ht1]. destruct (Back j x2 Hx2) as [t2 Ht2].
    apply (H5 i j t1 t2 w Ht1 Ht2); [apply (SO i t1 x1 Ht1 Hx1 w)|apply (SO j t2 x2 Ht2 Hx2 w)]; assumption.
Qed.

Lemma not_owner_pc : forall t p, (forall w, p <> PWaiting w /\ p <> PExpired w) -> forall w, ~ owns (with_pc t p) w.
Proof. intros t p H w [E|E]; cbn in E; destruct (H w); congruence. Qed.

Lemma deliver_not_owner : forall t r w, ~ owns (deliver t r) w.
Proof. intros t [c|e] w [E|E]; cbn [deliver] in E; try destruct (t_dial t); cbn in E; discriminate. Qed.

Lemma respond_same_owners : forall ths rid tid r, same_owners ths (respond ths rid tid r).
Proof.
  intros ths rid tid r. unfold respond. destruct (nth_error ths tid) as [t|] eqn:Ht; [|apply same_owners_refl].
  destruct (t_pc t) eqn:Hpc; try apply same_owners_refl.
  destruct (Nat.eqb rid rid0); [|apply same_owners_refl].
  eapply same_owners_set; [exact Ht|]. intros w. split.
  - intros [E|E]; congruence.
  - intros O. exfalso. eapply deliver_not_owner; eauto.
Qed.

Lemma deliver_conn_same_owners : forall a c pe ths pe' ths',
  deliver_conn a c pe ths = (pe', ths') -> same_owners ths ths'.
Proof.
  induction pe as [|p r IH]; intros ths pe' ths' H; cbn [deliver_conn] in H.
  - injection H as _ <-. apply same_owners_refl.
  - destruct (mem a (p_addrs p)).
    + eapply same_owners_trans; [apply respond_same_owners|eapply IH; eauto].
    + destruct (deliver_conn a c r ths) as [pe1 ths1] eqn:D. injection H as _ <-. eapply IH; eauto.
Qed.

Lemma dispatch_error_same_owners : forall a cs pe ths pe' ths',
  dispatch_error a cs pe ths = (pe', ths') -> same_owners ths ths'.
Proof.
  induction pe as [|p r IH]; intros ths pe' ths' H; cbn [dispatch_error] in H.
  - injection H as _ <-. apply same_owners_refl.
  - destruct (mem a (p_addrs p)).
    + destruct (remove_nat a (p_addrs p)).
      * eapply same_owners_trans; [apply respond_same_owners|eapply IH; eauto].
      * destruct (dispatch_error a cs r ths) as [pe1 ths1] eqn:D. injection H as _ <-. eapply IH; eauto.
    + destruct (dispatch_error a cs r ths) as [pe1 ths1] eqn:D. injection H as _ <-. eapply IH; eauto.
Qed.

Lemma perm_remove : forall w l, NoDup l -> In w l -> Permutation l (w :: remove_nat w l).
Proof.
  induction l as [|x r IH]; intros ND Hin; [destruct Hin|]. inversion ND as [|? ? Hx ND']; subst.
  unfold remove_nat. cbn [filter]. destruct (Nat.eqb w x) eqn:E; cbn [negb].
  - apply Nat.eqb_eq in E. subst x. apply perm_skip.
    assert (F : filter (fun y => negb (Nat.eqb w y)) r = r).
    { clear -Hx. induction r as [|y q IHq]; [reflexivity|]. cbn [filter].
      destruct (Nat.eqb w y) eqn:E; cbn [negb].
      - apply Nat.eqb_eq in E. subst y. exfalso. apply Hx. left. reflexivity.
      - f_equal. apply IHq. intros H. apply Hx. right. exact H. }
    rewrite F. apply Permutation_refl.
  - destruct Hin as [->|Hin]; [rewrite Nat.eqb_refl in E; discriminate|].
    eapply perm_trans; [apply perm_skip; apply (IH ND' Hin)|apply perm_swap].
Qed.

Lemma remove_nat_spec : forall w l x, In x (remove_nat w l) <-> In x l /\ x <> w.
Proof.
  intros w l x. unfold remove_nat. rewrite filter_In. split; intros [H1 H2]; split; auto.
  - apply negb_true_iff in H2. apply Nat.eqb_neq in H2. auto.
  - apply negb_true_iff. apply Nat.eqb_neq. auto.
Qed.

Lemma owns_fun : forall t w w', owns t w -> owns t w' -> w = w'.
Proof. intros t w w' [E|E] [E'|E']; congruence. Qed.

Lemma InvB_set_thread_same : forall s tid t t',
  InvB s -> nth_error (threads s) tid = Some t -> (forall w, owns t w <-> owns t' w) ->
  InvB (set_thread s tid t').
Proof.
  intros s tid t t' HI Ht H. eapply InvB_same_owners; [..|exact HI]; try reflexivity.
  ssimpl. eapply same_owners_set; eauto.
Qed.

(* a thread gives up a channel that is no longer in the list *)
Lemma InvB_drop_owner : forall s tid t t' w,
  InvB s -> nth_error (threads s) tid = Some t -> owns t w -> ~ In w (waiters s) ->
  (forall w', ~ owns t' w') -> InvB (set_thread s tid t').
Proof.
  intros s tid t t' w [H1 H2 H3 H4 H5] Ht Ho Hn Hno. constructor; unfold wl in *; ssimpl; auto.
  - intros w' Hw'. destruct (H3 w' Hw') as [i [t1 [Ht1 O1]]]. exists i, t1. split; [|exact O1].
    rewrite nth_error_set_nth_neq; [exact Ht1|]. intros ->. rewrite Ht in Ht1. injection Ht1 as <-.
    rewrite (owns_fun _ _ _ Ho O1) in Hn. contradiction.
  - intros j x w' Hx Ox. apply nth_error_set_nth in Hx. destruct Hx as [[_ [-> _]]|[_ Hx]]; [|eauto].
    exfalso. eapply Hno; eauto.
  - intros i j x1 x2 w' Hx1 Hx2 O1 O2.
    apply nth_error_set_nth in Hx1. destruct Hx1 as [[_ [-> _]]|[_ Hx1]]; [exfalso; eapply Hno; eauto|].
    apply nth_error_set_nth in Hx2. destruct Hx2 as [[_ [-> _]]|[_ Hx2]]; [exfalso; eapply Hno; eauto|].
    eauto.
Qed.

Lemma nodup_disjoint_wc : forall s w, NoDup (wl s) -> In w (closedw s) -> ~ In w (waiters s).
Proof.
  intros s w ND Hc Hw. unfold wl in ND.
  revert ND. generalize (waiters s) Hw. induction l as [|x r IH]; intros Hin ND; [destruct Hin|].
  cbn in ND. inversion ND as [|? ? Hx ND']; subst. destruct Hin as [->|Hin].
  - apply Hx. apply in_or_app. right. apply in_or_app. left. exact Hc.
  - apply IH; assumption.
Qed.

Lemma NoDup_app_l : forall A (a b : list A), NoDup (a ++ b) -> NoDup a.
Proof.
  induction a as [|x r IH]; intros b H; [constructor|]. cbn in H. inversion H as [|? ? Hx ND]; subst.
  constructor; [|eapply IH; eauto]. intros Hin. apply Hx. apply in_or_app. auto.
Qed.

Lemma InvB_register : forall s tid t,
  InvB s -> nth_error (threads s) tid = Some t -> (forall w, ~ owns t w) ->
  InvB (set_wl (set_thread s tid (with_pc t (PWaiting (nextw s))))
               (waiters s ++ [nextw s]) (closedw s) (removedw s) (S (nextw s))).
Proof.
  intros s tid t [H1 H2 H3 H4 H5] Ht Hno. unfold wl in *.
  assert (Fresh : ~ In (nextw s) (waiters s ++ closedw s ++ removedw s)).
  { intros Hin. apply H2 in Hin. lia. }
  assert (L : tid < length (threads s)) by (eapply nth_error_lt; eauto).
  constructor; unfold wl; ssimpl.
  - eapply Permutation_NoDup; [|apply NoDup_cons; [exact Fresh|exact H1]].
    rewrite <- app_assoc. cbn [app]. apply Permutation_middle.
  - intros w Hw. rewrite <- app_assoc in Hw. apply in_app_or in Hw. destruct Hw as [Hw|[<-|Hw]]; [|lia|].
    + assert (w < nextw s) by (apply H2; apply in_or_app; auto). lia.
    + assert (w < nextw s) by (apply H2; apply in_or_app; auto). lia.
  - intros w Hw. apply in_app_or in Hw. destruct Hw as [Hw|[<-|[]]].
    + destruct (H3 w Hw) as [i [t1 [Ht1 O1]]]. exists i, t1. split; [|exact O1].
      rewrite nth_error_set_nth_neq; [exact Ht1|]. intros ->. rewrite Ht in Ht1. injection Ht1 as <-.
      eapply Hno; eauto.
    + exists tid, (with_pc t (PWaiting (nextw s))). split; [apply nth_error_set_nth_eq; exact L|left; reflexivity].
  - intros j x w Hx Ox. apply nth_error_set_nth in Hx. destruct Hx as [[_ [-> _]]|[_ Hx]].
    + destruct Ox as [E|E]; cbn in E; [|discriminate]. injection E as <-. left. apply in_or_app. right. left. reflexivity.
    + destruct (H4 j x w Hx Ox); [left; apply in_or_app|right]; auto.
  - intros i j x1 x2 w Hx1 Hx2 O1 O2.
    assert (Old : forall k x, nth_error (threads s) k = Some x -> owns x w -> w <> nextw s).
    { intros k x Hk Ok E. subst w. apply Fresh. destruct (H4 k x _ Hk Ok); apply in_or_app; [left|right; apply in_or_app; left]; assumption. }
    apply nth_error_set_nth in Hx1. apply nth_error_set_nth in Hx2.
    destruct Hx1 as [[E1 [-> _]]|[N1 Hx1]]; destruct Hx2 as [[E2 [-> _]]|[N2 Hx2]]; try congruence.
    + exfalso. destruct O1 as [E|E]; cbn in E; [|discriminate]. injection E as <-. eapply Old; eauto.
    + exfalso. destruct O2 as [E|E]; cbn in E; [|discriminate]. injection E as <-. eapply Old; eauto.
    + eauto.
Qed.

Lemma InvB_expire_remove : forall s tid t w t',
  InvB s -> nth_error (threads s) tid = Some t -> owns t w -> In w (waiters s) -> (forall w', ~ owns t' w') ->
  InvB (set_wl (set_thread s tid t') (remove_nat w (waiters s)) (closedw s) (removedw s ++ [w]) (nextw s)).
Proof.
  intros s tid t w t' [H1 H2 H3 H4 H5] Ht Ho Hin Hno. unfold wl in *.
  assert (NDW : NoDup (waiters s)) by (eapply NoDup_app_l; eauto).
  constructor; unfold wl; ssimpl.
  - eapply Permutation_NoDup; [|exact H1].
    eapply perm_trans; [apply Permutation_app_tail; apply (perm_remove w _ NDW Hin)|].
    cbn [app]. eapply perm_trans; [apply Permutation_cons_append|].
    rewrite <- !app_assoc. apply Permutation_refl.
  - intros x Hx. apply H2. apply in_app_or in Hx. destruct Hx as [Hx|Hx].
    + apply remove_nat_spec in Hx. apply in_or_app. tauto.
    + apply in_app_or in Hx. destruct Hx as [Hx|Hx]; [apply in_or_app; right; apply in_or_app; auto|].
      apply in_app_or in Hx. destruct Hx as [Hx|[<-|[]]]; [apply in_or_app; right; apply in_or_app; auto|].
      apply in_or_app. auto.
  - intros w' Hw'. apply remove_nat_spec in Hw'. destruct Hw' as [Hw' Hne].
    destruct (H3 w' Hw') as [i [t1 [Ht1 O1]]]. exists i, t1. split; [|exact O1].
    rewrite nth_error_set_nth_neq; [exact Ht1|]. intros ->. rewrite Ht in Ht1. injection Ht1 as <-.
    apply Hne. eapply owns_fun; eauto.
  - intros j x w' Hx Ox. apply nth_error_set_nth in Hx. destruct Hx as [[_ [-> _]]|[Nj Hx]]; [exfalso; eapply Hno; eauto|].
    destruct (H4 j x w' Hx Ox) as [Hw|Hc]; [|auto]. left. apply remove_nat_spec. split; [exact Hw|].
    intros ->. apply Nj. symmetry. eapply H5; eauto.
  - intros i j x1 x2 w' Hx1 Hx2 O1 O2.
    apply nth_error_set_nth in Hx1. destruct Hx1 as [[_ [-> _]]|[_ Hx1]]; [exfalso; eapply Hno; eauto|].
    apply nth_error_set_nth in Hx2. destruct Hx2 as [[_ [-> _]]|[_ Hx2]]; [exfalso; eapply Hno; eauto|].
    eauto.
Qed.

Lemma InvB_notify : forall s pd,
  InvB s -> InvB (set_pending (set_wl s [] (closedw s ++ waiters s) (removedw s) (nextw s)) pd).
Proof.
  intros s pd [H1 H2 H3 H4 H5]. unfold wl in *. constructor; unfold wl; ssimpl; auto.
  - eapply Permutation_NoDup; [|exact H1]. cbn [app]. rewrite !app_assoc.
    apply Permutation_app_tail. apply Permutation_app_comm.
  - intros w Hw. apply H2. cbn [app] in Hw. apply in_app_or in Hw.
    destruct Hw as [Hw|Hw]; [|apply in_or_app; right; apply in_or_app; auto].
    apply in_app_or in Hw. destruct Hw; apply in_or_app; [right; apply in_or_app|]; auto.
  - intros w [].
  - intros j x w Hx Ox. right. destruct (H4 j x w Hx Ox); apply in_or_app; auto.
Qed.

(* replacing a thread that owns nothing by one that owns nothing *)
Lemma InvB_plain : forall s tid t t',
  InvB s -> nth_error (threads s) tid = Some t -> (forall w, ~ owns t w) -> (forall w, ~ owns t' w) ->
  InvB (set_thread s tid t').
Proof.
  intros s tid t t' HI Ht N1 N2. eapply InvB_set_thread_same; [exact HI|exact Ht|].
  intros w. split; intros O; exfalso; [eapply N1|eapply N2]; eauto.
Qed.

Lemma not_owner_of_pc : forall t, (forall w, t_pc t <> PWaiting w /\ t_pc t <> PExpired w) -> forall w, ~ owns t w.
Proof. intros t H w [E|E]; destruct (H w); congruence. Qed.

Lemma InvB_wk : forall s tr pe fl b nr dl, InvB s -> InvB (set_wk s tr pe fl b nr dl).
Proof. intros. eapply InvB_same_owners; [..|eassumption]; try reflexivity. apply same_owners_refl. Qed.

Lemma worker_request_InvB : forall s tid t,
  InvB s -> nth_error (threads s) tid = Some t -> t_pc t = PDialReq -> InvB (worker_request s tid t).
Proof.
  intros s tid t HI Ht Hpc.
  assert (N : forall w, ~ owns t w) by (apply not_owner_of_pc; intros w; rewrite Hpc; split; discriminate).
  assert (Dl : forall r, InvB (set_thread s tid (deliver t r))).
  { intros r. eapply InvB_plain; eauto. intros w. apply deliver_not_owner. }
  unfold worker_request.
  destruct (best_acceptable (t_force t) (conns s)); [apply Dl|].
  destruct (paddrs s); [apply Dl|].
  destruct (addrs_for_dial (t_force t) (a :: l)); [apply Dl|].
  destruct (scan (tracked s) (a0 :: l0) [] []) as [c|rem td]; [apply Dl|].
  destruct rem; [apply Dl|].
  apply InvB_wk. eapply InvB_plain; eauto. apply not_owner_pc. intros w; split; discriminate.
Qed.

Lemma thread_step_InvB : forall s tid s', InvB s -> thread_step s tid = Some s' -> InvB s'.
Proof.
  intros s tid s' HI H. unfold thread_step in H.
  destruct (nth_error (threads s) tid) as [t|] eqn:Ht; [|discriminate].
  assert (Plain : (forall w, ~ owns t w) -> forall t', (forall w, ~ owns t' w) -> InvB (set_thread s tid t')).
  { intros N t' N'. eapply InvB_plain; eauto. }
  assert (NP : forall p, (forall w, p <> PWaiting w /\ p <> PExpired w) -> forall w, ~ owns (with_pc t p) w).
  { intros p Hp. apply not_owner_pc. exact Hp. }
  destruct (t_pc t) as [| | |rid|c| |w| |w|c|c|c|r] eqn:Hpc;
    try (assert (N : forall w, ~ owns t w)
           by (apply not_owner_of_pc; intros w0; rewrite Hpc; split; discriminate)).
  - destruct (best_conn (conns s)); [injection H as <-; apply Plain; auto; apply NP; intros; split; discriminate|].
    destruct (t_nodial t); [injection H as <-; apply Plain; auto; apply NP; intros; split; discriminate|].
    destruct (Nat.ltb (dial_attempts s) (S (t_dials t))); injection H as <-; apply Plain; auto.
    + apply NP; intros; split; discriminate.
    + intros w [E|E]; cbn in E; discriminate.
  - destruct (best_acceptable (t_force t) (conns s)); injection H as <-; apply Plain; auto.
    + intros w. apply (deliver_not_owner t (ROk n)).
    + apply NP; intros; split; discriminate.
  - destruct (busy s); [discriminate|]. injection H as <-. apply worker_request_InvB; assumption.
  - destruct (t_ctx t); [|discriminate]. injection H as <-. apply Plain; auto. apply NP; intros; split; discriminate.
  - destruct (negb (t_allow t) && c_lim (get_conn (conns s) c)); injection H as <-; apply Plain; auto;
      apply NP; intros; split; discriminate.
  - destruct (best_conn (conns s)) as [c|].
    + destruct (c_lim (get_conn (conns s) c)); injection H as <-.
      * apply InvB_register; assumption.
      * apply Plain; auto. apply NP; intros; split; discriminate.
    + injection H as <-. apply Plain; auto. apply NP; intros; split; discriminate.
  - (* PWaiting *)
    destruct (mem w (closedw s)) eqn:M.
    + injection H as <-. eapply InvB_drop_owner; [exact HI|exact Ht|left; exact Hpc| |].
      * apply nodup_disjoint_wc; [apply (B1 s HI)|apply mem_In; exact M].
      * apply NP; intros; split; discriminate.
    + destruct (t_ctx t); [|discriminate]. injection H as <-.
      eapply InvB_set_thread_same; [exact HI|exact Ht|]. intros w0. unfold owns. cbn [t_pc with_pc]. rewrite Hpc.
      split; intros [E|E]; try discriminate; injection E as <-; auto.
  - destruct (best_conn (conns s)) as [c|]; [destruct (c_lim (get_conn (conns s) c))|]; injection H as <-;
      apply Plain; auto; apply NP; intros; split; discriminate.
  - (* PExpired *)
    destruct (mem w (waiters s)) eqn:M; injection H as <-.
    + eapply InvB_expire_remove; [exact HI|exact Ht|right; exact Hpc|apply mem_In; exact M|].
      apply NP; intros; split; discriminate.
    + eapply InvB_drop_owner; [exact HI|exact Ht|right; exact Hpc| |].
      * intros Hin. apply mem_In in Hin. congruence.
      * apply NP; intros; split; discriminate.
  - destruct (c_lim (get_conn (conns s) c) && negb (t_allow t)); injection H as <-; apply Plain; auto;
      apply NP; intros; split; discriminate.
  - discriminate.
  - destruct (c_closed (get_conn (conns s) c)); injection H as <-; apply Plain; auto;
      apply NP; intros; split; discriminate.
  - discriminate.
Qed.

Lemma InvB_conns : forall s cs, InvB s -> InvB (set_conns s cs).
Proof. intros. eapply InvB_same_owners; [..|eassumption]; try reflexivity. apply same_owners_refl. Qed.
Lemma InvB_pending : forall s pd, InvB s -> InvB (set_pending s pd).
Proof. intros. eapply InvB_same_owners; [..|eassumption]; try reflexivity. apply same_owners_refl. Qed.
Lemma InvB_paddrs : forall s l, InvB s -> InvB (set_paddrs s l).
Proof. intros. eapply InvB_same_owners; [..|eassumption]; try reflexivity. apply same_owners_refl. Qed.

(* a new thread that owns nothing *)
Lemma InvB_new_thread : forall s x, InvB s -> (forall w, ~ owns x w) -> InvB (set_threads s (threads s ++ [x])).
Proof.
  intros s x [H1 H2 H3 H4 H5] N. constructor; unfold wl in *; ssimpl; auto.
  - intros w Hw. destruct (H3 w Hw) as [i [t [Ht O]]]. exists i, t. split; [|exact O].
    rewrite nth_error_app1; [exact Ht|eapply nth_error_lt; eauto].
  - intros j t w Ht O. destruct (same_owners_app (threads s) x N eq_refl j t Ht) as [Ht'|[_ ->]]; [eauto|].
    exfalso. eapply N; eauto.
  - intros i j t1 t2 w Ht1 Ht2 O1 O2.
    destruct (same_owners_app (threads s) x N eq_refl i t1 Ht1) as [Ht1'|[_ ->]]; [|exfalso; eapply N; eauto].
    destruct (same_owners_app (threads s) x N eq_refl j t2 Ht2) as [Ht2'|[_ ->]]; [|exfalso; eapply N; eauto].
    eauto.
Qed.

Lemma step_raw_InvB : forall s a s', InvB s -> step_raw s a = Some s' -> InvB s'.
Proof.
  intros s a s' HI H. destruct a; cbn [step_raw] in H.
  - eapply thread_step_InvB; eauto.
  - unfold thread_step_alt in H. destruct (nth_error (threads s) tid) as [t|] eqn:Ht; [|discriminate].
    destruct (t_pc t) eqn:Hpc; try discriminate. destruct (t_ctx t); [|discriminate]. injection H as <-.
    eapply InvB_set_thread_same; [exact HI|exact Ht|]. intros w0. unfold owns. cbn [t_pc with_pc]. rewrite Hpc.
    split; intros [E|E]; try discriminate; injection E as <-; auto.
  - injection H as <-. destruct lim; [|apply InvB_pending]; apply InvB_conns; exact HI.
  - destruct (mem c (pending s)); [|discriminate]. injection H as <-. apply InvB_notify. exact HI.
  - destruct (Nat.ltb c (length (conns s))); [|discriminate]. injection H as <-. apply InvB_conns. exact HI.
  - destruct (Nat.ltb c (length (conns s))); [|discriminate]. injection H as <-. apply InvB_conns. exact HI.
  - injection H as <-. apply InvB_new_thread; [exact HI|]. intros w [E|E]; destruct dial; discriminate.
  - destruct (Nat.ltb c (length (conns s))); [|discriminate]. injection H as <-.
    apply InvB_new_thread; [exact HI|]. intros w [E|E]; discriminate.
  - destruct (nth_error (threads s) tid) as [t|] eqn:Ht; [|discriminate]. injection H as <-.
    eapply InvB_set_thread_same; [exact HI|exact Ht|]. intros w. unfold owns. cbn. tauto.
  - destruct (nth_error (threads s) tid) as [t|] eqn:Ht; [|discriminate].
    destruct (t_pc t) eqn:Hpc; try discriminate.
    assert (N : forall w, ~ owns t w) by (apply not_owner_of_pc; intros w0; rewrite Hpc; split; discriminate).
    destruct (ok && c_listed (get_conn (conns s) c)); [|destruct (t_onconn t)]; injection H as <-;
      try apply InvB_conns; (eapply InvB_plain; [exact HI|exact Ht|exact N|]); apply not_owner_pc; intros; split; discriminate.
  - injection H as <-. apply InvB_paddrs. exact HI.
  - destruct (busy s); [discriminate|]. destruct (mem a (map fst (inflight s))); [|discriminate].
    destruct ok.
    + injection H as <-. apply InvB_wk. destruct lim; [|apply InvB_pending]; apply InvB_conns; exact HI.
    + destruct (dispatch_error a (conns s) (pend s) (threads s)) as [pe ths] eqn:D. injection H as <-.
      apply InvB_wk. eapply InvB_same_owners; [..|exact HI]; try reflexivity. ssimpl.
      eapply dispatch_error_same_owners; eauto.
  - destruct (busy s) as [[a c]|]; [|discriminate]. destruct (mem c (pending s)); [discriminate|].
    destruct (deliver_conn a c (pend s) (threads s)) as [pe ths] eqn:D. injection H as <-.
    apply InvB_wk. eapply InvB_same_owners; [..|exact HI]; try reflexivity. ssimpl.
    eapply deliver_conn_same_owners; eauto.
  - injection H as <-. apply InvB_new_thread; [exact HI|]. intros w [E|E]; cbn [t_pc] in E;
      destruct (negb force && _); try destruct (best_conn (conns s)); discriminate.
Qed.

Lemma cleanup_InvB : forall s, InvB s -> InvB (cleanup s).
Proof.
  intros s HI. unfold cleanup. destruct (busy s); [exact HI|].
  destruct (existsb is_caller (threads s)); [exact HI|]. apply InvB_wk. exact HI.
Qed.

Lemma step_InvB : forall s a s', InvB s -> step s a = Some s' -> InvB s'.
Proof.
  intros s a s' HI H. unfold step in H. destruct (step_raw s a) as [s1|] eqn:E; [|discriminate].
  cbn in H. injection H as <-. apply cleanup_InvB. eapply step_raw_InvB; eauto.
Qed.

Lemma run_InvB : forall acts s, InvB s -> InvB (run s acts).
Proof.
  induction acts as [|a r IH]; intros s HI; [exact HI|]. cbn [run fold_left]. apply IH.
  unfold do_step. destruct (step s a) eqn:E; [eapply step_InvB; eauto|exact HI].
Qed.

Lemma reachable_InvB : forall da s, reachable da s -> InvB s.
Proof. intros da s [acts ->]. apply run_InvB. apply InvB_init. Qed.

(* ---- waiter_released_exactly_once ----------------------------------------------------------- *)
(* In every reachable state: every channel ever registered (w < nextw) is in
   exactly one of {still in the list, closed by addConn, removed by its own
   waiter}, each at most once; an entry in the list has exactly one live owner
   (a call blocked in, or leaving, the select); a call that has left the wait owns
   no entry.  Hence no channel is closed twice, no entry outlives its call, and a
   call is released at most once. *)
Lemma waiter_released_exactly_once_l : forall da s, reachable da s ->
  NoDup (waiters s ++ closedw s ++ removedw s) /\
  (forall w, In w (waiters s ++ closedw s ++ removedw s) -> w < nextw s) /\
  (forall w, In w (waiters s) ->
     exists tid t, nth_error (threads s) tid = Some t /\ (t_pc t = PWaiting w \/ t_pc t = PExpired w)) /\
  (forall i j t1 t2 w, nth_error (threads s) i = Some t1 -> nth_error (threads s) j = Some t2 ->
     (t_pc t1 = PWaiting w \/ t_pc t1 = PExpired w) -> (t_pc t2 = PWaiting w \/ t_pc t2 = PExpired w) -> i = j) /\
  (forall tid t w, nth_error (threads s) tid = Some t -> t_pc t = PWaiting w ->
     In w (waiters s) \/ In w (closedw s)).
Proof.
  intros da s R. destruct (reachable_InvB da s R) as [H1 H2 H3 H4 H5]. unfold wl in *.
  repeat split; auto.
  intros tid t w Ht Hpc. apply (H4 tid t w Ht). left. exact Hpc.
Qed.

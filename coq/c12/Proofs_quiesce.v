(* C12 — "every call runs until it blocks": one call step touches only its own
   thread (frame), strictly lowers the rank sum, hence the runner [settle]
   reaches a quiescent state; predicates preserved by call steps survive it. *)
From Coq Require Import List Arith ZArith Bool Lia.
From Verif Require Import lib.Wire c12.Model c12.SpecSwarm c12.Proofs_conn c12.Proofs_inv.
Import ListNotations.

Record tframe (s : state) (tid : nat) (s' : state) (t t' : thread) : Prop := mkTF {
  F_old : nth_error (threads s) tid = Some t;
  F_new : threads s' = set_nth (threads s) tid t';
  F_rank : rank (t_pc t') < rank (t_pc t);
  F_ctx : t_ctx t' = t_ctx t;
  F_dial : t_dial t' = t_dial t;
  F_allow : t_allow t' = t_allow t;
  F_force : t_force t' = t_force t;
  F_nodial : t_nodial t' = t_nodial t;
  F_onconn : t_onconn t' = t_onconn t;
  F_conns : conns s' = conns s;
  F_closedw : closedw s' = closedw s;
  F_pending : pending s' = pending s;
  F_nextw : nextw s <= nextw s' }.

Lemma deliver_rank : forall t r, rank (t_pc (deliver t r)) <= 7.
Proof. intros t [c|e]; cbn [deliver]; [destruct (t_dial t)|]; cbn; lia. Qed.

Lemma deliver_fields : forall t r,
  t_ctx (deliver t r) = t_ctx t /\ t_dial (deliver t r) = t_dial t /\ t_allow (deliver t r) = t_allow t /\
  t_force (deliver t r) = t_force t /\ t_nodial (deliver t r) = t_nodial t /\ t_onconn (deliver t r) = t_onconn t.
Proof. intros t [c|e]; cbn [deliver]; [destruct (t_dial t) eqn:D|]; cbn; rewrite ?D; repeat split; reflexivity. Qed.

Lemma tframe_deliver : forall s tid t r,
  nth_error (threads s) tid = Some t -> 8 <= rank (t_pc t) ->
  tframe s tid (set_thread s tid (deliver t r)) t (deliver t r).
Proof.
  intros s tid t r Ht Hr. pose proof (deliver_rank t r). destruct (deliver_fields t r) as [A [B [C [D [E F]]]]].
  constructor; ssimpl; auto; lia.
Qed.

Lemma tframe_pc : forall s tid t p,
  nth_error (threads s) tid = Some t -> rank p < rank (t_pc t) ->
  tframe s tid (set_thread s tid (with_pc t p)) t (with_pc t p).
Proof. intros s tid t p Ht Hr. constructor; ssimpl; auto. Qed.

(* the same thread update with other components changed *)
Lemma tframe_other : forall s tid s1 s' t t',
  tframe s tid s1 t t' -> threads s' = threads s1 -> conns s' = conns s1 -> closedw s' = closedw s1 ->
  pending s' = pending s1 -> nextw s1 <= nextw s' -> tframe s tid s' t t'.
Proof.
  intros s tid s1 s' t t' [A B C D E F G H I J K L M] E1 E2 E3 E4 E5.
  constructor; auto; try congruence. lia.
Qed.

Lemma worker_request_frame : forall s tid t,
  nth_error (threads s) tid = Some t -> t_pc t = PDialReq ->
  exists t', tframe s tid (worker_request s tid t) t t'.
Proof.
  intros s tid t Ht Hpc. unfold worker_request.
  assert (R : 8 <= rank (t_pc t)) by (rewrite Hpc; cbn; lia).
  destruct (best_acceptable (t_force t) (conns s)); [eexists; apply tframe_deliver; auto|].
  destruct (paddrs s); [eexists; apply tframe_deliver; auto|].
  destruct (addrs_for_dial (t_force t) (a :: l)); [eexists; apply tframe_deliver; auto|].
  destruct (scan (tracked s) (a0 :: l0) [] []) as [c|rem td]; [eexists; apply tframe_deliver; auto|].
  destruct rem; [eexists; apply tframe_deliver; auto|].
  eexists. eapply tframe_other; [apply (tframe_pc s tid t (PDialWait (nextr s)) Ht); rewrite Hpc; cbn; lia|..];
    ssimpl; auto.
Qed.

Lemma thread_step_frame : forall s tid s', thread_step s tid = Some s' ->
  exists t t', tframe s tid s' t t'.
Proof.
  intros s tid s' H. unfold thread_step in H.
  destruct (nth_error (threads s) tid) as [t|] eqn:Ht; [|discriminate]. exists t.
  assert (P : forall p, rank p < rank (t_pc t) -> exists t', tframe s tid (set_thread s tid (with_pc t p)) t t').
  { intros p Hp. eexists. apply tframe_pc; assumption. }
  destruct (t_pc t) as [| | |rid|c| |w| |w|c|c|c|r] eqn:Hpc.
  - destruct (best_conn (conns s)); [injection H as <-; apply P; cbn; lia|].
    destruct (t_nodial t); [injection H as <-; apply P; cbn; lia|].
    destruct (Nat.ltb (dial_attempts s) (S (t_dials t))); injection H as <-; [apply P; cbn; lia|].
    eexists. constructor; ssimpl; try reflexivity; try exact Ht; try lia; cbn [t_pc with_pc with_dials]; rewrite ?Hpc; cbn; lia.
  - destruct (best_acceptable (t_force t) (conns s)); injection H as <-; [|apply P; cbn; lia].
    exists (deliver t (ROk n)). apply (tframe_deliver s tid t (ROk n) Ht). rewrite Hpc; cbn; lia.
  - destruct (busy s); [discriminate|]. injection H as <-. apply worker_request_frame; assumption.
  - destruct (t_ctx t); [|discriminate]. injection H as <-. apply P; cbn; lia.
  - destruct (negb (t_allow t) && c_lim (get_conn (conns s) c)); injection H as <-; apply P; cbn; lia.
  - destruct (best_conn (conns s)) as [c|]; [|injection H as <-; apply P; cbn; lia].
    destruct (c_lim (get_conn (conns s) c)); injection H as <-; [|apply P; cbn; lia].
    eexists. eapply tframe_other; [apply (tframe_pc s tid t (PWaiting (nextw s)) Ht); rewrite Hpc; cbn; lia|..];
      ssimpl; auto.
  - destruct (mem w (closedw s)); [injection H as <-; apply P; cbn; lia|].
    destruct (t_ctx t); [|discriminate]. injection H as <-. apply P; cbn; lia.
  - destruct (best_conn (conns s)) as [c|]; [destruct (c_lim (get_conn (conns s) c))|]; injection H as <-;
      apply P; cbn; lia.
  - destruct (mem w (waiters s)); injection H as <-; [|apply P; cbn; lia].
    eexists. eapply tframe_other; [apply (tframe_pc s tid t (PDone (RErr E_CTX)) Ht); rewrite Hpc; cbn; lia|..];
      ssimpl; auto.
  - destruct (c_lim (get_conn (conns s) c) && negb (t_allow t)); injection H as <-; apply P; cbn; lia.
  - discriminate.
  - destruct (c_closed (get_conn (conns s) c)); injection H as <-; apply P; cbn; lia.
  - discriminate.
Qed.

(* ---- cleanup and the runner's step -------------------------------------------------------- *)
Lemma cleanup_same : forall s,
  threads (cleanup s) = threads s /\ conns (cleanup s) = conns s /\ closedw (cleanup s) = closedw s /\
  pending (cleanup s) = pending s /\ nextw (cleanup s) = nextw s /\ waiters (cleanup s) = waiters s /\
  busy (cleanup s) = busy s.
Proof.
  intros s. unfold cleanup. destruct (busy s) eqn:B; [rewrite B; auto 10|].
  destruct (existsb is_caller (threads s)); ssimpl; rewrite ?B; auto 10.
Qed.

Lemma step_thread_inv : forall s tid s', step s (AThread tid) = Some s' ->
  exists s1, thread_step s tid = Some s1 /\ s' = cleanup s1.
Proof.
  intros s tid s' H. unfold step in H. cbn [step_raw] in H.
  destruct (thread_step s tid) as [s1|]; [|discriminate]. cbn in H. injection H as <-. eauto.
Qed.

Lemma step_thread_frame : forall s tid s', step s (AThread tid) = Some s' -> exists t t', tframe s tid s' t t'.
Proof.
  intros s tid s' H. destruct (step_thread_inv _ _ _ H) as [s1 [H1 ->]].
  destruct (thread_step_frame _ _ _ H1) as [t [t' F]]. exists t, t'.
  destruct (cleanup_same s1) as [A [B [C [D [E _]]]]]. eapply tframe_other; eauto. lia.
Qed.

(* ---- the rank sum strictly decreases ---------------------------------------------------------- *)
Definition msum (l : list thread) : nat := fold_right (fun t acc => rank (t_pc t) + acc) 0 l.

Lemma msum_set_nth : forall l i t t', nth_error l i = Some t -> rank (t_pc t') < rank (t_pc t) ->
  msum (set_nth l i t') < msum l.
Proof.
  induction l as [|x r IH]; intros [|i] t t' H Hr; cbn in H; try discriminate.
  - injection H as ->. cbn. lia.
  - cbn [set_nth msum fold_right]. specialize (IH i t t' H Hr). unfold msum in IH. lia.
Qed.

Lemma step_thread_measure : forall s tid s', step s (AThread tid) = Some s' -> measure s' < measure s.
Proof.
  intros s tid s' H. destruct (step_thread_frame _ _ _ H) as [t [t' F]].
  unfold measure. rewrite (F_new _ _ _ _ _ F). apply (msum_set_nth _ _ t t'); [apply (F_old _ _ _ _ _ F)|apply (F_rank _ _ _ _ _ F)].
Qed.

(* ---- quiescence ---------------------------------------------------------------------------------- *)
Definition quiescent (s : state) : Prop := forall tid, thread_step s tid = None.

Lemma step_none_thread_none : forall s tid, step s (AThread tid) = None -> thread_step s tid = None.
Proof.
  intros s tid H. unfold step in H. cbn [step_raw] in H. destruct (thread_step s tid); [discriminate|reflexivity].
Qed.

Lemma first_enabled_none : forall n s i, first_enabled s i n = None ->
  forall tid, i <= tid < i + n -> thread_step s tid = None.
Proof.
  induction n as [|k IH]; intros s i H tid Ht; [lia|]. cbn [first_enabled] in H.
  destruct (step s (AThread i)) eqn:E; [discriminate|].
  destruct (Nat.eq_dec tid i) as [->|N]; [apply step_none_thread_none; exact E|].
  apply (IH s (S i) H). lia.
Qed.

Lemma first_enabled_some : forall n s i s', first_enabled s i n = Some s' ->
  exists tid, step s (AThread tid) = Some s'.
Proof.
  induction n as [|k IH]; intros s i s' H; cbn [first_enabled] in H; [discriminate|].
  destruct (step s (AThread i)) eqn:E; [injection H as <-; eauto|eapply IH; eauto].
Qed.

Lemma thread_step_out_of_range : forall s tid, length (threads s) <= tid -> thread_step s tid = None.
Proof.
  intros s tid H. unfold thread_step. apply nth_error_None in H. rewrite H. reflexivity.
Qed.

Lemma settle_quiescent : forall fuel s, measure s < fuel -> quiescent (settle fuel s).
Proof.
  induction fuel as [|f IH]; intros s Hm; [lia|]. cbn [settle].
  destruct (first_enabled s 0 (length (threads s))) as [s'|] eqn:E.
  - destruct (first_enabled_some _ _ _ _ E) as [tid Hs]. apply IH.
    pose proof (step_thread_measure _ _ _ Hs). lia.
  - intros tid. destruct (Nat.lt_ge_cases tid (length (threads s))) as [L|L].
    + apply (first_enabled_none _ _ _ E). lia.
    + apply thread_step_out_of_range. exact L.
Qed.

Lemma apply_op_quiescent : forall s o, quiescent (apply_op s o).
Proof. intros s o. unfold apply_op. apply settle_quiescent. lia. Qed.

(* a predicate preserved by every call step survives the runner *)
Lemma settle_inv : forall (P : state -> Prop),
  (forall s tid s', P s -> step s (AThread tid) = Some s' -> P s') ->
  forall fuel s, P s -> P (settle fuel s).
Proof.
  intros P HP. induction fuel as [|f IH]; intros s Hs; [exact Hs|]. cbn [settle].
  destruct (first_enabled s 0 (length (threads s))) as [s'|] eqn:E; [|exact Hs].
  destruct (first_enabled_some _ _ _ _ E) as [tid Hstep]. apply IH. eapply HP; eauto.
Qed.

(* what the runner never changes *)
Lemma settle_conns : forall fuel s, conns (settle fuel s) = conns s.
Proof.
  intros fuel s. apply (settle_inv (fun x => conns x = conns s)); [|reflexivity].
  intros x tid x' Hx H. destruct (step_thread_frame _ _ _ H) as [t [t' F]]. rewrite (F_conns _ _ _ _ _ F). exact Hx.
Qed.

Lemma settle_closedw : forall fuel s, closedw (settle fuel s) = closedw s.
Proof.
  intros fuel s. apply (settle_inv (fun x => closedw x = closedw s)); [|reflexivity].
  intros x tid x' Hx H. destruct (step_thread_frame _ _ _ H) as [t [t' F]]. rewrite (F_closedw _ _ _ _ _ F). exact Hx.
Qed.

Lemma settle_pending : forall fuel s, pending (settle fuel s) = pending s.
Proof.
  intros fuel s. apply (settle_inv (fun x => pending x = pending s)); [|reflexivity].
  intros x tid x' Hx H. destruct (step_thread_frame _ _ _ H) as [t [t' F]]. rewrite (F_pending _ _ _ _ _ F). exact Hx.
Qed.

Lemma settle_nthreads : forall fuel s, length (threads (settle fuel s)) = length (threads s).
Proof.
  intros fuel s. apply (settle_inv (fun x => length (threads x) = length (threads s))); [|reflexivity].
  intros x tid x' Hx H. destruct (step_thread_frame _ _ _ H) as [t [t' F]].
  rewrite (F_new _ _ _ _ _ F), set_nth_length. exact Hx.
Qed.

(* C12 — hole-punch cases (kind 1): wire format, conformance and monitor.
     1 1 k r_1..r_k res                     getDirectConnection over k conns (r = relay flag of the remote
                                            address); res = index+1, 0 = nil
     1 2 inbound connrelay k own_1..k m obs_1..m msg sync  EVS
                                            Service.handleNewStream on a stream whose conn is inbound / has a
                                            relay remote address; own = listenAddrs(), obs = ObsAddrs of the
                                            initiator's message (msg 0 read error, 1 CONNECT, 2 SYNC), sync = a
                                            SYNC follows
     1 3 maxRetries k r_1..r_k p a_1..a_p l b_1..b_l dialok n (streamok reply m c_1..c_m connectok)^n  EVS res
                                            holePuncher.directConnect: conns, peerstore addrs, listenAddrs(),
                                            scripted results; res 1 = nil error
     1 4 inbound connrelay started          netNotifiee.Connected: did it go on to DirectConnect?
     address flag = relay + 2*public;  EVS = n ev^n,
     ev = 10 force sim | 11 allow nodial | 12 force sim client m flag^m   (what the host was asked) *)
From Coq Require Import List Arith ZArith Bool.
From Verif Require Import lib.Wire c12.ModelHP.
Import ListNotations.

(* ---- monitor: the property's hole-punch sentences on observations ------------------ *)
Definition ev_ok (e : hev) : bool :=
  match e with
  | EDirectDial force _ => force
  | EStream allow nodial => allow && nodial          (* coordination over an existing connection *)
  | EPunch force _ _ addrs => force && forallb (fun a => negb (h_relay a)) addrs
  end.

Definition coordinates (e : hev) : bool :=
  match e with EStream _ _ | EPunch _ _ _ _ => true | _ => false end.

(* getDirectConnection: non-nil only for a non-relayed conn, nil only if all are relayed *)
Definition mon_get_direct (conns : list bool) (res : option nat) : bool :=
  match res with
  | Some i => match nth_error conns i with Some r => negb r | None => false end
  | None => forallb (fun r => r) conns
  end.

(* receiver: it punches only for a stream over an outbound conn through a relay *)
Definition mon_incoming (inbound conn_relay : bool) (evs : list hev) : bool :=
  forallb ev_ok evs && (match evs with [] => true | _ => negb inbound && conn_relay end).

(* initiator *)
Definition mon_direct_connect (conns : list bool) (dial_ok : bool) (atts : list attempt)
           (evs : list hev) (ok : bool) : bool :=
  forallb ev_ok evs
  (* coordination only while every existing connection is relayed *)
  && (negb (existsb coordinates evs) || forallb (fun r => r) conns)
  (* success only with a direct connection: one existed, or a force-direct Connect succeeded *)
  && (negb ok || existsb negb conns
      || (dial_ok && existsb (fun e => match e with EDirectDial true _ => true | _ => false end) evs)
      || (existsb at_connect_ok atts && existsb (fun e => match e with EPunch true _ _ _ => true | _ => false end) evs)).

Definition mon_notifiee (inbound conn_relay started : bool) : bool :=
  negb started || (inbound && conn_relay).

(* ---- decoding ----------------------------------------------------------------------- *)
Local Open Scope Z_scope.

Definition zn (z : Z) : nat := Z.to_nat z.

Fixpoint haddrs_of (i : nat) (l : list Z) : list haddr :=
  match l with
  | [] => []
  | z :: r => mkHA (Z.testbit z 0) (Z.testbit z 1) i :: haddrs_of (S i) r
  end.

Definition take (k : Z) (l : list Z) : option (list Z * list Z) :=
  if (0 <=? k) && Nat.leb (zn k) (length l) then Some (firstn (zn k) l, skipn (zn k) l) else None.

Fixpoint decode_evs (fuel : nat) (n : nat) (l : list Z) : option (list hev * list Z) :=
  match fuel with
  | O => None
  | S f =>
    match n with
    | O => Some ([], l)
    | S k =>
        match l with
        | 10 :: fo :: si :: r =>
            match decode_evs f k r with
            | Some (es, r') => Some (EDirectDial (zbool fo) (zbool si) :: es, r') | None => None end
        | 11 :: al :: nd :: r =>
            match decode_evs f k r with
            | Some (es, r') => Some (EStream (zbool al) (zbool nd) :: es, r') | None => None end
        | 12 :: fo :: si :: cl :: m :: r =>
            match take m r with
            | Some (fl, r1) =>
                match decode_evs f k r1 with
                | Some (es, r') => Some (EPunch (zbool fo) (zbool si) (zbool cl) (haddrs_of 0 fl) :: es, r')
                | None => None end
            | None => None
            end
        | _ => None
        end
    end
  end.

Fixpoint decode_atts (fuel : nat) (n : nat) (l : list Z) : option (list attempt * list Z) :=
  match fuel with
  | O => None
  | S f =>
    match n with
    | O => Some ([], l)
    | S k =>
        match l with
        | so :: rp :: m :: r =>
            match take m r with
            | Some (fl, co :: r1) =>
                match decode_atts f k r1 with
                | Some (as_, r') => Some (mkAtt (zbool so) (zn rp) (haddrs_of 0 fl) (zbool co) :: as_, r')
                | None => None end
            | _ => None
            end
        | _ => None
        end
    end
  end.

Definition haddr_eqb (a b : haddr) : bool :=
  Bool.eqb (h_relay a) (h_relay b) && Bool.eqb (h_public a) (h_public b) && Nat.eqb (h_id a) (h_id b).

(* the implementation's events carry positions in the list it was given, not in
   the original one; compare relay/public flags in order *)
Definition haddr_flags_eqb (a b : haddr) : bool :=
  Bool.eqb (h_relay a) (h_relay b) && Bool.eqb (h_public a) (h_public b).

Definition hev_eqb (a b : hev) : bool :=
  match a, b with
  | EDirectDial f s, EDirectDial f' s' => Bool.eqb f f' && Bool.eqb s s'
  | EStream x y, EStream x' y' => Bool.eqb x x' && Bool.eqb y y'
  | EPunch f s c l, EPunch f' s' c' l' =>
      Bool.eqb f f' && Bool.eqb s s' && Bool.eqb c c' && list_eqb haddr_flags_eqb l l'
  | _, _ => false
  end.

(* a decoded hole-punch case: (conformance verdict, monitor verdict) *)
Definition hp_case (l : list Z) : option (bool * bool) :=
  match l with
  | 1 :: k :: r =>
      match take k r with
      | Some (cs, [res]) =>
          let conns := map zbool cs in
          let ro := if res =? 0 then None else Some (zn (res - 1)) in
          Some (match get_direct conns 0, ro with
                | None, None => true | Some i, Some j => Nat.eqb i j | _, _ => false end,
                mon_get_direct conns ro)
      | _ => None
      end
  | 2 :: inb :: cr :: k :: r =>
      match take k r with
      | Some (own, m :: r1) =>
          match take m r1 with
          | Some (obs, msg :: sync :: n :: r2) =>
              match decode_evs (S (length r2)) (zn n) r2 with
              | Some (evs, []) =>
                  Some (list_eqb hev_eqb
                          (incoming (zbool inb) (zbool cr) (haddrs_of 0 own) (haddrs_of 0 obs) (zn msg) (zbool sync)) evs,
                        mon_incoming (zbool inb) (zbool cr) evs)
              | _ => None
              end
          | _ => None
          end
      | _ => None
      end
  | 3 :: mr :: k :: r =>
      match take k r with
      | Some (cs, p :: r1) =>
          match take p r1 with
          | Some (ps, lc :: r2) =>
              match take lc r2 with
              | Some (ls, dok :: na :: r3) =>
                  match decode_atts (S (length r3)) (zn na) r3 with
                  | Some (atts, n :: r4) =>
                      match decode_evs (S (length r4)) (zn n) r4 with
                      | Some (evs, [res]) =>
                          let conns := map zbool cs in
                          let '(mevs, mok) := direct_connect conns (haddrs_of 0 ps) (haddrs_of 0 ls)
                                                (zbool dok) atts (zn mr) in
                          Some (list_eqb hev_eqb mevs evs && Bool.eqb mok (zbool res),
                                mon_direct_connect conns (zbool dok) atts evs (zbool res))
                      | _ => None
                      end
                  | _ => None
                  end
              | _ => None
              end
          | _ => None
          end
      | _ => None
      end
  | [4; inb; cr; st] =>
      Some (Bool.eqb (notifiee_starts (zbool inb) (zbool cr)) (zbool st),
            mon_notifiee (zbool inb) (zbool cr) (zbool st))
  | _ => None
  end.

Definition conform_hp (l : list Z) : list Z :=
  match hp_case l with
  | Some (true, _) => []
  | Some (false, _) => [ERR_MISMATCH; hd 0 l]
  | None => [ERR_MALFORMED; 4]
  end.

Definition monitor_hp (l : list Z) : list Z :=
  match hp_case l with
  | Some (_, true) => []
  | Some (_, false) => [ERR_PROPERTY; 0; 10 + hd 0 l]
  | None => [ERR_MALFORMED; 4]
  end.

(* C12 — the state-predicate clauses (1, 5, 6) of the swarm monitor hold on
   every trace the model produces, for every list of operations. *)
From Coq Require Import List Arith ZArith Bool Lia.
From Verif Require Import lib.Wire c12.Model c12.SpecSwarm c12.Proofs_conn c12.Proofs_inv.
Import ListNotations.

(* ---- the harness-level operations stay inside the transition system ------------------ *)
Lemma reachable_do_step : forall da s a, reachable da s -> reachable da (do_step s a).
Proof.
  intros da s a [acts ->]. exists (acts ++ [a]). unfold run. rewrite fold_left_app. reflexivity.
Qed.

Lemma first_enabled_do_step : forall n s tid s', first_enabled s tid n = Some s' ->
  exists tid', s' = do_step s (AThread tid').
Proof.
  induction n as [|k IH]; intros s tid s' H; cbn [first_enabled] in H; [discriminate|].
  destruct (step s (AThread tid)) as [s1|] eqn:E.
  - injection H as <-. exists tid. unfold do_step. rewrite E. reflexivity.
  - eapply IH; eauto.
Qed.

Lemma reachable_settle : forall da fuel s, reachable da s -> reachable da (settle fuel s).
Proof.
  induction fuel as [|f IH]; intros s R; cbn [settle]; [exact R|].
  destruct (first_enabled s 0 (length (threads s))) as [s1|] eqn:E; [|exact R].
  destruct (first_enabled_do_step _ _ _ _ E) as [tid' ->]. apply IH. apply reachable_do_step. exact R.
Qed.

Lemma reachable_expire_all : forall da n s tid, reachable da s -> reachable da (expire_all s tid n).
Proof.
  induction n as [|k IH]; intros s tid R; cbn [expire_all]; [exact R|]. apply IH.
  destruct (nth_error (threads s) tid) as [t|]; [|exact R].
  destruct (waits t); [apply reachable_do_step|]; exact R.
Qed.

Lemma reachable_apply_op : forall da s o, reachable da s -> reachable da (apply_op s o).
Proof.
  intros da s o R. unfold apply_op. apply reachable_settle.
  destruct o; cbn [stimulate]; repeat apply reachable_do_step; try exact R.
  apply reachable_expire_all. exact R.
Qed.

(* ---- clause 1: what calls returned ---------------------------------------------------------- *)
Lemma status_done_ok : forall s t c, fst (status s t) = 4 -> snd (status s t) = c -> t_pc t = PDone (ROk c).
Proof.
  intros s t c H1 H2. unfold status in *.
  destruct (t_pc t) as [| | |rid|c0| |w| |w|c0|c0|c0|[c0|e]]; cbn in *; try discriminate.
  - destruct (t_ctx t); discriminate.
  - destruct (mem w (closedw s) || t_ctx t); discriminate.
  - destruct (t_dial t && t_onconn t); cbn in *; [discriminate|]. subst c0. reflexivity.
Qed.

Lemma clause1_holds : forall s, InvA s ->
  forallb (result_ok (o_conns (obs_of s))) (o_calls (obs_of s)) = true.
Proof.
  intros s HI. cbn [obs_of o_conns o_calls]. apply forallb_forall. intros co Hco.
  apply in_map_iff in Hco. destruct Hco as [t [<- Hin]].
  apply In_nth_error in Hin. destruct Hin as [tid Ht].
  unfold result_ok. cbn [call_of co_st co_arg co_dial co_allow co_force].
  destruct (Nat.eqb (fst (status s t)) 4) eqn:E; [|reflexivity]. apply Nat.eqb_eq in E.
  pose proof (status_done_ok s t _ E eq_refl) as Hpc.
  destruct (A1 s HI tid t Ht) as [_ K]. rewrite Hpc in K. destruct K as [Kc Kp].
  set (c := snd (status s t)) in *.
  assert (N : nth_error (map conn_of (conns s)) c = Some (conn_of (get_conn (conns s) c))).
  { rewrite nth_error_map. destruct (nth_error (conns s) c) as [x|] eqn:Ex.
    - rewrite (get_conn_nth _ _ _ Ex). reflexivity.
    - apply nth_error_None in Ex. lia. }
  rewrite N. cbn [conn_of k_lim k_proxy fst snd]. destruct (t_dial t).
  - destruct (t_force t); [|reflexivity]. rewrite (Kp eq_refl). reflexivity.
  - destruct (c_lim (get_conn (conns s) c)); [|reflexivity]. rewrite (Kp eq_refl). reflexivity.
Qed.

(* ---- clause 5: Connectedness ------------------------------------------------------------------- *)
Lemma clause5_holds : forall cs, cn_ok (map conn_of cs) (connectedness cs) = true.
Proof.
  intros cs. unfold cn_ok.
  set (us := filter k_usable (map conn_of cs)).
  assert (HD : existsb (fun k => negb (k_lim k)) us = existsb (fun c => usable c && negb (c_lim c)) cs).
  { unfold us. clear us. induction cs as [|c r IH]; [reflexivity|]. cbn [map filter existsb conn_of k_usable snd].
    destruct (usable c) eqn:U; cbn [existsb andb]; [|exact IH]. cbn [k_lim fst]. rewrite IH. reflexivity. }
  assert (HE : us = [] -> existsb (fun c => usable c && c_lim c) cs = false).
  { unfold us. clear. induction cs as [|c r IH]; [reflexivity|]. cbn [map filter conn_of k_usable snd existsb].
    destruct (usable c) eqn:U; [discriminate|]. cbn. exact IH. }
  rewrite HD. rewrite connectedness_spec.
  destruct (existsb (fun c => usable c && negb (c_lim c)) cs) eqn:D.
  - cbn. destruct us; reflexivity.
  - cbn [orb]. destruct us as [|u r] eqn:Eu.
    + rewrite (HE eq_refl). reflexivity.
    + destruct (existsb (fun c => usable c && c_lim c) cs) eqn:L; [reflexivity|]. exfalso.
      (* a usable connection exists, it is limited or not *)
      assert (Hin : In u (filter k_usable (map conn_of cs))) by (fold us; rewrite Eu; left; reflexivity).
      apply filter_In in Hin. destruct Hin as [Hin Hu]. apply in_map_iff in Hin. destruct Hin as [c [<- Hc]].
      cbn in Hu. destruct (c_lim c) eqn:Lc.
      * assert (X : existsb (fun c => usable c && c_lim c) cs = true)
          by (apply existsb_exists; exists c; rewrite Hu, Lc; auto). congruence.
      * assert (X : existsb (fun c => usable c && negb (c_lim c)) cs = true)
          by (apply existsb_exists; exists c; rewrite Hu, Lc; auto). congruence.
Qed.

(* ---- clause 6: parked dials ------------------------------------------------------------------------ *)
Lemma insert_dial_In : forall x l y, In y (insert_dial x l) -> y = x \/ In y l.
Proof.
  induction l as [|z r IH]; intros y H; cbn [insert_dial] in H.
  - destruct H as [<-|[]]. auto.
  - destruct (Nat.leb (fst x) (fst z)).
    + destruct H as [<-|H]; auto.
    + destruct H as [<-|H]; [right; left; reflexivity|]. destruct (IH y H); auto. right. right. assumption.
Qed.

Lemma dials_of_In : forall s y, In y (dials_of s) -> In y (inflight s).
Proof.
  intros s y. unfold dials_of. induction (inflight s) as [|x r IH]; cbn [fold_right]; [auto|].
  intros H. apply insert_dial_In in H. destruct H as [->|H]; [left; reflexivity|right; auto].
Qed.

Lemma clause6_holds : forall s, InvA s -> dials_ok (o_dials (obs_of s)) = true.
Proof.
  intros s HI. cbn [obs_of o_dials]. unfold dials_ok. apply forallb_forall. intros [a f] Hin.
  apply dials_of_In in Hin. cbn [fst snd]. destruct f; [|reflexivity].
  rewrite (A5 s HI a Hin). reflexivity.
Qed.

(* the three state clauses, as the monitor evaluates them *)
Definition static_ok (x : obs) : bool :=
  forallb (result_ok (o_conns x)) (o_calls x) && cn_ok (o_conns x) (o_cn x) && dials_ok (o_dials x).

Lemma static_trace_holds : forall da ops s, reachable da s ->
  forallb (fun ox => static_ok (snd ox)) (model_trace s ops) = true.
Proof.
  intros da ops. induction ops as [|o r IH]; intros s R; [reflexivity|].
  cbn [model_trace forallb snd]. pose proof (reachable_apply_op da s o R) as R'.
  rewrite (IH _ R'). rewrite andb_true_r. unfold static_ok.
  rewrite (clause1_holds _ (reachable_InvA _ _ R')), (clause6_holds _ (reachable_InvA _ _ R')).
  cbn [obs_of o_conns o_cn]. rewrite clause5_holds. reflexivity.
Qed.

(* mon_check never reports clause 1, 5 or 6 on an observation satisfying static_ok *)
Lemma mon_check_static : forall p o x, static_ok x = true ->
  mon_check p o x <> 1 /\ mon_check p o x <> 5 /\ mon_check p o x <> 6.
Proof.
  intros p o x H. unfold static_ok in H. apply andb_true_iff in H. destruct H as [H H6].
  apply andb_true_iff in H. destruct H as [H1 H5]. unfold mon_check. rewrite H1, H5, H6. cbn [negb].
  repeat match goal with |- context [if ?c then _ else _] => destruct c end; repeat split; discriminate.
Qed.

Lemma monitor_never_static_clause : forall da ops s p i, reachable da s ->
  match monitor_run p i (model_trace s ops) with
  | [_; _; k] => k <> 1%Z /\ k <> 5%Z /\ k <> 6%Z
  | _ => True
  end.
Proof.
  intros da ops. induction ops as [|o r IH]; intros s p i R; [exact I|].
  cbn [model_trace monitor_run]. pose proof (reachable_apply_op da s o R) as R'.
  pose proof (static_trace_holds da [o] s R) as S. cbn [model_trace forallb snd] in S. rewrite andb_true_r in S.
  destruct (mon_check_static p o _ S) as [N1 [N5 N6]].
  destruct (mon_check p o (obs_of (apply_op s o))) as [|k] eqn:E.
  - apply IH. exact R'.
  - repeat split; intros X; apply Nat2Z.inj in X || idtac; try (injection X as X); lia.
Qed.

(* C12 — invariant C, "no lost wake-up": while some call is registered in the
   waiter list, every usable non-limited connection still has its notification
   pending (addConn has appended it but not yet closed the channels).  Hence a
   call cannot be left waiting once a direct connection has been fully added. *)
From Coq Require Import List Arith ZArith Bool Lia.
From Verif Require Import c12.Model c12.Proofs_conn c12.Proofs_inv.
Import ListNotations.

Definition InvC (s : state) : Prop :=
  waiters s <> [] ->
  forall c, c < length (conns s) -> usable (get_conn (conns s) c) = true ->
            c_lim (get_conn (conns s) c) = false -> In c (pending s).

Lemma InvC_same : forall s s',
  conns s' = conns s -> waiters s' = waiters s -> pending s' = pending s -> InvC s -> InvC s'.
Proof. intros s s' E1 E2 E3 H. unfold InvC in *. rewrite E1, E2, E3. exact H. Qed.

Lemma worker_request_cwp : forall s tid t,
  conns (worker_request s tid t) = conns s /\ waiters (worker_request s tid t) = waiters s /\
  pending (worker_request s tid t) = pending s.
Proof.
  intros s tid t. unfold worker_request.
  destruct (best_acceptable (t_force t) (conns s)); [auto|].
  destruct (paddrs s); [auto|].
  destruct (addrs_for_dial (t_force t) (a :: l)); [auto|].
  destruct (scan (tracked s) (a0 :: l0) [] []) as [c|rem td]; [auto|].
  destruct rem; auto.
Qed.

Lemma thread_step_InvC : forall s tid s', InvC s -> thread_step s tid = Some s' -> InvC s'.
Proof.
  intros s tid s' HI H. unfold thread_step in H.
  destruct (nth_error (threads s) tid) as [t|] eqn:Ht; [|discriminate].
  destruct (t_pc t) as [| | |rid|c| |w| |w|c|c|c|r] eqn:Hpc.
  - destruct (best_conn (conns s)); [injection H as <-; exact HI|].
    destruct (t_nodial t); [injection H as <-; exact HI|].
    destruct (Nat.ltb (dial_attempts s) (S (t_dials t))); injection H as <-; exact HI.
  - destruct (best_acceptable (t_force t) (conns s)); injection H as <-; exact HI.
  - destruct (busy s); [discriminate|]. injection H as <-.
    destruct (worker_request_cwp s tid t) as [E1 [E2 E3]]. eapply InvC_same; eauto.
  - destruct (t_ctx t); [|discriminate]. injection H as <-. exact HI.
  - destruct (negb (t_allow t) && c_lim (get_conn (conns s) c)); injection H as <-; exact HI.
  - destruct (best_conn (conns s)) as [c|] eqn:B; [|injection H as <-; exact HI].
    destruct (c_lim (get_conn (conns s) c)) eqn:L; injection H as <-; [|exact HI].
    (* registration: the best connection is limited, so no usable non-limited one exists *)
    intros _ c0 Hc0 Hu Hl. ssimpl. exfalso.
    destruct (best_conn_nonlim (conns s)) as [j [Bj Lj]]; [exists c0; auto|].
    rewrite B in Bj. injection Bj as <-. congruence.
  - destruct (mem w (closedw s)); [injection H as <-; exact HI|].
    destruct (t_ctx t); [|discriminate]. injection H as <-. exact HI.
  - destruct (best_conn (conns s)) as [c|]; [destruct (c_lim (get_conn (conns s) c))|]; injection H as <-; exact HI.
  - destruct (mem w (waiters s)); injection H as <-; [|exact HI].
    intros Hne c0 Hc0 Hu Hl. ssimpl. apply HI; auto. intros E. rewrite E in Hne. apply Hne. reflexivity.
  - destruct (c_lim (get_conn (conns s) c) && negb (t_allow t)); injection H as <-; exact HI.
  - discriminate.
  - destruct (c_closed (get_conn (conns s) c)); injection H as <-; exact HI.
  - discriminate.
Qed.

Lemma InvC_append : forall s lim proxy,
  InvC s ->
  InvC (let s1 := set_conns s (conns s ++ [new_conn lim proxy]) in
        if lim then s1 else set_pending s1 (pending s ++ [length (conns s)])).
Proof.
  intros s lim proxy HI. cbv zeta. intros Hne c0 Hc0 Hu Hl.
  assert (W : waiters s <> []) by (destruct lim; exact Hne).
  assert (Cs : conns (if lim then set_conns s (conns s ++ [new_conn lim proxy])
                      else set_pending (set_conns s (conns s ++ [new_conn lim proxy])) (pending s ++ [length (conns s)]))
               = conns s ++ [new_conn lim proxy]) by (destruct lim; reflexivity).
  rewrite Cs in *. rewrite app_length in Hc0. cbn in Hc0.
  destruct (Nat.eq_dec c0 (length (conns s))) as [E|E].
  - subst c0. rewrite get_conn_app_new in Hl. cbn in Hl. subst lim. ssimpl. apply in_or_app. right. left. reflexivity.
  - assert (L : c0 < length (conns s)) by lia. rewrite get_conn_app_old in Hu, Hl by exact L.
    pose proof (HI W c0 L Hu Hl) as P. destruct lim; ssimpl; [exact P|apply in_or_app; auto].
Qed.

Lemma InvC_set_conn : forall s c x,
  InvC s -> (usable x = true -> usable (get_conn (conns s) c) = true /\ c_lim x = c_lim (get_conn (conns s) c)) ->
  InvC (set_conn s c x).
Proof.
  intros s c x HI Hx Hne c0 Hc0 Hu Hl. ssimpl. rewrite set_nth_length in Hc0.
  destruct (Nat.eq_dec c c0) as [E|E].
  - subst c0. rewrite get_conn_set_eq in Hu, Hl by exact Hc0. destruct (Hx Hu) as [U L]. apply HI; auto. congruence.
  - rewrite get_conn_set_neq in Hu, Hl by exact E. apply HI; auto.
Qed.

Lemma step_raw_InvC : forall s a s', InvC s -> step_raw s a = Some s' -> InvC s'.
Proof.
  intros s a s' HI H. destruct a; cbn [step_raw] in H.
  - eapply thread_step_InvC; eauto.
  - unfold thread_step_alt in H. destruct (nth_error (threads s) tid) as [t|]; [|discriminate].
    destruct (t_pc t); try discriminate. destruct (t_ctx t); [|discriminate]. injection H as <-. exact HI.
  - injection H as <-. apply (InvC_append s lim proxy HI).
  - destruct (mem c (pending s)); [|discriminate]. injection H as <-. intros Hne. ssimpl. congruence.
  - destruct (Nat.ltb c (length (conns s))); [|discriminate]. injection H as <-.
    apply InvC_set_conn; [exact HI|]. unfold usable. cbn. rewrite andb_false_r. discriminate.
  - destruct (Nat.ltb c (length (conns s))); [|discriminate]. injection H as <-.
    apply InvC_set_conn; [exact HI|]. unfold usable. cbn. discriminate.
  - injection H as <-. exact HI.
  - destruct (Nat.ltb c (length (conns s))); [|discriminate]. injection H as <-. exact HI.
  - destruct (nth_error (threads s) tid); [|discriminate]. injection H as <-. exact HI.
  - destruct (nth_error (threads s) tid) as [t|]; [|discriminate]. destruct (t_pc t); try discriminate.
    destruct (ok && c_listed (get_conn (conns s) c)); [|destruct (t_onconn t)]; injection H as <-; try exact HI.
    apply InvC_set_conn; [exact HI|]. ssimpl. unfold usable. cbn. auto.
  - injection H as <-. exact HI.
  - destruct (busy s); [discriminate|]. destruct (mem a (map fst (inflight s))); [|discriminate].
    destruct ok.
    + injection H as <-. pose proof (InvC_append s lim (is_relay a) HI) as P. cbv zeta in P.
      eapply InvC_same; [| | |exact P]; destruct lim; reflexivity.
    + destruct (dispatch_error a (conns s) (pend s) (threads s)) as [pe ths]. injection H as <-. exact HI.
  - destruct (busy s) as [[a c]|]; [|discriminate]. destruct (mem c (pending s)); [discriminate|].
    destruct (deliver_conn a c (pend s) (threads s)) as [pe ths]. injection H as <-. exact HI.
  - injection H as <-. exact HI.
Qed.

Lemma cleanup_InvC : forall s, InvC s -> InvC (cleanup s).
Proof.
  intros s HI. unfold cleanup. destruct (busy s); [exact HI|]. destruct (existsb is_caller (threads s)); exact HI.
Qed.

Lemma run_InvC : forall acts s, InvC s -> InvC (run s acts).
Proof.
  induction acts as [|a r IH]; intros s HI; [exact HI|]. cbn [run fold_left]. apply IH.
  unfold do_step, step. destruct (step_raw s a) as [s1|] eqn:E; cbn; [|exact HI].
  apply cleanup_InvC. eapply step_raw_InvC; eauto.
Qed.

(* No lost wake-up: in every reachable state in which a direct (usable,
   non-limited) connection exists and all addConn notifications have run, the
   waiter list is empty — nobody can still be registered as waiting. *)
Lemma no_lost_wakeup_l : forall da s c, reachable da s ->
  c < length (conns s) -> usable (get_conn (conns s) c) = true -> c_lim (get_conn (conns s) c) = false ->
  pending s = [] -> waiters s = [].
Proof.
  intros da s c [acts ->] Hc Hu Hl Hp.
  assert (HI : InvC (run (init_state da) acts)) by (apply run_InvC; intros Hne; exfalso; apply Hne; reflexivity).
  destruct (waiters (run (init_state da) acts)) as [|w r] eqn:W; [reflexivity|]. exfalso.
  assert (P : In c (pending (run (init_state da) acts))) by (apply HI; [rewrite W; discriminate|auto..]).
  rewrite Hp in P. exact P.
Qed.

(* C12 — the property as decidable predicates over observable traces, the
   harness-level operations (one stimulus, then every call runs until it
   blocks) and the decoding of correspondence lines.  No proofs here.

   WIRE FORMAT (one case per line)
   -------------------------------
   kind 0 — swarm scenario, one remote peer:
       0 DialAttempts (OP OBS)*
     OP  = 1 lim proxy           an inbound connection arrives (Swarm.addConn), Stat().Limited = lim,
                                 Transport().Proxy() = proxy; conn ids are 0,1,2.. in creation order
         | 2 c                   the transport connection c reports IsClosed() (still in the swarm's list)
         | 3 c                   Conn.Close() on c (removed from the swarm's list)
         | 4 dial allow force nodial
                                 a new call (ids 0,1,2..): dial=0 Swarm.NewStream, dial=1 Swarm.DialPeer, with
                                 WithAllowLimitedConn / WithForceDirectDial / WithNoDial as flagged
         | 5 tid                 the context of call tid is cancelled
         | 6 tid ok              the transport's OpenStream that call tid is parked in returns (ok=0: an error)
         | 7 k a_1..a_k          the peerstore's addresses of the peer become a_1..a_k; address = 4*id + class,
                                 class 0 direct, 1 relay (/p2p-circuit), 2 no transport, 3 /dnsaddr (resolved by the
                                 harness' resolver as Model.resolve_addr says); direct ids 5,6 are given as /dns4 names
         | 8 a ok lim            the transport dial parked on address a returns (ok=1: a conn with Limited=lim)
         | 9                     virtual time advances by network.DialPeerTimeout: every wait / dial times out
         | 10 lim proxy          like 1, but the connection already reports IsClosed() when it is added
         | 11 c allow            Conn.NewStream called directly on connection c (a new call)
         | 13 lim proxy          like 1, but a Notifiee.Connected handler blocks for this connection (addConn does
                                 not return; in code order the waiters are woken BEFORE the Connected dispatch, so the
                                 model treats it exactly like 1)
         | 14 c                  the blocked Connected handler of connection c returns (no effect on the model)
         | 12 allow force nodial BasicHost.Connect(ctx, {ID: p}) on a real BasicHost over the swarm (a new call,
                                 opts = 1 + 16 + option bits; st 6 = returned nil)
         | 15 dial allow force nodial proxy
                                 a new call as in 4, and a non-limited connection (Transport().Proxy() = proxy) arrives
                                 WHILE the call runs: if the call gets into waitForDirectConn, Swarm.addConn is started
                                 when the call has just looked at the connection list there (from inside bestConnToPeer)
                                 and the call is held before it can register until addConn has got as far as it can;
                                 otherwise the connection arrives once the call has blocked.  No observation in between.
                                 The property allows no difference to "4 ..; 1 0 proxy" (the connection appears while
                                 the call is waiting, at the earliest possible moment), which is what the model runs;
                                 the monitor sees it as the stimulus "1 0 proxy".
       force (in 4, 12, 15): 0 = not set, 1 = WithForceDirectDial(ctx, reason) with a non-empty reason, 2 = with the
       EMPTY reason string; the reason is informational only: the model (and the option bit in opts) treats 1 and 2 alike.
     OBS = nw key cn  m (flags)^m  n (st arg opts)^n  k (a f)^k
         nw  = len(directConnNotifs.m[p]); key = 1 iff the map has the key
         cn  = Connectedness(p): 0 NotConnected, 1 Connected, 2 Limited
         per connection: flags = Stat().Limited + 2*Transport().Proxy() + 4*usable, usable = listed by
                   ConnsToPeer and not IsClosed()
         per call: st 1 blocked waiting for a direct connection (arg 0), 2 parked in OpenStream of conn arg,
                   3 blocked in dialPeer (arg 0), 4 returned a stream/conn on conn arg, 5 returned error arg
                   (st 0 never comes from the implementation: the model's "still runnable");
                   opts = dial + 2*allow-limited + 4*force-direct + 8*no-dial + 16*direct Conn.NewStream
         dials parked in a transport, ascending: address a, f = GetForceDirectDial(ctx of that dial)
   kind 1 — hole-punch decisions: see the second half of this file. *)
From Coq Require Import List Arith ZArith Bool.
From Verif Require Import lib.Wire c12.Model.
Import ListNotations.

(* ---- operations ------------------------------------------------------------- *)
Inductive op :=
| OAdd (lim proxy : bool)
| OMark (c : nat)
| OReap (c : nat)
| OStart (dial allow force nodial : bool)
| OCtx (tid : nat)
| OOpenRes (tid : nat) (ok : bool)
| OAddrs (l : list addr)
| ODialRes (a : addr) (ok lim : bool)
| OExpire
| OAddClosed (lim proxy : bool)
| OStartOn (c : nat) (allow : bool)
| OConnect (allow force nodial : bool)
| ONop.   (* a blocked Notifiee.Connected handler returns: no effect on the model *)

(* run the lowest-numbered runnable call for one step *)
Fixpoint first_enabled (s : state) (tid n : nat) : option state :=
  match n with
  | O => None
  | S k => match step s (AThread tid) with
           | Some s' => Some s'
           | None => first_enabled s (S tid) k
           end
  end.

Fixpoint settle (fuel : nat) (s : state) : state :=
  match fuel with
  | O => s
  | S f => match first_enabled s 0 (length (threads s)) with
           | Some s' => settle f s'
           | None => s
           end
  end.

Definition rank (p : pc) : nat :=
  match p with
  | POpenFailed _ => 12 | PLoop => 11 | PDialStart => 10 | PDialReq => 9 | PDialWait _ => 8
  | PGot _ => 7 | PWaitReg => 6 | PWaiting _ => 5 | PWoken => 4 | PExpired _ => 4
  | POpen _ => 3 | POpening _ => 2 | PDone _ => 0
  end.

Definition measure (s : state) : nat := fold_right (fun t acc => rank (t_pc t) + acc) 0 (threads s).

Definition waits (t : thread) : bool :=
  match t_pc t with PWaiting _ | PDialWait _ => true | _ => false end.

Fixpoint expire_all (s : state) (tid n : nat) : state :=
  match n with
  | O => s
  | S k =>
      let s1 := match nth_error (threads s) tid with
                | Some t => if waits t then do_step s (ACtx tid) else s
                | None => s
                end in
      expire_all s1 (S tid) k
  end.

Definition stimulate (s : state) (o : op) : state :=
  match o with
  | OAdd lim proxy => do_step (do_step s (AAppend lim proxy)) (ANotify (length (conns s)))
  | OMark c => do_step s (AMark c)
  | OReap c => do_step s (AReap c)
  | OStart d a f n => do_step s (AStart d a f n)
  | OCtx tid => do_step s (ACtx tid)
  | OOpenRes tid ok => do_step s (AOpenRes tid ok)
  | OAddrs l => do_step s (AAddrs l)
  | ODialRes a ok lim =>
      do_step (do_step (do_step s (ADialRes a ok lim)) (ANotify (length (conns s)))) ADeliver
  | OExpire => expire_all s 0 (length (threads s))
  | OAddClosed lim proxy =>
      do_step (do_step (do_step s (AAppend lim proxy)) (AMark (length (conns s)))) (ANotify (length (conns s)))
  | OStartOn c allow => do_step s (AStartOn c allow)
  | OConnect a f n => do_step s (AStartConn a f n)
  | ONop => s
  end.

Definition apply_op (s : state) (o : op) : state :=
  let s1 := stimulate s o in settle (S (measure s1)) s1.

(* a wire step: a plain stimulus, or wire op 15 (a call starts and a non-limited
   connection arrives while it runs; observed only afterwards) *)
Inductive wstep :=
| WPlain (o : op)
| WRace (dial allow force nodial proxy : bool).

(* the stimulus the monitor is told *)
Definition wstep_op (w : wstep) : op :=
  match w with
  | WPlain o => o
  | WRace _ _ _ _ proxy => OAdd false proxy
  end.

Definition apply_wstep (s : state) (w : wstep) : state :=
  match w with
  | WPlain o => apply_op s o
  | WRace d a f n proxy => apply_op (apply_op s (OStart d a f n)) (OAdd false proxy)
  end.

(* ---- observations -------------------------------------------------------------- *)
Record call_obs := mkCO {
  co_st : nat; co_arg : nat;
  co_dial : bool; co_allow : bool; co_force : bool; co_nodial : bool; co_onconn : bool }.

(* per connection: Limited, Proxy, usable *)
Definition conn_obs := (bool * bool * bool)%type.
Definition k_lim (x : conn_obs) : bool := fst (fst x).
Definition k_proxy (x : conn_obs) : bool := snd (fst x).
Definition k_usable (x : conn_obs) : bool := snd x.

Record obs := mkObs {
  o_nw : nat; o_key : bool; o_cn : nat;
  o_conns : list conn_obs;
  o_calls : list call_obs;
  o_dials : list (addr * bool) }.

Definition status (s : state) (t : thread) : nat * nat :=
  match t_pc t with
  | PWaiting w => if mem w (closedw s) || t_ctx t then (0, 5) else (1, 0)
  | POpening c => (2, c)
  | PDialWait _ => if t_ctx t then (0, 8) else (3, 0)
  | PDone (ROk c) => if t_dial t && t_onconn t then (6, 0) else (4, c)   (* Connect returns no conn *)
  | PDone (RErr e) => (5, e)
  | p => (0, rank p)
  end.

Definition call_of (s : state) (t : thread) : call_obs :=
  mkCO (fst (status s t)) (snd (status s t)) (t_dial t) (t_allow t) (t_force t) (t_nodial t) (t_onconn t).

Definition conn_of (c : conn) : conn_obs := (c_lim c, c_proxy c, usable c).

Fixpoint insert_dial (x : addr * bool) (l : list (addr * bool)) : list (addr * bool) :=
  match l with
  | [] => [x]
  | y :: r => if Nat.leb (fst x) (fst y) then x :: l else y :: insert_dial x r
  end.

Definition dials_of (s : state) : list (addr * bool) := fold_right insert_dial [] (inflight s).

Definition obs_of (s : state) : obs :=
  mkObs (length (waiters s)) (negb (Nat.eqb (length (waiters s)) 0)) (connectedness (conns s))
        (map conn_of (conns s)) (map (call_of s) (threads s)) (dials_of s).

Definition conn_obs_eqb (a b : conn_obs) : bool :=
  Bool.eqb (k_lim a) (k_lim b) && Bool.eqb (k_proxy a) (k_proxy b) && Bool.eqb (k_usable a) (k_usable b).
Definition call_eqb (a b : call_obs) : bool :=
  Nat.eqb (co_st a) (co_st b) && Nat.eqb (co_arg a) (co_arg b) && Bool.eqb (co_dial a) (co_dial b) &&
  Bool.eqb (co_allow a) (co_allow b) && Bool.eqb (co_force a) (co_force b) &&
  Bool.eqb (co_nodial a) (co_nodial b) && Bool.eqb (co_onconn a) (co_onconn b).
Definition dial_eqb (a b : addr * bool) : bool := Nat.eqb (fst a) (fst b) && Bool.eqb (snd a) (snd b).

(* first differing field: 0 none, 1 nw, 2 key, 3 connectedness, 4 calls, 5 dials, 6 conns *)
Definition obs_diff (a b : obs) : nat :=
  if negb (Nat.eqb (o_nw a) (o_nw b)) then 1
  else if negb (Bool.eqb (o_key a) (o_key b)) then 2
  else if negb (Nat.eqb (o_cn a) (o_cn b)) then 3
  else if negb (list_eqb conn_obs_eqb (o_conns a) (o_conns b)) then 6
  else if negb (list_eqb call_eqb (o_calls a) (o_calls b)) then 4
  else if negb (list_eqb dial_eqb (o_dials a) (o_dials b)) then 5
  else 0.

(* the trace the model produces for a list of operations *)
Fixpoint model_trace (s : state) (ops : list op) : list (op * obs) :=
  match ops with
  | [] => []
  | o :: r => let s' := apply_op s o in (o, obs_of s') :: model_trace s' r
  end.

(* ... and for a list of wire steps (what a case line is replayed as) *)
Fixpoint model_wtrace (s : state) (ws : list wstep) : list (op * obs) :=
  match ws with
  | [] => []
  | w :: r => let s' := apply_wstep s w in (wstep_op w, obs_of s') :: model_wtrace s' r
  end.

(* ---- the property monitor (kind 0) ------------------------------------------------ *)
(* It sees the previous observation, the stimulus and the new observation;
   nothing else. *)

(* clause 1: what a call returned *)
Definition result_ok (cs : list conn_obs) (c : call_obs) : bool :=
  if Nat.eqb (co_st c) 4 then
    match nth_error cs (co_arg c) with
    | None => false                                        (* a connection that does not exist *)
    | Some k =>
        if co_dial c then negb (co_force c && k_proxy k)   (* force-direct dial never returns a relayed conn *)
        else negb (k_lim k) || co_allow c                  (* stream over a limited conn only if allowed *)
    end
  else true.

Definition is_waiting (c : call_obs) : bool := Nat.eqb (co_st c) 1.
Definition n_waiting (l : list call_obs) : nat := length (filter is_waiting l).

(* a new non-limited connection appeared in this step *)
Definition direct_added (p x : obs) : bool :=
  Nat.eqb (length (o_conns x)) (S (length (o_conns p))) &&
  match nth_error (o_conns x) (length (o_conns p)) with
  | Some k => negb (k_lim k)
  | None => false
  end.
Definition direct_added_usable (p x : obs) : bool :=
  direct_added p x &&
  match nth_error (o_conns x) (length (o_conns p)) with
  | Some k => k_usable k
  | None => false
  end.

(* clause 4, "fails if none appears in time": a call that was waiting when its
   context ended has returned an error *)
Definition expired_ok (prev now : call_obs) : bool :=
  negb (is_waiting prev) || Nat.eqb (co_st now) 5.

Fixpoint all2 (f : call_obs -> call_obs -> bool) (prev now : list call_obs) : bool :=
  match prev, now with
  | p :: pr, n :: nr => f p n && all2 f pr nr
  | _, _ => true
  end.

Definition ctx_ok (o : op) (prev now : list call_obs) : bool :=
  match o with
  | OCtx tid =>
      match nth_error prev tid, nth_error now tid with
      | Some p, Some n => expired_ok p n
      | _, _ => true
      end
  | OExpire => all2 expired_ok prev now
  | _ => true
  end.

(* clause 5, "reported as Limited rather than Connected" *)
Definition cn_ok (cs : list conn_obs) (cn : nat) : bool :=
  let us := filter k_usable cs in
  let has_direct := existsb (fun k => negb (k_lim k)) us in
  (match us with [] => true | _ => has_direct || Nat.eqb cn 2 end)   (* only limited conns -> Limited *)
  && (negb (Nat.eqb cn 1) || has_direct).                            (* Connected -> a non-limited conn *)

(* clause 6, "never dials a relay address" *)
Definition dials_ok (ds : list (addr * bool)) : bool :=
  forallb (fun x => negb (snd x && is_relay (fst x))) ds.

(* clause 7, "otherwise the call waits for a direct connection": a NewStream
   call without allow-limited that starts while every usable connection is
   limited (and there is one) is waiting after the step *)
Definition only_limited (cs : list conn_obs) : bool :=
  existsb k_usable cs && forallb (fun k => negb (k_usable k) || k_lim k) cs.

Definition must_wait_ok (p : obs) (o : op) (x : obs) : bool :=
  match o with
  | OStart false false _ _ =>
      if only_limited (o_conns p) then
        match nth_error (o_calls x) (length (o_calls p)) with
        | Some c => is_waiting c
        | None => false
        end
      else true
  | _ => true
  end.

(* clause 8: a waiting call keeps waiting unless a direct connection arrives or
   its context ends *)
Definition still_waiting (prev now : call_obs) : bool := negb (is_waiting prev) || is_waiting now.

Fixpoint all2_except (skip : nat) (i : nat) (prev now : list call_obs) : bool :=
  match prev, now with
  | p :: pr, n :: nr => (Nat.eqb i skip || still_waiting p n) && all2_except skip (S i) pr nr
  | _ :: _, [] => false
  | _, _ => true
  end.

Definition keeps_waiting_ok (p : obs) (o : op) (x : obs) : bool :=
  if direct_added p x then true else
  match o with
  | OExpire => true
  | OCtx tid => all2_except tid 0 (o_calls p) (o_calls x)
  | _ => all2_except (length (o_calls p)) 0 (o_calls p) (o_calls x)
  end.

(* clause 9, "otherwise the call waits": a Swarm.NewStream call is answered
   ErrLimitedConn (error 2) only in a step in which a non-limited connection was
   added (it was woken and found the connection gone again) — never at once,
   and never after a dial of its own that produced a limited connection *)
Definition lim_err (c : call_obs) : bool :=
  negb (co_dial c) && negb (co_onconn c) && Nat.eqb (co_st c) 5 && Nat.eqb (co_arg c) 2.

Fixpoint lim_errs_old (prev now : list call_obs) : bool :=
  match now with
  | [] => true
  | n :: nr =>
      (negb (lim_err n) || match prev with q :: _ => lim_err q | [] => false end)
      && lim_errs_old (tl prev) nr
  end.

Definition limited_err_ok (p x : obs) : bool := direct_added p x || lim_errs_old (o_calls p) (o_calls x).

(* clause 10: a BasicHost.Connect demanding a direct connection reports success
   only if a connection over a non-proxy transport to the peer exists *)
Definition connect_ok (cs : list conn_obs) (c : call_obs) : bool :=
  negb (co_dial c && co_onconn c && co_force c && Nat.eqb (co_st c) 6)
  || existsb (fun k => negb (k_proxy k)) cs.

(* clause 11, "waits for a direct connection": nobody is (still) waiting while a
   usable non-limited connection is listed — whatever else addConn is busy with
   (e.g. a slow Notifiee.Connected handler), so that a waiter cannot run into its
   deadline although a direct connection was admitted in time *)
Definition has_direct (cs : list conn_obs) : bool := existsb (fun k => k_usable k && negb (k_lim k)) cs.
Definition no_waiter_with_direct (x : obs) : bool :=
  negb (has_direct (o_conns x)) || Nat.eqb (n_waiting (o_calls x)) 0.

(* 0 = fine, otherwise the number of the violated clause *)
Definition mon_check (p : obs) (o : op) (x : obs) : nat :=
  if negb (forallb (result_ok (o_conns x)) (o_calls x)) then 1
  else if negb (Nat.eqb (o_nw x) (n_waiting (o_calls x))) then 2
  else if direct_added_usable p x && negb (Nat.eqb (n_waiting (o_calls x)) 0) then 3
  else if negb (ctx_ok o (o_calls p) (o_calls x)) then 4
  else if negb (cn_ok (o_conns x) (o_cn x)) then 5
  else if negb (dials_ok (o_dials x)) then 6
  else if negb (must_wait_ok p o x) then 7
  else if negb (keeps_waiting_ok p o x) then 8
  else if negb (limited_err_ok p x) then 9
  else if negb (forallb (connect_ok (o_conns x)) (o_calls x)) then 10
  else if negb (no_waiter_with_direct x) then 11
  else 0.

Definition obs_init : obs := mkObs 0 false 0 [] [] [].

Fixpoint monitor_run (p : obs) (i : nat) (tr : list (op * obs)) : list Z :=
  match tr with
  | [] => []
  | (o, x) :: r =>
      match mon_check p o x with
      | O => monitor_run x (S i) r
      | k => [ERR_PROPERTY; Z.of_nat i; Z.of_nat k]
      end
  end.

Definition holds (tr : list (op * obs)) : bool :=
  match monitor_run obs_init 0 tr with [] => true | _ => false end.

(* ---- conformance (kind 0) ---------------------------------------------------------- *)
Fixpoint conform_run (s : state) (i : nat) (tr : list (wstep * obs)) : list Z :=
  match tr with
  | [] => []
  | (o, x) :: r =>
      let s' := apply_wstep s o in
      match obs_diff (obs_of s') x with
      | O => conform_run s' (S i) r
      | k => [ERR_MISMATCH; Z.of_nat i; Z.of_nat k; Z.of_nat (o_nw (obs_of s')); Z.of_nat (o_nw x);
              Z.of_nat (o_cn (obs_of s')); Z.of_nat (o_cn x)]
      end
  end.

(* ---- wire decoding (kind 0) ---------------------------------------------------------- *)
Local Open Scope Z_scope.

Definition zn (z : Z) : nat := Z.to_nat z.
Definition nonneg (l : list Z) : bool := forallb (fun z => 0 <=? z) l.

(* k groups of n tokens from the front of l *)
Fixpoint groups (n : nat) (k : nat) (l : list Z) : list (list Z) :=
  match k with
  | O => []
  | S k' => firstn n l :: groups n k' (skipn n l)
  end.

Definition take_groups (n : nat) (k : Z) (l : list Z) : option (list (list Z) * list Z) :=
  let tot := (n * zn k)%nat in
  if (0 <=? k) && Nat.leb tot (length l) then Some (groups n (zn k) l, skipn tot l) else None.

Definition conn_of_z (g : list Z) : conn_obs :=
  match g with
  | f :: _ => (Z.testbit f 0, Z.testbit f 1, Z.testbit f 2)
  | _ => (false, false, false)
  end.

Definition call_of_z (g : list Z) : call_obs :=
  match g with
  | st :: arg :: o :: _ =>
      mkCO (zn st) (zn arg) (Z.testbit o 0) (Z.testbit o 1) (Z.testbit o 2) (Z.testbit o 3) (Z.testbit o 4)
  | _ => mkCO 0 0 false false false false false
  end.

Definition dial_of_z (g : list Z) : addr * bool :=
  match g with
  | a :: f :: _ => (zn a, zbool f)
  | _ => (O, false)
  end.

Definition decode_obs (l : list Z) : option (obs * list Z) :=
  match l with
  | nw :: key :: cn :: m :: r =>
      match take_groups 1 m r with
      | Some (cs, n :: r1) =>
          match take_groups 3 n r1 with
          | Some (ths, k :: r2) =>
              match take_groups 2 k r2 with
              | Some (ds, r3) =>
                  Some (mkObs (zn nw) (zbool key) (zn cn) (map conn_of_z cs) (map call_of_z ths)
                              (map dial_of_z ds), r3)
              | None => None
              end
          | _ => None
          end
      | _ => None
      end
  | _ => None
  end.

Definition decode_op (l : list Z) : option (op * list Z) :=
  match l with
  | 1 :: lim :: proxy :: r => Some (OAdd (zbool lim) (zbool proxy), r)
  | 2 :: c :: r => Some (OMark (zn c), r)
  | 3 :: c :: r => Some (OReap (zn c), r)
  | 4 :: d :: a :: f :: n :: r => Some (OStart (zbool d) (zbool a) (zbool f) (zbool n), r)
  | 5 :: t :: r => Some (OCtx (zn t), r)
  | 6 :: t :: ok :: r => Some (OOpenRes (zn t) (zbool ok), r)
  | 7 :: k :: r =>
      if (0 <=? k) && Nat.leb (zn k) (length r)
      then Some (OAddrs (map zn (firstn (zn k) r)), skipn (zn k) r) else None
  | 8 :: a :: ok :: lim :: r => Some (ODialRes (zn a) (zbool ok) (zbool lim), r)
  | 9 :: r => Some (OExpire, r)
  | 10 :: lim :: proxy :: r => Some (OAddClosed (zbool lim) (zbool proxy), r)
  | 11 :: c :: a :: r => Some (OStartOn (zn c) (zbool a), r)
  | 12 :: a :: f :: n :: r => Some (OConnect (zbool a) (zbool f) (zbool n), r)
  | 13 :: lim :: proxy :: r => Some (OAdd (zbool lim) (zbool proxy), r)
  | 14 :: _ :: r => Some (ONop, r)
  | _ => None
  end.

Definition decode_wstep (l : list Z) : option (wstep * list Z) :=
  match l with
  | 15 :: d :: a :: f :: n :: p :: r => Some (WRace (zbool d) (zbool a) (zbool f) (zbool n) (zbool p), r)
  | _ => match decode_op l with
         | Some (o, r) => Some (WPlain o, r)
         | None => None
         end
  end.

Fixpoint decode_trace (fuel : nat) (l : list Z) : option (list (wstep * obs)) :=
  match fuel with
  | O => None
  | S f =>
      match l with
      | [] => Some []
      | _ =>
          match decode_wstep l with
          | Some (o, r) =>
              match decode_obs r with
              | Some (x, r1) =>
                  match decode_trace f r1 with
                  | Some t => Some ((o, x) :: t)
                  | None => None
                  end
              | None => None
              end
          | None => None
          end
      end
  end.

Definition conform_swarm (da : Z) (r : list Z) : list Z :=
  match decode_trace (S (length r)) r with
  | Some tr => conform_run (init_state (zn da)) 0 tr
  | None => [ERR_MALFORMED; 1]
  end.

Definition monitor_swarm (r : list Z) : list Z :=
  match decode_trace (S (length r)) r with
  | Some tr => monitor_run obs_init 0 (map (fun wx => (wstep_op (fst wx), snd wx)) tr)
  | None => [ERR_MALFORMED; 1]
  end.

(* C12 — limited (relayed) connections are never mistaken for direct ones.
   Executable model transcribed from /repo/p2p/net/swarm/swarm.go (addConn,
   NewStream, waitForDirectConn, isBetterConn, bestConnToPeer,
   bestAcceptableConnToPeer, connectednessUnlocked), swarm_conn.go
   (Conn.NewStream, addStream), swarm_dial.go (dialPeer, addrsForDial,
   nonProxyAddr), dial_worker.go (request handling, dial results,
   dispatchError) and dial_sync.go (worker lifetime).  One peer.
   The model is a labelled transition system whose steps are the atomic
   sections of the code (one mutex-protected region or one worker-loop
   iteration each).  No proofs in this file. *)
From Coq Require Import List Arith ZArith Bool.
Import ListNotations.

(* ---- connections ---------------------------------------------------------- *)
(* A connection is identified by its index in [conns] (creation order; the
   list never shrinks: a conn removed from Swarm.conns.m[p] stays here with
   c_listed = false, because goroutines may still hold a pointer to it).
     c_lim    ConnStats.Limited (immutable)
     c_proxy  conn.Transport().Proxy() (immutable)
     c_closed conn.IsClosed() of the transport connection
     c_listed still in Swarm.conns.m[p] (and streams.m non-nil)
     c_streams len(c.streams.m) *)
Record conn := mkConn {
  c_lim : bool; c_proxy : bool; c_closed : bool; c_listed : bool; c_streams : nat }.

Definition usable (c : conn) : bool := c_listed c && negb (c_closed c).

(* isBetterConn a b *)
Definition better (a b : conn) : bool :=
  if xorb (c_lim a) (c_lim b) then negb (c_lim a)
  else if xorb (c_proxy a) (c_proxy b) then negb (c_proxy a)
  else if Nat.eqb (c_streams a) (c_streams b) then true
  else Nat.ltb (c_streams b) (c_streams a).

(* bestConnToPeer: the loop over s.conns.m[p], skipping closed conns *)
Fixpoint best_from (l : list conn) (i : nat) (best : option (nat * conn)) : option (nat * conn) :=
  match l with
  | [] => best
  | c :: r =>
      let best' :=
        if usable c then
          match best with
          | None => Some (i, c)
          | Some (j, b) => if better c b then Some (i, c) else Some (j, b)
          end
        else best in
      best_from r (S i) best'
  end.

Definition best_conn (cs : list conn) : option nat := option_map fst (best_from cs 0 None).

Definition get_conn (cs : list conn) (c : nat) : conn := nth c cs (mkConn false false true false 0).

(* bestAcceptableConnToPeer *)
Definition best_acceptable (force : bool) (cs : list conn) : option nat :=
  match best_conn cs with
  | Some c => if force && c_proxy (get_conn cs c) then None else Some c
  | None => None
  end.

(* connectednessUnlocked: 0 NotConnected, 1 Connected, 2 Limited.
   (the loop returns Connected at the first open non-limited conn) *)
Fixpoint connectedness_from (l : list conn) (have_limited : bool) : nat :=
  match l with
  | [] => if have_limited then 2 else 0
  | c :: r =>
      if usable c then (if c_lim c then connectedness_from r true else 1)
      else connectedness_from r have_limited
  end.
Definition connectedness (cs : list conn) : nat := connectedness_from cs false.

(* ---- addresses -------------------------------------------------------------- *)
(* An address is a number 4*id + class; class 0 = dialable by a non-proxy
   transport, 1 = relay (/p2p-circuit) address, dialled by the transport
   registered for P_CIRCUIT whose Proxy() is true, 2 = no transport,
   3 = a /dnsaddr address that has to be resolved first. *)
Definition addr := nat.
Definition a_cls (a : addr) : nat := Nat.modulo a 4.
Definition is_relay (a : addr) : bool := Nat.eqb (a_cls a) 1.
Definition dialable (a : addr) : bool := Nat.ltb (a_cls a) 2.

Fixpoint insert_sorted (a : nat) (l : list nat) : list nat :=
  match l with
  | [] => [a]
  | b :: r => if Nat.ltb a b then a :: l else if Nat.eqb a b then l else b :: insert_sorted a r
  end.
(* ma.Unique + the harness' ranker (ascending, no delays) *)
Definition sort_uniq (l : list nat) : list nat := fold_right insert_sorted [] l.

(* resolveAddrs: a /dnsaddr address (class 3) is replaced by what its TXT
   records resolve to.  The harness' resolver is this fixed function of the
   address id: a direct address, a relay address, or both. *)
Definition resolve_addr (a : addr) : list addr :=
  if Nat.eqb (a_cls a) 3 then
    let i := Nat.div a 4 in
    match Nat.modulo i 3 with
    | 0 => [4 * (i + 8)]
    | 1 => [4 * (i + 8) + 1]
    | _ => [4 * (i + 8); 4 * (i + 8) + 1]
    end
  else [a].

(* addrsForDial: resolveAddrs, ma.Unique, filterKnownUndialables (no
   transport) and THEN, under force-direct, ma.FilterAddrs(goodAddrs,
   s.nonProxyAddr) — the filter sees the resolved addresses *)
Definition addrs_for_dial (force : bool) (peer_addrs : list addr) : list addr :=
  filter (fun a => dialable a && negb (force && is_relay a)) (sort_uniq (flat_map resolve_addr peer_addrs)).

(* ---- calls ------------------------------------------------------------------ *)
Inductive result := ROk (c : nat) | RErr (e : nat).

Definition E_NOCONN := 1.      (* network.ErrNoConn *)
Definition E_LIMITED := 2.     (* network.ErrLimitedConn *)
Definition E_CTX := 3.         (* context.Canceled / DeadlineExceeded *)
Definition E_OPEN := 4.        (* the transport's OpenStream error, conn not closed *)
Definition E_NOADDR := 5.      (* DialError cause ErrNoAddresses *)
Definition E_NOGOOD := 6.      (* DialError cause ErrNoGoodAddresses *)
Definition E_ALLFAILED := 7.   (* DialError cause ErrAllDialsFailed *)
Definition E_MAXDIAL := 8.     (* "max dial attempts exceeded" *)
Definition E_CLOSED := 9.      (* swarm.ErrConnClosed (addStream on a closed Conn) *)

Inductive pc :=
| PLoop                     (* NewStream: head of the for loop *)
| PDialStart                (* dialPeer: before bestAcceptableConnToPeer *)
| PDialReq                  (* holds a reference on the peer's dial worker; request not yet handled *)
| PDialWait (rid : nat)     (* request pending in the worker; blocked on the response / ctx *)
| PGot (c : nat)            (* NewStream: has conn c, before the limited check *)
| PWaitReg                  (* waitForDirectConn: before the locked check-and-register *)
| PWaiting (w : nat)        (* registered channel w; blocked in select *)
| PWoken                    (* select took <-ch *)
| PExpired (w : nat)        (* select took <-ctx.Done(); before the locked removal *)
| POpen (c : nat)           (* before Conn.NewStream *)
| POpening (c : nat)        (* inside the transport's OpenStream *)
| POpenFailed (c : nat)     (* OpenStream/addStream failed; before the IsClosed test *)
| PDone (r : result).

Record thread := mkThread {
  t_dial : bool;      (* true: a DialPeer call; false: a NewStream call *)
  t_allow : bool;     (* network.WithAllowLimitedConn *)
  t_force : bool;     (* network.WithForceDirectDial *)
  t_nodial : bool;    (* network.WithNoDial *)
  t_onconn : bool;    (* Conn.NewStream called directly on a connection (no retry loop) *)
  t_ctx : bool;       (* the call's context is done (cancelled or timed out) *)
  t_dials : nat;      (* numDials *)
  t_pc : pc }.

Definition with_pc (t : thread) (p : pc) : thread :=
  mkThread (t_dial t) (t_allow t) (t_force t) (t_nodial t) (t_onconn t) (t_ctx t) (t_dials t) p.
Definition with_ctx (t : thread) : thread :=
  mkThread (t_dial t) (t_allow t) (t_force t) (t_nodial t) (t_onconn t) true (t_dials t) (t_pc t).
Definition with_dials (t : thread) (n : nat) : thread :=
  mkThread (t_dial t) (t_allow t) (t_force t) (t_nodial t) (t_onconn t) (t_ctx t) n (t_pc t).

(* ---- dial worker ---------------------------------------------------------------- *)
Inductive dstat := DPending | DConn (c : nat) | DErr.

(* pendRequest: request id, caller, force-direct flag of its context, addresses
   it still waits for *)
Record preq := mkPreq { p_rid : nat; p_tid : nat; p_force : bool; p_addrs : list addr }.

Record state := mkState {
  dial_attempts : nat;             (* swarm.DialAttempts *)
  conns : list conn;
  waiters : list nat;              (* directConnNotifs.m[p], channel ids *)
  closedw : list nat;              (* ghost: channels closed by addConn *)
  removedw : list nat;             (* ghost: channels removed by their own waiter *)
  nextw : nat;
  pending : list nat;              (* direct conns appended whose notification has not run yet *)
  threads : list thread;
  paddrs : list addr;              (* peerstore addresses of the peer *)
  tracked : list (addr * dstat);   (* dialWorker.trackedDials *)
  pend : list preq;                (* dialWorker.pendingRequests *)
  inflight : list (addr * bool);   (* dials parked in a transport, with GetForceDirectDial of the dial's context *)
  busy : option (addr * nat);      (* worker is inside addConn for this dial result *)
  nextr : nat;
  diallog : list (addr * bool)     (* ghost: address handed to a transport, force flag of the request that caused it *)
}.

Definition init_state (da : nat) : state :=
  mkState da [] [] [] [] 0 [] [] [] [] [] [] None 0 [].

Fixpoint set_nth {A} (l : list A) (i : nat) (x : A) : list A :=
  match l, i with
  | [], _ => []
  | _ :: r, O => x :: r
  | y :: r, S j => y :: set_nth r j x
  end.

(* ---- field setters --------------------------------------------------------------- *)
Definition set_conns (s : state) (x : list conn) : state :=
  mkState (dial_attempts s) x (waiters s) (closedw s) (removedw s) (nextw s) (pending s)
          (threads s) (paddrs s) (tracked s) (pend s) (inflight s) (busy s) (nextr s) (diallog s).
Definition set_wl (s : state) (w c r : list nat) (n : nat) : state :=
  mkState (dial_attempts s) (conns s) w c r n (pending s)
          (threads s) (paddrs s) (tracked s) (pend s) (inflight s) (busy s) (nextr s) (diallog s).
Definition set_pending (s : state) (x : list nat) : state :=
  mkState (dial_attempts s) (conns s) (waiters s) (closedw s) (removedw s) (nextw s) x
          (threads s) (paddrs s) (tracked s) (pend s) (inflight s) (busy s) (nextr s) (diallog s).
Definition set_threads (s : state) (x : list thread) : state :=
  mkState (dial_attempts s) (conns s) (waiters s) (closedw s) (removedw s) (nextw s) (pending s)
          x (paddrs s) (tracked s) (pend s) (inflight s) (busy s) (nextr s) (diallog s).
Definition set_paddrs (s : state) (x : list addr) : state :=
  mkState (dial_attempts s) (conns s) (waiters s) (closedw s) (removedw s) (nextw s) (pending s)
          (threads s) x (tracked s) (pend s) (inflight s) (busy s) (nextr s) (diallog s).
Definition set_wk (s : state) (tr : list (addr * dstat)) (pe : list preq) (fl : list (addr * bool))
           (b : option (addr * nat)) (nr : nat) (dl : list (addr * bool)) : state :=
  mkState (dial_attempts s) (conns s) (waiters s) (closedw s) (removedw s) (nextw s) (pending s)
          (threads s) (paddrs s) tr pe fl b nr dl.

Definition set_thread (s : state) (tid : nat) (t : thread) : state :=
  set_threads s (set_nth (threads s) tid t).
Definition set_conn (s : state) (c : nat) (x : conn) : state :=
  set_conns s (set_nth (conns s) c x).

Definition mem (x : nat) (l : list nat) : bool := existsb (Nat.eqb x) l.
Definition remove_nat (x : nat) (l : list nat) : list nat := filter (fun y => negb (Nat.eqb x y)) l.

Fixpoint lookup (a : addr) (tr : list (addr * dstat)) : option dstat :=
  match tr with
  | [] => None
  | (b, d) :: r => if Nat.eqb a b then Some d else lookup a r
  end.
Fixpoint set_tracked (a : addr) (d : dstat) (tr : list (addr * dstat)) : list (addr * dstat) :=
  match tr with
  | [] => [(a, d)]
  | (b, e) :: r => if Nat.eqb a b then (a, d) :: r else (b, e) :: set_tracked a d r
  end.

(* ---- the worker handling one request (dial_worker.go, case req := <-w.reqch) ------ *)
Inductive scan_res := SFound (c : nat) | SWait (remaining todial : list addr).

(* the loop over addrRanking: first tracked dial that already has a conn
   completes the request; errored ones are dropped; the others are waited for *)
Fixpoint scan (tr : list (addr * dstat)) (fa : list addr) (remaining todial : list addr) : scan_res :=
  match fa with
  | [] => SWait remaining todial
  | a :: r =>
      match lookup a tr with
      | None => scan tr r (remaining ++ [a]) (todial ++ [a])
      | Some (DConn c) => SFound c
      | Some DErr => scan tr r remaining todial
      | Some DPending => scan tr r (remaining ++ [a]) todial
      end
  end.

(* what the caller does with the worker's answer *)
Definition deliver (t : thread) (r : result) : thread :=
  match r with
  | ROk c => if t_dial t then with_pc t (PDone (ROk c)) else with_pc t (PGot c)
  | RErr e =>
      (* dialPeer: "Context error trumps any dial errors" *)
      with_pc t (PDone (RErr (if t_ctx t then E_CTX else e)))
  end.

(* answer request rid of thread tid (ignored unless the thread still waits for it) *)
Definition respond (ths : list thread) (rid tid : nat) (r : result) : list thread :=
  match nth_error ths tid with
  | Some t =>
      match t_pc t with
      | PDialWait rid' => if Nat.eqb rid rid' then set_nth ths tid (deliver t r) else ths
      | _ => ths
      end
  | None => ths
  end.

Definition worker_request (s : state) (tid : nat) (t : thread) : state :=
  match best_acceptable (t_force t) (conns s) with
  | Some c => set_thread s tid (deliver t (ROk c))
  | None =>
      match paddrs s with
      | [] => set_thread s tid (deliver t (RErr E_NOADDR))
      | _ =>
        match addrs_for_dial (t_force t) (paddrs s) with
        | [] => set_thread s tid (deliver t (RErr E_NOGOOD))
        | fa =>
          match scan (tracked s) fa [] [] with
          | SFound c => set_thread s tid (deliver t (ROk c))
          | SWait [] _ => set_thread s tid (deliver t (RErr E_ALLFAILED))
          | SWait remaining todial =>
              let s1 := set_thread s tid (with_pc t (PDialWait (nextr s))) in
              set_wk s1
                (tracked s ++ map (fun a => (a, DPending)) todial)
                (pend s ++ [mkPreq (nextr s) tid (t_force t) remaining])
                (inflight s ++ map (fun a => (a, t_force t)) todial)
                (busy s) (S (nextr s))
                (diallog s ++ map (fun a => (a, t_force t)) todial)
          end
        end
      end
  end.

(* a successful dial on address a produced conn c: every pending request that
   waits for a gets c *)
Fixpoint deliver_conn (a : addr) (c : nat) (pe : list preq) (ths : list thread)
  : list preq * list thread :=
  match pe with
  | [] => ([], ths)
  | p :: r =>
      if mem a (p_addrs p)
      then deliver_conn a c r (respond ths (p_rid p) (p_tid p) (ROk c))
      else let '(pe', ths') := deliver_conn a c r ths in (p :: pe', ths')
  end.

(* dispatchError: the dial on address a failed *)
Fixpoint dispatch_error (a : addr) (cs : list conn) (pe : list preq) (ths : list thread)
  : list preq * list thread :=
  match pe with
  | [] => ([], ths)
  | p :: r =>
      if mem a (p_addrs p) then
        match remove_nat a (p_addrs p) with
        | [] =>
            let res := match best_acceptable (p_force p) cs with
                       | Some c => ROk c
                       | None => RErr E_ALLFAILED
                       end in
            dispatch_error a cs r (respond ths (p_rid p) (p_tid p) res)
        | rest =>
            let '(pe', ths') := dispatch_error a cs r ths in
            (mkPreq (p_rid p) (p_tid p) (p_force p) rest :: pe', ths')
        end
      else let '(pe', ths') := dispatch_error a cs r ths in (p :: pe', ths')
  end.

(* dial_sync.go: the worker lives while some caller holds a reference *)
Definition is_caller (t : thread) : bool :=
  match t_pc t with PDialReq | PDialWait _ => true | _ => false end.

Definition cleanup (s : state) : state :=
  match busy s with
  | Some _ => s
  | None => if existsb is_caller (threads s) then s
            else set_wk s [] [] [] None (nextr s) (diallog s)
  end.

(* ---- one atomic step of a call ------------------------------------------------------ *)
(* None = the call is blocked (or finished, or does not exist) *)
Definition thread_step (s : state) (tid : nat) : option state :=
  match nth_error (threads s) tid with
  | None => None
  | Some t =>
    let go p := Some (set_thread s tid (with_pc t p)) in
    match t_pc t with
    | PLoop =>
        (* c := s.bestConnToPeer(p) *)
        match best_conn (conns s) with
        | Some c => go (PGot c)
        | None =>
            if t_nodial t then go (PDone (RErr E_NOCONN))
            else if Nat.ltb (dial_attempts s) (S (t_dials t)) then go (PDone (RErr E_MAXDIAL))
            else Some (set_thread s tid (with_dials (with_pc t PDialStart) (S (t_dials t))))
        end
    | PDialStart =>
        (* dialPeer: conn := s.bestAcceptableConnToPeer(ctx, p) *)
        match best_acceptable (t_force t) (conns s) with
        | Some c => Some (set_thread s tid (deliver t (ROk c)))
        | None => go PDialReq
        end
    | PDialReq =>
        (* the worker loop takes the request; it is single-threaded *)
        match busy s with
        | Some _ => None
        | None => Some (worker_request s tid t)
        end
    | PDialWait _ =>
        if t_ctx t then go (PDone (RErr E_CTX)) else None
    | PGot c =>
        (* if !limitedAllowed && c.Stat().Limited *)
        if negb (t_allow t) && c_lim (get_conn (conns s) c) then go PWaitReg else go (POpen c)
    | PWaitReg =>
        (* directConnNotifs.Lock(); c := bestConnToPeer; ...; append; Unlock *)
        match best_conn (conns s) with
        | None => go (PDone (RErr E_NOCONN))
        | Some c =>
            if c_lim (get_conn (conns s) c)
            then Some (set_wl (set_thread s tid (with_pc t (PWaiting (nextw s))))
                              (waiters s ++ [nextw s]) (closedw s) (removedw s) (S (nextw s)))
            else go (POpen c)
        end
    | PWaiting w =>
        (* select: <-ch is ready once addConn closed it; <-ctx.Done() once the
           context is done; when both are ready either may be taken *)
        if mem w (closedw s) then go PWoken
        else if t_ctx t then go (PExpired w)
        else None
    | PWoken =>
        match best_conn (conns s) with
        | None => go (PDone (RErr E_NOCONN))
        | Some c => if c_lim (get_conn (conns s) c) then go (PDone (RErr E_LIMITED)) else go (POpen c)
        end
    | PExpired w =>
        (* slices.DeleteFunc(m[p], == ch) under the lock *)
        let s1 := set_thread s tid (with_pc t (PDone (RErr E_CTX))) in
        if mem w (waiters s)
        then Some (set_wl s1 (remove_nat w (waiters s)) (closedw s) (removedw s ++ [w]) (nextw s))
        else Some s1
    | POpen c =>
        (* Conn.NewStream: the second check *)
        if c_lim (get_conn (conns s) c) && negb (t_allow t) then go (PDone (RErr E_LIMITED))
        else go (POpening c)
    | POpening _ => None
    | POpenFailed c =>
        (* Swarm.NewStream: if c.conn.IsClosed() { continue } *)
        if c_closed (get_conn (conns s) c) then go PLoop else go (PDone (RErr E_OPEN))
    | PDone _ => None
    end
  end.

(* the other branch of the select in PWaiting when both are ready *)
Definition thread_step_alt (s : state) (tid : nat) : option state :=
  match nth_error (threads s) tid with
  | Some t =>
      match t_pc t with
      | PWaiting w => if t_ctx t then Some (set_thread s tid (with_pc t (PExpired w))) else None
      | _ => None
      end
  | None => None
  end.

(* ---- actions: call steps and the environment ------------------------------------------ *)
Inductive action :=
| AThread (tid : nat)
| AThreadAlt (tid : nat)
| AAppend (lim proxy : bool)          (* addConn of an inbound conn: s.conns.m[p] = append(...) *)
| ANotify (c : nat)                   (* addConn: close and clear the waiter list *)
| AMark (c : nat)                     (* the transport conn becomes closed (IsClosed() = true) *)
| AReap (c : nat)                     (* Conn.Close: removeConn, streams.m = nil, transport closed *)
| AStart (dial allow force nodial : bool)
| AStartOn (c : nat) (allow : bool)   (* Conn.NewStream called directly on conn c *)
| ACtx (tid : nat)                    (* the call's context is cancelled / its deadline passes *)
| AOpenRes (tid : nat) (ok : bool)    (* the transport's OpenStream returns *)
| AAddrs (l : list addr)              (* the peerstore's addresses of the peer change *)
| ADialRes (a : addr) (ok lim : bool) (* a transport dial returns *)
| ADeliver                            (* the worker, back from addConn, answers the requests *)
| AStartConn (allow force nodial : bool).  (* BasicHost.Connect(ctx, {ID: p}) *)

Definition new_conn (lim proxy : bool) : conn := mkConn lim proxy false true 0.

Definition step_raw (s : state) (a : action) : option state :=
  match a with
  | AThread tid => thread_step s tid
  | AThreadAlt tid => thread_step_alt s tid
  | AAppend lim proxy =>
      let c := length (conns s) in
      let s1 := set_conns s (conns s ++ [new_conn lim proxy]) in
      Some (if lim then s1 else set_pending s1 (pending s ++ [c]))
  | ANotify c =>
      if mem c (pending s)
      then Some (set_pending (set_wl s [] (closedw s ++ waiters s) (removedw s) (nextw s))
                             (remove_nat c (pending s)))
      else None
  | AMark c =>
      if Nat.ltb c (length (conns s)) then
        let x := get_conn (conns s) c in
        Some (set_conn s c (mkConn (c_lim x) (c_proxy x) true (c_listed x) (c_streams x)))
      else None
  | AReap c =>
      if Nat.ltb c (length (conns s)) then
        let x := get_conn (conns s) c in
        Some (set_conn s c (mkConn (c_lim x) (c_proxy x) true false (c_streams x)))
      else None
  | AStart dial allow force nodial =>
      Some (set_threads s (threads s ++
              [mkThread dial allow force nodial false false 0 (if dial then PDialStart else PLoop)]))
  | AStartOn c allow =>
      if Nat.ltb c (length (conns s))
      then Some (set_threads s (threads s ++ [mkThread false allow false true true false 0 (POpen c)]))
      else None
  | ACtx tid =>
      match nth_error (threads s) tid with
      | Some t => Some (set_thread s tid (with_ctx t))
      | None => None
      end
  | AOpenRes tid ok =>
      match nth_error (threads s) tid with
      | Some t =>
          match t_pc t with
          | POpening c =>
              let x := get_conn (conns s) c in
              if ok && c_listed x then
                (* addStream: c.streams.m != nil *)
                Some (set_conn (set_thread s tid (with_pc t (PDone (ROk c)))) c
                        (mkConn (c_lim x) (c_proxy x) (c_closed x) (c_listed x) (S (c_streams x))))
              else if t_onconn t then
                (* a direct Conn.NewStream has no retry loop: it returns the error *)
                Some (set_thread s tid (with_pc t (PDone (RErr (if ok then E_CLOSED else E_OPEN)))))
              else Some (set_thread s tid (with_pc t (POpenFailed c)))
          | _ => None
          end
      | None => None
      end
  | AAddrs l => Some (set_paddrs s l)
  | ADialRes a ok lim =>
      match busy s with
      | Some _ => None
      | None =>
        if mem a (map fst (inflight s)) then
          let fl := filter (fun x => negb (Nat.eqb a (fst x))) (inflight s) in
          if ok then
            (* w.s.addConn(res.Conn, DirOutbound): the conn's transport is the one that dialled a *)
            let c := length (conns s) in
            let s1 := set_conns s (conns s ++ [new_conn lim (is_relay a)]) in
            let s2 := if lim then s1 else set_pending s1 (pending s ++ [c]) in
            Some (set_wk s2 (tracked s) (pend s) fl (Some (a, c)) (nextr s) (diallog s))
          else
            let '(pe, ths) := dispatch_error a (conns s) (pend s) (threads s) in
            Some (set_wk (set_threads s ths) (set_tracked a DErr (tracked s)) pe fl None (nextr s) (diallog s))
        else None
      end
  | ADeliver =>
      match busy s with
      | Some (a, c) =>
          if mem c (pending s) then None   (* still inside addConn *)
          else
            let '(pe, ths) := deliver_conn a c (pend s) (threads s) in
            Some (set_wk (set_threads s ths) (set_tracked a (DConn c) (tracked s)) pe (inflight s) None
                         (nextr s) (diallog s))
      | None => None
      end
  | AStartConn allow force nodial =>
      (* BasicHost.Connect: unless force-direct, an existing connection satisfies the call
         (Connected, or Limited with allow-limited); otherwise it is DialPeer.  A Connect call is
         a dial call with t_onconn set (the flag has no other meaning for dial calls). *)
      let cn := connectedness (conns s) in
      let short := negb force && (Nat.eqb cn 1 || (allow && Nat.eqb cn 2)) in
      let p := if short then match best_conn (conns s) with Some c => PDone (ROk c) | None => PDialStart end
               else PDialStart in
      Some (set_threads s (threads s ++ [mkThread true allow force nodial true false 0 p]))
  end.

Definition step (s : state) (a : action) : option state := option_map cleanup (step_raw s a).

(* disabled actions leave the state unchanged *)
Definition do_step (s : state) (a : action) : state :=
  match step s a with Some s' => s' | None => s end.

Definition run (s : state) (acts : list action) : state := fold_left do_step acts s.

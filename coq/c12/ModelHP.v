(* C12 — hole punching decisions, transcribed from
   /repo/p2p/protocol/holepunch/util.go (removeRelayAddrs, getDirectConnection),
   holepuncher.go (directConnect, initiateHolePunchImpl, netNotifiee.Connected)
   and svc.go (handleNewStream, incomingHolePunch).  No proofs in this file.
   An address is (relay?, public?); a connection is its remote address' relay
   flag (isRelayAddress(c.RemoteMultiaddr())). *)
From Coq Require Import List Arith Bool.
Import ListNotations.

Record haddr := mkHA { h_relay : bool; h_public : bool; h_id : nat }.

(* removeRelayAddrs *)
Definition remove_relay (l : list haddr) : list haddr := filter (fun a => negb (h_relay a)) l.

(* getDirectConnection: index of the first conn whose remote address is not a relay address *)
Fixpoint get_direct (conns : list bool) (i : nat) : option nat :=
  match conns with
  | [] => None
  | r :: rest => if r then get_direct rest (S i) else Some i
  end.

(* netNotifiee.Connected: hole punch only for an inbound connection through a relay *)
Definition notifiee_starts (inbound conn_relay : bool) : bool := inbound && conn_relay.

(* what the hole puncher asks of the host *)
Inductive hev :=
| EDirectDial (force sim : bool)                          (* host.Connect(ctx, {ID: rp}) *)
| EStream (allow nodial : bool)                           (* host.NewStream(ctx, rp, Protocol) *)
| EPunch (force sim client : bool) (addrs : list haddr).  (* holePunchConnect: host.Connect(ctx, {rp, addrs}) *)

(* one attempt as the environment scripts it *)
Record attempt := mkAtt {
  at_stream_ok : bool;         (* NewStream succeeded *)
  at_reply : nat;              (* 0: read error, 1: CONNECT, 2: another message type *)
  at_addrs : list haddr;       (* ObsAddrs of the reply *)
  at_connect_ok : bool }.      (* the hole-punch Connect succeeded *)

(* the loop "for i := 1; i <= maxRetries; i++"; [n] = attempts left *)
Fixpoint punch_loop (listen : list haddr) (atts : list attempt) (n : nat) : list hev * bool :=
  match n, atts with
  | S k, a :: rest =>
      let ev1 := [EStream true true] in
      if negb (at_stream_ok a) then (ev1, false) else
      match remove_relay listen with
      | [] => (ev1, false)                                 (* "we have no public address" *)
      | _ =>
        if negb (Nat.eqb (at_reply a) 1) then (ev1, false) else
        match remove_relay (at_addrs a) with
        | [] => (ev1, false)                               (* "didn't receive any public addresses" *)
        | addrs =>
            let ev2 := ev1 ++ [EPunch true true (Nat.eqb k 0) addrs] in
            if at_connect_ok a then (ev2, true)
            else let '(evs, ok) := punch_loop listen rest k in (ev2 ++ evs, ok)
        end
      end
  | _, _ => ([], false)
  end.

(* directConnect *)
Definition direct_connect (conns : list bool) (pstore listen : list haddr) (dial_ok : bool)
           (atts : list attempt) (max_retries : nat) : list hev * bool :=
  match get_direct conns 0 with
  | Some _ => ([], true)                                   (* already connected *)
  | None =>
      if existsb (fun a => negb (h_relay a) && h_public a) pstore then
        if dial_ok then ([EDirectDial true false], true)
        else let '(evs, ok) := punch_loop listen atts max_retries in (EDirectDial true false :: evs, ok)
      else punch_loop listen atts max_retries
  end.

(* handleNewStream + incomingHolePunch on the receiving side:
   inbound: direction of the underlying conn; conn_relay: its remote address is a
   relay address; msg: 0 read error, 1 CONNECT, 2 other; then a SYNC is expected *)
Definition incoming (inbound conn_relay : bool) (own obs : list haddr) (msg : nat) (sync_ok : bool)
  : list hev :=
  if inbound then []
  else if negb conn_relay then []
  else match own with
       | [] => []
       | _ =>
         if negb (Nat.eqb msg 1) then []
         else match remove_relay obs with
              | [] => []
              | addrs => if sync_ok then [EPunch true true true addrs] else []
              end
       end.

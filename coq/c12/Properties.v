(* C12 — property theorems only.  Each is closed by [exact] of a lemma from
   Proofs_*.v and followed by Print Assumptions. *)
From Coq Require Import List Arith ZArith Bool.
From Verif Require Import lib.Wire c12.Model c12.SpecSwarm c12.Spec c12.Proofs_conn.
Import ListNotations.

(* "a peer reachable only over limited connections is reported as Limited
   rather than Connected": for every list of connections (any mix of limited,
   direct, closing and removed ones), if at least one connection is usable and
   every usable one is limited, connectednessUnlocked answers Limited (2);
   it answers Connected (1) exactly when a usable non-limited connection exists. *)
Theorem c12_limited_reported_limited : forall cs,
  ((exists c, In c cs /\ usable c = true) ->
   (forall c, In c cs -> usable c = true -> c_lim c = true) ->
   connectedness cs = 2) /\
  (connectedness cs = 1 <-> exists c, In c cs /\ usable c = true /\ c_lim c = false).
Proof. intros cs. split. - apply limited_reported_limited_l. - apply connected_iff_direct. Qed.
Print Assumptions c12_limited_reported_limited.

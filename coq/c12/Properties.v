(* C12 — property theorems only.  Each is closed by [exact]/[apply] of lemmas
   from Proofs_*.v and followed by Print Assumptions.
   [reachable da s]: s is the state after ANY finite sequence of actions of the
   transition system of Model.v from the initial state — every interleaving of
   the atomic steps of any number of NewStream / DialPeer / Conn.NewStream calls
   (all context option sets) with connections arriving (limited or not, proxy
   or not), reporting closed, being closed, waiter notifications, context
   cancellations / timeouts, OpenStream and dial results, peerstore changes. *)
From Coq Require Import List Arith ZArith Bool.
From Verif Require Import lib.Wire c12.Model c12.ModelHP c12.SpecSwarm c12.SpecHP c12.Spec
  c12.Proofs_conn c12.Proofs_inv c12.Proofs_wait c12.Proofs_wake c12.Proofs_trace c12.Proofs_quiesce c12.Proofs_stim c12.Proofs_clauses
  c12.Proofs_clauses2 c12.Proofs_headline c12.Proofs_hp.
Import ListNotations.

(* A stream is opened (or being opened) over a limited connection only by a
   call that carries WithAllowLimitedConn — for Swarm.NewStream and for
   Conn.NewStream called directly. *)
Theorem c12_no_stream_over_limited_unless_allowed : forall da s tid t c,
  reachable da s -> nth_error (threads s) tid = Some t -> t_dial t = false ->
  (t_pc t = PDone (ROk c) \/ t_pc t = POpening c) ->
  c < length (conns s) /\ (c_lim (get_conn (conns s) c) = true -> t_allow t = true).
Proof. exact no_stream_over_limited_l. Qed.
Print Assumptions c12_no_stream_over_limited_unless_allowed.

(* The waiter list: every channel ever registered is in exactly one of
   {still listed, closed by addConn, removed by its own waiter} and occurs
   there once (no double close, no double removal, none lost); every listed
   entry has exactly one live owner, a call blocked in or just leaving the
   select (no entry outlives its call); a waiting call's channel is listed or
   already closed (it cannot miss its release). *)
Theorem c12_waiter_released_exactly_once : forall da s, reachable da s ->
  NoDup (waiters s ++ closedw s ++ removedw s) /\
  (forall w, In w (waiters s ++ closedw s ++ removedw s) -> w < nextw s) /\
  (forall w, In w (waiters s) ->
     exists tid t, nth_error (threads s) tid = Some t /\ (t_pc t = PWaiting w \/ t_pc t = PExpired w)) /\
  (forall i j t1 t2 w, nth_error (threads s) i = Some t1 -> nth_error (threads s) j = Some t2 ->
     (t_pc t1 = PWaiting w \/ t_pc t1 = PExpired w) -> (t_pc t2 = PWaiting w \/ t_pc t2 = PExpired w) -> i = j) /\
  (forall tid t w, nth_error (threads s) tid = Some t -> t_pc t = PWaiting w ->
     In w (waiters s) \/ In w (closedw s)).
Proof. exact waiter_released_exactly_once_l. Qed.
Print Assumptions c12_waiter_released_exactly_once.

(* waitForDirectConn hands a connection back (at registration time or after
   being woken) only if that connection is usable and not limited, in any state. *)
Theorem c12_wait_result_never_limited : forall s tid t s' t' c,
  nth_error (threads s) tid = Some t -> (t_pc t = PWaitReg \/ t_pc t = PWoken) ->
  thread_step s tid = Some s' -> nth_error (threads s') tid = Some t' -> t_pc t' = POpen c ->
  c < length (conns s) /\ usable (get_conn (conns s) c) = true /\ c_lim (get_conn (conns s) c) = false.
Proof. exact wait_result_never_limited_l. Qed.
Print Assumptions c12_wait_result_never_limited.

(* (BasicHost.Connect is modelled as a dial call guarded by its "already connected?"
   short-circuit, so this theorem covers it too.)
   A DialPeer with WithForceDirectDial never returns a connection whose
   transport is a proxy (relay) transport — whether it came from
   bestAcceptableConnToPeer, from a dial shared with other requests in the
   worker, or from the last check after all its dials failed. *)
Theorem c12_force_direct_never_relayed : forall da s tid t c,
  reachable da s -> nth_error (threads s) tid = Some t -> t_dial t = true -> t_force t = true ->
  t_pc t = PDone (ROk c) ->
  c < length (conns s) /\ c_proxy (get_conn (conns s) c) = false.
Proof. exact force_direct_never_relayed_l. Qed.
Print Assumptions c12_force_direct_never_relayed.

(* No address ever handed to a transport on behalf of a force-direct request
   (log of all dials, and the dials currently in flight) is a relay address. *)
Theorem c12_force_direct_never_dials_relay_addr : forall da s a,
  reachable da s -> (In (a, true) (diallog s) \/ In (a, true) (inflight s)) -> is_relay a = false.
Proof. exact force_direct_never_dials_relay_l. Qed.
Print Assumptions c12_force_direct_never_dials_relay_addr.

(* connectednessUnlocked, for every list of connections (any mix of limited,
   direct, closing, removed): only limited usable connections -> Limited (2);
   Connected (1) iff some usable connection is not limited; NotConnected (0) iff
   none is usable. *)
Theorem c12_limited_reported_limited : forall cs,
  ((exists c, In c cs /\ usable c = true) ->
   (forall c, In c cs -> usable c = true -> c_lim c = true) ->
   connectedness cs = 2) /\
  (connectedness cs = 1 <-> exists c, In c cs /\ usable c = true /\ c_lim c = false) /\
  (connectedness cs = 0 <-> forall c, In c cs -> usable c = false).
Proof.
  intros cs. split; [apply limited_reported_limited_l|]. split; [apply connected_iff_direct|apply not_connected_iff_none].
Qed.
Print Assumptions c12_limited_reported_limited.

(* No lost wake-up: in every reachable state in which a usable non-limited
   connection exists and every addConn has finished notifying, the waiter list
   is empty: no call can be left waiting for a direct connection that is there
   (the check-and-register of waitForDirectConn and the append-then-notify of
   addConn cannot interleave badly). *)
Theorem c12_no_lost_wakeup : forall da s c, reachable da s ->
  c < length (conns s) -> usable (get_conn (conns s) c) = true -> c_lim (get_conn (conns s) c) = false ->
  pending s = [] -> waiters s = [].
Proof. exact no_lost_wakeup_l. Qed.
Print Assumptions c12_no_lost_wakeup.

(* HEADLINE.  The swarm monitor that judges the implementation's traces (all eleven
   clauses: 1 what calls returned, 2 waiter-list length = number of blocked
   waiters, 3 nobody waits once a usable non-limited conn has been added, 4 a
   waiter whose context ended has failed, 5 Connectedness, 6 no relay address
   dialled under force-direct, 7 a call without allow-limited waits when only
   limited conns are usable, 8 a waiter keeps waiting unless a direct conn arrives
   or its context ends, 9 a NewStream call is answered ErrLimitedConn only in a step
   in which a non-limited conn was added — never at once, never after dialling a
   limited conn itself, 10 a force-direct BasicHost.Connect reports success only
   with a non-proxy conn, 11 nobody is waiting while a usable non-limited conn is
   listed — addConn wakes the waiters before it dispatches Notifiee.Connected) accepts the trace the model produces for EVERY list of
   harness operations (conns arriving/closing, NewStream / DialPeer / Conn.NewStream /
   BasicHost.Connect calls with every option set, cancellations, timeouts, OpenStream and
   dial results, peerstore changes; each: one stimulus, then every call runs until it
   blocks), from the initial state, for every value of DialAttempts. *)
Theorem c12_swarm_trace_holds : forall da ops,
  monitor_run obs_init 0 (model_trace (init_state da) ops) = [].
Proof. exact swarm_trace_holds_l. Qed.
Print Assumptions c12_swarm_trace_holds.

(* HEADLINE for case lines as they are replayed: the same, for every list of WIRE steps — a plain
   operation, or wire op 15: a call starts and a non-limited connection arrives while the call
   runs (the harness hands it to addConn when the call has looked at the connection list inside
   waitForDirectConn and has not registered yet).  The model runs that step as "the call, then
   the connection"; the monitor is told "a non-limited connection arrived" and judges the
   observation taken afterwards against the one taken before the call started. *)
Theorem c12_swarm_wire_trace_holds : forall da ws,
  monitor_run obs_init 0 (model_wtrace (init_state da) ws) = [].
Proof. exact swarm_wtrace_holds_l. Qed.
Print Assumptions c12_swarm_wire_trace_holds.

(* "every timing of a direct connection appearing while a stream open is waiting": after a
   wire step 15, if the connection that arrived is usable, nobody is left on the waiter list —
   neither the new call nor any earlier waiter *)
Theorem c12_conn_arriving_during_a_call_wakes_it : forall da s d a f n proxy,
  reachable da s -> pending s = [] ->
  let x := apply_wstep s (WRace d a f n proxy) in
  usable (get_conn (conns x) (length (conns s))) = true -> waiters x = [].
Proof. exact race_no_waiter_l. Qed.
Print Assumptions c12_conn_arriving_during_a_call_wakes_it.

(* "every context option set": WithForceDirectDial with the EMPTY reason string (wire value 2)
   is the same request as with a reason (wire value 1), for NewStream/DialPeer (4),
   BasicHost.Connect (12) and the racing call (15); and the option bit the harness reports for
   such a call is "force-direct" *)
Theorem c12_force_direct_reason_is_informational : forall d a n p r c,
  decode_wstep (4 :: d :: a :: 2 :: n :: r)%Z = decode_wstep (4 :: d :: a :: 1 :: n :: r)%Z /\
  decode_wstep (12 :: a :: 2 :: n :: r)%Z = decode_wstep (12 :: a :: 1 :: n :: r)%Z /\
  decode_wstep (15 :: d :: a :: 2 :: n :: p :: r)%Z = decode_wstep (15 :: d :: a :: 1 :: n :: p :: r)%Z /\
  co_force (call_of_z [c; 0; 4]%Z) = true.
Proof. exact reason_ignored_l. Qed.
Print Assumptions c12_force_direct_reason_is_informational.

(* "every call runs until it blocks": the runner terminates in a state where no
   call can take a step (each call step strictly lowers the rank sum), whatever
   the state and the stimulus. *)
Theorem c12_runner_reaches_quiescence : forall s o, quiescent (apply_op s o).
Proof. exact apply_op_quiescent. Qed.
Print Assumptions c12_runner_reaches_quiescence.

(* at every reachable quiescent state the waiter list has exactly one entry per
   call blocked in waitForDirectConn *)
Theorem c12_waiters_counted_at_quiescence : forall da s, reachable da s -> quiescent s ->
  length (waiters s) = n_waiting (map (call_of s) (threads s)).
Proof. exact clause2_at_quiescence. Qed.
Print Assumptions c12_waiters_counted_at_quiescence.

(* Hole punching, initiator: everything directConnect asks of the host is
   well-formed (every Connect is force-direct, a hole-punch Connect carries no
   relay address, the coordination stream is opened no-dial + allow-limited,
   i.e. over an existing connection), and coordination / punching only happens
   while every existing connection to the peer is relayed.  Receiver: it
   punches only for a stream over an outbound connection through a relay, with
   force-direct and non-relay addresses only.  The notifiee starts the
   procedure only for inbound connections through a relay. *)
Theorem c12_holepunch_only_over_relay_and_direct_addrs_only :
  (forall conns pstore listen dial_ok atts mr e,
     In e (fst (direct_connect conns pstore listen dial_ok atts mr)) ->
     ev_ok e = true /\ (coordinates e = true -> forall r, In r conns -> r = true)) /\
  (forall inbound conn_relay own obs msg sync,
     mon_incoming inbound conn_relay (incoming inbound conn_relay own obs msg sync) = true) /\
  (forall l a, In a (remove_relay l) -> h_relay a = false /\ In a l) /\
  (forall inbound conn_relay, notifiee_starts inbound conn_relay = true -> inbound = true /\ conn_relay = true).
Proof.
  split; [exact holepunch_only_over_relay_l|]. split; [exact mon_incoming_model|].
  split; [exact remove_relay_no_relay|]. intros [|] [|]; cbn; intros H; try discriminate; auto.
Qed.
Print Assumptions c12_holepunch_only_over_relay_and_direct_addrs_only.

(* directConnect reports success only if a non-relayed connection already
   existed, or a force-direct Connect it issued succeeded (which, by
   c12_force_direct_never_relayed, means a non-proxy connection);
   getDirectConnection answers non-nil only with a non-relayed connection. *)
Theorem c12_holepunch_success_means_direct :
  (forall conns pstore listen dial_ok atts mr,
     snd (direct_connect conns pstore listen dial_ok atts mr) = true ->
     (exists r, In r conns /\ r = false) \/
     (dial_ok = true /\ In (EDirectDial true false) (fst (direct_connect conns pstore listen dial_ok atts mr))) \/
     (exists a, In a atts /\ at_connect_ok a = true)) /\
  (forall conns, mon_get_direct conns (get_direct conns 0) = true).
Proof. split; [exact holepunch_success_means_direct_l|exact mon_get_direct_model]. Qed.
Print Assumptions c12_holepunch_success_means_direct.

(* the hole-punch monitor that judges the implementation accepts every
   behaviour of the model, for all inputs *)
Theorem c12_holepunch_monitor_accepts_model : forall conns pstore listen dial_ok atts mr,
  let '(evs, ok) := direct_connect conns pstore listen dial_ok atts mr in
  mon_direct_connect conns dial_ok atts evs ok = true.
Proof. exact mon_direct_connect_model. Qed.
Print Assumptions c12_holepunch_monitor_accepts_model.

(* ---- non-vacuity ------------------------------------------------------------------- *)
(* a reachable state with a call waiting for a direct connection *)
Example waiting_reachable :
  let s := run (init_state 1) [AAppend true true; AStart false false false false;
                               AThread 0; AThread 0; AThread 0] in
  reachable 1 s /\ waiters s = [0] /\ option_map t_pc (nth_error (threads s) 0) = Some (PWaiting 0).
Proof. split; [eexists; reflexivity|]. split; reflexivity. Qed.

(* a force-direct dial sharing the worker with an ordinary one *)
Example force_dial_reachable :
  o_dials (obs_of (apply_op (apply_op (apply_op (init_state 1) (OAddrs [4; 5]))
                     (OStart true false true false)) (OStart true false false false)))
  = [(4, true); (5, false)].
Proof. vm_compute. reflexivity. Qed.

(* the monitor rejects: a stream over a limited conn without allow-limited *)
Example monitor_rejects_stream_over_limited :
  monitor_case [0; 1;  1; 1; 1;  0; 0; 2; 1; 7; 0; 0;   4; 0; 0; 0; 0;  0; 0; 2; 1; 7; 1; 4; 0; 0; 0]%Z <> [].
Proof. vm_compute. discriminate. Qed.

(* the monitor rejects: only a limited conn but Connected reported *)
Example monitor_rejects_connected_for_limited :
  monitor_case [0; 1;  1; 1; 1;  0; 0; 1; 1; 7; 0; 0]%Z <> [].
Proof. vm_compute. discriminate. Qed.

(* the monitor rejects: a force-direct dial parked on a relay address *)
Example monitor_rejects_force_relay_dial :
  monitor_case [0; 1;  7; 1; 5;  0; 0; 0; 0; 0; 0;   4; 1; 0; 1; 0;  0; 0; 0; 0; 1; 3; 0; 5; 1; 5; 1]%Z <> [].
Proof. vm_compute. discriminate. Qed.

(* the monitor rejects: a NewStream that dialled a limited conn itself and is answered
   ErrLimitedConn at once instead of waiting (clause 9) *)
Example monitor_rejects_immediate_limited_error :
  monitor_case [0; 1;  7; 1; 5;  0; 0; 0; 0; 0; 0;   4; 0; 0; 0; 0;  0; 0; 0; 0; 1; 3; 0; 0; 1; 5; 0;
                8; 5; 1; 1;  0; 0; 2; 1; 7; 1; 5; 2; 0; 0]%Z <> [].
Proof. vm_compute. discriminate. Qed.

(* the monitor rejects: Connect(force-direct, allow-limited) succeeding over a relayed conn (clause 10) *)
Example monitor_rejects_force_connect_over_relay :
  monitor_case [0; 1;  1; 1; 1;  0; 0; 2; 1; 7; 0; 0;   12; 1; 1; 0;  0; 0; 2; 1; 7; 1; 6; 0; 23; 0]%Z <> [].
Proof. vm_compute. discriminate. Qed.

(* wire op 15 on the model: the call that started while the direct connection arrived is
   opening its stream on that connection (conn 1), nobody waits *)
Example race_call_gets_the_direct_conn :
  let x := obs_of (apply_wstep (apply_op (init_state 1) (OAdd true true)) (WRace false false false false false)) in
  map (fun c => (co_st c, co_arg c)) (o_calls x) = [(2, 1)] /\ o_nw x = 0.
Proof. vm_compute. split; reflexivity. Qed.

(* the monitor rejects a lost wake-up: the direct connection arrived while the call was between
   its look at the connection list and its registration, and the call is still waiting (clause 3) *)
Example monitor_rejects_lost_wakeup :
  monitor_case [0; 1;  1; 1; 1;  0; 0; 2; 1; 7; 0; 0;   15; 0; 0; 0; 0; 0;  1; 1; 1; 2; 7; 4; 1; 1; 0; 0; 0]%Z
  = [ERR_PROPERTY; 1; 3]%Z.
Proof. vm_compute. reflexivity. Qed.

(* the monitor rejects: a DialPeer demanding a direct connection with the EMPTY reason string
   is handed the relayed connection (clause 1) *)
Example monitor_rejects_relayed_conn_for_force_direct_without_reason :
  monitor_case [0; 1;  1; 1; 1;  0; 0; 2; 1; 7; 0; 0;   4; 1; 0; 2; 0;  0; 0; 2; 1; 7; 1; 4; 0; 5; 0]%Z
  = [ERR_PROPERTY; 1; 1]%Z.
Proof. vm_compute. reflexivity. Qed.

(* the hole-punch monitor rejects a punch to a relay address *)
Example monitor_rejects_punch_to_relay :
  monitor_case [1; 2; 0; 1; 1; 2; 1; 1; 1; 1; 1; 12; 1; 1; 1; 1; 1]%Z <> [].
Proof. vm_compute. discriminate. Qed.

(* C12 — the swarm monitor accepts every trace of the model. *)
From Coq Require Import List Arith ZArith Bool Lia.
From Verif Require Import lib.Wire c12.Model c12.SpecSwarm c12.Proofs_conn c12.Proofs_inv c12.Proofs_wait
  c12.Proofs_wake c12.Proofs_trace c12.Proofs_quiesce c12.Proofs_stim c12.Proofs_clauses c12.Proofs_clauses2.
Import ListNotations.

Lemma mon_check_model : forall da s o, reachable da s -> quiescent s -> pending s = [] ->
  mon_check (obs_of s) o (obs_of (apply_op s o)) = 0.
Proof.
  intros da s o R Q P.
  pose proof (reachable_apply_op da s o R) as R'.
  pose proof (apply_op_quiescent s o) as Q'.
  pose proof (apply_op_pending s o P) as P'.
  unfold mon_check.
  rewrite (clause1_holds _ (reachable_InvA _ _ R')). cbn [negb].
  assert (C2 : Nat.eqb (o_nw (obs_of (apply_op s o))) (n_waiting (o_calls (obs_of (apply_op s o)))) = true).
  { apply Nat.eqb_eq. cbn [obs_of o_nw o_calls]. apply (clause2_at_quiescence da _ R' Q'). }
  rewrite C2. cbn [negb].
  rewrite (clause3_holds da s _ R' Q' P').
  rewrite clause4_holds. cbn [negb].
  assert (C5 : cn_ok (o_conns (obs_of (apply_op s o))) (o_cn (obs_of (apply_op s o))) = true)
    by (cbn [obs_of o_conns o_cn]; apply clause5_holds).
  rewrite C5. cbn [negb].
  rewrite (clause6_holds _ (reachable_InvA _ _ R')). cbn [negb].
  rewrite (clause7_holds da s o R). cbn [negb].
  rewrite (clause8_holds s o P). cbn [negb].
  rewrite (clause9_holds da s o R Q P). cbn [negb].
  rewrite (clause10_holds _ (reachable_InvA _ _ R')). cbn [negb].
  rewrite (clause11_holds da _ R' Q' P'). reflexivity.
Qed.

Lemma monitor_run_model : forall da ops s i, reachable da s -> quiescent s -> pending s = [] ->
  monitor_run (obs_of s) i (model_trace s ops) = [].
Proof.
  intros da ops. induction ops as [|o r IH]; intros s i R Q P; [reflexivity|].
  cbn [model_trace monitor_run]. rewrite (mon_check_model da s o R Q P).
  apply IH; [apply reachable_apply_op; exact R|apply apply_op_quiescent|apply apply_op_pending; exact P].
Qed.

Lemma swarm_trace_holds_l : forall da ops,
  monitor_run obs_init 0 (model_trace (init_state da) ops) = [].
Proof.
  intros da ops. change obs_init with (obs_of (init_state da)).
  apply (monitor_run_model da); [exists []; reflexivity| |reflexivity].
  intros tid. unfold thread_step. cbn. destruct tid; reflexivity.
Qed.

(* C12 — the swarm monitor accepts every trace of the model. *)
From Coq Require Import List Arith ZArith Bool Lia.
From Verif Require Import lib.Wire c12.Model c12.SpecSwarm c12.Proofs_conn c12.Proofs_inv c12.Proofs_wait
  c12.Proofs_wake c12.Proofs_trace c12.Proofs_quiesce c12.Proofs_stim c12.Proofs_clauses c12.Proofs_clauses2.
Import ListNotations.

Lemma mon_check_model : forall da s o, reachable da s -> quiescent s -> pending s = [] ->
  mon_check (obs_of s) o (obs_of (apply_op s o)) = 0.
Proof.
  intros da s o R Q P.
  pose proof (reachable_apply_op da s o R) as R'.
  pose proof (apply_op_quiescent s o) as Q'.
  pose proof (apply_op_pending s o P) as P'.
  unfold mon_check.
  rewrite (clause1_holds _ (reachable_InvA _ _ R')). cbn [negb].
  assert (C2 : Nat.eqb (o_nw (obs_of (apply_op s o))) (n_waiting (o_calls (obs_of (apply_op s o)))) = true).
  { apply Nat.eqb_eq. cbn [obs_of o_nw o_calls]. apply (clause2_at_quiescence da _ R' Q'). }
  rewrite C2. cbn [negb].
  rewrite (clause3_holds da s _ R' Q' P').
  rewrite clause4_holds. cbn [negb].
  assert (C5 : cn_ok (o_conns (obs_of (apply_op s o))) (o_cn (obs_of (apply_op s o))) = true)
    by (cbn [obs_of o_conns o_cn]; apply clause5_holds).
  rewrite C5. cbn [negb].
  rewrite (clause6_holds _ (reachable_InvA _ _ R')). cbn [negb].
  rewrite (clause7_holds da s o R). cbn [negb].
  rewrite (clause8_holds s o P). cbn [negb].
  rewrite (clause9_holds da s o R Q P). cbn [negb].
  rewrite (clause10_holds _ (reachable_InvA _ _ R')). cbn [negb].
  rewrite (clause11_holds da _ R' Q' P'). reflexivity.
Qed.

Lemma monitor_run_model : forall da ops s i, reachable da s -> quiescent s -> pending s = [] ->
  monitor_run (obs_of s) i (model_trace s ops) = [].
Proof.
  intros da ops. induction ops as [|o r IH]; intros s i R Q P; [reflexivity|].
  cbn [model_trace monitor_run]. rewrite (mon_check_model da s o R Q P).
  apply IH; [apply reachable_apply_op; exact R|apply apply_op_quiescent|apply apply_op_pending; exact P].
Qed.

(* ---- wire steps: op 15, a non-limited connection arrives while a new call runs ------------- *)
Lemma race_conns : forall s d a f n proxy, pending s = [] ->
  conns (apply_op (apply_op s (OStart d a f n)) (OAdd false proxy)) = conns s ++ [new_conn false proxy].
Proof.
  intros s d a f n proxy P.
  assert (Cm : conns (apply_op s (OStart d a f n)) = conns s).
  { unfold apply_op. rewrite settle_conns. cbn [stimulate].
    destruct (do_step_start s d a f n) as [_ [C _]]. exact C. }
  pose proof (apply_op_pending s (OStart d a f n) P) as Pm.
  set (mid := apply_op s (OStart d a f n)) in *.
  unfold apply_op at 1. rewrite settle_conns. cbn [stimulate].
  destruct (do_step_append mid false proxy) as [Hc [_ [_ [_ Hp]]]]. rewrite Pm in Hp. cbn [app] in Hp.
  set (s1 := do_step mid (AAppend false proxy)) in *.
  assert (M : mem (length (conns mid)) (pending s1) = true) by (rewrite Hp; cbn; rewrite Nat.eqb_refl; reflexivity).
  destruct (do_step_notify_on s1 _ M) as [Hc2 _]. rewrite Hc2, Hc, Cm. reflexivity.
Qed.

Lemma direct_added_race : forall s d a f n proxy, pending s = [] ->
  direct_added (obs_of s) (obs_of (apply_op (apply_op s (OStart d a f n)) (OAdd false proxy))) = true.
Proof.
  intros s d a f n proxy P. apply direct_added_iff. rewrite (race_conns s d a f n proxy P). apply da_conns_app.
Qed.

Lemma reachable_apply_wstep : forall da s w, reachable da s -> reachable da (apply_wstep s w).
Proof. intros da s [o|d a f n p] R; cbn [apply_wstep]; repeat apply reachable_apply_op; exact R. Qed.

Lemma apply_wstep_quiescent : forall s w, quiescent (apply_wstep s w).
Proof. intros s [o|d a f n p]; cbn [apply_wstep]; apply apply_op_quiescent. Qed.

Lemma apply_wstep_pending : forall s w, pending s = [] -> pending (apply_wstep s w) = [].
Proof. intros s [o|d a f n p] P; cbn [apply_wstep]; repeat apply apply_op_pending; exact P. Qed.

(* the step "a non-limited connection was added", judged against ANY earlier observation p:
   stated for an abstract final state so that nothing is unfolded at Qed *)
Lemma mon_check_added_abs : forall da p x proxy, reachable da x -> quiescent x -> pending x = [] ->
  direct_added p (obs_of x) = true ->
  mon_check p (OAdd false proxy) (obs_of x) = 0.
Proof.
  intros da p x proxy R' Q' P' DA.
  unfold mon_check.
  rewrite (clause1_holds _ (reachable_InvA _ _ R')). cbn [negb].
  assert (C2 : Nat.eqb (o_nw (obs_of x)) (n_waiting (o_calls (obs_of x))) = true).
  { apply Nat.eqb_eq. cbn [obs_of o_nw o_calls]. apply (clause2_at_quiescence da _ R' Q'). }
  rewrite C2. cbn [negb].
  assert (C3 : direct_added_usable p (obs_of x) && negb (Nat.eqb (n_waiting (o_calls (obs_of x))) 0) = false).
  { destruct (direct_added_usable p (obs_of x)) eqn:D; [|reflexivity]. cbn [andb].
    pose proof (clause11_holds da _ R' Q' P') as C11. unfold no_waiter_with_direct in C11.
    unfold direct_added_usable in D. apply andb_true_iff in D. destruct D as [D1 D2].
    unfold direct_added in D1. apply andb_true_iff in D1. destruct D1 as [_ D1].
    destruct (nth_error (o_conns (obs_of x)) (length (o_conns p))) as [k|] eqn:E; [|discriminate].
    assert (H : has_direct (o_conns (obs_of x)) = true).
    { unfold has_direct. apply existsb_exists. exists k. split; [eapply nth_error_In; exact E|].
      rewrite D1, D2. reflexivity. }
    rewrite H in C11. cbn [negb orb] in C11. rewrite C11. reflexivity. }
  rewrite C3.
  cbn [ctx_ok negb].
  assert (C5 : cn_ok (o_conns (obs_of x)) (o_cn (obs_of x)) = true)
    by (cbn [obs_of o_conns o_cn]; apply clause5_holds).
  rewrite C5. cbn [negb].
  rewrite (clause6_holds _ (reachable_InvA _ _ R')). cbn [negb must_wait_ok].
  unfold keeps_waiting_ok, limited_err_ok. rewrite DA. cbn [negb orb].
  rewrite (clause10_holds _ (reachable_InvA _ _ R')). cbn [negb].
  rewrite (clause11_holds da _ R' Q' P'). reflexivity.
Qed.

Lemma mon_check_wstep : forall da s w, reachable da s -> quiescent s -> pending s = [] ->
  mon_check (obs_of s) (wstep_op w) (obs_of (apply_wstep s w)) = 0.
Proof.
  intros da s [o|d a f n proxy] R Q P; [exact (mon_check_model da s o R Q P)|].
  exact (mon_check_added_abs da (obs_of s) _ proxy
           (reachable_apply_wstep da s (WRace d a f n proxy) R)
           (apply_wstep_quiescent s (WRace d a f n proxy))
           (apply_wstep_pending s (WRace d a f n proxy) P)
           (direct_added_race s d a f n proxy P)).
Qed.

Lemma monitor_run_wmodel : forall da ws s i, reachable da s -> quiescent s -> pending s = [] ->
  monitor_run (obs_of s) i (model_wtrace s ws) = [].
Proof.
  intros da ws. induction ws as [|w r IH]; intros s i R Q P; [reflexivity|].
  cbn [model_wtrace monitor_run]. rewrite (mon_check_wstep da s w R Q P).
  apply IH; [apply reachable_apply_wstep; exact R|apply apply_wstep_quiescent|apply apply_wstep_pending; exact P].
Qed.

Lemma swarm_wtrace_holds_l : forall da ws,
  monitor_run obs_init 0 (model_wtrace (init_state da) ws) = [].
Proof.
  intros da ws. change obs_init with (obs_of (init_state da)).
  apply (monitor_run_wmodel da); [exists []; reflexivity| |reflexivity].
  intros tid. unfold thread_step. cbn. destruct tid; reflexivity.
Qed.

(* the race step is, for the model, the call followed by the connection: no lost wake-up
   whatever the moment the connection is added at *)
Lemma race_no_waiter_l : forall da s d a f n proxy, reachable da s -> pending s = [] ->
  let x := apply_wstep s (WRace d a f n proxy) in
  usable (get_conn (conns x) (length (conns s))) = true -> waiters x = [].
Proof.
  intros da s d a f n proxy R P x U.
  pose proof (reachable_apply_wstep da s (WRace d a f n proxy) R) as R'.
  pose proof (apply_wstep_pending s (WRace d a f n proxy) P) as P'. fold x in R', P'.
  assert (C : conns x = conns s ++ [new_conn false proxy]) by (apply race_conns; exact P).
  apply (no_lost_wakeup_l da x (length (conns s)) R'); [rewrite C, app_length; cbn; lia|exact U| |exact P'].
  rewrite C. unfold get_conn. rewrite app_nth2 by lia. rewrite Nat.sub_diag. reflexivity.
Qed.

(* the reason string handed to WithForceDirectDial is informational: a request made with the
   empty reason (wire value 2) is the same step as one made with a reason (wire value 1) *)
Lemma reason_ignored_l : forall d a n p r c,
  decode_wstep (4 :: d :: a :: 2 :: n :: r)%Z = decode_wstep (4 :: d :: a :: 1 :: n :: r)%Z /\
  decode_wstep (12 :: a :: 2 :: n :: r)%Z = decode_wstep (12 :: a :: 1 :: n :: r)%Z /\
  decode_wstep (15 :: d :: a :: 2 :: n :: p :: r)%Z = decode_wstep (15 :: d :: a :: 1 :: n :: p :: r)%Z /\
  co_force (call_of_z [c; 0; 4]%Z) = true.
Proof. intros. repeat split; reflexivity. Qed.

Lemma swarm_trace_holds_l : forall da ops,
  monitor_run obs_init 0 (model_trace (init_state da) ops) = [].
Proof.
  intros da ops. change obs_init with (obs_of (init_state da)).
  apply (monitor_run_model da); [exists []; reflexivity| |reflexivity].
  intros tid. unfold thread_step. cbn. destruct tid; reflexivity.
Qed.

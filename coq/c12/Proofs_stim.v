(* C12 — what one environment action does to the components the quiescence
   clauses talk about (threads in PWaiting, closedw, pending, conns). *)
From Coq Require Import List Arith ZArith Bool Lia.
From Verif Require Import lib.Wire c12.Model c12.SpecSwarm c12.Proofs_conn c12.Proofs_inv c12.Proofs_wait
  c12.Proofs_quiesce.
Import ListNotations.

Lemma do_step_some : forall s a s1, step_raw s a = Some s1 -> do_step s a = cleanup s1.
Proof. intros s a s1 H. unfold do_step, step. rewrite H. reflexivity. Qed.

Lemma do_step_none : forall s a, step_raw s a = None -> do_step s a = s.
Proof. intros s a H. unfold do_step, step. rewrite H. reflexivity. Qed.

(* ---- answering dial requests never touches a thread that is not in PDialWait ---------- *)
Definition not_dialwait (t : thread) : Prop := forall rid, t_pc t <> PDialWait rid.

Lemma respond_keeps : forall ths rid tid r i t,
  nth_error ths i = Some t -> not_dialwait t -> nth_error (respond ths rid tid r) i = Some t.
Proof.
  intros ths rid tid r i t Ht N. unfold respond.
  destruct (nth_error ths tid) as [x|] eqn:Hx; [|exact Ht].
  destruct (t_pc x) eqn:Hpc; try exact Ht. destruct (Nat.eqb rid rid0); [|exact Ht].
  destruct (Nat.eq_dec tid i) as [->|Ne].
  - rewrite Ht in Hx. injection Hx as <-. exfalso. eapply N; eauto.
  - rewrite nth_error_set_nth_neq by exact Ne. exact Ht.
Qed.

Lemma deliver_conn_keeps : forall a c pe ths pe' ths' i t,
  deliver_conn a c pe ths = (pe', ths') -> nth_error ths i = Some t -> not_dialwait t ->
  nth_error ths' i = Some t.
Proof.
  induction pe as [|p r IH]; intros ths pe' ths' i t H Ht N; cbn [deliver_conn] in H.
  - injection H as _ <-. exact Ht.
  - destruct (mem a (p_addrs p)).
    + eapply IH; [exact H| |exact N]. apply respond_keeps; assumption.
    + destruct (deliver_conn a c r ths) as [pe1 ths1] eqn:D. injection H as _ <-. eapply IH; eauto.
Qed.

Lemma dispatch_error_keeps : forall a cs pe ths pe' ths' i t,
  dispatch_error a cs pe ths = (pe', ths') -> nth_error ths i = Some t -> not_dialwait t ->
  nth_error ths' i = Some t.
Proof.
  induction pe as [|p r IH]; intros ths pe' ths' i t H Ht N; cbn [dispatch_error] in H.
  - injection H as _ <-. exact Ht.
  - destruct (mem a (p_addrs p)).
    + destruct (remove_nat a (p_addrs p)).
      * eapply IH; [exact H| |exact N]. apply respond_keeps; assumption.
      * destruct (dispatch_error a cs r ths) as [pe1 ths1] eqn:D. injection H as _ <-. eapply IH; eauto.
    + destruct (dispatch_error a cs r ths) as [pe1 ths1] eqn:D. injection H as _ <-. eapply IH; eauto.
Qed.

(* ---- one environment action and a thread in PWaiting ------------------------------------- *)
Definition quiet_for (i : nat) (a : action) : Prop :=
  match a with
  | AThread _ | AThreadAlt _ | ANotify _ => False
  | ACtx j => j <> i
  | _ => True
  end.

Lemma step_raw_keeps : forall s a s1 i t w,
  step_raw s a = Some s1 -> nth_error (threads s) i = Some t -> t_pc t = PWaiting w -> quiet_for i a ->
  nth_error (threads s1) i = Some t /\ closedw s1 = closedw s.
Proof.
  intros s a s1 i t w H Ht Hpc Q.
  assert (N : not_dialwait t) by (intros rid E; congruence).
  destruct a; cbn [step_raw quiet_for] in *; try contradiction.
  - injection H as <-. destruct lim; ssimpl; auto.
  - destruct (Nat.ltb c (length (conns s))); [|discriminate]. injection H as <-. ssimpl. auto.
  - destruct (Nat.ltb c (length (conns s))); [|discriminate]. injection H as <-. ssimpl. auto.
  - injection H as <-. ssimpl. split; [|reflexivity]. rewrite nth_error_app1; [exact Ht|eapply nth_error_lt; eauto].
  - destruct (Nat.ltb c (length (conns s))); [|discriminate]. injection H as <-. ssimpl.
    split; [|reflexivity]. rewrite nth_error_app1; [exact Ht|eapply nth_error_lt; eauto].
  - destruct (nth_error (threads s) tid) as [x|]; [|discriminate]. injection H as <-. ssimpl.
    split; [|reflexivity]. rewrite nth_error_set_nth_neq by exact Q. exact Ht.
  - destruct (nth_error (threads s) tid) as [x|] eqn:Hx; [|discriminate].
    destruct (t_pc x) eqn:Hpx; try discriminate.
    assert (Ne : tid <> i) by (intros ->; rewrite Ht in Hx; injection Hx as <-; congruence).
    destruct (ok && c_listed (get_conn (conns s) c)); [|destruct (t_onconn x)]; injection H as <-; ssimpl;
      (split; [|reflexivity]); rewrite nth_error_set_nth_neq by exact Ne; exact Ht.
  - injection H as <-. ssimpl. auto.
  - destruct (busy s); [discriminate|]. destruct (mem a (map fst (inflight s))); [|discriminate].
    destruct ok.
    + injection H as <-. destruct lim; ssimpl; auto.
    + destruct (dispatch_error a (conns s) (pend s) (threads s)) as [pe ths] eqn:D. injection H as <-. ssimpl.
      split; [|reflexivity]. eapply dispatch_error_keeps; eauto.
  - destruct (busy s) as [[a c]|]; [|discriminate]. destruct (mem c (pending s)); [discriminate|].
    destruct (deliver_conn a c (pend s) (threads s)) as [pe ths] eqn:D. injection H as <-. ssimpl.
    split; [|reflexivity]. eapply deliver_conn_keeps; eauto.
  - injection H as <-. ssimpl. split; [|reflexivity]. rewrite nth_error_app1; [exact Ht|eapply nth_error_lt; eauto].
Qed.

Lemma do_step_keeps : forall s a i t w,
  nth_error (threads s) i = Some t -> t_pc t = PWaiting w -> quiet_for i a ->
  nth_error (threads (do_step s a)) i = Some t /\ closedw (do_step s a) = closedw s.
Proof.
  intros s a i t w Ht Hpc Q. destruct (step_raw s a) as [s1|] eqn:E.
  - rewrite (do_step_some _ _ _ E). destruct (cleanup_same s1) as [A [_ [C _]]]. rewrite A, C.
    eapply step_raw_keeps; eauto.
  - rewrite (do_step_none _ _ E). auto.
Qed.

(* ---- pending --------------------------------------------------------------------------------- *)
Lemma remove_nat_self : forall c, remove_nat c [c] = [].
Proof. intros c. unfold remove_nat. cbn. rewrite Nat.eqb_refl. reflexivity. Qed.

Lemma do_step_notify_off : forall s c, mem c (pending s) = false -> do_step s (ANotify c) = s.
Proof. intros s c H. apply do_step_none. cbn [step_raw]. rewrite H. reflexivity. Qed.

Lemma do_step_append : forall s lim proxy,
  let s1 := do_step s (AAppend lim proxy) in
  conns s1 = conns s ++ [new_conn lim proxy] /\ threads s1 = threads s /\ closedw s1 = closedw s /\
  waiters s1 = waiters s /\
  pending s1 = (if lim then pending s else pending s ++ [length (conns s)]).
Proof.
  intros s lim proxy. cbv zeta.
  rewrite (do_step_some s (AAppend lim proxy) _ eq_refl).
  match goal with |- context [cleanup ?x] => destruct (cleanup_same x) as [A [B [C [D [_ [F _]]]]]] end.
  rewrite A, B, C, D, F. destruct lim; ssimpl; auto.
Qed.

Lemma do_step_notify_on : forall s c, mem c (pending s) = true ->
  let s1 := do_step s (ANotify c) in
  conns s1 = conns s /\ threads s1 = threads s /\ waiters s1 = [] /\ pending s1 = remove_nat c (pending s).
Proof.
  intros s c H. cbv zeta.
  assert (E : step_raw s (ANotify c) =
              Some (set_pending (set_wl s [] (closedw s ++ waiters s) (removedw s) (nextw s)) (remove_nat c (pending s))))
    by (cbn [step_raw]; rewrite H; reflexivity).
  rewrite (do_step_some _ _ _ E).
  match goal with |- context [cleanup ?x] => destruct (cleanup_same x) as [A [B [C [D [_ [F _]]]]]] end.
  rewrite A, B, D, F. ssimpl. auto.
Qed.

(* any action other than AAppend / ANotify / ADialRes keeps pending *)
Lemma step_raw_pending_same : forall s a s1, step_raw s a = Some s1 ->
  match a with
  | AThread _ | AThreadAlt _ | AAppend _ _ | ANotify _ | ADialRes _ _ _ => True
  | _ => pending s1 = pending s
  end.
Proof.
  intros s a s1 H. destruct a; cbn [step_raw] in *; auto.
  - destruct (Nat.ltb c (length (conns s))); [|discriminate]. injection H as <-. reflexivity.
  - destruct (Nat.ltb c (length (conns s))); [|discriminate]. injection H as <-. reflexivity.
  - injection H as <-. reflexivity.
  - destruct (Nat.ltb c (length (conns s))); [|discriminate]. injection H as <-. reflexivity.
  - destruct (nth_error (threads s) tid); [|discriminate]. injection H as <-. reflexivity.
  - destruct (nth_error (threads s) tid) as [x|]; [|discriminate]. destruct (t_pc x); try discriminate.
    destruct (ok && c_listed (get_conn (conns s) c)); [|destruct (t_onconn x)]; injection H as <-; reflexivity.
  - injection H as <-. reflexivity.
  - destruct (busy s) as [[a c]|]; [|discriminate]. destruct (mem c (pending s)); [discriminate|].
    destruct (deliver_conn a c (pend s) (threads s)) as [pe ths]. injection H as <-. reflexivity.
  - injection H as <-. reflexivity.
Qed.

Lemma do_step_pending_same : forall s a,
  match a with
  | AThread _ | AThreadAlt _ | AAppend _ _ | ANotify _ | ADialRes _ _ _ => False
  | _ => True
  end -> pending (do_step s a) = pending s.
Proof.
  intros s a Q. destruct (step_raw s a) as [s1|] eqn:E.
  - rewrite (do_step_some _ _ _ E). destruct (cleanup_same s1) as [_ [_ [_ [D _]]]]. rewrite D.
    pose proof (step_raw_pending_same _ _ _ E) as P. destruct a; try contradiction; exact P.
  - rewrite (do_step_none _ _ E). reflexivity.
Qed.

Lemma do_step_dialres : forall s a ok lim,
  let s1 := do_step s (ADialRes a ok lim) in
  closedw s1 = closedw s /\
  ((conns s1 = conns s /\ pending s1 = pending s) \/
   (conns s1 = conns s ++ [new_conn lim (is_relay a)] /\
    pending s1 = (if lim then pending s else pending s ++ [length (conns s)]))).
Proof.
  intros s a ok lim. cbv zeta. destruct (step_raw s (ADialRes a ok lim)) as [s1|] eqn:E.
  - rewrite (do_step_some _ _ _ E). destruct (cleanup_same s1) as [_ [B [C [D _]]]]. rewrite B, C, D.
    cbn [step_raw] in E. destruct (busy s); [discriminate|].
    destruct (mem a (map fst (inflight s))); [|discriminate]. destruct ok.
    + injection E as <-. split; [destruct lim; reflexivity|]. right. destruct lim; ssimpl; auto.
    + destruct (dispatch_error a (conns s) (pend s) (threads s)) as [pe ths]. injection E as <-. ssimpl. auto.
  - rewrite (do_step_none _ _ E). auto.
Qed.

(* ---- the boundary invariant: between operations no notification is pending --------------- *)
Lemma notify_after_append : forall s1 c (lim : bool) p0,
  pending s1 = (if lim then [] else [] ++ [c]) -> p0 = pending s1 ->
  pending (do_step s1 (ANotify c)) = [].
Proof.
  intros s1 c lim p0 H _. destruct lim.
  - rewrite do_step_notify_off; [exact H|]. rewrite H. reflexivity.
  - assert (M : mem c (pending s1) = true) by (rewrite H; cbn; rewrite Nat.eqb_refl; reflexivity).
    destruct (do_step_notify_on s1 c M) as [_ [_ [_ P]]]. rewrite P, H. apply remove_nat_self.
Qed.

Lemma expire_all_pending : forall n s tid, pending (expire_all s tid n) = pending s.
Proof.
  induction n as [|k IH]; intros s tid; cbn [expire_all]; [reflexivity|]. rewrite IH.
  destruct (nth_error (threads s) tid) as [t|]; [|reflexivity]. destruct (waits t); [|reflexivity].
  apply do_step_pending_same. exact I.
Qed.

Lemma stimulate_pending : forall s o, pending s = [] -> pending (stimulate s o) = [].
Proof.
  intros s o P. destruct o; cbn [stimulate];
    try (rewrite do_step_pending_same by exact I; exact P).
  - destruct (do_step_append s lim proxy) as [_ [_ [_ [_ Hp]]]]. rewrite P in Hp.
    eapply notify_after_append; [exact Hp|reflexivity].
  - destruct (do_step_dialres s a ok lim) as [_ [[Hc Hp]|[Hc Hp]]]; rewrite P in Hp.
    + rewrite do_step_pending_same by exact I. rewrite do_step_notify_off; [exact Hp|]. rewrite Hp. reflexivity.
    + rewrite do_step_pending_same by exact I. eapply notify_after_append; [exact Hp|reflexivity].
  - rewrite expire_all_pending. exact P.
  - destruct (do_step_append s lim proxy) as [_ [_ [_ [_ Hp]]]]. rewrite P in Hp.
    set (s1 := do_step s (AAppend lim proxy)) in *.
    assert (Hp2 : pending (do_step s1 (AMark (length (conns s)))) = (if lim then [] else [] ++ [length (conns s)]))
      by (rewrite do_step_pending_same by exact I; exact Hp).
    eapply notify_after_append; [exact Hp2|reflexivity].
  - exact P.
Qed.

Lemma apply_op_pending : forall s o, pending s = [] -> pending (apply_op s o) = [].
Proof. intros s o P. unfold apply_op. rewrite settle_pending. apply stimulate_pending. exact P. Qed.

Lemma do_step_deliver_conns : forall s, conns (do_step s ADeliver) = conns s.
Proof.
  intros s. destruct (step_raw s ADeliver) as [s1|] eqn:E.
  - rewrite (do_step_some _ _ _ E). destruct (cleanup_same s1) as [_ [B _]]. rewrite B.
    cbn [step_raw] in E. destruct (busy s) as [[a c]|]; [|discriminate]. destruct (mem c (pending s)); [discriminate|].
    destruct (deliver_conn a c (pend s) (threads s)) as [pe ths]. injection E as <-. reflexivity.
  - rewrite (do_step_none _ _ E). reflexivity.
Qed.

(* a new non-limited connection was appended *)
Definition da_conns (cs cs' : list conn) : Prop :=
  length cs' = S (length cs) /\ exists k, nth_error cs' (length cs) = Some k /\ c_lim k = false.

Lemma da_conns_app : forall cs proxy, da_conns cs (cs ++ [new_conn false proxy]).
Proof.
  intros cs proxy. split; [rewrite app_length; cbn; lia|]. exists (new_conn false proxy).
  split; [|reflexivity]. rewrite nth_error_app2 by lia. rewrite Nat.sub_diag. reflexivity.
Qed.

(* a blocked waiter is untouched by a stimulus, unless its context ends or a
   non-limited connection arrives *)
Lemma stimulate_keeps_waiter : forall s o i t w,
  pending s = [] -> nth_error (threads s) i = Some t -> t_pc t = PWaiting w ->
  o <> OExpire -> (forall j, o = OCtx j -> j <> i) ->
  ~ da_conns (conns s) (conns (stimulate s o)) ->
  nth_error (threads (stimulate s o)) i = Some t /\ closedw (stimulate s o) = closedw s.
Proof.
  intros s o i t w P Ht Hpc NE NC ND.
  assert (K1 : forall a, quiet_for i a ->
            nth_error (threads (do_step s a)) i = Some t /\ closedw (do_step s a) = closedw s)
    by (intros a Q; eapply do_step_keeps; eauto).
  destruct o; cbn [stimulate] in *; try (apply K1; exact I).
  - (* OAdd *)
    destruct (do_step_append s lim proxy) as [Hc [_ [_ [_ Hp]]]]. rewrite P in Hp.
    set (s1 := do_step s (AAppend lim proxy)) in *. destruct (K1 (AAppend lim proxy) I) as [T1 C1]. fold s1 in T1, C1.
    destruct lim.
    + rewrite do_step_notify_off; [auto|]. rewrite Hp. reflexivity.
    + exfalso. apply ND.
      assert (M : mem (length (conns s)) (pending s1) = true) by (rewrite Hp; cbn; rewrite Nat.eqb_refl; reflexivity).
      destruct (do_step_notify_on s1 _ M) as [Hc2 _]. rewrite Hc2, Hc. apply da_conns_app.
  - (* OCtx *) apply K1. cbn. apply NC. reflexivity.
  - (* ODialRes *)
    destruct (do_step_dialres s a ok lim) as [_ Hd]. rewrite P in Hd.
    set (s1 := do_step s (ADialRes a ok lim)) in *. destruct (K1 (ADialRes a ok lim) I) as [T1 C1]. fold s1 in T1, C1.
    assert (Off : pending s1 = [] ->
              nth_error (threads (do_step (do_step s1 (ANotify (length (conns s)))) ADeliver)) i = Some t /\
              closedw (do_step (do_step s1 (ANotify (length (conns s)))) ADeliver) = closedw s).
    { intros Hp. rewrite do_step_notify_off by (rewrite Hp; reflexivity).
      destruct (do_step_keeps s1 ADeliver i t w T1 Hpc I) as [T2 C2]. split; [exact T2|congruence]. }
    destruct Hd as [[Hc Hp]|[Hc Hp]]; [apply Off; exact Hp|]. destruct lim; [apply Off; exact Hp|].
    exfalso. apply ND. rewrite do_step_deliver_conns.
    assert (M : mem (length (conns s)) (pending s1) = true) by (rewrite Hp; cbn; rewrite Nat.eqb_refl; reflexivity).
    destruct (do_step_notify_on s1 _ M) as [Hc2 _]. rewrite Hc2, Hc. apply da_conns_app.
  - congruence.
  - (* OAddClosed *)
    destruct (do_step_append s lim proxy) as [Hc [_ [_ [_ Hp]]]]. rewrite P in Hp.
    set (s1 := do_step s (AAppend lim proxy)) in *. destruct (K1 (AAppend lim proxy) I) as [T1 C1]. fold s1 in T1, C1.
    set (s2 := do_step s1 (AMark (length (conns s)))) in *.
    destruct (do_step_keeps s1 (AMark (length (conns s))) i t w T1 Hpc I) as [T2 C2]. fold s2 in T2, C2.
    assert (Hp2 : pending s2 = pending s1) by (apply do_step_pending_same; exact I).
    destruct lim.
    + rewrite do_step_notify_off; [split; [exact T2|congruence]|]. rewrite Hp2, Hp. reflexivity.
    + exfalso. apply ND.
      assert (M : mem (length (conns s)) (pending s2) = true) by (rewrite Hp2, Hp; cbn; rewrite Nat.eqb_refl; reflexivity).
      destruct (do_step_notify_on s2 _ M) as [Hc2 _]. rewrite Hc2.
      (* AMark keeps the length and the Limited flag of every connection *)
      unfold s2. destruct (step_raw s1 (AMark (length (conns s)))) as [s3|] eqn:E.
      * rewrite (do_step_some _ _ _ E). destruct (cleanup_same s3) as [_ [B _]]. rewrite B.
        cbn [step_raw] in E. destruct (Nat.ltb (length (conns s)) (length (conns s1))) eqn:L; [|discriminate].
        injection E as <-. ssimpl. rewrite Hc. split; [rewrite set_nth_length, app_length; cbn; lia|].
        eexists. split; [apply nth_error_set_nth_eq; rewrite app_length; cbn; lia|]. cbn.
        rewrite get_conn_app_new. reflexivity.
      * rewrite (do_step_none _ _ E), Hc. apply da_conns_app.
  - auto.
Qed.

(* ---- calls never disappear --------------------------------------------------------------------- *)
Lemma step_raw_nthreads : forall s a s1, step_raw s a = Some s1 -> length (threads s) <= length (threads s1).
Proof.
  intros s a s1 H. destruct a; cbn [step_raw] in H.
  - destruct (thread_step_frame _ _ _ H) as [t [t' F]]. rewrite (F_new _ _ _ _ _ F), set_nth_length. lia.
  - unfold thread_step_alt in H. destruct (nth_error (threads s) tid) as [t|]; [|discriminate].
    destruct (t_pc t); try discriminate. destruct (t_ctx t); [|discriminate]. injection H as <-. ssimpl.
    rewrite set_nth_length. lia.
  - injection H as <-. destruct lim; ssimpl; lia.
  - destruct (mem c (pending s)); [|discriminate]. injection H as <-. ssimpl. lia.
  - destruct (Nat.ltb c (length (conns s))); [|discriminate]. injection H as <-. ssimpl. lia.
  - destruct (Nat.ltb c (length (conns s))); [|discriminate]. injection H as <-. ssimpl. lia.
  - injection H as <-. ssimpl. rewrite app_length. lia.
  - destruct (Nat.ltb c (length (conns s))); [|discriminate]. injection H as <-. ssimpl. rewrite app_length. lia.
  - destruct (nth_error (threads s) tid); [|discriminate]. injection H as <-. ssimpl. rewrite set_nth_length. lia.
  - destruct (nth_error (threads s) tid) as [x|]; [|discriminate]. destruct (t_pc x); try discriminate.
    destruct (ok && c_listed (get_conn (conns s) c)); [|destruct (t_onconn x)]; injection H as <-; ssimpl;
      rewrite set_nth_length; lia.
  - injection H as <-. ssimpl. lia.
  - destruct (busy s); [discriminate|]. destruct (mem a (map fst (inflight s))); [|discriminate]. destruct ok.
    + injection H as <-. destruct lim; ssimpl; lia.
    + destruct (dispatch_error a (conns s) (pend s) (threads s)) as [pe ths] eqn:D. injection H as <-. ssimpl.
      destruct (dispatch_error_same_owners _ _ _ _ _ _ D) as [L _]. lia.
  - destruct (busy s) as [[a c]|]; [|discriminate]. destruct (mem c (pending s)); [discriminate|].
    destruct (deliver_conn a c (pend s) (threads s)) as [pe ths] eqn:D. injection H as <-. ssimpl.
    destruct (deliver_conn_same_owners _ _ _ _ _ _ D) as [L _]. lia.
  - injection H as <-. ssimpl. rewrite app_length. lia.
Qed.

Lemma do_step_nthreads : forall s a, length (threads s) <= length (threads (do_step s a)).
Proof.
  intros s a. destruct (step_raw s a) as [s1|] eqn:E.
  - rewrite (do_step_some _ _ _ E). destruct (cleanup_same s1) as [A _]. rewrite A. eapply step_raw_nthreads; eauto.
  - rewrite (do_step_none _ _ E). lia.
Qed.

Lemma expire_all_nthreads : forall n s tid, length (threads s) <= length (threads (expire_all s tid n)).
Proof.
  induction n as [|k IH]; intros s tid; cbn [expire_all]; [lia|].
  eapply Nat.le_trans; [|apply IH]. destruct (nth_error (threads s) tid) as [t|]; [|lia].
  destruct (waits t); [apply do_step_nthreads|lia].
Qed.

Lemma stimulate_nthreads : forall s o, length (threads s) <= length (threads (stimulate s o)).
Proof.
  intros s o. destruct o; cbn [stimulate];
    repeat (eapply Nat.le_trans; [|apply do_step_nthreads]); try lia.
  apply expire_all_nthreads.
Qed.

Lemma apply_op_nthreads : forall s o, length (threads s) <= length (threads (apply_op s o)).
Proof. intros s o. unfold apply_op. rewrite settle_nthreads. apply stimulate_nthreads. Qed.

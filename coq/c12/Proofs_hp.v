(* C12 — hole-punch decisions: lemmas. *)
From Coq Require Import List Arith ZArith Bool Lia.
From Verif Require Import c12.ModelHP c12.SpecHP.
Import ListNotations.

Lemma remove_relay_no_relay : forall l a, In a (remove_relay l) -> h_relay a = false /\ In a l.
Proof.
  intros l a H. unfold remove_relay in H. apply filter_In in H. destruct H as [H1 H2].
  apply negb_true_iff in H2. auto.
Qed.

Lemma remove_relay_keeps : forall l a, In a l -> h_relay a = false -> In a (remove_relay l).
Proof. intros l a H1 H2. unfold remove_relay. apply filter_In. rewrite H2. auto. Qed.

Lemma remove_relay_forallb : forall l, forallb (fun a => negb (h_relay a)) (remove_relay l) = true.
Proof. intros l. apply forallb_forall. intros a H. apply remove_relay_no_relay in H. destruct H as [-> _]. reflexivity. Qed.

Lemma get_direct_some : forall conns i j, get_direct conns i = Some j ->
  i <= j /\ nth_error conns (j - i) = Some false.
Proof.
  induction conns as [|r rest IH]; intros i j H; cbn [get_direct] in H; [discriminate|].
  destruct r.
  - destruct (IH _ _ H) as [L N]. split; [lia|]. replace (j - i) with (S (j - S i)) by lia. exact N.
  - injection H as <-. split; [lia|]. rewrite Nat.sub_diag. reflexivity.
Qed.

Lemma get_direct_none : forall conns i, get_direct conns i = None -> forallb (fun r => r) conns = true.
Proof.
  induction conns as [|r rest IH]; intros i H; [reflexivity|]. cbn [get_direct] in H.
  destruct r; [|discriminate]. cbn. eapply IH; eauto.
Qed.

Lemma mon_get_direct_model : forall conns, mon_get_direct conns (get_direct conns 0) = true.
Proof.
  intros conns. unfold mon_get_direct. destruct (get_direct conns 0) as [j|] eqn:E.
  - destruct (get_direct_some _ _ _ E) as [_ N]. rewrite Nat.sub_0_r in N. rewrite N. reflexivity.
  - eapply get_direct_none; eauto.
Qed.

(* every event of the punch loop: force-direct, no relay address, coordination stream is
   allow-limited + no-dial; a success comes from an attempt whose Connect succeeded *)
Lemma punch_loop_ok : forall n listen atts evs ok,
  punch_loop listen atts n = (evs, ok) ->
  forallb ev_ok evs = true /\
  (ok = true -> existsb at_connect_ok atts = true /\
                existsb (fun e => match e with EPunch true _ _ _ => true | _ => false end) evs = true).
Proof.
  induction n as [|k IH]; intros listen atts evs ok H.
  - destruct atts; cbn [punch_loop] in H; injection H as <- <-; split; (reflexivity || discriminate).
  - destruct atts as [|a rest]; cbn [punch_loop] in H; [injection H as <- <-; split; [reflexivity|discriminate]|].
    destruct (negb (at_stream_ok a)); [injection H as <- <-; split; [reflexivity|discriminate]|].
    destruct (remove_relay listen); [injection H as <- <-; split; [reflexivity|discriminate]|].
    destruct (negb (Nat.eqb (at_reply a) 1)); [injection H as <- <-; split; [reflexivity|discriminate]|].
    destruct (remove_relay (at_addrs a)) as [|x xs] eqn:R; [injection H as <- <-; split; [reflexivity|discriminate]|].
    assert (F : forallb (fun a0 => negb (h_relay a0)) (x :: xs) = true) by (rewrite <- R; apply remove_relay_forallb).
    destruct (at_connect_ok a) eqn:C.
    + injection H as <- <-. split.
      * cbn [app forallb ev_ok andb] in *. rewrite F. reflexivity.
      * intros _. cbn [existsb]. rewrite C. split; [reflexivity|]. cbn. reflexivity.
    + destruct (punch_loop listen rest k) as [evs1 ok1] eqn:P. injection H as <- <-.
      destruct (IH _ _ _ _ P) as [I1 I2]. split.
      * change (([EStream true true] ++ [EPunch true true (Nat.eqb k 0) (x :: xs)]) ++ evs1)
          with (EStream true true :: EPunch true true (Nat.eqb k 0) (x :: xs) :: evs1).
        cbn [forallb ev_ok andb] in *. rewrite F. cbn [andb]. exact I1.
      * intros Hok. destruct (I2 Hok) as [J1 J2]. cbn [existsb]. rewrite J1, orb_true_r.
        split; [reflexivity|]. cbn. reflexivity.
Qed.

Lemma punch_loop_coordinates : forall n listen atts evs ok,
  punch_loop listen atts n = (evs, ok) -> True.
Proof. auto. Qed.

(* the monitor accepts everything directConnect (the model) can do *)
Lemma mon_direct_connect_model : forall conns pstore listen dial_ok atts mr,
  let '(evs, ok) := direct_connect conns pstore listen dial_ok atts mr in
  mon_direct_connect conns dial_ok atts evs ok = true.
Proof.
  intros conns pstore listen dial_ok atts mr. unfold direct_connect, mon_direct_connect.
  destruct (get_direct conns 0) as [j|] eqn:G.
  - destruct (get_direct_some _ _ _ G) as [_ N]. rewrite Nat.sub_0_r in N.
    assert (E : existsb negb conns = true).
    { apply existsb_exists. exists false. split; [eapply nth_error_In; eauto|reflexivity]. }
    cbn. rewrite E. reflexivity.
  - pose proof (get_direct_none _ _ G) as A.
    destruct (existsb (fun a => negb (h_relay a) && h_public a) pstore).
    + destruct dial_ok.
      * cbn. destruct (existsb negb conns); reflexivity.
      * destruct (punch_loop listen atts mr) as [evs ok] eqn:P. destruct (punch_loop_ok _ _ _ _ _ P) as [I1 I2].
        cbn [forallb ev_ok andb existsb coordinates orb]. rewrite I1, A. rewrite orb_true_r. cbn [andb].
        destruct ok; [|reflexivity]. destruct (I2 eq_refl) as [J1 J2]. rewrite J1, J2.
        cbn. rewrite !orb_true_r. reflexivity.
    + destruct (punch_loop listen atts mr) as [evs ok] eqn:P. destruct (punch_loop_ok _ _ _ _ _ P) as [I1 I2].
      rewrite I1, A. rewrite orb_true_r. cbn [andb].
      destruct ok; [|reflexivity]. destruct (I2 eq_refl) as [J1 J2]. rewrite J1, J2. cbn. rewrite !orb_true_r. reflexivity.
Qed.

Lemma mon_incoming_model : forall inbound conn_relay own obs msg sync,
  mon_incoming inbound conn_relay (incoming inbound conn_relay own obs msg sync) = true.
Proof.
  intros inbound conn_relay own obs msg sync. unfold incoming, mon_incoming.
  destruct inbound; [reflexivity|]. destruct conn_relay; [|reflexivity]. cbn [negb].
  destruct own; [reflexivity|]. destruct (negb (Nat.eqb msg 1)); [reflexivity|].
  destruct (remove_relay obs) as [|x xs] eqn:R; [reflexivity|]. destruct sync; [|reflexivity].
  pose proof (remove_relay_forallb obs) as F. rewrite R in F.
  cbn [forallb ev_ok andb] in *. rewrite F. reflexivity.
Qed.

Lemma mon_notifiee_model : forall inbound conn_relay,
  mon_notifiee inbound conn_relay (notifiee_starts inbound conn_relay) = true.
Proof. intros [|] [|]; reflexivity. Qed.

(* readable forms *)
Lemma holepunch_only_over_relay_l : forall conns pstore listen dial_ok atts mr e,
  In e (fst (direct_connect conns pstore listen dial_ok atts mr)) ->
  ev_ok e = true /\ (coordinates e = true -> forall r, In r conns -> r = true).
Proof.
  intros conns pstore listen dial_ok atts mr e Hin.
  pose proof (mon_direct_connect_model conns pstore listen dial_ok atts mr) as M.
  destruct (direct_connect conns pstore listen dial_ok atts mr) as [evs ok]. cbn [fst] in Hin.
  unfold mon_direct_connect in M. apply andb_true_iff in M. destruct M as [M _].
  apply andb_true_iff in M. destruct M as [M1 M2]. split.
  - rewrite forallb_forall in M1. apply M1. exact Hin.
  - intros Hc r Hr. apply orb_true_iff in M2. destruct M2 as [M2|M2].
    + apply negb_true_iff in M2. assert (X : existsb coordinates evs = true)
        by (apply existsb_exists; exists e; auto). congruence.
    + rewrite forallb_forall in M2. apply M2. exact Hr.
Qed.

Lemma holepunch_success_means_direct_l : forall conns pstore listen dial_ok atts mr,
  snd (direct_connect conns pstore listen dial_ok atts mr) = true ->
  (exists r, In r conns /\ r = false) \/
  (dial_ok = true /\ In (EDirectDial true false) (fst (direct_connect conns pstore listen dial_ok atts mr))) \/
  (exists a, In a atts /\ at_connect_ok a = true).
Proof.
  intros conns pstore listen dial_ok atts mr Hok. unfold direct_connect in *.
  destruct (get_direct conns 0) as [j|] eqn:G.
  - left. destruct (get_direct_some _ _ _ G) as [_ N]. exists false. split; [eapply nth_error_In; eauto|reflexivity].
  - destruct (existsb (fun a => negb (h_relay a) && h_public a) pstore).
    + destruct dial_ok.
      * right. left. split; [reflexivity|]. cbn. auto.
      * destruct (punch_loop listen atts mr) as [evs ok] eqn:P. cbn [snd] in Hok. subst ok.
        destruct (punch_loop_ok _ _ _ _ _ P) as [_ I2]. destruct (I2 eq_refl) as [J1 _].
        right. right. apply existsb_exists in J1. exact J1.
    + destruct (punch_loop listen atts mr) as [evs ok] eqn:P. cbn [snd] in Hok. subst ok.
      destruct (punch_loop_ok _ _ _ _ _ P) as [_ I2]. destruct (I2 eq_refl) as [J1 _].
      right. right. apply existsb_exists in J1. exact J1.
Qed.

(* C12 — entry points of the correspondence driver: dispatch on the case kind.
   kind 0 = swarm scenario (format and monitor in SpecSwarm.v),
   kind 1 = hole-punch decisions (SpecHP.v). *)
From Coq Require Import List Arith ZArith Bool.
From Verif Require Import lib.Wire c12.Model.
From Verif Require Export c12.SpecSwarm.
From Verif Require Import c12.SpecHP.
Import ListNotations.
Local Open Scope Z_scope.

Definition conform_case (l : list Z) : list Z :=
  if negb (nonneg l) then [ERR_MALFORMED; 0] else
  match l with
  | 0 :: da :: r => conform_swarm da r
  | 1 :: r => conform_hp r
  | _ => [ERR_MALFORMED; 3]
  end.

Definition monitor_case (l : list Z) : list Z :=
  if negb (nonneg l) then [ERR_MALFORMED; 0] else
  match l with
  | 0 :: da :: r => monitor_swarm r
  | 1 :: r => monitor_hp r
  | _ => [ERR_MALFORMED; 3]
  end.

(* C12 — the property as decidable predicates over observable traces, the
   harness-level operations (one stimulus, then every call runs until it
   blocks) and the decoding of correspondence lines.  No proofs here.

   WIRE FORMAT (one case per line)
   -------------------------------
   kind 0 — swarm scenario, one remote peer:
       0 DialAttempts (OP OBS)*
     OP  = 1 lim proxy           an inbound connection arrives (Swarm.addConn), Stat().Limited = lim,
                                 Transport().Proxy() = proxy; conn ids are 0,1,2.. in creation order
         | 2 c                   the transport connection c reports IsClosed() (still in the swarm's list)
         | 3 c                   Conn.Close() on c (removed from the swarm's list)
         | 4 dial allow force nodial
                                 a new call (ids 0,1,2..): dial=0 Swarm.NewStream, dial=1 Swarm.DialPeer, with
                                 WithAllowLimitedConn / WithForceDirectDial / WithNoDial as flagged
         | 5 tid                 the context of call tid is cancelled
         | 6 tid ok              the transport's OpenStream that call tid is parked in returns (ok=0: an error)
         | 7 k a_1..a_k          the peerstore's addresses of the peer become a_1..a_k; address = 4*id + class,
                                 class 0 direct, 1 relay (/p2p-circuit), 2 no transport
         | 8 a ok lim            the transport dial parked on address a returns (ok=1: a conn with Limited=lim)
         | 9                     virtual time advances by network.DialPeerTimeout: every wait / dial times out
         | 10 lim proxy          like 1, but the connection already reports IsClosed() when it is added
     OBS = nw key cn  n (st arg)^n  k (a f)^k
         nw  = len(directConnNotifs.m[p]); key = 1 iff the map has the key
         cn  = Connectedness(p): 0 NotConnected, 1 Connected, 2 Limited
         per call: st 1 blocked waiting for a direct connection (arg 0), 2 parked in OpenStream of conn arg,
                   3 blocked in dialPeer (arg 0), 4 returned a stream/conn on conn arg, 5 returned error arg
                   (st 0 never comes from the implementation: the model's "still runnable")
         dials parked in a transport, ascending: address a, f = GetForceDirectDial(ctx of that dial)
   kind 1 — hole-punch decisions: see the second half of this file. *)
From Coq Require Import List Arith ZArith Bool.
From Verif Require Import lib.Wire c12.Model.
Import ListNotations.

(* ---- operations ------------------------------------------------------------- *)
Inductive op :=
| OAdd (lim proxy : bool)
| OMark (c : nat)
| OReap (c : nat)
| OStart (dial allow force nodial : bool)
| OCtx (tid : nat)
| OOpenRes (tid : nat) (ok : bool)
| OAddrs (l : list addr)
| ODialRes (a : addr) (ok lim : bool)
| OExpire
| OAddClosed (lim proxy : bool).

(* run the lowest-numbered runnable call for one step *)
Fixpoint first_enabled (s : state) (tid n : nat) : option state :=
  match n with
  | O => None
  | S k => match step s (AThread tid) with
           | Some s' => Some s'
           | None => first_enabled s (S tid) k
           end
  end.

Fixpoint settle (fuel : nat) (s : state) : state :=
  match fuel with
  | O => s
  | S f => match first_enabled s 0 (length (threads s)) with
           | Some s' => settle f s'
           | None => s
           end
  end.

Definition rank (p : pc) : nat :=
  match p with
  | POpenFailed _ => 12 | PLoop => 11 | PDialStart => 10 | PDialReq => 9 | PDialWait _ => 8
  | PGot _ => 7 | PWaitReg => 6 | PWaiting _ => 5 | PWoken => 4 | PExpired _ => 4
  | POpen _ => 3 | POpening _ => 2 | PDone _ => 0
  end.

Definition measure (s : state) : nat := fold_right (fun t acc => rank (t_pc t) + acc) 0 (threads s).

Definition waits (t : thread) : bool :=
  match t_pc t with PWaiting _ | PDialWait _ => true | _ => false end.

Fixpoint expire_all (s : state) (tid n : nat) : state :=
  match n with
  | O => s
  | S k =>
      let s1 := match nth_error (threads s) tid with
                | Some t => if waits t then do_step s (ACtx tid) else s
                | None => s
                end in
      expire_all s1 (S tid) k
  end.

Definition stimulate (s : state) (o : op) : state :=
  match o with
  | OAdd lim proxy => do_step (do_step s (AAppend lim proxy)) (ANotify (length (conns s)))
  | OMark c => do_step s (AMark c)
  | OReap c => do_step s (AReap c)
  | OStart d a f n => do_step s (AStart d a f n)
  | OCtx tid => do_step s (ACtx tid)
  | OOpenRes tid ok => do_step s (AOpenRes tid ok)
  | OAddrs l => do_step s (AAddrs l)
  | ODialRes a ok lim =>
      do_step (do_step (do_step s (ADialRes a ok lim)) (ANotify (length (conns s)))) ADeliver
  | OExpire => expire_all s 0 (length (threads s))
  | OAddClosed lim proxy =>
      do_step (do_step (do_step s (AAppend lim proxy)) (AMark (length (conns s)))) (ANotify (length (conns s)))
  end.

Definition apply_op (s : state) (o : op) : state :=
  let s1 := stimulate s o in settle (S (measure s1)) s1.

(* ---- observations -------------------------------------------------------------- *)
Record obs := mkObs {
  o_nw : nat; o_key : bool; o_cn : nat;
  o_threads : list (nat * nat);
  o_dials : list (addr * bool) }.

Definition status (s : state) (t : thread) : nat * nat :=
  match t_pc t with
  | PWaiting w => if mem w (closedw s) || t_ctx t then (0, 5) else (1, 0)
  | POpening c => (2, c)
  | PDialWait _ => if t_ctx t then (0, 8) else (3, 0)
  | PDone (ROk c) => (4, c)
  | PDone (RErr e) => (5, e)
  | p => (0, rank p)
  end.

Fixpoint insert_dial (x : addr * bool) (l : list (addr * bool)) : list (addr * bool) :=
  match l with
  | [] => [x]
  | y :: r => if Nat.leb (fst x) (fst y) then x :: l else y :: insert_dial x r
  end.

Definition dials_of (s : state) : list (addr * bool) := fold_right insert_dial [] (inflight s).

Definition obs_of (s : state) : obs :=
  mkObs (length (waiters s)) (negb (Nat.eqb (length (waiters s)) 0)) (connectedness (conns s))
        (map (status s) (threads s)) (dials_of s).

Definition pair_eqb (a b : nat * nat) : bool := Nat.eqb (fst a) (fst b) && Nat.eqb (snd a) (snd b).
Definition dial_eqb (a b : addr * bool) : bool := Nat.eqb (fst a) (fst b) && Bool.eqb (snd a) (snd b).

(* first differing field: 0 none, 1 nw, 2 key, 3 connectedness, 4 calls, 5 dials *)
Definition obs_diff (a b : obs) : nat :=
  if negb (Nat.eqb (o_nw a) (o_nw b)) then 1
  else if negb (Bool.eqb (o_key a) (o_key b)) then 2
  else if negb (Nat.eqb (o_cn a) (o_cn b)) then 3
  else if negb (list_eqb pair_eqb (o_threads a) (o_threads b)) then 4
  else if negb (list_eqb dial_eqb (o_dials a) (o_dials b)) then 5
  else 0.

(* the trace the model produces for a list of operations *)
Fixpoint model_trace (s : state) (ops : list op) : list (op * obs) :=
  match ops with
  | [] => []
  | o :: r => let s' := apply_op s o in (o, obs_of s') :: model_trace s' r
  end.

(* ---- the property monitor (kind 0) ------------------------------------------------ *)
(* Bookkeeping derived from the operations and the observations only:
     m_conns    per conn id: Limited, Proxy, open (not reported closed, not Closed)
     m_calls    per call: dial, allow-limited, force-direct, no-dial
     m_prev     the calls' states in the previous observation
     m_dials    the parked dials of the previous observation *)
Record mon := mkMon {
  m_conns : list (bool * bool * bool);
  m_calls : list (bool * bool * bool * bool);
  m_prev : list (nat * nat);
  m_dials : list (addr * bool) }.

Definition mon_init : mon := mkMon [] [] [] [].

Definition close_conn (cs : list (bool * bool * bool)) (c : nat) : list (bool * bool * bool) :=
  match nth_error cs c with
  | Some (l, p, _) => set_nth cs c (l, p, false)
  | None => cs
  end.

(* does this operation bring a new connection?  (Limited, Proxy) *)
Definition op_new_conn (m : mon) (o : op) : option (bool * bool) :=
  match o with
  | OAdd lim proxy => Some (lim, proxy)
  | ODialRes a ok lim => if ok && mem a (map fst (m_dials m)) then Some (lim, is_relay a) else None
  | _ => None
  end.

Definition mon_conns (m : mon) (o : op) : list (bool * bool * bool) :=
  match op_new_conn m o with
  | Some (l, p) => m_conns m ++ [(l, p, true)]
  | None =>
      match o with
      | OMark c | OReap c => close_conn (m_conns m) c
      | OAddClosed l p => m_conns m ++ [(l, p, false)]
      | _ => m_conns m
      end
  end.

Definition mon_calls (m : mon) (o : op) : list (bool * bool * bool * bool) :=
  match o with
  | OStart d a f n => m_calls m ++ [(d, a, f, n)]
  | _ => m_calls m
  end.

(* clause 1/2: what a call returned *)
Definition result_ok (cs : list (bool * bool * bool)) (call : bool * bool * bool * bool) (st : nat * nat) : bool :=
  let '(dial, allow, force, _) := call in
  match st with
  | (4, c) =>
      match nth_error cs c with
      | None => false                                  (* a connection nobody created *)
      | Some (lim, proxy, _) =>
          if dial then negb (force && proxy)           (* force-direct dial never returns a relayed conn *)
          else negb lim || allow                       (* stream over a limited conn only if allowed *)
      end
  | _ => true
  end.

Fixpoint results_ok (cs : list (bool * bool * bool)) (calls : list (bool * bool * bool * bool))
         (sts : list (nat * nat)) : bool :=
  match calls, sts with
  | [], [] => true
  | c :: cr, s :: sr => result_ok cs c s && results_ok cs cr sr
  | _, _ => false
  end.

Definition is_waiting (st : nat * nat) : bool := Nat.eqb (fst st) 1.
Definition n_waiting (sts : list (nat * nat)) : nat := length (filter is_waiting sts).

(* clause "fails if none appears in time": a call that was waiting when its
   context ended has returned an error *)
Definition expired_ok (prev now : nat * nat) : bool :=
  negb (is_waiting prev) || Nat.eqb (fst now) 5.

Fixpoint all_expired_ok (prev now : list (nat * nat)) : bool :=
  match prev, now with
  | p :: pr, n :: nr => expired_ok p n && all_expired_ok pr nr
  | _, _ => true
  end.

Definition ctx_ok (o : op) (prev now : list (nat * nat)) : bool :=
  match o with
  | OCtx tid =>
      match nth_error prev tid, nth_error now tid with
      | Some p, Some n => expired_ok p n
      | _, _ => true
      end
  | OExpire => all_expired_ok prev now
  | _ => true
  end.

(* clause "reported as Limited rather than Connected" *)
Definition m_open (x : bool * bool * bool) : bool := snd x.
Definition m_lim (x : bool * bool * bool) : bool := fst (fst x).
Definition cn_ok (cs : list (bool * bool * bool)) (cn : nat) : bool :=
  let opens := filter m_open cs in
  let has_direct := existsb (fun x => negb (m_lim x)) opens in
  (* only limited connections -> Limited *)
  (match opens with [] => true | _ => has_direct || Nat.eqb cn 2 end)
  (* Connected -> some open non-limited connection *)
  && (negb (Nat.eqb cn 1) || has_direct).

(* clause "never dials a relay address" *)
Definition dials_ok (ds : list (addr * bool)) : bool :=
  forallb (fun x => negb (snd x && is_relay (fst x))) ds.

(* 0 = fine, otherwise the number of the violated clause *)
Definition mon_check (m : mon) (o : op) (x : obs) : nat :=
  let cs := mon_conns m o in
  let calls := mon_calls m o in
  if negb (Nat.eqb (length calls) (length (o_threads x))) then 9
  else if negb (results_ok cs calls (o_threads x)) then 1
  else if negb (Nat.eqb (o_nw x) (n_waiting (o_threads x))) then 2
  else if (match op_new_conn m o with Some (false, _) => negb (Nat.eqb (n_waiting (o_threads x)) 0) | _ => false end) then 3
  else if negb (ctx_ok o (m_prev m) (o_threads x)) then 4
  else if negb (cn_ok cs (o_cn x)) then 5
  else if negb (dials_ok (o_dials x)) then 6
  else 0.

Definition mon_next (m : mon) (o : op) (x : obs) : mon :=
  mkMon (mon_conns m o) (mon_calls m o) (o_threads x) (o_dials x).

Fixpoint monitor_run (m : mon) (i : nat) (tr : list (op * obs)) : list Z :=
  match tr with
  | [] => []
  | (o, x) :: r =>
      match mon_check m o x with
      | O => monitor_run (mon_next m o x) (S i) r
      | k => [ERR_PROPERTY; Z.of_nat i; Z.of_nat k]
      end
  end.

Definition holds (tr : list (op * obs)) : bool :=
  match monitor_run mon_init 0 tr with [] => true | _ => false end.

(* ---- conformance (kind 0) ---------------------------------------------------------- *)
Fixpoint conform_run (s : state) (i : nat) (tr : list (op * obs)) : list Z :=
  match tr with
  | [] => []
  | (o, x) :: r =>
      let s' := apply_op s o in
      match obs_diff (obs_of s') x with
      | O => conform_run s' (S i) r
      | k => [ERR_MISMATCH; Z.of_nat i; Z.of_nat k; Z.of_nat (o_nw (obs_of s')); Z.of_nat (o_nw x);
              Z.of_nat (o_cn (obs_of s')); Z.of_nat (o_cn x)]
      end
  end.

(* ---- wire decoding (kind 0) ---------------------------------------------------------- *)
Local Open Scope Z_scope.

Definition zn (z : Z) : nat := Z.to_nat z.
Definition nonneg (l : list Z) : bool := forallb (fun z => 0 <=? z) l.

Fixpoint pairs_of (l : list Z) : list (nat * nat) :=
  match l with
  | a :: b :: r => (zn a, zn b) :: pairs_of r
  | _ => []
  end.

(* k pairs from the front of l *)
Definition take_pairs (k : Z) (l : list Z) : option (list (nat * nat) * list Z) :=
  let n := (2 * zn k)%nat in
  if (0 <=? k) && Nat.leb n (length l) then Some (pairs_of (firstn n l), skipn n l) else None.

Definition decode_obs (l : list Z) : option (obs * list Z) :=
  match l with
  | nw :: key :: cn :: n :: r =>
      match take_pairs n r with
      | Some (ths, k :: r1) =>
          match take_pairs k r1 with
          | Some (ds, r2) =>
              Some (mkObs (zn nw) (zbool key) (zn cn) ths (map (fun p => (fst p, negb (Nat.eqb (snd p) 0))) ds), r2)
          | None => None
          end
      | _ => None
      end
  | _ => None
  end.

Definition decode_op (l : list Z) : option (op * list Z) :=
  match l with
  | 1 :: lim :: proxy :: r => Some (OAdd (zbool lim) (zbool proxy), r)
  | 2 :: c :: r => Some (OMark (zn c), r)
  | 3 :: c :: r => Some (OReap (zn c), r)
  | 4 :: d :: a :: f :: n :: r => Some (OStart (zbool d) (zbool a) (zbool f) (zbool n), r)
  | 5 :: t :: r => Some (OCtx (zn t), r)
  | 6 :: t :: ok :: r => Some (OOpenRes (zn t) (zbool ok), r)
  | 7 :: k :: r =>
      if (0 <=? k) && Nat.leb (zn k) (length r)
      then Some (OAddrs (map zn (firstn (zn k) r)), skipn (zn k) r) else None
  | 8 :: a :: ok :: lim :: r => Some (ODialRes (zn a) (zbool ok) (zbool lim), r)
  | 9 :: r => Some (OExpire, r)
  | 10 :: lim :: proxy :: r => Some (OAddClosed (zbool lim) (zbool proxy), r)
  | _ => None
  end.

Fixpoint decode_trace (fuel : nat) (l : list Z) : option (list (op * obs)) :=
  match fuel with
  | O => None
  | S f =>
      match l with
      | [] => Some []
      | _ =>
          match decode_op l with
          | Some (o, r) =>
              match decode_obs r with
              | Some (x, r1) =>
                  match decode_trace f r1 with
                  | Some t => Some ((o, x) :: t)
                  | None => None
                  end
              | None => None
              end
          | None => None
          end
      end
  end.

Definition conform_case (l : list Z) : list Z :=
  if negb (nonneg l) then [ERR_MALFORMED; 0] else
  match l with
  | 0 :: da :: r =>
      match decode_trace (S (length r)) r with
      | Some tr => conform_run (init_state (zn da)) 0 tr
      | None => [ERR_MALFORMED; 1]
      end
  | _ => [ERR_MALFORMED; 3]
  end.

Definition monitor_case (l : list Z) : list Z :=
  if negb (nonneg l) then [ERR_MALFORMED; 0] else
  match l with
  | 0 :: da :: r =>
      match decode_trace (S (length r)) r with
      | Some tr => monitor_run mon_init 0 tr
      | None => [ERR_MALFORMED; 1]
      end
  | _ => [ERR_MALFORMED; 3]
  end.

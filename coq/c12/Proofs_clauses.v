(* C12 — the quiescence clauses (2, 3, 4, 7, 8) of the swarm monitor, as facts
   about the model at the states where the monitor looks (after every call has
   run until it blocks). *)
From Coq Require Import List Arith ZArith Bool Lia.
From Verif Require Import lib.Wire c12.Model c12.SpecSwarm c12.Proofs_conn c12.Proofs_inv c12.Proofs_wait
  c12.Proofs_wake c12.Proofs_trace c12.Proofs_quiesce c12.Proofs_stim.
Import ListNotations.

(* ---- what "waiting" means in the model -------------------------------------------------- *)
Definition blocked_waiter (s : state) (t : thread) (w : nat) : Prop :=
  t_pc t = PWaiting w /\ mem w (closedw s) = false /\ t_ctx t = false.

Lemma is_waiting_iff : forall s t, is_waiting (call_of s t) = true <-> exists w, blocked_waiter s t w.
Proof.
  intros s t. unfold is_waiting, call_of, blocked_waiter. cbn [co_st]. unfold status. split.
  - intros H. destruct (t_pc t) as [| | |rid|c| |w| |w|c|c|c|[c|e]]; cbn in H; try discriminate.
    + destruct (t_ctx t); discriminate.
    + exists w. destruct (mem w (closedw s)); [discriminate|]. destruct (t_ctx t); [discriminate|]. auto.
    + destruct (t_dial t && t_onconn t); discriminate.
  - intros [w [-> [-> ->]]]. reflexivity.
Qed.

Lemma blocked_waiter_no_step : forall s tid t w,
  nth_error (threads s) tid = Some t -> blocked_waiter s t w -> thread_step s tid = None.
Proof. intros s tid t w Ht [Hpc [Hm Hc]]. unfold thread_step. rewrite Ht, Hpc, Hm, Hc. reflexivity. Qed.

(* at a quiescent state a thread in PWaiting is a blocked waiter, and nobody is in PExpired *)
Lemma quiescent_waiting : forall s tid t w, quiescent s ->
  nth_error (threads s) tid = Some t -> t_pc t = PWaiting w -> blocked_waiter s t w.
Proof.
  intros s tid t w Q Ht Hpc. specialize (Q tid). unfold thread_step in Q. rewrite Ht, Hpc in Q.
  unfold blocked_waiter. destruct (mem w (closedw s)); [discriminate|]. destruct (t_ctx t); [discriminate|].
  split; [exact Hpc|split; reflexivity].
Qed.

Lemma quiescent_not_expired : forall s tid t w, quiescent s ->
  nth_error (threads s) tid = Some t -> t_pc t <> PExpired w.
Proof.
  intros s tid t w Q Ht Hpc. specialize (Q tid). unfold thread_step in Q. rewrite Ht, Hpc in Q.
  destruct (mem w (waiters s)); discriminate.
Qed.

(* ---- clause 2: the waiter list has one entry per blocked waiter ------------------------- *)
Definition wkey (s : state) (t : thread) : option nat :=
  match t_pc t with
  | PWaiting w => if mem w (closedw s) || t_ctx t then None else Some w
  | _ => None
  end.

Lemma wkey_some : forall s t w, wkey s t = Some w <-> blocked_waiter s t w.
Proof.
  intros s t w. unfold wkey, blocked_waiter. split.
  - destruct (t_pc t); try discriminate. destruct (mem w0 (closedw s)) eqn:M; [discriminate|].
    destruct (t_ctx t); [discriminate|]. cbn. intros E. injection E as <-. auto.
  - intros [-> [-> ->]]. reflexivity.
Qed.

Definition wkeys (s : state) (l : list thread) : list nat :=
  flat_map (fun t => match wkey s t with Some w => [w] | None => [] end) l.

Lemma wkeys_length : forall s l, length (wkeys s l) = n_waiting (map (call_of s) l).
Proof.
  intros s l. unfold n_waiting. induction l as [|t r IH]; [reflexivity|].
  cbn [wkeys flat_map map filter]. fold (wkeys s r). rewrite app_length, IH.
  destruct (is_waiting (call_of s t)) eqn:W.
  - apply is_waiting_iff in W. destruct W as [w Hw]. apply wkey_some in Hw. rewrite Hw. reflexivity.
  - destruct (wkey s t) as [w|] eqn:K; [|reflexivity]. apply wkey_some in K.
    assert (X : is_waiting (call_of s t) = true) by (apply is_waiting_iff; eauto). congruence.
Qed.

Lemma wkeys_In : forall s l w, In w (wkeys s l) <-> exists t, In t l /\ wkey s t = Some w.
Proof.
  intros s l w. unfold wkeys. rewrite in_flat_map. split.
  - intros [t [Ht Hin]]. exists t. split; [exact Ht|]. destruct (wkey s t); [destruct Hin as [->|[]]; reflexivity|destruct Hin].
  - intros [t [Ht K]]. exists t. split; [exact Ht|]. rewrite K. left. reflexivity.
Qed.

(* keys at distinct positions are distinct -> no duplicates *)
Lemma wkeys_NoDup : forall s l,
  (forall i j x y w, nth_error l i = Some x -> nth_error l j = Some y ->
     wkey s x = Some w -> wkey s y = Some w -> i = j) ->
  NoDup (wkeys s l).
Proof.
  intros s l. induction l as [|t r IH]; intros H; [constructor|].
  cbn [wkeys flat_map]. fold (wkeys s r).
  assert (Hr : NoDup (wkeys s r)).
  { apply IH. intros i j x y w Hx Hy Kx Ky. assert (S i = S j) by (eapply H; eauto). lia. }
  destruct (wkey s t) as [w|] eqn:K; [|exact Hr]. cbn [app]. constructor; [|exact Hr].
  intros Hin. apply wkeys_In in Hin. destruct Hin as [y [Hy Ky]].
  apply In_nth_error in Hy. destruct Hy as [j Hj].
  assert (0 = S j) by (eapply (H 0 (S j) t y w); eauto). discriminate.
Qed.

Lemma clause2_at_quiescence : forall da s, reachable da s -> quiescent s ->
  length (waiters s) = n_waiting (map (call_of s) (threads s)).
Proof.
  intros da s R Q. rewrite <- wkeys_length.
  destruct (reachable_InvB da s R) as [H1 H2 H3 H4 H5]. unfold wl in *.
  assert (NW : NoDup (waiters s)) by (eapply NoDup_app_l; eauto).
  assert (NK : NoDup (wkeys s (threads s))).
  { apply wkeys_NoDup. intros i j x y w Hx Hy Kx Ky. apply wkey_some in Kx. apply wkey_some in Ky.
    destruct Kx as [Px _]. destruct Ky as [Py _].
    apply (H5 i j x y w Hx Hy); left; assumption. }
  apply Nat.le_antisymm.
  - apply NoDup_incl_length; [exact NW|]. intros w Hw.
    destruct (H3 w Hw) as [tid [t [Ht [O|O]]]].
    + apply wkeys_In. exists t. split; [eapply nth_error_In; eauto|]. apply wkey_some. eapply quiescent_waiting; eauto.
    + exfalso. eapply quiescent_not_expired; eauto.
  - apply NoDup_incl_length; [exact NK|]. intros w Hw. apply wkeys_In in Hw. destruct Hw as [t [Hin K]].
    apply wkey_some in K. destruct K as [Hpc [Hm _]]. apply In_nth_error in Hin. destruct Hin as [tid Ht].
    destruct (H4 tid t w Ht (or_introl Hpc)) as [Hw|Hc]; [exact Hw|].
    apply mem_In in Hc. congruence.
Qed.

(* ---- a blocked waiter stays one through the runner ------------------------------------------ *)
Lemma waiter_stays_settle : forall fuel s i t w,
  nth_error (threads s) i = Some t -> blocked_waiter s t w ->
  nth_error (threads (settle fuel s)) i = Some t /\ closedw (settle fuel s) = closedw s.
Proof.
  intros fuel s i t w Ht Hb.
  apply (settle_inv (fun x => nth_error (threads x) i = Some t /\ closedw x = closedw s)); [|auto].
  intros x tid x' [Hx Hc] Hs. destruct (step_thread_frame _ _ _ Hs) as [t0 [t' F]].
  destruct (step_thread_inv _ _ _ Hs) as [x1 [H1 _]].
  assert (Ne : tid <> i).
  { intros ->. assert (B : blocked_waiter x t w).
    { destruct Hb as [A [B C]]. split; [exact A|]. split; [rewrite Hc; exact B|exact C]. }
    rewrite (blocked_waiter_no_step x i t w Hx B) in H1. discriminate. }
  split.
  - rewrite (F_new _ _ _ _ _ F). rewrite nth_error_set_nth_neq by exact Ne. exact Hx.
  - rewrite (F_closedw _ _ _ _ _ F). exact Hc.
Qed.

(* ---- direct_added on observations = a non-limited conn was appended --------------------------- *)
Lemma direct_added_iff : forall s s', direct_added (obs_of s) (obs_of s') = true <-> da_conns (conns s) (conns s').
Proof.
  intros s s'. unfold direct_added, da_conns. cbn [obs_of o_conns]. rewrite !map_length, nth_error_map. split.
  - intros H. apply andb_true_iff in H. destruct H as [H1 H2]. apply Nat.eqb_eq in H1. split; [exact H1|].
    destruct (nth_error (conns s') (length (conns s))) as [k|]; [|discriminate]. exists k. split; [reflexivity|].
    cbn in H2. apply negb_true_iff in H2. exact H2.
  - intros [H1 [k [H2 H3]]]. rewrite H1, Nat.eqb_refl, H2. cbn. rewrite H3. reflexivity.
Qed.

(* ---- clause 8 ------------------------------------------------------------------------------------ *)
Lemma all2_except_intro : forall skip prev now base,
  length prev <= length now ->
  (forall k p n, nth_error prev k = Some p -> nth_error now k = Some n -> base + k <> skip ->
                 still_waiting p n = true) ->
  all2_except skip base prev now = true.
Proof.
  intros skip. induction prev as [|p pr IH]; intros now base L H; [destruct now; reflexivity|].
  destruct now as [|n nr]; [cbn in L; lia|]. cbn [all2_except]. apply andb_true_iff. split.
  - destruct (Nat.eqb base skip) eqn:E; [reflexivity|]. apply Nat.eqb_neq in E. cbn.
    apply (H 0 p n eq_refl eq_refl). lia.
  - apply IH; [cbn in L; lia|]. intros k p0 n0 Hp Hn Hk. apply (H (S k) p0 n0 Hp Hn). lia.
Qed.

Lemma waiter_survives_op : forall s o i t w,
  pending s = [] -> nth_error (threads s) i = Some t -> blocked_waiter s t w ->
  o <> OExpire -> (forall j, o = OCtx j -> j <> i) ->
  ~ da_conns (conns s) (conns (apply_op s o)) ->
  nth_error (threads (apply_op s o)) i = Some t /\ blocked_waiter (apply_op s o) t w.
Proof.
  intros s o i t w P Ht Hb NE NC ND. unfold apply_op in *. rewrite settle_conns in ND.
  destruct Hb as [Hpc [Hm Hx]].
  destruct (stimulate_keeps_waiter s o i t w P Ht Hpc NE NC ND) as [T1 C1].
  assert (B1 : blocked_waiter (stimulate s o) t w) by (split; [exact Hpc|split; [rewrite C1; exact Hm|exact Hx]]).
  destruct (waiter_stays_settle (S (measure (stimulate s o))) _ i t w T1 B1) as [T2 C2].
  split; [exact T2|]. split; [exact Hpc|]. split; [rewrite C2, C1; exact Hm|exact Hx].
Qed.

Lemma clause8_holds : forall s o, pending s = [] ->
  keeps_waiting_ok (obs_of s) o (obs_of (apply_op s o)) = true.
Proof.
  intros s o P. unfold keeps_waiting_ok.
  destruct (direct_added (obs_of s) (obs_of (apply_op s o))) eqn:D; [reflexivity|].
  assert (ND : ~ da_conns (conns s) (conns (apply_op s o))).
  { intros X. apply direct_added_iff in X. congruence. }
  assert (Gen : forall skip, o <> OExpire -> (forall j, o = OCtx j -> j = skip) ->
            all2_except skip 0 (o_calls (obs_of s)) (o_calls (obs_of (apply_op s o))) = true).
  { intros skip NE NC. cbn [obs_of o_calls]. apply all2_except_intro.
    - rewrite !map_length. apply apply_op_nthreads.
    - intros k p n Hp Hn Hk. rewrite nth_error_map in Hp, Hn.
      destruct (nth_error (threads s) k) as [t|] eqn:Ht; [|discriminate]. injection Hp as <-.
      unfold still_waiting. destruct (is_waiting (call_of s t)) eqn:W; [|reflexivity]. cbn [negb orb].
      apply is_waiting_iff in W. destruct W as [w Hb].
      destruct (waiter_survives_op s o k t w P Ht Hb NE) as [T2 B2]; [|exact ND|].
      + intros j Ej. rewrite (NC j Ej). cbn in Hk. congruence.
      + rewrite T2 in Hn. injection Hn as <-. apply is_waiting_iff. eauto. }
  destruct o; try (apply Gen; [discriminate|intros j Ej; discriminate]).
  - apply Gen; [discriminate|]. intros j Ej. injection Ej as ->. reflexivity.
  - reflexivity.
Qed.

(* ---- clause 3 ------------------------------------------------------------------------------------ *)
Lemma clause3_holds : forall da s s', reachable da s' -> quiescent s' -> pending s' = [] ->
  direct_added_usable (obs_of s) (obs_of s') && negb (Nat.eqb (n_waiting (o_calls (obs_of s'))) 0) = false.
Proof.
  intros da s s' R Q P. destruct (direct_added_usable (obs_of s) (obs_of s')) eqn:D; [|reflexivity]. cbn [andb].
  unfold direct_added_usable in D. apply andb_true_iff in D. destruct D as [D1 D2].
  unfold direct_added in D1. apply andb_true_iff in D1. destruct D1 as [_ D1].
  cbn [obs_of o_conns o_calls] in *. rewrite map_length, nth_error_map in *.
  destruct (nth_error (conns s') (length (conns s))) as [k|] eqn:E; [|discriminate]. cbn in D1, D2.
  apply negb_true_iff in D1.
  assert (W : waiters s' = []).
  { apply (no_lost_wakeup_l da s' (length (conns s)) R); [eapply nth_error_lt; eauto| | |exact P];
      rewrite (get_conn_nth _ _ _ E); assumption. }
  rewrite <- (clause2_at_quiescence da s' R Q), W. reflexivity.
Qed.

(* ---- clause 4: a waiter whose context ended fails ------------------------------------------------ *)
Lemma do_step_ctx : forall s tid t, nth_error (threads s) tid = Some t ->
  threads (do_step s (ACtx tid)) = set_nth (threads s) tid (with_ctx t) /\
  closedw (do_step s (ACtx tid)) = closedw s.
Proof.
  intros s tid t Ht.
  assert (E : step_raw s (ACtx tid) = Some (set_thread s tid (with_ctx t))) by (cbn [step_raw]; rewrite Ht; reflexivity).
  rewrite (do_step_some _ _ _ E).
  match goal with |- context [cleanup ?x] => destruct (cleanup_same x) as [A [_ [C _]]] end.
  rewrite A, C. ssimpl. auto.
Qed.

Definition ctx_fate (w : nat) (t : thread) : Prop :=
  t_ctx t = true /\ (t_pc t = PWaiting w \/ t_pc t = PExpired w \/ t_pc t = PDone (RErr E_CTX)).

Lemma ctx_fate_step : forall x i tx w x1,
  nth_error (threads x) i = Some tx -> ctx_fate w tx -> mem w (closedw x) = false ->
  thread_step x i = Some x1 ->
  exists t', nth_error (threads x1) i = Some t' /\ ctx_fate w t'.
Proof.
  intros x i tx w x1 Hx [Hc Hpc] Hm H. unfold thread_step in H. rewrite Hx in H.
  assert (L : i < length (threads x)) by (eapply nth_error_lt; eauto).
  destruct Hpc as [E|[E|E]]; rewrite E in H.
  - rewrite Hm, Hc in H. injection H as <-. ssimpl. eexists. split; [apply nth_error_set_nth_eq; exact L|].
    split; cbn; auto.
  - destruct (mem w (waiters x)); injection H as <-; ssimpl; (eexists; split; [apply nth_error_set_nth_eq; exact L|]);
      split; cbn; auto.
  - discriminate.
Qed.

Lemma expired_fails_settle : forall fuel s i t w,
  nth_error (threads s) i = Some t -> ctx_fate w t -> mem w (closedw s) = false ->
  quiescent (settle fuel s) ->
  exists t', nth_error (threads (settle fuel s)) i = Some t' /\ t_pc t' = PDone (RErr E_CTX).
Proof.
  intros fuel s i t w Ht Hf Hm Q.
  assert (P : closedw (settle fuel s) = closedw s /\
              exists tx, nth_error (threads (settle fuel s)) i = Some tx /\ ctx_fate w tx).
  { apply (settle_inv (fun x => closedw x = closedw s /\ exists tx, nth_error (threads x) i = Some tx /\ ctx_fate w tx));
      [|eauto].
    intros x tid x' [Hc [tx [Hx Hfx]]] Hs. destruct (step_thread_frame _ _ _ Hs) as [t0 [t' F]].
    destruct (step_thread_inv _ _ _ Hs) as [x1 [H1 ->]]. destruct (cleanup_same x1) as [A [_ [C _]]].
    split; [rewrite C; destruct (thread_step_frame _ _ _ H1) as [ta [tb F1]]; rewrite (F_closedw _ _ _ _ _ F1); exact Hc|].
    rewrite A. destruct (Nat.eq_dec tid i) as [->|Ne].
    - eapply ctx_fate_step; eauto. rewrite Hc. exact Hm.
    - exists tx. split; [|exact Hfx]. destruct (thread_step_frame _ _ _ H1) as [ta [tb F1]].
      rewrite (F_new _ _ _ _ _ F1). rewrite nth_error_set_nth_neq by exact Ne. exact Hx. }
  destruct P as [Hc [tx [Hx [Hctx Hpc]]]]. exists tx. split; [exact Hx|].
  destruct Hpc as [E|[E|E]]; [| |exact E]; exfalso.
  - destruct (quiescent_waiting _ _ _ _ Q Hx E) as [_ [_ X]]. congruence.
  - eapply quiescent_not_expired; eauto.
Qed.

Lemma expire_all_effect : forall n s tid0 i t w,
  nth_error (threads s) i = Some t -> t_pc t = PWaiting w ->
  exists t', nth_error (threads (expire_all s tid0 n)) i = Some t' /\ t_pc t' = PWaiting w /\
             closedw (expire_all s tid0 n) = closedw s /\
             (t_ctx t = true \/ tid0 <= i < tid0 + n -> t_ctx t' = true).
Proof.
  induction n as [|k IH]; intros s tid0 i t w Ht Hpc; cbn [expire_all].
  - exists t. repeat split; auto. intros [H|H]; [exact H|lia].
  - destruct (Nat.eq_dec tid0 i) as [->|Ne].
    + rewrite Ht. unfold waits. rewrite Hpc. destruct (do_step_ctx s i t Ht) as [A C].
      assert (L : i < length (threads s)) by (eapply nth_error_lt; eauto).
      assert (T1 : nth_error (threads (do_step s (ACtx i))) i = Some (with_ctx t))
        by (rewrite A; apply nth_error_set_nth_eq; exact L).
      destruct (IH (do_step s (ACtx i)) (S i) i (with_ctx t) w T1 Hpc) as [t' [T2 [P2 [C2 X2]]]].
      exists t'. split; [exact T2|]. split; [exact P2|]. split; [congruence|]. intros _. apply X2. left. reflexivity.
    + set (s1 := match nth_error (threads s) tid0 with
                 | Some t0 => if waits t0 then do_step s (ACtx tid0) else s
                 | None => s end).
      assert (K : nth_error (threads s1) i = Some t /\ closedw s1 = closedw s).
      { unfold s1. destruct (nth_error (threads s) tid0) as [t0|]; [|auto]. destruct (waits t0); [|auto].
        eapply do_step_keeps; eauto. }
      destruct K as [T1 C1]. destruct (IH s1 (S tid0) i t w T1 Hpc) as [t' [T2 [P2 [C2 X2]]]].
      exists t'. split; [exact T2|]. split; [exact P2|]. split; [congruence|].
      intros [H|H]; apply X2; [left; exact H|right; lia].
Qed.

Lemma all2_intro : forall f prev now,
  (forall k p n, nth_error prev k = Some p -> nth_error now k = Some n -> f p n = true) ->
  all2 f prev now = true.
Proof.
  intros f. induction prev as [|p pr IH]; intros now H; [reflexivity|]. destruct now as [|n nr]; [reflexivity|].
  cbn [all2]. rewrite (H 0 p n eq_refl eq_refl). apply IH. intros k p0 n0 Hp Hn. apply (H (S k) p0 n0 Hp Hn).
Qed.

Lemma clause4_holds : forall s o, ctx_ok o (o_calls (obs_of s)) (o_calls (obs_of (apply_op s o))) = true.
Proof.
  intros s o.
  assert (Core : forall i t w t1, nth_error (threads s) i = Some t -> blocked_waiter s t w ->
            nth_error (threads (stimulate s o)) i = Some t1 -> ctx_fate w t1 ->
            closedw (stimulate s o) = closedw s ->
            forall n, nth_error (map (call_of (apply_op s o)) (threads (apply_op s o))) i = Some n -> co_st n = 5).
  { intros i t w t1 Ht [Hpc [Hm Hx]] T1 F1 C1 n Hn. unfold apply_op in *.
    destruct (expired_fails_settle (S (measure (stimulate s o))) (stimulate s o) i t1 w T1 F1) as [t2 [T2 P2]].
    - rewrite C1. exact Hm.
    - apply settle_quiescent. lia.
    - rewrite nth_error_map, T2 in Hn. injection Hn as <-. cbn [call_of co_st]. unfold status. rewrite P2. reflexivity. }
  destruct o; try reflexivity; cbn [ctx_ok obs_of o_calls].
  - (* OCtx *)
    rewrite nth_error_map. destruct (nth_error (threads s) tid) as [t|] eqn:Ht; [|reflexivity]. cbn [option_map].
    destruct (nth_error (map (call_of (apply_op s (OCtx tid))) (threads (apply_op s (OCtx tid)))) tid) as [n|] eqn:Hn;
      [|reflexivity].
    unfold expired_ok. destruct (is_waiting (call_of s t)) eqn:W; [|reflexivity]. cbn [negb orb].
    apply is_waiting_iff in W. destruct W as [w Hb]. apply Nat.eqb_eq.
    destruct (do_step_ctx s tid t Ht) as [A C].
    eapply (Core tid t w (with_ctx t) Ht Hb); [| | |exact Hn].
    + cbn [stimulate]. rewrite A. apply nth_error_set_nth_eq. eapply nth_error_lt; eauto.
    + destruct Hb as [Hpc _]. split; cbn; auto.
    + exact C.
  - (* OExpire *)
    apply all2_intro. intros k p n Hp Hn. rewrite nth_error_map in Hp.
    destruct (nth_error (threads s) k) as [t|] eqn:Ht; [|discriminate]. injection Hp as <-.
    unfold expired_ok. destruct (is_waiting (call_of s t)) eqn:W; [|reflexivity]. cbn [negb orb].
    apply is_waiting_iff in W. destruct W as [w Hb]. apply Nat.eqb_eq. destruct Hb as [Hpc [Hm Hx]].
    destruct (expire_all_effect (length (threads s)) s 0 k t w Ht Hpc) as [t1 [T1 [P1 [C1 X1]]]].
    eapply (Core k t w t1 Ht (conj Hpc (conj Hm Hx))); [exact T1| |exact C1|exact Hn].
    split; [apply X1; right; apply nth_error_lt in Ht; lia|left; exact P1].
Qed.

(* ---- clause 7: with only limited connections a call without allow-limited waits ---------------- *)
Definition only_lim (cs : list conn) : Prop :=
  (exists c, c < length cs /\ usable (get_conn cs c) = true) /\
  (forall c, c < length cs -> usable (get_conn cs c) = true -> c_lim (get_conn cs c) = true).

Lemma only_limited_iff : forall cs, only_limited (map conn_of cs) = true -> only_lim cs.
Proof.
  intros cs H. unfold only_limited in H. apply andb_true_iff in H. destruct H as [H1 H2]. split.
  - apply existsb_exists in H1. destruct H1 as [k [Hk Hu]]. apply in_map_iff in Hk. destruct Hk as [c [<- Hc]].
    apply In_nth_error in Hc. destruct Hc as [i Hi]. exists i. split; [eapply nth_error_lt; eauto|].
    rewrite (get_conn_nth _ _ _ Hi). exact Hu.
  - intros c Hc Hu. rewrite forallb_forall in H2.
    assert (Hin : In (conn_of (get_conn cs c)) (map conn_of cs)) by (apply in_map; apply nth_In; exact Hc).
    specialize (H2 _ Hin). cbn in H2. rewrite Hu in H2. cbn in H2. exact H2.
Qed.

Lemma only_lim_best : forall cs, only_lim cs -> exists c, best_conn cs = Some c /\ c_lim (get_conn cs c) = true.
Proof.
  intros cs [[c0 [Hc0 Hu0]] Hall]. destruct (best_conn cs) as [c|] eqn:B.
  - exists c. split; [reflexivity|]. destruct (best_conn_some _ _ B) as [Hc Hu]. apply Hall; assumption.
  - rewrite (best_conn_none _ B c0 Hc0) in Hu0. discriminate.
Qed.

Definition mw_state (cs : list conn) (cw : list nat) (t : thread) : Prop :=
  t_ctx t = false /\ t_allow t = false /\
  (t_pc t = PLoop \/ (exists c, t_pc t = PGot c /\ c_lim (get_conn cs c) = true) \/ t_pc t = PWaitReg \/
   (exists w, t_pc t = PWaiting w /\ mem w cw = false)).

Lemma mw_step : forall x i tx x1, InvB x -> only_lim (conns x) ->
  nth_error (threads x) i = Some tx -> mw_state (conns x) (closedw x) tx ->
  thread_step x i = Some x1 ->
  exists t', nth_error (threads x1) i = Some t' /\ mw_state (conns x) (closedw x) t'.
Proof.
  intros x i tx x1 IB OL Hx [Hc [Ha Hpc]] H. unfold thread_step in H. rewrite Hx in H.
  assert (L : i < length (threads x)) by (eapply nth_error_lt; eauto).
  destruct (only_lim_best _ OL) as [b [Bb Lb]].
  destruct Hpc as [E|[[c [E Lc]]|[E|[w [E Hm]]]]]; rewrite E in H.
  - rewrite Bb in H. injection H as <-. ssimpl. eexists. split; [apply nth_error_set_nth_eq; exact L|].
    split; [exact Hc|]. split; [exact Ha|]. right. left. exists b. split; [reflexivity|exact Lb].
  - rewrite Ha, Lc in H. cbn in H. injection H as <-. ssimpl. eexists. split; [apply nth_error_set_nth_eq; exact L|].
    split; [exact Hc|]. split; [exact Ha|]. right. right. left. reflexivity.
  - rewrite Bb, Lb in H. injection H as <-. ssimpl. eexists. split; [apply nth_error_set_nth_eq; exact L|].
    split; [exact Hc|]. split; [exact Ha|]. right. right. right. exists (nextw x). split; [reflexivity|].
    destruct (mem (nextw x) (closedw x)) eqn:M; [|reflexivity]. exfalso. apply mem_In in M.
    assert (X : nextw x < nextw x); [|lia]. apply (B2 x IB). unfold wl. apply in_or_app. right. apply in_or_app. left. exact M.
  - rewrite Hm, Hc in H. discriminate.
Qed.

Lemma mw_progress : forall x i tx, only_lim (conns x) ->
  nth_error (threads x) i = Some tx -> mw_state (conns x) (closedw x) tx -> thread_step x i = None ->
  exists w, blocked_waiter x tx w.
Proof.
  intros x i tx OL Hx [Hc [Ha Hpc]] H. unfold thread_step in H. rewrite Hx in H.
  destruct (only_lim_best _ OL) as [b [Bb Lb]].
  destruct Hpc as [E|[[c [E Lc]]|[E|[w [E Hm]]]]]; rewrite E in H.
  - rewrite Bb in H. discriminate.
  - rewrite Ha, Lc in H. discriminate.
  - rewrite Bb, Lb in H. discriminate.
  - exists w. split; [exact E|]. split; assumption.
Qed.

Lemma do_step_start : forall s d a f n,
  threads (do_step s (AStart d a f n)) =
    threads s ++ [mkThread d a f n false false 0 (if d then PDialStart else PLoop)] /\
  conns (do_step s (AStart d a f n)) = conns s /\ closedw (do_step s (AStart d a f n)) = closedw s.
Proof.
  intros s d a f n. rewrite (do_step_some s (AStart d a f n) _ eq_refl).
  match goal with |- context [cleanup ?x] => destruct (cleanup_same x) as [A [B [C _]]] end.
  rewrite A, B, C. ssimpl. auto.
Qed.

Lemma clause7_holds : forall da s o, reachable da s ->
  must_wait_ok (obs_of s) o (obs_of (apply_op s o)) = true.
Proof.
  intros da s o R. unfold must_wait_ok. destruct o; try reflexivity.
  destruct dial; [reflexivity|]. destruct allow; [reflexivity|].
  destruct (only_limited (o_conns (obs_of s))) eqn:OLb; [|reflexivity].
  cbn [obs_of o_conns o_calls] in *. apply only_limited_iff in OLb. rewrite map_length, nth_error_map.
  set (i := length (threads s)). set (s1 := stimulate s (OStart false false force nodial)).
  destruct (do_step_start s false false force nodial) as [T1 [C1 W1]]. cbn [stimulate] in s1. fold s1 in T1, C1, W1.
  set (t0 := mkThread false false force nodial false false 0 PLoop) in *.
  assert (R1 : reachable da s1) by (apply reachable_do_step; exact R).
  set (P := fun x => InvB x /\ conns x = conns s /\ closedw x = closedw s1 /\
                     exists tx, nth_error (threads x) i = Some tx /\ mw_state (conns s) (closedw s1) tx).
  assert (P1 : P s1).
  { split; [eapply reachable_InvB; eauto|]. split; [exact C1|]. split; [reflexivity|]. exists t0. split.
    - rewrite T1. unfold i. rewrite nth_error_app2 by lia. rewrite Nat.sub_diag. reflexivity.
    - split; [reflexivity|]. split; [reflexivity|]. left. reflexivity. }
  assert (P2 : P (apply_op s (OStart false false force nodial))).
  { unfold apply_op. fold s1. apply settle_inv; [|exact P1].
    intros x tid x' [IB [Hc [Hw [tx [Hx Hm]]]]] Hs.
    destruct (step_thread_inv _ _ _ Hs) as [x1 [H1 ->]]. destruct (cleanup_same x1) as [A [B [C _]]].
    destruct (thread_step_frame _ _ _ H1) as [ta [tb F1]].
    split; [eapply step_InvB; eauto|]. rewrite A, B, C.
    split; [rewrite (F_conns _ _ _ _ _ F1); exact Hc|]. split; [rewrite (F_closedw _ _ _ _ _ F1); exact Hw|].
    destruct (Nat.eq_dec tid i) as [->|Ne].
    - rewrite <- Hc, <- Hw in Hm. destruct (mw_step x i tx x1 IB) as [t' [Ht' Hm']]; auto.
      + rewrite Hc. exact OLb.
      + exists t'. split; [exact Ht'|]. rewrite <- Hc, <- Hw. exact Hm'.
    - exists tx. split; [|exact Hm]. rewrite (F_new _ _ _ _ _ F1). rewrite nth_error_set_nth_neq by exact Ne. exact Hx. }
  destruct P2 as [_ [Hc [Hw [tx [Hx Hm]]]]]. rewrite Hx. cbn [option_map].
  apply is_waiting_iff. rewrite <- Hc, <- Hw in Hm.
  eapply mw_progress; eauto; [rewrite Hc; exact OLb|apply apply_op_quiescent].
Qed.

(* C12 — invariant A: every connection a call holds or returned, every tracked
   dial and every pending request respects the limited / proxy attributes.
   Preserved by every action of the transition system (all interleavings). *)
From Coq Require Import List Arith ZArith Bool Lia.
From Verif Require Import c12.Model c12.Proofs_conn.
Import ListNotations.

Ltac ssimpl :=
  cbn [dial_attempts conns waiters closedw removedw nextw pending threads paddrs tracked pend
       inflight busy nextr diallog set_conns set_wl set_pending set_threads set_paddrs set_wk
       set_thread set_conn] in *.

(* connection attributes never change; the list only grows *)
Definition ext (cs cs' : list conn) : Prop :=
  length cs <= length cs' /\
  forall c, c < length cs ->
    c_lim (get_conn cs' c) = c_lim (get_conn cs c) /\ c_proxy (get_conn cs' c) = c_proxy (get_conn cs c).

Lemma ext_refl : forall cs, ext cs cs.
Proof. intros cs. split; auto. Qed.

Lemma ext_app : forall cs x, ext cs (cs ++ [x]).
Proof.
  intros cs x. split; [rewrite app_length; lia|]. intros c Hc. rewrite get_conn_app_old by exact Hc. auto.
Qed.

Lemma ext_set : forall cs c x,
  c_lim x = c_lim (get_conn cs c) -> c_proxy x = c_proxy (get_conn cs c) -> ext cs (set_nth cs c x).
Proof.
  intros cs c x Hl Hp. split; [rewrite set_nth_length; lia|]. intros d Hd.
  destruct (Nat.eq_dec c d) as [E|E].
  - subst d. rewrite get_conn_set_eq by exact Hd. auto.
  - rewrite get_conn_set_neq by exact E. auto.
Qed.

Definition stream_pc (p : pc) : bool :=
  match p with
  | PLoop | PGot _ | PWaitReg | PWaiting _ | PWoken | PExpired _ | POpen _ | POpening _ | POpenFailed _ => true
  | _ => false
  end.

Definition thread_ok (cs : list conn) (t : thread) : Prop :=
  (stream_pc (t_pc t) = true -> t_dial t = false) /\
  match t_pc t with
  | POpening c | POpenFailed c => c < length cs /\ (c_lim (get_conn cs c) = true -> t_allow t = true)
  | PDone (ROk c) =>
      c < length cs /\
      (if t_dial t then (t_force t = true -> c_proxy (get_conn cs c) = false)
       else (c_lim (get_conn cs c) = true -> t_allow t = true))
  | PGot c => c < length cs
  | POpen c =>
      (* Swarm.NewStream reaches Conn.NewStream only with a conn it may use *)
      c < length cs /\ (t_onconn t = false -> c_lim (get_conn cs c) = true -> t_allow t = true)
  | _ => True
  end.

Lemma thread_ok_ext : forall cs cs' t, ext cs cs' -> thread_ok cs t -> thread_ok cs' t.
Proof.
  intros cs cs' t [Hlen Hat] [H1 H2]. split; [exact H1|].
  destruct (t_pc t) as [| | | |c| | | | |c|c|c|[c|e]]; auto; try lia.
  - destruct H2 as [Hc H]. split; [lia|]. destruct (Hat c Hc) as [-> _]. exact H.
  - destruct H2 as [Hc H]. split; [lia|]. destruct (Hat c Hc) as [-> _]. exact H.
  - destruct H2 as [Hc H]. split; [lia|]. destruct (Hat c Hc) as [-> _]. exact H.
  - destruct H2 as [Hc H]. split; [lia|]. destruct (Hat c Hc) as [-> ->]. exact H.
Qed.

Definition conn_for (cs : list conn) (a : addr) (c : nat) : Prop :=
  c < length cs /\ c_proxy (get_conn cs c) = is_relay a.

Lemma conn_for_ext : forall cs cs' a c, ext cs cs' -> conn_for cs a c -> conn_for cs' a c.
Proof. intros cs cs' a c [Hl Ha] [Hc Hp]. split; [lia|]. destruct (Ha c Hc) as [_ ->]. exact Hp. Qed.

Definition preq_ok (s : state) (p : preq) : Prop :=
  p_rid p < nextr s /\
  (p_force p = true -> forall a, In a (p_addrs p) -> is_relay a = false) /\
  (forall t, nth_error (threads s) (p_tid p) = Some t -> t_pc t = PDialWait (p_rid p) -> t_force t = p_force p).

Record InvA (s : state) : Prop := mkInvA {
  A1 : forall tid t, nth_error (threads s) tid = Some t -> thread_ok (conns s) t;
  A2 : forall a c, lookup a (tracked s) = Some (DConn c) -> conn_for (conns s) a c;
  A3 : forall p, In p (pend s) -> preq_ok s p;
  A4 : forall a c, busy s = Some (a, c) -> conn_for (conns s) a c;
  A5 : forall a, In (a, true) (inflight s) -> is_relay a = false;
  A6 : forall a, In (a, true) (diallog s) -> is_relay a = false;
  A7 : forall tid t rid, nth_error (threads s) tid = Some t -> t_pc t = PDialWait rid -> rid < nextr s }.

Lemma InvA_init : forall da, InvA (init_state da).
Proof.
  intros da. constructor; cbn; intros; try contradiction; try discriminate.
  - destruct tid; discriminate.
  - destruct tid; discriminate.
Qed.

(* InvA only looks at these components *)
Lemma InvA_same : forall s s',
  conns s' = conns s -> threads s' = threads s -> tracked s' = tracked s -> pend s' = pend s ->
  busy s' = busy s -> inflight s' = inflight s -> diallog s' = diallog s -> nextr s' = nextr s ->
  InvA s -> InvA s'.
Proof.
  intros s s' E1 E2 E3 E4 E5 E6 E7 E8 [H1 H2 H3 H4 H5 H6 H7].
  constructor; unfold preq_ok in *; rewrite ?E1, ?E2, ?E3, ?E4, ?E5, ?E6, ?E7, ?E8; auto.
Qed.

Lemma InvA_conns : forall s cs', InvA s -> ext (conns s) cs' -> InvA (set_conns s cs').
Proof.
  intros s cs' [H1 H2 H3 H4 H5 H6 H7] E. constructor; ssimpl; auto.
  - intros tid t Ht. eapply thread_ok_ext; eauto.
  - intros a c Hl. eapply conn_for_ext; eauto.
  - intros a c Hb. eapply conn_for_ext; eauto.
Qed.

(* replacing one thread *)
Lemma InvA_set_thread : forall s tid t t',
  InvA s -> nth_error (threads s) tid = Some t ->
  thread_ok (conns s) t' -> t_force t' = t_force t ->
  (forall rid, t_pc t' = PDialWait rid -> t_pc t = PDialWait rid) ->
  InvA (set_thread s tid t').
Proof.
  intros s tid t t' [H1 H2 H3 H4 H5 H6 H7] Ht Hok Hf Hpc. constructor; ssimpl; auto.
  - intros j x Hx. apply nth_error_set_nth in Hx. destruct Hx as [[_ [-> _]]|[_ Hx]]; eauto.
  - intros p Hp. destruct (H3 p Hp) as [P1 [P2 P3]]. split; [exact P1|]. split; [exact P2|].
    intros x Hx Hpcx. apply nth_error_set_nth in Hx. destruct Hx as [[E [-> _]]|[_ Hx]].
    + rewrite Hf. apply P3; [rewrite <- E; exact Ht|]. apply Hpc. exact Hpcx.
    + apply P3; assumption.
  - intros j x rid Hx Hpcx. apply nth_error_set_nth in Hx. destruct Hx as [[E [-> _]]|[_ Hx]].
    + eapply H7; [exact Ht|]. apply Hpc. exact Hpcx.
    + eapply H7; eauto.
Qed.

Lemma thread_ok_with_pc_plain : forall cs t p,
  (stream_pc p = true -> t_dial t = false) ->
  match p with
  | POpening _ | POpenFailed _ | PDone (ROk _) | PGot _ | POpen _ => False
  | _ => True
  end ->
  thread_ok cs (with_pc t p).
Proof.
  intros cs t p H1 H2. split; [exact H1|]. cbn [t_pc with_pc].
  destruct p as [| | | |c| | | | |c|c|c|[c|e]]; auto; contradiction.
Qed.

Lemma deliver_force : forall t r, t_force (deliver t r) = t_force t.
Proof. intros t [c|e]; cbn [deliver]; [destruct (t_dial t)|]; reflexivity. Qed.

Lemma deliver_not_wait : forall t r rid, t_pc (deliver t r) <> PDialWait rid.
Proof. intros t [c|e] rid; cbn [deliver]; [destruct (t_dial t)|]; cbn; discriminate. Qed.

Lemma deliver_ok : forall cs t r,
  match r with
  | ROk c => c < length cs /\ (t_dial t = true -> t_force t = true -> c_proxy (get_conn cs c) = false)
  | RErr _ => True
  end ->
  thread_ok cs (deliver t r).
Proof.
  intros cs t [c|e] H; cbn [deliver].
  - destruct H as [Hc Hp]. destruct (t_dial t) eqn:D; split; cbn [t_pc with_pc t_dial]; auto.
    + cbn. discriminate.
    + rewrite D. split; [exact Hc|]. auto.
  - split; cbn; [discriminate|exact I].
Qed.

(* ---- the worker taking a request ------------------------------------------------------- *)
Lemma lookup_app : forall a l1 l2,
  lookup a (l1 ++ l2) = match lookup a l1 with Some d => Some d | None => lookup a l2 end.
Proof.
  induction l1 as [|[b d] r IH]; intros l2; cbn [lookup app]; [reflexivity|].
  destruct (Nat.eqb a b); [reflexivity|apply IH].
Qed.

Lemma lookup_pending : forall a l c, lookup a (map (fun x => (x, DPending)) l) <> Some (DConn c).
Proof.
  induction l as [|b r IH]; intros c; cbn [lookup map]; [discriminate|].
  destruct (Nat.eqb a b); [discriminate|apply IH].
Qed.

Lemma scan_found : forall tr fa rem td c, scan tr fa rem td = SFound c ->
  exists a, In a fa /\ lookup a tr = Some (DConn c).
Proof.
  induction fa as [|a r IH]; intros rem td c H; cbn [scan] in H; [discriminate|].
  destruct (lookup a tr) as [[|c'|]|] eqn:L.
  - destruct (IH _ _ _ H) as [x [Hx Hl]]. exists x. split; [right|]; auto.
  - inversion H; subst c'. exists a. split; [left; reflexivity|exact L].
  - destruct (IH _ _ _ H) as [x [Hx Hl]]. exists x. split; [right|]; auto.
  - destruct (IH _ _ _ H) as [x [Hx Hl]]. exists x. split; [right|]; auto.
Qed.

Lemma scan_wait : forall tr fa rem td rem' td', scan tr fa rem td = SWait rem' td' ->
  (forall a, In a rem' -> In a rem \/ In a fa) /\ (forall a, In a td' -> In a td \/ In a fa).
Proof.
  induction fa as [|a r IH]; intros rem td rem' td' H; cbn [scan] in H.
  - inversion H; subst. split; auto.
  - destruct (lookup a tr) as [[|c'|]|] eqn:L; try discriminate.
    + destruct (IH _ _ _ _ H) as [R T]. split; intros x Hx.
      * destruct (R x Hx) as [Hi|Hi]; [apply in_app_or in Hi; destruct Hi as [Hi|[->|[]]]|]; cbn; auto.
      * destruct (T x Hx); cbn; auto.
    + destruct (IH _ _ _ _ H) as [R T]. split; intros x Hx.
      * destruct (R x Hx); cbn; auto.
      * destruct (T x Hx); cbn; auto.
    + destruct (IH _ _ _ _ H) as [R T]. split; intros x Hx.
      * destruct (R x Hx) as [Hi|Hi]; [apply in_app_or in Hi; destruct Hi as [Hi|[->|[]]]|]; cbn; auto.
      * destruct (T x Hx) as [Hi|Hi]; [apply in_app_or in Hi; destruct Hi as [Hi|[->|[]]]|]; cbn; auto.
Qed.

(* force-direct: no relay address survives addrsForDial *)
Lemma addrs_for_dial_force : forall l a, In a (addrs_for_dial true l) -> is_relay a = false.
Proof.
  intros l a H. unfold addrs_for_dial in H. apply filter_In in H. destruct H as [_ H].
  apply andb_true_iff in H. destruct H as [_ H]. cbn in H. apply negb_true_iff in H. exact H.
Qed.

Lemma addrs_for_dial_dialable : forall f l a, In a (addrs_for_dial f l) -> dialable a = true.
Proof.
  intros f l a H. unfold addrs_for_dial in H. apply filter_In in H. destruct H as [_ H].
  apply andb_true_iff in H. tauto.
Qed.

Lemma worker_request_InvA : forall s tid t,
  InvA s -> nth_error (threads s) tid = Some t -> t_pc t = PDialReq -> InvA (worker_request s tid t).
Proof.
  intros s tid t HI Ht Hpc. unfold worker_request.
  assert (Dl : forall r, (match r with
                          | ROk c => c < length (conns s) /\
                                     (t_dial t = true -> t_force t = true -> c_proxy (get_conn (conns s) c) = false)
                          | RErr _ => True end) -> InvA (set_thread s tid (deliver t r))).
  { intros r Hr. eapply InvA_set_thread; eauto.
    - apply deliver_ok. exact Hr.
    - apply deliver_force.
    - intros rid E. exfalso. eapply deliver_not_wait; eauto. }
  destruct (best_acceptable (t_force t) (conns s)) as [c|] eqn:B.
  { apply Dl. destruct (best_acceptable_some _ _ _ B) as [Hc [_ Hp]]. split; auto. }
  destruct (paddrs s) as [|a0 pr] eqn:PA; [apply Dl; exact I|]. rewrite <- PA.
  destruct (addrs_for_dial (t_force t) (paddrs s)) as [|f0 fr] eqn:FA; [apply Dl; exact I|]. rewrite <- FA.
  destruct (scan (tracked s) (addrs_for_dial (t_force t) (paddrs s)) [] []) as [c|rem td] eqn:SC.
  { apply Dl. destruct (scan_found _ _ _ _ _ SC) as [a [Ha Hl]].
    destruct (A2 s HI a c Hl) as [Hc Hp]. split; [exact Hc|]. intros _ Hf. rewrite Hp.
    rewrite Hf in Ha. eapply addrs_for_dial_force; eauto. }
  destruct rem as [|r0 rr]; [apply Dl; exact I|].
  destruct (scan_wait _ _ _ _ _ _ SC) as [SR ST].
  set (rem := r0 :: rr) in *.
  assert (Hrem : t_force t = true -> forall a, In a rem -> is_relay a = false).
  { intros Hf a Ha. destruct (SR a Ha) as [[]|Hin]. rewrite Hf in Hin. eapply addrs_for_dial_force; eauto. }
  assert (Htd : t_force t = true -> forall a, In a td -> is_relay a = false).
  { intros Hf a Ha. destruct (ST a Ha) as [[]|Hin]. rewrite Hf in Hin. eapply addrs_for_dial_force; eauto. }
  destruct HI as [H1 H2 H3 H4 H5 H6 H7].
  assert (Htid : tid < length (threads s)) by (eapply nth_error_lt; eauto).
  constructor; ssimpl.
  - intros j x Hx. apply nth_error_set_nth in Hx. destruct Hx as [[_ [-> _]]|[_ Hx]]; [|eauto].
    apply thread_ok_with_pc_plain; [cbn; discriminate|exact I].
  - intros a c Hl. rewrite lookup_app in Hl. destruct (lookup a (tracked s)) eqn:L.
    + inversion Hl; subst d. apply H2. exact L.
    + exfalso. eapply lookup_pending; eauto.
  - intros p Hp. apply in_app_or in Hp. unfold preq_ok in *. ssimpl. destruct Hp as [Hp|[<-|[]]].
    + destruct (H3 p Hp) as [P1 [P2 P3]]. split; [lia|]. split; [exact P2|].
      intros x Hx Hpcx. apply nth_error_set_nth in Hx. destruct Hx as [[E [-> _]]|[_ Hx]].
      * cbn in Hpcx. inversion Hpcx. lia.
      * apply P3; assumption.
    + split; cbn [p_rid p_force p_addrs p_tid]; [lia|]. split; [exact Hrem|].
      intros x Hx _. rewrite nth_error_set_nth_eq in Hx by exact Htid. inversion Hx. reflexivity.
  - exact H4.
  - intros a Ha. apply in_app_or in Ha. destruct Ha as [Ha|Ha]; [auto|].
    apply in_map_iff in Ha. destruct Ha as [x [E Hin]]. inversion E; subst. apply Htd; auto.
  - intros a Ha. apply in_app_or in Ha. destruct Ha as [Ha|Ha]; [auto|].
    apply in_map_iff in Ha. destruct Ha as [x [E Hin]]. inversion E; subst. apply Htd; auto.
  - intros j x rid Hx Hpcx. apply nth_error_set_nth in Hx. destruct Hx as [[_ [-> _]]|[_ Hx]].
    + cbn in Hpcx. inversion Hpcx. lia.
    + specialize (H7 j x rid Hx Hpcx). lia.
Qed.

(* ---- one step of a call ------------------------------------------------------------------ *)
Ltac set_pc_tac HI Ht :=
  eapply InvA_set_thread; [exact HI|exact Ht| |reflexivity|cbn; intros; discriminate].

Lemma thread_step_InvA : forall s tid s', InvA s -> thread_step s tid = Some s' -> InvA s'.
Proof.
  intros s tid s' HI H. unfold thread_step in H.
  destruct (nth_error (threads s) tid) as [t|] eqn:Ht; [|discriminate].
  pose proof (A1 s HI tid t Ht) as [K1 K2].
  assert (Plain : forall p, (stream_pc p = true -> t_dial t = false) ->
            match p with POpening _ | POpenFailed _ | PDone (ROk _) | PGot _ | POpen _ => False | _ => True end ->
            (forall rid, p <> PDialWait rid) ->
            InvA (set_thread s tid (with_pc t p))).
  { intros p P1 P2 P3. eapply InvA_set_thread; [exact HI|exact Ht| |reflexivity|].
    - apply thread_ok_with_pc_plain; assumption.
    - cbn. intros rid E. exfalso. eapply P3; eauto. }
  assert (Conn : forall p c, (p = PGot c \/ p = POpen c) -> c < length (conns s) -> t_dial t = false ->
            (p = POpen c -> t_onconn t = false -> c_lim (get_conn (conns s) c) = true -> t_allow t = true) ->
            InvA (set_thread s tid (with_pc t p))).
  { intros p c Hp Hc Hd HO. eapply InvA_set_thread; [exact HI|exact Ht| |reflexivity|].
    - split; cbn [t_pc with_pc t_dial]; [auto|]. destruct Hp as [-> | ->]; [exact Hc|].
      split; [exact Hc|]. cbn [t_onconn t_allow with_pc]. apply HO. reflexivity.
    - cbn. intros rid E. destruct Hp as [-> | ->]; discriminate. }
  destruct (t_pc t) as [| | |rid|c| |w| |w|c|c|c|r] eqn:Hpc; cbn [stream_pc] in K1.
  - (* PLoop *)
    destruct (best_conn (conns s)) as [c|] eqn:B.
    + injection H as <-. eapply Conn; [left; reflexivity| |auto|discriminate]. apply (best_conn_some _ _ B).
    + destruct (t_nodial t).
      * injection H as <-. apply Plain; [cbn; discriminate|exact I|discriminate].
      * destruct (Nat.ltb (dial_attempts s) (S (t_dials t))).
        -- injection H as <-. apply Plain; [cbn; discriminate|exact I|discriminate].
        -- injection H as <-. eapply InvA_set_thread; [exact HI|exact Ht| |reflexivity|cbn; intros; discriminate].
           split; cbn; [discriminate|exact I].
  - (* PDialStart *)
    destruct (best_acceptable (t_force t) (conns s)) as [c|] eqn:B.
    + injection H as <-. eapply InvA_set_thread; [exact HI|exact Ht| |exact (deliver_force t (ROk c))|].
      * apply (deliver_ok _ t (ROk c)). destruct (best_acceptable_some _ _ _ B) as [Hc [_ Hp]]. split; auto.
      * intros rid E. exfalso. exact (deliver_not_wait t (ROk c) rid E).
    + injection H as <-. apply Plain; [cbn; discriminate|exact I|discriminate].
  - (* PDialReq *)
    destruct (busy s); [discriminate|]. injection H as <-. apply worker_request_InvA; assumption.
  - (* PDialWait *)
    destruct (t_ctx t); [|discriminate]. injection H as <-. apply Plain; [cbn; discriminate|exact I|discriminate].
  - (* PGot *)
    destruct (negb (t_allow t) && c_lim (get_conn (conns s) c)) eqn:T; injection H as <-.
    + apply Plain; [auto|exact I|discriminate].
    + eapply Conn; [right; reflexivity|exact K2|auto|]. intros _ _ L. rewrite L, andb_true_r in T.
      apply negb_false_iff in T. exact T.
  - (* PWaitReg *)
    destruct (best_conn (conns s)) as [c|] eqn:B.
    + destruct (c_lim (get_conn (conns s) c)) eqn:L; injection H as <-.
      * eapply InvA_same; [..|apply (Plain (PWaiting (nextw s))); [auto|exact I|discriminate]]; reflexivity.
      * eapply Conn; [right; reflexivity| |auto|congruence]. apply (best_conn_some _ _ B).
    + injection H as <-. apply Plain; [cbn; discriminate|exact I|discriminate].
  - (* PWaiting *)
    destruct (mem w (closedw s)).
    + injection H as <-. apply Plain; [auto|exact I|discriminate].
    + destruct (t_ctx t); [|discriminate]. injection H as <-. apply Plain; [auto|exact I|discriminate].
  - (* PWoken *)
    destruct (best_conn (conns s)) as [c|] eqn:B.
    + destruct (c_lim (get_conn (conns s) c)) eqn:L; injection H as <-.
      * apply Plain; [cbn; discriminate|exact I|discriminate].
      * eapply Conn; [right; reflexivity| |auto|congruence]. apply (best_conn_some _ _ B).
    + injection H as <-. apply Plain; [cbn; discriminate|exact I|discriminate].
  - (* PExpired *)
    destruct (mem w (waiters s)); injection H as <-.
    + eapply InvA_same; [..|apply (Plain (PDone (RErr E_CTX))); [cbn; discriminate|exact I|discriminate]]; reflexivity.
    + apply Plain; [cbn; discriminate|exact I|discriminate].
  - (* POpen *)
    destruct (c_lim (get_conn (conns s) c) && negb (t_allow t)) eqn:T; injection H as <-.
    + apply Plain; [cbn; discriminate|exact I|discriminate].
    + eapply InvA_set_thread; [exact HI|exact Ht| |reflexivity|cbn; intros; discriminate].
      split; cbn [t_pc with_pc t_dial t_allow]; [auto|]. split; [exact (proj1 K2)|].
      intros L. rewrite L in T. cbn in T. apply negb_false_iff in T. exact T.
  - discriminate.
  - (* POpenFailed *)
    destruct (c_closed (get_conn (conns s) c)); injection H as <-.
    + apply Plain; [auto|exact I|discriminate].
    + apply Plain; [cbn; discriminate|exact I|discriminate].
  - discriminate.
Qed.

(* ---- the worker answering requests ---------------------------------------------------------- *)
Lemma respond_rel : forall ths rid tid r j x,
  nth_error (respond ths rid tid r) j = Some x ->
  nth_error ths j = Some x \/
  (j = tid /\ exists t, nth_error ths tid = Some t /\ t_pc t = PDialWait rid /\ x = deliver t r).
Proof.
  intros ths rid tid r j x H. unfold respond in H.
  destruct (nth_error ths tid) as [t|] eqn:Ht; [|auto].
  destruct (t_pc t) eqn:Hpc; auto.
  destruct (Nat.eqb rid rid0) eqn:E; [|auto]. apply Nat.eqb_eq in E. subst rid0.
  apply nth_error_set_nth in H. destruct H as [[E [-> _]]|[_ H]]; [|auto].
  right. split; [auto|]. exists t. auto.
Qed.

Lemma respond_length : forall ths rid tid r, length (respond ths rid tid r) = length ths.
Proof.
  intros. unfold respond. destruct (nth_error ths tid); [|reflexivity].
  destruct (t_pc t); try reflexivity. destruct (Nat.eqb rid rid0); [apply set_nth_length|reflexivity].
Qed.

(* how a thread list may have changed: thread j is untouched or was answered *)
Definition answered (ths ths' : list thread) (Q : nat -> thread -> result -> Prop) : Prop :=
  forall j x, nth_error ths' j = Some x ->
    exists t, nth_error ths j = Some t /\
      (x = t \/ exists r, Q j t r /\ x = deliver t r).

Lemma answered_refl : forall ths Q, answered ths ths Q.
Proof. intros ths Q j x H. exists x. auto. Qed.

Lemma answered_respond_then : forall ths ths' rid tid r (Q : nat -> thread -> result -> Prop),
  (forall t, nth_error ths tid = Some t -> t_pc t = PDialWait rid -> Q tid t r) ->
  answered (respond ths rid tid r) ths'
    (fun j t1 r1 => exists rid1, t_pc t1 = PDialWait rid1 /\
                    forall t0, nth_error ths j = Some t0 -> t_pc t0 = PDialWait rid1 -> Q j t0 r1) ->
  answered ths ths' Q.
Proof.
  intros ths ths' rid tid r Q HQ H j x Hx. destruct (H j x Hx) as [t1 [Ht1 Hc]].
  apply respond_rel in Ht1. destruct Ht1 as [Ht1|[-> [t [Ht [Hpc ->]]]]].
  - exists t1. split; [exact Ht1|]. destruct Hc as [->|[r1 [[rid1 [Hp1 Hq]] ->]]]; [auto|].
    right. exists r1. split; [|reflexivity]. apply Hq; assumption.
  - exists t. split; [exact Ht|]. destruct Hc as [->|[r1 [[rid1 [Hp1 _]] _]]].
    + right. exists r. split; [|reflexivity]. apply HQ; assumption.
    + exfalso. eapply deliver_not_wait; eauto.
Qed.

Lemma deliver_conn_rel : forall a c pe ths pe' ths',
  deliver_conn a c pe ths = (pe', ths') ->
  (forall p, In p pe' -> In p pe) /\
  answered ths ths' (fun j t r => r = ROk c /\ exists p, In p pe /\ p_tid p = j /\
                                  t_pc t = PDialWait (p_rid p) /\ mem a (p_addrs p) = true).
Proof.
  induction pe as [|p r IH]; intros ths pe' ths' H; cbn [deliver_conn] in H.
  - inversion H; subst. split; [auto|apply answered_refl].
  - destruct (mem a (p_addrs p)) eqn:M.
    + destruct (IH _ _ _ H) as [I1 I2]. split; [intros q Hq; right; auto|].
      eapply (answered_respond_then ths ths' (p_rid p) (p_tid p) (ROk c)).
      * intros t Ht Hpc. split; [reflexivity|]. exists p. cbn. auto.
      * intros j x Hx. destruct (I2 j x Hx) as [t1 [Ht1 Hc]]. exists t1. split; [exact Ht1|].
        destruct Hc as [->|[r1 [[-> [q [Hq [Hj [Hp Hm]]]]] ->]]]; [auto|]. right. exists (ROk c).
        split; [|reflexivity]. exists (p_rid q). split; [exact Hp|]. intros t0 Ht0 Hp0.
        split; [reflexivity|]. exists q. cbn. auto.
    + destruct (deliver_conn a c r ths) as [pe1 ths1] eqn:D. inversion H; subst.
      destruct (IH _ _ _ D) as [I1 I2]. split.
      * intros q [<-|Hq]; [left; reflexivity|right; auto].
      * intros j x Hx. destruct (I2 j x Hx) as [t1 [Ht1 Hc]]. exists t1. split; [exact Ht1|].
        destruct Hc as [->|[r1 [[-> [q [Hq Hr]]] ->]]]; [auto|]. right. exists (ROk c).
        split; [|reflexivity]. split; [reflexivity|]. exists q. cbn. tauto.
Qed.

Lemma remove_nat_In : forall a l x, In x (remove_nat a l) -> In x l.
Proof. intros a l x H. unfold remove_nat in H. apply filter_In in H. tauto. Qed.

Definition shrinks (p' p : preq) : Prop :=
  p_rid p' = p_rid p /\ p_tid p' = p_tid p /\ p_force p' = p_force p /\
  forall x, In x (p_addrs p') -> In x (p_addrs p).

Lemma dispatch_error_rel : forall a cs pe ths pe' ths',
  dispatch_error a cs pe ths = (pe', ths') ->
  (forall p', In p' pe' -> exists p, In p pe /\ shrinks p' p) /\
  answered ths ths' (fun j t r => exists p, In p pe /\ p_tid p = j /\ t_pc t = PDialWait (p_rid p) /\
                                  match r with
                                  | ROk c => best_acceptable (p_force p) cs = Some c
                                  | RErr _ => True
                                  end).
Proof.
  induction pe as [|p r IH]; intros ths pe' ths' H; cbn [dispatch_error] in H.
  - inversion H; subst. split; [intros p' []|apply answered_refl].
  - destruct (mem a (p_addrs p)) eqn:M.
    + destruct (remove_nat a (p_addrs p)) as [|r0 rr] eqn:R.
      * destruct (IH _ _ _ H) as [I1 I2]. split.
        { intros p' Hp'. destruct (I1 p' Hp') as [q [Hq Hs]]. exists q. split; [right|]; auto. }
        eapply (answered_respond_then ths ths' (p_rid p) (p_tid p)
                  (match best_acceptable (p_force p) cs with Some c => ROk c | None => RErr E_ALLFAILED end)).
        -- intros t Ht Hpc. exists p. split; [left; reflexivity|]. split; [reflexivity|]. split; [exact Hpc|].
           destruct (best_acceptable (p_force p) cs) eqn:B; [reflexivity|exact I].
        -- intros j x Hx. destruct (I2 j x Hx) as [t1 [Ht1 Hc]]. exists t1. split; [exact Ht1|].
           destruct Hc as [->|[r1 [[q [Hq [Hj [Hp Hm]]]] ->]]]; [auto|]. right. exists r1.
           split; [|reflexivity]. exists (p_rid q). split; [exact Hp|]. intros t0 Ht0 Hp0.
           exists q. split; [right; exact Hq|]. auto.
      * destruct (dispatch_error a cs r ths) as [pe1 ths1] eqn:D. inversion H; subst.
        destruct (IH _ _ _ D) as [I1 I2]. split.
        { intros p' [<-|Hp'].
          - exists p. split; [left; reflexivity|]. repeat split; cbn [p_rid p_tid p_force p_addrs]; auto.
            intros x Hx. rewrite <- R in Hx. eapply remove_nat_In; eauto.
          - destruct (I1 p' Hp') as [q [Hq Hs]]. exists q. split; [right|]; auto. }
        intros j x Hx. destruct (I2 j x Hx) as [t1 [Ht1 Hc]]. exists t1. split; [exact Ht1|].
        destruct Hc as [->|[r1 [[q [Hq Hr]] ->]]]; [auto|]. right. exists r1.
        split; [|reflexivity]. exists q. split; [right; exact Hq|exact Hr].
    + destruct (dispatch_error a cs r ths) as [pe1 ths1] eqn:D. inversion H; subst.
      destruct (IH _ _ _ D) as [I1 I2]. split.
      { intros p' [<-|Hp'].
        - exists p. split; [left; reflexivity|]. repeat split; auto.
        - destruct (I1 p' Hp') as [q [Hq Hs]]. exists q. split; [right|]; auto. }
      intros j x Hx. destruct (I2 j x Hx) as [t1 [Ht1 Hc]]. exists t1. split; [exact Ht1|].
      destruct Hc as [->|[r1 [[q [Hq Hr]] ->]]]; [auto|]. right. exists r1.
      split; [|reflexivity]. exists q. split; [right; exact Hq|exact Hr].
Qed.

Lemma mem_In : forall x l, mem x l = true <-> In x l.
Proof.
  intros x l. unfold mem. rewrite existsb_exists. split.
  - intros [y [Hy E]]. apply Nat.eqb_eq in E. subst y. exact Hy.
  - intros H. exists x. split; [exact H|apply Nat.eqb_refl].
Qed.

Lemma lookup_set_tracked : forall a d tr b,
  lookup b (set_tracked a d tr) = if Nat.eqb b a then Some d else lookup b tr.
Proof.
  induction tr as [|[x e] r IH]; intros b; cbn [set_tracked lookup].
  - destruct (Nat.eqb b a); reflexivity.
  - destruct (Nat.eqb a x) eqn:E; cbn [lookup].
    + apply Nat.eqb_eq in E. subst x. destruct (Nat.eqb b a); reflexivity.
    + rewrite IH. destruct (Nat.eqb b x) eqn:E2; [|reflexivity].
      apply Nat.eqb_eq in E2. subst x. destruct (Nat.eqb b a) eqn:E3; [|reflexivity].
      apply Nat.eqb_eq in E3. subst b. rewrite Nat.eqb_refl in E. discriminate.
Qed.

(* the worker answered some requests and updated its tables *)
Lemma InvA_worker_update : forall s ths' Q tr' pe' fl' b',
  InvA s ->
  answered (threads s) ths' Q ->
  (forall j t r, nth_error (threads s) j = Some t -> Q j t r ->
     match r with
     | ROk c => c < length (conns s) /\
                (t_dial t = true -> t_force t = true -> c_proxy (get_conn (conns s) c) = false)
     | RErr _ => True
     end) ->
  (forall a c, lookup a tr' = Some (DConn c) -> conn_for (conns s) a c) ->
  (forall p', In p' pe' -> exists p, In p (pend s) /\ shrinks p' p) ->
  (forall a c, b' = Some (a, c) -> conn_for (conns s) a c) ->
  (forall a, In (a, true) fl' -> In (a, true) (inflight s)) ->
  InvA (set_wk (set_threads s ths') tr' pe' fl' b' (nextr s) (diallog s)).
Proof.
  intros s ths' Q tr' pe' fl' b' HI An HQ Htr Hpe Hb Hfl.
  destruct HI as [H1 H2 H3 H4 H5 H6 H7]. constructor; ssimpl; auto.
  - intros j x Hx. destruct (An j x Hx) as [t [Ht [->|[r [Hq ->]]]]]; [eauto|].
    apply deliver_ok. apply (HQ j t r Ht Hq).
  - intros p' Hp'. destruct (Hpe p' Hp') as [p [Hp [S1 [S2 [S3 S4]]]]].
    destruct (H3 p Hp) as [P1 [P2 P3]]. unfold preq_ok. ssimpl. rewrite S1, S2, S3.
    split; [exact P1|]. split; [intros Hf x Hx; apply P2; auto|].
    intros x Hx Hpcx. destruct (An _ x Hx) as [t [Ht [->|[r [Hq ->]]]]].
    + apply P3; assumption.
    + exfalso. eapply deliver_not_wait; eauto.
  - intros j x rid Hx Hpcx. destruct (An j x Hx) as [t [Ht [->|[r [Hq ->]]]]].
    + eapply H7; eauto.
    + exfalso. eapply deliver_not_wait; eauto.
Qed.

Lemma thread_ok_with_ctx : forall cs t, thread_ok cs t -> thread_ok cs (with_ctx t).
Proof. intros cs t H. exact H. Qed.

Lemma filter_sub : forall A (f : A -> bool) l x, In x (filter f l) -> In x l.
Proof. intros A f l x H. apply filter_In in H. tauto. Qed.

Lemma shrinks_refl : forall p, shrinks p p.
Proof. intros p. repeat split; auto. Qed.

Lemma InvA_new_thread : forall s x,
  InvA s -> thread_ok (conns s) x -> (forall rid, t_pc x <> PDialWait rid) ->
  InvA (set_threads s (threads s ++ [x])).
Proof.
  intros s x [H1 H2 H3 H4 H5 H6 H7] Hok Hn. constructor; ssimpl; auto.
  - intros j y Hy. destruct (Nat.lt_ge_cases j (length (threads s))) as [L|L].
    + rewrite nth_error_app1 in Hy by exact L. eauto.
    + rewrite nth_error_app2 in Hy by exact L. destruct (j - length (threads s)); [|destruct n; discriminate].
      cbn in Hy. injection Hy as <-. exact Hok.
  - intros p Hp. destruct (H3 p Hp) as [P1 [P2 P3]]. split; [exact P1|]. split; [exact P2|].
    ssimpl. intros y Hy Hpcy. destruct (Nat.lt_ge_cases (p_tid p) (length (threads s))) as [L|L].
    + rewrite nth_error_app1 in Hy by exact L. auto.
    + rewrite nth_error_app2 in Hy by exact L. destruct (p_tid p - length (threads s)); [|destruct n; discriminate].
      cbn in Hy. injection Hy as <-. exfalso. eapply Hn; eauto.
  - intros j y rid Hy Hpcy. destruct (Nat.lt_ge_cases j (length (threads s))) as [L|L].
    + rewrite nth_error_app1 in Hy by exact L. eauto.
    + rewrite nth_error_app2 in Hy by exact L. destruct (j - length (threads s)); [|destruct n; discriminate].
      cbn in Hy. injection Hy as <-. exfalso. eapply Hn; eauto.
Qed.

Lemma step_raw_InvA : forall s a s', InvA s -> step_raw s a = Some s' -> InvA s'.
Proof.
  intros s a s' HI H. destruct a; cbn [step_raw] in H.
  - eapply thread_step_InvA; eauto.
  - (* AThreadAlt *)
    unfold thread_step_alt in H. destruct (nth_error (threads s) tid) as [t|] eqn:Ht; [|discriminate].
    destruct (t_pc t) eqn:Hpc; try discriminate. destruct (t_ctx t); [|discriminate]. injection H as <-.
    pose proof (A1 s HI tid t Ht) as [K1 _]. rewrite Hpc in K1.
    eapply InvA_set_thread; [exact HI|exact Ht| |reflexivity|cbn; intros; discriminate].
    apply thread_ok_with_pc_plain; [auto|exact I].
  - (* AAppend *)
    injection H as <-. destruct lim.
    + apply InvA_conns; [exact HI|apply ext_app].
    + eapply InvA_same; [..|apply (InvA_conns s (conns s ++ [new_conn false proxy]) HI (ext_app _ _))]; reflexivity.
  - (* ANotify *)
    destruct (mem c (pending s)); [|discriminate]. injection H as <-.
    eapply InvA_same; [..|exact HI]; reflexivity.
  - (* AMark *)
    destruct (Nat.ltb c (length (conns s))); [|discriminate]. injection H as <-.
    apply InvA_conns; [exact HI|]. apply ext_set; reflexivity.
  - (* AReap *)
    destruct (Nat.ltb c (length (conns s))); [|discriminate]. injection H as <-.
    apply InvA_conns; [exact HI|]. apply ext_set; reflexivity.
  - (* AStart *)
    injection H as <-. destruct HI as [H1 H2 H3 H4 H5 H6 H7]. constructor; ssimpl; auto.
    + intros j x Hx. destruct (Nat.lt_ge_cases j (length (threads s))) as [L|L].
      * rewrite nth_error_app1 in Hx by exact L. eauto.
      * rewrite nth_error_app2 in Hx by exact L. destruct (j - length (threads s)); [|destruct n; discriminate].
        cbn in Hx. injection Hx as <-. destruct dial; split; cbn; auto; discriminate.
    + intros p Hp. destruct (H3 p Hp) as [P1 [P2 P3]]. split; [exact P1|]. split; [exact P2|].
      ssimpl. intros x Hx Hpcx. destruct (Nat.lt_ge_cases (p_tid p) (length (threads s))) as [L|L].
      * rewrite nth_error_app1 in Hx by exact L. auto.
      * rewrite nth_error_app2 in Hx by exact L. destruct (p_tid p - length (threads s)); [|destruct n; discriminate].
        cbn in Hx. injection Hx as <-. destruct dial; discriminate.
    + intros j x rid Hx Hpcx. destruct (Nat.lt_ge_cases j (length (threads s))) as [L|L].
      * rewrite nth_error_app1 in Hx by exact L. eauto.
      * rewrite nth_error_app2 in Hx by exact L. destruct (j - length (threads s)); [|destruct n; discriminate].
        cbn in Hx. injection Hx as <-. destruct dial; discriminate.
  - (* AStartOn *)
    destruct (Nat.ltb c (length (conns s))) eqn:Lc; [|discriminate]. apply Nat.ltb_lt in Lc. injection H as <-.
    destruct HI as [H1 H2 H3 H4 H5 H6 H7]. constructor; ssimpl; auto.
    + intros j x Hx. destruct (Nat.lt_ge_cases j (length (threads s))) as [L|L].
      * rewrite nth_error_app1 in Hx by exact L. eauto.
      * rewrite nth_error_app2 in Hx by exact L. destruct (j - length (threads s)); [|destruct n; discriminate].
        cbn in Hx. injection Hx as <-. split; cbn; auto. split; [exact Lc|discriminate].
    + intros p Hp. destruct (H3 p Hp) as [P1 [P2 P3]]. split; [exact P1|]. split; [exact P2|].
      ssimpl. intros x Hx Hpcx. destruct (Nat.lt_ge_cases (p_tid p) (length (threads s))) as [L|L].
      * rewrite nth_error_app1 in Hx by exact L. auto.
      * rewrite nth_error_app2 in Hx by exact L. destruct (p_tid p - length (threads s)); [|destruct n; discriminate].
        cbn in Hx. injection Hx as <-. discriminate.
    + intros j x rid Hx Hpcx. destruct (Nat.lt_ge_cases j (length (threads s))) as [L|L].
      * rewrite nth_error_app1 in Hx by exact L. eauto.
      * rewrite nth_error_app2 in Hx by exact L. destruct (j - length (threads s)); [|destruct n; discriminate].
        cbn in Hx. injection Hx as <-. discriminate.
  - (* ACtx *)
    destruct (nth_error (threads s) tid) as [t|] eqn:Ht; [|discriminate]. injection H as <-.
    eapply InvA_set_thread; [exact HI|exact Ht| |reflexivity|cbn; auto].
    apply thread_ok_with_ctx. eapply A1; eauto.
  - (* AOpenRes *)
    destruct (nth_error (threads s) tid) as [t|] eqn:Ht; [|discriminate].
    destruct (t_pc t) eqn:Hpc; try discriminate.
    pose proof (A1 s HI tid t Ht) as [K1 K2]. rewrite Hpc in K1, K2. cbn in K1. destruct K2 as [Kc Kl].
    destruct (ok && c_listed (get_conn (conns s) c)).
    + injection H as <-. apply InvA_conns.
      * eapply InvA_set_thread; [exact HI|exact Ht| |reflexivity|cbn; intros; discriminate].
        split; cbn [t_pc with_pc t_dial t_allow]; [discriminate|]. rewrite (K1 eq_refl). split; assumption.
      * ssimpl. apply ext_set; reflexivity.
    + destruct (t_onconn t); injection H as <-.
      * eapply InvA_set_thread; [exact HI|exact Ht| |reflexivity|cbn; intros; discriminate].
        apply thread_ok_with_pc_plain; [cbn; discriminate|exact I].
      * eapply InvA_set_thread; [exact HI|exact Ht| |reflexivity|cbn; intros; discriminate].
        split; cbn [t_pc with_pc t_dial t_allow]; [auto|]. split; assumption.
  - (* AAddrs *)
    injection H as <-. eapply InvA_same; [..|exact HI]; reflexivity.
  - (* ADialRes *)
    destruct (busy s) eqn:Hb; [discriminate|].
    destruct (mem a (map fst (inflight s))); [|discriminate].
    destruct ok.
    + injection H as <-.
      set (cs' := conns s ++ [new_conn lim (is_relay a)]).
      assert (I1 : InvA (set_conns s cs')) by (apply InvA_conns; [exact HI|apply ext_app]).
      destruct I1 as [H1 H2 H3 H4 H5 H6 H7]. ssimpl.
      destruct lim; constructor; ssimpl; auto;
        try (intros a0 c0 E; injection E as <- <-; split;
             [unfold cs'; rewrite app_length; cbn; lia|unfold cs'; rewrite get_conn_app_new; reflexivity]);
        try (intros a0 Ha0; apply H5; eapply filter_sub; eauto).
    + destruct (dispatch_error a (conns s) (pend s) (threads s)) as [pe ths] eqn:D. injection H as <-.
      destruct (dispatch_error_rel _ _ _ _ _ _ D) as [R1 R2].
      eapply InvA_worker_update; [exact HI|exact R2| | |exact R1|discriminate|].
      * intros j t r Ht [p [Hp [Hj [Hpc Hr]]]]. destruct r as [c|e]; [|exact I].
        destruct (best_acceptable_some _ _ _ Hr) as [Hc [_ Hf]]. split; [exact Hc|].
        intros _ Hft. apply Hf. destruct (A3 s HI p Hp) as [_ [_ P3]]. rewrite <- (P3 t); [exact Hft|rewrite Hj; exact Ht|exact Hpc].
      * intros b c Hl. rewrite lookup_set_tracked in Hl. destruct (Nat.eqb b a); [discriminate|].
        eapply A2; eauto.
      * intros b Hin. eapply filter_sub; eauto.
  - (* ADeliver *)
    destruct (busy s) as [[a c]|] eqn:Hb; [|discriminate].
    destruct (mem c (pending s)); [discriminate|].
    destruct (deliver_conn a c (pend s) (threads s)) as [pe ths] eqn:D. injection H as <-.
    destruct (deliver_conn_rel _ _ _ _ _ _ D) as [R1 R2].
    pose proof (A4 s HI a c Hb) as [Kc Kp].
    eapply InvA_worker_update; [exact HI|exact R2| | | |discriminate|auto].
    + intros j t r Ht [-> [p [Hp [Hj [Hpc Hm]]]]]. split; [exact Kc|]. intros _ Hft.
      rewrite Kp. destruct (A3 s HI p Hp) as [_ [P2 P3]]. apply P2.
      * rewrite <- (P3 t); [exact Hft|rewrite Hj; exact Ht|exact Hpc].
      * apply mem_In. exact Hm.
    + intros b c0 Hl. rewrite lookup_set_tracked in Hl. destruct (Nat.eqb b a) eqn:E.
      * injection Hl as <-. apply Nat.eqb_eq in E. subst b. split; assumption.
      * eapply A2; eauto.
    + intros p' Hp'. exists p'. split; [auto|apply shrinks_refl].
  - (* AStartConn *)
    injection H as <-. apply InvA_new_thread; [exact HI| |].
    + split; [cbn; destruct (negb force && _); [destruct (best_conn (conns s))|]; discriminate|].
      cbn [t_pc t_dial t_force].
      destruct (negb force && (Nat.eqb (connectedness (conns s)) 1 || allow && Nat.eqb (connectedness (conns s)) 2)) eqn:Sh;
        [|exact I].
      destruct (best_conn (conns s)) as [c|] eqn:B; [|exact I].
      split; [apply (best_conn_some _ _ B)|]. intros ->. discriminate.
    + intros rid. cbn [t_pc].
      destruct (negb force && _); [destruct (best_conn (conns s))|]; discriminate.
Qed.

Lemma cleanup_InvA : forall s, InvA s -> InvA (cleanup s).
Proof.
  intros s HI. unfold cleanup. destruct (busy s) eqn:Hb; [exact HI|].
  destruct (existsb is_caller (threads s)); [exact HI|].
  destruct HI as [H1 H2 H3 H4 H5 H6 H7]. constructor; ssimpl; auto; try (intros; contradiction); try discriminate.
Qed.

Lemma step_InvA : forall s a s', InvA s -> step s a = Some s' -> InvA s'.
Proof.
  intros s a s' HI H. unfold step in H. destruct (step_raw s a) as [s1|] eqn:E; [|discriminate].
  cbn in H. injection H as <-. apply cleanup_InvA. eapply step_raw_InvA; eauto.
Qed.

Lemma do_step_InvA : forall s a, InvA s -> InvA (do_step s a).
Proof. intros s a HI. unfold do_step. destruct (step s a) eqn:E; [eapply step_InvA; eauto|exact HI]. Qed.

Lemma run_InvA : forall acts s, InvA s -> InvA (run s acts).
Proof.
  induction acts as [|a r IH]; intros s HI; [exact HI|]. cbn [run fold_left].
  apply IH. apply do_step_InvA. exact HI.
Qed.

(* ---- consequences ------------------------------------------------------------------------------ *)
Definition reachable (da : nat) (s : state) : Prop := exists acts, s = run (init_state da) acts.

Lemma reachable_InvA : forall da s, reachable da s -> InvA s.
Proof. intros da s [acts ->]. apply run_InvA. apply InvA_init. Qed.

Lemma no_stream_over_limited_l : forall da s tid t c,
  reachable da s -> nth_error (threads s) tid = Some t -> t_dial t = false ->
  (t_pc t = PDone (ROk c) \/ t_pc t = POpening c) ->
  c < length (conns s) /\ (c_lim (get_conn (conns s) c) = true -> t_allow t = true).
Proof.
  intros da s tid t c R Ht Hd Hpc. destruct (A1 s (reachable_InvA _ _ R) tid t Ht) as [_ K].
  destruct Hpc as [E|E]; rewrite E in K; [rewrite Hd in K|]; exact K.
Qed.

Lemma force_direct_never_relayed_l : forall da s tid t c,
  reachable da s -> nth_error (threads s) tid = Some t -> t_dial t = true -> t_force t = true ->
  t_pc t = PDone (ROk c) ->
  c < length (conns s) /\ c_proxy (get_conn (conns s) c) = false.
Proof.
  intros da s tid t c R Ht Hd Hf Hpc. destruct (A1 s (reachable_InvA _ _ R) tid t Ht) as [_ K].
  rewrite Hpc, Hd in K. destruct K as [K1 K2]. auto.
Qed.

Lemma force_direct_never_dials_relay_l : forall da s a,
  reachable da s -> (In (a, true) (diallog s) \/ In (a, true) (inflight s)) -> is_relay a = false.
Proof.
  intros da s a R [H|H]; [eapply A6|eapply A5]; eauto using reachable_InvA.
Qed.

(* waitForDirectConn hands back a connection only if it is not limited: the
   two places where a waiting call proceeds to open a stream *)
Lemma wait_result_never_limited_l : forall s tid t s' t' c,
  nth_error (threads s) tid = Some t -> (t_pc t = PWaitReg \/ t_pc t = PWoken) ->
  thread_step s tid = Some s' -> nth_error (threads s') tid = Some t' -> t_pc t' = POpen c ->
  c < length (conns s) /\ usable (get_conn (conns s) c) = true /\ c_lim (get_conn (conns s) c) = false.
Proof.
  intros s tid t s' t' c Ht Hpc H Ht' Hpc'. unfold thread_step in H. rewrite Ht in H.
  assert (L : tid < length (threads s)) by (eapply nth_error_lt; eauto).
  destruct Hpc as [E|E]; rewrite E in H.
  - destruct (best_conn (conns s)) as [b|] eqn:B.
    + destruct (c_lim (get_conn (conns s) b)) eqn:Lb; injection H as <-; ssimpl;
        rewrite nth_error_set_nth_eq in Ht' by exact L; injection Ht' as <-; cbn in Hpc'; [discriminate|].
      injection Hpc' as <-. destruct (best_conn_some _ _ B). auto.
    + injection H as <-. ssimpl. rewrite nth_error_set_nth_eq in Ht' by exact L. injection Ht' as <-. discriminate.
  - destruct (best_conn (conns s)) as [b|] eqn:B.
    + destruct (c_lim (get_conn (conns s) b)) eqn:Lb; injection H as <-; ssimpl;
        rewrite nth_error_set_nth_eq in Ht' by exact L; injection Ht' as <-; cbn in Hpc'; [discriminate|].
      injection Hpc' as <-. destruct (best_conn_some _ _ B). auto.
    + injection H as <-. ssimpl. rewrite nth_error_set_nth_eq in Ht' by exact L. injection Ht' as <-. discriminate.
Qed.

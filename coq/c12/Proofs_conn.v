(* C12 — lemmas about the pure connection-selection functions:
   connectedness, isBetterConn / bestConnToPeer, bestAcceptableConnToPeer. *)
From Coq Require Import List Arith ZArith Bool Lia.
From Verif Require Import c12.Model.
Import ListNotations.

(* ---- connectedness ------------------------------------------------------------ *)
Lemma connectedness_from_spec : forall l hl,
  connectedness_from l hl =
    if existsb (fun c => usable c && negb (c_lim c)) l then 1
    else if hl || existsb (fun c => usable c && c_lim c) l then 2 else 0.
Proof.
  induction l as [|c r IH]; intros hl; cbn [connectedness_from existsb].
  - destruct hl; reflexivity.
  - destruct (usable c) eqn:U; cbn [andb orb].
    + destruct (c_lim c) eqn:L; cbn [negb orb].
      * rewrite IH. rewrite !orb_true_r. cbn [orb]. reflexivity.
      * reflexivity.
    + apply IH.
Qed.

Lemma connectedness_spec : forall cs,
  connectedness cs =
    if existsb (fun c => usable c && negb (c_lim c)) cs then 1
    else if existsb (fun c => usable c && c_lim c) cs then 2 else 0.
Proof. intros. unfold connectedness. rewrite connectedness_from_spec. reflexivity. Qed.

(* "a peer reachable only over limited connections is reported as Limited
   rather than Connected" *)
Lemma limited_reported_limited_l : forall cs,
  (exists c, In c cs /\ usable c = true) ->
  (forall c, In c cs -> usable c = true -> c_lim c = true) ->
  connectedness cs = 2.
Proof.
  intros cs [c [Hin Hu]] Hall. rewrite connectedness_spec.
  destruct (existsb (fun c => usable c && negb (c_lim c)) cs) eqn:E.
  - apply existsb_exists in E. destruct E as [x [Hx Hb]].
    apply andb_true_iff in Hb. destruct Hb as [Hux Hl].
    rewrite (Hall x Hx Hux) in Hl. discriminate.
  - assert (E2 : existsb (fun c => usable c && c_lim c) cs = true).
    { apply existsb_exists. exists c. split; [exact Hin|]. rewrite Hu, (Hall c Hin Hu). reflexivity. }
    rewrite E2. reflexivity.
Qed.

Lemma connected_iff_direct : forall cs,
  connectedness cs = 1 <-> exists c, In c cs /\ usable c = true /\ c_lim c = false.
Proof.
  intros cs. rewrite connectedness_spec. split.
  - destruct (existsb (fun c => usable c && negb (c_lim c)) cs) eqn:E.
    + intros _. apply existsb_exists in E. destruct E as [x [Hx Hb]].
      apply andb_true_iff in Hb. destruct Hb as [Hu Hl]. apply negb_true_iff in Hl. eauto.
    + destruct (existsb (fun c => usable c && c_lim c) cs); discriminate.
  - intros [c [Hin [Hu Hl]]].
    assert (E : existsb (fun c => usable c && negb (c_lim c)) cs = true).
    { apply existsb_exists. exists c. split; [exact Hin|]. rewrite Hu, Hl. reflexivity. }
    rewrite E. reflexivity.
Qed.

Lemma not_connected_iff_none : forall cs,
  connectedness cs = 0 <-> forall c, In c cs -> usable c = false.
Proof.
  intros cs. rewrite connectedness_spec. split.
  - destruct (existsb (fun c => usable c && negb (c_lim c)) cs) eqn:E; [discriminate|].
    destruct (existsb (fun c => usable c && c_lim c) cs) eqn:E2; [discriminate|].
    intros _ c Hin. destruct (usable c) eqn:U; [|reflexivity]. exfalso.
    destruct (c_lim c) eqn:L.
    + assert (X : existsb (fun c => usable c && c_lim c) cs = true)
        by (apply existsb_exists; exists c; rewrite U, L; auto).
      congruence.
    + assert (X : existsb (fun c => usable c && negb (c_lim c)) cs = true)
        by (apply existsb_exists; exists c; rewrite U, L; auto).
      congruence.
  - intros H.
    assert (E : existsb (fun c => usable c && negb (c_lim c)) cs = false).
    { apply not_true_iff_false. intros X. apply existsb_exists in X. destruct X as [x [Hx Hb]].
      rewrite (H x Hx) in Hb. discriminate. }
    assert (E2 : existsb (fun c => usable c && c_lim c) cs = false).
    { apply not_true_iff_false. intros X. apply existsb_exists in X. destruct X as [x [Hx Hb]].
      rewrite (H x Hx) in Hb. discriminate. }
    rewrite E, E2. reflexivity.
Qed.

(* ---- set_nth ------------------------------------------------------------------------ *)
Lemma set_nth_length : forall A (l : list A) i x, length (set_nth l i x) = length l.
Proof. induction l; intros [|i] x; cbn; auto. Qed.

Lemma nth_error_set_nth_eq : forall A (l : list A) i x, i < length l -> nth_error (set_nth l i x) i = Some x.
Proof. induction l; intros [|i] x H; cbn in *; try lia; auto. apply IHl. lia. Qed.

Lemma nth_error_set_nth_neq : forall A (l : list A) i j x, i <> j -> nth_error (set_nth l i x) j = nth_error l j.
Proof. induction l; intros [|i] [|j] x H; cbn; auto; try congruence. Qed.

Lemma nth_error_set_nth : forall A (l : list A) i j x y,
  nth_error (set_nth l i x) j = Some y ->
  (i = j /\ y = x /\ i < length l) \/ (i <> j /\ nth_error l j = Some y).
Proof.
  intros A l i j x y H. destruct (Nat.eq_dec i j) as [E|E].
  - subst j. assert (i < length l).
    { rewrite <- (set_nth_length A l i x). apply nth_error_Some. congruence. }
    left. rewrite nth_error_set_nth_eq in H by assumption. inversion H. auto.
  - right. rewrite nth_error_set_nth_neq in H by assumption. auto.
Qed.

Lemma nth_error_lt : forall A (l : list A) i x, nth_error l i = Some x -> i < length l.
Proof. intros. apply nth_error_Some. congruence. Qed.

Lemma get_conn_nth : forall cs c x, nth_error cs c = Some x -> get_conn cs c = x.
Proof. intros. unfold get_conn. apply nth_error_nth. assumption. Qed.

Lemma get_conn_app_old : forall cs x c, c < length cs -> get_conn (cs ++ [x]) c = get_conn cs c.
Proof. intros. unfold get_conn. apply app_nth1. assumption. Qed.

Lemma get_conn_app_new : forall cs x, get_conn (cs ++ [x]) (length cs) = x.
Proof. intros. unfold get_conn. rewrite app_nth2 by lia. rewrite Nat.sub_diag. reflexivity. Qed.

Lemma get_conn_set_eq : forall cs c x, c < length cs -> get_conn (set_nth cs c x) c = x.
Proof. intros. apply get_conn_nth. apply nth_error_set_nth_eq. assumption. Qed.

Lemma get_conn_set_neq : forall cs c d x, c <> d -> get_conn (set_nth cs c x) d = get_conn cs d.
Proof.
  intros. unfold get_conn. 
  destruct (nth_error cs d) eqn:E.
  - rewrite (nth_error_nth _ _ _ E). apply nth_error_nth. rewrite nth_error_set_nth_neq; assumption.
  - assert (E2 : nth_error (set_nth cs c x) d = None) by (rewrite nth_error_set_nth_neq; assumption).
    apply nth_error_None in E. apply nth_error_None in E2.
    rewrite !nth_overflow by assumption. reflexivity.
Qed.

(* ---- isBetterConn / bestConnToPeer ------------------------------------------------------ *)
Lemma better_keeps_nonlim_new : forall a b, better a b = true -> c_lim b = false -> c_lim a = false.
Proof.
  intros a b H Hb. unfold better in H. rewrite Hb in H.
  destruct (c_lim a); cbn in H; [discriminate|reflexivity].
Qed.

Lemma better_keeps_nonlim_old : forall a b, better a b = false -> c_lim a = false -> c_lim b = false.
Proof.
  intros a b H Ha. unfold better in H. rewrite Ha in H.
  destruct (c_lim b); cbn in H; [discriminate|reflexivity].
Qed.

Definition best_wf (cs : list conn) (b : option (nat * conn)) : Prop :=
  match b with
  | Some (j, c) => nth_error cs j = Some c /\ usable c = true
  | None => True
  end.

Lemma best_from_wf : forall l cs pre b,
  cs = pre ++ l -> best_wf cs b ->
  best_wf cs (best_from l (length pre) b).
Proof.
  induction l as [|c r IH]; intros cs pre b Hcs Hb; cbn [best_from]; [exact Hb|].
  replace (S (length pre)) with (length (pre ++ [c])) by (rewrite app_length; cbn; lia).
  apply IH; [rewrite <- app_assoc; exact Hcs|].
  destruct (usable c) eqn:U; [|exact Hb].
  assert (Hc : nth_error cs (length pre) = Some c).
  { subst cs. rewrite nth_error_app2 by lia. rewrite Nat.sub_diag. reflexivity. }
  destruct b as [[j b]|]; cbn [best_wf].
  - destruct (better c b); cbn [best_wf]; auto.
  - auto.
Qed.

Definition best_nonlim (b : option (nat * conn)) : Prop :=
  match b with Some (_, c) => c_lim c = false | None => False end.

Lemma best_from_nonlim : forall l i b,
  best_nonlim b \/ (exists c, In c l /\ usable c = true /\ c_lim c = false) ->
  best_nonlim (best_from l i b).
Proof.
  induction l as [|c r IH]; intros i b H; cbn [best_from].
  - destruct H as [H|[c [[] _]]]. exact H.
  - apply IH. destruct H as [H|[x [[E|Hin] [Hu Hl]]]].
    + left. destruct (usable c); [|exact H]. destruct b as [[j b]|]; [|destruct H].
      cbn [best_nonlim] in *. destruct (better c b) eqn:Bt; cbn [best_nonlim]; [|exact H].
      eapply better_keeps_nonlim_new; eauto.
    + subst x. left. rewrite Hu. destruct b as [[j b]|]; cbn [best_nonlim]; [|exact Hl].
      destruct (better c b) eqn:Bt; cbn [best_nonlim]; [exact Hl|].
      eapply better_keeps_nonlim_old; eauto.
    + right. exists x. auto.
Qed.

Lemma best_conn_some : forall cs j, best_conn cs = Some j ->
  j < length cs /\ usable (get_conn cs j) = true.
Proof.
  intros cs j H. unfold best_conn in H.
  pose proof (best_from_wf cs cs [] None eq_refl I) as W. cbn [length] in W.
  destruct (best_from cs 0 None) as [[k c]|]; cbn in H; [|discriminate]. inversion H; subst k.
  destruct W as [W1 W2]. split; [eapply nth_error_lt; eauto|]. rewrite (get_conn_nth _ _ _ W1). exact W2.
Qed.

(* if some usable non-limited connection exists, the best one is non-limited *)
Lemma best_conn_nonlim : forall cs,
  (exists c, c < length cs /\ usable (get_conn cs c) = true /\ c_lim (get_conn cs c) = false) ->
  exists j, best_conn cs = Some j /\ c_lim (get_conn cs j) = false.
Proof.
  intros cs [c [Hc [Hu Hl]]].
  assert (N : best_nonlim (best_from cs 0 None)).
  { apply best_from_nonlim. right. exists (get_conn cs c). split; [|auto].
    unfold get_conn. apply nth_In. exact Hc. }
  pose proof (best_from_wf cs cs [] None eq_refl I) as W. cbn [length] in W.
  unfold best_conn. destruct (best_from cs 0 None) as [[k x]|]; [|destruct N].
  exists k. cbn. split; [reflexivity|]. destruct W as [W1 _]. rewrite (get_conn_nth _ _ _ W1). exact N.
Qed.

Lemma best_from_keeps_some : forall l i b, b <> None -> best_from l i b <> None.
Proof.
  induction l as [|z q IHq]; intros i b Hb; cbn [best_from]; [exact Hb|].
  apply IHq. destruct (usable z); [|exact Hb]. destruct b as [[j b]|]; [|congruence].
  destruct (better z b); discriminate.
Qed.

Lemma best_from_finds : forall l i b, (exists x, In x l /\ usable x = true) -> best_from l i b <> None.
Proof.
  induction l as [|y r IH]; intros i b [x [Hin Hu]]; [destruct Hin|].
  cbn [best_from]. destruct Hin as [E|Hin].
  - subst y. rewrite Hu. apply best_from_keeps_some.
    destruct b as [[j b]|]; [destruct (better x b)|]; discriminate.
  - apply IH. eauto.
Qed.

Lemma best_conn_none : forall cs, best_conn cs = None ->
  forall c, c < length cs -> usable (get_conn cs c) = false.
Proof.
  intros cs H c Hc. destruct (usable (get_conn cs c)) eqn:U; [|reflexivity]. exfalso.
  unfold best_conn in H. destruct (best_from cs 0 None) eqn:E; [destruct p; discriminate|].
  apply (best_from_finds cs 0 None); [|exact E].
  exists (get_conn cs c). split; [apply nth_In; exact Hc|exact U].
Qed.

Lemma best_acceptable_some : forall force cs j, best_acceptable force cs = Some j ->
  j < length cs /\ usable (get_conn cs j) = true /\ (force = true -> c_proxy (get_conn cs j) = false).
Proof.
  intros force cs j H. unfold best_acceptable in H.
  destruct (best_conn cs) as [k|] eqn:E; [|discriminate].
  destruct (force && c_proxy (get_conn cs k)) eqn:F; [discriminate|]. inversion H; subst k.
  destruct (best_conn_some _ _ E) as [A B]. repeat split; auto.
  intros ->. cbn in F. exact F.
Qed.

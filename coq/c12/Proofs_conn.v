(* C12 — lemmas about the pure connection-selection functions:
   connectedness, isBetterConn / bestConnToPeer, bestAcceptableConnToPeer. *)
From Coq Require Import List Arith ZArith Bool Lia.
From Verif Require Import c12.Model.
Import ListNotations.

(* ---- connectedness ------------------------------------------------------------ *)
Lemma connectedness_from_spec : forall l hl,
  connectedness_from l hl =
    if existsb (fun c => usable c && negb (c_lim c)) l then 1
    else if hl || existsb (fun c => usable c && c_lim c) l then 2 else 0.
Proof.
  induction l as [|c r IH]; intros hl; cbn [connectedness_from existsb].
  - destruct hl; reflexivity.
  - destruct (usable c) eqn:U; cbn [andb orb].
    + destruct (c_lim c) eqn:L; cbn [negb orb].
      * rewrite IH. rewrite !orb_true_r. cbn [orb]. reflexivity.
      * reflexivity.
    + apply IH.
Qed.

Lemma connectedness_spec : forall cs,
  connectedness cs =
    if existsb (fun c => usable c && negb (c_lim c)) cs then 1
    else if existsb (fun c => usable c && c_lim c) cs then 2 else 0.
Proof. intros. unfold connectedness. rewrite connectedness_from_spec. reflexivity. Qed.

(* "a peer reachable only over limited connections is reported as Limited
   rather than Connected" *)
Lemma limited_reported_limited_l : forall cs,
  (exists c, In c cs /\ usable c = true) ->
  (forall c, In c cs -> usable c = true -> c_lim c = true) ->
  connectedness cs = 2.
Proof.
  intros cs [c [Hin Hu]] Hall. rewrite connectedness_spec.
  destruct (existsb (fun c => usable c && negb (c_lim c)) cs) eqn:E.
  - apply existsb_exists in E. destruct E as [x [Hx Hb]].
    apply andb_true_iff in Hb. destruct Hb as [Hux Hl].
    rewrite (Hall x Hx Hux) in Hl. discriminate.
  - assert (E2 : existsb (fun c => usable c && c_lim c) cs = true).
    { apply existsb_exists. exists c. split; [exact Hin|]. rewrite Hu, (Hall c Hin Hu). reflexivity. }
    rewrite E2. reflexivity.
Qed.

Lemma connected_iff_direct : forall cs,
  connectedness cs = 1 <-> exists c, In c cs /\ usable c = true /\ c_lim c = false.
Proof.
  intros cs. rewrite connectedness_spec. split.
  - destruct (existsb (fun c => usable c && negb (c_lim c)) cs) eqn:E.
    + intros _. apply existsb_exists in E. destruct E as [x [Hx Hb]].
      apply andb_true_iff in Hb. destruct Hb as [Hu Hl]. apply negb_true_iff in Hl. eauto.
    + destruct (existsb (fun c => usable c && c_lim c) cs); discriminate.
  - intros [c [Hin [Hu Hl]]].
    assert (E : existsb (fun c => usable c && negb (c_lim c)) cs = true).
    { apply existsb_exists. exists c. split; [exact Hin|]. rewrite Hu, Hl. reflexivity. }
    rewrite E. reflexivity.
Qed.

Lemma not_connected_iff_none : forall cs,
  connectedness cs = 0 <-> forall c, In c cs -> usable c = false.
Proof.
  intros cs. rewrite connectedness_spec. split.
  - destruct (existsb (fun c => usable c && negb (c_lim c)) cs) eqn:E; [discriminate|].
    destruct (existsb (fun c => usable c && c_lim c) cs) eqn:E2; [discriminate|].
    intros _ c Hin. destruct (usable c) eqn:U; [|reflexivity]. exfalso.
    destruct (c_lim c) eqn:L.
    + assert (X : existsb (fun c => usable c && c_lim c) cs = true)
        by (apply existsb_exists; exists c; rewrite U, L; auto).
      congruence.
    + assert (X : existsb (fun c => usable c && negb (c_lim c)) cs = true)
        by (apply existsb_exists; exists c; rewrite U, L; auto).
      congruence.
  - intros H.
    assert (E : existsb (fun c => usable c && negb (c_lim c)) cs = false).
    { apply not_true_iff_false. intros X. apply existsb_exists in X. destruct X as [x [Hx Hb]].
      rewrite (H x Hx) in Hb. discriminate. }
    assert (E2 : existsb (fun c => usable c && c_lim c) cs = false).
    { apply not_true_iff_false. intros X. apply existsb_exists in X. destruct X as [x [Hx Hb]].
      rewrite (H x Hx) in Hb. discriminate. }
    rewrite E, E2. reflexivity.
Qed.

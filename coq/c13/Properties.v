(* C13 — property theorems only.  Each is closed by [exact] of a lemma from
   Proofs*.v and followed by Print Assumptions. *)
From Coq Require Import List ZArith NArith Bool.
From Verif Require Import lib.Wire c09.Abs c08.SymCrypto gen.Consts_c13 c13.Model c13.Spec c13.Proofs.
Import ListNotations.
Local Open Scope Z_scope.

(* every peerstore call consumeMessage produces is keyed by the remote peer of
   the connection the message arrived on — whatever the message holds, whatever
   the signature scheme, ID function and stored state are *)
Theorem c13_writes_keyed_by_remote :
  forall verify id_of inline_key s m c connected,
    Forall (fun o => op_peer o = c_peer c) (consume verify id_of inline_key s m c connected).
Proof. exact consume_keyed. Qed.
Print Assumptions c13_writes_keyed_by_remote.

Theorem c13_disconnect_writes_keyed_by_remote :
  forall c connected order, Forall (fun o => op_peer o = c_peer c) (disconnected_ops c connected order).
Proof. exact disconnected_keyed. Qed.
Print Assumptions c13_disconnect_writes_keyed_by_remote.

(* C13 — property theorems only.  Each is closed by [exact] of a lemma from
   Proofs*.v and followed by Print Assumptions. *)
From Coq Require Import List ZArith NArith Bool.
From Verif Require gen.Consts_c09.
From Verif Require Import lib.Wire c09.Abs c08.SymCrypto gen.Consts_c13 c13.Model c13.Spec
  c13.Proofs c13.Proofs_Book c13.Proofs_Store c13.Proofs_Consume c13.Proofs_Msg c13.Proofs_Sys
  c13.Proofs_Inv c13.Proofs_Mon c13.Proofs_Wait.
Import ListNotations.
Local Open Scope Z_scope.

(* THE property on traces.  For every configuration (peers, key kinds,
   connections, seeded addresses without the connected lifetime) and every
   finite history of swarm events, notifications in any order, identify
   answers / failures / pushes with arbitrary (malformed, chunked, forged)
   messages and timeouts, the observable trace of the model — the peerstore
   calls, the events, the wait channels and the peerstore contents of ALL
   peers after every step — is accepted by the monitor of Spec.v, the very
   function that judges the implementation's traces. *)
Theorem c13_monitor_accepts_model : forall g ops, init_wf g = true ->
  mon_run_all g (mon_init g) 0 (model_trace g (init_sys g) ops) = [].
Proof. exact monitor_all_accepts_model_l. Qed.
Print Assumptions c13_monitor_accepts_model.

(* the address book's own per-peer cap (addr_book.go maxAddrsPerPeer), which the
   model's book carries: with a positive cap, after consumeMessage and after the
   last Disconnected the peer holds at most max(cap, what it held before)
   addresses below the connected class — whichever entry an eviction picks *)
Theorem c13_caps_book_per_peer : forall cap maxu b p, 0 < cap ->
  (forall addrs ttl, ucount p (a_ents (book_consumed cap maxu b p addrs ttl)) <= Z.max cap (pcount p (a_ents b))) /\
  (forall order, ucount p (a_ents (book_disconnected cap maxu b p order)) <= Z.max cap (pcount p (a_ents b))).
Proof. intros cap maxu b p H. split; intros; [now apply consumed_bookcap|now apply disconnected_bookcap]. Qed.
Print Assumptions c13_caps_book_per_peer.

(* the same for the race cases (real goroutines, judged on the final peerstore
   contents against the linearised operations): the final-state check accepts
   the model's final state after every history *)
Theorem c13_race_monitor_accepts_model : forall g ops, init_wf g = true ->
  monitor_race g ops (dump_all (g_np g) (s_ps (run g (init_sys g) ops))) = [].
Proof. intros g ops Hw. unfold monitor_race. now rewrite final_ok_model. Qed.
Print Assumptions c13_race_monitor_accepts_model.

(* every peerstore call consumeMessage produces is keyed by the remote peer of
   the connection the message arrived on — whatever the message holds, whatever
   the signature scheme, ID function and stored state are *)
Theorem c13_writes_keyed_by_remote :
  forall verify id_of inline_key s m c connected,
    Forall (fun o => op_peer o = c_peer c) (consume verify id_of inline_key s m c connected).
Proof. exact consume_keyed. Qed.
Print Assumptions c13_writes_keyed_by_remote.

Theorem c13_disconnect_writes_keyed_by_remote :
  forall c connected order, Forall (fun o => op_peer o = c_peer c) (disconnected_ops c connected order).
Proof. exact disconnected_keyed. Qed.
Print Assumptions c13_disconnect_writes_keyed_by_remote.

(* and calls keyed by p change nothing of what is stored under any other peer:
   addresses with their TTLs, protocols, key, versions, record *)
Theorem c13_other_peers_untouched :
  forall id_of inline_key l s p q, Forall (fun o => op_peer o = p) l -> q <> p -> book_ok (ps_book s) ->
    dump_peer (apply_ops id_of inline_key s l) q = dump_peer s q.
Proof. exact apply_ops_frame. Qed.
Print Assumptions c13_other_peers_untouched.

(* an address enters the book under p only if it was written without a /p2p
   suffix or with p's own: a foreign suffix is dropped (the book's rule) *)
Theorem c13_foreign_p2p_suffix_dropped : forall p l a,
  In a (clean_addrs (map (to_raw p) (filter has_transport l))) ->
  exists w, In w l /\ w_id w = a /\ (w_sfx w = 0 \/ w_sfx w = p).
Proof. exact clean_in. Qed.
Print Assumptions c13_foreign_p2p_suffix_dropped.

(* the key stored under p after any calls keyed by p is the one stored before
   or one that hashes to p *)
Theorem c13_pubkey_only_if_hashes_to_peer :
  forall (id_of : N -> Z) (inline_key : Z -> option N),
    (forall p k, inline_key p = Some k -> id_of k = p) ->
    forall l s p, Forall (fun o => op_peer o = p) l ->
      let k1 := alist_get p (ps_keys (apply_ops id_of inline_key s l)) in
      k1 = alist_get p (ps_keys s) \/ exists k, k1 = Some k /\ id_of k = p.
Proof. exact apply_ops_key. Qed.
Print Assumptions c13_pubkey_only_if_hashes_to_peer.

(* for every ideal signature scheme: an address consumeMessage passes to the
   book is a listen address of the merged message — and then no record
   verified — or an address of a record whose signature was issued by the key
   in the envelope for exactly (peer-record domain, peer-record type, this
   payload), that key hashing to the remote peer and the record naming it *)
Theorem c13_record_only_if_valid_and_own :
  forall (verify : N -> term -> term -> bool) (origin : term -> option (N * term)),
    (forall k m s, verify k m s = true <-> origin s = Some (k, m)) ->
    forall (id_of : N -> Z) c m w, In w (consume_addrs verify id_of c m) ->
      (rec_of_msg verify m = None /\ In w (m_listen m)) \/
      (exists e, m_rec m = REnv e /\ sealed_own origin id_of (c_peer c) e /\ In w (pr_addrs (e_rec e))).
Proof. exact consume_addrs_origin. Qed.
Print Assumptions c13_record_only_if_valid_and_own.

(* the symbolic scheme the correspondence runs with is ideal (c08.SymCrypto) *)
Theorem c13_symbolic_scheme_is_ideal : forall k m s, sym_v k m s = true <-> sym_o s = Some (k, m).
Proof. exact sym_v_ideal. Qed.
Print Assumptions c13_symbolic_scheme_is_ideal.

(* caps: at most connectedPeerMaxAddrs addresses are handed to the book and at
   most that many entries of the peer are in the connected / recently-connected
   classes afterwards; the last disconnect adds at most
   recentlyConnectedPeerMaxAddrs to the recently-connected class *)
Theorem c13_caps_addresses :
  forall verify id_of c m cap maxu b ttl,
    Z.of_nat (length (consume_addrs verify id_of c m)) <= connectedPeerMaxAddrs /\
    Z.of_nat (length (filter (Qp (c_peer c) is_hi)
                             (a_ents (book_consumed cap maxu b (c_peer c) (consume_addrs verify id_of c m) ttl))))
      <= connectedPeerMaxAddrs.
Proof.
  intros. split; [apply consume_addrs_length|apply consumed_cap, consume_addrs_length].
Qed.
Print Assumptions c13_caps_addresses.

Theorem c13_caps_after_last_disconnect : forall cap maxu b p order,
  Z.of_nat (length (filter (Qp p is_rc) (a_ents (book_disconnected cap maxu b p order)))) <=
  Z.of_nat (length (filter (Qp p is_rc) (a_ents b))) + recentlyConnectedPeerMaxAddrs.
Proof. exact disconnected_recent. Qed.
Print Assumptions c13_caps_after_last_disconnect.

(* protocols: whatever calls keyed by p do, p's protocol list is the old one or
   has at most maxPeerProtocols entries, provided every SetProtocols among them
   is bounded — as consumeMessage's is *)
Theorem c13_caps_protocols :
  forall id_of inline_key l s p, Forall protos_bounded l ->
    protos_rel (alist_get p (ps_protos s)) (alist_get p (ps_protos (apply_ops id_of inline_key s l))).
Proof. exact apply_ops_protos. Qed.
Print Assumptions c13_caps_protocols.

(* the connected lifetime only while a connection exists: in every reachable
   state, a peer that the swarm lists no connection to and for which no
   Disconnected notification is outstanding has no address with the connected
   TTL *)
Theorem c13_connected_ttl_only_while_connected : forall g ops q, init_wf g = true -> q <> 0 ->
  let s := run g (init_sys g) ops in
  connected (g_conns g) (s_net s) q = false -> pending g (s_pend s) q = false ->
  forall e, In e (a_ents (ps_book (s_ps s))) -> ep e = q -> ettl e <> ConnectedAddrTTL.
Proof.
  intros g ops q Hw Hq s Hc Hp. destruct (run_inv g ops (init_sys g) (init_inv g Hw)) as [_ _ H].
  destruct (H q Hq) as [H1|[H1|H1]]; [fold s in H1; congruence|fold s in H1; congruence|exact H1].
Qed.
Print Assumptions c13_connected_ttl_only_while_connected.

(* ... and fall back to a finite lifetime: right after the last Disconnected no
   entry of the peer has the connected TTL, and only entries that were above it
   (permanent) stay at or above it *)
Theorem c13_fallback_to_finite_lifetime : forall cap maxu b p order,
  pall p (fun t => t <> ConnectedAddrTTL) (book_disconnected cap maxu b p order) /\
  (length (filter (Qp p (fun t => (ConnectedAddrTTL <=? t)%Z)) (a_ents (book_disconnected cap maxu b p order))) <=
   length (filter (Qp p (fun t => (ConnectedAddrTTL <? t)%Z)) (a_ents b)))%nat.
Proof. intros. split; [apply disconnected_noconn|apply disconnected_fallback]. Qed.
Print Assumptions c13_fallback_to_finite_lifetime.

(* every connection's identify-wait is released — safety, for every schedule.
   In every reachable state:
   (1) an open wait channel has a running identify exchange;
   (2) a connection's channel whose exchange has finished is closed;
   (3) a waiter for a connection that still has its channel gets that very
       channel (closed, if the exchange has finished) and changes nothing;
   (4) a waiter that registers after the connection was closed and forgotten
       (Disconnected delivered) gets a fresh, already closed channel, and no
       exchange is started;
   (5) a closed channel stays closed under every step. *)
Theorem c13_wait_released : forall g ops, init_wf g = true ->
  let s := run g (init_sys g) ops in
  (forall ch, In (ch, false) (s_chans s) -> In ch (map fst (s_tasks s))) /\
  (forall c ch, alist_get c (s_entries s) = Some ch -> ch <> 0 -> ~ In ch (map fst (s_tasks s)) ->
     In (ch, true) (s_chans s) /\ ~ In (ch, false) (s_chans s)) /\
  (forall c ch, alist_get c (s_entries s) = Some ch -> ch <> 0 -> identify_wait (g_timeout g) s c = (s, ch)) /\
  (forall c, alist_get c (s_entries s) = None -> zin c (s_closed s) = true ->
     let '(s', ch) := identify_wait (g_timeout g) s c in
     In (ch, true) (s_chans s') /\ ~ In (ch, false) (s_chans s') /\ s_tasks s' = s_tasks s /\
     s_entries s' = s_entries s) /\
  (forall o x, In (x, true) (s_chans s) -> ~ In (x, false) (s_chans s) ->
     In (x, true) (s_chans (fst (gstep g s o))) /\ ~ In (x, false) (s_chans (fst (gstep g s o)))).
Proof.
  intros g ops Hw s. destruct (run_inv g ops (init_sys g) (init_inv g Hw)) as [_ Hwt _]. fold s in Hwt.
  pose proof (run_winv g ops (init_sys g) (init_winv g)) as HW. fold s in HW.
  split; [exact Hwt|]. split; [intros c ch; now apply finished_closed|].
  split; [intros c ch; apply waiter_same|]. split; [intros c; now apply waiter_late|].
  intros o x. destruct (gstep g s o) as [s' mo] eqn:E. cbn [fst]. now apply (step_closed_stable g s o s' mo x E).
Qed.
Print Assumptions c13_wait_released.

(* with identify.WithTimeout(0) every exchange fails before it begins: in no
   reachable state is a wait channel open *)
Theorem c13_zero_timeout_releases_at_once : forall g ops, init_wf g = true -> g_timeout g = 0 ->
  forall ch, ~ In (ch, false) (s_chans (run g (init_sys g) ops)).
Proof.
  intros g ops Hw Ht ch Hi. destruct (run_inv g ops (init_sys g) (init_inv g Hw)) as [_ Hwt _].
  apply Hwt in Hi. rewrite (run_notasks g ops Ht (init_sys g) eq_refl) in Hi. destruct Hi.
Qed.
Print Assumptions c13_zero_timeout_releases_at_once.

(* ... and the steps that release are always enabled: whatever answer a running
   exchange gets — refusal, read error, any message — closes its channel, and the
   identify timeout closes every channel *)
Theorem c13_wait_release_enabled : forall g ops, init_wf g = true ->
  let s := run g (init_sys g) ops in
  (forall ch c out, alist_get ch (s_tasks s) = Some c ->
     ~ In (ch, false) (s_chans (fst (gstep g s (OFinish ch c out))))) /\
  (forall d ch, ~ In (ch, false) (s_chans (fst (gstep g s (OTimeout d))))).
Proof.
  intros g ops Hw s. destruct (run_inv g ops (init_sys g) (init_inv g Hw)) as [_ Hwt _]. fold s in Hwt.
  split.
  - intros ch c out. apply finish_closes.
  - intros d ch. destruct (gstep g s (OTimeout d)) as [s' mo] eqn:E. cbn [fst].
    exact (timeout_all_closed g s d s' mo E Hwt ch).
Qed.
Print Assumptions c13_wait_release_enabled.

(* the constants re-read from /repo on every run: the TTL classes are ordered
   as the reasoning needs, the caps are positive and nested, and the TTL values
   are the ones C09's book was verified with *)
Theorem c13_constants_sane :
  (0 < TempAddrTTL /\ TempAddrTTL < RecentlyConnectedAddrTTL /\
   RecentlyConnectedAddrTTL < ConnectedAddrTTL /\ ConnectedAddrTTL < PermanentAddrTTL) /\
  (0 < recentlyConnectedPeerMaxAddrs <= connectedPeerMaxAddrs /\ 0 < maxPeerProtocols /\ 1 <= maxMessages) /\
  Consts_c13.ConnectedAddrTTL = Consts_c09.ConnectedAddrTTL /\
  Consts_c13.RecentlyConnectedAddrTTL = Consts_c09.RecentlyConnectedAddrTTL /\
  Consts_c13.TempAddrTTL = Consts_c09.TempAddrTTL.
Proof. split; [exact ttl_order|]. split; [exact caps_sane|]. repeat split. Qed.
Print Assumptions c13_constants_sane.

(* ---- non-vacuity ---------------------------------------------------------------------------------- *)
(* two peers, one public connection to peer 1 (whose ID embeds its key).  A push
   carries a listen address (9), and a record sealed by peer 1 listing address 6
   and address 7 with the suffix /p2p/2. *)
Definition ex_g : cfg := mkCfg 2 [1] 128 64 1000000 5000000000 [(1, mkConn 1 2 2 false)] [].
Definition ex_rec : prec := mkPR 1 1 [mkW 6 2 0; mkW 7 2 2].
Definition ex_env (signer : N) : envelope := mkEnv 1 1 ex_rec (TSig signer (signed_msg 1 1 ex_rec) 0).
Definition ex_chunk (signer : N) : chunk :=
  mkChunk false (mkMsg [1; 2] [mkW 9 2 0] 1 1 (KKey 1) (REnv (ex_env signer))).

(* while connected the record's own address gets the connected TTL; the
   foreign-suffixed one is dropped, the listen address is not used; after the
   swarm dropped the connection and Disconnected was delivered, the address has
   the recently-connected TTL; peer 2 has nothing at any time *)
Example ex_connected_then_recent :
  let s1 := run ex_g (init_sys ex_g) [ONetAdd 1; OPush 1 [ex_chunk 1]] in
  let s2 := run ex_g s1 [ONetRemove 1; ODisconnected 1 [mkW 6 3 0]] in
  d_addrs (dump_peer (s_ps s1) 1) = [(6, ConnectedAddrTTL)] /\ d_key (dump_peer (s_ps s1) 1) = 1 /\
  d_addrs (dump_peer (s_ps s2) 1) = [(6, RecentlyConnectedAddrTTL)] /\
  d_addrs (dump_peer (s_ps s1) 2) = [] /\ d_addrs (dump_peer (s_ps s2) 2) = [].
Proof. vm_compute. repeat split. Qed.

(* the same record signed by peer 2's key does not verify: the listen address is used instead *)
Example ex_forged_record_not_used :
  let s1 := run ex_g (init_sys ex_g) [ONetAdd 1; OPush 1 [ex_chunk 2]] in
  d_addrs (dump_peer (s_ps s1) 1) = [(9, ConnectedAddrTTL)].
Proof. vm_compute. reflexivity. Qed.

(* a wait channel opened by Connected is released by the timeout *)
Example ex_wait_released :
  let s1 := run ex_g (init_sys ex_g) [ONetAdd 1; OConnected 1] in
  let s2 := run ex_g s1 [OTimeout 6000000000] in
  s_chans s1 = [(1, false)] /\ s_chans s2 = [(1, true)].
Proof. vm_compute. split; reflexivity. Qed.

(* the monitor rejects bad observations of the push step: *)
Definition ex_before : mon := mkMon [1] [] [no_dump; no_dump].
Definition ex_d (addrs : list (Z * Z)) : pdump := mkPD addrs [] 0 0 0 0.
Definition ex_obs calls d1 d2 : wobs := mkWO 0 calls [(1, 1)] [] [d1; d2].
(* ... a call keyed by peer 2, and peer 2's data changed *)
Example monitor_rejects_other_peer :
  mon_step ex_g ex_before (OPush 1 [ex_chunk 1])
           (ex_obs [PAddAddrs 2 [mkW 6 2 0] ConnectedAddrTTL] (ex_d []) (ex_d [(6, ConnectedAddrTTL)])) = [1; 3; 10].
Proof. vm_compute. reflexivity. Qed.
(* ... the address with the foreign /p2p suffix recorded under the remote peer *)
Example monitor_rejects_foreign_suffix :
  mon_step ex_g ex_before (OPush 1 [ex_chunk 1]) (ex_obs [] (ex_d [(7, ConnectedAddrTTL)]) (ex_d [])) = [7].
Proof. vm_compute. reflexivity. Qed.
(* ... an address of a record that peer 1 did not sign *)
Example monitor_rejects_foreign_record :
  mon_step ex_g ex_before (OPush 1 [ex_chunk 2]) (ex_obs [] (ex_d [(6, ConnectedAddrTTL)]) (ex_d [])) = [7].
Proof. vm_compute. reflexivity. Qed.
(* ... a key that does not hash to the peer *)
Example monitor_rejects_foreign_key :
  mon_step ex_g ex_before (OPush 1 [ex_chunk 1]) (ex_obs [] (mkPD [] [] 2 0 0 0) (ex_d [])) = [4].
Proof. vm_compute. reflexivity. Qed.
(* ... the connected TTL surviving the last disconnect, and an open channel after the timeout *)
Example monitor_rejects_stale_connected_ttl :
  mon_step ex_g (mkMon [] [1] [ex_d [(6, ConnectedAddrTTL)]; no_dump]) (ODisconnected 1 [])
           (mkWO 0 [] [] [] [ex_d [(6, ConnectedAddrTTL)]; no_dump]) = [9; 10].
Proof. vm_compute. reflexivity. Qed.
Example monitor_rejects_open_wait :
  mon_step ex_g (mkMon [] [] [no_dump; no_dump]) (OTimeout 6000000000)
           (mkWO 0 [] [] [true; false] [no_dump; no_dump]) = [11].
Proof. vm_compute. reflexivity. Qed.
(* ... a record signed by another peer handed on in the Completed event *)
Example monitor_rejects_rejected_record_in_event :
  mon_step ex_g ex_before (OPush 1 [ex_chunk 2]) (mkWO 0 [] [(1, 1); (4, 1); (5, 1)] [] [ex_d []; ex_d []]) = [12].
Proof. vm_compute. reflexivity. Qed.
(* ... and more addresses than the book's cap kept while not connected *)
Example monitor_rejects_over_book_cap :
  mon_step_all ex_g (mkMon [] [] [no_dump; no_dump]) (OPush 1 [ex_chunk 1])
    (mkWO 0 [] [] [] [ex_d (map (fun a => (a, RecentlyConnectedAddrTTL)) (zrange 1 65)); no_dump]) = [13].
Proof. vm_compute. reflexivity. Qed.
(* the model's book enforces its per-peer cap: 70 new addresses pushed while
   the peer is not connected leave 64 (the configured cap) *)
Example ex_book_cap_enforced :
  let many := mkChunk false (mkMsg [] (map (fun a => mkW a 2 0) (zrange 100 70)) 0 0 KAbsent RAbsent) in
  let s1 := run ex_g (init_sys ex_g) [OPush 1 [many]] in
  zlen (d_addrs (dump_peer (s_ps s1) 1)) = 64.
Proof. vm_compute. reflexivity. Qed.

(* a book at its limit of unconnected addresses (here 1, taken by a seeded address
   of peer 2): the last Disconnected finds no room to move peer 1's connected
   address out of the connected class, and deletes it — it does not keep the
   connected lifetime *)
Example ex_full_book_drops_on_last_disconnect :
  let g := mkCfg 2 [1] 128 64 1 5000000000 [(1, mkConn 1 2 2 false)] [(2, 40, AddressTTL)] in
  let s1 := run g (init_sys g) [ONetAdd 1; OPush 1 [ex_chunk 1]] in
  let s2 := run g s1 [ONetRemove 1; ODisconnected 1 [mkW 6 3 0]] in
  d_addrs (dump_peer (s_ps s1) 1) = [(6, ConnectedAddrTTL)] /\ d_addrs (dump_peer (s_ps s2) 1) = [] /\
  d_addrs (dump_peer (s_ps s2) 2) = [(40, AddressTTL)].
Proof. vm_compute. repeat split. Qed.

(* a zero identify timeout: Connected opens a channel that is closed at once, with a Failed event *)
Example ex_zero_timeout :
  let g := mkCfg 2 [1] 128 64 1000000 0 [(1, mkConn 1 2 2 false)] [] in
  let '(s1, o1) := gstep g (run g (init_sys g) [ONetAdd 1]) (OConnected 1) in
  s_chans s1 = [(1, true)] /\ s_tasks s1 = [] /\ o_events o1 = [(2, 1)].
Proof. vm_compute. repeat split. Qed.
Example monitor_rejects_open_wait_with_zero_timeout :
  mon_step (mkCfg 2 [1] 128 64 1000000 0 [(1, mkConn 1 2 2 false)] []) (mkMon [1] [] [no_dump; no_dump])
           (OConnected 1) (mkWO 0 [] [] [false] [no_dump; no_dump]) = [11].
Proof. vm_compute. reflexivity. Qed.

(* C13 — the identify service as a transition system: the shape of every step
   (what it may change), and the invariants (book well-formed, an open wait
   channel has a running task, the connected lifetime only with a connection
   or a pending Disconnected). *)
From Coq Require Import List ZArith NArith Bool Lia.
From Verif Require Import lib.Wire c09.Abs c08.SymCrypto gen.Consts_c13 c13.Model c13.Spec
  c13.Proofs_Book c13.Proofs_Store c13.Proofs_Consume c13.Proofs_Msg.
Import ListNotations.
Local Open Scope Z_scope.

Lemma inline_of_ok inl p k : inline_of inl p = Some k -> id_of_n k = p.
Proof.
  unfold inline_of, id_of_n. destruct (0 <? p) eqn:E; cbn; [|discriminate]. destruct (zin p inl); [|discriminate].
  intros H. inversion H. apply Z.ltb_lt in E. rewrite Z2N.id; lia.
Qed.

Section Sys.
Variable g : cfg.
Notation K := (inline_of (g_inline g)).
Notation conns := (g_conns g).
Notation appl := (apply_ops id_of_n K).
Notation peer := (peer_of conns).

Definition noconn (b : abook) (q : Z) : Prop := pall q (fun t => t <> ConnectedAddrTTL) b.

Definition pending (pend : list Z) (q : Z) : bool := existsb (fun c => peer c =? q) pend.

Record Inv (s : sys) : Prop := mkInv {
  inv_book : book_ok (ps_book (s_ps s));
  inv_wait : forall ch, In (ch, false) (s_chans s) -> In ch (map fst (s_tasks s));
  inv_conn : forall q, q <> 0 -> connected conns (s_net s) q = true \/ pending (s_pend s) q = true
                                 \/ noconn (ps_book (s_ps s)) q }.

(* ---- identify_wait touches only the wait bookkeeping -------------------------------- *)
Lemma identify_wait_fields s c :
  let s' := fst (identify_wait (g_timeout g) s c) in
  s_ps s' = s_ps s /\ s_net s' = s_net s /\ s_pend s' = s_pend s /\ s_closed s' = s_closed s.
Proof.
  unfold identify_wait, spawn. destruct (alist_get c (s_entries s)) as [ch|].
  - destruct (ch =? 0); [destruct (g_timeout g =? 0)|]; cbn; tauto.
  - destruct (zin c (s_closed s)); [|destruct (g_timeout g =? 0)]; cbn; tauto.
Qed.

Lemma identify_wait_inv_wait s c :
  (forall ch, In (ch, false) (s_chans s) -> In ch (map fst (s_tasks s))) ->
  forall ch, In (ch, false) (s_chans (fst (identify_wait (g_timeout g) s c))) ->
             In ch (map fst (s_tasks (fst (identify_wait (g_timeout g) s c)))).
Proof.
  intros H ch. unfold identify_wait, spawn. destruct (alist_get c (s_entries s)) as [ch0|].
  - destruct (ch0 =? 0); [destruct (g_timeout g =? 0)|]; cbn; [| |apply H].
    + intros [E|E]; [inversion E|now apply H].
    + intros [E|E]; [inversion E; now left|right; now apply H].
  - destruct (zin c (s_closed s)); [|destruct (g_timeout g =? 0)]; cbn.
    + intros [E|E]; [inversion E|now apply H].
    + intros [E|E]; [inversion E|now apply H].
    + intros [E|E]; [inversion E; now left|right; now apply H].
Qed.

Lemma wait_events_keyed s c e : In e (wait_events conns (g_timeout g) s c) -> fst e = 2 /\ snd e = peer c.
Proof. unfold wait_events. destruct (_ && _); [intros [<-|[]]; now split|intros []]. Qed.

Lemma close_chan_open ch ch' l : In (ch', false) (close_chan ch l) -> In (ch', false) l /\ ch' <> ch.
Proof.
  unfold close_chan. intros H. apply in_map_iff in H. destruct H as [[x b] [E Hi]]. cbn in E.
  destruct (x =? ch) eqn:Ex; [inversion E|]. inversion E; subst. split; [exact Hi|]. now apply Z.eqb_neq.
Qed.

Lemma finish_task_inv_wait s ch :
  (forall x, In (x, false) (s_chans s) -> In x (map fst (s_tasks s))) ->
  forall x, In (x, false) (s_chans (finish_task s ch)) -> In x (map fst (s_tasks (finish_task s ch))).
Proof.
  intros H x Hx. unfold finish_task in *. cbn in *. apply close_chan_open in Hx. destruct Hx as [Hx Hne].
  apply H in Hx. apply in_map_iff in Hx. destruct Hx as [[a b] [E Hi]]. cbn in E. subst a.
  apply in_map_iff. exists (x, b). split; [reflexivity|]. apply filter_In. split; [exact Hi|]. cbn.
  apply negb_true_iff. now apply Z.eqb_neq.
Qed.

(* after closing the channels of all tasks no channel with a task is open *)
Lemma close_all_open (tasks : list (Z * Z)) : forall l x,
  In (x, false) (fold_left (fun l (t : Z * Z) => close_chan (fst t) l) tasks l) ->
  In (x, false) l /\ ~ In x (map fst tasks).
Proof.
  induction tasks as [|t tasks IH]; intros l x H; cbn in *; [tauto|].
  apply IH in H. destruct H as [H1 H2]. apply close_chan_open in H1. destruct H1 as [H1 H3].
  split; [exact H1|]. intros [E|E]; [congruence|tauto].
Qed.

(* ---- the connection table ------------------------------------------------------------------ *)
Lemma zin_in x l : zin x l = true <-> In x l.
Proof.
  unfold zin. rewrite existsb_exists. split.
  - intros [y [Hy E]]. apply Z.eqb_eq in E. now subst.
  - intros H. exists x. split; [exact H|apply Z.eqb_refl].
Qed.

Lemma connected_cons c net q : connected conns (c :: net) q = (peer c =? q) || connected conns net q.
Proof. reflexivity. Qed.

Lemma connected_mono net net' q : (forall c, In c net -> In c net') ->
  connected conns net q = true -> connected conns net' q = true.
Proof.
  unfold connected. rewrite !existsb_exists. intros H [c [Hc E]]. exists c. split; [now apply H|exact E].
Qed.

Lemma connected_remove c net q : connected conns net q = true ->
  connected conns (zremove c net) q = true \/ (In c net /\ peer c = q).
Proof.
  unfold connected. rewrite !existsb_exists. intros [d [Hd E]]. destruct (Z.eq_dec d c) as [->|Hne].
  - right. split; [exact Hd|now apply Z.eqb_eq].
  - left. exists d. split; [|exact E]. unfold zremove. apply filter_In. split; [exact Hd|].
    apply negb_true_iff. now apply Z.eqb_neq.
Qed.

Lemma pending_in pend q : pending pend q = true <-> exists c, In c pend /\ peer c = q.
Proof.
  unfold pending. rewrite existsb_exists. split; intros [c [H E]]; exists c; (split; [exact H|]);
    [now apply Z.eqb_eq|now apply Z.eqb_eq].
Qed.

Lemma pending_remove c pend q : pending pend q = true -> peer c <> q -> pending (zremove c pend) q = true.
Proof.
  rewrite !pending_in. intros [d [Hd E]] Hne. exists d. split; [|exact E]. unfold zremove. apply filter_In.
  split; [exact Hd|]. apply negb_true_iff, Z.eqb_neq. congruence.
Qed.

(* ---- the shape of a step ------------------------------------------------------------------------ *)
Definition mon_of (s : sys) : mon := mkMon (s_net s) (s_pend s) (dump_all (g_np g) (s_ps s)).

Definition advanced (ps : pstore) (d : Z) : pstore :=
  mkPS (a_advance (ps_book ps) d) (ps_protos ps) (ps_keys ps) (ps_meta ps) (ps_maxprotos ps) (ps_pcap ps) (ps_maxu ps).

Inductive shape (s : sys) (o : op) (s' : sys) (mo : sobs) : Prop :=
| ShQuiet :
    s_ps s' = s_ps s -> o_calls mo = [] ->
    (forall e, In e (o_events mo) -> fst e = 2 /\ forall c, subject o = Some c -> snd e = peer c) ->
    (forall d, o <> OTimeout d) -> shape s o s' mo
| ShConsumed c cs cn m (push : bool) :
    message_of o = Some cs -> subject o = Some c -> conn_of conns c = Some cn -> read_all cs = Some m ->
    o_calls mo = consume sym_v id_of_n K (s_ps s) m cn (connected conns (s_net s) (c_peer cn)) ->
    s_ps s' = appl (s_ps s) (o_calls mo) ->
    o_events mo = (if push then [(3, c_peer cn)] else []) ++ [(1, c_peer cn)]
                  ++ (if record_used sym_v id_of_n (c_peer cn) m then [(4, c_peer cn); (5, c_peer cn)] else []) ->
    shape s o s' mo
| ShLastDisc c order cn :
    o = ODisconnected c order -> conn_of conns c = Some cn ->
    connected conns (s_net s) (c_peer cn) = false ->
    o_calls mo = disconnected_ops cn false order -> s_ps s' = appl (s_ps s) (o_calls mo) ->
    o_events mo = [] -> shape s o s' mo
| ShTimeout d :
    o = OTimeout d -> s_ps s' = advanced (s_ps s) d -> o_calls mo = [] -> shape s o s' mo.

Lemma peer_conn c cn : conn_of conns c = Some cn -> peer c = c_peer cn.
Proof. unfold peer_of. now intros ->. Qed.

Lemma handle_response_spec s c cs push s' calls evs :
  handle_response sym_v id_of_n K conns (g_timeout g) s c cs push = Some (s', calls, evs) ->
  exists cn m, conn_of conns c = Some cn /\ read_all cs = Some m /\
    calls = consume sym_v id_of_n K (s_ps s) m cn (connected conns (s_net s) (c_peer cn)) /\
    s' = with_ps s (appl (s_ps s) calls) /\
    evs = (if push then [(3, c_peer cn)] else []) ++ [(1, c_peer cn)]
          ++ (if record_used sym_v id_of_n (c_peer cn) m then [(4, c_peer cn); (5, c_peer cn)] else []).
Proof.
  unfold handle_response. destruct (conn_of conns c) as [cn|]; [|discriminate].
  destruct (push && (g_timeout g =? 0)); [discriminate|].
  destruct (read_all cs) as [m|]; [|discriminate]. intros H. inversion H. exists cn, m. tauto.
Qed.

Lemma step_shape s o s' mo : gstep g s o = (s', mo) -> shape s o s' mo.
Proof.
  unfold gstep. destruct o; cbn [step].
  - intros H. inversion H. apply ShQuiet; cbn; try tauto; discriminate.
  - intros H. inversion H. apply ShQuiet; cbn; try tauto; discriminate.
  - intros H. inversion H. apply ShQuiet; try discriminate.
    + destruct (alist_get c (s_entries s)); now rewrite (proj1 (identify_wait_fields _ c)).
    + reflexivity.
    + cbn [o_events]. intros e He. apply wait_events_keyed in He. split; [tauto|].
      intros c0 E. cbn in E. inversion E; subst. tauto.
  - destruct (conn_of conns c) as [cn|] eqn:C.
    + destruct (connected conns (s_net s) (c_peer cn)) eqn:Cn; intros H; inversion H.
      * apply ShQuiet; cbn; try tauto; discriminate.
      * eapply ShLastDisc; try eassumption; reflexivity.
    + intros H. inversion H. apply ShQuiet; cbn; try tauto; discriminate.
  - destruct (identify_wait (g_timeout g) s c) as [s1 ch] eqn:W. intros H. inversion H. subst.
    apply ShQuiet; try discriminate.
    + change s' with (fst (s', ch)). rewrite <- W. apply identify_wait_fields.
    + reflexivity.
    + cbn [o_events]. intros e He. apply wait_events_keyed in He. split; [tauto|].
      intros c0 E. cbn in E. inversion E; subst. tauto.
  - destruct (negb _).
    { intros H. inversion H. apply ShQuiet; cbn; try tauto; discriminate. }
    destruct out as [| |cs].
    + intros H. inversion H. apply ShQuiet; cbn; try tauto; try discriminate.
      intros e [<-|[]]. cbn. split; [reflexivity|]. intros c0 E. now inversion E.
    + intros H. inversion H. apply ShQuiet; cbn; try tauto; try discriminate.
      intros e [<-|[]]. cbn. split; [reflexivity|]. intros c0 E. now inversion E.
    + destruct (handle_response sym_v id_of_n K conns (g_timeout g) s c cs false) as [[[s1 calls] evs]|] eqn:Hr.
      * apply handle_response_spec in Hr. destruct Hr as [cn [m [H1 [H2 [H3 [H4 H5]]]]]].
        intros H. inversion H. subst s1. eapply (ShConsumed _ _ _ _ c cs cn m false); cbn; try eassumption; try reflexivity.
      * intros H. inversion H. apply ShQuiet; cbn; try tauto; try discriminate.
        intros e [<-|[]]. cbn. split; [reflexivity|]. intros c0 E. now inversion E.
  - destruct (handle_response sym_v id_of_n K conns (g_timeout g) s c cs true) as [[[s1 calls] evs]|] eqn:Hr.
    + apply handle_response_spec in Hr. destruct Hr as [cn [m [H1 [H2 [H3 [H4 H5]]]]]].
      intros H. inversion H. subst s1. eapply (ShConsumed _ _ _ _ c cs cn m true); cbn; try eassumption; try reflexivity; subst; reflexivity.
    + intros H. inversion H. apply ShQuiet; cbn; try tauto; discriminate.
  - intros H. inversion H. eapply ShTimeout; reflexivity.
Qed.

End Sys.

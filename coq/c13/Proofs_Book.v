(* C13 — lemmas about C09's abstract address book (c09.Abs) as identify uses
   it: frame (other peers untouched), TTL-class predicates, counting. *)
From Coq Require Import List ZArith Bool Lia.
From Verif Require Import c09.Abs gen.Consts_c13 c13.Model.
Import ListNotations.
Local Open Scope Z_scope.

(* ---- lists ---------------------------------------------------------------- *)
Lemma filter_comm {A} (f g : A -> bool) l : filter f (filter g l) = filter g (filter f l).
Proof.
  induction l as [|x l IH]; [reflexivity|]. cbn.
  destruct (g x) eqn:G, (f x) eqn:F; cbn; rewrite ?G, ?F; congruence.
Qed.

Lemma filter_all {A} (f : A -> bool) l : (forall x, In x l -> f x = true) -> filter f l = l.
Proof.
  induction l as [|x l IH]; intros H; [reflexivity|]. cbn. rewrite (H x (or_introl eq_refl)).
  f_equal. apply IH. intros y Hy. apply H. now right.
Qed.

Lemma filter_and {A} (f g : A -> bool) l : filter f (filter g l) = filter (fun x => g x && f x) l.
Proof.
  induction l as [|x l IH]; [reflexivity|]. cbn. destruct (g x); cbn; [destruct (f x)|]; congruence.
Qed.

Lemma filter_map_comm {A B} (h : A -> B) (f : B -> bool) l :
  filter f (map h l) = map h (filter (fun x => f (h x)) l).
Proof. induction l as [|x l IH]; [reflexivity|]. cbn. destruct (f (h x)); cbn; congruence. Qed.

Lemma filter_length_le {A} (f : A -> bool) l : (length (filter f l) <= length l)%nat.
Proof. induction l as [|x l IH]; cbn; [lia|]. destruct (f x); cbn; lia. Qed.

Lemma filter_filter_length_le {A} (Q f : A -> bool) l :
  (length (filter Q (filter f l)) <= length (filter Q l))%nat.
Proof. rewrite filter_comm. apply filter_length_le. Qed.

(* count after a map: if Q1 holds of an image only when Q2 held of the source *)
Lemma filter_map_length_le {A} (f : A -> A) (Q1 Q2 : A -> bool) l :
  (forall e, In e l -> Q1 (f e) = true -> Q2 e = true) ->
  (length (filter Q1 (map f l)) <= length (filter Q2 l))%nat.
Proof.
  induction l as [|x l IH]; intros H; [cbn; lia|]. cbn.
  assert (IH' := IH (fun e He => H e (or_intror He))).
  destruct (Q1 (f x)) eqn:E1.
  - rewrite (H x (or_introl eq_refl) E1). cbn. lia.
  - destruct (Q2 x); cbn; lia.
Qed.

(* ---- entries of one peer ---------------------------------------------------- *)
Definition pents (p : Z) (l : list aent) : list aent := filter (fun e => ep e =? p) l.

Definition all_live (b : abook) : Prop := forall e, In e (a_ents b) -> live (a_now b) e = true.
Definition book_ok (b : abook) : Prop := all_live b /\ a_recs b = [].

Lemma mk_norm_ents now ents recs : a_ents (mk_norm now ents recs) = filter (live now) ents.
Proof. reflexivity. Qed.
Lemma mk_norm_now now ents recs : a_now (mk_norm now ents recs) = now.
Proof. reflexivity. Qed.
Lemma mk_norm_recs now ents recs :
  a_recs (mk_norm now ents recs) = filter (fun r => has_peer (rp r) (filter (live now) ents)) recs.
Proof. reflexivity. Qed.

Lemma mk_norm_ok now ents : book_ok (mk_norm now ents []).
Proof.
  split; [|reflexivity]. intros e He. rewrite mk_norm_ents in He. apply filter_In in He.
  rewrite mk_norm_now. tauto.
Qed.

Lemma a_init_ok : book_ok a_init.
Proof. split; [intros e []|reflexivity]. Qed.

Lemma a_add_ok s p l ttl : book_ok s -> book_ok (a_add s p l ttl).
Proof.
  intros [H1 H2]. unfold a_add. destruct (ttl <=? 0); [now split|]. rewrite H2. apply mk_norm_ok.
Qed.

Lemma a_update_ok s p o n : book_ok s -> book_ok (a_update s p o n).
Proof. intros [H1 H2]. unfold a_update. rewrite H2. apply mk_norm_ok. Qed.

Lemma a_advance_ok s d : book_ok s -> book_ok (a_advance s d).
Proof. intros [H1 H2]. unfold a_advance. rewrite H2. apply mk_norm_ok. Qed.

Lemma a_getrec_ok s p : book_ok s -> a_getrec s p = 0.
Proof. intros [_ H]. unfold a_getrec. rewrite H. reflexivity. Qed.

(* ---- frame: an operation about p leaves the entries of q <> p alone ------------- *)
Lemma upsert_ext_other p a ttl exp l q : q <> p -> pents q (upsert_ext p a ttl exp l) = pents q l.
Proof.
  intros Hq. induction l as [|e l IH]; cbn.
  - destruct (p =? q) eqn:E; [apply Z.eqb_eq in E; congruence|reflexivity].
  - destruct (key_is p a e) eqn:K; cbn.
    + unfold key_is in K. apply andb_true_iff in K. destruct K as [K _]. apply Z.eqb_eq in K.
      rewrite K. destruct (p =? q) eqn:E; [apply Z.eqb_eq in E; congruence|reflexivity].
    + destruct (ep e =? q); [f_equal|]; exact IH.
Qed.

Lemma add_list_other p ttl now l q : q <> p -> forall ents,
  pents q (add_list p ttl now l ents) = pents q ents.
Proof.
  intros Hq. unfold add_list. induction l as [|a l IH]; intros ents; [reflexivity|]. cbn [fold_left].
  rewrite IH. now apply upsert_ext_other.
Qed.

Lemma pents_live_comm q now l : pents q (filter (live now) l) = filter (live now) (pents q l).
Proof. unfold pents. apply filter_comm. Qed.

Lemma pents_live_id q b : all_live b -> filter (live (a_now b)) (pents q (a_ents b)) = pents q (a_ents b).
Proof.
  intros H. apply filter_all. intros e He. unfold pents in He. apply filter_In in He. apply H. tauto.
Qed.

Lemma a_add_other s p l ttl q : q <> p -> all_live s ->
  pents q (a_ents (a_add s p l ttl)) = pents q (a_ents s).
Proof.
  intros Hq Hl. unfold a_add. destruct (ttl <=? 0); [reflexivity|].
  rewrite mk_norm_ents, pents_live_comm, add_list_other by exact Hq. now apply pents_live_id.
Qed.

Definition upd_fun (p old new now : Z) (e : aent) : aent :=
  if (ep e =? p) && (ettl e =? old) then mkE (ep e) (ea e) new (now + new) else e.

Lemma a_update_ents s p old new :
  a_ents (a_update s p old new) = filter (live (a_now s)) (map (upd_fun p old new (a_now s)) (a_ents s)).
Proof. reflexivity. Qed.

Lemma upd_fun_ep p old new now e : ep (upd_fun p old new now e) = ep e.
Proof. unfold upd_fun. destruct (_ && _); reflexivity. Qed.

Lemma map_upd_other p old new now q l : q <> p ->
  pents q (map (upd_fun p old new now) l) = pents q l.
Proof.
  intros Hq. induction l as [|e l IH]; [reflexivity|]. cbn. rewrite upd_fun_ep.
  destruct (ep e =? q) eqn:E; [|exact IH]. f_equal; [|exact IH].
  unfold upd_fun. apply Z.eqb_eq in E. destruct (ep e =? p) eqn:E2; [apply Z.eqb_eq in E2; congruence|reflexivity].
Qed.

Lemma a_update_other s p old new q : q <> p -> all_live s ->
  pents q (a_ents (a_update s p old new)) = pents q (a_ents s).
Proof.
  intros Hq Hl. rewrite a_update_ents, pents_live_comm, map_upd_other by exact Hq. now apply pents_live_id.
Qed.

(* ---- TTL predicates over the entries of a peer --------------------------------- *)
Definition pall (p : Z) (P : Z -> Prop) (b : abook) : Prop :=
  forall e, In e (a_ents b) -> ep e = p -> P (ettl e).

Lemma upd_establish s p old new : old <> new -> pall p (fun t => t <> old) (a_update s p old new).
Proof.
  intros Hne e He Hp. rewrite a_update_ents in He. apply filter_In in He. destruct He as [He _].
  apply in_map_iff in He. destruct He as [e0 [<- H0]]. unfold upd_fun in *.
  destruct ((ep e0 =? p) && (ettl e0 =? old)) eqn:C; cbn in *; [congruence|].
  apply andb_false_iff in C. destruct C as [C|C].
  - apply Z.eqb_neq in C. congruence.
  - now apply Z.eqb_neq in C.
Qed.

Lemma upd_preserve s p q old new (P : Z -> Prop) : P new -> pall p P s -> pall p P (a_update s q old new).
Proof.
  intros Hn H e He Hp. rewrite a_update_ents in He. apply filter_In in He. destruct He as [He _].
  apply in_map_iff in He. destruct He as [e0 [<- H0]]. unfold upd_fun in *.
  destruct ((ep e0 =? q) && (ettl e0 =? old)); cbn in *; [exact Hn|now apply H].
Qed.

Lemma upsert_ext_in p a ttl exp l e : In e (upsert_ext p a ttl exp l) ->
  In e l \/ (ep e = p /\ ea e = a /\ (ettl e = ttl \/ exists e0, In e0 l /\ ep e0 = p /\ ettl e = Z.max (ettl e0) ttl)).
Proof.
  induction l as [|x l IH]; cbn; intros H.
  - destruct H as [<-|[]]. right. cbn. tauto.
  - destruct (key_is p a x) eqn:K.
    + destruct H as [<-|H]; [|left; now right]. right. cbn.
      unfold key_is in K. apply andb_true_iff in K. destruct K as [K1 K2]. apply Z.eqb_eq in K1.
      repeat split; try reflexivity. right. exists x. repeat split; [now left|exact K1].
    + destruct H as [<-|H]; [left; now left|]. destruct (IH H) as [H1|[H1 [H2 H3]]]; [left; now right|].
      right. repeat split; try assumption. destruct H3 as [H3|[e0 [Ha [Hb Hc]]]]; [now left|].
      right. exists e0. repeat split; try assumption. now right.
Qed.

Lemma add_list_pall p q ttl now (P : Z -> Prop) l :
  (forall t, P t -> P (Z.max t ttl)) -> P ttl -> forall ents,
  (forall e, In e ents -> ep e = p -> P (ettl e)) ->
  forall e, In e (add_list q ttl now l ents) -> ep e = p -> P (ettl e).
Proof.
  intros Hm Ht. unfold add_list. induction l as [|a l IH]; intros ents H; [exact H|]. cbn [fold_left].
  apply IH. intros e He Hp. apply upsert_ext_in in He. destruct He as [He|[Hq [_ [He|[e0 [Ha [Hb Hc]]]]]]].
  - now apply H.
  - now rewrite He.
  - rewrite Hc. apply Hm. apply H; [exact Ha|]. congruence.
Qed.

Lemma add_preserve s p q l ttl (P : Z -> Prop) :
  (forall t, P t -> P (Z.max t ttl)) -> P ttl -> pall p P s -> pall p P (a_add s q l ttl).
Proof.
  intros Hm Ht H. unfold a_add. destruct (ttl <=? 0); [exact H|]. intros e He Hp.
  rewrite mk_norm_ents in He. apply filter_In in He. destruct He as [He _].
  revert e He Hp. apply add_list_pall; assumption.
Qed.

Lemma advance_preserve s d p (P : Z -> Prop) : pall p P s -> pall p P (a_advance s d).
Proof.
  intros H e He Hp. unfold a_advance in He. rewrite mk_norm_ents in He. apply filter_In in He. apply H; tauto.
Qed.

(* where the entries of a book after AddAddrs come from *)
Lemma add_list_in p ttl now l : forall ents e, In e (add_list p ttl now l ents) ->
  In e ents \/ (ep e = p /\ In (ea e) l).
Proof.
  unfold add_list. induction l as [|a l IH]; intros ents e H; [now left|]. cbn [fold_left] in H.
  apply IH in H. destruct H as [H|[H1 H2]]; [|right; split; [exact H1|now right]].
  apply upsert_ext_in in H. destruct H as [H|[H1 [H2 _]]]; [now left|]. right. split; [exact H1|now left].
Qed.

Lemma a_add_in s p l ttl e : In e (a_ents (a_add s p l ttl)) ->
  In e (a_ents s) \/ (ep e = p /\ In (ea e) (clean_addrs l)).
Proof.
  unfold a_add. destruct (ttl <=? 0); [now left|]. rewrite mk_norm_ents. intros H.
  apply filter_In in H. destruct H as [H _]. now apply add_list_in in H.
Qed.

Lemma a_update_in s p old new e : In e (a_ents (a_update s p old new)) ->
  In e (a_ents s) \/ ettl e = new.
Proof.
  rewrite a_update_ents. intros H. apply filter_In in H. destruct H as [H _].
  apply in_map_iff in H. destruct H as [e0 [<- H0]]. unfold upd_fun.
  destruct (_ && _); cbn; [now right|now left].
Qed.

(* ---- counting ------------------------------------------------------------------ *)
(* one upsert changes or adds at most one entry *)
Lemma upsert_count (Q : aent -> bool) p a ttl exp l :
  (length (filter Q (upsert_ext p a ttl exp l)) <= S (length (filter Q l)))%nat.
Proof.
  induction l as [|x l IH]; cbn.
  - destruct (Q _); cbn; lia.
  - destruct (key_is p a x); cbn.
    + destruct (Q (mkE _ _ _ _)), (Q x); cbn; lia.
    + destruct (Q x); cbn; lia.
Qed.

Lemma add_list_count (Q : aent -> bool) p ttl now l : forall ents,
  (length (filter Q (add_list p ttl now l ents)) <= length (filter Q ents) + length l)%nat.
Proof.
  unfold add_list. induction l as [|a l IH]; intros ents; cbn [fold_left length]; [lia|].
  specialize (IH (upsert_ext p a ttl (now + ttl) ents)).
  pose proof (upsert_count Q p a ttl (now + ttl) ents). lia.
Qed.

Lemma clean_addrs_length l : (length (clean_addrs l) <= length l)%nat.
Proof. unfold clean_addrs. rewrite map_length. apply filter_length_le. Qed.

Lemma a_add_count (Q : aent -> bool) s p l ttl :
  (length (filter Q (a_ents (a_add s p l ttl))) <= length (filter Q (a_ents s)) + length l)%nat.
Proof.
  unfold a_add. destruct (ttl <=? 0); [lia|]. rewrite mk_norm_ents.
  pose proof (filter_filter_length_le Q (live (a_now s)) (add_list p ttl (a_now s) (clean_addrs l) (a_ents s))).
  pose proof (add_list_count Q p ttl (a_now s) (clean_addrs l) (a_ents s)).
  pose proof (clean_addrs_length l). lia.
Qed.

(* an upsert that cannot move an entry into Q *)
Lemma upsert_count_same (Q : aent -> bool) p a ttl exp l :
  Q (mkE p a ttl exp) = false ->
  (forall e0, key_is p a e0 = true ->
     Q (mkE p a (Z.max (ettl e0) ttl) (Z.max (eexp e0) exp)) = true -> Q e0 = true) ->
  (length (filter Q (upsert_ext p a ttl exp l)) <= length (filter Q l))%nat.
Proof.
  intros Hn Hk. induction l as [|x l IH]; cbn.
  - rewrite Hn. cbn. lia.
  - destruct (key_is p a x) eqn:K; cbn.
    + destruct (Q (mkE p a (Z.max (ettl x) ttl) (Z.max (eexp x) exp))) eqn:E;
        [rewrite (Hk x K E); cbn; lia|destruct (Q x); cbn; lia].
    + destruct (Q x); cbn; lia.
Qed.

Lemma add_list_count_same (Q : aent -> bool) p ttl now l :
  (forall a exp, Q (mkE p a ttl exp) = false) ->
  (forall a exp e0, key_is p a e0 = true ->
     Q (mkE p a (Z.max (ettl e0) ttl) (Z.max (eexp e0) exp)) = true -> Q e0 = true) ->
  forall ents, (length (filter Q (add_list p ttl now l ents)) <= length (filter Q ents))%nat.
Proof.
  intros Hn Hk. unfold add_list. induction l as [|a l IH]; intros ents; cbn [fold_left]; [lia|].
  specialize (IH (upsert_ext p a ttl (now + ttl) ents)).
  pose proof (upsert_count_same Q p a ttl (now + ttl) ents (Hn _ _) (Hk _ _)). lia.
Qed.

Lemma a_add_count_same (Q : aent -> bool) s p l ttl :
  (forall a exp, Q (mkE p a ttl exp) = false) ->
  (forall a exp e0, key_is p a e0 = true ->
     Q (mkE p a (Z.max (ettl e0) ttl) (Z.max (eexp e0) exp)) = true -> Q e0 = true) ->
  (length (filter Q (a_ents (a_add s p l ttl))) <= length (filter Q (a_ents s)))%nat.
Proof.
  intros Hn Hk. unfold a_add. destruct (ttl <=? 0); [lia|]. rewrite mk_norm_ents.
  pose proof (filter_filter_length_le Q (live (a_now s)) (add_list p ttl (a_now s) (clean_addrs l) (a_ents s))).
  pose proof (add_list_count_same Q p ttl (a_now s) (clean_addrs l) Hn Hk (a_ents s)). lia.
Qed.

Lemma a_update_count (Q1 Q2 : aent -> bool) s p old new :
  (forall e, Q1 (upd_fun p old new (a_now s) e) = true -> Q2 e = true) ->
  (length (filter Q1 (a_ents (a_update s p old new))) <= length (filter Q2 (a_ents s)))%nat.
Proof.
  intros H. rewrite a_update_ents.
  pose proof (filter_filter_length_le Q1 (live (a_now s)) (map (upd_fun p old new (a_now s)) (a_ents s))).
  pose proof (filter_map_length_le (upd_fun p old new (a_now s)) Q1 Q2 (a_ents s) (fun e _ => H e)). lia.
Qed.

Lemma a_advance_count (Q : aent -> bool) s d :
  (length (filter Q (a_ents (a_advance s d))) <= length (filter Q (a_ents s)))%nat.
Proof. unfold a_advance. rewrite mk_norm_ents. apply filter_filter_length_le. Qed.

(* a predicate that no entry of p satisfies counts zero *)
Lemma pall_count_zero p (q : Z -> bool) b :
  pall p (fun t => q t = false) b -> filter (fun e => (ep e =? p) && q (ettl e)) (a_ents b) = [].
Proof.
  unfold pall. generalize (a_ents b). intros l H. induction l as [|e l IH]; [reflexivity|]. cbn.
  destruct (ep e =? p) eqn:E; cbn.
  - apply Z.eqb_eq in E. rewrite (H e (or_introl eq_refl) E). apply IH. intros x Hx. apply H. now right.
  - apply IH. intros x Hx. apply H. now right.
Qed.

(* ==== AddAddrs with the per-peer cap (Model.c_add) ================================== *)
Lemma filter_imp_length {A} (f h : A -> bool) l : (forall x, f x = true -> h x = true) ->
  (length (filter f l) <= length (filter h l))%nat.
Proof.
  intros H. induction l as [|x l IH]; cbn; [lia|]. destruct (f x) eqn:F.
  - rewrite (H x F). cbn. lia.
  - destruct (h x); cbn; lia.
Qed.

Lemma remove_ent_in p a l e : In e (remove_ent p a l) -> In e l.
Proof. unfold remove_ent. intros H. apply filter_In in H. tauto. Qed.

Lemma remove_ent_other p a l q : q <> p -> pents q (remove_ent p a l) = pents q l.
Proof.
  intros Hq. unfold pents, remove_ent. induction l as [|e l IH]; [reflexivity|]. cbn.
  destruct (key_is p a e) eqn:K; cbn.
  - unfold key_is in K. apply andb_true_iff in K. destruct K as [K _]. apply Z.eqb_eq in K.
    destruct (ep e =? q) eqn:E; [apply Z.eqb_eq in E; congruence|exact IH].
  - destruct (ep e =? q); [f_equal|]; exact IH.
Qed.

Lemma remove_ent_count (Q : aent -> bool) p a l :
  (length (filter Q (remove_ent p a l)) <= length (filter Q l))%nat.
Proof. unfold remove_ent. apply filter_filter_length_le. Qed.

Lemma remove_ent_count_lt (Q : aent -> bool) v l : In v l -> Q v = true ->
  (length (filter Q (remove_ent (ep v) (ea v) l)) < length (filter Q l))%nat.
Proof.
  intros Hi Hq. induction l as [|x l IH]; [destruct Hi|]. unfold remove_ent in *. cbn [filter].
  destruct Hi as [->|Hi].
  - unfold key_is at 1. rewrite !Z.eqb_refl. cbn [andb negb]. rewrite Hq. cbn [length].
    pose proof (filter_filter_length_le Q (fun e => negb (key_is (ep v) (ea v) e)) l). lia.
  - specialize (IH Hi). destruct (key_is (ep v) (ea v) x); cbn [negb filter].
    + destruct (Q x); cbn [length]; lia.
    + destruct (Q x); cbn [length]; lia.
Qed.

Lemma min_exp_in l v : min_exp l = Some v -> In v l.
Proof.
  revert v. induction l as [|e l IH]; intros v H; [discriminate|]. cbn in H.
  destruct (min_exp l) as [m|].
  - destruct (eexp m <? eexp e); inversion H; subst; [right; now apply IH|now left].
  - inversion H. now left.
Qed.

Lemma min_exp_none l : min_exp l = None -> l = [].
Proof. destruct l as [|e l]; [reflexivity|]. cbn. destruct (min_exp l) as [m|]; [destruct (_ <? _)|]; discriminate. Qed.

(* what one capped insertion can do, in the terms the upsert lemmas use: it works
   on a sub-list of the entries *)
Lemma cadd_one_cases cap p ttl now ents a :
  cadd_one cap p ttl now ents a = ents \/
  exists ents', (forall e, In e ents' -> In e ents) /\
                (forall q, q <> p -> pents q ents' = pents q ents) /\
                (forall Q : aent -> bool, (length (filter Q ents') <= length (filter Q ents))%nat) /\
                cadd_one cap p ttl now ents a = upsert_ext p a ttl (now + ttl) ents'.
Proof.
  unfold cadd_one. destruct (must_evict cap p ttl ents a).
  - destruct (min_exp (filter (unconn_of p) ents)) as [v|]; [|now left]. right.
    exists (remove_ent p (ea v) ents). repeat split.
    + intros e. apply remove_ent_in.
    + intros q Hq. now apply remove_ent_other.
    + intros Q. apply remove_ent_count.
  - right. exists ents. repeat split; auto.
Qed.

Lemma cadd_one_other cap p ttl now ents a q : q <> p -> pents q (cadd_one cap p ttl now ents a) = pents q ents.
Proof.
  intros Hq. destruct (cadd_one_cases cap p ttl now ents a) as [->|[ents' [_ [H2 [_ ->]]]]]; [reflexivity|].
  rewrite upsert_ext_other by exact Hq. now apply H2.
Qed.

Lemma cadd_one_in cap p ttl now ents a e : In e (cadd_one cap p ttl now ents a) ->
  In e ents \/ (ep e = p /\ ea e = a /\ (ettl e = ttl \/ exists e0, In e0 ents /\ ep e0 = p /\ ettl e = Z.max (ettl e0) ttl)).
Proof.
  destruct (cadd_one_cases cap p ttl now ents a) as [->|[ents' [H1 [_ [_ ->]]]]]; [now left|].
  intros H. apply upsert_ext_in in H. destruct H as [H|[Ha [Hb [Hc|[e0 [Hd [He Hf]]]]]]].
  - left. now apply H1.
  - right. tauto.
  - right. repeat split; try assumption. right. exists e0. repeat split; try assumption. now apply H1.
Qed.

Lemma cadd_one_count (Q : aent -> bool) cap p ttl now ents a :
  (length (filter Q (cadd_one cap p ttl now ents a)) <= S (length (filter Q ents)))%nat.
Proof.
  destruct (cadd_one_cases cap p ttl now ents a) as [->|[ents' [_ [_ [H3 ->]]]]]; [lia|].
  pose proof (upsert_count Q p a ttl (now + ttl) ents'). specialize (H3 Q). lia.
Qed.

Lemma cadd_one_count_same (Q : aent -> bool) cap p ttl now ents a :
  (forall exp, Q (mkE p a ttl exp) = false) ->
  (forall exp e0, key_is p a e0 = true ->
     Q (mkE p a (Z.max (ettl e0) ttl) (Z.max (eexp e0) exp)) = true -> Q e0 = true) ->
  (length (filter Q (cadd_one cap p ttl now ents a)) <= length (filter Q ents))%nat.
Proof.
  intros Hn Hk. destruct (cadd_one_cases cap p ttl now ents a) as [->|[ents' [_ [_ [H3 ->]]]]]; [lia|].
  pose proof (upsert_count_same Q p a ttl (now + ttl) ents' (Hn _) (Hk _)). specialize (H3 Q). lia.
Qed.

Lemma cadd_list_other cap p ttl now l q : q <> p -> forall ents,
  pents q (cadd_list cap p ttl now l ents) = pents q ents.
Proof.
  intros Hq. unfold cadd_list. induction l as [|a l IH]; intros ents; [reflexivity|]. cbn [fold_left].
  rewrite IH. now apply cadd_one_other.
Qed.

Lemma cadd_list_pall cap p q ttl now (P : Z -> Prop) l :
  (forall t, P t -> P (Z.max t ttl)) -> P ttl -> forall ents,
  (forall e, In e ents -> ep e = p -> P (ettl e)) ->
  forall e, In e (cadd_list cap q ttl now l ents) -> ep e = p -> P (ettl e).
Proof.
  intros Hm Ht. unfold cadd_list. induction l as [|a l IH]; intros ents H; [exact H|]. cbn [fold_left].
  apply IH. intros e He Hp. apply cadd_one_in in He. destruct He as [He|[Hq [_ [He|[e0 [Ha [Hb Hc]]]]]]].
  - now apply H.
  - now rewrite He.
  - rewrite Hc. apply Hm. apply H; [exact Ha|]. congruence.
Qed.

Lemma cadd_list_in cap p ttl now l : forall ents e, In e (cadd_list cap p ttl now l ents) ->
  In e ents \/ (ep e = p /\ In (ea e) l).
Proof.
  unfold cadd_list. induction l as [|a l IH]; intros ents e H; [now left|]. cbn [fold_left] in H.
  apply IH in H. destruct H as [H|[H1 H2]]; [|right; split; [exact H1|now right]].
  apply cadd_one_in in H. destruct H as [H|[H1 [H2 _]]]; [now left|]. right. split; [exact H1|now left].
Qed.

Lemma cadd_list_count (Q : aent -> bool) cap p ttl now l : forall ents,
  (length (filter Q (cadd_list cap p ttl now l ents)) <= length (filter Q ents) + length l)%nat.
Proof.
  unfold cadd_list. induction l as [|a l IH]; intros ents; cbn [fold_left length]; [lia|].
  specialize (IH (cadd_one cap p ttl now ents a)). pose proof (cadd_one_count Q cap p ttl now ents a). lia.
Qed.

Lemma cadd_list_count_same (Q : aent -> bool) cap p ttl now l :
  (forall a exp, Q (mkE p a ttl exp) = false) ->
  (forall a exp e0, key_is p a e0 = true ->
     Q (mkE p a (Z.max (ettl e0) ttl) (Z.max (eexp e0) exp)) = true -> Q e0 = true) ->
  forall ents, (length (filter Q (cadd_list cap p ttl now l ents)) <= length (filter Q ents))%nat.
Proof.
  intros Hn Hk. unfold cadd_list. induction l as [|a l IH]; intros ents; cbn [fold_left]; [lia|].
  specialize (IH (cadd_one cap p ttl now ents a)).
  pose proof (cadd_one_count_same Q cap p ttl now ents a (Hn a) (Hk a)). lia.
Qed.

Lemma c_add_ents cap s p l ttl : (ttl <=? 0) = false ->
  a_ents (c_add cap s p l ttl) = filter (live (a_now s)) (cadd_list cap p ttl (a_now s) (clean_addrs l) (a_ents s)).
Proof. intros H. unfold c_add. rewrite H. reflexivity. Qed.

Lemma c_add_ok cap s p l ttl : book_ok s -> book_ok (c_add cap s p l ttl).
Proof.
  intros [H1 H2]. unfold c_add. destruct (ttl <=? 0); [now split|]. rewrite H2. apply mk_norm_ok.
Qed.

Lemma c_add_other cap s p l ttl q : q <> p -> all_live s ->
  pents q (a_ents (c_add cap s p l ttl)) = pents q (a_ents s).
Proof.
  intros Hq Hl. destruct (ttl <=? 0) eqn:T; [unfold c_add; now rewrite T|].
  rewrite c_add_ents, pents_live_comm, cadd_list_other by assumption. now apply pents_live_id.
Qed.

Lemma cadd_preserve cap s p q l ttl (P : Z -> Prop) :
  (forall t, P t -> P (Z.max t ttl)) -> P ttl -> pall p P s -> pall p P (c_add cap s q l ttl).
Proof.
  intros Hm Ht H. destruct (ttl <=? 0) eqn:T; [unfold c_add; now rewrite T|]. intros e He Hp.
  rewrite c_add_ents in He by exact T. apply filter_In in He. destruct He as [He _].
  revert e He Hp. apply cadd_list_pall; assumption.
Qed.

Lemma c_add_in cap s p l ttl e : In e (a_ents (c_add cap s p l ttl)) ->
  In e (a_ents s) \/ (ep e = p /\ In (ea e) (clean_addrs l)).
Proof.
  destruct (ttl <=? 0) eqn:T; [unfold c_add; rewrite T; now left|]. rewrite c_add_ents by exact T. intros H.
  apply filter_In in H. destruct H as [H _]. now apply cadd_list_in in H.
Qed.

Lemma c_add_count (Q : aent -> bool) cap s p l ttl :
  (length (filter Q (a_ents (c_add cap s p l ttl))) <= length (filter Q (a_ents s)) + length l)%nat.
Proof.
  destruct (ttl <=? 0) eqn:T; [unfold c_add; rewrite T; lia|]. rewrite c_add_ents by exact T.
  pose proof (filter_filter_length_le Q (live (a_now s)) (cadd_list cap p ttl (a_now s) (clean_addrs l) (a_ents s))).
  pose proof (cadd_list_count Q cap p ttl (a_now s) (clean_addrs l) (a_ents s)).
  pose proof (clean_addrs_length l). lia.
Qed.

Lemma c_add_count_same (Q : aent -> bool) cap s p l ttl :
  (forall a exp, Q (mkE p a ttl exp) = false) ->
  (forall a exp e0, key_is p a e0 = true ->
     Q (mkE p a (Z.max (ettl e0) ttl) (Z.max (eexp e0) exp)) = true -> Q e0 = true) ->
  (length (filter Q (a_ents (c_add cap s p l ttl))) <= length (filter Q (a_ents s)))%nat.
Proof.
  intros Hn Hk. destruct (ttl <=? 0) eqn:T; [unfold c_add; rewrite T; lia|]. rewrite c_add_ents by exact T.
  pose proof (filter_filter_length_le Q (live (a_now s)) (cadd_list cap p ttl (a_now s) (clean_addrs l) (a_ents s))).
  pose proof (cadd_list_count_same Q cap p ttl (a_now s) (clean_addrs l) Hn Hk (a_ents s)). lia.
Qed.

(* ---- the cap itself ------------------------------------------------------------------ *)
(* extending a known address never moves it below the connected class *)
Lemma upsert_found_count (Q : aent -> bool) p a ttl exp l : find_ent p a l <> None ->
  (forall e0, key_is p a e0 = true ->
     Q (mkE p a (Z.max (ettl e0) ttl) (Z.max (eexp e0) exp)) = true -> Q e0 = true) ->
  (length (filter Q (upsert_ext p a ttl exp l)) <= length (filter Q l))%nat.
Proof.
  intros Hf Hk. unfold find_ent in Hf. induction l as [|x l IH]; [cbn in Hf; congruence|]. cbn in *.
  destruct (key_is p a x) eqn:K; cbn.
  - destruct (Q (mkE p a (Z.max (ettl x) ttl) (Z.max (eexp x) exp))) eqn:E;
      [rewrite (Hk x K E); cbn; lia|destruct (Q x); cbn; lia].
  - specialize (IH Hf). destruct (Q x); cbn; lia.
Qed.

Definition ucount (p : Z) (l : list aent) : Z := Z.of_nat (length (filter (unconn_of p) l)).

Lemma unconn_max p a t ttl x : unconn_of p (mkE p a (Z.max t ttl) x) = true -> is_unconn t = true.
Proof.
  unfold unconn_of, is_unconn. cbn. rewrite Z.eqb_refl. cbn. intros H. apply Z.ltb_lt in H. apply Z.ltb_lt. lia.
Qed.

Lemma cadd_one_ucount cap p ttl now ents a : 0 < cap ->
  ucount p (cadd_one cap p ttl now ents a) <= Z.max cap (ucount p ents).
Proof.
  intros Hc. unfold cadd_one, must_evict, ucount.
  assert (Hk : forall exp e0, key_is p a e0 = true ->
            unconn_of p (mkE p a (Z.max (ettl e0) ttl) (Z.max (eexp e0) exp)) = true -> unconn_of p e0 = true).
  { intros exp e0 K H. apply unconn_max in H. unfold unconn_of. unfold key_is in K. apply andb_true_iff in K.
    destruct K as [K _]. now rewrite K, H. }
  destruct (find_ent p a ents) eqn:F.
  - pose proof (upsert_found_count (unconn_of p) p a ttl (now + ttl) ents) as H. rewrite F in H.
    specialize (H ltac:(discriminate) (Hk _)). lia.
  - replace (0 <? cap) with true by (symmetry; now apply Z.ltb_lt). cbn [andb].
    destruct (is_unconn ttl) eqn:Ut; cbn [andb].
    + destruct (cap <=? Z.of_nat (length (filter (unconn_of p) ents))) eqn:Full.
      * apply Z.leb_le in Full. destruct (min_exp (filter (unconn_of p) ents)) as [v|] eqn:M; [|lia].
        apply min_exp_in in M. apply filter_In in M. destruct M as [Mi Mq].
        assert (Ev : ep v = p). { unfold unconn_of in Mq. apply andb_true_iff in Mq. destruct Mq as [Mq _]. now apply Z.eqb_eq. }
        pose proof (remove_ent_count_lt (unconn_of p) v ents Mi Mq) as Hlt. rewrite Ev in Hlt.
        pose proof (upsert_count (unconn_of p) p a ttl (now + ttl) (remove_ent p (ea v) ents)). lia.
      * apply Z.leb_gt in Full. pose proof (upsert_count (unconn_of p) p a ttl (now + ttl) ents). lia.
    + pose proof (upsert_count_same (unconn_of p) p a ttl (now + ttl) ents) as H.
      assert (unconn_of p (mkE p a ttl (now + ttl)) = false) as Hn by (unfold unconn_of; cbn; now rewrite Ut, andb_false_r).
      specialize (H Hn (Hk _)). lia.
Qed.

Lemma cadd_list_ucount cap p ttl now l : 0 < cap -> forall ents,
  ucount p (cadd_list cap p ttl now l ents) <= Z.max cap (ucount p ents).
Proof.
  intros Hc. unfold cadd_list. induction l as [|a l IH]; intros ents; cbn [fold_left]; [lia|].
  specialize (IH (cadd_one cap p ttl now ents a)). pose proof (cadd_one_ucount cap p ttl now ents a Hc). lia.
Qed.

Lemma c_add_ucount cap s p l ttl : 0 < cap ->
  ucount p (a_ents (c_add cap s p l ttl)) <= Z.max cap (ucount p (a_ents s)).
Proof.
  intros Hc. destruct (ttl <=? 0) eqn:T; [unfold c_add; rewrite T; lia|]. rewrite c_add_ents by exact T.
  pose proof (cadd_list_ucount cap p ttl (a_now s) (clean_addrs l) Hc (a_ents s)). unfold ucount in *.
  pose proof (filter_filter_length_le (unconn_of p) (live (a_now s)) (cadd_list cap p ttl (a_now s) (clean_addrs l) (a_ents s))).
  lia.
Qed.

(* ==== the book-wide limit on unconnected addresses (Model.g_update, gc_add) =============== *)
Lemma gupd_in maxu p old new now l : forall u e,
  In e (gupd_list maxu p old new now u l) -> In e (map (upd_fun p old new now) l).
Proof.
  induction l as [|x l IH]; intros u e H; [destruct H|]. cbn [gupd_list] in H. cbn [map]. unfold upd_fun at 1.
  destruct ((ep x =? p) && (ettl x =? old)).
  - destruct (maxu <=? u); [right; now apply (IH u)|]. destruct H as [<-|H]; [now left|right; now apply (IH (u + 1))].
  - destruct H as [<-|H]; [now left|right; now apply (IH u)].
Qed.

Lemma gupd_other maxu p old new now l q : q <> p -> forall u,
  pents q (gupd_list maxu p old new now u l) = pents q l.
Proof.
  intros Hq. induction l as [|x l IH]; intros u; [reflexivity|]. cbn [gupd_list].
  destruct ((ep x =? p) && (ettl x =? old)) eqn:C.
  - apply andb_true_iff in C. destruct C as [C _]. apply Z.eqb_eq in C.
    assert (Ex : (ep x =? q) = false) by (apply Z.eqb_neq; congruence).
    destruct (maxu <=? u); cbn; rewrite Ex; apply IH.
  - cbn. destruct (ep x =? q); [f_equal|]; apply IH.
Qed.

Lemma gupd_count maxu p old new now (Q1 Q2 : aent -> bool) l :
  (forall e, Q1 (upd_fun p old new now e) = true -> Q2 e = true) -> forall u,
  (length (filter Q1 (gupd_list maxu p old new now u l)) <= length (filter Q2 l))%nat.
Proof.
  intros H. induction l as [|x l IH]; intros u; [cbn; lia|]. cbn [gupd_list]. specialize (H x). unfold upd_fun in H.
  destruct ((ep x =? p) && (ettl x =? old)).
  - destruct (maxu <=? u).
    + specialize (IH u). cbn [filter]. destruct (Q2 x); cbn [length]; lia.
    + specialize (IH (u + 1)). cbn [filter]. destruct (Q1 _) eqn:E; [rewrite (H eq_refl)|destruct (Q2 x)]; cbn [length]; lia.
  - specialize (IH u). cbn [filter]. destruct (Q1 x) eqn:E; [rewrite (H eq_refl)|destruct (Q2 x)]; cbn [length]; lia.
Qed.

Lemma g_update_src maxu s p old new e : In e (a_ents (g_update maxu s p old new)) ->
  exists e0, In e0 (a_ents s) /\ e = upd_fun p old new (a_now s) e0.
Proof.
  unfold g_update. destruct (_ && _).
  - rewrite mk_norm_ents. intros H. apply filter_In in H. destruct H as [H _]. apply gupd_in in H.
    apply in_map_iff in H. destruct H as [e0 [<- H0]]. now exists e0.
  - rewrite a_update_ents. intros H. apply filter_In in H. destruct H as [H _].
    apply in_map_iff in H. destruct H as [e0 [<- H0]]. now exists e0.
Qed.

Lemma g_update_ok maxu s p o n : book_ok s -> book_ok (g_update maxu s p o n).
Proof.
  intros H. unfold g_update. destruct (_ && _); [|now apply a_update_ok]. destruct H as [_ H2]. rewrite H2. apply mk_norm_ok.
Qed.

Lemma g_update_other maxu s p old new q : q <> p -> all_live s ->
  pents q (a_ents (g_update maxu s p old new)) = pents q (a_ents s).
Proof.
  intros Hq Hl. unfold g_update. destruct (_ && _); [|now apply a_update_other].
  rewrite mk_norm_ents, pents_live_comm, gupd_other by exact Hq. now apply pents_live_id.
Qed.

Lemma gupd_establish maxu s p old new : old <> new -> pall p (fun t => t <> old) (g_update maxu s p old new).
Proof.
  intros Hne e He Hp. apply g_update_src in He. destruct He as [e0 [H0 ->]]. unfold upd_fun in *.
  destruct ((ep e0 =? p) && (ettl e0 =? old)) eqn:C; cbn in *; [congruence|].
  apply andb_false_iff in C. destruct C as [C|C]; apply Z.eqb_neq in C; congruence.
Qed.

Lemma gupd_preserve maxu s p q old new (P : Z -> Prop) : P new -> pall p P s -> pall p P (g_update maxu s q old new).
Proof.
  intros Hn H e He Hp. apply g_update_src in He. destruct He as [e0 [H0 ->]]. unfold upd_fun in *.
  destruct ((ep e0 =? q) && (ettl e0 =? old)); cbn in *; [exact Hn|now apply H].
Qed.

Lemma g_update_in maxu s p old new e : In e (a_ents (g_update maxu s p old new)) ->
  In e (a_ents s) \/ ettl e = new.
Proof.
  intros H. apply g_update_src in H. destruct H as [e0 [H0 ->]]. unfold upd_fun.
  destruct (_ && _); cbn; [now right|now left].
Qed.

Lemma g_update_count maxu (Q1 Q2 : aent -> bool) s p old new :
  (forall e, Q1 (upd_fun p old new (a_now s) e) = true -> Q2 e = true) ->
  (length (filter Q1 (a_ents (g_update maxu s p old new))) <= length (filter Q2 (a_ents s)))%nat.
Proof.
  intros H. unfold g_update. destruct (_ && _); [|now apply a_update_count]. rewrite mk_norm_ents.
  pose proof (filter_filter_length_le Q1 (live (a_now s))
                (gupd_list maxu p old new (a_now s) (uall (a_ents s)) (a_ents s))).
  pose proof (gupd_count maxu p old new (a_now s) Q1 Q2 (a_ents s) H (uall (a_ents s))). lia.
Qed.

(* AddAddrs dropped as a whole at the limit: every statement about c_add carries over *)
Lemma gc_add_cases cap maxu s p l ttl : gc_add cap maxu s p l ttl = s \/ gc_add cap maxu s p l ttl = c_add cap s p l ttl.
Proof. unfold gc_add. destruct (_ && _); [now left|now right]. Qed.

Lemma gc_add_ok cap maxu s p l ttl : book_ok s -> book_ok (gc_add cap maxu s p l ttl).
Proof. intros H. destruct (gc_add_cases cap maxu s p l ttl) as [-> | ->]; [exact H|now apply c_add_ok]. Qed.

Lemma gc_add_other cap maxu s p l ttl q : q <> p -> all_live s ->
  pents q (a_ents (gc_add cap maxu s p l ttl)) = pents q (a_ents s).
Proof. intros Hq Hl. destruct (gc_add_cases cap maxu s p l ttl) as [-> | ->]; [reflexivity|now apply c_add_other]. Qed.

Lemma gcadd_preserve cap maxu s p q l ttl (P : Z -> Prop) :
  (forall t, P t -> P (Z.max t ttl)) -> P ttl -> pall p P s -> pall p P (gc_add cap maxu s q l ttl).
Proof. intros Hm Ht H. destruct (gc_add_cases cap maxu s q l ttl) as [-> | ->]; [exact H|now apply cadd_preserve]. Qed.

Lemma gc_add_in cap maxu s p l ttl e : In e (a_ents (gc_add cap maxu s p l ttl)) ->
  In e (a_ents s) \/ (ep e = p /\ In (ea e) (clean_addrs l)).
Proof. destruct (gc_add_cases cap maxu s p l ttl) as [-> | ->]; [now left|apply c_add_in]. Qed.

Lemma gc_add_count (Q : aent -> bool) cap maxu s p l ttl :
  (length (filter Q (a_ents (gc_add cap maxu s p l ttl))) <= length (filter Q (a_ents s)) + length l)%nat.
Proof. destruct (gc_add_cases cap maxu s p l ttl) as [-> | ->]; [lia|apply c_add_count]. Qed.

Lemma gc_add_count_same (Q : aent -> bool) cap maxu s p l ttl :
  (forall a exp, Q (mkE p a ttl exp) = false) ->
  (forall a exp e0, key_is p a e0 = true ->
     Q (mkE p a (Z.max (ettl e0) ttl) (Z.max (eexp e0) exp)) = true -> Q e0 = true) ->
  (length (filter Q (a_ents (gc_add cap maxu s p l ttl))) <= length (filter Q (a_ents s)))%nat.
Proof. intros Hn Hk. destruct (gc_add_cases cap maxu s p l ttl) as [-> | ->]; [lia|now apply c_add_count_same]. Qed.

Lemma gc_add_ucount cap maxu s p l ttl : 0 < cap ->
  ucount p (a_ents (gc_add cap maxu s p l ttl)) <= Z.max cap (ucount p (a_ents s)).
Proof. intros Hc. destruct (gc_add_cases cap maxu s p l ttl) as [-> | ->]; [lia|now apply c_add_ucount]. Qed.

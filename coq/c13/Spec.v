(* C13 — the property as decidable predicates over observed traces (monitor),
   the instantiation of the model's external functions, and the decoding of
   correspondence lines.  No proofs here.

   WIRE FORMAT (one case per line, integers):
     case   := 13 NP kind_1..kind_NP MAXPROTOS PCAP MAXU TIMEOUT NC conn*NC NI init*NI step*
       MAXU   : the address book's limit on unconnected addresses over all peers (WithMaxAddresses)
       TIMEOUT: the identify timeout in ns (WithTimeout); 0 = every exchange fails at once
       PCAP   : the address book's per-peer cap on unconnected addresses (0 = disabled)
       kind_p : 1 = the peer's ID embeds its key (Ed25519), 0 = hashed (RSA)
       conn   := peer rcls rid limited
       init   := peer addr ttlcode        addresses put into the book before the service starts
     step   := 1 c | 2 c | 3 c | 5 c      NetAdd, NetRemove, Connected, IdentifyWait   then OBS
             | 4 c n addr*n               Disconnected; the order Addrs(p) came back in       then OBS
             | 6 ch c out [n chunk*n]     Finish; out 0 = NewStream error, 1 = read error, 2 = answer  then OBS
             | 7 c n chunk*n              Push                                               then OBS
             | 8 d                        Timeout (d ns elapse, d >= TIMEOUT)                then OBS
     addr   := id cls sfx                 see Model.waddr
     chunk  := big np proto*np nl addr*nl pv av kk key rk [env]
       kk : 0 absent, 1 garbage, 2 key number [key] (key k belongs to peer k)
       rk : 0 absent, 1 garbage, 2 envelope
     env    := pub ptype rpeer rseq na addr*na sk sigkey sdom stype tamper
       sk : 0 = garbage signature, 1 = signature by key sigkey over (sdom, stype, payload),
            the payload being this record (tamper = 0) or a different one (tamper = 1)
     OBS    := ret nc call*nc ne (kind peer)*ne nch closed*nch dump_1..dump_NP
     call   := 1 p n proto*n | 2 p oldcode newcode | 3 p ttlcode n addr*n | 4 p key val | 5 p | 6 p k | 9 p
     dump_p := na (addr ttlcode)*na np proto*np key pv av rec
     ttlcode: 0 = 0, 1 Temp, 2 RecentlyConnected, 3 Connected, 4 Permanent, 5 AddressTTL (1h)        *)
From Coq Require Import List ZArith NArith Bool.
From Verif Require Import lib.Wire c09.Abs c08.SymCrypto gen.Consts_c13 c13.Model.
Import ListNotations.
Local Open Scope Z_scope.

(* ---- instantiation of the external functions --------------------------------- *)
Definition sym_v (k : N) (m s : term) : bool := sym_verify (TPub k) m s.
Definition sym_o (s : term) : option (N * term) :=
  match s with TSig k m _ => Some (k, m) | _ => None end.
Definition id_of_n (k : N) : Z := Z.of_N k.
Definition inline_of (inl : list Z) (p : Z) : option N :=
  if (0 <? p) && zin p inl then Some (Z.to_N p) else None.

Record cfg := mkCfg {
  g_np : Z; g_inline : list Z; g_maxprotos : Z; g_pcap : Z; g_maxu : Z; g_timeout : Z;
  g_conns : list (Z * conn); g_init : list (Z * Z * Z) }.

Definition ttl_of_code (c : Z) : Z :=
  if c =? 0 then 0 else if c =? 1 then TempAddrTTL else if c =? 2 then RecentlyConnectedAddrTTL
  else if c =? 3 then ConnectedAddrTTL else if c =? 4 then PermanentAddrTTL
  else if c =? 5 then AddressTTL else -1.

Definition init_ps (g : cfg) : pstore :=
  mkPS (fold_left (fun b x => let '(p, a, t) := x in a_add b p [(a, 0)] t) (g_init g) a_init)
       [] [] [] (g_maxprotos g) (g_pcap g) (g_maxu g).
Definition init_sys (g : cfg) : sys := mkSys (init_ps g) [] [] [] [] [] [] 1.

Definition gstep (g : cfg) := step sym_v id_of_n (inline_of (g_inline g)) (g_conns g) (g_timeout g).

(* ---- what is observed of the peerstore --------------------------------------- *)
Record pdump := mkPD { d_addrs : list (Z * Z); d_protos : list Z; d_key : Z; d_pv : Z; d_av : Z; d_rec : Z }.

Definition dump_peer (s : pstore) (p : Z) : pdump :=
  mkPD (map (fun e => (ea e, ettl e)) (filter (fun e => ep e =? p) (a_ents (ps_book s))))
       (match alist_get p (ps_protos s) with Some l => l | None => [] end)
       (match alist_get p (ps_keys s) with Some k => Z.of_N k | None => 0 end)
       (meta_get p 1 (ps_meta s)) (meta_get p 2 (ps_meta s))
       (a_getrec (ps_book s) p).

Fixpoint zrange (a : Z) (n : nat) : list Z :=
  match n with O => [] | S k => a :: zrange (a + 1) k end.
Definition peers_of (np : Z) : list Z := zrange 1 (Z.to_nat np).
Definition dump_all (np : Z) (s : pstore) : list pdump := map (dump_peer s) (peers_of np).

Record wobs := mkWO { wo_ret : Z; wo_calls : list psop; wo_events : list event;
                      wo_chans : list bool; wo_dump : list pdump }.

(* ---- comparisons ---------------------------------------------------------------- *)
Definition zz_eqb (a b : Z * Z) : bool := (fst a =? fst b) && (snd a =? snd b).
Definition sub_by {A} (eqb : A -> A -> bool) (l1 l2 : list A) : bool :=
  forallb (fun x => existsb (eqb x) l2) l1.
Definition seteq_by {A} (eqb : A -> A -> bool) (l1 l2 : list A) : bool :=
  sub_by eqb l1 l2 && sub_by eqb l2 l1.

(* address maps are compared as maps (same size, same bindings); protocol
   lists as sets (the book stores a set) *)
Definition pdump_eqb (a b : pdump) : bool :=
  Nat.eqb (length (d_addrs a)) (length (d_addrs b)) && seteq_by zz_eqb (d_addrs a) (d_addrs b)
  && seteq_by Z.eqb (d_protos a) (d_protos b)
  && (d_key a =? d_key b) && (d_pv a =? d_pv b) && (d_av a =? d_av b) && (d_rec a =? d_rec b).

Definition waddr_eqb (a b : waddr) : bool :=
  (w_id a =? w_id b) && (w_sfx a =? w_sfx b).

Definition psop_eqb (a b : psop) : bool :=
  match a, b with
  | PSetProtocols p l, PSetProtocols q m => (p =? q) && zlist_eqb l m
  | PUpdateAddrs p o n, PUpdateAddrs q o' n' => (p =? q) && (o =? o') && (n =? n')
  | PAddAddrs p l t, PAddAddrs q m t' => (p =? q) && list_eqb waddr_eqb l m && (t =? t')
  | PPut p k v, PPut q k' v' => (p =? q) && (k =? k') && (v =? v')
  | PPubKey p, PPubKey q => p =? q
  | PAddPubKey p k, PAddPubKey q k' => (p =? q) && (Z.of_N k =? Z.of_N k')
  | _, _ => false
  end.

Definition count_ev (e : event) (l : list event) : nat := length (filter (zz_eqb e) l).
Definition events_eqb (a b : list event) : bool :=
  Nat.eqb (length a) (length b) && forallb (fun e => Nat.eqb (count_ev e a) (count_ev e b)) a.

(* closed flags in channel-id order against the model's channel table *)
Fixpoint chans_match (i : Z) (flags : list bool) (tbl : list (Z * bool)) : bool :=
  match flags with
  | [] => true
  | f :: r => match alist_get i tbl with
              | Some b => Bool.eqb f b && chans_match (i + 1) r tbl
              | None => false
              end
  end.
Definition chans_eqb (flags : list bool) (tbl : list (Z * bool)) : bool :=
  Nat.eqb (length flags) (length tbl) && chans_match 1 flags tbl.

(* ---- parser combinators over a line ------------------------------------------- *)
Definition P (A : Type) := list Z -> option (A * list Z).
Definition pint : P Z := fun l => match l with x :: r => Some (x, r) | [] => None end.
Definition pret {A} (a : A) : P A := fun l => Some (a, l).
Definition pbind {A B} (p : P A) (f : A -> P B) : P B :=
  fun l => match p l with Some (a, r) => f a r | None => None end.
Notation "x <- p ;; q" := (pbind p (fun x => q)) (at level 61, p at next level, right associativity).
Fixpoint prep {A} (p : P A) (n : nat) : P (list A) :=
  match n with
  | O => pret []
  | S k => x <- p ;; xs <- prep p k ;; pret (x :: xs)
  end.
(* a count followed by that many items; the count is bounded by what is left *)
Definition pcount {A} (p : P A) : P (list A) :=
  fun l => match l with
           | n :: r => if (n <? 0) || (Z.of_nat (length r) <? n) then None else prep p (Z.to_nat n) r
           | [] => None
           end.

Definition paddr : P waddr := i <- pint ;; c <- pint ;; s <- pint ;; pret (mkW i c s).

Definition bump_seq (r : prec) : prec := mkPR (pr_peer r) (pr_seq r + 1) (pr_addrs r).

Definition penv : P envelope :=
  pub <- pint ;; pt <- pint ;; rp <- pint ;; rs <- pint ;; addrs <- pcount paddr ;;
  sk <- pint ;; sigk <- pint ;; sdom <- pint ;; stype <- pint ;; tamper <- pint ;;
  let r := mkPR rp rs addrs in
  let sg := if sk =? 0 then TGarbage 0
            else TSig (Z.to_N sigk) (signed_msg sdom stype (if tamper =? 0 then r else bump_seq r)) 0 in
  pret (mkEnv (Z.to_N pub) pt r sg).

Definition pkey : P keyfield :=
  kk <- pint ;; k <- pint ;;
  pret (if kk =? 0 then KAbsent else if kk =? 1 then KGarbage else KKey (Z.to_N k)).

Definition prec_field : P recfield :=
  rk <- pint ;;
  if rk =? 0 then pret RAbsent else if rk =? 1 then pret RGarbage
  else e <- penv ;; pret (REnv e).

Definition pchunk : P chunk :=
  big <- pint ;; protos <- pcount pint ;; listen <- pcount paddr ;; pv <- pint ;; av <- pint ;;
  k <- pkey ;; r <- prec_field ;;
  pret (mkChunk (zbool big) (mkMsg protos listen pv av k r)).

Definition pcall : P psop :=
  code <- pint ;; p <- pint ;;
  if code =? 1 then l <- pcount pint ;; pret (PSetProtocols p l)
  else if code =? 2 then o <- pint ;; n <- pint ;; pret (PUpdateAddrs p (ttl_of_code o) (ttl_of_code n))
  else if code =? 3 then t <- pint ;; l <- pcount paddr ;; pret (PAddAddrs p l (ttl_of_code t))
  else if code =? 4 then k <- pint ;; v <- pint ;; pret (PPut p k v)
  else if code =? 5 then pret (PPubKey p)
  else if code =? 6 then k <- pint ;; pret (PAddPubKey p (Z.to_N k))
  else (* 9: a mutator identify is not expected to call; shown as a write to an impossible key *)
       pret (PPut p (-1) code).

Definition pdumpaddr : P (Z * Z) := a <- pint ;; t <- pint ;; pret (a, ttl_of_code t).
Definition ppdump : P pdump :=
  addrs <- pcount pdumpaddr ;; protos <- pcount pint ;; k <- pint ;; pv <- pint ;; av <- pint ;; r <- pint ;;
  pret (mkPD addrs protos k pv av r).

Definition pevent : P event := k <- pint ;; p <- pint ;; pret (k, p).

Definition pobs (np : Z) : P wobs :=
  ret <- pint ;; calls <- pcount pcall ;; evs <- pcount pevent ;; ch <- pcount pint ;;
  d <- prep ppdump (Z.to_nat np) ;;
  pret (mkWO ret calls evs (map zbool ch) d).

Definition pop : P op :=
  code <- pint ;;
  if code =? 1 then c <- pint ;; pret (ONetAdd c)
  else if code =? 2 then c <- pint ;; pret (ONetRemove c)
  else if code =? 3 then c <- pint ;; pret (OConnected c)
  else if code =? 4 then c <- pint ;; l <- pcount paddr ;; pret (ODisconnected c l)
  else if code =? 5 then c <- pint ;; pret (OWait c)
  else if code =? 6 then
    ch <- pint ;; c <- pint ;; out <- pint ;;
    if out =? 0 then pret (OFinish ch c FErrStream)
    else if out =? 1 then pret (OFinish ch c FErrRead)
    else cs <- pcount pchunk ;; pret (OFinish ch c (FResp cs))
  else if code =? 7 then c <- pint ;; cs <- pcount pchunk ;; pret (OPush c cs)
  else if code =? 8 then d <- pint ;; pret (OTimeout d)
  else fun _ => None.

Fixpoint psteps (np : Z) (fuel : nat) (l : list Z) : option (list (op * wobs)) :=
  match fuel with
  | O => None
  | S f =>
      match l with
      | [] => Some []
      | _ => match (o <- pop ;; x <- pobs np ;; pret (o, x)) l with
             | Some (s, r) => match psteps np f r with Some t => Some (s :: t) | None => None end
             | None => None
             end
      end
  end.


Fixpoint number {A} (i : Z) (l : list A) : list (Z * A) :=
  match l with [] => [] | x :: r => (i, x) :: number (i + 1) r end.

Definition pcfg (v : Z) : P cfg :=
  ver <- pint ;;
  if negb (ver =? v) then (fun _ => None) else
  np <- pint ;;
  if (np <? 1) || (64 <? np) then (fun _ => None) else
  kinds <- prep pint (Z.to_nat np) ;;
  maxp <- pint ;; pcap <- pint ;; maxu <- pint ;; tmo <- pint ;;
  conns <- pcount (p <- pint ;; rc <- pint ;; ri <- pint ;; lim <- pint ;; pret (mkConn p rc ri (zbool lim))) ;;
  init <- pcount (p <- pint ;; a <- pint ;; t <- pint ;; pret (p, a, ttl_of_code t)) ;;
  pret (mkCfg np (map fst (filter (fun x => zbool (snd x)) (number 1 kinds))) maxp pcap maxu tmo (number 1 conns) init).

Definition decode (l : list Z) : option (cfg * list (op * wobs)) :=
  match pcfg 13 l with
  | Some (g, r) => match psteps (g_np g) (S (length r)) r with Some t => Some (g, t) | None => None end
  | None => None
  end.

(* ---- conformance: replay on the model, compare every observation ----------------- *)
(* is [order] a possible answer of Addrs(p) as Disconnected sees it: a
   permutation of the book's addresses of the peer with, when there are more
   than recentlyConnectedPeerMaxAddrs, the connection's own address among the
   first recentlyConnectedPeerMaxAddrs *)
Definition order_ok (g : cfg) (s : sys) (c : Z) (order : list waddr) : bool :=
  match conn_of (g_conns g) c with
  | None => true
  | Some cn =>
      if connected (g_conns g) (s_net s) (c_peer cn) then true
      else
        let have := a_addrs (ps_book (s_ps s)) (c_peer cn) in
        let ids := map w_id order in
        Nat.eqb (length ids) (length have) && seteq_by Z.eqb ids have
        && (negb (recentlyConnectedPeerMaxAddrs <? zlen have) || negb (zin (c_rid cn) have)
            || zin (c_rid cn) (firstn (Z.to_nat recentlyConnectedPeerMaxAddrs) ids))
  end.

Fixpoint first_diff (i : Z) (a b : list pdump) : Z :=
  match a, b with
  | x :: r, y :: t => if pdump_eqb x y then first_diff (i + 1) r t else i
  | [], [] => 0
  | _, _ => -1
  end.

(* The model's book carries the per-peer cap, but which of several entries
   with the same expiry is evicted depends on the implementation's map iteration
   order.  Once a step evicted, the history has left the domain in which model
   and implementation must agree observation by observation and the comparison
   stops; the monitor still judges every step of such a case. *)
Definition op_evicts (s : pstore) (o : psop) : bool :=
  match o with
  | PAddAddrs p l ttl =>
      if ttl <=? 0 then false
      else if is_unconn ttl && (ps_maxu s <=? uall (a_ents (ps_book s))) then false
      else snd (fold_left (fun (st : list aent * bool) a =>
                             (cadd_one (ps_pcap s) p ttl (a_now (ps_book s)) (fst st) a,
                              snd st || must_evict (ps_pcap s) p ttl (fst st) a))
                          (clean_addrs (map (to_raw p) (filter has_transport l)))
                          (a_ents (ps_book s), false))
  | _ => false
  end.

Fixpoint calls_evict (g : cfg) (s : pstore) (l : list psop) : bool :=
  match l with
  | [] => false
  | o :: r => op_evicts s o || calls_evict g (apply_op id_of_n (inline_of (g_inline g)) s o) r
  end.

Fixpoint conform_run (g : cfg) (s : sys) (i : Z) (tr : list (op * wobs)) : list Z :=
  match tr with
  | [] => []
  | (o, x) :: r =>
      let okord := match o with ODisconnected c ord => order_ok g s c ord | _ => true end in
      let '(s', mo) := gstep g s o in
      if calls_evict g (s_ps s) (o_calls mo) then []
      else if negb okord then [ERR_MISMATCH; i; 1]
      else if negb (list_eqb psop_eqb (o_calls mo) (wo_calls x))
           then [ERR_MISMATCH; i; 2; zlen (o_calls mo); zlen (wo_calls x)]
      else if negb (events_eqb (o_events mo) (wo_events x))
           then [ERR_MISMATCH; i; 3; zlen (o_events mo); zlen (wo_events x)]
      else if negb (o_ret mo =? wo_ret x) then [ERR_MISMATCH; i; 4; o_ret mo; wo_ret x]
      else if negb (chans_eqb (wo_chans x) (s_chans s')) then [ERR_MISMATCH; i; 5; zlen (s_chans s'); zlen (wo_chans x)]
      else let d := first_diff 1 (dump_all (g_np g) (s_ps s')) (wo_dump x) in
           if negb (d =? 0) then [ERR_MISMATCH; i; 6; d]
           else conform_run g s' (i + 1) r
  end.

Definition conform_trace_case (l : list Z) : list Z :=
  match decode l with
  | Some (g, tr) => conform_run g (init_sys g) 0 tr
  | None => [ERR_MALFORMED; 0]
  end.

(* ---- the property monitor ------------------------------------------------------------ *)
(* Judges the implementation's observations from the inputs (configuration,
   operations, message contents) alone; it tracks only the environment's own
   state: the swarm's connection table and the undelivered Disconnected
   notifications. *)
Record mon := mkMon { mn_net : list Z; mn_pend : list Z; mn_dump : list pdump }.

Definition cnt (f : Z -> bool) (d : pdump) : Z := zlen (filter (fun x => f (snd x)) (d_addrs d)).
Definition is_conn (t : Z) : bool := t =? ConnectedAddrTTL.
Definition is_rc (t : Z) : bool := t =? RecentlyConnectedAddrTTL.
Definition is_hi (t : Z) : bool := is_conn t || is_rc t.

Definition no_dump : pdump := mkPD [] [] 0 0 0 0.
Definition nth_dump (p : Z) (l : list pdump) : pdump :=
  if p <? 1 then no_dump else nth (Z.to_nat (p - 1)) l no_dump.

(* "validates and was signed by that peer": the signature was issued by the
   envelope's key for exactly (peer-record domain, peer-record type, this
   payload), that key hashes to p, and the record names p *)
Definition valid_own (p : Z) (e : envelope) : bool :=
  match sym_o (e_sig e) with
  | Some (k, m) => N.eqb k (e_pub e) && term_eqb m (signed_msg DOM_PEER PT_PEER (e_rec e))
  | None => false
  end && (e_ptype e =? PT_PEER) && (id_of_n (e_pub e) =? p) && (pr_peer (e_rec e) =? p).

(* may transport address [a] be recorded under p from this message: written as
   p's own (no suffix or /p2p/p) in a listen list, or in a valid own record *)
Definition own_addr (p a : Z) (w : waddr) : bool :=
  (w_id w =? a) && ((w_sfx w =? 0) || (w_sfx w =? p)).
Definition allowed (p : Z) (cs : list chunk) (a : Z) : bool :=
  existsb (fun c =>
             existsb (own_addr p a) (m_listen (c_msg c))
             || match m_rec (c_msg c) with
                | REnv e => valid_own p e && existsb (own_addr p a) (pr_addrs (e_rec e))
                | _ => false
                end) cs.

Definition subject (o : op) : option Z :=
  match o with
  | OConnected c | ODisconnected c _ | OWait c | OFinish _ c _ | OPush c _ => Some c
  | _ => None
  end.
Definition message_of (o : op) : option (list chunk) :=
  match o with OFinish _ _ (FResp cs) | OPush _ cs => Some cs | _ => None end.

Definition mon_net (g : cfg) (m : mon) (o : op) : list Z * list Z :=
  match o with
  | ONetAdd c => (if zin c (mn_net m) then mn_net m else c :: mn_net m, mn_pend m)
  | ONetRemove c => (zremove c (mn_net m),
                     if zin c (mn_net m) && negb (zin c (mn_pend m)) then c :: mn_pend m else mn_pend m)
  | ODisconnected c _ => (mn_net m, zremove c (mn_pend m))
  | _ => (mn_net m, mn_pend m)
  end.

(* the peer the step is about: the remote peer of the connection it names *)
Definition subj_peer (g : cfg) (o : op) : option Z :=
  match subject o with Some c => Some (peer_of (g_conns g) c) | None => None end.

(* the chunks of a message that was consumed in this step (a Completed event was seen) *)
Definition consumed (o : op) (x : wobs) : option (list chunk) :=
  match message_of o with
  | Some cs => if existsb (fun e => fst e =? 1) (wo_events x) then Some cs else None
  | None => None
  end.

(* Disconnected delivered while the swarm lists no connection to the peer *)
Definition last_disc (g : cfg) (m : mon) (o : op) : bool :=
  match o with
  | ODisconnected c _ => negb (connected (g_conns g) (mn_net m) (peer_of (g_conns g) c))
  | _ => false
  end.

(* 1: every peerstore call is keyed by the remote peer *)
Definition cl_calls (g : cfg) (m : mon) (o : op) (x : wobs) : bool :=
  match subj_peer g o with Some p => forallb (fun q => op_peer q =? p) (wo_calls x) | None => true end.
(* 2: every event names the remote peer *)
Definition cl_events (g : cfg) (m : mon) (o : op) (x : wobs) : bool :=
  match subj_peer g o with Some p => forallb (fun e => snd e =? p) (wo_events x) | None => true end.
(* 3: what is stored under any other peer is unchanged *)
Definition cl_others (g : cfg) (m : mon) (o : op) (x : wobs) : bool :=
  match subj_peer g o with
  | Some p => forallb (fun q => (q =? p) || pdump_eqb (nth_dump q (mn_dump m)) (nth_dump q (wo_dump x)))
                      (peers_of (g_np g))
  | None => true
  end.
(* 4: a key that appears under the peer hashes to the peer *)
Definition cl_key (g : cfg) (m : mon) (o : op) (x : wobs) : bool :=
  match subj_peer g o with
  | Some p => let a := d_key (nth_dump p (wo_dump x)) in
              (a =? d_key (nth_dump p (mn_dump m))) || (id_of_n (Z.to_N a) =? p)
  | None => true
  end.
(* 5: at most maxPeerProtocols protocols *)
Definition cl_protos (g : cfg) (m : mon) (o : op) (x : wobs) : bool :=
  match subj_peer g o with
  | Some p => let a := d_protos (nth_dump p (wo_dump x)) in
              (zlen a <=? maxPeerProtocols) || zlist_eqb a (d_protos (nth_dump p (mn_dump m)))
  | None => true
  end.
(* 6: after a message was consumed, at most connectedPeerMaxAddrs addresses in the
      connected / recently-connected classes *)
Definition cl_cap (g : cfg) (m : mon) (o : op) (x : wobs) : bool :=
  match subj_peer g o, consumed o x with
  | Some p, Some _ => cnt is_hi (nth_dump p (wo_dump x)) <=? connectedPeerMaxAddrs
  | _, _ => true
  end.
(* 7: an address that entered (or rose within) those classes comes from the
      message: the peer's own listen address or an address of a valid own record *)
Definition cl_source (g : cfg) (m : mon) (o : op) (x : wobs) : bool :=
  match subj_peer g o, consumed o x with
  | Some p, Some cs =>
      forallb (fun at_ => negb (is_hi (snd at_))
                          || existsb (fun bt => (fst bt =? fst at_) && (snd at_ <=? snd bt))
                                     (d_addrs (nth_dump p (mn_dump m)))
                          || allowed p cs (fst at_))
              (d_addrs (nth_dump p (wo_dump x)))
  | _, _ => true
  end.
(* 8: the last disconnect gives the recently-connected lifetime to at most
      recentlyConnectedPeerMaxAddrs more addresses *)
Definition cl_recent (g : cfg) (m : mon) (o : op) (x : wobs) : bool :=
  match subj_peer g o with
  | Some p => if last_disc g m o
              then cnt is_rc (nth_dump p (wo_dump x))
                   <=? cnt is_rc (nth_dump p (mn_dump m)) + recentlyConnectedPeerMaxAddrs
              else true
  | None => true
  end.
(* 9: after it, only addresses that were above the connected class stay there *)
Definition cl_fallback (g : cfg) (m : mon) (o : op) (x : wobs) : bool :=
  match subj_peer g o with
  | Some p => if last_disc g m o
              then cnt (fun t => ConnectedAddrTTL <=? t) (nth_dump p (wo_dump x))
                   <=? cnt (fun t => ConnectedAddrTTL <? t) (nth_dump p (mn_dump m))
              else true
  | None => true
  end.
(* 10: the connected lifetime only while a connection exists (or its
       Disconnected notification is still to be delivered) *)
Definition cl_connected (g : cfg) (m : mon) (o : op) (x : wobs) : bool :=
  let '(net', pend') := mon_net g m o in
  forallb (fun q => connected (g_conns g) net' q || existsb (fun c => peer_of (g_conns g) c =? q) pend'
                    || (cnt is_conn (nth_dump q (wo_dump x)) =? 0))
          (peers_of (g_np g)).
(* 11: once the identify timeout has elapsed every wait channel is closed *)
Definition cl_wait (g : cfg) (m : mon) (o : op) (x : wobs) : bool :=
  match o with
  | OTimeout _ => forallb (fun b => b) (wo_chans x)
  | _ => negb (g_timeout g =? 0) || forallb (fun b => b) (wo_chans x)   (* a zero timeout releases at once *)
  end.

(* 12: a record handed on in the Completed event is a valid own record of the message *)
Definition cl_evrec (g : cfg) (m : mon) (o : op) (x : wobs) : bool :=
  match subj_peer g o, message_of o with
  | Some p, Some cs =>
      negb (existsb (fun e => fst e =? 4) (wo_events x))
      || existsb (fun c => match m_rec (c_msg c) with REnv e => valid_own p e | _ => false end) cs
  | _, _ => true
  end.

(* 13 (the address book's own per-peer cap, addr_book.go; the model is the book
   whose cap does not bind, so this clause is judged on the implementation's
   traces only): with the cap enabled, the peer's addresses below the connected
   class number at most the cap — or what the peer had before the step, if that
   was more *)
Definition cl_bookcap (g : cfg) (m : mon) (o : op) (x : wobs) : bool :=
  match subj_peer g o with
  | Some p =>
      if 0 <? g_pcap g
      then cnt (fun t => t <? ConnectedAddrTTL) (nth_dump p (wo_dump x))
           <=? Z.max (g_pcap g) (zlen (d_addrs (nth_dump p (mn_dump m))))
      else true
  | None => true
  end.

Definition clauses : list (Z * (cfg -> mon -> op -> wobs -> bool)) :=
  [(1, cl_calls); (2, cl_events); (3, cl_others); (4, cl_key); (5, cl_protos); (6, cl_cap);
   (7, cl_source); (8, cl_recent); (9, cl_fallback); (10, cl_connected); (11, cl_wait); (12, cl_evrec)].

(* diagnostics: the numbers of the clauses that fail at this step *)
Definition mon_step (g : cfg) (m : mon) (o : op) (x : wobs) : list Z :=
  flat_map (fun kc : Z * (cfg -> mon -> op -> wobs -> bool) => if snd kc g m o x then [] else [fst kc]) clauses.

Definition mon_step_all (g : cfg) (m : mon) (o : op) (x : wobs) : list Z :=
  mon_step g m o x ++ (if cl_bookcap g m o x then [] else [13]).

Definition mon_next (g : cfg) (m : mon) (o : op) (x : wobs) : mon :=
  let '(n, p) := mon_net g m o in mkMon n p (wo_dump x).

Fixpoint mon_run (g : cfg) (m : mon) (i : Z) (tr : list (op * wobs)) : list Z :=
  match tr with
  | [] => []
  | (o, x) :: r =>
      match mon_step g m o x with
      | [] => mon_run g (mon_next g m o x) (i + 1) r
      | d => ERR_PROPERTY :: i :: d
      end
  end.

Fixpoint mon_run_all (g : cfg) (m : mon) (i : Z) (tr : list (op * wobs)) : list Z :=
  match tr with
  | [] => []
  | (o, x) :: r =>
      match mon_step_all g m o x with
      | [] => mon_run_all g (mon_next g m o x) (i + 1) r
      | d => ERR_PROPERTY :: i :: d
      end
  end.

(* initial monitor state: the addresses the harness seeded, as a dump *)
Definition mon_init (g : cfg) : mon := mkMon [] [] (dump_all (g_np g) (init_ps g)).

(* the cases are generated with seeds that never carry the connected lifetime *)
Definition init_wf (g : cfg) : bool :=
  forallb (fun x => negb (snd x =? ConnectedAddrTTL) && (0 <? snd x)) (g_init g).

Definition monitor_trace_case (l : list Z) : list Z :=
  match decode l with
  | Some (g, tr) => if init_wf g then mon_run_all g (mon_init g) 0 tr else [ERR_MALFORMED; 1]
  | None => [ERR_MALFORMED; 0]
  end.

(* the model's own trace, in the form the monitor reads *)
Definition obs_of (g : cfg) (s' : sys) (mo : sobs) : wobs :=
  mkWO (o_ret mo) (o_calls mo) (o_events mo)
       (map snd (rev (s_chans s'))) (dump_all (g_np g) (s_ps s')).

Fixpoint model_trace (g : cfg) (s : sys) (ops : list op) : list (op * wobs) :=
  match ops with
  | [] => []
  | o :: r => let '(s', mo) := gstep g s o in (o, obs_of g s' mo) :: model_trace g s' r
  end.

(* ---- race cases ------------------------------------------------------------------------
   14 <configuration as above> NOPS op*NOPS dump_1..dump_NP
   A history executed with real goroutines: a push whose consumption races
   with the swarm dropping a connection and its Disconnected notification.
   [op*] (operations without observations) is its linearisation under addrMu —
   the consumption, then the removal, then the notification; only the final
   peerstore contents are observed. *)
Fixpoint run (g : cfg) (s : sys) (ops : list op) : sys :=
  match ops with [] => s | o :: r => run g (fst (gstep g s o)) r end.

Definition decode_race (l : list Z) : option (cfg * list op * list pdump) :=
  match pcfg 14 l with
  | Some (g, r) =>
      match (ops <- pcount pop ;; d <- prep ppdump (Z.to_nat (g_np g)) ;; pret (ops, d)) r with
      | Some ((ops, d), []) => Some (g, ops, d)
      | _ => None
      end
  | None => None
  end.

Fixpoint orders_ok (g : cfg) (s : sys) (ops : list op) : bool :=
  match ops with
  | [] => true
  | o :: r => match o with ODisconnected c ord => order_ok g s c ord | _ => true end
              && orders_ok g (fst (gstep g s o)) r
  end.

Fixpoint run_evicts (g : cfg) (s : sys) (ops : list op) : bool :=
  match ops with
  | [] => false
  | o :: r => let '(s', mo) := gstep g s o in calls_evict g (s_ps s) (o_calls mo) || run_evicts g s' r
  end.

Definition conform_race (g : cfg) (ops : list op) (final : list pdump) : list Z :=
  let s := run g (init_sys g) ops in
  if run_evicts g (init_sys g) ops then []
  else if negb (orders_ok g (init_sys g) ops) then [ERR_MISMATCH; zlen ops; 1]
  else let d := first_diff 1 (dump_all (g_np g) (s_ps s)) final in
       if d =? 0 then [] else [ERR_MISMATCH; zlen ops; 6; d].

(* the swarm's table and the outstanding notifications after the operations *)
Fixpoint track (g : cfg) (net pend : list Z) (ops : list op) : list Z * list Z :=
  match ops with
  | [] => (net, pend)
  | o :: r => let '(n, p) := mon_net g (mkMon net pend []) o in track g n p r
  end.

(* the connected lifetime only while a connection exists, judged on the final contents *)
Definition final_ok (g : cfg) (ops : list op) (final : list pdump) : bool :=
  let '(net, pend) := track g [] [] ops in
  forallb (fun q => connected (g_conns g) net q || existsb (fun c => peer_of (g_conns g) c =? q) pend
                    || (cnt is_conn (nth_dump q final) =? 0))
          (peers_of (g_np g)).

Definition monitor_race (g : cfg) (ops : list op) (final : list pdump) : list Z :=
  if final_ok g ops final then [] else [ERR_PROPERTY; zlen ops; 10].

Definition conform_case (l : list Z) : list Z :=
  match l with
  | 14 :: _ => match decode_race l with
               | Some (g, ops, d) => conform_race g ops d
               | None => [ERR_MALFORMED; 0]
               end
  | _ => conform_trace_case l
  end.

Definition monitor_case (l : list Z) : list Z :=
  match l with
  | 14 :: _ => match decode_race l with
               | Some (g, ops, d) => if init_wf g then monitor_race g ops d else [ERR_MALFORMED; 1]
               | None => [ERR_MALFORMED; 0]
               end
  | _ => monitor_trace_case l
  end.

(* C13 — the address book after consumeMessage and after the last
   Disconnected: TTL classes, caps, sources of the recorded addresses. *)
From Coq Require Import List ZArith NArith Bool Lia.
From Verif Require Import lib.Wire c09.Abs c08.SymCrypto gen.Consts_c13 c13.Model c13.Spec
  c13.Proofs_Book c13.Proofs_Store.
Import ListNotations.
Local Open Scope Z_scope.

(* the constants as re-read from /repo: the order the reasoning needs *)
Lemma ttl_order :
  0 < TempAddrTTL /\ TempAddrTTL < RecentlyConnectedAddrTTL /\
  RecentlyConnectedAddrTTL < ConnectedAddrTTL /\ ConnectedAddrTTL < PermanentAddrTTL.
Proof. repeat split; reflexivity. Qed.

Lemma caps_sane :
  0 < recentlyConnectedPeerMaxAddrs <= connectedPeerMaxAddrs /\ 0 < maxPeerProtocols /\ 1 <= maxMessages.
Proof. repeat split; try reflexivity; discriminate. Qed.

Lemma is_hi_false t : t <> RecentlyConnectedAddrTTL -> t <> ConnectedAddrTTL -> is_hi t = false.
Proof.
  intros H1 H2. unfold is_hi, is_conn, is_rc. apply orb_false_iff. split; now apply Z.eqb_neq.
Qed.

(* ---- dumps and the book ------------------------------------------------------------ *)
Lemma cnt_dump f s p :
  cnt f (dump_peer s p) = Z.of_nat (length (filter (fun e => (ep e =? p) && f (ettl e)) (a_ents (ps_book s)))).
Proof.
  unfold cnt, dump_peer, zlen. cbn [d_addrs]. rewrite filter_map_comm, map_length. cbn [snd].
  now rewrite filter_and.
Qed.

Lemma in_dump s p a t :
  In (a, t) (d_addrs (dump_peer s p)) <->
  exists e, In e (a_ents (ps_book s)) /\ ep e = p /\ ea e = a /\ ettl e = t.
Proof.
  unfold dump_peer. cbn [d_addrs]. rewrite in_map_iff. split.
  - intros [e [He Hi]]. apply filter_In in Hi. destruct Hi as [Hi Hp]. apply Z.eqb_eq in Hp.
    inversion He. exists e. tauto.
  - intros [e [Hi [Hp [Ha Ht]]]]. exists e. split; [congruence|]. apply filter_In. split; [exact Hi|].
    now apply Z.eqb_eq.
Qed.

Lemma clean_in p l a : In a (clean_addrs (map (to_raw p) (filter has_transport l))) ->
  exists w, In w l /\ w_id w = a /\ (w_sfx w = 0 \/ w_sfx w = p).
Proof.
  unfold clean_addrs. rewrite in_map_iff. intros [r [Hr Hi]]. apply filter_In in Hi. destruct Hi as [Hi Hs].
  apply in_map_iff in Hi. destruct Hi as [w [Hw Hi]]. apply filter_In in Hi. destruct Hi as [Hi _].
  exists w. split; [exact Hi|]. subst r. unfold to_raw in *. cbn in *. split; [exact Hr|].
  destruct (w_sfx w =? 0) eqn:E0; [left; now apply Z.eqb_eq|].
  destruct (w_sfx w =? p) eqn:E1; [right; now apply Z.eqb_eq|]. discriminate.
Qed.

Section Consume.
Variable verify : N -> term -> term -> bool.
Variable id_of : N -> Z.
Variable inline_key : Z -> option N.

Notation appl := (apply_ops id_of inline_key).
Notation RC := RecentlyConnectedAddrTTL.
Notation CN := ConnectedAddrTTL.
Notation TMP := TempAddrTTL.

Lemma key_ops_book cap maxu s p kf b : fold_left (book_step cap maxu) (key_ops id_of inline_key s p kf) b = b.
Proof.
  unfold key_ops. destruct kf; try reflexivity. destruct (id_of k =? p); [|reflexivity].
  destruct (cur_key inline_key s p); reflexivity.
Qed.

Definition raw_of (p : Z) (l : list waddr) : list raw := map (to_raw p) (filter has_transport l).

Definition book_consumed (cap maxu : Z) (b : abook) (p : Z) (addrs : list waddr) (ttl : Z) : abook :=
  g_update maxu (gc_add cap maxu (g_update maxu (g_update maxu b p RC TMP) p CN TMP) p (raw_of p addrs) ttl) p TMP 0.

Lemma consume_book s m c connected :
  ps_book (appl s (consume verify id_of inline_key s m c connected)) =
  book_consumed (ps_pcap s) (ps_maxu s) (ps_book s) (c_peer c) (consume_addrs verify id_of c m) (if connected then CN else RC).
Proof.
  rewrite apply_ops_book. unfold consume. rewrite fold_left_app, key_ops_book. reflexivity.
Qed.

Definition book_disconnected (cap maxu : Z) (b : abook) (p : Z) (order : list waddr) : abook :=
  g_update maxu (gc_add cap maxu (g_update maxu b p CN TMP) p
                  (raw_of p (firstn (Z.to_nat recentlyConnectedPeerMaxAddrs) order)) RC) p TMP 0.

Lemma disconnected_book s c order :
  ps_book (appl s (disconnected_ops c false order)) = book_disconnected (ps_pcap s) (ps_maxu s) (ps_book s) (c_peer c) order.
Proof. rewrite apply_ops_book. reflexivity. Qed.

(* ---- classes after consumeMessage ------------------------------------------------------ *)
Lemma consumed_mid_nohi maxu b p : pall p (fun t => is_hi t = false) (g_update maxu (g_update maxu b p RC TMP) p CN TMP).
Proof.
  pose proof ttl_order as O.
  assert (H1 : pall p (fun t => t <> RC) (g_update maxu (g_update maxu b p RC TMP) p CN TMP)).
  { apply gupd_preserve; [lia|]. apply gupd_establish. lia. }
  assert (H2 : pall p (fun t => t <> CN) (g_update maxu (g_update maxu b p RC TMP) p CN TMP)).
  { apply gupd_establish. lia. }
  intros e He Hp. apply is_hi_false; [now apply H1|now apply H2].
Qed.

Definition Qp (p : Z) (f : Z -> bool) (e : aent) : bool := (ep e =? p) && f (ettl e).

Lemma consumed_cap cap maxu b p addrs ttl : Z.of_nat (length addrs) <= connectedPeerMaxAddrs ->
  Z.of_nat (length (filter (Qp p is_hi) (a_ents (book_consumed cap maxu b p addrs ttl)))) <= connectedPeerMaxAddrs.
Proof.
  intros Hl. unfold book_consumed.
  set (b2 := g_update maxu (g_update maxu b p RC TMP) p CN TMP).
  pose proof (pall_count_zero p is_hi b2 (consumed_mid_nohi maxu b p)) as Z0. fold (Qp p is_hi) in Z0.
  pose proof (gc_add_count (Qp p is_hi) cap maxu b2 p (raw_of p addrs) ttl) as H3. rewrite Z0 in H3. cbn [length] in H3.
  set (b3 := gc_add cap maxu b2 p (raw_of p addrs) ttl) in *.
  assert (H4 : (length (filter (Qp p is_hi) (a_ents (g_update maxu b3 p TMP 0))) <= length (filter (Qp p is_hi) (a_ents b3)))%nat).
  { apply g_update_count. intros e. unfold upd_fun, Qp.
    destruct ((ep e =? p) && (ettl e =? TMP)); [|trivial]. cbn [ep ettl].
    assert (is_hi 0 = false) by reflexivity. rewrite H. rewrite andb_false_r. discriminate. }
  assert (length (raw_of p addrs) <= length addrs)%nat.
  { unfold raw_of. rewrite map_length. apply filter_length_le. }
  lia.
Qed.

Lemma consumed_source cap maxu b p addrs ttl e :
  In e (a_ents (book_consumed cap maxu b p addrs ttl)) -> ep e = p -> is_hi (ettl e) = true ->
  exists w, In w addrs /\ w_id w = ea e /\ (w_sfx w = 0 \/ w_sfx w = p).
Proof.
  intros He Hp Hh. unfold book_consumed in He. apply g_update_in in He. destruct He as [He|He].
  2:{ rewrite He in Hh. discriminate. }
  apply gc_add_in in He. destruct He as [He|[_ He]].
  - rewrite (consumed_mid_nohi maxu b p e He Hp) in Hh. discriminate.
  - now apply clean_in in He.
Qed.

Lemma consumed_noconn cap maxu b p addrs : pall p (fun t => t <> CN) (book_consumed cap maxu b p addrs RC).
Proof.
  pose proof ttl_order as O. unfold book_consumed.
  apply gupd_preserve; [lia|]. apply gcadd_preserve; [intros t Ht; lia|lia|]. apply gupd_establish. lia.
Qed.

(* ---- classes after the last Disconnected -------------------------------------------------- *)
Lemma disconnected_noconn cap maxu b p order : pall p (fun t => t <> CN) (book_disconnected cap maxu b p order).
Proof.
  pose proof ttl_order as O. unfold book_disconnected.
  apply gupd_preserve; [lia|]. apply gcadd_preserve; [intros t Ht; lia|lia|]. apply gupd_establish. lia.
Qed.

Lemma disconnected_recent cap maxu b p order :
  Z.of_nat (length (filter (Qp p is_rc) (a_ents (book_disconnected cap maxu b p order)))) <=
  Z.of_nat (length (filter (Qp p is_rc) (a_ents b))) + recentlyConnectedPeerMaxAddrs.
Proof.
  pose proof ttl_order as O. unfold book_disconnected.
  set (sel := firstn (Z.to_nat recentlyConnectedPeerMaxAddrs) order).
  set (b1 := g_update maxu b p CN TMP). set (b2 := gc_add cap maxu b1 p (raw_of p sel) RC).
  assert (H1 : (length (filter (Qp p is_rc) (a_ents b1)) <= length (filter (Qp p is_rc) (a_ents b)))%nat).
  { apply g_update_count. intros e. unfold upd_fun, Qp. destruct ((ep e =? p) && (ettl e =? CN)); [|trivial].
    cbn [ep ettl]. replace (is_rc TMP) with false by (symmetry; apply Z.eqb_neq; lia).
    rewrite andb_false_r. discriminate. }
  pose proof (gc_add_count (Qp p is_rc) cap maxu b1 p (raw_of p sel) RC) as H2. fold b2 in H2.
  assert (H3 : (length (filter (Qp p is_rc) (a_ents (g_update maxu b2 p TMP 0))) <= length (filter (Qp p is_rc) (a_ents b2)))%nat).
  { apply g_update_count. intros e. unfold upd_fun, Qp. destruct ((ep e =? p) && (ettl e =? TMP)); [|trivial].
    cbn [ep ettl]. replace (is_rc 0) with false by reflexivity. rewrite andb_false_r. discriminate. }
  assert (Z.of_nat (length (raw_of p sel)) <= recentlyConnectedPeerMaxAddrs).
  { unfold raw_of, sel. rewrite map_length.
    pose proof (filter_length_le has_transport (firstn (Z.to_nat recentlyConnectedPeerMaxAddrs) order)).
    pose proof (firstn_le_length (Z.to_nat recentlyConnectedPeerMaxAddrs) order).
    assert (0 <= recentlyConnectedPeerMaxAddrs) by (pose proof caps_sane; lia). lia. }
  lia.
Qed.

Lemma disconnected_fallback cap maxu b p order :
  (length (filter (Qp p (fun t => (CN <=? t)%Z)) (a_ents (book_disconnected cap maxu b p order))) <=
   length (filter (Qp p (fun t => (CN <? t)%Z)) (a_ents b)))%nat.
Proof.
  pose proof ttl_order as O. unfold book_disconnected.
  set (sel := firstn (Z.to_nat recentlyConnectedPeerMaxAddrs) order).
  set (b1 := g_update maxu b p CN TMP). set (b2 := gc_add cap maxu b1 p (raw_of p sel) RC).
  set (Qge := Qp p (fun t => CN <=? t)).
  assert (H1 : (length (filter Qge (a_ents b1)) <= length (filter (Qp p (fun t => (CN <? t)%Z)) (a_ents b)))%nat).
  { apply g_update_count. intros e. unfold upd_fun, Qge, Qp.
    destruct (ep e =? p) eqn:Ep; cbn [andb]; [|rewrite Ep; discriminate].
    destruct (ettl e =? CN) eqn:Et; cbn [ep ettl].
    - rewrite Ep. cbn [andb]. intros H. apply Z.leb_le in H. lia.
    - rewrite Ep. cbn [andb]. intros H. apply Z.leb_le in H. apply Z.eqb_neq in Et. apply Z.ltb_lt. lia. }
  assert (H2 : (length (filter Qge (a_ents b2)) <= length (filter Qge (a_ents b1)))%nat).
  { apply gc_add_count_same.
    - intros a exp. unfold Qge, Qp. cbn [ep ettl]. replace (CN <=? RC) with false by (symmetry; apply Z.leb_gt; lia).
      apply andb_false_r.
    - intros a exp e0 K. unfold Qge, Qp. cbn [ep ettl]. unfold key_is in K. apply andb_true_iff in K.
      destruct K as [K _]. rewrite K, Z.eqb_refl. cbn [andb]. intros H. apply Z.leb_le in H. apply Z.leb_le. lia. }
  assert (H3 : (length (filter Qge (a_ents (g_update maxu b2 p TMP 0))) <= length (filter Qge (a_ents b2)))%nat).
  { apply g_update_count. intros e. unfold upd_fun, Qge, Qp. destruct ((ep e =? p) && (ettl e =? TMP)); [|trivial].
    cbn [ep ettl]. replace (CN <=? 0) with false by reflexivity. rewrite andb_false_r. discriminate. }
  lia.
Qed.

End Consume.

(* ---- the book's per-peer cap ------------------------------------------------------------------ *)
Definition pcount (p : Z) (l : list aent) : Z := Z.of_nat (length (pents p l)).

Lemma ucount_le_pcount p l : ucount p l <= pcount p l.
Proof.
  unfold ucount, pcount, pents. apply Nat2Z.inj_le. apply filter_imp_length. intros x H.
  unfold unconn_of in H. apply andb_true_iff in H. tauto.
Qed.

Lemma update_pcount maxu s p q old new : pcount p (a_ents (g_update maxu s q old new)) <= pcount p (a_ents s).
Proof.
  unfold pcount, pents. apply Nat2Z.inj_le. apply g_update_count. intros e. now rewrite upd_fun_ep.
Qed.

Lemma update_tmp0_ucount maxu s p : ucount p (a_ents (g_update maxu s p TempAddrTTL 0)) <= ucount p (a_ents s).
Proof.
  pose proof ttl_order as O. unfold ucount. apply Nat2Z.inj_le. apply g_update_count. intros e. unfold upd_fun.
  destruct ((ep e =? p) && (ettl e =? TempAddrTTL)) eqn:C; [|trivial]. intros _.
  apply andb_true_iff in C. destruct C as [C1 C2]. apply Z.eqb_eq in C2. unfold unconn_of, is_unconn.
  rewrite C1, C2. cbn [andb]. apply Z.ltb_lt. lia.
Qed.

Lemma consumed_bookcap cap maxu b p addrs ttl : 0 < cap ->
  ucount p (a_ents (book_consumed cap maxu b p addrs ttl)) <= Z.max cap (pcount p (a_ents b)).
Proof.
  intros Hc. unfold book_consumed. set (b2 := g_update maxu (g_update maxu b p RecentlyConnectedAddrTTL TempAddrTTL) p ConnectedAddrTTL TempAddrTTL).
  pose proof (update_tmp0_ucount maxu (gc_add cap maxu b2 p (raw_of p addrs) ttl) p).
  pose proof (gc_add_ucount cap maxu b2 p (raw_of p addrs) ttl Hc).
  pose proof (ucount_le_pcount p (a_ents b2)).
  pose proof (update_pcount maxu (g_update maxu b p RecentlyConnectedAddrTTL TempAddrTTL) p p ConnectedAddrTTL TempAddrTTL). fold b2 in H2.
  pose proof (update_pcount maxu b p p RecentlyConnectedAddrTTL TempAddrTTL). lia.
Qed.

Lemma disconnected_bookcap cap maxu b p order : 0 < cap ->
  ucount p (a_ents (book_disconnected cap maxu b p order)) <= Z.max cap (pcount p (a_ents b)).
Proof.
  intros Hc. unfold book_disconnected.
  set (sel := firstn (Z.to_nat recentlyConnectedPeerMaxAddrs) order). set (b1 := g_update maxu b p ConnectedAddrTTL TempAddrTTL).
  pose proof (update_tmp0_ucount maxu (gc_add cap maxu b1 p (raw_of p sel) RecentlyConnectedAddrTTL) p).
  pose proof (gc_add_ucount cap maxu b1 p (raw_of p sel) RecentlyConnectedAddrTTL Hc).
  pose proof (ucount_le_pcount p (a_ents b1)).
  pose proof (update_pcount maxu b p p ConnectedAddrTTL TempAddrTTL). fold b1 in H2. lia.
Qed.


Lemma cnt_unconn_dump s p :
  cnt (fun t => t <? ConnectedAddrTTL) (dump_peer s p) = ucount p (a_ents (ps_book s)).
Proof. rewrite cnt_dump. reflexivity. Qed.

Lemma total_dump s p : zlen (d_addrs (dump_peer s p)) = pcount p (a_ents (ps_book s)).
Proof. unfold dump_peer, zlen, pcount. cbn [d_addrs]. now rewrite map_length. Qed.

(* C13 — the property monitor accepts every step of the model (clause by
   clause), hence every trace. *)
From Coq Require Import List ZArith NArith Bool Lia.
From Verif Require Import lib.Wire c09.Abs c08.SymCrypto gen.Consts_c13 c13.Model c13.Spec
  c13.Proofs c13.Proofs_Book c13.Proofs_Store c13.Proofs_Consume c13.Proofs_Msg c13.Proofs_Sys c13.Proofs_Inv.
Import ListNotations.
Local Open Scope Z_scope.

(* ---- dumps of all peers --------------------------------------------------------------- *)
Lemma zrange_nth n : forall a k d, (k < n)%nat -> nth k (zrange a n) d = a + Z.of_nat k.
Proof.
  induction n as [|n IH]; intros a k d H; [lia|]. destruct k as [|k]; cbn [zrange nth]; [lia|].
  rewrite IH by lia. lia.
Qed.

Lemma zrange_in n : forall a q, In q (zrange a n) <-> a <= q < a + Z.of_nat n.
Proof.
  induction n as [|n IH]; intros a q; cbn [zrange In]; [lia|]. rewrite IH. lia.
Qed.

Lemma zrange_length n a : length (zrange a n) = n.
Proof. revert a. induction n; intros a; cbn; [reflexivity|]. now rewrite IHn. Qed.

Lemma peers_in np q : In q (peers_of np) <-> 1 <= q <= np.
Proof. unfold peers_of. rewrite zrange_in. lia. Qed.

Lemma nth_dump_in np ps q : In q (peers_of np) -> nth_dump q (dump_all np ps) = dump_peer ps q.
Proof.
  intros H. apply peers_in in H. unfold nth_dump, dump_all, peers_of.
  replace (q <? 1) with false by (symmetry; apply Z.ltb_ge; lia).
  rewrite (nth_indep _ no_dump (dump_peer ps 0)) by (rewrite map_length, zrange_length; lia).
  rewrite map_nth, zrange_nth by lia. f_equal. lia.
Qed.

Lemma nth_dump_out np ps q : ~ In q (peers_of np) -> nth_dump q (dump_all np ps) = no_dump.
Proof.
  intros H. rewrite peers_in in H. unfold nth_dump. destruct (q <? 1) eqn:E; [reflexivity|].
  apply Z.ltb_ge in E. apply nth_overflow. unfold dump_all, peers_of. rewrite map_length, zrange_length. lia.
Qed.

Lemma peers_dec np q : {In q (peers_of np)} + {~ In q (peers_of np)}.
Proof. apply in_dec. apply Z.eq_dec. Qed.

Lemma sub_by_refl {A} (eqb : A -> A -> bool) l : (forall x, eqb x x = true) -> sub_by eqb l l = true.
Proof.
  intros H. unfold sub_by. apply forallb_forall. intros x Hx. apply existsb_exists. exists x. split; [exact Hx|apply H].
Qed.

Lemma zlist_eqb_refl l : zlist_eqb l l = true.
Proof. unfold zlist_eqb. induction l; cbn; [reflexivity|]. now rewrite Z.eqb_refl. Qed.

Lemma pdump_eqb_refl d : pdump_eqb d d = true.
Proof.
  unfold pdump_eqb, seteq_by. rewrite Nat.eqb_refl, !Z.eqb_refl.
  rewrite (sub_by_refl zz_eqb) by (intros [a b]; unfold zz_eqb; cbn; now rewrite !Z.eqb_refl).
  rewrite (sub_by_refl Z.eqb) by apply Z.eqb_refl. reflexivity.
Qed.

Section Mon.
Variable g : cfg.
Notation K := (inline_of (g_inline g)).
Notation conns := (g_conns g).
Notation appl := (apply_ops id_of_n K).
Notation peer := (peer_of conns).
Notation np := (g_np g).

Lemma cnt_no_dump f : cnt f no_dump = 0.
Proof. reflexivity. Qed.

(* facts about one step, in the vocabulary of the monitor *)
Section Step.
Variables (s s' : sys) (o : op) (mo : sobs).
Hypothesis Hs : gstep g s o = (s', mo).
Hypothesis HI : Inv g s.
Hypothesis HP : ps_pcap (s_ps s) = g_pcap g.
Hypothesis HT : g_timeout g = 0 -> s_tasks s = [].
Let m := mon_of g s.
Let x := obs_of g s' mo.

Lemma sh : shape g s o s' mo.
Proof. now apply step_shape. Qed.

Lemma calls_keyed c : subject o = Some c -> Forall (fun q => op_peer q = peer c) (o_calls mo).
Proof.
  intros Hc. destruct sh as [_ Ec _ _|c0 cs cn m0 push _ Hsub Hcn _ Ec _ _|c0 order cn Ho Hcn _ Ec _ _|d _ _ Ec];
    rewrite Ec.
  - constructor.
  - rewrite Hsub in Hc. inversion Hc; subst. rewrite (peer_conn g c cn Hcn). apply consume_keyed.
  - subst o. cbn in Hc. inversion Hc; subst. rewrite (peer_conn g c cn Hcn). apply disconnected_keyed.
  - constructor.
Qed.

Lemma c_calls : cl_calls g m o x = true.
Proof.
  unfold cl_calls, subj_peer. destruct (subject o) as [c|] eqn:S; [|reflexivity].
  apply forallb_forall. intros q Hq. pose proof (calls_keyed c S) as F. rewrite Forall_forall in F.
  apply Z.eqb_eq. now apply F.
Qed.

Lemma c_events : cl_events g m o x = true.
Proof.
  unfold cl_events, subj_peer. destruct (subject o) as [c|] eqn:S; [|reflexivity].
  apply forallb_forall. intros e He. cbn in He. apply Z.eqb_eq.
  destruct sh as [_ _ Ee _|c0 cs cn m0 push _ Hsub Hcn _ _ _ Ee|c0 order cn Ho Hcn _ _ _ Ee|d Ho _ _].
  - now apply (Ee e He).
  - rewrite Hsub in S. inversion S; subst. rewrite (peer_conn g c cn Hcn). rewrite Ee in He.
    destruct push, (record_used sym_v id_of_n (c_peer cn) m0); cbn in He; intuition (subst; reflexivity).
  - rewrite Ee in He. destruct He.
  - subst o. discriminate.
Qed.

(* the dump of a peer the calls are not keyed by is unchanged *)
Lemma others_same c q : subject o = Some c -> q <> peer c -> dump_peer (s_ps s') q = dump_peer (s_ps s) q.
Proof.
  intros S Hq. pose proof (calls_keyed c S) as F. destruct HI as [Hb _ _].
  destruct sh as [E _ _ _|c0 cs cn m0 push _ _ _ _ _ E _|c0 order cn _ _ _ _ E _|d Ho _ _].
  - now rewrite E.
  - rewrite E. now apply (apply_ops_frame id_of_n K _ _ (peer c)).
  - rewrite E. now apply (apply_ops_frame id_of_n K _ _ (peer c)).
  - subst o. discriminate.
Qed.

Lemma c_others : cl_others g m o x = true.
Proof.
  unfold cl_others, subj_peer. destruct (subject o) as [c|] eqn:S; [|reflexivity].
  apply forallb_forall. intros q Hq. destruct (Z.eq_dec q (peer c)) as [->|N]; [now rewrite Z.eqb_refl|].
  apply orb_true_iff. right. unfold m, x. cbn [mn_dump mon_of wo_dump obs_of].
  rewrite !nth_dump_in by exact Hq. rewrite (others_same c q S N). apply pdump_eqb_refl.
Qed.

(* after the step the store is the old one changed by calls keyed by the subject *)
Lemma ps_after c : subject o = Some c ->
  exists l, Forall (fun q => op_peer q = peer c) l /\ s_ps s' = appl (s_ps s) l /\
            (l = [] \/ Forall (protos_bounded) l).
Proof.
  intros S. pose proof (calls_keyed c S) as F.
  destruct sh as [E Ec _ _|c0 cs cn m0 push _ _ _ _ Ec E _|c0 order cn _ _ _ Ec E _|d Ho _ _].
  - exists []. repeat split; [constructor|exact E|now left].
  - exists (o_calls mo). repeat split; [exact F|exact E|]. right. rewrite Ec. unfold consume.
    apply Forall_app. split.
    + constructor; [|repeat constructor]. unfold protos_bounded. pose proof (firstn_le_length (Z.to_nat maxPeerProtocols) (m_protos m0)).
      assert (0 <= maxPeerProtocols) by discriminate. lia.
    + unfold key_ops. destruct (m_key m0); try constructor. destruct (_ =? _); [|constructor].
      constructor; [exact I|]. destruct (cur_key _ _ _); repeat constructor.
  - exists (o_calls mo). repeat split; [exact F|exact E|]. right. rewrite Ec. repeat constructor.
  - subst o. discriminate.
Qed.

Lemma c_key : cl_key g m o x = true.
Proof.
  unfold cl_key, subj_peer. destruct (subject o) as [c|] eqn:S; [|reflexivity].
  unfold m, x. cbn [mn_dump mon_of wo_dump obs_of].
  destruct (peers_dec np (peer c)) as [Hi|Ho]; [|rewrite !nth_dump_out by exact Ho; reflexivity].
  rewrite !nth_dump_in by exact Hi. destruct (ps_after c S) as [l [F [E _]]]. rewrite E.
  pose proof (apply_ops_key id_of_n K (inline_of_ok (g_inline g)) l (s_ps s) (peer c) F) as R.
  unfold dump_peer. cbn [d_key]. destruct R as [R|[k [R Hk]]].
  - rewrite R. now rewrite Z.eqb_refl.
  - rewrite R. apply orb_true_iff. right. rewrite N2Z.id. now apply Z.eqb_eq.
Qed.

Lemma c_protos : cl_protos g m o x = true.
Proof.
  unfold cl_protos, subj_peer. destruct (subject o) as [c|] eqn:S; [|reflexivity].
  unfold m, x. cbn [mn_dump mon_of wo_dump obs_of].
  destruct (peers_dec np (peer c)) as [Hi|Ho]; [|rewrite !nth_dump_out by exact Ho; reflexivity].
  rewrite !nth_dump_in by exact Hi. destruct (ps_after c S) as [l [F [E B]]]. rewrite E.
  destruct B as [->|B]; [cbn; rewrite zlist_eqb_refl; apply orb_true_r|].
  pose proof (apply_ops_protos id_of_n K l (s_ps s) (peer c) B) as R.
  unfold dump_peer. cbn [d_protos]. destruct R as [R|[l' [R Hl]]].
  - rewrite R. rewrite zlist_eqb_refl. apply orb_true_r.
  - rewrite R. apply orb_true_iff. left. unfold zlen. now apply Z.leb_le.
Qed.

(* only the consumed shape shows a Completed event on a message operation *)
Lemma consumed_shape cs : consumed o x = Some cs ->
  exists c cn m0, subject o = Some c /\ conn_of conns c = Some cn /\ read_all cs = Some m0 /\
    o_calls mo = consume sym_v id_of_n K (s_ps s) m0 cn (connected conns (s_net s) (c_peer cn)) /\
    s_ps s' = appl (s_ps s) (o_calls mo).
Proof.
  unfold consumed. destruct (message_of o) as [cs'|] eqn:M; [|discriminate].
  destruct (existsb _ _) eqn:Ev; [|discriminate]. intros H. inversion H; subst cs'.
  destruct sh as [_ _ Ee _|c0 cs0 cn m0 push Hm Hsub Hcn Hr Ec E _|c0 order cn Ho _ _ _ _ _|d Ho _ _].
  - apply existsb_exists in Ev. destruct Ev as [e [He E1]]. cbn in He. destruct (Ee e He) as [E2 _].
    apply Z.eqb_eq in E1. lia.
  - rewrite M in Hm. inversion Hm; subst cs0. exists c0, cn, m0. tauto.
  - subst o. discriminate.
  - subst o. discriminate.
Qed.

Lemma c_cap : cl_cap g m o x = true.
Proof.
  unfold cl_cap, subj_peer. destruct (subject o) as [c|] eqn:S; [|reflexivity].
  destruct (consumed o x) as [cs|] eqn:C; [|reflexivity].
  destruct (consumed_shape cs C) as [c0 [cn [m0 [S0 [Hcn [Hr [Ec E]]]]]]].
  rewrite S in S0. inversion S0; subst c0. unfold x. cbn [wo_dump obs_of].
  destruct (peers_dec np (peer c)) as [Hi|Ho]; [|rewrite nth_dump_out by exact Ho; reflexivity].
  rewrite nth_dump_in by exact Hi. apply Z.leb_le. rewrite cnt_dump, E, Ec, consume_book.
  rewrite (peer_conn g c cn Hcn). apply consumed_cap. apply consume_addrs_length.
Qed.

Lemma c_source : cl_source g m o x = true.
Proof.
  unfold cl_source, subj_peer. destruct (subject o) as [c|] eqn:S; [|reflexivity].
  destruct (consumed o x) as [cs|] eqn:C; [|reflexivity].
  destruct (consumed_shape cs C) as [c0 [cn [m0 [S0 [Hcn [Hr [Ec E]]]]]]].
  rewrite S in S0. inversion S0; subst c0. unfold x. cbn [wo_dump obs_of].
  destruct (peers_dec np (peer c)) as [Hi|Ho]; [|rewrite nth_dump_out by exact Ho; reflexivity].
  rewrite nth_dump_in by exact Hi. apply forallb_forall. intros [a t] Hat. cbn [fst snd].
  destruct (is_hi t) eqn:Hh; [|reflexivity]. cbn [negb orb]. apply orb_true_iff. right.
  apply in_dump in Hat. destruct Hat as [e [He [Hp [Ha Ht]]]].
  rewrite E, Ec, consume_book in He. rewrite (peer_conn g c cn Hcn) in *.
  rewrite <- Ht in Hh. destruct (consumed_source _ _ _ _ _ _ e He Hp Hh) as [w [Hw [Hid Hsfx]]].
  apply (allowed_intro (c_peer cn) cs m0 cn a w); try assumption; [reflexivity|congruence].
Qed.

(* a last-disconnect step about a peer of the universe has the last-disconnect shape *)
Lemma last_disc_shape c : subject o = Some c -> last_disc g m o = true -> In (peer c) (peers_of np) ->
  exists order cn, o = ODisconnected c order /\ conn_of conns c = Some cn /\
    s_ps s' = appl (s_ps s) (disconnected_ops cn false order).
Proof.
  intros S L Hi. pose proof sh as Sh. pose proof Hs as Hs'. unfold last_disc in L.
  destruct Sh as [_ Ec _ _|c1 cs cn m0 push Hm _ _ _ _ _ _|c1 order1 cn Ho Hcn _ Ec E _|d Ho _ _].
  - (* quiet: then the peer was connected, or the connection is unknown *)
    exfalso. destruct o as [| | |c0 order| | | |]; try discriminate.
    cbn in S. inversion S; subst c0. unfold m in L. cbn [mn_net mon_of] in L. apply negb_true_iff in L.
    unfold gstep in Hs'. cbn [step] in Hs'. destruct (conn_of conns c) as [cn|] eqn:Cc.
    + rewrite (peer_conn g c cn Cc) in L. rewrite L in Hs'. inversion Hs' as [[H1 H2]].
      rewrite <- H2 in Ec. discriminate.
    + apply peers_in in Hi. unfold peer_of in Hi. rewrite Cc in Hi. lia.
  - exfalso. destruct o; cbn in Hm; discriminate.
  - rewrite Ho in S. cbn in S. inversion S; subst c1. exists order1, cn. rewrite E, Ec. tauto.
  - exfalso. rewrite Ho in L. discriminate.
Qed.

Lemma c_recent : cl_recent g m o x = true.
Proof.
  unfold cl_recent, subj_peer. destruct (subject o) as [c|] eqn:S; [|reflexivity].
  destruct (last_disc g m o) eqn:L; [|reflexivity]. unfold m, x. cbn [mn_dump mon_of wo_dump obs_of].
  destruct (peers_dec np (peer c)) as [Hi|Ho]; [|rewrite !nth_dump_out by exact Ho; reflexivity].
  destruct (last_disc_shape c S L Hi) as [order [cn [Ho [Hcn E]]]].
  rewrite !nth_dump_in by exact Hi. apply Z.leb_le. rewrite !cnt_dump, E, disconnected_book.
  rewrite (peer_conn g c cn Hcn). apply disconnected_recent.
Qed.

Lemma c_fallback : cl_fallback g m o x = true.
Proof.
  unfold cl_fallback, subj_peer. destruct (subject o) as [c|] eqn:S; [|reflexivity].
  destruct (last_disc g m o) eqn:L; [|reflexivity]. unfold m, x. cbn [mn_dump mon_of wo_dump obs_of].
  destruct (peers_dec np (peer c)) as [Hi|Ho]; [|rewrite !nth_dump_out by exact Ho; reflexivity].
  destruct (last_disc_shape c S L Hi) as [order [cn [Ho [Hcn E]]]].
  rewrite !nth_dump_in by exact Hi. apply Z.leb_le. rewrite !cnt_dump, E, disconnected_book.
  rewrite (peer_conn g c cn Hcn). apply Nat2Z.inj_le. apply disconnected_fallback.
Qed.

Lemma c_connected : cl_connected g m o x = true.
Proof.
  unfold cl_connected. pose proof (step_net g s o s' mo Hs) as Hn. fold m in Hn.
  destruct (mon_net g m o) as [net' pend']. inversion Hn as [[Hn1 Hn2]].
  pose proof (step_inv g s o s' mo Hs HI) as [_ _ Hc].
  apply forallb_forall. intros q Hq. assert (q <> 0) as Hq0 by (apply peers_in in Hq; lia).
  destruct (Hc q Hq0) as [H|[H|H]].
  - rewrite H. reflexivity.
  - unfold pending in H. rewrite H. apply orb_true_iff. left. apply orb_true_r.
  - apply orb_true_iff. right. apply Z.eqb_eq. unfold x. cbn [wo_dump obs_of].
    rewrite nth_dump_in by exact Hq. rewrite cnt_dump.
    rewrite (pall_count_zero q is_conn (ps_book (s_ps s'))); [reflexivity|].
    intros e He Hp. apply Z.eqb_neq. now apply H.
Qed.

(* no wait channel is open in s' *)
Lemma all_closed_obs : (forall ch, ~ In (ch, false) (s_chans s')) -> forallb (fun b => b) (wo_chans x) = true.
Proof.
  intros Hc. apply forallb_forall. intros b Hb. unfold x in Hb. cbn [wo_chans obs_of] in Hb.
  apply in_map_iff in Hb. destruct Hb as [[ch b'] [E Hi]]. cbn in E. subst b'. apply in_rev in Hi.
  destruct b; [reflexivity|]. exfalso. now apply (Hc ch).
Qed.

Lemma c_wait : cl_wait g m o x = true.
Proof.
  assert (Z0 : g_timeout g = 0 -> forallb (fun b => b) (wo_chans x) = true).
  { intros Ht. apply all_closed_obs. intros ch Hi.
    pose proof (step_inv g s o s' mo Hs HI) as [_ Hw' _]. apply Hw' in Hi.
    rewrite (step_notasks g s o s' mo Hs Ht (HT Ht)) in Hi. destruct Hi. }
  assert (G : negb (g_timeout g =? 0) || forallb (fun b => b) (wo_chans x) = true).
  { destruct (g_timeout g =? 0) eqn:E; [|reflexivity]. apply Z.eqb_eq in E. cbn. now apply Z0. }
  unfold cl_wait. destruct o as [| | | | | | |d] eqn:Eo; try exact G.
  destruct HI as [_ Hw _]. apply all_closed_obs. exact (timeout_all_closed g s d s' mo Hs Hw).
Qed.

Lemma c_evrec : cl_evrec g m o x = true.
Proof.
  unfold cl_evrec, subj_peer. destruct (subject o) as [c|] eqn:S; [|reflexivity].
  destruct (message_of o) as [cs|] eqn:M; [|reflexivity].
  destruct (existsb (fun e => fst e =? 4) (wo_events x)) eqn:Ev; [|reflexivity]. cbn [negb orb].
  apply existsb_exists in Ev. destruct Ev as [ev [He E4]]. cbn in He. apply Z.eqb_eq in E4.
  destruct sh as [_ _ Ee _|c0 cs0 cn m0 push Hm Hsub Hcn Hr _ _ Ee|c0 order cn Ho _ _ _ _ _|d Ho _ _].
  - destruct (Ee ev He) as [E2 _]. lia.
  - rewrite M in Hm. inversion Hm; subst cs0. rewrite S in Hsub. inversion Hsub; subst c0.
    rewrite (peer_conn g c cn Hcn).
    destruct (record_used sym_v id_of_n (c_peer cn) m0) eqn:Ru.
    2:{ rewrite Ee in He. destruct push; cbn in He; intuition (subst; cbn in E4; lia). }
    unfold record_used in Ru. destruct (rec_of_msg sym_v m0) as [e|] eqn:R; [|discriminate].
    destruct (consume_signed id_of_n (c_peer cn) e) as [l|] eqn:C; [|discriminate].
    unfold rec_of_msg in R. destruct (m_rec m0) as [| |e'] eqn:Rm; try discriminate.
    destruct (envelope_ok sym_v e') eqn:Ok; [|discriminate]. inversion R; subst e'.
    destruct (consume_signed_sealed sym_v sym_o sym_v_ideal id_of_n (c_peer cn) e l Ok C) as [Hs' _].
    destruct (read_all_parts cs m0 Hr) as [_ [Hn|[ch [Hch Hrec]]]]; [congruence|].
    apply existsb_exists. exists ch. split; [exact Hch|]. rewrite <- Hrec, Rm. now apply sealed_valid_own.
  - subst o. discriminate.
  - subst o. discriminate.
Qed.

(* the book after a step about connection c, for the cap clause *)
Lemma c_bookcap : cl_bookcap g m o x = true.
Proof.
  unfold cl_bookcap, subj_peer. destruct (subject o) as [c|] eqn:S; [|reflexivity].
  destruct (0 <? g_pcap g) eqn:Cp; [|reflexivity]. apply Z.ltb_lt in Cp.
  unfold m, x. cbn [mn_dump mon_of wo_dump obs_of].
  destruct (peers_dec np (peer c)) as [Hi|Ho].
  2:{ rewrite !nth_dump_out by exact Ho. apply Z.leb_le. unfold cnt, no_dump, zlen. cbn. lia. }
  rewrite !nth_dump_in by exact Hi. apply Z.leb_le. rewrite cnt_unconn_dump, total_dump.
  assert (Hcap : ps_pcap (s_ps s) = g_pcap g) by apply HP.
  destruct sh as [E _ _ _|c0 cs cn m0 push _ Hsub Hcn _ Ec E _|c0 order cn Ho Hcn _ Ec E _|d Ho _ _].
  - rewrite E. pose proof (ucount_le_pcount (peer c) (a_ents (ps_book (s_ps s)))). lia.
  - rewrite S in Hsub. inversion Hsub; subst c0. rewrite E, Ec, consume_book, Hcap, (peer_conn g c cn Hcn).
    now apply consumed_bookcap.
  - subst o. cbn in S. inversion S; subst c0. rewrite E, Ec, disconnected_book, Hcap, (peer_conn g c cn Hcn).
    now apply disconnected_bookcap.
  - subst o. discriminate.
Qed.

Lemma mon_step_ok : mon_step g m o x = [].
Proof.
  unfold mon_step, clauses. cbn [flat_map fst snd].
  now rewrite c_calls, c_events, c_others, c_key, c_protos, c_cap, c_source, c_recent, c_fallback,
    c_connected, c_wait, c_evrec.
Qed.

Lemma mon_step_all_ok : mon_step_all g m o x = [].
Proof. unfold mon_step_all. now rewrite mon_step_ok, c_bookcap. Qed.

Lemma mon_next_ok : mon_next g m o x = mon_of g s'.
Proof.
  unfold mon_next. pose proof (step_net g s o s' mo Hs) as Hn. fold m in Hn.
  destruct (mon_net g m o) as [n p]. inversion Hn. reflexivity.
Qed.
End Step.

Lemma step_pcap s o s' mo : gstep g s o = (s', mo) -> ps_pcap (s_ps s') = ps_pcap (s_ps s).
Proof.
  intros Hs. destruct (step_shape g s o s' mo Hs) as [E _ _ _|c cs cn m push _ _ _ _ _ E _|c order cn _ _ _ _ E _|d _ E _];
    rewrite E; try reflexivity; apply apply_ops_pcap.
Qed.

(* ---- the whole trace ------------------------------------------------------------------------ *)
Lemma mon_run_all_model ops : forall s i, Inv g s -> ps_pcap (s_ps s) = g_pcap g ->
  (g_timeout g = 0 -> s_tasks s = []) ->
  mon_run_all g (mon_of g s) i (model_trace g s ops) = [].
Proof.
  induction ops as [|o ops IH]; intros s i HI HP HT; [reflexivity|]. cbn [model_trace].
  destruct (gstep g s o) as [s' mo] eqn:Hs. cbn [mon_run_all].
  rewrite (mon_step_all_ok s s' o mo Hs HI HP HT), (mon_next_ok s s' o mo Hs). apply IH.
  - now apply (step_inv g s o s' mo Hs).
  - now rewrite (step_pcap s o s' mo Hs).
  - intros Ht. exact (step_notasks g s o s' mo Hs Ht (HT Ht)).
Qed.

End Mon.

(* ---- reachable states --------------------------------------------------------------------------- *)
Lemma run_inv g ops : forall s, Inv g s -> Inv g (run g s ops).
Proof.
  induction ops as [|o ops IH]; intros s H; [exact H|]. cbn [run]. apply IH.
  destruct (gstep g s o) as [s' mo] eqn:E. cbn [fst]. now apply (step_inv g s o s' mo E).
Qed.

Lemma run_notasks g ops : g_timeout g = 0 -> forall s, s_tasks s = [] -> s_tasks (run g s ops) = [].
Proof.
  intros Ht. induction ops as [|o ops IH]; intros s H; [exact H|]. cbn [run]. apply IH.
  destruct (gstep g s o) as [s' mo] eqn:E. cbn [fst]. exact (step_notasks g s o s' mo E Ht H).
Qed.

Lemma init_book_ok : forall l b, book_ok b ->
  book_ok (fold_left (fun b (x : Z * Z * Z) => let '(p, a, t) := x in a_add b p [(a, 0)] t) l b).
Proof.
  induction l as [|[[p a] t] l IH]; intros b H; [exact H|]. cbn [fold_left]. apply IH. now apply a_add_ok.
Qed.

Lemma init_noconn q : forall l b,
  forallb (fun x : Z * Z * Z => negb (snd x =? ConnectedAddrTTL) && (0 <? snd x)) l = true ->
  pall q (fun t => t <> ConnectedAddrTTL) b ->
  pall q (fun t => t <> ConnectedAddrTTL)
       (fold_left (fun b (x : Z * Z * Z) => let '(p, a, t) := x in a_add b p [(a, 0)] t) l b).
Proof.
  induction l as [|[[p a] t] l IH]; intros b Hw H; [exact H|]. cbn [fold_left]. cbn [forallb snd] in Hw.
  apply andb_true_iff in Hw. destruct Hw as [Hw1 Hw2]. apply andb_true_iff in Hw1. destruct Hw1 as [Hw1 _].
  apply negb_true_iff, Z.eqb_neq in Hw1. apply IH; [exact Hw2|].
  apply add_preserve; [intros t0 Ht0; lia|exact Hw1|exact H].
Qed.

Lemma init_inv g : init_wf g = true -> Inv g (init_sys g).
Proof.
  intros Hw. constructor.
  - cbn. apply init_book_ok. apply a_init_ok.
  - intros ch [].
  - intros q _. right. right. unfold noconn. cbn. apply init_noconn; [exact Hw|]. intros e [].
Qed.

Lemma monitor_all_accepts_model_l g ops : init_wf g = true ->
  mon_run_all g (mon_init g) 0 (model_trace g (init_sys g) ops) = [].
Proof. intros Hw. apply (mon_run_all_model g ops (init_sys g) 0); [now apply init_inv|reflexivity|reflexivity]. Qed.

(* finishing a task closes its wait channel, whatever the answer *)
Lemma finish_closes g s ch c out : alist_get ch (s_tasks s) = Some c ->
  ~ In (ch, false) (s_chans (fst (gstep g s (OFinish ch c out)))).
Proof.
  intros Ht. unfold gstep. cbn [step]. rewrite Ht, Z.eqb_refl. cbn [negb].
  assert (F : forall s0, ~ In (ch, false) (s_chans (finish_task s0 ch))).
  { intros s0 H. unfold finish_task in H. cbn in H. apply close_chan_open in H. now destruct H. }
  destruct out as [| |cs]; cbn [fst]; try apply F.
  destruct (handle_response _ _ _ _ _ _ _ _) as [[[s1 calls] evs]|]; cbn [fst]; apply F.
Qed.

(* ---- race cases: the final-state check accepts the model ------------------------------------------ *)
Lemma mon_net_only g net pend d o : mon_net g (mkMon net pend d) o = mon_net g (mkMon net pend []) o.
Proof. destruct o; reflexivity. Qed.

Lemma track_run g ops : forall s, track g (s_net s) (s_pend s) ops = (s_net (run g s ops), s_pend (run g s ops)).
Proof.
  induction ops as [|o ops IH]; intros s; [reflexivity|]. cbn [track run].
  destruct (gstep g s o) as [s' mo] eqn:E. cbn [fst]. pose proof (step_net g s o s' mo E) as Hn.
  unfold mon_of in Hn. rewrite mon_net_only in Hn. rewrite <- Hn. apply IH.
Qed.

Lemma final_ok_model g ops : init_wf g = true ->
  final_ok g ops (dump_all (g_np g) (s_ps (run g (init_sys g) ops))) = true.
Proof.
  intros Hw. unfold final_ok. pose proof (track_run g ops (init_sys g)) as T. cbn [init_sys s_net s_pend] in T.
  rewrite T. destruct (run_inv g ops (init_sys g) (init_inv g Hw)) as [_ _ Hc].
  apply forallb_forall. intros q Hq. assert (q <> 0) as Hq0 by (apply peers_in in Hq; lia).
  destruct (Hc q Hq0) as [H|[H|H]].
  - rewrite H. reflexivity.
  - unfold pending in H. rewrite H. apply orb_true_iff. left. apply orb_true_r.
  - apply orb_true_iff. right. apply Z.eqb_eq. rewrite nth_dump_in by exact Hq. rewrite cnt_dump.
    rewrite (pall_count_zero q is_conn (ps_book (s_ps (run g (init_sys g) ops)))); [reflexivity|].
    intros e He Hp. apply Z.eqb_neq. now apply H.
Qed.

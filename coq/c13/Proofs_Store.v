(* C13 — lemmas about the peerstore calls: what a list of calls keyed by one
   peer can change (frame), which keys and protocol lists it can leave, and
   the address book after consumeMessage / Disconnected. *)
From Coq Require Import List ZArith NArith Bool Lia.
From Verif Require Import lib.Wire c09.Abs c08.SymCrypto gen.Consts_c13 c13.Model c13.Spec c13.Proofs_Book.
Import ListNotations.
Local Open Scope Z_scope.

Lemma alist_get_set_same {V} p (v : V) l : alist_get p (alist_set p v l) = Some v.
Proof. unfold alist_set. cbn. now rewrite Z.eqb_refl. Qed.

Lemma alist_get_filter_other {V} p q (l : list (Z * V)) : q <> p ->
  alist_get q (filter (fun x => negb (fst x =? p)) l) = alist_get q l.
Proof.
  intros H. induction l as [|[r v] l IH]; [reflexivity|]. cbn.
  destruct (r =? p) eqn:E; cbn.
  - apply Z.eqb_eq in E. subst r. destruct (p =? q) eqn:E2; [apply Z.eqb_eq in E2; congruence|exact IH].
  - destruct (r =? q); [reflexivity|exact IH].
Qed.

Lemma alist_get_set_other {V} p q (v : V) l : q <> p -> alist_get q (alist_set p v l) = alist_get q l.
Proof.
  intros H. unfold alist_set. cbn. destruct (p =? q) eqn:E; [apply Z.eqb_eq in E; congruence|].
  now apply alist_get_filter_other.
Qed.

Lemma meta_get_set_other p q k k' v l : q <> p -> meta_get q k (meta_set p k' v l) = meta_get q k l.
Proof.
  intros H. unfold meta_get, meta_set. cbn.
  destruct (p =? q) eqn:E; [apply Z.eqb_eq in E; congruence|]. cbn.
  induction l as [|[[r kk] vv] l IH]; [reflexivity|]. cbn.
  destruct (r =? p) eqn:E1; cbn.
  - apply Z.eqb_eq in E1. subst r. rewrite E. cbn. destruct (kk =? k'); cbn; [exact IH|].
    rewrite E. cbn. exact IH.
  - destruct ((r =? q) && (kk =? k)); [reflexivity|exact IH].
Qed.

Section Store.
Variable id_of : N -> Z.
Variable inline_key : Z -> option N.
Hypothesis inline_ok : forall p k, inline_key p = Some k -> id_of k = p.

Notation app1 := (apply_op id_of inline_key).
Notation appl := (apply_ops id_of inline_key).

(* ---- the book ---------------------------------------------------------------- *)
Definition book_step (cap maxu : Z) (b : abook) (o : psop) : abook :=
  match o with
  | PUpdateAddrs p old new => g_update maxu b p old new
  | PAddAddrs p l ttl => gc_add cap maxu b p (map (to_raw p) (filter has_transport l)) ttl
  | _ => b
  end.

Lemma apply_op_book s o : ps_book (app1 s o) = book_step (ps_pcap s) (ps_maxu s) (ps_book s) o.
Proof.
  destruct o; cbn; try reflexivity.
  - destruct (_ <? _); reflexivity.
  - destruct (alist_get p (ps_keys s)), (inline_key p); reflexivity.
  - destruct (_ =? _); reflexivity.
Qed.

Lemma apply_op_pcap s o : ps_pcap (app1 s o) = ps_pcap s.
Proof.
  destruct o; cbn; try reflexivity.
  - destruct (_ <? _); reflexivity.
  - destruct (alist_get p (ps_keys s)), (inline_key p); reflexivity.
  - destruct (_ =? _); reflexivity.
Qed.

Lemma apply_op_maxu s o : ps_maxu (app1 s o) = ps_maxu s.
Proof.
  destruct o; cbn; try reflexivity.
  - destruct (_ <? _); reflexivity.
  - destruct (alist_get p (ps_keys s)), (inline_key p); reflexivity.
  - destruct (_ =? _); reflexivity.
Qed.

Lemma apply_ops_cons s o l : appl s (o :: l) = appl (app1 s o) l.
Proof. reflexivity. Qed.

Lemma apply_ops_app s l1 l2 : appl s (l1 ++ l2) = appl (appl s l1) l2.
Proof. unfold apply_ops. apply fold_left_app. Qed.

Lemma apply_ops_pcap s l : ps_pcap (appl s l) = ps_pcap s.
Proof.
  revert s. induction l as [|o l IH]; intros s; [reflexivity|]. now rewrite apply_ops_cons, IH, apply_op_pcap.
Qed.

Lemma apply_ops_maxu s l : ps_maxu (appl s l) = ps_maxu s.
Proof.
  revert s. induction l as [|o l IH]; intros s; [reflexivity|]. now rewrite apply_ops_cons, IH, apply_op_maxu.
Qed.

Lemma apply_ops_book s l : ps_book (appl s l) = fold_left (book_step (ps_pcap s) (ps_maxu s)) l (ps_book s).
Proof.
  revert s. induction l as [|o l IH]; intros s; [reflexivity|].
  rewrite apply_ops_cons, IH, apply_op_book, apply_op_pcap, apply_op_maxu. reflexivity.
Qed.

Lemma book_step_ok cap maxu b o : book_ok b -> book_ok (book_step cap maxu b o).
Proof. destruct o; cbn; intros H; try exact H; [now apply g_update_ok|now apply gc_add_ok]. Qed.

Lemma apply_op_ok s o : book_ok (ps_book s) -> book_ok (ps_book (app1 s o)).
Proof. rewrite apply_op_book. apply book_step_ok. Qed.

Lemma apply_ops_ok s l : book_ok (ps_book s) -> book_ok (ps_book (appl s l)).
Proof.
  revert s. induction l as [|o l IH]; intros s H; [exact H|]. rewrite apply_ops_cons. apply IH.
  now apply apply_op_ok.
Qed.

Lemma apply_op_maxprotos s o : ps_maxprotos (app1 s o) = ps_maxprotos s.
Proof.
  destruct o; cbn; try reflexivity.
  - destruct (_ <? _); reflexivity.
  - destruct (alist_get p (ps_keys s)), (inline_key p); reflexivity.
  - destruct (_ =? _); reflexivity.
Qed.

(* ---- frame --------------------------------------------------------------------- *)
Lemma dump_peer_eq s s' q :
  pents q (a_ents (ps_book s')) = pents q (a_ents (ps_book s)) ->
  book_ok (ps_book s) -> book_ok (ps_book s') ->
  alist_get q (ps_protos s') = alist_get q (ps_protos s) ->
  alist_get q (ps_keys s') = alist_get q (ps_keys s) ->
  (forall k, meta_get q k (ps_meta s') = meta_get q k (ps_meta s)) ->
  dump_peer s' q = dump_peer s q.
Proof.
  intros H Ho Ho' H1 H2 H3. unfold dump_peer. fold (pents q (a_ents (ps_book s'))). fold (pents q (a_ents (ps_book s))).
  rewrite H, H1, H2, !H3, (a_getrec_ok _ _ Ho), (a_getrec_ok _ _ Ho'). reflexivity.
Qed.

Lemma apply_op_frame s o q : q <> op_peer o -> book_ok (ps_book s) -> dump_peer (app1 s o) q = dump_peer s q.
Proof.
  intros Hq Ho. pose proof (apply_op_ok s o Ho) as Ho'. destruct o; cbn [op_peer] in Hq.
  - cbn -[alist_set alist_get] in *. destruct (_ <? _); [reflexivity|].
    apply dump_peer_eq; try reflexivity; try assumption. cbn -[alist_set alist_get].
    now apply alist_get_set_other.
  - apply dump_peer_eq; try reflexivity; try assumption. cbn. apply g_update_other; [exact Hq|apply Ho].
  - apply dump_peer_eq; try reflexivity; try assumption. cbn. apply gc_add_other; [exact Hq|apply Ho].
  - apply dump_peer_eq; try reflexivity; try assumption. intros k0. cbn -[meta_get meta_set].
    now apply meta_get_set_other.
  - cbn -[alist_set alist_get] in *. destruct (alist_get p (ps_keys s)); [reflexivity|]. destruct (inline_key p); [|reflexivity].
    apply dump_peer_eq; try reflexivity; try assumption. cbn -[alist_set alist_get]. now apply alist_get_set_other.
  - cbn -[alist_set alist_get] in *. destruct (_ =? _); [|reflexivity].
    apply dump_peer_eq; try reflexivity; try assumption. cbn -[alist_set alist_get]. now apply alist_get_set_other.
Qed.

Lemma apply_ops_frame l : forall s p q, Forall (fun o => op_peer o = p) l -> q <> p -> book_ok (ps_book s) ->
  dump_peer (appl s l) q = dump_peer s q.
Proof.
  induction l as [|o l IH]; intros s p q Hf Hq Ho; [reflexivity|]. inversion Hf; subst.
  rewrite apply_ops_cons, (IH _ (op_peer o)); try assumption.
  - now apply apply_op_frame.
  - now apply apply_op_ok.
Qed.

(* ---- keys ------------------------------------------------------------------------- *)
(* the key stored under p after calls keyed by p: the old one, or one that hashes to p *)
Definition key_rel (p : Z) (k0 k1 : option N) : Prop := k1 = k0 \/ exists k, k1 = Some k /\ id_of k = p.

Lemma apply_op_key s o p : op_peer o = p ->
  key_rel p (alist_get p (ps_keys s)) (alist_get p (ps_keys (app1 s o))).
Proof.
  intros Hp. destruct o; cbn [op_peer] in Hp; subst; cbn; try (now left).
  - destruct (_ <? _); now left.
  - destruct (alist_get p (ps_keys s)) eqn:E; [left; now rewrite E|].
    destruct (inline_key p) eqn:I; [|left; now rewrite E]. right. exists n. cbn.
    rewrite Z.eqb_refl. split; [reflexivity|now apply inline_ok].
  - destruct (id_of k =? p) eqn:E; [|now left]. right. exists k. cbn. rewrite Z.eqb_refl.
    split; [reflexivity|now apply Z.eqb_eq].
Qed.

Lemma apply_ops_key l : forall s p, Forall (fun o => op_peer o = p) l ->
  key_rel p (alist_get p (ps_keys s)) (alist_get p (ps_keys (appl s l))).
Proof.
  induction l as [|o l IH]; intros s p Hf; [now left|]. inversion Hf; subst.
  rewrite apply_ops_cons. specialize (IH (app1 s o) _ H2).
  pose proof (apply_op_key s o _ eq_refl) as H0. unfold key_rel in *.
  destruct IH as [IH|IH]; [|now right]. rewrite IH. exact H0.
Qed.

(* ---- protocols --------------------------------------------------------------------- *)
Definition protos_bounded (o : psop) : Prop :=
  match o with PSetProtocols _ l => Z.of_nat (length l) <= maxPeerProtocols | _ => True end.

Definition protos_rel (l0 l1 : option (list Z)) : Prop :=
  l1 = l0 \/ exists l, l1 = Some l /\ Z.of_nat (length l) <= maxPeerProtocols.

Lemma apply_op_protos s o p : protos_bounded o ->
  protos_rel (alist_get p (ps_protos s)) (alist_get p (ps_protos (app1 s o))).
Proof.
  intros Hb. destruct o; cbn; try (now left).
  - destruct (_ <? _); [now left|]. cbn. destruct (p0 =? p) eqn:E.
    + right. exists l. split; [reflexivity|exact Hb].
    + left. apply Z.eqb_neq in E. now rewrite alist_get_filter_other by congruence.
  - destruct (alist_get p0 (ps_keys s)), (inline_key p0); now left.
  - destruct (_ =? _); now left.
Qed.

Lemma apply_ops_protos l : forall s p, Forall protos_bounded l ->
  protos_rel (alist_get p (ps_protos s)) (alist_get p (ps_protos (appl s l))).
Proof.
  induction l as [|o l IH]; intros s p Hf; [now left|]. inversion Hf; subst.
  rewrite apply_ops_cons. specialize (IH (app1 s o) p H2).
  pose proof (apply_op_protos s o p H1) as H0. unfold protos_rel in *.
  destruct IH as [IH|IH]; [|now right]. rewrite IH. exact H0.
Qed.

End Store.

(* C13 — where the addresses consumeMessage records come from: the merged
   message's listen addresses, or the addresses of a signed record that
   verifies, was signed by the remote peer's key and names the remote peer. *)
From Coq Require Import List ZArith NArith Bool Lia.
From Verif Require Import lib.Wire c09.Abs c08.SymCrypto gen.Consts_c13 c13.Model c13.Spec.
Import ListNotations.
Local Open Scope Z_scope.

(* ---- proto.Merge over the chunks ----------------------------------------------------- *)
Lemma fold_merge_listen ms : forall acc,
  m_listen (fold_left merge2 ms acc) = m_listen acc ++ flat_map m_listen ms.
Proof.
  induction ms as [|m ms IH]; intros acc; cbn [fold_left flat_map]; [now rewrite app_nil_r|].
  rewrite IH. cbn [merge2 m_listen]. now rewrite app_assoc.
Qed.

Lemma fold_merge_protos ms : forall acc,
  m_protos (fold_left merge2 ms acc) = m_protos acc ++ flat_map m_protos ms.
Proof.
  induction ms as [|m ms IH]; intros acc; cbn [fold_left flat_map]; [now rewrite app_nil_r|].
  rewrite IH. cbn [merge2 m_protos]. now rewrite app_assoc.
Qed.

Lemma fold_merge_rec ms : forall acc,
  m_rec (fold_left merge2 ms acc) = m_rec acc \/ exists m, In m ms /\ m_rec (fold_left merge2 ms acc) = m_rec m.
Proof.
  induction ms as [|m ms IH]; intros acc; cbn [fold_left]; [now left|].
  destruct (IH (merge2 acc m)) as [H|[m' [Hi H]]].
  - destruct (m_rec m) eqn:E.
    + left. rewrite H. cbn [merge2 m_rec]. now rewrite E.
    + right. exists m. split; [now left|]. rewrite H. cbn [merge2 m_rec]. now rewrite E.
    + right. exists m. split; [now left|]. rewrite H. cbn [merge2 m_rec]. now rewrite E.
  - right. exists m'. split; [now right|exact H].
Qed.

Lemma read_all_parts cs m : read_all cs = Some m ->
  m_listen m = flat_map (fun c => m_listen (c_msg c)) cs /\
  (m_rec m = RAbsent \/ exists c, In c cs /\ m_rec m = m_rec (c_msg c)).
Proof.
  unfold read_all. destruct (existsb _ _); [discriminate|]. destruct (_ <=? _); [discriminate|].
  intros H. inversion H; subst. split.
  - rewrite fold_merge_listen. cbn. now rewrite flat_map_concat_map, map_map, <- flat_map_concat_map.
  - destruct (fold_merge_rec (map c_msg cs) empty_msg) as [H0|[m' [Hi H0]]]; [now left|].
    right. apply in_map_iff in Hi. destruct Hi as [c [<- Hc]]. now exists c.
Qed.

(* ---- the signed record ------------------------------------------------------------------ *)
Section Rec.
Variable verify : N -> term -> term -> bool.
Variable origin : term -> option (N * term).
Hypothesis verify_ideal : forall k m s, verify k m s = true <-> origin s = Some (k, m).
Variable id_of : N -> Z.

(* "validates and was signed by that peer" *)
Definition sealed_own (p : Z) (e : envelope) : Prop :=
  origin (e_sig e) = Some (e_pub e, signed_msg DOM_PEER PT_PEER (e_rec e)) /\
  e_ptype e = PT_PEER /\ id_of (e_pub e) = p /\ pr_peer (e_rec e) = p.

Lemma consume_signed_sealed p e l :
  envelope_ok verify e = true -> consume_signed id_of p e = Some l ->
  sealed_own p e /\ l = parse_addrs (pr_addrs (e_rec e)).
Proof.
  unfold envelope_ok, consume_signed. intros Hv Hc. apply andb_true_iff in Hv. destruct Hv as [Hv _].
  destruct (id_of (e_pub e) =? p) eqn:E1; cbn in Hc; [|discriminate].
  destruct (e_ptype e =? PT_PEER) eqn:E2; cbn in Hc; [|discriminate].
  destruct (pr_peer (e_rec e) =? p) eqn:E3; cbn in Hc; [|discriminate].
  apply Z.eqb_eq in E1, E2, E3. inversion Hc. split; [|reflexivity].
  apply verify_ideal in Hv. rewrite E2 in Hv. repeat split; assumption.
Qed.

Lemma parse_addrs_in w l : In w (parse_addrs l) -> In w l.
Proof. unfold parse_addrs. intros H. apply filter_In in H. tauto. Qed.

(* every address consumeMessage hands to the book comes from a listen list of
   the merged message — and only when no record verified — or from a sealed
   own record *)
Lemma source_addrs_origin p m w : In w (source_addrs verify id_of p m) ->
  (rec_of_msg verify m = None /\ In w (m_listen m)) \/
  (exists e, m_rec m = REnv e /\ sealed_own p e /\ In w (pr_addrs (e_rec e))).
Proof.
  unfold source_addrs. destruct (rec_of_msg verify m) as [e|] eqn:R.
  - unfold rec_of_msg in R. destruct (m_rec m) as [| |e'] eqn:Rm; try discriminate.
    destruct (envelope_ok verify e') eqn:Ok; [|discriminate]. inversion R; subst e'.
    destruct (consume_signed id_of p e) as [l|] eqn:C; [|intros []].
    intros H. destruct (consume_signed_sealed p e l Ok C) as [Hs ->]. right. exists e.
    repeat split; try apply Hs. now apply parse_addrs_in.
  - intros H. left. split; [reflexivity|]. now apply parse_addrs_in.
Qed.

Lemma filter_addrs_in rc l w : In w (filter_addrs rc l) -> In w l.
Proof.
  unfold filter_addrs. destruct (rc =? 0); [tauto|]. destruct (rc =? 1); [intros H; apply filter_In in H; tauto|].
  destruct (rc =? 2); [intros H; apply filter_In in H; tauto|tauto].
Qed.

Lemma firstn_in {A} n (l : list A) x : In x (firstn n l) -> In x l.
Proof. revert l. induction n; intros [|y l]; cbn; try tauto. intros [H|H]; [now left|right; now apply IHn]. Qed.

Lemma consume_addrs_origin c m w : In w (consume_addrs verify id_of c m) ->
  (rec_of_msg verify m = None /\ In w (m_listen m)) \/
  (exists e, m_rec m = REnv e /\ sealed_own (c_peer c) e /\ In w (pr_addrs (e_rec e))).
Proof.
  unfold consume_addrs. intros H. apply firstn_in, filter_addrs_in in H. now apply source_addrs_origin.
Qed.

Lemma consume_addrs_length c m : Z.of_nat (length (consume_addrs verify id_of c m)) <= connectedPeerMaxAddrs.
Proof.
  unfold consume_addrs. pose proof (firstn_le_length (Z.to_nat connectedPeerMaxAddrs)
    (filter_addrs (c_rcls c) (source_addrs verify id_of (c_peer c) m))).
  assert (0 <= connectedPeerMaxAddrs) by discriminate. lia.
Qed.
End Rec.

(* ---- the symbolic instance ------------------------------------------------------------------ *)
Lemma sym_v_ideal k m s : sym_v k m s = true <-> sym_o s = Some (k, m).
Proof.
  unfold sym_v, sym_o. rewrite sym_ideal. unfold sym_origin. destruct s; split; intros H; try discriminate;
    inversion H; reflexivity.
Qed.

Lemma term_eqb_refl t : term_eqb t t = true.
Proof. now apply term_eqb_eq. Qed.

Lemma sealed_valid_own p e : sealed_own sym_o id_of_n p e -> valid_own p e = true.
Proof.
  intros [H1 [H2 [H3 H4]]]. unfold valid_own. rewrite H1, N.eqb_refl, term_eqb_refl, H2, H3, H4, !Z.eqb_refl.
  reflexivity.
Qed.

(* what the monitor's [allowed] needs *)
Lemma allowed_intro p cs m c a w :
  read_all cs = Some m -> c_peer c = p ->
  In w (consume_addrs sym_v id_of_n c m) -> w_id w = a -> (w_sfx w = 0 \/ w_sfx w = p) ->
  allowed p cs a = true.
Proof.
  intros Hr Hc Hw Ha Hs. destruct (read_all_parts cs m Hr) as [Hl Hrec].
  assert (Ho : own_addr p a w = true).
  { unfold own_addr. rewrite Ha, Z.eqb_refl. cbn. destruct Hs as [-> | ->]; [reflexivity|].
    rewrite Z.eqb_refl. apply orb_true_r. }
  unfold allowed. apply existsb_exists.
  destruct (consume_addrs_origin sym_v sym_o sym_v_ideal id_of_n c m w Hw) as [[_ H]|[e [He [Hs' Hi]]]].
  - rewrite Hl in H. apply in_flat_map in H. destruct H as [ch [Hch Hin]]. exists ch. split; [exact Hch|].
    apply orb_true_iff. left. apply existsb_exists. now exists w.
  - destruct Hrec as [Hrec|[ch [Hch Hrec]]]; [congruence|]. exists ch. split; [exact Hch|].
    apply orb_true_iff. right. rewrite <- Hrec, He. rewrite Hc in Hs'. rewrite (sealed_valid_own p e Hs'). cbn.
    apply existsb_exists. now exists w.
Qed.

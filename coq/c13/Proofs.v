(* C13 — lemmas, part 1: every peerstore call identify makes is keyed by the
   connection's remote peer. *)
From Coq Require Import List ZArith NArith Bool Lia.
From Verif Require Import lib.Wire c09.Abs c08.SymCrypto gen.Consts_c13 c13.Model c13.Spec.
Import ListNotations.
Local Open Scope Z_scope.

Section Keyed.
Variable verify : N -> term -> term -> bool.
Variable id_of : N -> Z.
Variable inline_key : Z -> option N.

Lemma key_ops_keyed s p kf : Forall (fun o => op_peer o = p) (key_ops id_of inline_key s p kf).
Proof.
  unfold key_ops. destruct kf; try constructor.
  destruct (id_of k =? p); [|constructor].
  constructor; [reflexivity|]. destruct (cur_key inline_key s p); repeat constructor.
Qed.

Lemma consume_keyed s m c connected :
  Forall (fun o => op_peer o = c_peer c) (consume verify id_of inline_key s m c connected).
Proof.
  unfold consume. apply Forall_app. split.
  - repeat constructor.
  - apply key_ops_keyed.
Qed.

Lemma disconnected_keyed c connected order :
  Forall (fun o => op_peer o = c_peer c) (disconnected_ops c connected order).
Proof. unfold disconnected_ops. destruct connected; repeat constructor. Qed.
End Keyed.

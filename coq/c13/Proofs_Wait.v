(* C13 — IdentifyWait as a safety property of the transition system: wait
   channels are registered under fresh ids, a connection's channel stays the
   same while its entry lives, a closed channel stays closed, a channel whose
   identify exchange has finished is closed, and a waiter that registers for a
   closed, forgotten connection gets an already closed channel. *)
From Coq Require Import List ZArith NArith Bool Lia.
From Verif Require Import lib.Wire c09.Abs c08.SymCrypto gen.Consts_c13 c13.Model c13.Spec
  c13.Proofs_Book c13.Proofs_Store c13.Proofs_Sys c13.Proofs_Inv.
Import ListNotations.
Local Open Scope Z_scope.

Lemma alist_get_filter_self {V} c (l : list (Z * V)) :
  alist_get c (filter (fun x => negb (fst x =? c)) l) = None.
Proof.
  induction l as [|[a b] l IH]; [reflexivity|]. cbn. destruct (a =? c) eqn:E; cbn; [exact IH|]. now rewrite E.
Qed.

Lemma alist_get_filter_some {V} c c0 (l : list (Z * V)) v :
  alist_get c (filter (fun x => negb (fst x =? c0)) l) = Some v -> alist_get c l = Some v.
Proof.
  destruct (Z.eq_dec c c0) as [->|N]; [now rewrite alist_get_filter_self|].
  now rewrite alist_get_filter_other by exact N.
Qed.

Lemma close_chan_fst ch l : map fst (close_chan ch l) = map fst l.
Proof.
  unfold close_chan. rewrite map_map. apply map_ext. intros [x b]. cbn. destruct (x =? ch); reflexivity.
Qed.

Lemma close_all_fst (tasks : list (Z * Z)) : forall l,
  map fst (fold_left (fun l (t : Z * Z) => close_chan (fst t) l) tasks l) = map fst l.
Proof. induction tasks as [|t tasks IH]; intros l; cbn; [reflexivity|]. now rewrite IH, close_chan_fst. Qed.

Lemma close_chan_closed ch l x : In (x, true) l -> In (x, true) (close_chan ch l).
Proof.
  intros H. unfold close_chan. apply in_map_iff. exists (x, true). split; [|exact H]. cbn. destruct (x =? ch); reflexivity.
Qed.

Lemma close_all_closed (tasks : list (Z * Z)) x : forall l, In (x, true) l ->
  In (x, true) (fold_left (fun l (t : Z * Z) => close_chan (fst t) l) tasks l).
Proof. induction tasks as [|t tasks IH]; intros l H; cbn; [exact H|]. apply IH. now apply close_chan_closed. Qed.

Lemma close_all_open_in (tasks : list (Z * Z)) x : forall l,
  In (x, false) (fold_left (fun l (t : Z * Z) => close_chan (fst t) l) tasks l) -> In (x, false) l.
Proof. intros l H. now apply close_all_open in H. Qed.

Section Wait.
Variable g : cfg.
Notation K := (inline_of (g_inline g)).
Notation conns := (g_conns g).

Record WInv (s : sys) : Prop := mkWInv {
  w_next : 0 < s_next s;
  w_fresh : forall x, In x (map fst (s_chans s)) -> 0 < x < s_next s;
  w_reg : forall c ch, alist_get c (s_entries s) = Some ch -> ch <> 0 -> In ch (map fst (s_chans s)) }.

(* what one step does to the wait bookkeeping *)
Inductive wstep (s s' : sys) : Prop :=
| WSame : s_entries s' = s_entries s -> s_chans s' = s_chans s -> s_tasks s' = s_tasks s -> s_next s' = s_next s -> wstep s s'
| WForget c : s_entries s' = filter (fun x => negb (fst x =? c)) (s_entries s) ->
    s_chans s' = s_chans s -> s_tasks s' = s_tasks s -> s_next s' = s_next s -> wstep s s'
| WMark c : alist_get c (s_entries s) = None -> s_entries s' = alist_set c 0 (s_entries s) ->
    s_chans s' = s_chans s -> s_tasks s' = s_tasks s -> s_next s' = s_next s -> wstep s s'
| WNew c (reg b : bool) : s_entries s' = (if reg then alist_set c (s_next s) (s_entries s) else s_entries s) ->
    s_chans s' = (s_next s, b) :: s_chans s -> s_next s' = s_next s + 1 -> wstep s s'
| WClose : s_entries s' = s_entries s -> map fst (s_chans s') = map fst (s_chans s) ->
    (forall x, In (x, true) (s_chans s) -> In (x, true) (s_chans s')) ->
    (forall x, In (x, false) (s_chans s') -> In (x, false) (s_chans s)) ->
    s_next s' = s_next s -> wstep s s'.

Lemma wstep_inv s s' : wstep s s' -> WInv s -> WInv s'.
Proof.
  intros W [Hn Hf Hr]. destruct W as [E1 E2 E3 E4|c E1 E2 E3 E4|c Ec E1 E2 E3 E4|c reg b E1 E2 E4|E1 E2 _ _ E4].
  - constructor; rewrite ?E1, ?E2, ?E4; assumption.
  - constructor; rewrite ?E2, ?E4; try assumption. intros c0 ch H. rewrite E1 in H.
    apply alist_get_filter_some in H. now apply (Hr c0).
  - constructor; rewrite ?E2, ?E4; try assumption. intros c0 ch H Hne. rewrite E1 in H.
    destruct (Z.eq_dec c0 c) as [->|N].
    + rewrite alist_get_set_same in H. congruence.
    + rewrite alist_get_set_other in H by exact N. now apply (Hr c0).
  - constructor; rewrite ?E2, ?E4.
    + lia.
    + intros x [<-|H]; cbn; [lia|]. specialize (Hf x H). lia.
    + intros c0 ch H Hne. rewrite E1 in H. cbn [map fst]. destruct reg; [|right; now apply (Hr c0)].
      destruct (Z.eq_dec c0 c) as [->|N].
      * rewrite alist_get_set_same in H. inversion H. now left.
      * rewrite alist_get_set_other in H by exact N. right. now apply (Hr c0).
  - constructor; rewrite ?E1, ?E2, ?E4; assumption.
Qed.

(* a channel that is closed and not open stays so *)
Lemma wstep_closed_stable s s' x : wstep s s' -> WInv s ->
  In (x, true) (s_chans s) -> ~ In (x, false) (s_chans s) ->
  In (x, true) (s_chans s') /\ ~ In (x, false) (s_chans s').
Proof.
  intros W [Hn Hf Hr] Ht Hno.
  destruct W as [E1 E2 E3 E4|c E1 E2 E3 E4|c Ec E1 E2 E3 E4|c reg b E1 E2 E4|E1 E2 Hc Ho E4]; rewrite ?E2.
  - tauto.
  - tauto.
  - tauto.
  - split; [now right|]. intros [E|H]; [|tauto]. inversion E; subst.
    assert (In (s_next s) (map fst (s_chans s))) as Hi by (apply in_map_iff; exists (s_next s, true); tauto).
    specialize (Hf _ Hi). lia.
  - split; [now apply Hc|]. intros H. now apply Hno, Ho.
Qed.

Lemma spawn_wstep s c : wstep s (fst (spawn (g_timeout g) s c)).
Proof.
  unfold spawn. destruct (g_timeout g =? 0); cbn [fst];
    [now apply (WNew s _ c true true)|now apply (WNew s _ c true false)].
Qed.

Lemma identify_wait_wstep s c : wstep s (fst (identify_wait (g_timeout g) s c)).
Proof.
  unfold identify_wait. destruct (alist_get c (s_entries s)) as [ch|] eqn:E.
  - destruct (ch =? 0); [apply spawn_wstep|now apply WSame].
  - destruct (zin c (s_closed s)); [cbn [fst]; now apply (WNew s _ c false true)|apply spawn_wstep].
Qed.

Lemma finish_task_wstep s ch : wstep s (finish_task s ch).
Proof.
  apply WClose; cbn; try reflexivity.
  - apply close_chan_fst.
  - intros x. apply close_chan_closed.
  - intros x H. now apply close_chan_open in H.
Qed.

Lemma wstep_ps s s' ps : wstep s s' -> wstep (with_ps s ps) s' .
Proof. intros W. destruct W; [eapply WSame|eapply WForget|eapply WMark|eapply WNew|eapply WClose]; eassumption. Qed.

Lemma wstep_trans_same s s1 s' : s_entries s1 = s_entries s -> s_chans s1 = s_chans s -> s_tasks s1 = s_tasks s ->
  s_next s1 = s_next s -> s_closed s1 = s_closed s -> wstep s1 s' -> wstep s s'.
Proof.
  intros E1 E2 E3 E4 E5 W.
  destruct W as [F1 F2 F3 F4|c F1 F2 F3 F4|c Fc F1 F2 F3 F4|c reg b F1 F2 F4|F1 F2 Hc Ho F4];
    rewrite ?E1, ?E2, ?E3, ?E4 in *; [eapply WSame|eapply WForget|eapply WMark|eapply WNew|eapply WClose]; eassumption.
Qed.

Lemma alist_set_set {V} c (v w : V) l : alist_set c v (alist_set c w l) = alist_set c v l.
Proof.
  unfold alist_set. f_equal. cbn. rewrite Z.eqb_refl. cbn. rewrite filter_and. apply filter_ext.
  intros x. now destruct (fst x =? c).
Qed.

Lemma step_wstep s o s' mo : gstep g s o = (s', mo) -> wstep s s'.
Proof.
  unfold gstep. destruct o; cbn [step]; intros H.
  - inversion H. now apply WSame.
  - inversion H. now apply WSame.
  - inversion H. destruct (alist_get c (s_entries s)) as [ch|] eqn:E; [apply identify_wait_wstep|].
    unfold identify_wait, spawn. cbn [s_entries]. rewrite alist_get_set_same, Z.eqb_refl.
    destruct (g_timeout g =? 0); cbn [fst];
      [apply (WNew s _ c true true)|apply (WNew s _ c true false)]; cbn; try reflexivity; apply alist_set_set.
  - destruct (conn_of conns c); inversion H; now apply (WForget s _ c).
  - destruct (identify_wait (g_timeout g) s c) as [s1 ch] eqn:W. inversion H. subst.
    change s' with (fst (s', ch)). rewrite <- W. apply identify_wait_wstep.
  - destruct (negb _); [inversion H; now apply WSame|]. destruct out as [| |cs].
    + inversion H. apply finish_task_wstep.
    + inversion H. apply finish_task_wstep.
    + destruct (handle_response sym_v id_of_n K conns (g_timeout g) s c cs false) as [[[s1 calls] evs]|] eqn:Hr.
      * apply (handle_response_spec g) in Hr. destruct Hr as [cn [m [_ [_ [_ [-> _]]]]]]. inversion H.
        apply (wstep_trans_same s (with_ps s (apply_ops id_of_n K (s_ps s) calls))); try reflexivity.
        apply finish_task_wstep.
      * inversion H. apply finish_task_wstep.
  - destruct (handle_response sym_v id_of_n K conns (g_timeout g) s c cs true) as [[[s1 calls] evs]|] eqn:Hr.
    + apply (handle_response_spec g) in Hr. destruct Hr as [cn [m [_ [_ [_ [-> _]]]]]]. inversion H. now apply WSame.
    + inversion H. subst. now apply WSame.
  - inversion H. apply WClose; cbn; try reflexivity.
    + apply close_all_fst.
    + intros x. apply close_all_closed.
    + intros x. apply close_all_open_in.
Qed.

Lemma step_winv s o s' mo : gstep g s o = (s', mo) -> WInv s -> WInv s'.
Proof. intros H. apply wstep_inv. now apply (step_wstep s o s' mo). Qed.

Lemma run_winv ops : forall s, WInv s -> WInv (run g s ops).
Proof.
  induction ops as [|o ops IH]; intros s H; [exact H|]. cbn [run]. apply IH.
  destruct (gstep g s o) as [s' mo] eqn:E. cbn [fst]. now apply (step_winv s o s' mo E).
Qed.

Lemma init_winv : WInv (init_sys g).
Proof. constructor; cbn; [lia|intros x []|intros c ch H; discriminate]. Qed.

(* the exchange for a connection's wait channel has finished => the channel is closed *)
Lemma finished_closed s c ch : WInv s ->
  (forall x, In (x, false) (s_chans s) -> In x (map fst (s_tasks s))) ->
  alist_get c (s_entries s) = Some ch -> ch <> 0 -> ~ In ch (map fst (s_tasks s)) ->
  In (ch, true) (s_chans s) /\ ~ In (ch, false) (s_chans s).
Proof.
  intros [_ _ Hr] Hw He Hne Hno. assert (Hopen : ~ In (ch, false) (s_chans s)) by (intros H; apply Hno, Hw, H).
  split; [|exact Hopen]. specialize (Hr c ch He Hne). apply in_map_iff in Hr. destruct Hr as [[x b] [E Hi]].
  cbn in E. subst x. destruct b; [exact Hi|tauto].
Qed.

(* a waiter for a connection that still has its channel gets that channel and
   changes nothing; a waiter for a closed connection the service has forgotten
   gets a fresh, already closed channel and starts no task *)
Lemma waiter_same s c ch : alist_get c (s_entries s) = Some ch -> ch <> 0 -> identify_wait (g_timeout g) s c = (s, ch).
Proof.
  intros He Hne. unfold identify_wait. rewrite He. apply Z.eqb_neq in Hne. now rewrite Hne.
Qed.

Lemma waiter_late s c : WInv s -> alist_get c (s_entries s) = None -> zin c (s_closed s) = true ->
  let '(s', ch) := identify_wait (g_timeout g) s c in
  In (ch, true) (s_chans s') /\ ~ In (ch, false) (s_chans s') /\ s_tasks s' = s_tasks s /\
  s_entries s' = s_entries s.
Proof.
  intros [_ Hf _] He Hc. unfold identify_wait. rewrite He, Hc. cbn. repeat split; [now left|].
  intros [E|H]; [inversion E|].
  assert (In (s_next s) (map fst (s_chans s))) as Hi by (apply in_map_iff; exists (s_next s, false); tauto).
  specialize (Hf _ Hi). lia.
Qed.

Lemma step_closed_stable s o s' mo x : gstep g s o = (s', mo) -> WInv s ->
  In (x, true) (s_chans s) -> ~ In (x, false) (s_chans s) ->
  In (x, true) (s_chans s') /\ ~ In (x, false) (s_chans s').
Proof. intros H. apply wstep_closed_stable. now apply (step_wstep s o s' mo). Qed.

End Wait.

(* C13 — every step keeps the invariant, and the monitor's view of the swarm
   (connection table, pending notifications) is the model's. *)
From Coq Require Import List ZArith NArith Bool Lia.
From Verif Require Import lib.Wire c09.Abs c08.SymCrypto gen.Consts_c13 c13.Model c13.Spec
  c13.Proofs c13.Proofs_Book c13.Proofs_Store c13.Proofs_Consume c13.Proofs_Msg c13.Proofs_Sys.
Import ListNotations.
Local Open Scope Z_scope.

Section Inv.
Variable g : cfg.
Notation K := (inline_of (g_inline g)).
Notation conns := (g_conns g).
Notation appl := (apply_ops id_of_n K).
Notation peer := (peer_of conns).

Lemma step_net s o s' mo : gstep g s o = (s', mo) -> (s_net s', s_pend s') = mon_net g (mon_of g s) o.
Proof.
  unfold gstep. destruct o; cbn [step mon_net mon_of mn_net mn_pend].
  - intros H. now inversion H.
  - intros H. now inversion H.
  - intros H. inversion H.
    destruct (identify_wait_fields g
                match alist_get c (s_entries s) with
                | Some _ => s
                | None => mkSys (s_ps s) (s_net s) (s_pend s) (s_closed s) (alist_set c 0 (s_entries s))
                                (s_chans s) (s_tasks s) (s_next s)
                end c) as [_ [H3 [H4 _]]].
    rewrite H3, H4. destruct (alist_get c (s_entries s)); reflexivity.
  - destruct (conn_of conns c); intros H; now inversion H.
  - destruct (identify_wait (g_timeout g) s c) as [s1 ch] eqn:W. intros H. inversion H. subst.
    pose proof (identify_wait_fields g s c) as F. rewrite W in F. cbn in F. destruct F as [_ [-> [-> _]]]. reflexivity.
  - destruct (negb _); [intros H; now inversion H|]. destruct out as [| |cs]; try (intros H; now inversion H).
    destruct (handle_response sym_v id_of_n K conns (g_timeout g) s c cs false) as [[[s1 calls] evs]|] eqn:Hr.
    + apply (handle_response_spec g) in Hr. destruct Hr as [cn [m [_ [_ [_ [-> _]]]]]]. intros H. now inversion H.
    + intros H. now inversion H.
  - destruct (handle_response sym_v id_of_n K conns (g_timeout g) s c cs true) as [[[s1 calls] evs]|] eqn:Hr.
    + apply (handle_response_spec g) in Hr. destruct Hr as [cn [m [_ [_ [_ [-> _]]]]]]. intros H. now inversion H.
    + intros H. now inversion H.
  - intros H. now inversion H.
Qed.

(* the wait bookkeeping *)
Lemma step_inv_wait s o s' mo : gstep g s o = (s', mo) ->
  (forall x, In (x, false) (s_chans s) -> In x (map fst (s_tasks s))) ->
  (forall x, In (x, false) (s_chans s') -> In x (map fst (s_tasks s'))).
Proof.
  unfold gstep. intros Hs Hw. destruct o; cbn [step] in Hs.
  - inversion Hs. exact Hw.
  - inversion Hs. exact Hw.
  - inversion Hs. apply identify_wait_inv_wait. destruct (alist_get c (s_entries s)); exact Hw.
  - destruct (conn_of conns c); inversion Hs; exact Hw.
  - destruct (identify_wait (g_timeout g) s c) as [s1 ch] eqn:W. inversion Hs. subst.
    change s' with (fst (s', ch)). rewrite <- W. now apply identify_wait_inv_wait.
  - destruct (negb _); [inversion Hs; subst; exact Hw|]. destruct out as [| |cs].
    + inversion Hs. now apply finish_task_inv_wait.
    + inversion Hs. now apply finish_task_inv_wait.
    + destruct (handle_response sym_v id_of_n K conns (g_timeout g) s c cs false) as [[[s1 calls] evs]|] eqn:Hr.
      * apply (handle_response_spec g) in Hr. destruct Hr as [cn [m [_ [_ [_ [-> _]]]]]]. inversion Hs.
        now apply finish_task_inv_wait.
      * inversion Hs. now apply finish_task_inv_wait.
  - destruct (handle_response sym_v id_of_n K conns (g_timeout g) s c cs true) as [[[s1 calls] evs]|] eqn:Hr.
    + apply (handle_response_spec g) in Hr. destruct Hr as [cn [m [_ [_ [_ [-> _]]]]]]. inversion Hs. exact Hw.
    + inversion Hs. subst. exact Hw.
  - inversion Hs. cbn. intros x Hx. apply close_all_open in Hx. destruct Hx as [Hx Hn]. apply Hw in Hx. tauto.
Qed.

(* with a zero timeout no identify exchange is ever left running *)
Lemma identify_wait_notasks s c : g_timeout g = 0 -> s_tasks (fst (identify_wait (g_timeout g) s c)) = s_tasks s.
Proof.
  intros Ht. unfold identify_wait, spawn. rewrite Ht. cbn [Z.eqb].
  destruct (alist_get c (s_entries s)) as [ch|]; [destruct (ch =? 0)|destruct (zin c (s_closed s))]; reflexivity.
Qed.

Lemma step_notasks s o s' mo : gstep g s o = (s', mo) -> g_timeout g = 0 -> s_tasks s = [] -> s_tasks s' = [].
Proof.
  unfold gstep. intros Hs Ht Hn. destruct o; cbn [step] in Hs.
  - inversion Hs. exact Hn.
  - inversion Hs. exact Hn.
  - inversion Hs. rewrite identify_wait_notasks by exact Ht. destruct (alist_get c (s_entries s)); exact Hn.
  - destruct (conn_of conns c); inversion Hs; exact Hn.
  - destruct (identify_wait (g_timeout g) s c) as [s1 ch] eqn:W. inversion Hs. subst.
    change s' with (fst (s', ch)). rewrite <- W. now rewrite identify_wait_notasks.
  - rewrite Hn in Hs. cbn in Hs. inversion Hs. subst. exact Hn.
  - destruct (handle_response sym_v id_of_n K conns (g_timeout g) s c cs true) as [[[s1 calls] evs]|] eqn:Hr.
    + apply (handle_response_spec g) in Hr. destruct Hr as [cn [m [_ [_ [_ [-> _]]]]]]. inversion Hs. exact Hn.
    + inversion Hs. subst. exact Hn.
  - inversion Hs. reflexivity.
Qed.

(* after the timeout step no wait channel is open *)
Lemma timeout_all_closed s d s' mo : gstep g s (OTimeout d) = (s', mo) ->
  (forall x, In (x, false) (s_chans s) -> In x (map fst (s_tasks s))) ->
  forall x, ~ In (x, false) (s_chans s').
Proof.
  unfold gstep. cbn [step]. intros Hs Hw x Hx. inversion Hs. subst. cbn in Hx.
  apply close_all_open in Hx. destruct Hx as [Hx Hn]. apply Hw in Hx. tauto.
Qed.

(* noconn seen through the dump *)
Lemma noconn_dump s q :
  noconn (ps_book s) q <-> (forall a t, In (a, t) (d_addrs (dump_peer s q)) -> t <> ConnectedAddrTTL).
Proof.
  unfold noconn, pall. split.
  - intros H a t Hi. apply in_dump in Hi. destruct Hi as [e [He [Hp [_ <-]]]]. now apply H.
  - intros H e He Hp. apply (H (ea e) (ettl e)). apply in_dump. exists e. tauto.
Qed.

Lemma noconn_frame s l p q : Forall (fun o => op_peer o = p) l -> q <> p -> book_ok (ps_book s) ->
  noconn (ps_book s) q -> noconn (ps_book (appl s l)) q.
Proof.
  intros Hf Hq Ho H. apply noconn_dump. rewrite (apply_ops_frame id_of_n K l s p q Hf Hq Ho). now apply noconn_dump.
Qed.

Lemma step_inv s o s' mo : gstep g s o = (s', mo) -> Inv g s -> Inv g s'.
Proof.
  intros Hs [Hb Hw Hc]. pose proof (step_shape g s o s' mo Hs) as Sh. pose proof (step_net s o s' mo Hs) as Hn.
  constructor.
  - (* book *)
    destruct Sh as [E _ _ _|c cs cn m push _ _ _ _ _ E _|c order cn _ _ _ _ E _|d _ E _].
    + now rewrite E.
    + rewrite E. now apply apply_ops_ok.
    + rewrite E. now apply apply_ops_ok.
    + rewrite E. cbn. now apply a_advance_ok.
  - now apply (step_inv_wait s o s' mo Hs).
  - intros q Hq0. specialize (Hc q Hq0). cbn [mon_of mn_net mn_pend] in Hn.
    destruct Sh as [E Ec Ee Hnt|c cs cn m push Hm Hsub Hcn Hr Ec E Ee|c order cn Ho Hcn Hnc Ec E Ee|d Ho E Ec].
    + (* quiet *)
      rewrite E. destruct o; cbn [mon_net mon_of mn_net mn_pend] in Hn; inversion Hn as [[Hn1 Hn2]];
        rewrite ?Hn1, ?Hn2; clear Hn Hn1 Hn2; try exact Hc.
      * (* NetAdd *)
        destruct Hc as [Hc|Hc]; [|right; exact Hc]. left.
        destruct (zin c (s_net s)); [exact Hc|]. rewrite connected_cons, Hc. apply orb_true_r.
      * (* NetRemove *)
        destruct Hc as [Hc|[Hc|Hc]]; [|right; left|right; right; exact Hc].
        -- destruct (connected_remove g c (s_net s) q Hc) as [H|[H1 H2]]; [now left|]. right. left.
           apply pending_in. exists c. split; [|exact H2].
           apply zin_in in H1. rewrite H1. cbn [andb]. destruct (zin c (s_pend s)) eqn:Z; cbn [negb].
           ++ now apply zin_in.
           ++ now left.
        -- apply pending_in in Hc. destruct Hc as [d [Hd E2]]. apply pending_in. exists d. split; [|exact E2].
           destruct (zin c (s_net s) && negb (zin c (s_pend s))); [now right|exact Hd].
      * (* Disconnected that changes nothing in the book *)
        destruct Hc as [Hc|[Hc|Hc]]; [now left| |right; right; exact Hc].
        destruct (Z.eq_dec (peer c) q) as [Epq|Npq]; [|right; left; now apply pending_remove].
        (* the notification is about q itself: it was quiet, so q is still connected *)
        left. unfold gstep in Hs. cbn [step] in Hs. destruct (conn_of conns c) as [cn|] eqn:C.
        -- rewrite (peer_conn g c cn C) in Epq. subst q.
           destruct (connected conns (s_net s) (c_peer cn)) eqn:Cn; [reflexivity|].
           inversion Hs as [[Hs1 Hs2]]. rewrite <- Hs2 in Ec. cbn in Ec. discriminate.
        -- unfold peer_of in Epq. rewrite C in Epq. congruence.
    + (* a message was consumed: table and pending unchanged *)
      assert (Hnet : s_net s' = s_net s /\ s_pend s' = s_pend s).
      { destruct o; cbn in Hm; try discriminate; cbn [mon_net mn_net mn_pend] in Hn; now inversion Hn. }
      destruct Hnet as [-> ->]. rewrite E, Ec.
      pose proof (consume_keyed sym_v id_of_n K (s_ps s) m cn (connected conns (s_net s) (c_peer cn))) as Hk.
      destruct (Z.eq_dec q (c_peer cn)) as [->|Nq].
      * destruct (connected conns (s_net s) (c_peer cn)) eqn:Cn; [now left|]. right. right.
        unfold noconn. rewrite consume_book. apply consumed_noconn.
      * destruct Hc as [Hc|[Hc|Hc]]; [now left|right; now left|]. right. right.
        now apply (noconn_frame (s_ps s) _ (c_peer cn) q).
    + (* last disconnect *)
      subst o. cbn [mon_net mn_net mn_pend] in Hn. inversion Hn as [[Hn1 Hn2]]. rewrite Hn1, Hn2, E, Ec.
      pose proof (disconnected_keyed cn false order) as Hk.
      destruct (Z.eq_dec q (c_peer cn)) as [->|Nq].
      * right. right. unfold noconn. rewrite disconnected_book. apply disconnected_noconn.
      * destruct Hc as [Hc|[Hc|Hc]]; [now left| |].
        -- right. left. apply pending_remove; [exact Hc|]. rewrite (peer_conn g c cn Hcn). congruence.
        -- right. right. now apply (noconn_frame (s_ps s) _ (c_peer cn) q).
    + subst o. cbn [mon_net mn_net mn_pend] in Hn. inversion Hn as [[Hn1 Hn2]]. rewrite Hn1, Hn2, E.
      destruct Hc as [Hc|[Hc|Hc]]; [now left|right; now left|]. right. right. cbn. now apply advance_preserve.
Qed.

End Inv.

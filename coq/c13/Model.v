(* C13 — Identify attribution.  Executable model transcribed from
   /repo/p2p/protocol/identify/id.go (consumeMessage, consumeSignedPeerRecord,
   consumeReceivedPubKey, readAllIDMessages, IdentifyWait, netNotifiee.Connected /
   Disconnected, filterAddrs) over the abstract address book of C09
   (c09.Abs: the book pstoremem / pstoreds are shown to refine there) and the
   proto / key / metadata books of pstoremem.  No proofs in this file.

   consume produces the LIST OF PEERSTORE CALLS identify makes ([psop]); the
   harness records the calls the real code makes through a recording wrapper
   of the peerstore and the conformance compares the two lists verbatim.

   External behaviour enters as Section variables:
     verify     : signature verification of an envelope (ideal scheme, c08.SymCrypto)
     id_of      : peer.IDFromPublicKey
     inline_key : peer.ID.ExtractPublicKey (Ed25519 IDs embed the key)          *)
From Coq Require Import List ZArith NArith Bool.
From Verif Require Import c09.Abs c08.SymCrypto gen.Consts_c13.
Import ListNotations.
Local Open Scope Z_scope.

(* ---- what an Identify message carries ------------------------------------ *)
(* an address as the remote wrote it:
     w_id   > 0  transport address number;  0 = no transport part (bare /p2p/q);
            -1   bytes that do not parse as a multiaddr
     w_cls  0 loopback | 1 private | 2 public | 3 none of these   (manet predicates)
     w_sfx  0 = no /p2p suffix | q > 0 = /p2p/<peer q>                           *)
Record waddr := mkW { w_id : Z; w_cls : Z; w_sfx : Z }.

Inductive keyfield := KAbsent | KGarbage | KKey (k : N).

(* signed peer record: envelope{public key, payload type, payload, signature} *)
Record prec := mkPR { pr_peer : Z; pr_seq : Z; pr_addrs : list waddr }.
Record envelope := mkEnv { e_pub : N; e_ptype : Z; e_rec : prec; e_sig : term }.
Inductive recfield := RAbsent | RGarbage | REnv (e : envelope).

(* payload types: 1 = peer record, 2 = another registered record type, other = not registered *)
Definition PT_PEER : Z := 1.
Definition PT_OTHER : Z := 2.
(* signature domains: 1 = peer.PeerRecordEnvelopeDomain *)
Definition DOM_PEER : Z := 1.

Definition enc_addr (w : waddr) : list N := [Z.to_N (w_id w + 1); Z.to_N (w_cls w); Z.to_N (w_sfx w)].
Definition enc_rec (r : prec) : term :=
  TBytes (Z.to_N (pr_peer r) :: Z.to_N (pr_seq r) :: flat_map enc_addr (pr_addrs r)).
(* what Envelope.validate checks the signature against: domain, payload type, payload *)
Definition signed_msg (dom ptype : Z) (r : prec) : term :=
  TPair (TBytes [Z.to_N dom]) (TPair (TBytes [Z.to_N ptype]) (enc_rec r)).

Record msg := mkMsg {
  m_protos : list Z; m_listen : list waddr; m_pv : Z; m_av : Z;
  m_key : keyfield; m_rec : recfield }.

(* one length-delimited protobuf message of the stream; c_big: larger than signedIDSize *)
Record chunk := mkChunk { c_big : bool; c_msg : msg }.

Definition empty_msg : msg := mkMsg [] [] 0 0 KAbsent RAbsent.

(* proto.Merge: repeated fields append, set scalar / bytes fields overwrite *)
Definition merge2 (a b : msg) : msg :=
  mkMsg (m_protos a ++ m_protos b) (m_listen a ++ m_listen b)
        (if m_pv b =? 0 then m_pv a else m_pv b)
        (if m_av b =? 0 then m_av a else m_av b)
        (match m_key b with KAbsent => m_key a | k => k end)
        (match m_rec b with RAbsent => m_rec a | r => r end).

(* readAllIDMessages: at most maxMessages reads, the last of which must be EOF *)
Definition read_all (cs : list chunk) : option msg :=
  if existsb c_big (firstn (Z.to_nat maxMessages) cs) then None
  else if maxMessages <=? Z.of_nat (length cs) then None
  else Some (fold_left merge2 (map c_msg cs) empty_msg).

(* ---- connections ----------------------------------------------------------- *)
(* remote peer, class of the remote multiaddr (as w_cls), its address number,
   limited (relayed) connection *)
Record conn := mkConn { c_peer : Z; c_rcls : Z; c_rid : Z; c_limited : bool }.

(* ---- peerstore calls --------------------------------------------------------- *)
Inductive psop :=
| PSetProtocols (p : Z) (l : list Z)
| PUpdateAddrs (p old new : Z)
| PAddAddrs (p : Z) (l : list waddr) (ttl : Z)
| PPut (p key val : Z)              (* key 1 = "ProtocolVersion", 2 = "AgentVersion" *)
| PPubKey (p : Z)                   (* KeyBook.PubKey: a read that caches an embedded key *)
| PAddPubKey (p : Z) (k : N).

Definition op_peer (o : psop) : Z :=
  match o with
  | PSetProtocols p _ | PUpdateAddrs p _ _ | PAddAddrs p _ _ | PPut p _ _ | PPubKey p | PAddPubKey p _ => p
  end.

(* ---- the peerstore ------------------------------------------------------------ *)
Record pstore := mkPS {
  ps_book : abook;                     (* C09's abstract address book *)
  ps_protos : list (Z * list Z);
  ps_keys : list (Z * N);
  ps_meta : list (Z * Z * Z);          (* peer, key, value *)
  ps_maxprotos : Z;                    (* memoryProtoBook.maxProtos *)
  ps_pcap : Z;                         (* memoryAddrBook.maxAddrsPerPeer (0 = no cap) *)
  ps_maxu : Z }.                       (* memoryAddrBook.maxUnconnectedAddrs *)

Fixpoint alist_get {V} (p : Z) (l : list (Z * V)) : option V :=
  match l with [] => None | (q, v) :: r => if q =? p then Some v else alist_get p r end.
Definition alist_set {V} (p : Z) (v : V) (l : list (Z * V)) : list (Z * V) :=
  (p, v) :: filter (fun x => negb (fst x =? p)) l.

Definition meta_get (p k : Z) (l : list (Z * Z * Z)) : Z :=
  match find (fun x => (fst (fst x) =? p) && (snd (fst x) =? k)) l with Some x => snd x | None => 0 end.
Definition meta_set (p k v : Z) (l : list (Z * Z * Z)) : list (Z * Z * Z) :=
  (p, k, v) :: filter (fun x => negb ((fst (fst x) =? p) && (snd (fst x) =? k))) l.

(* the address as the book's API receives it (c09.Abs.raw): the suffix is
   judged relative to the peer the call is about *)
Definition to_raw (p : Z) (w : waddr) : raw :=
  (w_id w, if w_sfx w =? 0 then 0 else if w_sfx w =? p then 1 else 2).
(* peer.SplitAddr returns a nil transport for a bare /p2p/q: skipped by the book *)
Definition has_transport (w : waddr) : bool := negb (w_id w =? 0).

(* ---- AddAddrs with the book's per-peer cap (addr_book.go addAddrsUnlocked) ---------
   A known address is extended (never shortened).  A new one, when its TTL is
   below the connected class and the peer already holds [cap] addresses below
   that class, first evicts the peer's unconnected entry with the nearest
   expiry (dropped itself if there is none); entries in the connected class
   bypass the cap.  Among entries with the same expiry the implementation
   evicts whichever its map iteration meets first; the model takes the first
   in its list — the correspondence stops comparing a case once an eviction
   happened, the monitor keeps judging it. *)
Definition is_unconn (t : Z) : bool := t <? ConnectedAddrTTL.
Definition unconn_of (p : Z) (e : aent) : bool := (ep e =? p) && is_unconn (ettl e).

Fixpoint min_exp (l : list aent) : option aent :=
  match l with
  | [] => None
  | e :: r => match min_exp r with
              | Some m => if eexp m <? eexp e then Some m else Some e
              | None => Some e
              end
  end.

Definition must_evict (cap p ttl : Z) (ents : list aent) (a : Z) : bool :=
  match find_ent p a ents with
  | Some _ => false
  | None => (0 <? cap) && is_unconn ttl && (cap <=? Z.of_nat (length (filter (unconn_of p) ents)))
  end.

Definition cadd_one (cap p ttl now : Z) (ents : list aent) (a : Z) : list aent :=
  if must_evict cap p ttl ents a then
    match min_exp (filter (unconn_of p) ents) with
    | Some v => upsert_ext p a ttl (now + ttl) (remove_ent p (ea v) ents)
    | None => ents
    end
  else upsert_ext p a ttl (now + ttl) ents.

Definition cadd_list (cap p ttl now : Z) (l : list Z) (ents : list aent) : list aent :=
  fold_left (cadd_one cap p ttl now) l ents.

Definition c_add (cap : Z) (s : abook) (p : Z) (addrs : list raw) (ttl : Z) : abook :=
  if ttl <=? 0 then s
  else mk_norm (a_now s) (cadd_list cap p ttl (a_now s) (clean_addrs addrs) (a_ents s)) (a_recs s).

(* ---- the book-wide limit on unconnected addresses (maxUnconnectedAddrs) -----------
   NumUnconnectedAddrs(): every entry of the book below the connected class.
   AddAddrs with a TTL below the connected class is dropped as a whole when the
   book is at the limit.  UpdateAddrs moving entries out of the connected class
   moves them while there is room and deletes the rest (which ones get the room
   depends on the implementation's map iteration order; the model takes them in
   list order — identify deletes all that were moved at the end of the same
   step unless its AddAddrs kept them, and that AddAddrs is dropped whenever some
   entry found no room, so what is observed after the step does not depend on
   the choice). *)
Definition uall (l : list aent) : Z := Z.of_nat (length (filter (fun e => is_unconn (ettl e)) l)).

Definition gc_add (cap maxu : Z) (s : abook) (p : Z) (addrs : list raw) (ttl : Z) : abook :=
  if is_unconn ttl && (maxu <=? uall (a_ents s)) then s else c_add cap s p addrs ttl.

Fixpoint gupd_list (maxu p old new now u : Z) (l : list aent) : list aent :=
  match l with
  | [] => []
  | e :: r =>
      if (ep e =? p) && (ettl e =? old)
      then if maxu <=? u then gupd_list maxu p old new now u r
           else mkE (ep e) (ea e) new (now + new) :: gupd_list maxu p old new now (u + 1) r
      else e :: gupd_list maxu p old new now u r
  end.

Definition g_update (maxu : Z) (s : abook) (p old new : Z) : abook :=
  if negb (is_unconn old) && is_unconn new && negb (new =? 0)
  then mk_norm (a_now s) (gupd_list maxu p old new (a_now s) (uall (a_ents s)) (a_ents s)) (a_recs s)
  else a_update s p old new.

Section Ext.
Variable verify : N -> term -> term -> bool.
Variable id_of : N -> Z.
Variable inline_key : Z -> option N.

Definition cur_key (s : pstore) (p : Z) : option N :=
  match alist_get p (ps_keys s) with Some k => Some k | None => inline_key p end.

Definition apply_op (s : pstore) (o : psop) : pstore :=
  match o with
  | PSetProtocols p l =>
      if ps_maxprotos s <? Z.of_nat (length l) then s
      else mkPS (ps_book s) (alist_set p l (ps_protos s)) (ps_keys s) (ps_meta s) (ps_maxprotos s) (ps_pcap s) (ps_maxu s)
  | PUpdateAddrs p old new =>
      mkPS (g_update (ps_maxu s) (ps_book s) p old new) (ps_protos s) (ps_keys s) (ps_meta s) (ps_maxprotos s) (ps_pcap s) (ps_maxu s)
  | PAddAddrs p l ttl =>
      mkPS (gc_add (ps_pcap s) (ps_maxu s) (ps_book s) p (map (to_raw p) (filter has_transport l)) ttl)
           (ps_protos s) (ps_keys s) (ps_meta s) (ps_maxprotos s) (ps_pcap s) (ps_maxu s)
  | PPut p k v => mkPS (ps_book s) (ps_protos s) (ps_keys s) (meta_set p k v (ps_meta s)) (ps_maxprotos s) (ps_pcap s) (ps_maxu s)
  | PPubKey p =>
      match alist_get p (ps_keys s), inline_key p with
      | None, Some k => mkPS (ps_book s) (ps_protos s) (alist_set p k (ps_keys s)) (ps_meta s) (ps_maxprotos s) (ps_pcap s) (ps_maxu s)
      | _, _ => s
      end
  | PAddPubKey p k =>
      if id_of k =? p
      then mkPS (ps_book s) (ps_protos s) (alist_set p k (ps_keys s)) (ps_meta s) (ps_maxprotos s) (ps_pcap s) (ps_maxu s)
      else s
  end.

Definition apply_ops (s : pstore) (l : list psop) : pstore := fold_left apply_op l s.

(* ---- consumeMessage ------------------------------------------------------------- *)
Definition parse_addrs (l : list waddr) : list waddr := filter (fun w => negb (w_id w =? -1)) l.

(* filterAddrs by the class of the connection's remote address *)
Definition filter_addrs (rcls : Z) (l : list waddr) : list waddr :=
  if rcls =? 0 then l
  else if rcls =? 1 then filter (fun w => negb (w_cls w =? 0)) l
  else if rcls =? 2 then filter (fun w => w_cls w =? 2) l
  else l.

(* record.ConsumeEnvelope(bytes, PeerRecordEnvelopeDomain): signature over
   (domain, payload type, payload) under the envelope's key, and a registered
   payload type; any failure yields no envelope *)
Definition envelope_ok (e : envelope) : bool :=
  verify (e_pub e) (signed_msg DOM_PEER (e_ptype e) (e_rec e)) (e_sig e)
  && ((e_ptype e =? PT_PEER) || (e_ptype e =? PT_OTHER)).

Definition rec_of_msg (m : msg) : option envelope :=
  match m_rec m with
  | REnv e => if envelope_ok e then Some e else None
  | _ => None
  end.

(* consumeSignedPeerRecord *)
Definition consume_signed (p : Z) (e : envelope) : option (list waddr) :=
  if negb (id_of (e_pub e) =? p) then None
  else if negb (e_ptype e =? PT_PEER) then None
  else if negb (pr_peer (e_rec e) =? p) then None
  else Some (parse_addrs (pr_addrs (e_rec e))).

(* is the record handed on as the remote peer's record (the event's
   SignedPeerRecord): only when it verified and consumeSignedPeerRecord took it *)
Definition record_used (p : Z) (m : msg) : bool :=
  match rec_of_msg m with
  | Some e => match consume_signed p e with Some _ => true | None => false end
  | None => false
  end.

Definition source_addrs (p : Z) (m : msg) : list waddr :=
  match rec_of_msg m with
  | Some e => match consume_signed p e with Some l => l | None => [] end
  | None => parse_addrs (m_listen m)
  end.

(* consumeReceivedPubKey (remote peer IDs are never empty) *)
Definition key_ops (s : pstore) (p : Z) (kf : keyfield) : list psop :=
  match kf with
  | KKey k =>
      if id_of k =? p
      then PPubKey p :: match cur_key s p with None => [PAddPubKey p k] | Some _ => [] end
      else []
  | _ => []
  end.

Definition consume_addrs (c : conn) (m : msg) : list waddr :=
  firstn (Z.to_nat connectedPeerMaxAddrs) (filter_addrs (c_rcls c) (source_addrs (c_peer c) m)).

Definition consume (s : pstore) (m : msg) (c : conn) (connected : bool) : list psop :=
  let p := c_peer c in
  [ PSetProtocols p (firstn (Z.to_nat maxPeerProtocols) (m_protos m));
    PUpdateAddrs p RecentlyConnectedAddrTTL TempAddrTTL;
    PUpdateAddrs p ConnectedAddrTTL TempAddrTTL;
    PAddAddrs p (consume_addrs c m) (if connected then ConnectedAddrTTL else RecentlyConnectedAddrTTL);
    PUpdateAddrs p TempAddrTTL 0;
    PPut p 1 (m_pv m);
    PPut p 2 (m_av m) ] ++ key_ops s p (m_key m).

(* netNotifiee.Disconnected, address part.  [order]: the order in which the
   book's map iteration returned Addrs(p) (after the swap that moves the
   connection's remote address to the front) — a nondeterministic choice of
   the implementation, an oracle input here *)
Definition disconnected_ops (c : conn) (connected : bool) (order : list waddr) : list psop :=
  if connected then []
  else [ PUpdateAddrs (c_peer c) ConnectedAddrTTL TempAddrTTL;
         PAddAddrs (c_peer c) (firstn (Z.to_nat recentlyConnectedPeerMaxAddrs) order) RecentlyConnectedAddrTTL;
         PUpdateAddrs (c_peer c) TempAddrTTL 0 ].

End Ext.

(* ---- the identify service as a transition system -------------------------------- *)
(* Atomic steps = the mutex-protected sections of id.go: connsMu protects
   [entries]; addrMu makes "read Connectedness; rewrite the peer's address
   TTLs" one step both in consumeMessage and in Disconnected.  The swarm is
   the environment: [s_net] is its connection table (what Connectedness
   reads), a connection removed from it is [s_pend]ing until its Disconnected
   notification is delivered. *)
Inductive outcome := FErrStream | FErrRead | FResp (cs : list chunk).

Inductive op :=
| ONetAdd (c : Z)                          (* swarm adds the connection to its table *)
| ONetRemove (c : Z)                       (* swarm drops it; c.IsClosed() from now on *)
| OConnected (c : Z)                       (* notifiee.Connected *)
| ODisconnected (c : Z) (order : list waddr)   (* notifiee.Disconnected *)
| OWait (c : Z)                            (* IdentifyWait(c) called by a user *)
| OFinish (ch c : Z) (out : outcome)       (* the identify task (wait channel ch, connection c) gets its answer *)
| OPush (c : Z) (cs : list chunk)          (* an identify-push stream arrives on c *)
| OTimeout (d : Z).                        (* d >= the identify timeout elapses *)

(* events: 1 = EvtPeerIdentificationCompleted, 2 = EvtPeerIdentificationFailed,
   3 = EvtPeerProtocolsUpdated; with the peer they name.  A Completed event
   whose SignedPeerRecord is set is followed by 4 = the peer whose key sealed
   that envelope, 5 = the peer the record in it names *)
Definition event := (Z * Z)%type.

Record sys := mkSys {
  s_ps : pstore;
  s_net : list Z;
  s_pend : list Z;
  s_closed : list Z;                 (* connections whose IsClosed() is true *)
  s_entries : list (Z * Z);          (* ids.conns: connection -> wait channel (0 = none yet) *)
  s_chans : list (Z * bool);         (* wait channels handed out, newest first: id, closed *)
  s_tasks : list (Z * Z);            (* running identify tasks: wait channel, connection *)
  s_next : Z }.                      (* next channel id *)

(* what one step shows: the peerstore calls made, the events emitted, the
   channel IdentifyWait returned (0 = not that kind of step) *)
Record sobs := mkObs { o_calls : list psop; o_events : list event; o_ret : Z }.

Definition zin (x : Z) (l : list Z) : bool := existsb (Z.eqb x) l.
Definition zremove (x : Z) (l : list Z) : list Z := filter (fun y => negb (y =? x)) l.

Section Sys.
Variable verify : N -> term -> term -> bool.
Variable id_of : N -> Z.
Variable inline_key : Z -> option N.
Variable conns : list (Z * conn).       (* the connections of the universe *)
Variable timeout : Z.                   (* the configured identify timeout, ns *)

Definition conn_of (c : Z) : option conn := alist_get c conns.
Definition peer_of (c : Z) : Z := match conn_of c with Some x => c_peer x | None => 0 end.

(* Network.Connectedness(p) is Connected or Limited *)
Definition connected (net : list Z) (p : Z) : bool :=
  existsb (fun c => peer_of c =? p) net.

Definition with_ps (s : sys) (ps : pstore) : sys :=
  mkSys ps (s_net s) (s_pend s) (s_closed s) (s_entries s) (s_chans s) (s_tasks s) (s_next s).

Definition close_chan (ch : Z) (l : list (Z * bool)) : list (Z * bool) :=
  map (fun x => if fst x =? ch then (fst x, true) else x) l.

(* a new wait channel for c and its identify exchange.  identifyConn bounds the
   exchange by context.WithTimeout(timeout): with a zero timeout the context has
   expired before the stream is opened, the exchange fails on the spot and the
   channel is closed at once *)
Definition spawn (s : sys) (c : Z) : sys * Z :=
  if timeout =? 0
  then (mkSys (s_ps s) (s_net s) (s_pend s) (s_closed s) (alist_set c (s_next s) (s_entries s))
              ((s_next s, true) :: s_chans s) (s_tasks s) (s_next s + 1), s_next s)
  else (mkSys (s_ps s) (s_net s) (s_pend s) (s_closed s) (alist_set c (s_next s) (s_entries s))
              ((s_next s, false) :: s_chans s) ((s_next s, c) :: s_tasks s) (s_next s + 1), s_next s).

(* does IdentifyWait(c) start an exchange *)
Definition spawns (s : sys) (c : Z) : bool :=
  match alist_get c (s_entries s) with
  | None => negb (zin c (s_closed s))
  | Some ch => ch =? 0
  end.

(* IdentifyWait *)
Definition identify_wait (s : sys) (c : Z) : sys * Z :=
  match alist_get c (s_entries s) with
  | None =>
      if zin c (s_closed s)
      then (* a fresh, already closed channel; nothing is tracked *)
        (mkSys (s_ps s) (s_net s) (s_pend s) (s_closed s) (s_entries s)
               ((s_next s, true) :: s_chans s) (s_tasks s) (s_next s + 1), s_next s)
      else spawn s c
  | Some ch => if ch =? 0 then spawn s c else (s, ch)
  end.

(* the Failed event of an exchange that a zero timeout kills at once *)
Definition wait_events (s : sys) (c : Z) : list (Z * Z) :=
  if spawns s c && (timeout =? 0) then [(2, peer_of c)] else [].

(* handleIdentifyResponse on connection c *)
Definition handle_response (s : sys) (c : Z) (cs : list chunk) (push : bool) : option (sys * list psop * list event) :=
  match conn_of c, (if push && (timeout =? 0) then None else read_all cs) with
  | Some cn, Some m =>
      let calls := consume verify id_of inline_key (s_ps s) m cn (connected (s_net s) (c_peer cn)) in
      Some (with_ps s (apply_ops id_of inline_key (s_ps s) calls), calls,
            (if push then [(3, c_peer cn)] else []) ++ [(1, c_peer cn)]
            ++ (if record_used verify id_of (c_peer cn) m then [(4, c_peer cn); (5, c_peer cn)] else []))
  | _, _ => None
  end.

Definition advance_book (s : sys) (d : Z) : sys :=
  with_ps s (mkPS (a_advance (ps_book (s_ps s)) d) (ps_protos (s_ps s)) (ps_keys (s_ps s))
                  (ps_meta (s_ps s)) (ps_maxprotos (s_ps s)) (ps_pcap (s_ps s)) (ps_maxu (s_ps s))).

Definition finish_task (s : sys) (ch : Z) : sys :=
  mkSys (s_ps s) (s_net s) (s_pend s) (s_closed s) (s_entries s)
        (close_chan ch (s_chans s)) (filter (fun t => negb (fst t =? ch)) (s_tasks s)) (s_next s).

Definition step (s : sys) (o : op) : sys * sobs :=
  match o with
  | ONetAdd c =>
      (mkSys (s_ps s) (if zin c (s_net s) then s_net s else c :: s_net s) (s_pend s) (s_closed s)
             (s_entries s) (s_chans s) (s_tasks s) (s_next s), mkObs [] [] 0)
  | ONetRemove c =>
      (mkSys (s_ps s) (zremove c (s_net s))
             (if zin c (s_net s) && negb (zin c (s_pend s)) then c :: s_pend s else s_pend s)
             (if zin c (s_closed s) then s_closed s else c :: s_closed s)
             (s_entries s) (s_chans s) (s_tasks s) (s_next s), mkObs [] [] 0)
  | OConnected c =>
      (* addConnWithLock, then IdentifyWait *)
      let s1 := match alist_get c (s_entries s) with
                | None => mkSys (s_ps s) (s_net s) (s_pend s) (s_closed s) (alist_set c 0 (s_entries s))
                                (s_chans s) (s_tasks s) (s_next s)
                | Some _ => s end in
      (fst (identify_wait s1 c), mkObs [] (wait_events s1 c) 0)
  | ODisconnected c order =>
      let s1 := mkSys (s_ps s) (s_net s) (zremove c (s_pend s)) (s_closed s)
                      (filter (fun x => negb (fst x =? c)) (s_entries s)) (s_chans s) (s_tasks s) (s_next s) in
      match conn_of c with
      | Some cn =>
          let calls := disconnected_ops cn (connected (s_net s) (c_peer cn)) order in
          (with_ps s1 (apply_ops id_of inline_key (s_ps s) calls), mkObs calls [] 0)
      | None => (s1, mkObs [] [] 0)
      end
  | OWait c => let '(s', ch) := identify_wait s c in (s', mkObs [] (wait_events s c) ch)
  | OFinish ch c out =>
      if negb (match alist_get ch (s_tasks s) with Some c' => c' =? c | None => false end)
      then (s, mkObs [] [] 0)
      else
          match out with
          | FResp cs =>
              match handle_response s c cs false with
              | Some (s', calls, evs) => (finish_task s' ch, mkObs calls evs 0)
              | None => (finish_task s ch, mkObs [] [(2, peer_of c)] 0)
              end
          | _ => (finish_task s ch, mkObs [] [(2, peer_of c)] 0)
          end
  | OPush c cs =>
      match handle_response s c cs true with
      | Some (s', calls, evs) => (s', mkObs calls evs 0)
      | None => (s, mkObs [] [] 0)
      end
  | OTimeout d =>
      let evs := map (fun t => (2, peer_of (snd t))) (s_tasks s) in
      let s1 := mkSys (s_ps s) (s_net s) (s_pend s) (s_closed s) (s_entries s)
                      (fold_left (fun l t => close_chan (fst t) l) (s_tasks s) (s_chans s)) [] (s_next s) in
      (advance_book s1 d, mkObs [] evs 0)
  end.

End Sys.

(* C02 — proofs about the Noise framing model (Model.v). *)
From Coq Require Import List Arith ZArith NArith Bool Lia.
From Verif Require Import c02.Model.
Import ListNotations.

Section NoiseProofs.
  Variable maxpt : nat.
  Variable overhead : nat.
  Hypothesis maxpt_pos : 1 <= maxpt.

  Notation chunks := (chunks maxpt).
  Notation write := (write maxpt).
  Notation writes := (writes maxpt).
  Notation read := (read overhead).
  Notation reads := (reads overhead).

  (* ---- chunking ---------------------------------------------------------- *)
  Lemma chunks_concat fuel : forall data, length data <= fuel -> concat (chunks fuel data) = data.
  Proof.
    induction fuel as [|f IH]; intros data H.
    - destruct data; [reflexivity|cbn in H; lia].
    - destruct data as [|b data]; [reflexivity|].
      cbn [Model.chunks concat]. rewrite IH.
      + apply firstn_skipn.
      + rewrite skipn_length. cbn [length] in *. lia.
  Qed.

  Lemma chunks_bounds fuel : forall data,
    Forall (fun c => 1 <= length c <= maxpt) (chunks fuel data).
  Proof.
    induction fuel as [|f IH]; intros data; [constructor|].
    destruct data as [|b data]; [constructor|].
    cbn [Model.chunks]. constructor; [|apply IH].
    rewrite firstn_length. cbn [length]. lia.
  Qed.

  Definition all_chunks (ws : list (list byte)) : list (list byte) :=
    flat_map (fun d => chunks (length d) d) ws.

  Lemma all_chunks_concat ws : concat (all_chunks ws) = concat ws.
  Proof.
    induction ws as [|d ws IH]; [reflexivity|].
    cbn [all_chunks flat_map concat]. rewrite concat_app. fold (all_chunks ws).
    rewrite IH, chunks_concat by lia. reflexivity.
  Qed.

  Lemma all_chunks_bounds ws : Forall (fun c => 1 <= length c <= maxpt) (all_chunks ws).
  Proof.
    induction ws as [|d ws IH]; [constructor|].
    cbn [all_chunks flat_map]. apply Forall_app. split; [apply chunks_bounds|exact IH].
  Qed.

  Lemma seal_from_app n a b :
    seal_from n (a ++ b) = seal_from n a ++ seal_from (n + length a) b.
  Proof.
    revert n; induction a as [|c a IH]; intros n; cbn [app seal_from length].
    - rewrite Nat.add_0_r. reflexivity.
    - rewrite IH. f_equal. f_equal. f_equal. lia.
  Qed.

  Lemma seal_from_length n cs : length (seal_from n cs) = length cs.
  Proof. revert n; induction cs as [|c cs IH]; intros n; cbn; [reflexivity|]. rewrite IH. reflexivity. Qed.

  (* all the frames a sequence of Write calls puts on the wire *)
  Lemma writes_frames ws : forall wn,
    writes wn ws = (wn + length (all_chunks ws), seal_from wn (all_chunks ws)).
  Proof.
    induction ws as [|d ws IH]; intros wn; cbn [Model.writes all_chunks flat_map].
    - cbn. rewrite Nat.add_0_r. reflexivity.
    - unfold Model.write. rewrite IH. fold (all_chunks ws).
      rewrite app_length, seal_from_app. f_equal. lia.
  Qed.

  (* every frame carries at most maxpt bytes of plaintext, i.e. at most
     maxpt + overhead bytes of ciphertext *)
  Lemma seal_from_ctlen n cs :
    Forall (fun c => 1 <= length c <= maxpt) cs ->
    Forall (fun f => ctlen overhead f <= maxpt + overhead) (seal_from n cs).
  Proof.
    revert n; induction cs as [|c cs IH]; intros n H; cbn [seal_from]; [constructor|].
    inversion H as [|? ? Hc Hr]; subst. constructor; [cbn; lia|apply IH, Hr].
  Qed.

  (* ---- reader: safety on an arbitrary (adversarial) wire ------------------ *)
  (* the attacker can put on the wire the writer's own frames, in any order and
     multiplicity, and junk; [cs] are the chunks the writer sealed, by nonce *)
  Definition honest (cs : list (list byte)) (f : frame) : Prop :=
    match f with
    | Sealed n pt => nth_error cs n = Some pt
    | Junk _ => True
    end.

  Definition qrest (r : reader) : list byte :=
    match qbuf r with Some q => q | None => [] end.

  Definition out (x : rres) : list byte := match x with RData bs => bs | _ => [] end.

  Definition RI (cs : list (list byte)) (r : reader) (D : list byte) : Prop :=
    Forall (honest cs) (wire r) /\
    D ++ qrest r = concat (firstn (rnonce r) cs) /\
    rnonce r <= length cs.

  Lemma firstn_S_nth {A} (l : list A) n x : nth_error l n = Some x ->
    firstn (S n) l = firstn n l ++ [x].
  Proof.
    revert n; induction l as [|a l IH]; intros n H; [destruct n; discriminate|].
    destruct n as [|n]; cbn in H.
    - injection H as ->. reflexivity.
    - change (firstn (S (S n)) (a :: l)) with (a :: firstn (S n) l).
      rewrite (IH n H). reflexivity.
  Qed.

  Lemma open_some rn f pt : open rn f = Some pt -> f = Sealed rn pt.
  Proof.
    destruct f as [n p|n]; cbn; [|discriminate].
    destruct (Nat.eqb_spec n rn); [|discriminate]. intros H; injection H as ->. subst. reflexivity.
  Qed.

  Lemma read_RI cs r D b : RI cs r D ->
    RI cs (fst (read r b)) (D ++ out (snd (read r b))).
  Proof.
    intros (Hw & HD & Hn). unfold Model.read, RI, qrest in *.
    destruct (qbuf r) as [q|] eqn:Eq.
    - (* queued bytes *)
      destruct (skipn b q) as [|y rest] eqn:Es; cbn [fst snd out qbuf wire rnonce].
      + repeat split; try assumption. rewrite app_nil_r, <- HD. f_equal.
        rewrite <- (firstn_skipn b q) at 2. rewrite Es, app_nil_r. reflexivity.
      + repeat split; try assumption. rewrite <- app_assoc, <- Es, firstn_skipn. exact HD.
    - destruct (wire r) as [|f rest] eqn:Ew.
      + cbn [fst snd]. rewrite Eq, Ew.
        destruct (closed r); cbn [out]; rewrite app_nil_r; repeat split; auto.
      + inversion Hw as [|? ? Hf Hrest]; subst.
        destruct (open (rnonce r) f) as [pt|] eqn:Eo.
        * apply open_some in Eo. subst f. cbn in Hf.
          assert (Hlt : rnonce r < length cs) by (apply nth_error_Some; congruence).
          pose proof (firstn_S_nth cs (rnonce r) pt Hf) as HS.
          destruct (Nat.leb (ctlen overhead (Sealed (rnonce r) pt)) b);
            cbn [fst snd out qbuf wire rnonce].
          -- split; [exact Hrest|]. split; [|lia].
             rewrite app_nil_r, HS, concat_app. cbn [concat]. rewrite app_nil_r.
             rewrite app_nil_r in HD. rewrite HD. reflexivity.
          -- split; [exact Hrest|]. split; [|lia].
             rewrite <- app_assoc, firstn_skipn, HS, concat_app. cbn [concat]. rewrite app_nil_r.
             rewrite app_nil_r in HD. rewrite HD. reflexivity.
        * cbn [fst snd out qbuf wire rnonce]. rewrite app_nil_r. repeat split; assumption.
  Qed.

  Definition delivered (xs : list rres) : list byte := concat (map out xs).

  Lemma reads_cons r b bl :
    reads r (b :: bl) = (fst (reads (fst (read r b)) bl), snd (read r b) :: snd (reads (fst (read r b)) bl)).
  Proof.
    cbn [Model.reads]. destruct (read r b) as [r1 x]. cbn [fst snd].
    destruct (reads r1 bl) as [r2 xs]. reflexivity.
  Qed.

  Lemma reads_RI cs bl : forall r D, RI cs r D ->
    RI cs (fst (reads r bl)) (D ++ delivered (snd (reads r bl))).
  Proof.
    induction bl as [|b bl IH]; intros r D H.
    - cbn. unfold delivered; cbn. rewrite app_nil_r. exact H.
    - rewrite reads_cons. cbn [fst snd]. unfold delivered. cbn [map concat].
      rewrite app_assoc. apply IH, read_RI, H.
  Qed.

  Lemma concat_firstn_prefix {A} (l : list (list A)) n :
    exists t, concat (firstn n l) ++ t = concat l.
  Proof.
    exists (concat (skipn n l)). rewrite <- concat_app, firstn_skipn. reflexivity.
  Qed.

  (* SAFETY: whatever the attacker does with the frames, everything the reader
     has been handed is a prefix of what the writer wrote, byte for byte *)
  Lemma delivered_is_prefix cs fs cl bl :
    Forall (honest cs) fs ->
    exists t, delivered (snd (reads (reader0 fs cl) bl)) ++ t = concat cs.
  Proof.
    intros Hf.
    assert (H0 : RI cs (reader0 fs cl) []).
    { unfold RI, reader0, qrest; cbn. repeat split; [exact Hf|lia]. }
    destruct (reads_RI cs bl _ _ H0) as (_ & HD & _). cbn [app] in HD.
    destruct (concat_firstn_prefix cs (rnonce (fst (reads (reader0 fs cl) bl)))) as [t Ht].
    exists (qrest (fst (reads (reader0 fs cl) bl)) ++ t).
    rewrite app_assoc, HD. exact Ht.
  Qed.

  (* the writer's own frames are honest *)
  Lemma seal_from_honest cs : forall pre,
    Forall (honest (pre ++ cs)) (seal_from (length pre) cs).
  Proof.
    induction cs as [|c cs IH]; intros pre; cbn [seal_from]; [constructor|].
    constructor.
    - cbn. rewrite nth_error_app2 by lia. rewrite Nat.sub_diag. reflexivity.
    - specialize (IH (pre ++ [c])). rewrite <- app_assoc in IH. cbn [app] in IH.
      rewrite app_length in IH. cbn [length] in IH. rewrite Nat.add_1_r in IH. exact IH.
  Qed.

  (* ---- untampered wire: completeness -------------------------------------- *)
  Definition UI (cs : list (list byte)) (r : reader) : Prop :=
    wire r = seal_from (rnonce r) (skipn (rnonce r) cs).

  Lemma skipn_nth_cons {A} (l : list A) n x : nth_error l n = Some x ->
    skipn n l = x :: skipn (S n) l.
  Proof.
    revert n; induction l as [|a l IH]; intros n H; [destruct n; discriminate|].
    destruct n as [|n]; cbn in H.
    - injection H as ->. reflexivity.
    - cbn [skipn]. apply IH, H.
  Qed.

  Lemma UI_first cs r f rest : UI cs r -> wire r = f :: rest ->
    exists pt, f = Sealed (rnonce r) pt /\ nth_error cs (rnonce r) = Some pt /\
               rest = seal_from (S (rnonce r)) (skipn (S (rnonce r)) cs).
  Proof.
    unfold UI. intros HU Hw. rewrite Hw in HU.
    destruct (nth_error cs (rnonce r)) as [pt|] eqn:En.
    - rewrite (skipn_nth_cons cs _ pt En) in HU. cbn [seal_from] in HU.
      injection HU as -> ->. exists pt. repeat split.
    - apply nth_error_None in En. rewrite skipn_all2 in HU by lia. discriminate.
  Qed.

  Lemma read_UI cs r b : UI cs r -> UI cs (fst (read r b)) /\ snd (read r b) <> RErr \/
                                    (qbuf r = None /\ wire r = [] /\ closed r = false).
  Proof.
    intros HU. unfold Model.read.
    destruct (qbuf r) as [q|] eqn:Eq.
    - left. destruct (skipn b q); cbn [fst snd]; (split; [exact HU|discriminate]).
    - destruct (wire r) as [|f rest] eqn:Ew.
      + destruct (closed r) eqn:Ec; [left|right; auto].
        cbn [fst snd]. split; [exact HU|discriminate].
      + left. destruct (UI_first cs r f rest HU Ew) as (pt & -> & Hn & Hrest).
        cbn [open]. rewrite Nat.eqb_refl.
        destruct (Nat.leb (ctlen overhead (Sealed (rnonce r) pt)) b); cbn [fst snd];
          (split; [unfold UI; cbn [wire rnonce]; exact Hrest|discriminate]).
  Qed.

  Lemma read_closed r b : closed (fst (read r b)) = closed r.
  Proof.
    unfold Model.read. destruct (qbuf r) as [q|].
    - destruct (skipn b q); reflexivity.
    - destruct (wire r) as [|f rest]; [reflexivity|].
      destruct (open (rnonce r) f); [destruct (Nat.leb _ b)|]; reflexivity.
  Qed.

  (* on an untampered connection whose writer closed after the last frame no
     read ever fails, and EOF is reported only when everything was delivered *)
  Lemma reads_untampered cs bl : forall r D,
    RI cs r D -> UI cs r -> closed r = true ->
    ~ In RErr (snd (reads r bl)) /\
    (forall pre x post, snd (reads r bl) = pre ++ x :: post -> x = REOF ->
        D ++ delivered pre = concat cs).
  Proof.
    induction bl as [|b bl IH]; intros r D HR HU Hc.
    - cbn. split; [intros []|]. intros [|? ?] x post H; discriminate.
    - rewrite reads_cons. cbn [snd].
      destruct (read_UI cs r b HU) as [[HU' Hne]|(_ & _ & Hf)]; [|congruence].
      pose proof (read_RI cs r D b HR) as HR'.
      assert (Hc' : closed (fst (read r b)) = true) by (rewrite read_closed; exact Hc).
      destruct (IH _ _ HR' HU' Hc') as [IH1 IH2].
      split.
      + intros [H|H]; [congruence|exact (IH1 H)].
      + intros pre x post Heq Hx. destruct pre as [|y pre]; cbn [app] in Heq.
        * injection Heq as Hx' _. unfold delivered; cbn. rewrite app_nil_r.
          (* the first read answered EOF: nothing queued, wire empty *)
          rewrite Hx in Hx'. clear Hx. unfold Model.read in Hx'.
          destruct HR as (_ & HD & Hn). unfold qrest in HD.
          destruct (qbuf r) as [q|] eqn:Eq; [destruct (skipn b q); discriminate|].
          destruct (wire r) as [|f rest] eqn:Ew.
          -- unfold UI in HU. rewrite Ew in HU.
             assert (Hlen : length cs <= rnonce r).
             { destruct (Nat.le_gt_cases (length cs) (rnonce r)) as [|Hlt]; [assumption|].
               destruct (nth_error cs (rnonce r)) as [pt|] eqn:En.
               - rewrite (skipn_nth_cons cs _ pt En) in HU. discriminate.
               - apply nth_error_None in En. lia. }
             rewrite app_nil_r in HD. rewrite HD, firstn_all2 by lia. reflexivity.
          -- destruct (open (rnonce r) f); [destruct (Nat.leb _ b)|]; discriminate.
        * injection Heq as Hy Heq. rewrite Hy in IH2. unfold delivered. cbn [map concat].
          rewrite app_assoc. exact (IH2 pre x post Heq Hx).
  Qed.

  (* ---- progress ----------------------------------------------------------- *)
  Definition fmu (f : frame) : nat := match f with Sealed _ pt => length pt + 2 | Junk _ => 2 end.
  Definition mu (r : reader) : nat :=
    fold_right (fun f acc => fmu f + acc) 0 (wire r) +
    match qbuf r with Some q => length q + 1 | None => 0 end.

  Lemma read_progress r b : 1 <= b ->
    (qbuf r = None /\ wire r = []) \/ mu (fst (read r b)) < mu r.
  Proof.
    intros Hb. unfold Model.read, mu.
    destruct (qbuf r) as [q|] eqn:Eq.
    - right. destruct (skipn b q) as [|y rest] eqn:Es; cbn [fst qbuf wire]; [lia|].
      assert (length (y :: rest) = length q - b) by (rewrite <- Es; apply skipn_length).
      cbn [length] in *. destruct q as [|z q]; [destruct b; discriminate|]. cbn [length] in *. lia.
    - destruct (wire r) as [|f rest] eqn:Ew; [left; auto|right].
      destruct (open (rnonce r) f) as [pt|] eqn:Eo.
      + apply open_some in Eo. subst f.
        destruct (Nat.leb (ctlen overhead (Sealed (rnonce r) pt)) b);
          cbn [fst qbuf wire fold_right fmu]; [lia|].
        rewrite skipn_length. lia.
      + cbn [fst qbuf wire fold_right]. destruct f; cbn [fmu]; lia.
  Qed.

  Lemma read_terminal r b : qbuf r = None -> wire r = [] ->
    read r b = (r, if closed r then REOF else RErr).
  Proof. intros Hq Hw. unfold Model.read. rewrite Hq, Hw. reflexivity. Qed.

  (* with buffers of at least one byte, reading long enough reaches the end *)
  Lemma reads_reach_end bl : forall r,
    Forall (fun b => 1 <= b) bl -> mu r < length bl ->
    In (if closed r then REOF else RErr) (snd (reads r bl)).
  Proof.
    induction bl as [|b bl IH]; intros r Hb Hl; [cbn in Hl; lia|].
    inversion Hb as [|? ? Hb1 Hbr]; subst. rewrite reads_cons. cbn [snd].
    destruct (read_progress r b Hb1) as [[Hq Hw]|Hlt].
    - left. rewrite (read_terminal r b Hq Hw). reflexivity.
    - right. rewrite <- (read_closed r b). apply IH; [exact Hbr|]. cbn [length] in Hl. lia.
  Qed.

  (* ---- tampering: the reader gets an error --------------------------------- *)
  Fixpoint has_bad (rn : nat) (w : list frame) : bool :=
    match w with
    | [] => false
    | f :: rest => match open rn f with Some _ => has_bad (S rn) rest | None => true end
    end.

  Lemma reads_hit_bad bl : forall r,
    Forall (fun b => 1 <= b) bl -> mu r < length bl ->
    has_bad (rnonce r) (wire r) = true -> In RErr (snd (reads r bl)).
  Proof.
    induction bl as [|b bl IH]; intros r Hb Hl Hbad; [cbn in Hl; lia|].
    inversion Hb as [|? ? Hb1 Hbr]; subst. rewrite reads_cons. cbn [snd].
    cbn [length] in Hl.
    destruct (read_progress r b Hb1) as [[Hq Hw]|Hlt].
    - rewrite Hw in Hbad. discriminate.
    - unfold Model.read in *. destruct (qbuf r) as [q|] eqn:Eq.
      + right. destruct (skipn b q); cbn [fst snd] in *;
          (apply IH; [exact Hbr|lia|cbn [rnonce wire]; exact Hbad]).
      + destruct (wire r) as [|f rest] eqn:Ew; [discriminate|]. cbn [has_bad] in Hbad.
        destruct (open (rnonce r) f) as [pt|] eqn:Eo.
        * right. destruct (Nat.leb (ctlen overhead f) b); cbn [fst snd] in *;
            (apply IH; [exact Hbr|lia|cbn [rnonce wire]; exact Hbad]).
        * left. reflexivity.
  Qed.

  Lemma has_bad_sealed_prefix pre : forall n rest,
    has_bad n (seal_from n pre ++ rest) = has_bad (n + length pre) rest.
  Proof.
    induction pre as [|c pre IH]; intros n rest; cbn [seal_from app length].
    - rewrite Nat.add_0_r. reflexivity.
    - cbn [has_bad open]. rewrite Nat.eqb_refl, IH. f_equal. lia.
  Qed.

  Lemma firstn_seal_from i : forall n cs, firstn i (seal_from n cs) = seal_from n (firstn i cs).
  Proof.
    induction i as [|i IH]; intros n cs; [reflexivity|].
    destruct cs as [|c cs]; [reflexivity|]. cbn [seal_from firstn]. rewrite IH. reflexivity.
  Qed.

  Lemma skipn_seal_from i : forall n cs, skipn i (seal_from n cs) = seal_from (n + i) (skipn i cs).
  Proof.
    induction i as [|i IH]; intros n cs; [rewrite Nat.add_0_r; reflexivity|].
    destruct cs as [|c cs]; [reflexivity|]. cbn [seal_from skipn]. rewrite IH. f_equal. lia.
  Qed.

  Lemma firstn_length_le {A} i (l : list A) : i <= length l -> length (firstn i l) = i.
  Proof. intros H. rewrite firstn_length. lia. Qed.

  (* every edit of the writer's frame sequence — except dropping the very last
     frame, which leaves a valid but shorter stream — puts a frame on the wire
     that the reader cannot open when it gets there *)
  Lemma edit_has_bad cs e :
    (match e with
     | EAlter i | ETrunc i | EDup i => i < length cs
     | EDrop i | ESwap i => S i < length cs
     end) ->
    has_bad 0 (apply_edit overhead e (seal_from 0 cs)) = true.
  Proof.
    intros Hi. unfold apply_edit.
    set (i := edit_index e).
    assert (Hlt : i < length cs) by (destruct e; cbn in *; lia).
    rewrite firstn_seal_from, skipn_seal_from. cbn [Nat.add].
    destruct (nth_error cs i) as [c|] eqn:En; [|apply nth_error_None in En; lia].
    rewrite (skipn_nth_cons cs i c En). cbn [seal_from].
    assert (Hpre : length (firstn i cs) = i) by (apply firstn_length_le; lia).
    destruct e as [j|j|j|j|j]; cbn [edit_index] in *; subst i.
    - rewrite has_bad_sealed_prefix. reflexivity.
    - rewrite has_bad_sealed_prefix. reflexivity.
    - (* drop: the next frame carries nonce j+1 *)
      rewrite has_bad_sealed_prefix, Hpre. cbn [Nat.add].
      destruct (nth_error cs (S j)) as [c'|] eqn:En'; [|apply nth_error_None in En'; lia].
      rewrite (skipn_nth_cons cs (S j) c' En'). cbn [seal_from has_bad open].
      destruct (Nat.eqb_spec (S j) j); [lia|reflexivity].
    - (* duplicate: the second copy carries nonce j again *)
      rewrite has_bad_sealed_prefix, Hpre. cbn [Nat.add has_bad open]. rewrite Nat.eqb_refl.
      destruct (Nat.eqb_spec j (S j)); [lia|reflexivity].
    - (* swap: frame j+1 arrives where j is expected *)
      destruct (nth_error cs (S j)) as [c'|] eqn:En'; [|apply nth_error_None in En'; lia].
      rewrite (skipn_nth_cons cs (S j) c' En'). cbn [seal_from].
      rewrite has_bad_sealed_prefix, Hpre. cbn [Nat.add has_bad open].
      destruct (Nat.eqb_spec (S j) j); [lia|reflexivity].
  Qed.

  (* edits only rearrange / junk the writer's frames: the wire stays honest *)
  Lemma edit_honest cs e : Forall (honest cs) (apply_edit overhead e (seal_from 0 cs)).
  Proof.
    pose proof (seal_from_honest cs []) as H. cbn [app length] in H.
    unfold apply_edit. set (fs := seal_from 0 cs) in *. set (i := edit_index e).
    assert (Hpre : Forall (honest cs) (firstn i fs)).
    { rewrite <- (firstn_skipn i fs) in H. apply Forall_app in H. apply H. }
    assert (Hpost : Forall (honest cs) (skipn i fs)).
    { rewrite <- (firstn_skipn i fs) in H. apply Forall_app in H. apply H. }
    destruct (skipn i fs) as [|f post] eqn:Es; [exact H|].
    inversion Hpost as [|? ? Hf Hp]; subst.
    destruct e; cbn [edit_index] in *.
    - apply Forall_app; split; [exact Hpre|]. constructor; [exact I|exact Hp].
    - apply Forall_app; split; [exact Hpre|]. constructor; [exact I|].
      apply Forall_forall. intros x Hx. apply in_map_iff in Hx. destruct Hx as (g & <- & _). exact I.
    - apply Forall_app; split; assumption.
    - apply Forall_app; split; [exact Hpre|]. repeat constructor; assumption.
    - destruct post as [|g post']; [exact H|].
      inversion Hp; subst. apply Forall_app; split; [exact Hpre|]. repeat constructor; assumption.
  Qed.
End NoiseProofs.

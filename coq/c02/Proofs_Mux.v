(* C02 — multiplexed streams: proofs about the model in Mux.v *)
From Coq Require Import List Arith NArith Bool Lia.
From Verif Require Import c02.Mux.
Import ListNotations.

(* ---- small facts --------------------------------------------------------------- *)
Lemma payload_app : forall a b, payload (a ++ b) = payload a ++ payload b.
Proof. induction a as [|f a IH]; intros b; cbn [payload app]; [reflexivity|]. rewrite IH, app_assoc. reflexivity. Qed.

Lemma ev_frames_app : forall a b, ev_frames (a ++ b) = ev_frames a ++ ev_frames b.
Proof. induction a as [|[d|f] a IH]; intros b; cbn [ev_frames app]; [reflexivity|apply IH|rewrite IH; reflexivity]. Qed.

Lemma ev_frames_map : forall fs, ev_frames (map EvF fs) = fs.
Proof. induction fs as [|f fs IH]; cbn [ev_frames map]; [reflexivity|rewrite IH; reflexivity]. Qed.

Lemma ev_credit_app : forall a b, ev_credit (a ++ b) = ev_credit a + ev_credit b.
Proof. induction a as [|[d|f] a IH]; intros b; cbn [ev_credit app]; [reflexivity|rewrite IH; lia|apply IH]. Qed.

Lemma ev_credit_map : forall fs, ev_credit (map EvF fs) = 0.
Proof. induction fs as [|f fs IH]; cbn [ev_credit map]; [reflexivity|exact IH]. Qed.

Lemma ev_frames_op_ev : forall op, ev_frames (op_ev op) = [].
Proof. destruct op; reflexivity. Qed.

Definition op_credit (op : sop) : nat := match op with SWnd d => d | _ => 0 end.

Lemma ev_credit_op_ev : forall op, ev_credit (op_ev op) = op_credit op.
Proof. destruct op; cbn; lia. Qed.

Lemma valid_cut_op_ev : forall M w op rest, valid_cut M w (op_ev op ++ rest) = valid_cut M (w + op_credit op) rest.
Proof. intros M w op rest. destruct op; cbn [op_ev op_credit app valid_cut]; try rewrite Nat.add_0_r; reflexivity. Qed.

(* ---- the cut of pending bytes into Data frames ---------------------------------- *)
Definition data_ok (M sid : nat) (f : frame) : Prop :=
  is_data f = true /\ f_sid f = sid /\ 1 <= length (f_pay f) <= M /\ f_len f = length (f_pay f) /\
  f_syn f = false /\ f_ack f = false /\ f_fin f = false /\ f_rst f = false.

Lemma cut_spec : forall fuel M sid win pend fs w p,
  cut fuel M sid win pend = (fs, w, p) ->
  payload fs ++ p = pend /\
  length (payload fs) + w = win /\
  Forall (data_ok M sid) fs /\
  (forall rest, valid_cut M win (map EvF fs ++ rest) = valid_cut M w rest).
Proof.
  induction fuel as [|fu IH]; intros M sid win pend fs w p H; cbn [cut] in H.
  - inversion H; subst. cbn. repeat split; auto.
  - destruct (Nat.min (Nat.min win M) (length pend)) as [|k'] eqn:E.
    + inversion H; subst. cbn. repeat split; auto.
    + remember (S k') as k eqn:Ek.
      destruct (cut fu M sid (win - k) (skipn k pend)) as [[fs' w'] p'] eqn:C.
      injection H as H1 H2 H3. subst fs w' p'.
      apply IH in C. destruct C as (C1 & C2 & C3 & C4).
      assert (Hk : 1 <= k /\ k <= win /\ k <= M /\ k <= length pend) by lia.
      assert (Hl : length (firstn k pend) = k) by (apply firstn_length_le; lia).
      split; [|split; [|split]].
      * cbn [payload dframe is_data f_ty f_pay]. rewrite <- app_assoc, C1. apply firstn_skipn.
      * cbn [payload dframe is_data f_ty f_pay]. rewrite app_length, Hl. lia.
      * constructor; [|exact C3]. unfold data_ok, dframe; cbn [is_data f_ty f_sid f_pay f_len f_syn f_ack f_fin f_rst].
        rewrite Hl. repeat split; auto; lia.
      * intros rest. cbn [map app valid_cut dframe is_data f_ty f_pay]. rewrite Hl.
        replace (k <=? M) with true by (symmetry; apply Nat.leb_le; lia).
        replace (k <=? win) with true by (symmetry; apply Nat.leb_le; lia).
        cbn [andb]. apply C4.
Qed.

(* a cut with enough fuel stops only when nothing is pending or the window is used up *)
Lemma cut_flushes : forall fuel M sid win pend fs w p,
  1 <= M -> length pend <= fuel ->
  cut fuel M sid win pend = (fs, w, p) -> p = [] \/ w = 0.
Proof.
  induction fuel as [|fu IH]; intros M sid win pend fs w p HM Hf H; cbn [cut] in H.
  - inversion H; subst. left. destruct p; [reflexivity|cbn in Hf; lia].
  - destruct (Nat.min (Nat.min win M) (length pend)) as [|k'] eqn:E.
    + inversion H; subst. destruct p; [left; reflexivity|right; cbn [length] in E; lia].
    + remember (S k') as k eqn:Ek.
      destruct (cut fu M sid (win - k) (skipn k pend)) as [[fs' w'] p'] eqn:C.
      injection H as H1 H2 H3. subst fs w' p'.
      apply IH in C; [exact C|exact HM|]. rewrite skipn_length. lia.
Qed.

(* ---- one step of the sender ------------------------------------------------------ *)
Lemma wframe_payload : forall sid a b c d n, payload [wframe sid a b c d n] = [].
Proof. reflexivity. Qed.

Lemma valid_cut_wframe : forall M w sid a b c d n rest,
  valid_cut M w (map EvF [wframe sid a b c d n] ++ rest) = valid_cut M w rest.
Proof. reflexivity. Qed.

Lemma snd_step_spec : forall M s op s1 fs a,
  snd_step M s op = (s1, fs, a) ->
  length (payload fs) + s_win s1 = s_win s + op_credit op /\
  (forall rest, valid_cut M (s_win s + op_credit op) (map EvF fs ++ rest) = valid_cut M (s_win s1) rest) /\
  s_sid s1 = s_sid s /\
  Forall (fun f => f_sid f = s_sid s /\ (is_data f = true -> data_ok M (s_sid s) f)) fs /\
  (is_open (s_st s) = false -> is_open (s_st s1) = false /\ payload fs = [] /\ a = []) /\
  (is_open (s_st s) = true -> is_open (s_st s1) = true -> payload fs ++ s_pend s1 = s_pend s ++ a) /\
  (is_open (s_st s) = true -> is_open (s_st s1) = false -> payload fs = [] /\ a = []).
Proof.
  intros M s op s1 fs a H.
  assert (WF : forall x b1 b2 b3 b4, Forall (fun f => f_sid f = x /\ (is_data f = true -> data_ok M x f)) [wframe x b1 b2 b3 b4 0]).
  { intros. constructor; [|constructor]. split; [reflexivity|discriminate]. }
  destruct op as [acc|bs|d|  |]; cbn [snd_step op_credit] in H |- *; rewrite ?Nat.add_0_r.
  - inversion H; subst; clear H. rewrite wframe_payload. cbn [length].
    split; [lia|]. split; [intros; reflexivity|]. split; [reflexivity|]. split; [apply WF|].
    split; [auto|]. split; [intros _ _; rewrite app_nil_r; reflexivity|]. intros A B. congruence.
  - destruct (is_open (s_st s)) eqn:O.
    + destruct (cut (length (s_pend s ++ bs)) M (s_sid s) (s_win s) (s_pend s ++ bs)) as [[fs' w] p'] eqn:C.
      inversion H; subst; clear H. apply cut_spec in C. destruct C as (C1 & C2 & C3 & C4).
      cbn [s_win s_sid s_st s_pend is_open].
      split; [lia|]. split; [exact C4|]. split; [reflexivity|]. split.
      { eapply Forall_impl; [|exact C3]. intros f Hf. split; [apply Hf|intros _; exact Hf]. }
      split; [discriminate|]. split; [intros _ _; exact C1|discriminate].
    + inversion H; subst; clear H. cbn [payload length map app].
      split; [lia|]. split; [intros; reflexivity|]. split; [reflexivity|]. split; [constructor|].
      split; [auto|]. split; discriminate.
  - destruct (is_open (s_st s)) eqn:O.
    + destruct (cut (length (s_pend s)) M (s_sid s) (s_win s + d) (s_pend s)) as [[fs' w] p'] eqn:C.
      inversion H; subst; clear H. apply cut_spec in C. destruct C as (C1 & C2 & C3 & C4).
      cbn [s_win s_sid s_st s_pend is_open].
      split; [lia|]. split; [exact C4|]. split; [reflexivity|]. split.
      { eapply Forall_impl; [|exact C3]. intros f Hf. split; [apply Hf|intros _; exact Hf]. }
      split; [discriminate|]. split; [intros _ _; rewrite app_nil_r; exact C1|discriminate].
    + inversion H; subst; clear H. cbn [payload length map app s_win s_sid s_st].
      split; [lia|]. split; [intros; reflexivity|]. split; [reflexivity|]. split; [constructor|].
      split; [auto|]. split; discriminate.
  - destruct (is_open (s_st s)) eqn:O.
    + inversion H; subst; clear H. rewrite wframe_payload. cbn [length s_win s_sid s_st is_open].
      split; [lia|]. split; [intros; reflexivity|]. split; [reflexivity|]. split; [apply WF|].
      split; [discriminate|]. split; [discriminate|auto].
    + inversion H; subst; clear H. cbn [payload length map app].
      split; [lia|]. split; [intros; reflexivity|]. split; [reflexivity|]. split; [constructor|].
      split; [auto|]. split; discriminate.
  - destruct (s_st s) eqn:O; cbn [is_open].
    + inversion H; subst; clear H. rewrite wframe_payload. cbn [length s_win s_sid s_st is_open].
      split; [lia|]. split; [intros; reflexivity|]. split; [reflexivity|]. split; [apply WF|].
      split; [discriminate|]. split; [discriminate|auto].
    + inversion H; subst; clear H. rewrite wframe_payload. cbn [length s_win s_sid s_st is_open].
      split; [lia|]. split; [intros; reflexivity|]. split; [reflexivity|]. split; [apply WF|].
      split; [auto|]. split; discriminate.
    + inversion H; subst; clear H. cbn [payload length map app is_open]. rewrite O. cbn [is_open].
      split; [lia|]. split; [intros; reflexivity|]. split; [reflexivity|]. split; [constructor|].
      split; [auto|]. split; discriminate.
Qed.

(* ---- every run of the sender ------------------------------------------------------ *)
(* invariant relating the state to what an observer has seen ([evs]) and what the
   Writes have accepted ([acc]) since a start with window W0 and nothing pending *)
Definition snd_inv (M W0 sid : nat) (s : snd) (evs : list sev) (acc : list byte) : Prop :=
  s_sid s = sid /\
  length (payload (ev_frames evs)) + s_win s = W0 + ev_credit evs /\
  (forall rest, valid_cut M W0 (evs ++ rest) = valid_cut M (s_win s) rest) /\
  Forall (fun f => f_sid f = sid /\ (is_data f = true -> data_ok M sid f)) (ev_frames evs) /\
  (exists rest, payload (ev_frames evs) ++ rest = acc /\ (is_open (s_st s) = true -> rest = s_pend s)).

Lemma snd_inv0 : forall M W0 sid, snd_inv M W0 sid (snd0 W0 sid) [] [].
Proof.
  intros. unfold snd_inv, snd0; cbn. repeat split; auto. exists []. split; auto.
Qed.

Lemma snd_inv_step : forall M W0 sid s evs acc op s1 fs a,
  snd_inv M W0 sid s evs acc ->
  snd_step M s op = (s1, fs, a) ->
  snd_inv M W0 sid s1 (evs ++ op_ev op ++ map EvF fs) (acc ++ a).
Proof.
  intros M W0 sid s evs acc op s1 fs a (I0 & I1 & I2 & I3 & rest & I4 & I5) H.
  apply snd_step_spec in H. destruct H as (S1 & S2 & S3 & S4 & S5 & S6 & S7).
  unfold snd_inv. rewrite !ev_frames_app, ev_frames_op_ev, ev_frames_map. cbn [app].
  rewrite payload_app, app_length, !ev_credit_app, ev_credit_op_ev, ev_credit_map.
  split; [congruence|]. split; [lia|]. split; [|split].
  - intros r. rewrite <- !app_assoc. rewrite I2. rewrite valid_cut_op_ev. apply S2.
  - apply Forall_app. split; [exact I3|]. rewrite I0 in S4. exact S4.
  - destruct (is_open (s_st s)) eqn:O.
    + destruct (is_open (s_st s1)) eqn:O1.
      * exists (s_pend s1). split; [|auto]. rewrite <- app_assoc, (S6 eq_refl eq_refl).
        rewrite <- I4, (I5 eq_refl), <- app_assoc. reflexivity.
      * destruct (S7 eq_refl eq_refl) as (P & A). rewrite P, A, !app_nil_r.
        exists rest. split; [exact I4|discriminate].
    + destruct (S5 eq_refl) as (O1 & P & A). rewrite P, A, !app_nil_r.
      exists rest. split; [exact I4|]. rewrite O1. discriminate.
Qed.

Lemma snd_run_inv : forall M W0 sid ops s evs acc,
  snd_inv M W0 sid s evs acc ->
  let rr := snd_run M s evs acc ops in snd_inv M W0 sid (sr_st rr) (sr_ev rr) (sr_acc rr).
Proof.
  intros M W0 sid. induction ops as [|op ops IH]; intros s evs acc I; cbn [snd_run].
  - exact I.
  - destruct (snd_step M s op) as [[s1 fs] a] eqn:E. apply IH. eapply snd_inv_step; eauto.
Qed.

(* the headline facts about the sender, for every op sequence *)
Lemma sender_cut_l : forall M W0 sid ops,
  let rr := snd_run M (snd0 W0 sid) [] [] ops in
  (* the Data frames carry a prefix of the accepted bytes, exactly once, in order *)
  (exists rest, payload (ev_frames (sr_ev rr)) ++ rest = sr_acc rr /\
                (is_open (s_st (sr_st rr)) = true -> rest = s_pend (sr_st rr))) /\
  (* all frames carry this stream's id; Data frames have 1..M bytes and no flags *)
  Forall (fun f => f_sid f = sid /\ (is_data f = true -> data_ok M sid f)) (ev_frames (sr_ev rr)) /\
  (* flow control: bytes sent never exceed the initial window plus the credit received *)
  length (payload (ev_frames (sr_ev rr))) + s_win (sr_st rr) = W0 + ev_credit (sr_ev rr) /\
  (* and the observer's checker accepts the event sequence *)
  valid_cut M W0 (sr_ev rr) = true.
Proof.
  intros M W0 sid ops rr.
  destruct (snd_run_inv M W0 sid ops _ _ _ (snd_inv0 M W0 sid)) as (I0 & I1 & I2 & I3 & I4).
  fold rr in I0, I1, I2, I3, I4.
  split; [exact I4|]. split; [exact I3|]. split; [exact I1|].
  specialize (I2 []). rewrite app_nil_r in I2. rewrite I2. reflexivity.
Qed.

(* the checker alone implies the in-flight bound at every point of the sequence *)
Lemma valid_cut_bound : forall M evs w,
  valid_cut M w evs = true ->
  length (payload (ev_frames evs)) <= w + ev_credit evs.
Proof.
  intros M. induction evs as [|[d|f] evs IH]; intros w H; cbn [valid_cut ev_frames ev_credit payload] in *.
  - cbn. lia.
  - apply IH in H. lia.
  - destruct (is_data f) eqn:D.
    + apply andb_prop in H. destruct H as [H H3]. apply andb_prop in H. destruct H as [H1 H2].
      apply Nat.leb_le in H1, H2. apply IH in H3. rewrite app_length. lia.
    + apply IH in H. cbn [app]. exact H.
Qed.

Lemma valid_cut_prefix : forall M a b w, valid_cut M w (a ++ b) = true -> valid_cut M w a = true.
Proof.
  intros M. induction a as [|[d|f] a IH]; intros b w H; cbn [valid_cut app] in *; auto.
  - eapply IH; eauto.
  - destruct (is_data f).
    + apply andb_prop in H. destruct H as [H H3]. rewrite H. cbn [andb]. eapply IH; eauto.
    + eapply IH; eauto.
Qed.

(* a completed Write sequence followed by CloseWrite: everything written is on
   the wire before the FIN *)
Lemma sender_complete_l : forall M W0 sid ops,
  1 <= M ->
  let rr := snd_run M (snd0 W0 sid) [] [] ops in
  is_open (s_st (sr_st rr)) = true ->
  s_pend (sr_st rr) = [] ->
  payload (ev_frames (sr_ev rr)) = sr_acc rr.
Proof.
  intros M W0 sid ops HM rr O P.
  destruct (sender_cut_l M W0 sid ops) as ((rest & E & R) & _). fold rr in E, R.
  rewrite (R O), P, app_nil_r in E. exact E.
Qed.

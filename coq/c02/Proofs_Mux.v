(* C02 — multiplexed streams: proofs about the model in Mux.v *)
From Coq Require Import List Arith NArith Bool Lia.
From Verif Require Import c02.Mux.
Import ListNotations.

(* ---- small facts --------------------------------------------------------------- *)
Lemma payload_app : forall a b, payload (a ++ b) = payload a ++ payload b.
Proof. induction a as [|f a IH]; intros b; cbn [payload app]; [reflexivity|]. rewrite IH, app_assoc. reflexivity. Qed.

Lemma ev_frames_app : forall a b, ev_frames (a ++ b) = ev_frames a ++ ev_frames b.
Proof. induction a as [|[d|f] a IH]; intros b; cbn [ev_frames app]; [reflexivity|apply IH|rewrite IH; reflexivity]. Qed.

Lemma ev_frames_map : forall fs, ev_frames (map EvF fs) = fs.
Proof. induction fs as [|f fs IH]; cbn [ev_frames map]; [reflexivity|rewrite IH; reflexivity]. Qed.

Lemma ev_credit_app : forall a b, ev_credit (a ++ b) = ev_credit a + ev_credit b.
Proof. induction a as [|[d|f] a IH]; intros b; cbn [ev_credit app]; [reflexivity|rewrite IH; lia|apply IH]. Qed.

Lemma ev_credit_map : forall fs, ev_credit (map EvF fs) = 0.
Proof. induction fs as [|f fs IH]; cbn [ev_credit map]; [reflexivity|exact IH]. Qed.

Lemma ev_frames_op_ev : forall op, ev_frames (op_ev op) = [].
Proof. destruct op; reflexivity. Qed.

Definition op_credit (op : sop) : nat := match op with SWnd d => d | _ => 0 end.

Lemma ev_credit_op_ev : forall op, ev_credit (op_ev op) = op_credit op.
Proof. destruct op; cbn; lia. Qed.

Lemma valid_cut_op_ev : forall M w op rest, valid_cut M w (op_ev op ++ rest) = valid_cut M (w + op_credit op) rest.
Proof. intros M w op rest. destruct op; cbn [op_ev op_credit app valid_cut]; try rewrite Nat.add_0_r; reflexivity. Qed.

(* ---- the cut of pending bytes into Data frames ---------------------------------- *)
Definition data_ok (M sid : nat) (f : frame) : Prop :=
  is_data f = true /\ f_sid f = sid /\ 1 <= length (f_pay f) <= M /\ f_len f = length (f_pay f) /\
  f_syn f = false /\ f_ack f = false /\ f_fin f = false /\ f_rst f = false.

Lemma cut_spec : forall fuel M sid win pend fs w p,
  cut fuel M sid win pend = (fs, w, p) ->
  payload fs ++ p = pend /\
  length (payload fs) + w = win /\
  Forall (data_ok M sid) fs /\
  (forall rest, valid_cut M win (map EvF fs ++ rest) = valid_cut M w rest).
Proof.
  induction fuel as [|fu IH]; intros M sid win pend fs w p H; cbn [cut] in H.
  - inversion H; subst. cbn. repeat split; auto.
  - destruct (Nat.min (Nat.min win M) (length pend)) as [|k'] eqn:E.
    + inversion H; subst. cbn. repeat split; auto.
    + remember (S k') as k eqn:Ek.
      destruct (cut fu M sid (win - k) (skipn k pend)) as [[fs' w'] p'] eqn:C.
      injection H as H1 H2 H3. subst fs w' p'.
      apply IH in C. destruct C as (C1 & C2 & C3 & C4).
      assert (Hk : 1 <= k /\ k <= win /\ k <= M /\ k <= length pend) by lia.
      assert (Hl : length (firstn k pend) = k) by (apply firstn_length_le; lia).
      split; [|split; [|split]].
      * cbn [payload dframe is_data f_ty f_pay]. rewrite <- app_assoc, C1. apply firstn_skipn.
      * cbn [payload dframe is_data f_ty f_pay]. rewrite app_length, Hl. lia.
      * constructor; [|exact C3]. unfold data_ok, dframe; cbn [is_data f_ty f_sid f_pay f_len f_syn f_ack f_fin f_rst].
        rewrite Hl. repeat split; auto; lia.
      * intros rest. cbn [map app valid_cut dframe is_data f_ty f_pay]. rewrite Hl.
        replace (k <=? M) with true by (symmetry; apply Nat.leb_le; lia).
        replace (k <=? win) with true by (symmetry; apply Nat.leb_le; lia).
        cbn [andb]. apply C4.
Qed.

(* a cut with enough fuel stops only when nothing is pending or the window is used up *)
Lemma cut_flushes : forall fuel M sid win pend fs w p,
  1 <= M -> length pend <= fuel ->
  cut fuel M sid win pend = (fs, w, p) -> p = [] \/ w = 0.
Proof.
  induction fuel as [|fu IH]; intros M sid win pend fs w p HM Hf H; cbn [cut] in H.
  - inversion H; subst. left. destruct p; [reflexivity|cbn in Hf; lia].
  - destruct (Nat.min (Nat.min win M) (length pend)) as [|k'] eqn:E.
    + inversion H; subst. destruct p; [left; reflexivity|right; cbn [length] in E; lia].
    + remember (S k') as k eqn:Ek.
      destruct (cut fu M sid (win - k) (skipn k pend)) as [[fs' w'] p'] eqn:C.
      injection H as H1 H2 H3. subst fs w' p'.
      apply IH in C; [exact C|exact HM|]. rewrite skipn_length. lia.
Qed.

(* ---- one step of the sender ------------------------------------------------------ *)
Lemma wframe_payload : forall sid a b c d n, payload [wframe sid a b c d n] = [].
Proof. reflexivity. Qed.

Lemma valid_cut_wframe : forall M w sid a b c d n rest,
  valid_cut M w (map EvF [wframe sid a b c d n] ++ rest) = valid_cut M w rest.
Proof. reflexivity. Qed.

Lemma snd_step_spec : forall M s op s1 fs a,
  snd_step M s op = (s1, fs, a) ->
  length (payload fs) + s_win s1 = s_win s + op_credit op /\
  (forall rest, valid_cut M (s_win s + op_credit op) (map EvF fs ++ rest) = valid_cut M (s_win s1) rest) /\
  s_sid s1 = s_sid s /\
  Forall (fun f => f_sid f = s_sid s /\ (is_data f = true -> data_ok M (s_sid s) f)) fs /\
  (is_open (s_st s) = false -> is_open (s_st s1) = false /\ payload fs = [] /\ a = []) /\
  (is_open (s_st s) = true -> is_open (s_st s1) = true -> payload fs ++ s_pend s1 = s_pend s ++ a) /\
  (is_open (s_st s) = true -> is_open (s_st s1) = false -> payload fs = [] /\ a = []).
Proof.
  intros M s op s1 fs a H.
  assert (WF : forall x b1 b2 b3 b4, Forall (fun f => f_sid f = x /\ (is_data f = true -> data_ok M x f)) [wframe x b1 b2 b3 b4 0]).
  { intros. constructor; [|constructor]. split; [reflexivity|discriminate]. }
  destruct op as [acc|bs|d|  |]; cbn [snd_step op_credit] in H |- *; rewrite ?Nat.add_0_r.
  - inversion H; subst; clear H. rewrite wframe_payload. cbn [length].
    split; [lia|]. split; [intros; reflexivity|]. split; [reflexivity|]. split; [apply WF|].
    split; [auto|]. split; [intros _ _; rewrite app_nil_r; reflexivity|]. intros A B. congruence.
  - destruct (is_open (s_st s)) eqn:O.
    + destruct (cut (length (s_pend s ++ bs)) M (s_sid s) (s_win s) (s_pend s ++ bs)) as [[fs' w] p'] eqn:C.
      inversion H; subst; clear H. apply cut_spec in C. destruct C as (C1 & C2 & C3 & C4).
      cbn [s_win s_sid s_st s_pend is_open].
      split; [lia|]. split; [exact C4|]. split; [reflexivity|]. split.
      { eapply Forall_impl; [|exact C3]. intros f Hf. split; [apply Hf|intros _; exact Hf]. }
      split; [discriminate|]. split; [intros _ _; exact C1|discriminate].
    + inversion H; subst; clear H. cbn [payload length map app].
      split; [lia|]. split; [intros; reflexivity|]. split; [reflexivity|]. split; [constructor|].
      split; [auto|]. split; discriminate.
  - destruct (is_open (s_st s)) eqn:O.
    + destruct (cut (length (s_pend s)) M (s_sid s) (s_win s + d) (s_pend s)) as [[fs' w] p'] eqn:C.
      inversion H; subst; clear H. apply cut_spec in C. destruct C as (C1 & C2 & C3 & C4).
      cbn [s_win s_sid s_st s_pend is_open].
      split; [lia|]. split; [exact C4|]. split; [reflexivity|]. split.
      { eapply Forall_impl; [|exact C3]. intros f Hf. split; [apply Hf|intros _; exact Hf]. }
      split; [discriminate|]. split; [intros _ _; rewrite app_nil_r; exact C1|discriminate].
    + inversion H; subst; clear H. cbn [payload length map app s_win s_sid s_st].
      split; [lia|]. split; [intros; reflexivity|]. split; [reflexivity|]. split; [constructor|].
      split; [auto|]. split; discriminate.
  - destruct (is_open (s_st s)) eqn:O.
    + inversion H; subst; clear H. rewrite wframe_payload. cbn [length s_win s_sid s_st is_open].
      split; [lia|]. split; [intros; reflexivity|]. split; [reflexivity|]. split; [apply WF|].
      split; [discriminate|]. split; [discriminate|auto].
    + inversion H; subst; clear H. cbn [payload length map app].
      split; [lia|]. split; [intros; reflexivity|]. split; [reflexivity|]. split; [constructor|].
      split; [auto|]. split; discriminate.
  - destruct (s_st s) eqn:O; cbn [is_open].
    + inversion H; subst; clear H. rewrite wframe_payload. cbn [length s_win s_sid s_st is_open].
      split; [lia|]. split; [intros; reflexivity|]. split; [reflexivity|]. split; [apply WF|].
      split; [discriminate|]. split; [discriminate|auto].
    + inversion H; subst; clear H. rewrite wframe_payload. cbn [length s_win s_sid s_st is_open].
      split; [lia|]. split; [intros; reflexivity|]. split; [reflexivity|]. split; [apply WF|].
      split; [auto|]. split; discriminate.
    + inversion H; subst; clear H. cbn [payload length map app is_open]. rewrite O. cbn [is_open].
      split; [lia|]. split; [intros; reflexivity|]. split; [reflexivity|]. split; [constructor|].
      split; [auto|]. split; discriminate.
Qed.

(* ---- every run of the sender ------------------------------------------------------ *)
(* invariant relating the state to what an observer has seen ([evs]) and what the
   Writes have accepted ([acc]) since a start with window W0 and nothing pending *)
Definition snd_inv (M W0 sid : nat) (s : snd) (evs : list sev) (acc : list byte) : Prop :=
  s_sid s = sid /\
  length (payload (ev_frames evs)) + s_win s = W0 + ev_credit evs /\
  (forall rest, valid_cut M W0 (evs ++ rest) = valid_cut M (s_win s) rest) /\
  Forall (fun f => f_sid f = sid /\ (is_data f = true -> data_ok M sid f)) (ev_frames evs) /\
  (exists rest, payload (ev_frames evs) ++ rest = acc /\ (is_open (s_st s) = true -> rest = s_pend s)).

Lemma snd_inv0 : forall M W0 sid, snd_inv M W0 sid (snd0 W0 sid) [] [].
Proof.
  intros. unfold snd_inv, snd0; cbn. repeat split; auto. exists []. split; auto.
Qed.

Lemma snd_inv_step : forall M W0 sid s evs acc op s1 fs a,
  snd_inv M W0 sid s evs acc ->
  snd_step M s op = (s1, fs, a) ->
  snd_inv M W0 sid s1 (evs ++ op_ev op ++ map EvF fs) (acc ++ a).
Proof.
  intros M W0 sid s evs acc op s1 fs a (I0 & I1 & I2 & I3 & rest & I4 & I5) H.
  apply snd_step_spec in H. destruct H as (S1 & S2 & S3 & S4 & S5 & S6 & S7).
  unfold snd_inv. rewrite !ev_frames_app, ev_frames_op_ev, ev_frames_map. cbn [app].
  rewrite payload_app, app_length, !ev_credit_app, ev_credit_op_ev, ev_credit_map.
  split; [congruence|]. split; [lia|]. split; [|split].
  - intros r. rewrite <- !app_assoc. rewrite I2. rewrite valid_cut_op_ev. apply S2.
  - apply Forall_app. split; [exact I3|]. rewrite I0 in S4. exact S4.
  - destruct (is_open (s_st s)) eqn:O.
    + destruct (is_open (s_st s1)) eqn:O1.
      * exists (s_pend s1). split; [|auto]. rewrite <- app_assoc, (S6 eq_refl eq_refl).
        rewrite <- I4, (I5 eq_refl), <- app_assoc. reflexivity.
      * destruct (S7 eq_refl eq_refl) as (P & A). rewrite P, A, !app_nil_r.
        exists rest. split; [exact I4|discriminate].
    + destruct (S5 eq_refl) as (O1 & P & A). rewrite P, A, !app_nil_r.
      exists rest. split; [exact I4|]. rewrite O1. discriminate.
Qed.

Lemma snd_run_inv : forall M W0 sid ops s evs acc,
  snd_inv M W0 sid s evs acc ->
  let rr := snd_run M s evs acc ops in snd_inv M W0 sid (sr_st rr) (sr_ev rr) (sr_acc rr).
Proof.
  intros M W0 sid. induction ops as [|op ops IH]; intros s evs acc I; cbn [snd_run].
  - exact I.
  - destruct (snd_step M s op) as [[s1 fs] a] eqn:E. apply IH. eapply snd_inv_step; eauto.
Qed.

(* the headline facts about the sender, for every op sequence *)
Lemma sender_cut_l : forall M W0 sid ops,
  let rr := snd_run M (snd0 W0 sid) [] [] ops in
  (* the Data frames carry a prefix of the accepted bytes, exactly once, in order *)
  (exists rest, payload (ev_frames (sr_ev rr)) ++ rest = sr_acc rr /\
                (is_open (s_st (sr_st rr)) = true -> rest = s_pend (sr_st rr))) /\
  (* all frames carry this stream's id; Data frames have 1..M bytes and no flags *)
  Forall (fun f => f_sid f = sid /\ (is_data f = true -> data_ok M sid f)) (ev_frames (sr_ev rr)) /\
  (* flow control: bytes sent never exceed the initial window plus the credit received *)
  length (payload (ev_frames (sr_ev rr))) + s_win (sr_st rr) = W0 + ev_credit (sr_ev rr) /\
  (* and the observer's checker accepts the event sequence *)
  valid_cut M W0 (sr_ev rr) = true.
Proof.
  intros M W0 sid ops rr.
  destruct (snd_run_inv M W0 sid ops _ _ _ (snd_inv0 M W0 sid)) as (I0 & I1 & I2 & I3 & I4).
  fold rr in I0, I1, I2, I3, I4.
  split; [exact I4|]. split; [exact I3|]. split; [exact I1|].
  specialize (I2 []). rewrite app_nil_r in I2. rewrite I2. reflexivity.
Qed.

(* the checker alone implies the in-flight bound at every point of the sequence *)
Lemma valid_cut_bound : forall M evs w,
  valid_cut M w evs = true ->
  length (payload (ev_frames evs)) <= w + ev_credit evs.
Proof.
  intros M. induction evs as [|[d|f] evs IH]; intros w H; cbn [valid_cut ev_frames ev_credit payload] in *.
  - cbn. lia.
  - apply IH in H. lia.
  - destruct (is_data f) eqn:D.
    + apply andb_prop in H. destruct H as [H H3]. apply andb_prop in H. destruct H as [H1 H2].
      apply Nat.leb_le in H1, H2. apply IH in H3. rewrite app_length. lia.
    + apply IH in H. cbn [app]. exact H.
Qed.

Lemma valid_cut_prefix : forall M a b w, valid_cut M w (a ++ b) = true -> valid_cut M w a = true.
Proof.
  intros M. induction a as [|[d|f] a IH]; intros b w H; cbn [valid_cut app] in *; auto.
  - eapply IH; eauto.
  - destruct (is_data f).
    + apply andb_prop in H. destruct H as [H H3]. rewrite H. cbn [andb]. eapply IH; eauto.
    + eapply IH; eauto.
Qed.

(* a completed Write sequence followed by CloseWrite: everything written is on
   the wire before the FIN *)
Lemma sender_complete_l : forall M W0 sid ops,
  1 <= M ->
  let rr := snd_run M (snd0 W0 sid) [] [] ops in
  is_open (s_st (sr_st rr)) = true ->
  s_pend (sr_st rr) = [] ->
  payload (ev_frames (sr_ev rr)) = sr_acc rr.
Proof.
  intros M W0 sid ops HM rr O P.
  destruct (sender_cut_l M W0 sid ops) as ((rest & E & R) & _). fold rr in E, R.
  rewrite (R O), P, app_nil_r in E. exact E.
Qed.

(* ======================= receiver side ========================================== *)
Lemma lookup_update_same : forall sid r l, lookup sid (update sid r l) = Some r.
Proof.
  induction l as [|[k x] l IH]; cbn [update lookup].
  - rewrite Nat.eqb_refl. reflexivity.
  - destruct (k =? sid) eqn:E; cbn [lookup]; rewrite E; [reflexivity|exact IH].
Qed.

Lemma lookup_update_other : forall sid k r l, k <> sid -> lookup sid (update k r l) = lookup sid l.
Proof.
  intros sid k r l H. induction l as [|[j x] l IH]; cbn [update lookup].
  - apply Nat.eqb_neq in H. rewrite H. reflexivity.
  - destruct (j =? k) eqn:E; cbn [lookup].
    + apply Nat.eqb_eq in E. subst j. apply Nat.eqb_neq in H. rewrite H. reflexivity.
    + destruct (j =? sid); [reflexivity|exact IH].
Qed.

(* ghost projections of one step *)
Definition ffor (sid : nat) (op : rop) : list frame :=
  match op with RDeliver f => if f_sid f =? sid then [f] else [] | _ => [] end.
Definition dof (sid : nat) (o : rout) : list byte :=
  match o with ORead k (RData bs) _ => if k =? sid then bs else [] | _ => [] end.
Definition gof (sid : nat) (o : rout) : nat :=
  match o with ORead k _ (Some d) => if k =? sid then d else 0 | _ => 0 end.

Lemma delivered_snoc : forall sid outs o, delivered sid (outs ++ [o]) = delivered sid outs ++ dof sid o.
Proof.
  intros sid. induction outs as [|x outs IH]; intros o; cbn [app delivered].
  - destruct o as [|k [bs| | |] wu]; cbn [delivered dof]; rewrite ?app_nil_r; reflexivity.
  - destruct x as [|k [bs| | |] wu]; rewrite IH; try reflexivity. rewrite app_assoc. reflexivity.
Qed.

Lemma granted_snoc : forall sid outs o, granted sid (outs ++ [o]) = granted sid outs + gof sid o.
Proof.
  intros sid. induction outs as [|x outs IH]; intros o; cbn [app granted].
  - destruct o as [|k x [d|]]; cbn [granted gof]; lia.
  - destruct x as [|k x [d|]]; rewrite IH; lia.
Qed.

Lemma frames_for_in_snoc : forall sid done op,
  frames_for sid (frames_in (done ++ [op])) = frames_for sid (frames_in done) ++ ffor sid op.
Proof.
  intros sid. induction done as [|x done IH]; intros op; cbn [app frames_in].
  - destruct op; cbn [frames_in ffor frames_for filter]; reflexivity.
  - destruct x; rewrite ?IH; try reflexivity.
    unfold frames_for in *. cbn [frames_in filter]. rewrite IH. destruct (f_sid f =? sid); reflexivity.
Qed.

(* ghost predicates over the frames a stream received so far *)
Definition finrst (f : frame) : bool := f_fin f || f_rst f.
Definition seen (F : list frame) : bool := existsb finrst F.
Definition nonempty_data (f : frame) : bool := is_data f && negb (length (f_pay f) =? 0).
Definition head_syn (F : list frame) : bool := match F with [] => true | f :: _ => f_syn f end.

(* a payload-carrying Data frame after a FIN or RST of the same stream *)
Fixpoint late (sn : bool) (F : list frame) : bool :=
  match F with
  | [] => false
  | f :: r => (sn && nonempty_data f) || late (sn || finrst f) r
  end.

Lemma seen_snoc : forall F f, seen (F ++ [f]) = seen F || finrst f.
Proof. intros. unfold seen. rewrite existsb_app. cbn. rewrite orb_false_r. reflexivity. Qed.

Lemma late_snoc : forall F b f, late b (F ++ [f]) = late b F || ((b || seen F) && nonempty_data f).
Proof.
  induction F as [|x F IH]; intros b f; cbn [app late seen existsb].
  - rewrite !orb_false_r. reflexivity.
  - rewrite IH. fold (seen F).
    destruct b, (nonempty_data x), (finrst x), (late true F), (late false F), (seen F), (nonempty_data f); reflexivity.
Qed.

Lemma head_syn_snoc : forall F f, head_syn (F ++ [f]) = true -> head_syn F = true /\ (F = [] -> f_syn f = true).
Proof. intros [|x F] f H; cbn in *; auto. split; [exact H|discriminate]. Qed.

Lemma payload_empty : forall f, nonempty_data f = false -> payload [f] = [].
Proof.
  intros f H. unfold nonempty_data in H. cbn [payload]. rewrite app_nil_r.
  destruct (is_data f); [|reflexivity]. cbn in H. apply negb_false_iff, Nat.eqb_eq in H.
  destruct (f_pay f); [reflexivity|discriminate].
Qed.

Lemma payload_one : forall f, payload [f] = if is_data f then f_pay f else [].
Proof. intros. cbn [payload]. apply app_nil_r. Qed.

Lemma existsb_snoc : forall (p : frame -> bool) F f, existsb p (F ++ [f]) = existsb p F || p f.
Proof. intros. rewrite existsb_app. cbn. rewrite orb_false_r. reflexivity. Qed.

(* ---- a step that does not concern [sid] ----------------------------------------- *)
Lemma ses_step_other : forall W0 MAXW sid s op s' o,
  op_sid op <> sid -> ses_step W0 MAXW s op = (s', o) ->
  lookup sid (streams s') = lookup sid (streams s) /\ dof sid o = [] /\ gof sid o = 0 /\
  ffor sid op = [] /\ (broken s = true -> broken s' = true).
Proof.
  intros W0 MAXW sid s op s' o H E. unfold ses_step in E.
  destruct (ors_step W0 MAXW (lookup (op_sid op) (streams s)) op (broken s)) as [[x out] e] eqn:O.
  inversion E; subst; clear E. cbn [streams broken].
  assert (Hn : (op_sid op =? sid) = false) by (apply Nat.eqb_neq; exact H).
  split; [destruct x; [apply lookup_update_other; exact H|reflexivity]|].
  split; [|split; [|split]].
  - unfold ors_step in O. destruct op as [f|k n t|k]; cbn [op_sid] in *.
    + destruct (broken s); [inversion O; reflexivity|].
      destruct (lookup (f_sid f) (streams s)); destruct (f_syn f); try (inversion O; reflexivity).
      * destruct (rs_frame r f); inversion O; reflexivity.
      * destruct (rs_frame (rs0 W0) f); inversion O; reflexivity.
    + destruct (lookup k (streams s)).
      * destruct (rs_read MAXW r n t (broken s)) as [[r' y] wu]. inversion O; subst. cbn [dof]. destruct y; try reflexivity. rewrite Hn. reflexivity.
      * inversion O; reflexivity.
    + destruct (lookup k (streams s)); inversion O; reflexivity.
  - unfold ors_step in O. destruct op as [f|k n t|k]; cbn [op_sid] in *.
    + destruct (broken s); [inversion O; reflexivity|].
      destruct (lookup (f_sid f) (streams s)); destruct (f_syn f); try (inversion O; reflexivity).
      * destruct (rs_frame r f); inversion O; reflexivity.
      * destruct (rs_frame (rs0 W0) f); inversion O; reflexivity.
    + destruct (lookup k (streams s)).
      * destruct (rs_read MAXW r n t (broken s)) as [[r' y] wu]. inversion O; subst. cbn [gof]. destruct wu; try reflexivity. rewrite Hn. reflexivity.
      * inversion O; reflexivity.
    + destruct (lookup k (streams s)); inversion O; reflexivity.
  - destruct op; cbn [ffor op_sid] in *; try reflexivity. rewrite Hn. reflexivity.
  - intros B. rewrite B. reflexivity.
Qed.

(* ---- one stream: invariant tying the buffer to what arrived and what was read ---- *)
(* F = frames of this stream handed to the session so far, D = bytes its Reads
   returned so far, brk = the session is dead *)
Definition sinv (r : rstream) (brk : bool) (F : list frame) (D : list byte) : Prop :=
  (head_syn F = true -> exists rest, D ++ concat (r_buf r) ++ rest = payload F /\
       (rest <> [] -> r_live r = false \/ brk = true) /\
       (late false F = false -> brk = false -> rest = [])) /\
  (r_rd r <> HOpen -> seen F = true) /\
  (r_live r = false -> seen F = true) /\
  (r_rd r = HClosed -> existsb f_fin F = true).

Lemma flags_step_facts : forall r fin rst,
  let r1 := flags_step r fin rst in
  r_buf r1 = r_buf r /\ r_cap r1 = r_cap r /\ r_win r1 = r_win r /\
  (r_rd r1 <> HOpen -> r_rd r <> HOpen \/ fin || rst = true) /\
  (r_live r1 = false -> r_live r = false \/ fin || rst = true) /\
  (r_rd r1 = HClosed -> r_rd r = HClosed \/ fin = true) /\
  (r_rd r = HReset -> r_rd r1 = HReset).
Proof.
  intros [buf cap win rd wr live] fin rst.
  destruct fin, rst, rd, wr, live; cbn; repeat split; auto; intros; try congruence; try (left; congruence).
Qed.

Lemma sinv_ignored : forall r b F D f, sinv r b F D -> sinv r true (F ++ [f]) D.
Proof.
  intros r b F D f (I1 & I2 & I3 & I4). unfold sinv.
  split; [|split; [|split]].
  - intros H. apply head_syn_snoc in H. destruct H as [H _]. destruct (I1 H) as (rest & E & _).
    exists (rest ++ payload [f]). rewrite payload_app, <- E, <- !app_assoc.
    split; [reflexivity|]. split; [right; reflexivity|discriminate].
  - intros H. rewrite seen_snoc, (I2 H). reflexivity.
  - intros H. rewrite seen_snoc, (I3 H). reflexivity.
  - intros H. rewrite existsb_snoc, (I4 H). reflexivity.
Qed.

Lemma sinv_brk : forall r b F D, sinv r b F D -> sinv r true F D.
Proof.
  intros r b F D (I1 & I2 & I3 & I4). unfold sinv. repeat split; auto.
  intros H. destruct (I1 H) as (rest & E & _). exists rest. split; [exact E|]. split; [right; reflexivity|discriminate].
Qed.

Lemma sinv_frame : forall r F D f r' e,
  sinv r false F D -> rs_frame r f = (r', e) -> sinv r' e (F ++ [f]) D.
Proof.
  intros r F D f r' e (I1 & I2 & I3 & I4) H. unfold rs_frame in H.
  destruct (r_live r) eqn:L; cbn [negb] in H.
  2:{ inversion H; subst; clear H. unfold sinv. split; [|split; [|split]].
      - intros Hs. apply head_syn_snoc in Hs. destruct Hs as [Hs _]. destruct (I1 Hs) as (rest & E & E2 & E3).
        exists (rest ++ payload [f]). rewrite payload_app, <- E, <- !app_assoc.
        split; [reflexivity|]. split; [left; exact L|].
        intros HL _. rewrite late_snoc in HL. apply orb_false_iff in HL. destruct HL as [HL1 HL2].
        rewrite (I3 eq_refl) in HL2. cbn in HL2. rewrite (payload_empty _ HL2), app_nil_r. apply E3; auto.
      - intros H. rewrite seen_snoc, (I2 H). reflexivity.
      - intros H. rewrite seen_snoc, (I3 eq_refl). reflexivity.
      - intros H. rewrite existsb_snoc, (I4 H). reflexivity. }
  destruct (flags_step_facts r (f_fin f) (f_rst f)) as (B & C & W & R1 & L1 & K1 & _).
  set (r1 := flags_step r (f_fin f) (f_rst f)) in *.
  (* the part that does not depend on the buffer *)
  assert (Q : forall rr, r_rd rr = r_rd r1 -> r_live rr = r_live r1 ->
     (r_rd rr <> HOpen -> seen (F ++ [f]) = true) /\ (r_live rr = false -> seen (F ++ [f]) = true) /\
     (r_rd rr = HClosed -> existsb f_fin (F ++ [f]) = true)).
  { intros rr E1 E2. rewrite E1, E2, seen_snoc, existsb_snoc. unfold finrst. split; [|split].
    - intros X. destruct (R1 X) as [Y|Y]; [rewrite (I2 Y); reflexivity|rewrite Y; apply orb_true_r].
    - intros X. destruct (L1 X) as [Y|Y]; [congruence|rewrite Y; apply orb_true_r].
    - intros X. destruct (K1 X) as [Y|Y]; [rewrite (I4 Y); reflexivity|rewrite Y; apply orb_true_r]. }
  (* nothing is outstanding while the stream is live in a live session *)
  assert (R0 : head_syn (F ++ [f]) = true -> D ++ concat (r_buf r) = payload F).
  { intros Hs. apply head_syn_snoc in Hs. destruct Hs as [Hs _]. destruct (I1 Hs) as (rest & E & E2 & _).
    destruct rest as [|x rest]; [rewrite app_nil_r in E; exact E|].
    destruct (E2 ltac:(discriminate)) as [X|X]; discriminate. }
  assert (NoPay : forall rr, r_buf rr = r_buf r -> payload [f] = [] ->
     head_syn (F ++ [f]) = true -> exists rest, D ++ concat (r_buf rr) ++ rest = payload (F ++ [f]) /\
       (rest <> [] -> r_live rr = false \/ false = true) /\ (late false (F ++ [f]) = false -> false = false -> rest = [])).
  { intros rr Eb Ep Hs. exists []. rewrite Eb, payload_app, Ep, !app_nil_r. split; [apply R0; exact Hs|].
    split; [congruence|reflexivity]. }
  destruct (f_ty f) eqn:T.
  - destruct (length (f_pay f)) as [|l] eqn:Len.
    + inversion H; subst; clear H. destruct (Q r1 eq_refl eq_refl) as (Q1 & Q2 & Q3).
      split; [|split; [|split]]; auto. apply NoPay; [exact B|].
      rewrite payload_one. destruct (f_pay f); [destruct (is_data f); reflexivity|discriminate].
    + destruct (r_cap r1 <? S l) eqn:Ov.
      * inversion H; subst; clear H. destruct (Q r1 eq_refl eq_refl) as (Q1 & Q2 & Q3).
        split; [|split; [|split]]; auto.
        intros Hs. exists (payload [f]). rewrite B, payload_app, app_assoc, (R0 Hs).
        split; [reflexivity|]. split; [right; reflexivity|discriminate].
      * inversion H; subst; clear H.
        match goal with |- sinv ?rr _ _ _ => destruct (Q rr eq_refl eq_refl) as (Q1 & Q2 & Q3) end.
        split; [|split; [|split]]; auto.
        intros Hs. exists []. cbn [r_buf]. rewrite B, concat_app, payload_app, payload_one.
        unfold is_data. rewrite T. cbn [concat]. rewrite !app_nil_r, app_assoc, (R0 Hs).
        split; [reflexivity|]. split; [congruence|reflexivity].
  - inversion H; subst; clear H. destruct (Q r1 eq_refl eq_refl) as (Q1 & Q2 & Q3).
    split; [|split; [|split]]; auto. apply NoPay; [exact B|].
    rewrite payload_one. unfold is_data. rewrite T. reflexivity.
Qed.

Definition xbytes (x : rres) : list byte := match x with RData bs => bs | _ => [] end.
Definition wuval (wu : option nat) : nat := match wu with Some d => d | None => 0 end.

(* window accounting of one stream: G = credit granted so far (window updates sent) *)
Definition winv (W0 MAXW : nat) (r : rstream) (D : list byte) (G : nat) : Prop :=
  r_cap r + buffered r <= r_win r /\ W0 <= r_win r /\ r_win r <= Nat.max W0 MAXW /\
  W0 + G <= r_cap r + length D + buffered r.

Lemma grow_facts : forall MAXW r t r2 wu,
  grow MAXW r t = (r2, wu) ->
  r_buf r2 = r_buf r /\ r_rd r2 = r_rd r /\ r_wr r2 = r_wr r /\ r_live r2 = r_live r /\
  r_win r <= r_win r2 /\ r_win r2 <= Nat.max (r_win r) MAXW /\
  r_cap r + wuval wu <= r_cap r2 /\
  (r_cap r + buffered r <= r_win r -> r_cap r2 + buffered r2 <= r_win r2) /\
  (wu <> None -> r_cap r2 + buffered r2 = r_win r2 /\ r_win r2 / 2 <= wuval wu \/ r_win r < r_win r2).
Proof.
  intros MAXW r t r2 wu H. unfold grow in H.
  destruct (r_win r <=? r_cap r + buffered r) eqn:E1.
  { inversion H; subst. cbn [wuval]. repeat split; auto; try lia; try (intros X; congruence). }
  apply Nat.leb_gt in E1.
  destruct (r_win r - (r_cap r + buffered r) <? r_win r / 2) eqn:E2.
  { inversion H; subst. cbn [wuval]. repeat split; auto; try lia; try (intros X; congruence). }
  apply Nat.ltb_ge in E2.
  destruct (t && (r_win r <? Nat.min (2 * r_win r) MAXW)) eqn:E3.
  - apply andb_prop in E3. destruct E3 as [_ E3]. apply Nat.ltb_lt in E3.
    inversion H; subst; clear H. unfold buffered. cbn [r_buf r_rd r_wr r_live r_win r_cap wuval].
    fold (buffered r). repeat split; auto; try lia.
  - inversion H; subst; clear H. unfold buffered. cbn [r_buf r_rd r_wr r_live r_win r_cap wuval].
    fold (buffered r). repeat split; auto; try lia.
Qed.

Lemma firstn_min_length : forall (l : list byte) n, length (firstn (Nat.min n (length l)) l) = Nat.min n (length l).
Proof. intros. apply firstn_length_le. lia. Qed.

Lemma sinv_ext : forall r1 r2 b F D,
  r_buf r2 = r_buf r1 -> r_rd r2 = r_rd r1 -> r_live r2 = r_live r1 -> sinv r1 b F D -> sinv r2 b F D.
Proof. intros r1 r2 b F D E1 E2 E3. unfold sinv. rewrite E1, E2, E3. auto. Qed.

Lemma rs_read_spec : forall W0 MAXW r n t b F D G r' x wu,
  rs_read MAXW r n t b = (r', x, wu) ->
  sinv r b F D -> winv W0 MAXW r D G ->
  sinv r' b F (D ++ xbytes x) /\ winv W0 MAXW r' (D ++ xbytes x) (G + wuval wu) /\
  r_rd r' = r_rd r /\ r_wr r' = r_wr r /\ r_live r' = r_live r /\
  (x = REOF -> r_rd r = HClosed /\ r_buf r = []) /\
  (r_rd r = HReset -> x = RErr) /\
  (forall bs, x = RData bs -> r_rd r <> HReset /\ exists seg rest, r_buf r = seg :: rest /\ bs = firstn (Nat.min n (length seg)) seg).
Proof.
  intros W0 MAXW r n t b F D G r' x wu H I Wv. unfold rs_read in H.
  set (st := if b && is_open (r_rd r) then HReset else r_rd r) in *.
  assert (St : (r_rd r = HReset -> st = HReset) /\ (st = HClosed -> r_rd r = HClosed) /\ (st <> HReset -> r_rd r <> HReset)).
  { unfold st. destruct b, (r_rd r); cbn; repeat split; intros; congruence. }
  destruct St as (St1 & St2 & St3).
  assert (Same : forall y, xbytes y = [] -> (r', x, wu) = (r, y, None) ->
     sinv r' b F (D ++ xbytes x) /\ winv W0 MAXW r' (D ++ xbytes x) (G + wuval wu) /\
     r_rd r' = r_rd r /\ r_wr r' = r_wr r /\ r_live r' = r_live r).
  { intros y Ey E. inversion E; subst. rewrite Ey. cbn [wuval]. rewrite app_nil_r, Nat.add_0_r. auto. }
  destruct (r_buf r) as [|seg rest] eqn:Bf.
  - (* nothing buffered *)
    assert (E : exists y, (r', x, wu) = (r, y, None) /\ xbytes y = [] /\ (y = REOF -> st = HClosed) /\ (st = HReset -> y = RErr) /\ (forall bs, y <> RData bs)).
    { destruct st; inversion H; subst; eexists; (split; [reflexivity|]); cbn; repeat split; intros; congruence. }
    destruct E as (y & E & Ey & E1 & E2 & E3). destruct (Same y Ey E) as (A1 & A2 & A3 & A4 & A5).
    inversion E; subst.
    split; [exact A1|]. split; [exact A2|]. split; [exact A3|]. split; [exact A4|]. split; [exact A5|].
    split; [intros X; split; [apply St2, E1, X|reflexivity]|].
    split; [intros X; apply E2, St1, X|]. intros bs X. destruct (E3 bs X).
  - destruct (match st with HReset => true | _ => false end) eqn:Rs.
    + (* reset: error *)
      assert (E : (r', x, wu) = (r, RErr, None)) by (destruct st; try discriminate; inversion H; reflexivity).
      destruct (Same RErr eq_refl E) as (A1 & A2 & A3 & A4 & A5). inversion E; subst.
      split; [exact A1|]. split; [exact A2|]. split; [exact A3|]. split; [exact A4|]. split; [exact A5|].
      split; [discriminate|]. split; [reflexivity|]. intros bs X; discriminate.
    + set (k := Nat.min n (length seg)) in *.
      set (r1 := mkR (if k =? length seg then rest else skipn k seg :: rest) (r_cap r) (r_win r) (r_rd r) (r_wr r) (r_live r)) in *.
      assert (H' : (let '(r2, wu0) := if b then (r1, None) else grow MAXW r1 t in (r2, RData (firstn k seg), wu0)) = (r', x, wu))
        by (destruct st; try discriminate; exact H).
      clear H.
      assert (Hk : length (firstn k seg) = k) by (apply firstn_min_length).
      assert (Cc : firstn k seg ++ concat (r_buf r1) = concat (r_buf r)).
      { rewrite Bf. cbn [r1 r_buf concat]. destruct (k =? length seg) eqn:Ek.
        - apply Nat.eqb_eq in Ek. rewrite Ek, firstn_all. reflexivity.
        - cbn [concat]. rewrite app_assoc, firstn_skipn. reflexivity. }
      assert (Bl : buffered r1 + k = buffered r).
      { unfold buffered. rewrite <- Cc, app_length, Hk. lia. }
      assert (I1 : sinv r1 b F (D ++ firstn k seg)).
      { destruct I as (J1 & J2 & J3 & J4). unfold sinv. cbn [r1 r_rd r_live]. repeat split; auto.
        intros Hs. destruct (J1 Hs) as (rs & E & E2 & E3). exists rs. split; [|auto].
        rewrite <- E, <- Cc, <- !app_assoc. reflexivity. }
      assert (W1 : winv W0 MAXW r1 (D ++ firstn k seg) G).
      { destruct Wv as (V1 & V2 & V3 & V4). unfold winv. rewrite app_length, Hk. cbn [r1 r_cap r_win]. repeat split; lia. }
      assert (NR : r_rd r <> HReset) by (apply St3; destruct st; congruence).
      destruct b.
      * inversion H'; subst. cbn [xbytes wuval]. rewrite Nat.add_0_r.
        split; [exact I1|]. split; [exact W1|]. split; [reflexivity|]. split; [reflexivity|]. split; [reflexivity|].
        split; [discriminate|]. split; [intros X; congruence|]. intros bs X. inversion X; subst. split; [exact NR|eauto].
      * destruct (grow MAXW r1 t) as [r2 wu0] eqn:Gr. inversion H'; subst. cbn [xbytes].
        destruct (grow_facts _ _ _ _ _ Gr) as (G1 & G2 & G3 & G4 & G5 & G6 & G7 & G8 & _).
        split; [eapply sinv_ext; eauto|]. split.
        { destruct W1 as (V1 & V2 & V3 & V4). unfold winv.
          assert (buffered r' = buffered r1) by (unfold buffered; rewrite G1; reflexivity).
          specialize (G8 V1). repeat split; lia. }
        split; [exact G2|]. split; [exact G3|]. split; [exact G4|].
        split; [discriminate|]. split; [intros X; congruence|]. intros bs X. inversion X; subst. split; [exact NR|eauto].
Qed.

Lemma sinv_closew : forall r b F D, sinv r b F D -> sinv (rs_closew r) b F D.
Proof.
  intros r b F D (I1 & I2 & I3 & I4). unfold rs_closew. destruct (is_open (r_wr r)); [|repeat split; auto].
  unfold sinv. cbn [r_buf r_rd r_live]. repeat split; auto.
  - intros Hs. destruct (I1 Hs) as (rs & E & E2 & E3). exists rs. repeat split; auto.
    intros X. destruct (E2 X) as [Y|Y]; [left; rewrite Y; reflexivity|right; exact Y].
  - intros X. apply andb_false_iff in X. destruct X as [X|X]; [auto|].
    apply I2. destruct (r_rd r); cbn in X; congruence.
Qed.

Lemma winv_closew : forall W0 MAXW r D G, winv W0 MAXW r D G -> winv W0 MAXW (rs_closew r) D G.
Proof. intros W0 MAXW r D G H. unfold rs_closew. destruct (is_open (r_wr r)); exact H. Qed.

Lemma winv_frame : forall W0 MAXW r f r' e D G,
  rs_frame r f = (r', e) -> winv W0 MAXW r D G -> winv W0 MAXW r' D G.
Proof.
  intros W0 MAXW r f r' e D G H Wv. unfold rs_frame in H.
  destruct (negb (r_live r)); [inversion H; subst; exact Wv|].
  destruct (flags_step_facts r (f_fin f) (f_rst f)) as (B & C & W & _).
  set (r1 := flags_step r (f_fin f) (f_rst f)) in *.
  assert (W1 : winv W0 MAXW r1 D G).
  { unfold winv, buffered in *. rewrite B, C, W. exact Wv. }
  destruct (f_ty f); [|inversion H; subst; exact W1].
  destruct (length (f_pay f)) as [|l] eqn:Len; [inversion H; subst; exact W1|].
  destruct (r_cap r1 <? S l) eqn:Ov; [inversion H; subst; exact W1|].
  apply Nat.ltb_ge in Ov. inversion H; subst; clear H.
  destruct W1 as (V1 & V2 & V3 & V4). unfold winv, buffered in *. cbn [r_buf r_cap r_win].
  rewrite concat_app, app_length. cbn [concat]. rewrite app_nil_r, Len. repeat split; lia.
Qed.

(* ---- the session: invariant for one stream id, over every run ---------------------- *)
Definition inv (W0 MAXW sid : nat) (s : ses) (F : list frame) (D : list byte) (G : nat) : Prop :=
  match lookup sid (streams s) with
  | None => D = [] /\ G = 0 /\ (head_syn F = true -> broken s = false -> F = [])
  | Some r => sinv r (broken s) F D /\ winv W0 MAXW r D G
  end.

Lemma dof_same : forall sid x wu, dof sid (ORead sid x wu) = xbytes x.
Proof. intros. destruct x; cbn [dof xbytes]; try reflexivity. rewrite Nat.eqb_refl. reflexivity. Qed.

Lemma gof_same : forall sid x wu, gof sid (ORead sid x wu) = wuval wu.
Proof. intros. destruct wu; cbn [gof wuval]; try reflexivity. rewrite Nat.eqb_refl. reflexivity. Qed.

Lemma sinv_rs0 : forall W0 F, (head_syn F = true -> F = []) -> sinv (rs0 W0) false F [].
Proof.
  intros W0 F H. unfold sinv, rs0; cbn [r_buf r_rd r_live concat]. repeat split; try congruence.
  intros Hs. rewrite (H Hs). exists []. repeat split; auto.
Qed.

Lemma winv_rs0 : forall W0 MAXW, winv W0 MAXW (rs0 W0) [] 0.
Proof. intros. unfold winv, rs0, buffered; cbn. repeat split; lia. Qed.

Lemma inv_step : forall W0 MAXW sid s F D G op s' o,
  inv W0 MAXW sid s F D G -> ses_step W0 MAXW s op = (s', o) ->
  inv W0 MAXW sid s' (F ++ ffor sid op) (D ++ dof sid o) (G + gof sid o).
Proof.
  intros W0 MAXW sid s F D G op s' o I H.
  destruct (Nat.eq_dec (op_sid op) sid) as [Es|Es].
  2:{ destruct (ses_step_other _ _ _ _ _ _ _ Es H) as (L & Dz & Gz & Fz & Bm).
      rewrite Dz, Gz, Fz, !app_nil_r, Nat.add_0_r. unfold inv in *. rewrite L.
      destruct (lookup sid (streams s)) as [r|].
      - destruct I as [I1 I2]. split; [|exact I2].
        destruct (broken s') eqn:B'; [eapply sinv_brk; exact I1|].
        destruct (broken s) eqn:B; [specialize (Bm eq_refl); discriminate|exact I1].
      - destruct I as (I1 & I2 & I3). repeat split; auto. intros Hs B'. apply I3; [exact Hs|].
        destruct (broken s); [specialize (Bm eq_refl); congruence|reflexivity]. }
  unfold ses_step in H. rewrite Es in H. unfold inv in I.
  destruct op as [f|k n t|k]; cbn [op_sid] in Es; subst sid; cbn [op_sid ors_step] in H.
  - (* a frame of this stream *)
    cbn [ffor dof gof]. rewrite Nat.eqb_refl.
    destruct (broken s) eqn:B.
    + inversion H; subst; clear H. cbn [dof gof]. rewrite app_nil_r, Nat.add_0_r. unfold inv. cbn [streams broken orb].
      destruct (lookup (f_sid f) (streams s)) as [r|] eqn:L.
      * rewrite lookup_update_same. destruct I as [I1 I2]. split; [eapply sinv_ignored; exact I1|exact I2].
      * rewrite L. destruct I as (I1 & I2 & I3). repeat split; auto. discriminate.
    + destruct (lookup (f_sid f) (streams s)) as [r|] eqn:L.
      * destruct (f_syn f) eqn:Sy.
        -- inversion H; subst; clear H. cbn [dof gof]. rewrite app_nil_r, Nat.add_0_r. unfold inv. cbn [streams broken orb].
           rewrite lookup_update_same. destruct I as [I1 I2]. split; [eapply sinv_ignored; exact I1|exact I2].
        -- destruct (rs_frame r f) as [r' e] eqn:Rf. inversion H; subst; clear H. cbn [dof gof].
           rewrite app_nil_r, Nat.add_0_r. unfold inv. cbn [streams broken orb]. rewrite lookup_update_same.
           destruct I as [I1 I2]. split; [eapply sinv_frame; eauto|eapply winv_frame; eauto].
      * destruct I as (I1 & I2 & I3). subst D G. destruct (f_syn f) eqn:Sy.
        -- destruct (rs_frame (rs0 W0) f) as [r' e] eqn:Rf. inversion H; subst; clear H. cbn [dof gof].
           cbn [app Nat.add]. unfold inv. cbn [streams broken orb]. rewrite lookup_update_same.
           split; [eapply sinv_frame; [apply sinv_rs0|exact Rf]|eapply winv_frame; [exact Rf|apply winv_rs0]].
           intros Hs. apply I3; auto.
        -- inversion H; subst; clear H. cbn [dof gof app Nat.add]. unfold inv. cbn [streams broken orb]. rewrite L.
           repeat split; auto. intros Hs _. apply head_syn_snoc in Hs. destruct Hs as [Hs1 Hs2].
           specialize (I3 Hs1 eq_refl). specialize (Hs2 I3). congruence.
  - (* a Read on this stream *)
    cbn [ffor]. rewrite app_nil_r.
    destruct (lookup k (streams s)) as [r|] eqn:L.
    + destruct (rs_read MAXW r n t (broken s)) as [[r' x] wu] eqn:Rd. inversion H; subst; clear H.
      rewrite dof_same, gof_same. unfold inv. cbn [streams broken]. rewrite orb_false_r, lookup_update_same.
      destruct I as [I1 I2]. destruct (rs_read_spec _ _ _ _ _ _ _ _ _ _ _ _ Rd I1 I2) as (A1 & A2 & _). split; assumption.
    + inversion H; subst; clear H. cbn [dof gof]. rewrite app_nil_r, Nat.add_0_r. unfold inv. cbn [streams broken].
      rewrite orb_false_r, L. exact I.
  - (* local CloseWrite *)
    cbn [ffor]. rewrite app_nil_r.
    destruct (lookup k (streams s)) as [r|] eqn:L.
    + inversion H; subst; clear H. cbn [dof gof]. rewrite app_nil_r, Nat.add_0_r. unfold inv. cbn [streams broken].
      rewrite orb_false_r, lookup_update_same. destruct I as [I1 I2].
      split; [apply sinv_closew; exact I1|apply winv_closew; exact I2].
    + inversion H; subst; clear H. cbn [dof gof]. rewrite app_nil_r, Nat.add_0_r. unfold inv. cbn [streams broken].
      rewrite orb_false_r, L. exact I.
Qed.

Lemma inv_run : forall W0 MAXW sid ops done s outs,
  inv W0 MAXW sid s (frames_for sid (frames_in done)) (delivered sid outs) (granted sid outs) ->
  let '(s', outs') := ses_run W0 MAXW s outs ops in
  inv W0 MAXW sid s' (frames_for sid (frames_in (done ++ ops))) (delivered sid outs') (granted sid outs').
Proof.
  intros W0 MAXW sid. induction ops as [|op ops IH]; intros done s outs I; cbn [ses_run].
  - rewrite app_nil_r. exact I.
  - destruct (ses_step W0 MAXW s op) as [s1 o] eqn:E.
    specialize (IH (done ++ [op]) s1 (outs ++ [o])).
    rewrite <- app_assoc in IH. cbn [app] in IH. apply IH.
    rewrite frames_for_in_snoc, delivered_snoc, granted_snoc. eapply inv_step; eauto.
Qed.

Lemma inv0 : forall W0 MAXW sid, inv W0 MAXW sid ses0 [] [] 0.
Proof. intros. unfold inv, ses0; cbn. repeat split; auto. Qed.

Lemma inv_reach : forall W0 MAXW sid ops,
  let '(s, outs) := ses_run W0 MAXW ses0 [] ops in
  inv W0 MAXW sid s (frames_for sid (frames_in ops)) (delivered sid outs) (granted sid outs).
Proof. intros. apply (inv_run W0 MAXW sid ops [] ses0 []). apply inv0. Qed.

(* ---- what every run of the receiving session guarantees, per stream id --------------- *)
Section Reach.
Variables W0 MAXW : nat.

(* (a) everything the Reads on [sid] returned is a prefix of the payload of the
   frames tagged [sid], in their order on the wire: no byte of another stream,
   nothing twice, nothing skipped *)
Lemma mux_prefix_l : forall ops sid,
  let '(s, outs) := ses_run W0 MAXW ses0 [] ops in
  head_syn (frames_for sid (frames_in ops)) = true ->
  exists rest, delivered sid outs ++ rest = payload (frames_for sid (frames_in ops)).
Proof.
  intros ops sid. pose proof (inv_reach W0 MAXW sid ops) as I.
  destruct (ses_run W0 MAXW ses0 [] ops) as [s outs]. intros Hs. unfold inv in I.
  destruct (lookup sid (streams s)) as [r|].
  - destruct I as [(I1 & _) _]. destruct (I1 Hs) as (rest & E & _). exists (concat (r_buf r) ++ rest). exact E.
  - destruct I as (I1 & _). rewrite I1. eexists. reflexivity.
Qed.

(* ... and exactly that payload minus what is still buffered, when the peer
   sends no data after its FIN/RST and the session is alive *)
Lemma mux_exact_l : forall ops sid,
  let '(s, outs) := ses_run W0 MAXW ses0 [] ops in
  head_syn (frames_for sid (frames_in ops)) = true ->
  late false (frames_for sid (frames_in ops)) = false ->
  broken s = false ->
  forall r, lookup sid (streams s) = Some r ->
  delivered sid outs ++ concat (r_buf r) = payload (frames_for sid (frames_in ops)).
Proof.
  intros ops sid. pose proof (inv_reach W0 MAXW sid ops) as I.
  destruct (ses_run W0 MAXW ses0 [] ops) as [s outs]. intros Hs Hl Hb r L. unfold inv in I. rewrite L in I.
  destruct I as [(I1 & _) _]. destruct (I1 Hs) as (rest & E & _ & E3). rewrite (E3 Hl Hb), app_nil_r in E. exact E.
Qed.

(* (e) receiver half of flow control *)
Lemma mux_window_l : forall ops sid,
  let '(s, outs) := ses_run W0 MAXW ses0 [] ops in
  forall r, lookup sid (streams s) = Some r ->
  buffered r <= r_win r /\ r_win r <= Nat.max W0 MAXW /\
  W0 + granted sid outs <= r_cap r + length (delivered sid outs) + buffered r.
Proof.
  intros ops sid. pose proof (inv_reach W0 MAXW sid ops) as I.
  destruct (ses_run W0 MAXW ses0 [] ops) as [s outs]. intros r L. unfold inv in I. rewrite L in I.
  destruct I as [_ (V1 & V2 & V3 & V4)]. repeat split; lia.
Qed.

(* (b) the Read that follows any history: EOF only after a FIN, and only when
   everything that arrived has been handed out *)
Lemma mux_eof_l : forall ops sid n t,
  let '(s, outs) := ses_run W0 MAXW ses0 [] ops in
  forall s' wu, ses_step W0 MAXW s (RRead sid n t) = (s', ORead sid REOF wu) ->
  existsb f_fin (frames_for sid (frames_in ops)) = true /\
  (head_syn (frames_for sid (frames_in ops)) = true ->
   late false (frames_for sid (frames_in ops)) = false -> broken s = false ->
   delivered sid outs = payload (frames_for sid (frames_in ops))).
Proof.
  intros ops sid n t. pose proof (inv_reach W0 MAXW sid ops) as I.
  destruct (ses_run W0 MAXW ses0 [] ops) as [s outs]. intros s' wu H.
  unfold ses_step in H. cbn [op_sid ors_step] in H. unfold inv in I.
  destruct (lookup sid (streams s)) as [r|] eqn:L; [|inversion H].
  destruct (rs_read MAXW r n t (broken s)) as [[r' x] wu'] eqn:Rd. inversion H; subst; clear H.
  destruct I as [I1 I2]. destruct (rs_read_spec _ _ _ _ _ _ _ _ _ _ _ _ Rd I1 I2) as (_ & _ & _ & _ & _ & Eo & _).
  destruct (Eo eq_refl) as [Ec Eb]. destruct I1 as (J1 & _ & _ & J4). split; [apply J4; exact Ec|].
  intros Hs Hl Hb. destruct (J1 Hs) as (rest & E & _ & E3). rewrite (E3 Hl Hb), Eb in E. cbn [concat] in E.
  rewrite !app_nil_r in E. exact E.
Qed.

(* (d) once the read side is reset it stays reset: every later Read on the
   stream fails and hands out nothing *)
Definition read_fails (sid : nat) (o : rout) : Prop :=
  match o with ORead k x _ => k = sid -> x = RErr | ONone => True end.

Lemma reset_step : forall sid s r op s' o,
  lookup sid (streams s) = Some r -> r_rd r = HReset ->
  ses_step W0 MAXW s op = (s', o) ->
  (exists r', lookup sid (streams s') = Some r' /\ r_rd r' = HReset) /\ read_fails sid o.
Proof.
  intros sid s r op s' o L R H.
  destruct (Nat.eq_dec (op_sid op) sid) as [Es|Es].
  2:{ destruct (ses_step_other _ _ _ _ _ _ _ Es H) as (L' & _). split; [exists r; rewrite L'; auto|].
      unfold ses_step in H. destruct (ors_step W0 MAXW (lookup (op_sid op) (streams s)) op (broken s)) as [[x out] e] eqn:O.
      inversion H; subst. unfold ors_step in O. destruct op as [f|k n t|k]; cbn [op_sid] in *.
      - destruct (broken s); [inversion O; exact I|].
        destruct (lookup (f_sid f) (streams s)); destruct (f_syn f); try (inversion O; exact I).
        + destruct (rs_frame r0 f); inversion O; exact I.
        + destruct (rs_frame (rs0 W0) f); inversion O; exact I.
      - destruct (lookup k (streams s)).
        + destruct (rs_read MAXW r0 n t (broken s)) as [[r' y] wu]. inversion O; subst. cbn. intros; congruence.
        + inversion O; subst. cbn. intros; congruence.
      - destruct (lookup k (streams s)); inversion O; exact I. }
  unfold ses_step in H. rewrite Es, L in H.
  destruct op as [f|k n t|k]; cbn [op_sid] in Es; subst sid; cbn [ors_step] in H.
  - destruct (broken s); [inversion H; subst; cbn [streams]; rewrite lookup_update_same; split; [eauto|exact I]|].
    destruct (f_syn f); [inversion H; subst; cbn [streams]; rewrite lookup_update_same; split; [eauto|exact I]|].
    destruct (rs_frame r f) as [r' e] eqn:Rf. inversion H; subst; clear H. cbn [streams]. rewrite lookup_update_same.
    split; [|exact I]. exists r'. split; [reflexivity|].
    unfold rs_frame in Rf. destruct (negb (r_live r)); [inversion Rf; subst; exact R|].
    destruct (flags_step_facts r (f_fin f) (f_rst f)) as (_ & _ & _ & _ & _ & _ & K). specialize (K R).
    destruct (f_ty f); [|inversion Rf; subst; exact K].
    destruct (length (f_pay f)); [inversion Rf; subst; exact K|].
    destruct (r_cap (flags_step r (f_fin f) (f_rst f)) <? S n); inversion Rf; subst; exact K.
  - destruct (rs_read MAXW r n t (broken s)) as [[r' x] wu] eqn:Rd. inversion H; subst; clear H.
    cbn [streams]. rewrite lookup_update_same.
    assert (X : x = RErr /\ r_rd r' = HReset).
    { unfold rs_read in Rd. rewrite R in Rd. destruct (broken s); cbn in Rd; inversion Rd; subst; auto. }
    destruct X as [X1 X2]. split; [eauto|]. cbn. intros _. exact X1.
  - inversion H; subst; clear H. cbn [streams]. rewrite lookup_update_same. split; [|exact I].
    exists (rs_closew r). split; [reflexivity|]. unfold rs_closew. destruct (is_open (r_wr r)); exact R.
Qed.

Lemma mux_reset_l : forall sid ops s outs r,
  lookup sid (streams s) = Some r -> r_rd r = HReset ->
  let '(s', outs') := ses_run W0 MAXW s outs ops in
  exists new, outs' = outs ++ new /\ Forall (read_fails sid) new /\ delivered sid outs' = delivered sid outs.
Proof.
  intros sid. induction ops as [|op ops IH]; intros s outs r L R; cbn [ses_run].
  - exists []. rewrite app_nil_r. auto.
  - destruct (ses_step W0 MAXW s op) as [s1 o] eqn:E.
    destruct (reset_step _ _ _ _ _ _ L R E) as ((r' & L' & R') & Fo).
    specialize (IH s1 (outs ++ [o]) r' L' R').
    destruct (ses_run W0 MAXW s1 (outs ++ [o]) ops) as [s' outs']. destruct IH as (new & E1 & E2 & E3).
    exists (o :: new). split; [rewrite E1, <- app_assoc; reflexivity|]. split; [constructor; assumption|].
    rewrite E3, delivered_snoc.
    assert (dof sid o = []) as ->; [|apply app_nil_r].
    destruct o as [|k x wu]; [reflexivity|]. cbn [dof]. destruct x; try reflexivity.
    destruct (k =? sid) eqn:Ek; [|reflexivity]. apply Nat.eqb_eq in Ek. specialize (Fo Ek). discriminate.
Qed.

(* an RST (without FIN) reaching a stream whose read side is open resets it *)
Lemma rst_resets_l : forall s r f s' o,
  broken s = false -> lookup (f_sid f) (streams s) = Some r -> r_live r = true -> r_rd r = HOpen ->
  f_syn f = false -> f_fin f = false -> f_rst f = true -> is_data f = false ->
  ses_step W0 MAXW s (RDeliver f) = (s', o) ->
  exists r', lookup (f_sid f) (streams s') = Some r' /\ r_rd r' = HReset.
Proof.
  intros s r f s' o B L Lv R Sy Fi Rs Da H. unfold ses_step in H. cbn [op_sid ors_step] in H.
  rewrite B, L, Sy in H. unfold rs_frame in H. rewrite Lv in H. cbn [negb] in H.
  unfold is_data in Da. destruct (f_ty f); [discriminate|].
  inversion H; subst; clear H. cbn [streams]. rewrite lookup_update_same. eexists. split; [reflexivity|].
  unfold flags_step. rewrite Fi, Rs, R. cbn. rewrite R. reflexivity.
Qed.
End Reach.

(* ======================= both ends together ======================================= *)
Lemma late_app : forall F1 F2 b, late b (F1 ++ F2) = late b F1 || late (b || seen F1) F2.
Proof.
  induction F1 as [|x F1 IH]; intros F2 b; cbn [app late seen existsb].
  - rewrite orb_false_r. reflexivity.
  - rewrite IH. fold (seen F1). rewrite <- !orb_assoc. reflexivity.
Qed.

Lemma seen_app : forall F1 F2, seen (F1 ++ F2) = seen F1 || seen F2.
Proof. intros. unfold seen. apply existsb_app. Qed.

Lemma late_nofin : forall fs, Forall (fun f => finrst f = false) fs -> late false fs = false /\ seen fs = false.
Proof.
  induction 1 as [|f fs Hf _ IH]; cbn [late seen existsb]; [auto|].
  rewrite Hf. cbn [andb orb]. exact IH.
Qed.

Lemma late_nodata : forall fs b, Forall (fun f => nonempty_data f = false) fs -> late b fs = false.
Proof.
  induction fs as [|f fs IH]; intros b H; cbn [late]; [reflexivity|].
  inversion H; subst. rewrite H2, andb_false_r. cbn [orb]. apply IH. assumption.
Qed.

Lemma snd_step_late : forall M s op s1 fs a,
  snd_step M s op = (s1, fs, a) ->
  late false fs = false /\
  (seen fs = true -> is_open (s_st s1) = false) /\
  (is_open (s_st s) = false -> late true fs = false).
Proof.
  intros M s op s1 fs a H.
  assert (WF : forall x b1 b2 b3 b4 b, late b [wframe x b1 b2 b3 b4 0] = false).
  { intros. cbn [late]. unfold nonempty_data, wframe, is_data; cbn. rewrite andb_false_r. reflexivity. }
  assert (CUT : forall fu M0 sid w p fs0 w0 p0, cut fu M0 sid w p = (fs0, w0, p0) -> late false fs0 = false /\ seen fs0 = false).
  { intros fu M0 sid w p fs0 w0 p0 C. apply cut_spec in C. destruct C as (_ & _ & C & _). apply late_nofin.
    eapply Forall_impl; [|exact C]. intros f (_ & _ & _ & _ & _ & _ & F1 & F2). unfold finrst. rewrite F1, F2. reflexivity. }
  destruct op as [acc|bs|d| |]; cbn [snd_step] in H.
  - inversion H; subst. rewrite !WF. repeat split; auto. cbn. discriminate.
  - destruct (is_open (s_st s)) eqn:O.
    + destruct (cut (length (s_pend s ++ bs)) M (s_sid s) (s_win s) (s_pend s ++ bs)) as [[fs' w] p'] eqn:C.
      inversion H; subst. destruct (CUT _ _ _ _ _ _ _ _ C) as [C1 C2]. rewrite C1, C2. repeat split; auto; discriminate.
    + inversion H; subst. cbn. repeat split; auto; discriminate.
  - destruct (is_open (s_st s)) eqn:O.
    + destruct (cut (length (s_pend s)) M (s_sid s) (s_win s + d) (s_pend s)) as [[fs' w] p'] eqn:C.
      inversion H; subst. destruct (CUT _ _ _ _ _ _ _ _ C) as [C1 C2]. rewrite C1, C2. repeat split; auto; discriminate.
    + inversion H; subst. cbn. repeat split; auto; discriminate.
  - destruct (is_open (s_st s)) eqn:O.
    + inversion H; subst. rewrite !WF. repeat split; auto.
    + inversion H; subst. cbn. repeat split; auto; discriminate.
  - destruct (s_st s) eqn:O; inversion H; subst; rewrite ?WF; cbn [is_open s_st]; repeat split; auto; cbn; discriminate.
Qed.

(* the sender never puts data after its own FIN/RST *)
Lemma snd_run_late : forall M ops s evs acc,
  late false (ev_frames evs) = false ->
  (seen (ev_frames evs) = true -> is_open (s_st s) = false) ->
  let rr := snd_run M s evs acc ops in
  late false (ev_frames (sr_ev rr)) = false.
Proof.
  intros M. induction ops as [|op ops IH]; intros s evs acc L S; cbn [snd_run]; [exact L|].
  destruct (snd_step M s op) as [[s1 fs] a] eqn:E.
  destruct (snd_step_late _ _ _ _ _ _ E) as (T1 & T2 & T3).
  destruct (snd_step_spec _ _ _ _ _ _ E) as (_ & _ & _ & _ & S5 & _).
  apply IH.
  - rewrite !ev_frames_app, ev_frames_op_ev, ev_frames_map. cbn [app]. rewrite late_app, L. cbn [orb].
    destruct (seen (ev_frames evs)) eqn:Sn; [apply T3, S; reflexivity|exact T1].
  - rewrite !ev_frames_app, ev_frames_op_ev, ev_frames_map. cbn [app]. rewrite seen_app. intros X.
    apply orb_prop in X. destruct X as [X|X]; [apply S5, S, X|apply T2, X].
Qed.

Lemma snd_run_ev_prefix : forall M ops s evs acc,
  exists tl, sr_ev (snd_run M s evs acc ops) = evs ++ tl.
Proof.
  intros M. induction ops as [|op ops IH]; intros s evs acc; cbn [snd_run].
  - exists []. rewrite app_nil_r. reflexivity.
  - destruct (snd_step M s op) as [[s1 fs] a]. destruct (IH s1 (evs ++ op_ev op ++ map EvF fs) (acc ++ a)) as [tl E].
    rewrite E, <- app_assoc. eauto.
Qed.

Lemma snd_run_app : forall M a b s evs acc,
  snd_run M s evs acc (a ++ b) =
  snd_run M (sr_st (snd_run M s evs acc a)) (sr_ev (snd_run M s evs acc a)) (sr_acc (snd_run M s evs acc a)) b.
Proof.
  intros M. induction a as [|op a IH]; intros b s evs acc; cbn [app snd_run]; [reflexivity|].
  destruct (snd_step M s op) as [[s1 fs] x]. apply IH.
Qed.

Lemma snd_run_closed : forall M ops s evs acc,
  is_open (s_st s) = false ->
  payload (ev_frames (sr_ev (snd_run M s evs acc ops))) = payload (ev_frames evs) /\
  sr_acc (snd_run M s evs acc ops) = acc.
Proof.
  intros M. induction ops as [|op ops IH]; intros s evs acc O; cbn [snd_run]; [auto|].
  destruct (snd_step M s op) as [[s1 fs] a] eqn:E.
  destruct (snd_step_spec _ _ _ _ _ _ E) as (_ & _ & _ & _ & S5 & _). destruct (S5 O) as (O1 & P & A).
  destruct (IH s1 (evs ++ op_ev op ++ map EvF fs) (acc ++ a) O1) as [I1 I2]. rewrite I1, I2.
  rewrite !ev_frames_app, ev_frames_op_ev, ev_frames_map. cbn [app]. rewrite payload_app, P, A, !app_nil_r. auto.
Qed.

(* Writes that all completed, then CloseWrite (and anything after it): everything
   accepted is on the wire, no data follows the FIN *)
Lemma sender_closed_complete_l : forall M W0 sid w more,
  let r1 := snd_run M (snd0 W0 sid) [] [] w in
  is_open (s_st (sr_st r1)) = true -> s_pend (sr_st r1) = [] ->
  let rr := snd_run M (snd0 W0 sid) [] [] (w ++ SCloseW :: more) in
  payload (ev_frames (sr_ev rr)) = sr_acc rr /\ sr_acc rr = sr_acc r1 /\
  existsb f_fin (ev_frames (sr_ev rr)) = true.
Proof.
  intros M W0 sid w more r1 O P rr. unfold rr. rewrite snd_run_app. fold r1. cbn [snd_run snd_step]. rewrite O.
  cbn [op_ev app map]. rewrite (app_nil_r (sr_acc r1)).
  pose proof (sender_complete_l M W0 sid w) as C. cbn zeta in C. fold r1 in C.
  set (s1 := mkSnd (s_sid (sr_st r1)) (s_win (sr_st r1)) [] HClosed).
  destruct (snd_run_closed M more s1 (sr_ev r1 ++ [EvF (wframe (s_sid (sr_st r1)) false false true false 0)]) (sr_acc r1) eq_refl) as [X1 X2].
  destruct (snd_run_ev_prefix M more s1 (sr_ev r1 ++ [EvF (wframe (s_sid (sr_st r1)) false false true false 0)]) (sr_acc r1)) as [tl X3].
  rewrite X1, X2. rewrite ev_frames_app, payload_app. cbn [ev_frames payload is_data wframe f_ty app]. rewrite app_nil_r.
  split; [|split; [reflexivity|]].
  - destruct M as [|m].
    + (* M = 0: nothing can ever be sent; pending empty means nothing accepted beyond what was sent *)
      destruct (sender_cut_l 0 W0 sid w) as ((rest & E & R) & _). fold r1 in E, R. rewrite (R O), P, app_nil_r in E. exact E.
    + apply C; [lia|exact O|exact P].
  - rewrite X3, !ev_frames_app. cbn [ev_frames]. rewrite !existsb_app. cbn [existsb wframe f_fin]. rewrite orb_true_r. reflexivity.
Qed.

Lemma snd_open_head : forall M W0 sid sops,
  exists tl, ev_frames (sr_ev (snd_run M (snd0 W0 sid) [] [] (SOpen false :: sops))) = wframe sid true false false false 0 :: tl.
Proof.
  intros. cbn [snd_run snd_step].
  match goal with |- context [snd_run ?m ?s ?e ?a ?o] => destruct (snd_run_ev_prefix m o s e a) as [t X]; rewrite X end.
  cbn. eauto.
Qed.

Section EndToEnd.
Variables M W0 MAXW : nat.

(* The frames of stream [sid] that reached the receiving session — in ANY
   interleaving with the frames of any number of other streams, and with any
   interleaving of deliveries, Reads (any buffer sizes) and local half-closes —
   are a prefix of what the stream's sender emitted (the connection keeps each
   stream's order).  Then the Reads on [sid] return a prefix of the bytes the
   Writes on [sid] accepted: exactly once, in order, no byte of another stream. *)
Lemma mux_end_to_end_l : forall sid sops rops,
  let sr := snd_run M (snd0 W0 sid) [] [] (SOpen false :: sops) in
  let '(s, outs) := ses_run W0 MAXW ses0 [] rops in
  (exists tl, frames_for sid (frames_in rops) ++ tl = ev_frames (sr_ev sr)) ->
  exists rest, delivered sid outs ++ rest = sr_acc sr.
Proof.
  intros sid sops rops sr. pose proof (mux_prefix_l W0 MAXW rops sid) as P.
  destruct (ses_run W0 MAXW ses0 [] rops) as [s outs]. intros [tl E].
  destruct (sender_cut_l M W0 sid (SOpen false :: sops)) as ((rest & C & _) & _). fold sr in C.
  assert (Hd : head_syn (frames_for sid (frames_in rops)) = true).
  { destruct (frames_for sid (frames_in rops)) as [|f F] eqn:EF; [reflexivity|].
    destruct (snd_open_head M W0 sid sops) as [t X]. fold sr in X. rewrite X in E. cbn [app] in E. inversion E; subst. reflexivity. }
  destruct (P Hd) as [r1 P1]. rewrite <- E, payload_app, <- P1 in C.
  exists (r1 ++ payload tl ++ rest). rewrite <- C, <- !app_assoc. reflexivity.
Qed.

(* ... and all of them, once every frame of the stream was handed over and the
   reader has emptied its buffer (in particular when it has seen EOF) *)
Lemma mux_end_to_end_complete_l : forall sid sops rops,
  let sr := snd_run M (snd0 W0 sid) [] [] (SOpen false :: sops) in
  let '(s, outs) := ses_run W0 MAXW ses0 [] rops in
  frames_for sid (frames_in rops) = ev_frames (sr_ev sr) ->
  payload (ev_frames (sr_ev sr)) = sr_acc sr ->
  broken s = false ->
  forall r, lookup sid (streams s) = Some r -> r_buf r = [] ->
  delivered sid outs = sr_acc sr.
Proof.
  intros sid sops rops sr. pose proof (mux_exact_l W0 MAXW rops sid) as P.
  destruct (ses_run W0 MAXW ses0 [] rops) as [s outs]. intros E C B r L Bf.
  assert (Hl : late false (ev_frames (sr_ev sr)) = false) by (apply snd_run_late; [reflexivity|discriminate]).
  assert (Hd : head_syn (ev_frames (sr_ev sr)) = true).
  { destruct (snd_open_head M W0 sid sops) as [t X]. fold sr in X. rewrite X. reflexivity. }
  rewrite E in P. specialize (P Hd Hl B r L). rewrite Bf in P. cbn [concat] in P. rewrite app_nil_r in P.
  rewrite P. exact C.
Qed.
End EndToEnd.

(* ======================= order-preserving interleavings ============================ *)
(* [Interleave ls w]: w is a merge of the lists ls that keeps the order of each *)
Inductive Interleave : list (list frame) -> list frame -> Prop :=
  | IL_nil : forall ls, Forall (fun l => l = []) ls -> Interleave ls []
  | IL_cons : forall ls1 f l ls2 w,
      Interleave (ls1 ++ l :: ls2) w -> Interleave (ls1 ++ (f :: l) :: ls2) (f :: w).

Lemma interleave_filter : forall ls w, Interleave ls w ->
  forall sid, Interleave (map (frames_for sid) ls) (frames_for sid w).
Proof.
  induction 1 as [ls H|ls1 f l ls2 w H IH]; intros sid.
  - apply IL_nil. apply Forall_forall. intros x Hx. apply in_map_iff in Hx. destruct Hx as (l & E & Hl).
    rewrite Forall_forall in H. rewrite (H l Hl) in E. subst x. reflexivity.
  - specialize (IH sid). rewrite map_app in *. cbn [map] in *. unfold frames_for at 2 4. cbn [filter].
    destruct (f_sid f =? sid); [apply IL_cons|]; exact IH.
Qed.

Lemma nth_error_mid : forall (A : Type) (l1 : list A) x l2, nth_error (l1 ++ x :: l2) (length l1) = Some x.
Proof. intros. rewrite nth_error_app2, Nat.sub_diag; [reflexivity|lia]. Qed.

Lemma nth_error_mid_other : forall (A : Type) (l1 : list A) x y l2 j, j <> length l1 ->
  nth_error (l1 ++ x :: l2) j = nth_error (l1 ++ y :: l2) j.
Proof.
  intros A l1 x y l2 j H. destruct (Nat.lt_ge_cases j (length l1)) as [L|L].
  - rewrite !nth_error_app1 by exact L. reflexivity.
  - rewrite !nth_error_app2 by exact L. destruct (j - length l1) eqn:E; [lia|reflexivity].
Qed.

Lemma interleave_single : forall ls w, Interleave ls w ->
  forall i, (forall j l, nth_error ls j = Some l -> j <> i -> l = []) -> w = nth i ls [].
Proof.
  induction 1 as [ls H|ls1 f l ls2 w H IH]; intros i Hi.
  - destruct (nth_error ls i) as [x|] eqn:E.
    + rewrite (nth_error_nth _ _ _ E). rewrite Forall_forall in H. symmetry. apply H. eapply nth_error_In; eauto.
    + rewrite nth_overflow; [reflexivity|]. apply nth_error_None. exact E.
  - assert (Ei : i = length ls1).
    { destruct (Nat.eq_dec (length ls1) i) as [E|E]; [auto|].
      specialize (Hi (length ls1) (f :: l) (nth_error_mid _ _ _ _) E). discriminate. }
    subst i. rewrite (nth_error_nth _ _ _ (nth_error_mid _ ls1 (f :: l) ls2)).
    rewrite (IH (length ls1)).
    + rewrite (nth_error_nth _ _ _ (nth_error_mid _ ls1 l ls2)). reflexivity.
    + intros j x Hj Hne. rewrite (nth_error_mid_other _ ls1 l (f :: l) ls2 j Hne) in Hj. eapply Hi; eauto.
Qed.

Lemma filter_all : forall (p : frame -> bool) l, Forall (fun f => p f = true) l -> filter p l = l.
Proof. induction 1 as [|f l Hf _ IH]; cbn [filter]; [reflexivity|]. rewrite Hf, IH. reflexivity. Qed.

Lemma filter_none : forall (p : frame -> bool) l, Forall (fun f => p f = false) l -> filter p l = [].
Proof. induction 1 as [|f l Hf _ IH]; cbn [filter]; [reflexivity|]. rewrite Hf. exact IH. Qed.

(* n streams with pairwise different ids, each sequence carrying its own id: on
   ANY order-preserving merge, the frames tagged with the i-th id are exactly the
   i-th sequence, in order *)
Lemma interleave_proj_l : forall ids fss w i,
  NoDup ids -> length ids = length fss ->
  (forall j sid fs, nth_error ids j = Some sid -> nth_error fss j = Some fs -> Forall (fun f => f_sid f = sid) fs) ->
  Interleave fss w ->
  forall sid fs, nth_error ids i = Some sid -> nth_error fss i = Some fs ->
  frames_for sid w = fs.
Proof.
  intros ids fss w i ND Len Own IL sid fs Hs Hf.
  pose proof (interleave_filter _ _ IL sid) as IL'.
  rewrite (interleave_single _ _ IL' i).
  - rewrite (nth_error_nth _ _ _ (map_nth_error (frames_for sid) _ _ Hf)).
    apply filter_all. eapply Forall_impl; [|exact (Own i sid fs Hs Hf)]. intros f E. apply Nat.eqb_eq. exact E.
  - intros j x Hj Hne. destruct (nth_error fss j) as [fj|] eqn:Ej.
    2:{ apply nth_error_None in Ej. assert (nth_error (map (frames_for sid) fss) j = None) by (apply nth_error_None; rewrite map_length; exact Ej). congruence. }
    rewrite (map_nth_error (frames_for sid) _ _ Ej) in Hj. inversion Hj; subst x.
    destruct (nth_error ids j) as [sj|] eqn:Es.
    2:{ apply nth_error_None in Es. assert (j < length fss) by (apply nth_error_Some; congruence). lia. }
    apply filter_none. eapply Forall_impl; [|exact (Own j sj fj Es Ej)]. intros f E. apply Nat.eqb_neq. rewrite E.
    intros X. subst sj. apply Hne. eapply NoDup_nth_error; eauto. apply nth_error_Some. congruence. congruence.
Qed.

(* C02 — multiplexed streams: wire format of the tapped-session cases (kind 7),
   the replay of the model in Mux.v against them, and the property as a monitor
   over the reader's observations.  No proofs here.

   Case line (kind 7), W = writing endpoint, B = reading endpoint:
     7 cfg NS (sid nw wlen_1..wlen_nw endact wok)*NS NE (tag a b c d e)*NE
       cfg    : 0 = W is the yamux client (odd ids), 1 = W is the server (even ids);
                +10 = the harness gave the session up (it failed or hung: never on the unchanged
                tree): the events recorded so far, judged by the per-Read clauses of the monitor only
       stream : yamux id, the sizes of W's Write calls, what W did afterwards
                (0 nothing, 1 CloseWrite, 2 Reset), wok = 1 iff every Write returned (len, nil)
       events, in the order of the harness' global log:
         1 sid ty flags len ok   frame W->B seen by the tap (ty 0 Data / 1 WindowUpdate; flags SYN=1 ACK=2 FIN=4 RST=8;
                                 ok = the payload equals the bytes W wrote on sid at the offset given by the earlier Data frames)
         2 sid ty flags len 0    frame B->W seen by the tap (logged before it is forwarded)
         3 0 0 0 0 0             the oldest undelivered W->B frame was handed to B and completely processed
         4 sid buflen res n ok   B's Read: res 0 data / 1 EOF / 2 error; ok = the n bytes equal what W wrote at the read offset
         5 sid e 0 0 0           B's own CloseWrite on sid (e = 1: it returned an error)
     The harness makes every B->W frame appear between the B-side call that caused
     it and the next event with tag 3/4/5. *)
From Coq Require Import List Arith ZArith NArith Bool.
From Verif Require Import lib.Wire c02.Mux gen.Consts_c02.
Import ListNotations.

(* constants re-read from /repo's p2p/muxer/yamux (DefaultTransport's configuration) *)
Definition HDR : Z := 12.                                  (* yamux header size *)
Definition W0 : nat := Z.to_nat yamux_InitialStreamWindowSize.
Definition MAXF : nat := Z.to_nat (yamux_MaxMessageSize - HDR).
(* the replay caps the auto-tuned window at min(MaxStreamWindowSize, 8 * initial):
   the same as the real cap as long as a stream carries less than 4 windows of data
   (the harness' streams carry less than 2) *)
Definition MAXW_replay : nat := Z.to_nat (Z.min yamux_MaxStreamWindowSize (8 * yamux_InitialStreamWindowSize)).

Local Open Scope Z_scope.

Record ev := mkEv { e_tag : Z; e_a : Z; e_b : Z; e_c : Z; e_d : Z; e_e : Z }.
Record sdesc := mkSd { sd_sid : Z; sd_wlens : list Z; sd_end : Z; sd_wok : Z }.
Record mcase := mkMc { m_cfg : Z; m_streams : list sdesc; m_evs : list ev }.

Fixpoint decode_streams (n : nat) (l : list Z) : option (list sdesc * list Z) :=
  match n with
  | O => Some ([], l)
  | S k =>
      match l with
      | sid :: nw :: r =>
          let wl := ztake nw r in
          match zdrop nw r with
          | en :: wok :: r2 =>
              if (zlen wl =? nw) && (0 <=? nw) then
                match decode_streams k r2 with
                | Some (ds, r3) => Some (mkSd sid wl en wok :: ds, r3)
                | None => None
                end
              else None
          | _ => None
          end
      | _ => None
      end
  end.

Fixpoint decode_evs (fuel : nat) (l : list Z) : option (list ev) :=
  match fuel with
  | O => None
  | S k =>
      match l with
      | [] => Some []
      | t :: a :: b :: c :: d :: e :: r =>
          match decode_evs k r with
          | Some es => Some (mkEv t a b c d e :: es)
          | None => None
          end
      | _ => None
      end
  end.

Definition decode7 (l : list Z) : option mcase :=
  match l with
  | k :: cfg :: ns :: r =>
      if (k =? 7) && (0 <=? ns) then
        match decode_streams (Z.to_nat ns) r with
        | Some (ds, ne :: r2) =>
            match decode_evs (S (length r2)) r2 with
            | Some es => if zlen es =? ne then Some (mkMc cfg ds es) else None
            | None => None
            end
        | _ => None
        end
      else None
  | _ => None
  end.

(* ---- bytes: a written byte is identified by its offset in its stream (mod 256) ------ *)
Fixpoint mkbytes (off : N) (n : nat) : list byte :=
  match n with
  | O => []
  | S k => N.land off 255 :: mkbytes (off + 1)%N k
  end.

Definition junk (n : nat) : list byte := repeat 999%N n.

Fixpoint consec (off : N) (bs : list byte) : bool :=
  match bs with
  | [] => true
  | b :: r => N.eqb b (N.land off 255) && consec (off + 1)%N r
  end.

Fixpoint zget (k : Z) (l : list (Z * N)) : N :=
  match l with
  | [] => 0%N
  | (j, v) :: t => if j =? k then v else zget k t
  end.

Fixpoint zset (k : Z) (v : N) (l : list (Z * N)) : list (Z * N) :=
  match l with
  | [] => [(k, v)]
  | (j, x) :: t => if j =? k then (j, v) :: t else (j, x) :: zset k v t
  end.

Definition frame_of (sid ty flags len : Z) (pay : list byte) : frame :=
  mkF (Z.to_nat sid) (if ty =? 0 then TData else TWindow)
      (Z.testbit flags 0) (Z.testbit flags 1) (Z.testbit flags 2) (Z.testbit flags 3)
      (Z.to_nat len) pay.

(* ---- replay of the receiver model -------------------------------------------------- *)
Record rp := mkRp {
  rp_ses : ses;
  rp_q : list frame;              (* tapped W->B frames not yet handed to B *)
  rp_sent : list (Z * N);         (* per stream: bytes of the Data frames tapped so far *)
  rp_read : list (Z * N);         (* per stream: bytes B has read so far *)
  rp_expect : option (Z * nat)    (* window update the model has just emitted, not yet seen on the tap *)
}.

Definition rp0 : rp := mkRp ses0 [] [] [] None.

Definition is_sched (t : Z) : bool := (t =? 3) || (t =? 4) || (t =? 5).
Definition plain_wu (e : ev) : bool := (e_tag e =? 2) && (e_b e =? 1) && (e_c e =? 0).

(* the next plain window update for sid logged before the next action of the scheduler *)
Fixpoint next_wu (sid : Z) (evs : list ev) : option Z :=
  match evs with
  | [] => None
  | e :: r =>
      if is_sched (e_tag e) then None
      else if plain_wu e && (e_a e =? sid) then Some (e_d e)
      else next_wu sid r
  end.

Definition read_of (o : rout) : rres * option nat :=
  match o with ORead _ x wu => (x, wu) | ONone => (RBlock, None) end.

(* diagnostics: [ERR_MISMATCH; event index; code; ...] *)
Fixpoint walk (i : Z) (st : rp) (evs : list ev) : list Z :=
  match evs with
  | [] => match rp_expect st with None => [] | Some (s, d) => [ERR_MISMATCH; i; 20; s; Z.of_nat d] end
  | e :: r =>
      let t := e_tag e in
      if is_sched t && (match rp_expect st with Some _ => true | None => false end)
      then [ERR_MISMATCH; i; 21]          (* the model sent a window update here, the implementation did not *)
      else if t =? 1 then
        let sid := e_a e in
        let len := Z.to_nat (e_d e) in
        let off := zget sid (rp_sent st) in
        let isdata := e_b e =? 0 in
        let pay := if isdata then (if e_e e =? 1 then mkbytes off len else junk len) else [] in
        let f := frame_of sid (e_b e) (e_c e) (e_d e) pay in
        walk (i + 1)
             (mkRp (rp_ses st) (rp_q st ++ [f])
                   (if isdata then zset sid (off + N.of_nat len)%N (rp_sent st) else rp_sent st)
                   (rp_read st) (rp_expect st)) r
      else if t =? 2 then
        if plain_wu e then
          match rp_expect st with
          | Some (s, d) =>
              if (s =? e_a e) && (Z.of_nat d =? e_d e)
              then walk (i + 1) (mkRp (rp_ses st) (rp_q st) (rp_sent st) (rp_read st) None) r
              else [ERR_MISMATCH; i; 22; s; Z.of_nat d; e_a e; e_d e]
          | None => [ERR_MISMATCH; i; 23; e_a e; e_d e]      (* a window update the model does not send *)
          end
        else walk (i + 1) st r
      else if t =? 3 then
        match rp_q st with
        | [] => [ERR_MISMATCH; i; 30]
        | f :: q =>
            let '(s1, _) := ses_step W0 MAXW_replay (rp_ses st) (RDeliver f) in
            walk (i + 1) (mkRp s1 q (rp_sent st) (rp_read st) None) r
        end
      else if t =? 4 then
        let sid := e_a e in
        let op0 := RRead (Z.to_nat sid) (Z.to_nat (e_b e)) false in
        let '(s0, o0) := ses_step W0 MAXW_replay (rp_ses st) op0 in
        let '(s1, o1) :=
          match Datatypes.snd (read_of o0), next_wu sid r with
          | Some d0, Some d =>
              if Z.of_nat d0 =? d then (s0, o0)
              else ses_step W0 MAXW_replay (rp_ses st) (RRead (Z.to_nat sid) (Z.to_nat (e_b e)) true)
          | _, _ => (s0, o0)
          end in
        let '(x, wu) := read_of o1 in
        let off := zget sid (rp_read st) in
        let '(mres, mn, mok) :=
          match x with
          | RData bs => (0, zlen bs, consec off bs)
          | REOF => (1, 0, true)
          | RErr => (2, 0, true)
          | RBlock => (3, 0, true)
          end in
        if (mres =? e_c e) && (mn =? e_d e) && Bool.eqb mok (zbool (e_e e)) then
          walk (i + 1)
               (mkRp s1 (rp_q st) (rp_sent st) (zset sid (off + Z.to_N mn)%N (rp_read st))
                     (match wu with Some d => Some (sid, d) | None => None end)) r
        else [ERR_MISMATCH; i; 40; sid; mres; mn; boolz mok; e_c e; e_d e; e_e e]
      else if t =? 5 then
        let sid := e_a e in
        let me := match lookup (Z.to_nat sid) (streams (rp_ses st)) with
                  | Some rr => match r_wr rr with HReset => 1 | _ => 0 end
                  | None => 0
                  end in
        if me =? e_b e then
          let '(s1, _) := ses_step W0 MAXW_replay (rp_ses st) (RCloseW (Z.to_nat sid)) in
          walk (i + 1) (mkRp s1 (rp_q st) (rp_sent st) (rp_read st) None) r
        else [ERR_MISMATCH; i; 50; sid; me; e_b e]
      else [ERR_MALFORMED; i]
  end.

(* ---- the sender side: the tapped frames of one stream are a valid cut of its writes ---- *)
Definition zsum (l : list Z) : Z := fold_right Z.add 0 l.

(* what an observer between the ends sees of stream sid's sender, as Mux.sev events
   (payload contents do not matter for the window rules) *)
Fixpoint sender_events (sid : Z) (evs : list ev) : list sev :=
  match evs with
  | [] => []
  | e :: r =>
      if (e_tag e =? 1) && (e_a e =? sid) then
        EvF (frame_of sid (e_b e) (e_c e) (e_d e) (if e_b e =? 0 then repeat 0%N (Z.to_nat (e_d e)) else [])) :: sender_events sid r
      else if (e_tag e =? 2) && (e_a e =? sid) && (e_b e =? 1) && negb (Z.testbit (e_c e) 3) then
        EvW (Z.to_nat (e_d e)) :: sender_events sid r
      else sender_events sid r
  end.

Definition frame_finrst (f : frame) : bool := f_fin f || f_rst f.

Definition data_frames_ok (sid : Z) (evs : list ev) : bool :=
  forallb (fun e => negb ((e_tag e =? 1) && (e_a e =? sid) && (e_b e =? 0))
                    || ((e_c e =? 0) && (e_e e =? 1) && (1 <=? e_d e))) evs.

Definition check_sender (evs : list ev) (sd : sdesc) : list Z :=
  let sevs := sender_events (sd_sid sd) evs in
  let fs := ev_frames sevs in
  let tot := zsum (sd_wlens sd) in
  let nfr := length (filter frame_finrst fs) in
  if negb (sd_wok sd =? 1) then [ERR_MISMATCH; sd_sid sd; 60]
  else if negb (valid_cut MAXF W0 sevs) then [ERR_MISMATCH; sd_sid sd; 61]
  else if negb (data_frames_ok (sd_sid sd) evs) then [ERR_MISMATCH; sd_sid sd; 62]
  else if negb (zlen (payload fs) =? tot) then [ERR_MISMATCH; sd_sid sd; 63; zlen (payload fs); tot]
  else if negb (match fs with f :: _ => f_syn f && negb (is_data f) | [] => false end) then [ERR_MISMATCH; sd_sid sd; 64]
  else if sd_end sd =? 0 then (if Nat.eqb nfr 0 then [] else [ERR_MISMATCH; sd_sid sd; 65])
  else
    match rev fs with
    | l :: _ =>
        if Nat.eqb nfr 1 && negb (is_data l) &&
           (if sd_end sd =? 1 then f_fin l && negb (f_rst l) else f_rst l && negb (f_fin l))
        then [] else [ERR_MISMATCH; sd_sid sd; 66]
    | [] => [ERR_MISMATCH; sd_sid sd; 66]
    end.

Fixpoint first_nonempty (l : list (list Z)) : list Z :=
  match l with
  | [] => []
  | [] :: r => first_nonempty r
  | x :: _ => x
  end.

Definition conform7 (l : list Z) : list Z :=
  match decode7 l with
  | None => [ERR_MALFORMED; 7]
  | Some c =>
      if 10 <=? m_cfg c then [] else     (* aborted session: only the monitor applies *)
      match walk 0 rp0 (m_evs c) with
      | [] => first_nonempty (map (check_sender (m_evs c)) (m_streams c))
      | d => d
      end
  end.

(* ---- the property, on the reader's observations alone -------------------------------- *)
(* per stream: every byte a Read returns is the byte written at that position,
   nothing beyond what was written; EOF only if the writer half-closed and only
   once everything it wrote was delivered; an error only if the writer reset the
   stream; at the end (all frames were handed over and the reader drained the
   stream; [complete]) everything written was delivered unless the stream was
   reset, a half-closed stream reached EOF, and a reset stream reported an error *)
Fixpoint mon7 (complete : bool) (total endact delivered : Z) (saw_eof saw_err : bool) (tr : list ev) : bool :=
  match tr with
  | [] =>
      negb complete ||
      ((if endact =? 2 then saw_err else (delivered =? total)) &&
       (if endact =? 1 then saw_eof else true))
  | e :: r =>
      let blen := e_b e in let res := e_c e in let n := e_d e in
      if res =? 0 then
        (e_e e =? 1) && (0 <=? n) && (n <=? blen) && (delivered + n <=? total) &&
        mon7 complete total endact (delivered + n) saw_eof saw_err r
      else if res =? 1 then
        (n =? 0) && (endact =? 1) && (delivered =? total) && mon7 complete total endact delivered true saw_err r
      else
        (n =? 0) && (endact =? 2) && mon7 complete total endact delivered saw_eof true r
  end.

Definition reads_of (sid : Z) (evs : list ev) : list ev :=
  filter (fun e => (e_tag e =? 4) && (e_a e =? sid)) evs.

Definition monitor_stream (complete : bool) (evs : list ev) (sd : sdesc) : list Z :=
  if mon7 complete (zsum (sd_wlens sd)) (sd_end sd) 0 false false (reads_of (sd_sid sd) evs) then []
  else [ERR_PROPERTY; 7; sd_sid sd; sd_end sd].

(* reads on a stream that the writer never opened *)
Definition foreign_read (ds : list sdesc) (e : ev) : bool :=
  (e_tag e =? 4) && (e_c e =? 0) && (0 <? e_d e) && negb (existsb (fun sd => sd_sid sd =? e_a e) ds).

Definition monitor7 (l : list Z) : list Z :=
  match decode7 l with
  | None => [ERR_MALFORMED; 7]
  | Some c =>
      if existsb (foreign_read (m_streams c)) (m_evs c) then [ERR_PROPERTY; 7; -1; 0]
      else first_nonempty (map (monitor_stream (m_cfg c <? 10) (m_evs c)) (m_streams c))
  end.

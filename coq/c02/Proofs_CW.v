(* C02 — concurrent writers on one secured connection: the monitor of SpecCW.v
   accepts every run of the model (Write atomic w.r.t. other Writes) *)
From Coq Require Import List Arith ZArith NArith Bool Lia.
From Verif Require Import c02.SpecCW.
Import ListNotations.

Definition pos_st (st : wst) : Prop := Forall (fun p => Forall (fun l => (1 <= l)%N) (snd p)) st.

Lemma set_nth_forall : forall (A : Type) (P : A -> Prop) n x (l : list A),
  Forall P l -> P x -> Forall P (set_nth n x l).
Proof.
  intros A P n x l H Hx. revert n. induction H as [|h t Hh Ht IH]; intros n; cbn [set_nth].
  - destruct n; constructor.
  - destruct n; constructor; auto.
Qed.

Lemma take_whole_head : forall l ws, take_whole l (l :: ws) = Some ws.
Proof. intros. cbn [take_whole]. rewrite N.ltb_irrefl, N.eqb_refl. reflexivity. Qed.

Lemma whole_run_model : forall sched st,
  pos_st st -> whole_run st (cw_runs st sched) = Some (cw_final st sched).
Proof.
  induction sched as [|w sched IH]; intros st P; cbn [cw_runs cw_final]; [reflexivity|].
  destruct (nth_error st w) as [[off [|l ws]]|] eqn:E; try (apply IH; exact P).
  cbn [whole_run]. rewrite E.
  assert (Hl : (1 <= l)%N /\ Forall (fun x => (1 <= x)%N) ws).
  { unfold pos_st in P. rewrite Forall_forall in P. specialize (P _ (nth_error_In _ _ E)). cbn [snd] in P.
    inversion P; subst. auto. }
  destruct Hl as [Hl Hws].
  rewrite N.eqb_refl. replace (1 <=? l)%N with true by (symmetry; apply N.leb_le; exact Hl). cbn [andb].
  rewrite take_whole_head. apply IH. apply set_nth_forall; [exact P|exact Hws].
Qed.

Lemma pos_st0 : forall writers, Forall (Forall (fun l => (1 <= l)%N)) writers -> pos_st (st0 writers).
Proof.
  intros writers H. unfold pos_st, st0. apply Forall_map. eapply Forall_impl; [|exact H]. intros a Ha. exact Ha.
Qed.

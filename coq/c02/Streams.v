(* C02 — the thin stream wrappers around a raw connection:
   (1) the private-network PSK connection (p2p/net/pnet/psk_conn.go): a stream
       cipher applied position by position, whatever the chunking of writes
       and reads;
   (2) tcpreuse's sampled connection (sampledconn.go): the three peeked bytes
       are replayed to Read and to WriteTo. *)
From Coq Require Import List Arith Lia.
Import ListNotations.

(* ---- (1) PSK stream ---------------------------------------------------------- *)
Section Psk.
  Variable byte : Type.
  Variable xor : byte -> byte -> byte.
  Hypothesis xor_involutive : forall x k, xor (xor x k) k = x.
  (* the keystream of one direction: a function of the position only (XSalsa20
     keyed with the PSK and the 24-byte nonce sent first) *)
  Variable ks : nat -> byte.

  (* XORKeyStream applied to a buffer that starts at stream position [pos] *)
  Fixpoint crypt (pos : nat) (d : list byte) : list byte :=
    match d with
    | [] => []
    | x :: r => xor x (ks pos) :: crypt (S pos) r
    end.

  Lemma crypt_length pos d : length (crypt pos d) = length d.
  Proof. revert pos; induction d as [|x d IH]; intros pos; cbn; [reflexivity|]. rewrite IH. reflexivity. Qed.

  Lemma crypt_app pos a b : crypt pos (a ++ b) = crypt pos a ++ crypt (pos + length a) b.
  Proof.
    revert pos; induction a as [|x a IH]; intros pos; cbn [app crypt length].
    - rewrite Nat.add_0_r. reflexivity.
    - rewrite IH. f_equal. f_equal. f_equal. lia.
  Qed.

  Lemma crypt_crypt pos d : crypt pos (crypt pos d) = d.
  Proof. revert pos; induction d as [|x d IH]; intros pos; cbn; [reflexivity|]. rewrite xor_involutive, IH. reflexivity. Qed.

  (* the writer: each Write encrypts its buffer at the current position *)
  Fixpoint wr (pos : nat) (ws : list (list byte)) : list byte :=
    match ws with
    | [] => []
    | d :: r => crypt pos d ++ wr (pos + length d) r
    end.

  Lemma wr_concat ws : forall pos, wr pos ws = crypt pos (concat ws).
  Proof.
    induction ws as [|d ws IH]; intros pos; cbn [wr concat]; [reflexivity|].
    rewrite crypt_app, IH. reflexivity.
  Qed.

  (* the reader: the raw connection hands over the ciphertext in arbitrary
     pieces [cuts]; each piece is decrypted at the reader's position *)
  Fixpoint rd (pos : nat) (pieces : list (list byte)) : list byte :=
    match pieces with
    | [] => []
    | c :: r => crypt pos c ++ rd (pos + length c) r
    end.

  (* whatever the chunking into writes and whatever pieces the connection
     delivers, the reader gets back exactly what was written so far *)
  Lemma psk_fidelity_l ws pieces :
    concat pieces = wr 0 ws -> rd 0 pieces = concat ws.
  Proof.
    intros H. assert (G : forall pos ps, rd pos ps = crypt pos (concat ps)).
    { intros pos ps; revert pos; induction ps as [|c ps IH]; intros pos; cbn [rd concat]; [reflexivity|].
      rewrite crypt_app, IH. reflexivity. }
    rewrite G, H, wr_concat, crypt_crypt. reflexivity.
  Qed.

  (* and a partial delivery yields a prefix *)
  Lemma psk_prefix_l ws pieces rest :
    concat pieces ++ rest = wr 0 ws -> exists t, rd 0 pieces ++ t = concat ws.
  Proof.
    intros H. exists (crypt (length (concat pieces)) rest).
    assert (G : forall pos ps, rd pos ps = crypt pos (concat ps)).
    { intros pos ps; revert pos; induction ps as [|c ps IH]; intros pos; cbn [rd concat]; [reflexivity|].
      rewrite crypt_app, IH. reflexivity. }
    rewrite G. rewrite <- (crypt_crypt 0 (concat ws)) at 1. rewrite <- (wr_concat ws 0), <- H, crypt_app. reflexivity.
  Qed.
End Psk.

(* ---- (2) sampled connection ---------------------------------------------------- *)
Section Sampled.
  Variable byte : Type.

  Record sconn := mkS {
    peeked : list byte;     (* peekedBytes *)
    used : nat;             (* bytesPeeked: how many of them have been handed out *)
    rest : list byte        (* what the underlying connection still holds *)
  }.

  (* PeekBytes: io.ReadFull of the first [k] bytes (k = 3 in the code) *)
  Definition peek (k : nat) (stream : list byte) : option sconn :=
    if Nat.leb k (length stream) then Some (mkS (firstn k stream) 0 (skipn k stream)) else None.

  (* Read(b): peeked bytes first (only those: a Read that starts inside the
     peeked bytes returns at most the remaining peeked bytes); afterwards the
     underlying connection, which may return any [n] <= len(b) bytes *)
  Definition sread (c : sconn) (blen n : nat) : sconn * list byte :=
    if Nat.ltb (used c) (length (peeked c)) then
      let out := firstn blen (skipn (used c) (peeked c)) in
      (mkS (peeked c) (used c + length out) (rest c), out)
    else
      let k := Nat.min n blen in
      (mkS (peeked c) (used c) (skipn k (rest c)), firstn k (rest c)).

  (* WriteTo(w): the unread peeked bytes, then everything the connection holds *)
  Definition swriteto (c : sconn) : list byte := skipn (used c) (peeked c) ++ rest c.

  Definition pending (c : sconn) : list byte := skipn (used c) (peeked c) ++ rest c.

  Lemma skipn_add (a b : nat) : forall l : list byte, skipn (a + b) l = skipn b (skipn a l).
  Proof.
    induction a as [|a IH]; intros l; [reflexivity|].
    destruct l as [|x l]; [destruct b; reflexivity|]. cbn [Nat.add skipn]. apply IH.
  Qed.

  Lemma sread_pending c blen n :
    snd (sread c blen n) ++ pending (fst (sread c blen n)) = pending c.
  Proof.
    unfold sread, pending. destruct (Nat.ltb_spec (used c) (length (peeked c))) as [H|H]; cbn [fst snd peeked used rest].
    - set (q := skipn (used c) (peeked c)).
      assert (E : skipn (used c + length (firstn blen q)) (peeked c) = skipn (length (firstn blen q)) q).
      { unfold q. apply skipn_add. }
      rewrite E, app_assoc. f_equal.
      rewrite firstn_length. destruct (Nat.le_ge_cases blen (length q)) as [L|L].
      + rewrite Nat.min_l by lia. apply firstn_skipn.
      + rewrite Nat.min_r by lia. rewrite firstn_all2 by lia. rewrite skipn_all. apply app_nil_r.
    - rewrite skipn_all2 by lia. cbn [app]. apply firstn_skipn.
  Qed.

  Fixpoint sreads (c : sconn) (rs : list (nat * nat)) : sconn * list byte :=
    match rs with
    | [] => (c, [])
    | (b, n) :: r => let '(c1, o1) := sread c b n in
                     let '(c2, o2) := sreads c1 r in (c2, o1 ++ o2)
    end.

  Lemma sreads_pending rs : forall c,
    snd (sreads c rs) ++ pending (fst (sreads c rs)) = pending c.
  Proof.
    induction rs as [|[b n] rs IH]; intros c; [reflexivity|].
    cbn [sreads]. destruct (sread c b n) as [c1 o1] eqn:E1.
    destruct (sreads c1 rs) as [c2 o2] eqn:E2. cbn [fst snd].
    pose proof (IH c1) as H. rewrite E2 in H. cbn [fst snd] in H.
    pose proof (sread_pending c b n) as H1. rewrite E1 in H1. cbn [fst snd] in H1.
    rewrite <- app_assoc, H, H1. reflexivity.
  Qed.

  (* any sequence of Reads (any buffer sizes, any short reads of the underlying
     connection) followed by WriteTo delivers exactly the original stream: the
     peeked bytes are replayed once, nothing is lost or repeated *)
  Lemma peek_replay_l k stream c rs :
    peek k stream = Some c ->
    snd (sreads c rs) ++ swriteto (fst (sreads c rs)) = stream.
  Proof.
    unfold peek. destruct (Nat.leb k (length stream)); [|discriminate].
    intros H; injection H as <-.
    change (swriteto (fst (sreads {| peeked := firstn k stream; used := 0; rest := skipn k stream |} rs)))
      with (pending (fst (sreads {| peeked := firstn k stream; used := 0; rest := skipn k stream |} rs))).
    rewrite sreads_pending. unfold pending; cbn. apply firstn_skipn.
  Qed.
End Sampled.

(* C02 — byte-level framing of Noise transport messages: a 2-byte big-endian
   length prefix followed by the ciphertext (rw.go: binary.BigEndian.PutUint16 /
   readNextInsecureMsgLen + io.ReadFull).  Round trip for any number of frames. *)
From Coq Require Import List Arith NArith Bool Lia.
Import ListNotations.

Definition wbyte := nat.                  (* a byte on the wire, < 256 *)

Definition enc_frame (ct : list wbyte) : list wbyte :=
  (length ct / 256) :: (length ct mod 256) :: ct.

(* one readNextInsecureMsgLen + readNextMsgInsecure *)
Definition dec_frame (w : list wbyte) : option (list wbyte * list wbyte) :=
  match w with
  | hi :: lo :: r =>
      let n := hi * 256 + lo in
      if Nat.leb n (length r) then Some (firstn n r, skipn n r) else None
  | _ => None
  end.

Fixpoint dec_all (fuel : nat) (w : list wbyte) : option (list (list wbyte)) :=
  match fuel with
  | O => match w with [] => Some [] | _ => None end
  | S f =>
      match w with
      | [] => Some []
      | _ => match dec_frame w with
             | Some (ct, r) => match dec_all f r with Some l => Some (ct :: l) | None => None end
             | None => None
             end
      end
  end.

Lemma dec_enc_frame ct r : length ct < 65536 -> dec_frame (enc_frame ct ++ r) = Some (ct, r).
Proof.
  intros H. unfold enc_frame, dec_frame. cbn [app].
  replace (length ct / 256 * 256 + length ct mod 256) with (length ct)
    by (pose proof (Nat.div_mod (length ct) 256 ltac:(lia)); lia).
  rewrite app_length.
  destruct (Nat.leb_spec (length ct) (length ct + length r)); [|lia].
  rewrite firstn_app, Nat.sub_diag, firstn_all, firstn_O, app_nil_r.
  rewrite skipn_app, Nat.sub_diag, skipn_all. reflexivity.
Qed.

Lemma dec_all_enc cts : Forall (fun ct => length ct < 65536) cts ->
  dec_all (length cts) (concat (map enc_frame cts)) = Some cts.
Proof.
  induction cts as [|ct cts IH]; intros H; [reflexivity|].
  inversion H as [|? ? Hc Hr]; subst.
  cbn [length map concat dec_all].
  destruct (enc_frame ct ++ concat (map enc_frame cts)) eqn:E; [discriminate|].
  rewrite <- E, dec_enc_frame by exact Hc. rewrite (IH Hr). reflexivity.
Qed.

(* C02 — byte fidelity of secured connections.  Executable model of the Noise
   transport framing: p2p/security/noise/rw.go (Write's chunking, Read's three
   paths: queued remainder / decrypt in place / decrypt into a retained buffer).
   Ciphertexts are symbolic: a frame on the wire is either what the writer
   sealed for a given nonce, or junk (anything else an attacker can put
   there); the AEAD opens a frame only if it is the writer's frame for exactly
   the nonce the reader expects (ideal authenticated encryption: section 7 of
   DESIGN.md).  Byte-level framing (the 2-byte length prefix) is in Framing.v.
   No proofs in this file. *)
From Coq Require Import List Arith ZArith Bool.
Import ListNotations.

Definition byte := N.     (* a payload byte is identified by its offset in the written stream *)

Section Noise.
  (* MaxPlaintextLength and the AEAD overhead; regenerated constants are
     plugged in by Spec.v / Properties.v *)
  Variable maxpt : nat.
  Variable overhead : nat.

  Inductive frame :=
  | Sealed (nonce : nat) (pt : list byte)   (* seal(key, nonce, pt): |ct| = |pt| + overhead *)
  | Junk (ctlen : nat).                     (* any other byte string of that length *)

  Definition ctlen (f : frame) : nat :=
    match f with Sealed _ pt => length pt + overhead | Junk n => n end.

  (* ---- writer ---------------------------------------------------------- *)
  (* Write: `for written < total { end := min(written+MaxPlaintextLength, total) ... }`:
     consecutive chunks of at most maxpt bytes, one nonce each; nothing at all
     for an empty write.  Fuel = length of the data (each round consumes >= 1
     byte when maxpt >= 1). *)
  Fixpoint chunks (fuel : nat) (data : list byte) : list (list byte) :=
    match fuel with
    | O => []
    | S f =>
        match data with
        | [] => []
        | _ => firstn maxpt data :: chunks f (skipn maxpt data)
        end
    end.

  Fixpoint seal_from (n : nat) (cs : list (list byte)) : list frame :=
    match cs with
    | [] => []
    | c :: r => Sealed n c :: seal_from (S n) r
    end.

  (* writer state = next nonce; one Write call *)
  Definition write (wn : nat) (data : list byte) : nat * list frame :=
    let cs := chunks (length data) data in
    (wn + length cs, seal_from wn cs).

  Fixpoint writes (wn : nat) (ws : list (list byte)) : nat * list frame :=
    match ws with
    | [] => (wn, [])
    | d :: r => let '(wn1, fs1) := write wn d in
                let '(wn2, fs2) := writes wn1 r in (wn2, fs1 ++ fs2)
    end.

  (* ---- reader ---------------------------------------------------------- *)
  Record reader := mkReader {
    qbuf : option (list byte);   (* the not yet delivered part of s.qbuf, i.e. qbuf[qseek:]
                                    (None = s.qbuf is nil; Some [] = a retained buffer that
                                    has been read to its end but not released yet) *)
    rnonce : nat;                (* the receiving cipher state's nonce *)
    wire : list frame;           (* frames not yet read off the connection *)
    closed : bool                (* the writer closed its side after the last frame *)
  }.

  Inductive rres :=
  | RData (bs : list byte)       (* n = |bs| bytes, err = nil *)
  | REOF                         (* clean end of stream (io.EOF) *)
  | RErr.                        (* any other error: authentication failure, unexpected EOF *)

  (* decrypt: the receiving cipher opens only the writer's frame for the expected nonce *)
  Definition open (rn : nat) (f : frame) : option (list byte) :=
    match f with
    | Sealed n pt => if Nat.eqb n rn then Some pt else None
    | Junk _ => None
    end.

  (* one Read call with a buffer of [blen] bytes *)
  Definition read (r : reader) (blen : nat) : reader * rres :=
    match qbuf r with
    | Some q =>
        (* 1. queued bytes: copy as much as fits (copied = copy(buf, qbuf[qseek:]));
           release the buffer when qseek reaches its end *)
        let out := firstn blen q in
        match skipn blen q with
        | [] => (mkReader None (rnonce r) (wire r) (closed r), RData out)
        | rest => (mkReader (Some rest) (rnonce r) (wire r) (closed r), RData out)
        end
    | None =>
        match wire r with
        | [] => (r, if closed r then REOF else RErr)   (* ReadFull of the length prefix fails *)
        | f :: rest =>
            match open (rnonce r) f with
            | None =>
                (* authentication failure: the message has been consumed from the
                   wire, the nonce is NOT advanced (flynn/noise CipherState.Decrypt
                   increments it only on success) and the session stays usable *)
                (mkReader None (rnonce r) rest (closed r), RErr)
            | Some pt =>
                if Nat.leb (ctlen f) blen
                then (* 2a. buffer holds the whole encrypted message: decrypt in place *)
                     (mkReader None (S (rnonce r)) rest (closed r), RData pt)
                else (* 2c. decrypt into a retained buffer, hand out what fits *)
                     (* s.qseek = copy(buf, s.qbuf): the buffer is retained even when
                        everything fitted (|pt| <= len(buf) < |ct|) *)
                     (mkReader (Some (skipn blen pt)) (S (rnonce r)) rest (closed r), RData (firstn blen pt))
            end
        end
    end.

  Fixpoint reads (r : reader) (bls : list nat) : reader * list rres :=
    match bls with
    | [] => (r, [])
    | b :: rest => let '(r1, x) := read r b in
                   let '(r2, xs) := reads r1 rest in (r2, x :: xs)
    end.

  Definition reader0 (fs : list frame) (cl : bool) : reader := mkReader None 0 fs cl.

  (* ---- man-in-the-middle edits of the frame sequence -------------------- *)
  Inductive edit :=
  | EAlter (i : nat)      (* some byte of frame i flipped *)
  | ETrunc (i : nat)      (* frame i cut short (its length prefix or body) *)
  | EDrop (i : nat)
  | EDup (i : nat)        (* frame i delivered twice *)
  | ESwap (i : nat).      (* frames i and i+1 exchanged *)

  Definition edit_index (e : edit) : nat :=
    match e with EAlter i | ETrunc i | EDrop i | EDup i | ESwap i => i end.

  Definition apply_edit (e : edit) (fs : list frame) : list frame :=
    let i := edit_index e in
    let pre := firstn i fs in
    match skipn i fs with
    | [] => fs
    | f :: post =>
        match e with
        | EAlter _ => pre ++ Junk (ctlen f) :: post
        | ETrunc _ => pre ++ Junk (pred (ctlen f)) :: map (fun g => Junk (ctlen g)) post
                      (* the byte stream behind a truncated frame is misaligned *)
        | EDrop _ => pre ++ post
        | EDup _ => pre ++ f :: f :: post
        | ESwap _ => match post with
                     | g :: post' => pre ++ g :: f :: post'
                     | [] => fs
                     end
        end
    end.
End Noise.

(* C02 — the property as a monitor over what a reader observed, the wire
   format of correspondence cases, and the model replay.  No proofs here. *)
From Coq Require Import List Arith ZArith NArith Bool.
From Verif Require Import lib.Wire c02.Model gen.Consts_c02.
From Verif Require c02.SpecMux c02.SpecCW.
Import ListNotations.

(* constants re-read from /repo's p2p/security/noise/rw.go on every run *)
Definition MAXPT : nat := Z.to_nat MaxPlaintextLength.
Definition OVERHEAD : nat := Z.to_nat chacha20poly1305_Overhead.

(* ---- observations -------------------------------------------------------- *)
(* one Read call as the harness records it *)
Record obs := mkObs {
  o_blen : Z;       (* len(buf) *)
  o_res : Z;        (* 0 = data (err == nil), 1 = io.EOF, 2 = any other error *)
  o_n : Z;          (* bytes returned *)
  o_ok : bool       (* the n bytes equal the written stream at the current offset *)
}.

(* The property, judged on the reader's observations alone.
   [total] = number of bytes the writer wrote, [edited] = the wire was tampered with.
   - every byte delivered is the byte written at that position (o_ok) and
     nothing beyond what was written is delivered;
   - untampered: no error other than EOF, and EOF only once everything was delivered;
   - tampered: the reader gets an error (the harness reads until it does). *)
Fixpoint mon (total : Z) (edited : bool) (delivered : Z) (saw_err : bool) (tr : list obs) : bool :=
  match tr with
  | [] => negb edited || saw_err
  | o :: r =>
      if Z.eqb (o_res o) 0 then
        o_ok o && (0 <=? o_n o)%Z && (delivered + o_n o <=? total)%Z && (o_n o <=? o_blen o)%Z &&
        mon total edited (delivered + o_n o)%Z saw_err r
      else if Z.eqb (o_res o) 1 then
        Z.eqb (o_n o) 0 && (edited || Z.eqb delivered total) && mon total edited delivered true r
      else
        Z.eqb (o_n o) 0 && edited && mon total edited delivered true r
  end.

Definition holds (total : Z) (edited : bool) (tr : list obs) : bool := mon total edited 0%Z false tr.

(* ---- model trace ---------------------------------------------------------- *)
(* the written stream: write i is the next wlen_i offsets *)
Fixpoint offs (off : N) (n : nat) : list byte :=
  match n with
  | O => []
  | S k => off :: offs (off + 1)%N k
  end.

Fixpoint mk_writes (off : N) (wlens : list nat) : list (list byte) :=
  match wlens with
  | [] => []
  | n :: r => offs off n :: mk_writes (off + N.of_nat n)%N r
  end.

Fixpoint consecutive (off : N) (bs : list byte) : bool :=
  match bs with
  | [] => true
  | b :: r => N.eqb b off && consecutive (off + 1)%N r
  end.

Definition obs_of (delivered : N) (blen : nat) (x : rres) : obs :=
  match x with
  | RData bs => mkObs (Z.of_nat blen) 0 (Z.of_nat (length bs)) (consecutive delivered bs)
  | REOF => mkObs (Z.of_nat blen) 1 0 true
  | RErr => mkObs (Z.of_nat blen) 2 0 true
  end.

Fixpoint obs_trace (delivered : N) (bls : list nat) (xs : list rres) : list obs :=
  match bls, xs with
  | b :: br, x :: xr =>
      obs_of delivered b x ::
      obs_trace (match x with RData bs => (delivered + N.of_nat (length bs))%N | _ => delivered end) br xr
  | _, _ => []
  end.

Definition frames_of (wlens : list nat) : list frame :=
  snd (writes MAXPT 0 (mk_writes 0 wlens)).

Definition model_trace (wlens : list nat) (e : option edit) (cl : bool) (bls : list nat) : list obs :=
  let fs := frames_of wlens in
  let fs' := match e with Some x => apply_edit OVERHEAD x fs | None => fs end in
  obs_trace 0 bls (snd (reads OVERHEAD (reader0 fs' cl) bls)).

(* ---- wire format ----------------------------------------------------------
   kind cfg W wlen_1..wlen_W ek ei cl R (blen res n ok)*R
     kind : 1 = Noise secure session (exact model); 2 = TLS; 3 = pnet (PSK) conn;
            4 = sampledconn (peeked bytes replayed); 5 = one yamux stream among several
            over a Noise conn; 6 = host-to-host stream (full stack).  For kinds >= 2 only
            the monitor applies (their short-read behaviour is the library's).
     ek/ei: edit kind (0 none, 1 alter, 2 truncate, 3 drop, 4 duplicate, 5 swap) and frame index
     cl   : 1 = the writer closed its side after the last write
     per read: buffer length, result (0 data / 1 EOF / 2 error), bytes returned,
               1 if the bytes equal the written stream at that offset *)
Local Open Scope Z_scope.

Definition edit_of (ek ei : Z) : option edit :=
  let i := Z.to_nat ei in
  if ek =? 1 then Some (EAlter i) else if ek =? 2 then Some (ETrunc i)
  else if ek =? 3 then Some (EDrop i) else if ek =? 4 then Some (EDup i)
  else if ek =? 5 then Some (ESwap i) else None.

Fixpoint decode_obs (l : list Z) (fuel : nat) : option (list obs) :=
  match fuel with
  | O => None
  | S f =>
      match l with
      | [] => Some []
      | b :: res :: n :: ok :: r =>
          match decode_obs r f with
          | Some t => Some (mkObs b res n (zbool ok) :: t)
          | None => None
          end
      | _ => None
      end
  end.

Record ccase := mkCase {
  c_kind : Z; c_cfg : Z; c_wlens : list nat; c_ek : Z; c_ei : Z; c_cl : bool; c_obs : list obs
}.

Definition decode_case (l : list Z) : option ccase :=
  match l with
  | kind :: cfg :: w :: r =>
      let wl := ztake w r in
      match zdrop w r with
      | ek :: ei :: cl :: nr :: r2 =>
          if (zlen wl =? w) then
            match decode_obs r2 (S (length r2)) with
            | Some tr => if zlen tr =? nr then Some (mkCase kind cfg (map Z.to_nat wl) ek ei (zbool cl) tr) else None
            | None => None
            end
          else None
      | _ => None
      end
  | _ => None
  end.

Definition total_of (wlens : list nat) : Z := fold_right (fun n acc => Z.of_nat n + acc) 0 wlens.

Definition obs_eqb (a b : obs) : bool :=
  (o_blen a =? o_blen b) && (o_res a =? o_res b) && (o_n a =? o_n b) && Bool.eqb (o_ok a) (o_ok b).

Fixpoint first_obs_diff (i : Z) (m x : list obs) : list Z :=
  match m, x with
  | [], [] => []
  | a :: mr, b :: xr =>
      if obs_eqb a b then first_obs_diff (i + 1) mr xr
      else [ERR_MISMATCH; i; o_res a; o_n a; boolz (o_ok a); o_res b; o_n b; boolz (o_ok b)]
  | _, _ => [ERR_MISMATCH; i; -1]
  end.

(* kind 7 = a whole yamux session with tapped frames: its own layout, model (Mux.v)
   and monitor, see SpecMux.v *)
Definition is_mux_case (l : list Z) : bool := match l with k :: _ => k =? 7 | [] => false end.

(* kind 8 = concurrent writers on one Noise session: monitor only (the lock order
   is not observable), see SpecCW.v *)
Definition is_cw_case (l : list Z) : bool := match l with k :: _ => k =? 8 | [] => false end.

Definition conform_case (l : list Z) : list Z :=
  if is_mux_case l then SpecMux.conform7 l else
  if is_cw_case l then [] else
  match decode_case l with
  | None => [ERR_MALFORMED; 0]
  | Some c =>
      if c_kind c =? 1 then
        first_obs_diff 0 (model_trace (c_wlens c) (edit_of (c_ek c) (c_ei c)) (c_cl c) (map (fun o => Z.to_nat (o_blen o)) (c_obs c))) (c_obs c)
      else []
  end.

Definition monitor_case (l : list Z) : list Z :=
  if is_mux_case l then SpecMux.monitor7 l else
  if is_cw_case l then SpecCW.monitor8 l else
  match decode_case l with
  | None => [ERR_MALFORMED; 0]
  | Some c =>
      if holds (total_of (c_wlens c)) (negb (c_ek c =? 0)) (c_obs c) then []
      else [ERR_PROPERTY; c_kind c; c_ek c; c_ei c]
  end.

(* C02 — property theorems.  The constants (MaxPlaintextLength, the AEAD
   overhead, MaxTransportMsgLength, the length-prefix size) are re-read from
   /repo's p2p/security/noise/rw.go on every run (gen/Consts_c02.v). *)
From Coq Require Import List Arith ZArith NArith Bool Lia.
From Verif Require Import lib.Wire c02.Model c02.Spec c02.Proofs c02.Proofs_Mon c02.Framing c02.Streams gen.Consts_c02.
Import ListNotations.

(* HEADLINE (untampered): for every sequence of write sizes (any number, any
   lengths including 0 and more than three frames), the writer closing after the
   last write, and every sequence of read-buffer sizes (any lengths including 0
   and 1, smaller / equal / larger than the pending frame), the byte-fidelity
   monitor that is run on the implementation's observations accepts the model's:
   every byte returned is the byte written at that position, nothing is returned
   twice or skipped, no Read fails, and EOF is reported only after everything was
   delivered. *)
Theorem c02_noise_stream_fidelity : forall wlens bls,
  holds (total_of wlens) false (model_trace wlens None true bls) = true.
Proof. exact holds_untampered. Qed.
Print Assumptions c02_noise_stream_fidelity.

(* with buffers of at least one byte the reader reaches the end of the stream
   within mu+1 reads: together with the theorem above, everything written is
   delivered (reads concatenate to exactly the writes) *)
Theorem c02_noise_reaches_eof : forall wlens bls,
  Forall (fun b => 1 <= b) bls ->
  mu (reader0 (frames_of wlens) true) < length bls ->
  In REOF (snd (reads OVERHEAD (reader0 (frames_of wlens) true) bls)).
Proof.
  intros wlens bls Hb Hl.
  exact (reads_reach_end MAXPT OVERHEAD MAXPT_pos bls (reader0 (frames_of wlens) true) Hb Hl).
Qed.
Print Assumptions c02_noise_reaches_eof.

(* SAFETY against an arbitrary attacker on the wire: whatever frames arrive —
   the writer's own frames in any order and multiplicity, and junk — everything
   the reader is ever handed is a prefix of what the writer wrote *)
Theorem c02_delivered_is_prefix_of_written : forall cs fs cl bls,
  Forall (honest cs) fs ->
  exists t, delivered (snd (reads OVERHEAD (reader0 fs cl) bls)) ++ t = concat cs.
Proof. intros cs fs cl bls H. exact (delivered_is_prefix MAXPT OVERHEAD MAXPT_pos cs fs cl bls H). Qed.
Print Assumptions c02_delivered_is_prefix_of_written.

(* HEADLINE (tampered): for each frame and each edit (altered, truncated,
   dropped, duplicated, swapped with its neighbour) the monitor accepts the
   model's observations once the reader has read long enough: only correct bytes
   at correct positions are delivered and the reader gets an error *)
Theorem c02_tamper_trace_holds : forall wlens e bls,
  Forall (fun b => 1 <= b) bls ->
  mu (reader0 (apply_edit OVERHEAD e (frames_of wlens)) true) < length bls ->
  holds (total_of wlens) true (model_trace wlens (Some e) true bls) = true.
Proof. exact holds_tampered_long. Qed.
Print Assumptions c02_tamper_trace_holds.

(* ... a real error (authentication failure), not just an early EOF, for every
   edit except dropping the very last frame *)
Theorem c02_tamper_is_error : forall wlens e bls,
  (match e with
   | EAlter i | ETrunc i | EDup i => i < length (chunks_of wlens)
   | EDrop i | ESwap i => S i < length (chunks_of wlens)
   end) ->
  Forall (fun b => 1 <= b) bls ->
  mu (reader0 (apply_edit OVERHEAD e (frames_of wlens)) true) < length bls ->
  In RErr (snd (reads OVERHEAD (reader0 (apply_edit OVERHEAD e (frames_of wlens)) true) bls)).
Proof. exact tampered_gets_error. Qed.
Print Assumptions c02_tamper_is_error.

(* chunking: the frames of a Write carry the data exactly once, in order, in
   chunks of 1..MaxPlaintextLength bytes, so every ciphertext fits the 16-bit
   length prefix *)
Theorem c02_chunking_exact : forall ws,
  concat (all_chunks MAXPT ws) = concat ws /\
  Forall (fun c => 1 <= length c <= MAXPT) (all_chunks MAXPT ws) /\
  Forall (fun f => ctlen OVERHEAD f <= MAXPT + OVERHEAD) (snd (writes MAXPT 0 ws)).
Proof.
  intros ws. split; [apply (all_chunks_concat MAXPT MAXPT_pos)|].
  split; [apply (all_chunks_bounds MAXPT MAXPT_pos)|].
  rewrite (writes_frames MAXPT MAXPT_pos). apply (seal_from_ctlen MAXPT OVERHEAD MAXPT_pos).
  apply (all_chunks_bounds MAXPT MAXPT_pos).
Qed.
Print Assumptions c02_chunking_exact.

(* regenerated constants: the largest ciphertext is exactly the largest value of
   the 2-byte length prefix *)
Theorem c02_consts_spec :
  (MaxPlaintextLength + chacha20poly1305_Overhead = MaxTransportMsgLength)%Z /\
  (MaxTransportMsgLength = 65535)%Z /\ (LengthPrefixLength = 2)%Z /\ (1 <= MaxPlaintextLength)%Z.
Proof. vm_compute. repeat split; discriminate. Qed.
Print Assumptions c02_consts_spec.

(* byte-level framing: any number of length-prefixed ciphertexts of at most
   65535 bytes is parsed back into exactly those ciphertexts *)
Theorem c02_framing_roundtrip : forall cts,
  Forall (fun ct => length ct < 65536) cts ->
  dec_all (length cts) (concat (map enc_frame cts)) = Some cts.
Proof. exact dec_all_enc. Qed.
Print Assumptions c02_framing_roundtrip.

(* private-network (PSK) connection: a position-indexed stream cipher.  For any
   involutive xor and any keystream, whatever the split of the data into Write
   calls and whatever pieces the raw connection hands to Read, the reader gets
   back exactly what was written (and a prefix of it while data is in flight) *)
Theorem c02_psk_fidelity : forall (byte : Type) (xor : byte -> byte -> byte),
  (forall x k, xor (xor x k) k = x) ->
  forall (ks : nat -> byte) ws pieces,
  (concat pieces = wr byte xor ks 0 ws -> rd byte xor ks 0 pieces = concat ws) /\
  (forall rest, concat pieces ++ rest = wr byte xor ks 0 ws ->
     exists t, rd byte xor ks 0 pieces ++ t = concat ws).
Proof.
  intros byte xor Hx ks ws pieces. split.
  - exact (psk_fidelity_l byte xor Hx ks ws pieces).
  - intros rest. exact (psk_prefix_l byte xor Hx ks ws pieces rest).
Qed.
Print Assumptions c02_psk_fidelity.

(* tcpreuse's sampled connection: after PeekBytes, any sequence of Reads (any
   buffer sizes, any short reads) followed by WriteTo (io.Copy) delivers exactly
   the original stream: the peeked bytes are replayed once to every reader entry
   point *)
Theorem c02_peek_replay : forall (byte : Type) k (stream : list byte) c rs,
  peek byte k stream = Some c ->
  snd (sreads byte c rs) ++ swriteto byte (fst (sreads byte c rs)) = stream.
Proof. exact peek_replay_l. Qed.
Print Assumptions c02_peek_replay.

(* ---- non-vacuity ------------------------------------------------------------ *)
Example monitor_rejects_wrong_byte :
  holds 10 false [mkObs 4 0 4 false] = false.
Proof. reflexivity. Qed.

Example monitor_rejects_silent_truncation :
  holds 10 false [mkObs 16 0 4 true; mkObs 16 1 0 true] = false.
Proof. reflexivity. Qed.

Example monitor_rejects_tamper_without_error :
  holds 10 true [mkObs 16 0 10 true] = false.
Proof. reflexivity. Qed.

Example monitor_rejects_overdelivery :
  holds 10 true [mkObs 16 0 11 true; mkObs 16 2 0 true] = false.
Proof. reflexivity. Qed.

(* the model run on a 3-frame stream with a duplicated frame: error, then the
   rest of the stream still arrives in place (what the real code does) *)
Example dup_then_continue :
  map (fun o => (o_res o, o_n o, o_ok o))
      (model_trace [3; 2] (Some (EDup 0)) true [100; 100; 100; 100])
  = [(0, 3, true); (2, 0, true); (0, 2, true); (1, 0, true)]%Z.
Proof. vm_compute. reflexivity. Qed.

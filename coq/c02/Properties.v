(* C02 — property theorems.  The constants (MaxPlaintextLength, the AEAD
   overhead, MaxTransportMsgLength, the length-prefix size) are re-read from
   /repo's p2p/security/noise/rw.go on every run (gen/Consts_c02.v). *)
From Coq Require Import List Arith ZArith NArith Bool Lia.
From Verif Require Import lib.Wire c02.Model c02.Spec c02.Proofs c02.Proofs_Mon c02.Framing c02.Streams gen.Consts_c02.
Import ListNotations.

(* HEADLINE (untampered): for every sequence of write sizes (any number, any
   lengths including 0 and more than three frames), the writer closing after the
   last write, and every sequence of read-buffer sizes (any lengths including 0
   and 1, smaller / equal / larger than the pending frame), the byte-fidelity
   monitor that is run on the implementation's observations accepts the model's:
   every byte returned is the byte written at that position, nothing is returned
   twice or skipped, no Read fails, and EOF is reported only after everything was
   delivered. *)
Theorem c02_noise_stream_fidelity : forall wlens bls,
  holds (total_of wlens) false (model_trace wlens None true bls) = true.
Proof. exact holds_untampered. Qed.
Print Assumptions c02_noise_stream_fidelity.

(* with buffers of at least one byte the reader reaches the end of the stream
   within mu+1 reads: together with the theorem above, everything written is
   delivered (reads concatenate to exactly the writes) *)
Theorem c02_noise_reaches_eof : forall wlens bls,
  Forall (fun b => 1 <= b) bls ->
  mu (reader0 (frames_of wlens) true) < length bls ->
  In REOF (snd (reads OVERHEAD (reader0 (frames_of wlens) true) bls)).
Proof.
  intros wlens bls Hb Hl.
  exact (reads_reach_end MAXPT OVERHEAD MAXPT_pos bls (reader0 (frames_of wlens) true) Hb Hl).
Qed.
Print Assumptions c02_noise_reaches_eof.

(* SAFETY against an arbitrary attacker on the wire: whatever frames arrive —
   the writer's own frames in any order and multiplicity, and junk — everything
   the reader is ever handed is a prefix of what the writer wrote *)
Theorem c02_delivered_is_prefix_of_written : forall cs fs cl bls,
  Forall (honest cs) fs ->
  exists t, delivered (snd (reads OVERHEAD (reader0 fs cl) bls)) ++ t = concat cs.
Proof. intros cs fs cl bls H. exact (delivered_is_prefix MAXPT OVERHEAD MAXPT_pos cs fs cl bls H). Qed.
Print Assumptions c02_delivered_is_prefix_of_written.

(* HEADLINE (tampered): for each frame and each edit (altered, truncated,
   dropped, duplicated, swapped with its neighbour) the monitor accepts the
   model's observations once the reader has read long enough: only correct bytes
   at correct positions are delivered and the reader gets an error *)
Theorem c02_tamper_trace_holds : forall wlens e bls,
  Forall (fun b => 1 <= b) bls ->
  mu (reader0 (apply_edit OVERHEAD e (frames_of wlens)) true) < length bls ->
  holds (total_of wlens) true (model_trace wlens (Some e) true bls) = true.
Proof. exact holds_tampered_long. Qed.
Print Assumptions c02_tamper_trace_holds.

(* ... a real error (authentication failure), not just an early EOF, for every
   edit except dropping the very last frame *)
Theorem c02_tamper_is_error : forall wlens e bls,
  (match e with
   | EAlter i | ETrunc i | EDup i => i < length (chunks_of wlens)
   | EDrop i | ESwap i => S i < length (chunks_of wlens)
   end) ->
  Forall (fun b => 1 <= b) bls ->
  mu (reader0 (apply_edit OVERHEAD e (frames_of wlens)) true) < length bls ->
  In RErr (snd (reads OVERHEAD (reader0 (apply_edit OVERHEAD e (frames_of wlens)) true) bls)).
Proof. exact tampered_gets_error. Qed.
Print Assumptions c02_tamper_is_error.

(* chunking: the frames of a Write carry the data exactly once, in order, in
   chunks of 1..MaxPlaintextLength bytes, so every ciphertext fits the 16-bit
   length prefix *)
Theorem c02_chunking_exact : forall ws,
  concat (all_chunks MAXPT ws) = concat ws /\
  Forall (fun c => 1 <= length c <= MAXPT) (all_chunks MAXPT ws) /\
  Forall (fun f => ctlen OVERHEAD f <= MAXPT + OVERHEAD) (snd (writes MAXPT 0 ws)).
Proof.
  intros ws. split; [apply (all_chunks_concat MAXPT MAXPT_pos)|].
  split; [apply (all_chunks_bounds MAXPT MAXPT_pos)|].
  rewrite (writes_frames MAXPT MAXPT_pos). apply (seal_from_ctlen MAXPT OVERHEAD MAXPT_pos).
  apply (all_chunks_bounds MAXPT MAXPT_pos).
Qed.
Print Assumptions c02_chunking_exact.

(* regenerated constants: the largest ciphertext is exactly the largest value of
   the 2-byte length prefix *)
Theorem c02_consts_spec :
  (MaxPlaintextLength + chacha20poly1305_Overhead = MaxTransportMsgLength)%Z /\
  (MaxTransportMsgLength = 65535)%Z /\ (LengthPrefixLength = 2)%Z /\ (1 <= MaxPlaintextLength)%Z.
Proof. vm_compute. repeat split; discriminate. Qed.
Print Assumptions c02_consts_spec.

(* byte-level framing: any number of length-prefixed ciphertexts of at most
   65535 bytes is parsed back into exactly those ciphertexts *)
Theorem c02_framing_roundtrip : forall cts,
  Forall (fun ct => length ct < 65536) cts ->
  dec_all (length cts) (concat (map enc_frame cts)) = Some cts.
Proof. exact dec_all_enc. Qed.
Print Assumptions c02_framing_roundtrip.

(* private-network (PSK) connection: a position-indexed stream cipher.  For any
   involutive xor and any keystream, whatever the split of the data into Write
   calls and whatever pieces the raw connection hands to Read, the reader gets
   back exactly what was written (and a prefix of it while data is in flight) *)
Theorem c02_psk_fidelity : forall (byte : Type) (xor : byte -> byte -> byte),
  (forall x k, xor (xor x k) k = x) ->
  forall (ks : nat -> byte) ws pieces,
  (concat pieces = wr byte xor ks 0 ws -> rd byte xor ks 0 pieces = concat ws) /\
  (forall rest, concat pieces ++ rest = wr byte xor ks 0 ws ->
     exists t, rd byte xor ks 0 pieces ++ t = concat ws).
Proof.
  intros byte xor Hx ks ws pieces. split.
  - exact (psk_fidelity_l byte xor Hx ks ws pieces).
  - intros rest. exact (psk_prefix_l byte xor Hx ks ws pieces rest).
Qed.
Print Assumptions c02_psk_fidelity.

(* tcpreuse's sampled connection: after PeekBytes, any sequence of Reads (any
   buffer sizes, any short reads) followed by WriteTo (io.Copy) delivers exactly
   the original stream: the peeked bytes are replayed once to every reader entry
   point *)
Theorem c02_peek_replay : forall (byte : Type) k (stream : list byte) c rs,
  peek byte k stream = Some c ->
  snd (sreads byte c rs) ++ swriteto byte (fst (sreads byte c rs)) = stream.
Proof. exact peek_replay_l. Qed.
Print Assumptions c02_peek_replay.

(* ---- non-vacuity ------------------------------------------------------------ *)
Example monitor_rejects_wrong_byte :
  holds 10 false [mkObs 4 0 4 false] = false.
Proof. reflexivity. Qed.

Example monitor_rejects_silent_truncation :
  holds 10 false [mkObs 16 0 4 true; mkObs 16 1 0 true] = false.
Proof. reflexivity. Qed.

Example monitor_rejects_tamper_without_error :
  holds 10 true [mkObs 16 0 10 true] = false.
Proof. reflexivity. Qed.

Example monitor_rejects_overdelivery :
  holds 10 true [mkObs 16 0 11 true; mkObs 16 2 0 true] = false.
Proof. reflexivity. Qed.

(* the model run on a 3-frame stream with a duplicated frame: error, then the
   rest of the stream still arrives in place (what the real code does) *)
Example dup_then_continue :
  map (fun o => (o_res o, o_n o, o_ok o))
      (model_trace [3; 2] (Some (EDup 0)) true [100; 100; 100; 100])
  = [(0, 3, true); (2, 0, true); (0, 2, true); (1, 0, true)]%Z.
Proof. vm_compute. reflexivity. Qed.

(* ============================================================================
   MULTIPLEXED STREAMS (yamux as go-libp2p uses it; model in Mux.v, the replay
   against tapped sessions of the real transport and the monitor in SpecMux.v).
   Everything below holds for every number of streams on the connection, every
   list of Writes per stream, every interleaving of the streams' frames that
   keeps each stream's own order (the receiving session sees an arbitrary list
   of operations [rops]; its frames tagged [sid] are, in order, a prefix of what
   [sid]'s sender emitted — that is what an order-preserving merge means for one
   stream), every interleaving of deliveries with Reads of any buffer size and
   with the reader's own half-close.  No bounds.
   ============================================================================ *)
From Verif Require Import c02.Mux c02.Proofs_Mux.
From Verif Require c02.SpecMux.

(* the configuration go-libp2p gives yamux (re-read from p2p/muxer/yamux on every run) *)
Theorem c02_mux_consts_spec :
  (yamux_InitialStreamWindowSize = 262144)%Z /\ (yamux_MaxMessageSize = 65536)%Z /\
  (yamux_MaxStreamWindowSize = 16777216)%Z /\ (yamux_MaxMessageSize - SpecMux.HDR = 65524)%Z.
Proof. vm_compute. repeat split; reflexivity. Qed.
Print Assumptions c02_mux_consts_spec.

(* SENDER: for every sequence of Writes, window updates, CloseWrite, Reset on a
   stream: the Data frames carry a prefix of the bytes the Writes accepted (all
   of them while nothing is pending), exactly once and in order; every frame
   carries the stream's id, Data frames have 1..M bytes and no flags;
   (e) FLOW CONTROL: bytes sent = initial window + credit received - window left,
   so never more than the peer granted; and the frame/credit sequence an observer
   sees passes the checker [valid_cut] that the harness runs on the tapped frames
   of the real implementation *)
Theorem c02_mux_sender_cut : forall M W0 sid ops,
  let rr := snd_run M (snd0 W0 sid) [] [] ops in
  (exists rest, payload (ev_frames (sr_ev rr)) ++ rest = sr_acc rr /\
                (is_open (s_st (sr_st rr)) = true -> rest = s_pend (sr_st rr))) /\
  Forall (fun f => f_sid f = sid /\ (is_data f = true -> data_ok M sid f)) (ev_frames (sr_ev rr)) /\
  length (payload (ev_frames (sr_ev rr))) + s_win (sr_st rr) = W0 + ev_credit (sr_ev rr) /\
  valid_cut M W0 (sr_ev rr) = true.
Proof. exact sender_cut_l. Qed.
Print Assumptions c02_mux_sender_cut.

(* the checker by itself bounds the bytes in flight, at every point of the
   sequence (every prefix of an accepted sequence is accepted) *)
Theorem c02_mux_window_rules : forall M evs1 evs2 w,
  valid_cut M w (evs1 ++ evs2) = true ->
  length (payload (ev_frames evs1)) <= w + ev_credit evs1.
Proof. intros M evs1 evs2 w H. eapply valid_cut_bound, valid_cut_prefix, H. Qed.
Print Assumptions c02_mux_window_rules.

(* Writes that completed, then CloseWrite: all accepted bytes are on the wire,
   a FIN follows, and no data comes after a FIN or RST (whatever is done afterwards) *)
Theorem c02_mux_sender_halfclose : forall M W0 sid w more,
  let r1 := snd_run M (snd0 W0 sid) [] [] w in
  is_open (s_st (sr_st r1)) = true -> s_pend (sr_st r1) = [] ->
  let rr := snd_run M (snd0 W0 sid) [] [] (w ++ SCloseW :: more) in
  payload (ev_frames (sr_ev rr)) = sr_acc rr /\ sr_acc rr = sr_acc r1 /\
  existsb f_fin (ev_frames (sr_ev rr)) = true /\
  late false (ev_frames (sr_ev rr)) = false.
Proof.
  intros M W0 sid w more r1 O P rr.
  destruct (sender_closed_complete_l M W0 sid w more O P) as (A & B & C).
  repeat split; auto. apply snd_run_late; [reflexivity|discriminate].
Qed.
Print Assumptions c02_mux_sender_halfclose.

(* (a) HEADLINE, both ends: the Reads on a stream return a prefix of what the
   Writes on that stream accepted — no byte of another stream, nothing twice,
   nothing skipped, nothing reordered *)
Theorem c02_mux_stream_fidelity : forall M W0 MAXW sid sops rops,
  let sr := snd_run M (snd0 W0 sid) [] [] (SOpen false :: sops) in
  let '(s, outs) := ses_run W0 MAXW ses0 [] rops in
  (exists tl, frames_for sid (frames_in rops) ++ tl = ev_frames (sr_ev sr)) ->
  exists rest, delivered sid outs ++ rest = sr_acc sr.
Proof. exact mux_end_to_end_l. Qed.
Print Assumptions c02_mux_stream_fidelity.

(* ... and everything, once all frames of the stream were handed over and the
   reader has emptied the buffer *)
Theorem c02_mux_stream_complete : forall M W0 MAXW sid sops rops,
  let sr := snd_run M (snd0 W0 sid) [] [] (SOpen false :: sops) in
  let '(s, outs) := ses_run W0 MAXW ses0 [] rops in
  frames_for sid (frames_in rops) = ev_frames (sr_ev sr) ->
  payload (ev_frames (sr_ev sr)) = sr_acc sr ->
  broken s = false ->
  forall r, lookup sid (streams s) = Some r -> r_buf r = [] ->
  delivered sid outs = sr_acc sr.
Proof. exact mux_end_to_end_complete_l. Qed.
Print Assumptions c02_mux_stream_complete.

(* "every order-preserving interleaving": n streams with pairwise different ids,
   each sender's sequence carrying its own id (c02_mux_sender_cut); on ANY merge of
   the n sequences that keeps each one's order, the frames tagged with the i-th id
   are exactly the i-th sequence — which is the hypothesis of the two theorems
   above when all (resp. a prefix) of the merged frames were handed over *)
Theorem c02_mux_interleaving : forall ids fss w i,
  NoDup ids -> length ids = length fss ->
  (forall j sid fs, nth_error ids j = Some sid -> nth_error fss j = Some fs -> Forall (fun f => f_sid f = sid) fs) ->
  Interleave fss w ->
  forall sid fs, nth_error ids i = Some sid -> nth_error fss i = Some fs ->
  frames_for sid w = fs.
Proof. exact interleave_proj_l. Qed.
Print Assumptions c02_mux_interleaving.

(* receiver alone, against ANY frames (not only an honest sender's): what the
   Reads on [sid] return is a prefix of the payload of the frames tagged [sid],
   provided the stream's first frame carries SYN *)
Theorem c02_mux_no_crosstalk : forall W0 MAXW rops sid,
  let '(s, outs) := ses_run W0 MAXW ses0 [] rops in
  head_syn (frames_for sid (frames_in rops)) = true ->
  exists rest, delivered sid outs ++ rest = payload (frames_for sid (frames_in rops)).
Proof. exact mux_prefix_l. Qed.
Print Assumptions c02_mux_no_crosstalk.

(* (b) after any history, a Read reports EOF only if a FIN of that stream was
   delivered, and then everything that arrived before has been handed out *)
Theorem c02_mux_eof_after_fin : forall W0 MAXW rops sid n t,
  let '(s, outs) := ses_run W0 MAXW ses0 [] rops in
  forall s' wu, ses_step W0 MAXW s (RRead sid n t) = (s', ORead sid REOF wu) ->
  existsb f_fin (frames_for sid (frames_in rops)) = true /\
  (head_syn (frames_for sid (frames_in rops)) = true ->
   late false (frames_for sid (frames_in rops)) = false -> broken s = false ->
   delivered sid outs = payload (frames_for sid (frames_in rops))).
Proof. exact mux_eof_l. Qed.
Print Assumptions c02_mux_eof_after_fin.

(* (c) half-close followed by further reads: [rops] above ranges over lists that
   contain the reader's own CloseWrite anywhere, so c02_mux_stream_fidelity /
   _complete already cover it; in particular the exact-delivery equation holds
   right after any CloseWrite and for everything that arrives later *)
Theorem c02_mux_halfclose_then_reads : forall W0 MAXW rops1 rops2 sid,
  let rops := rops1 ++ RCloseW sid :: rops2 in
  let '(s, outs) := ses_run W0 MAXW ses0 [] rops in
  head_syn (frames_for sid (frames_in rops)) = true ->
  late false (frames_for sid (frames_in rops)) = false ->
  broken s = false ->
  forall r, lookup sid (streams s) = Some r ->
  delivered sid outs ++ concat (r_buf r) = payload (frames_for sid (frames_in rops)).
Proof. intros W0 MAXW rops1 rops2 sid rops. exact (mux_exact_l W0 MAXW rops sid). Qed.
Print Assumptions c02_mux_halfclose_then_reads.

(* (d) an RST reaching a stream whose read side is open resets it, and from then
   on every Read on it fails and hands out nothing, whatever else happens *)
Theorem c02_mux_rst_is_error : forall W0 MAXW s r f s1 o rops outs,
  broken s = false -> lookup (f_sid f) (streams s) = Some r -> r_live r = true -> r_rd r = HOpen ->
  f_syn f = false -> f_fin f = false -> f_rst f = true -> is_data f = false ->
  ses_step W0 MAXW s (RDeliver f) = (s1, o) ->
  let '(s', outs') := ses_run W0 MAXW s1 outs rops in
  exists new, outs' = outs ++ new /\ Forall (read_fails (f_sid f)) new /\
              delivered (f_sid f) outs' = delivered (f_sid f) outs.
Proof.
  intros W0 MAXW s r f s1 o rops outs B L Lv R Sy Fi Rs Da H.
  destruct (rst_resets_l W0 MAXW s r f s1 o B L Lv R Sy Fi Rs Da H) as (r' & L' & R').
  exact (mux_reset_l W0 MAXW (f_sid f) rops s1 outs r' L' R').
Qed.
Print Assumptions c02_mux_rst_is_error.

(* (e) receiver half of flow control, for ANY incoming frames: the receive buffer
   never exceeds the receive window, which never exceeds the configured maximum,
   and the room left is at least what was granted and not yet used (so a sender
   that respects its credit — c02_mux_sender_cut — never overflows it) *)
Theorem c02_mux_receive_window : forall W0 MAXW rops sid,
  let '(s, outs) := ses_run W0 MAXW ses0 [] rops in
  forall r, lookup sid (streams s) = Some r ->
  buffered r <= r_win r /\ r_win r <= Nat.max W0 MAXW /\
  W0 + granted sid outs <= r_cap r + length (delivered sid outs) + buffered r.
Proof. exact mux_window_l. Qed.
Print Assumptions c02_mux_receive_window.

(* ---- non-vacuity -------------------------------------------------------------- *)
(* two streams, frames interleaved, small read buffers, half-close by the reader
   in the middle, FIN on one stream and RST on the other *)
Definition ex_s1 := snd_run 3 (snd0 4 1) [] [] [SOpen false; SWrite [10; 11; 12; 13; 14]%N; SWnd 2; SWnd 2; SCloseW].
Definition ex_s3 := snd_run 3 (snd0 4 3) [] [] [SOpen false; SWrite [30; 31]%N; SReset].

Example ex_sender_frames :
  map (fun f => (f_sid f, is_data f, f_fin f, f_pay f)) (ev_frames (sr_ev ex_s1)) =
  [(1, false, false, []); (1, true, false, [10; 11; 12]%N); (1, true, false, [13]%N);
   (1, true, false, [14]%N); (1, false, true, [])].
Proof. vm_compute. reflexivity. Qed.

Definition ex_rops : list rop :=
  match ev_frames (sr_ev ex_s1), ev_frames (sr_ev ex_s3) with
  | [a0; a1; a2; a3; a4], [b0; b1; b2] =>
      [RDeliver a0; RDeliver b0; RDeliver a1; RRead 1 2 false; RDeliver b1; RCloseW 1; RDeliver a2;
       RRead 3 1 false; RRead 1 5 false; RDeliver b2; RRead 3 9 false; RRead 1 5 false;
       RDeliver a3; RDeliver a4; RRead 1 5 false; RRead 1 5 false]
  | _, _ => []
  end.

Example ex_session_reads :
  filter (fun o => match o with ORead _ _ _ => true | ONone => false end)
         (Datatypes.snd (ses_run 4 16 ses0 [] ex_rops)) =
  [ORead 1 (RData [10; 11]%N) (Some 2); ORead 3 (RData [30]%N) None; ORead 1 (RData [12]%N) None;
   ORead 3 RErr None; ORead 1 (RData [13]%N) (Some 2); ORead 1 (RData [14]%N) None; ORead 1 REOF None].
Proof. vm_compute. reflexivity. Qed.

(* the monitor run on implementation traces rejects: a wrong byte, a silent
   truncation (EOF before everything was delivered), EOF on a reset stream, an
   error on a stream that was not reset, missing bytes at the end *)
Example mux_monitor_rejects_wrong_byte :
  SpecMux.mon7 true 10 1 0 false false [SpecMux.mkEv 4 1 8 0 4 0] = false.
Proof. reflexivity. Qed.
Example mux_monitor_rejects_early_eof :
  SpecMux.mon7 true 10 1 0 false false [SpecMux.mkEv 4 1 8 0 4 1; SpecMux.mkEv 4 1 8 1 0 1] = false.
Proof. reflexivity. Qed.
Example mux_monitor_rejects_eof_on_reset :
  SpecMux.mon7 true 10 2 0 false false [SpecMux.mkEv 4 1 8 0 4 1; SpecMux.mkEv 4 1 8 1 0 1] = false.
Proof. reflexivity. Qed.
Example mux_monitor_rejects_error_without_reset :
  SpecMux.mon7 true 4 0 0 false false [SpecMux.mkEv 4 1 8 0 4 1; SpecMux.mkEv 4 1 8 2 0 1] = false.
Proof. reflexivity. Qed.
Example mux_monitor_rejects_missing_tail :
  SpecMux.mon7 true 10 0 0 false false [SpecMux.mkEv 4 1 8 0 4 1] = false.
Proof. reflexivity. Qed.
Example mux_monitor_accepts_good :
  SpecMux.mon7 true 10 1 0 false false [SpecMux.mkEv 4 1 8 0 4 1; SpecMux.mkEv 4 1 8 0 6 1; SpecMux.mkEv 4 1 8 1 0 1] = true.
Proof. reflexivity. Qed.
(* the window checker rejects a Data frame beyond the credit and one beyond the frame limit *)
Example mux_valid_cut_rejects_overrun :
  valid_cut 3 4 [EvF (dframe 1 [1; 2; 3]%N); EvF (dframe 1 [4; 5]%N)] = false.
Proof. reflexivity. Qed.
Example mux_valid_cut_rejects_big_frame :
  valid_cut 3 10 [EvF (dframe 1 [1; 2; 3; 4]%N)] = false.
Proof. reflexivity. Qed.

(* ============================================================================
   CONCURRENT WRITERS on one secured connection (SpecCW.v).  secureSession.Write
   holds the write lock for the whole call, so Writes are atomic w.r.t. each
   other: for every set of writers, every list of Write sizes per writer (any
   sizes, in particular more than one frame) and every order in which the
   writers win the lock, (1) the monitor that judges the delivered stream of the
   real sessions ("a sequence of WHOLE writes, each writer's in its own order")
   accepts the model's delivered stream, and (2) that stream is the Noise
   model's delivery of the Writes in lock order, to which the headline theorem
   applies: every byte at its position, nothing twice, nothing skipped.
   ============================================================================ *)
From Verif Require c02.SpecCW c02.Proofs_CW.

Theorem c02_noise_concurrent_writes : forall writers sched bls,
  Forall (Forall (fun l => (1 <= l)%N)) writers ->
  SpecCW.whole_run (SpecCW.st0 writers) (SpecCW.cw_runs (SpecCW.st0 writers) sched)
    = Some (SpecCW.cw_final (SpecCW.st0 writers) sched) /\
  holds (total_of (map N.to_nat (SpecCW.cw_order (SpecCW.st0 writers) sched))) false
        (model_trace (map N.to_nat (SpecCW.cw_order (SpecCW.st0 writers) sched)) None true bls) = true.
Proof.
  intros writers sched bls H. split.
  - apply Proofs_CW.whole_run_model. apply Proofs_CW.pos_st0. exact H.
  - apply holds_untampered.
Qed.
Print Assumptions c02_noise_concurrent_writes.

(* non-vacuity: two writers, one two-frame Write each.  Whole writes in either
   order are accepted; frames of the two Writes alternating on the wire (what a
   per-frame lock gives) are rejected; so is a Write cut short *)
Example cw_accepts_whole_writes :
  SpecCW.whole_run (SpecCW.st0 [[131038]; [131038]]%N) [(1, 0%N, 131038%N); (0, 0%N, 131038%N)] <> None.
Proof. vm_compute. discriminate. Qed.
Example cw_rejects_interleaved_frames :
  SpecCW.whole_run (SpecCW.st0 [[131038]; [131038]]%N)
    [(0, 0%N, 65519%N); (1, 0%N, 65519%N); (0, 65519%N, 65519%N); (1, 65519%N, 65519%N)] = None.
Proof. vm_compute. reflexivity. Qed.
Example cw_monitor_rejects_interleaved_case :
  SpecCW.monitor8 [8; 0; 2; 1; 131038; 1; 131038; 4; 0; 0; 65519; 1; 0; 65519; 0; 65519; 65519; 1; 65519; 65519; 1]%Z <> [].
Proof. vm_compute. discriminate. Qed.
Example cw_monitor_accepts_good_case :
  SpecCW.monitor8 [8; 0; 2; 2; 16; 131038; 1; 24; 3; 0; 0; 16; 1; 0; 24; 0; 16; 131038; 1]%Z = [].
Proof. vm_compute. reflexivity. Qed.
Example cw_monitor_rejects_missing_write :
  SpecCW.monitor8 [8; 0; 2; 1; 16; 1; 24; 1; 0; 0; 16; 1]%Z <> [].
Proof. vm_compute. discriminate. Qed.

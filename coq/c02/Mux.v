(* C02 — multiplexed streams.  Executable model, at frame level, of the yamux
   wire protocol as go-libp2p uses it through p2p/muxer/yamux (go-yamux v5:
   stream.go Read/write/sendWindowUpdate/processFlags/CloseWrite, util.go
   segmentedBuffer, session.go handleStreamMessage/incomingStream).  No proofs
   here (Proofs_Mux.v).

   A frame = 12-byte header (type, flags, stream id, length) + payload for Data.
   Sender side of one stream: Write is cut into Data frames of
   min(send window, MaxMessageSize - headerSize, len) bytes; a Write that finds
   the window at 0 waits for a WindowUpdate; CloseWrite sends FIN (a Write still
   blocked at that moment returns early: its unsent bytes are NOT accepted),
   Reset sends RST.
   The connection carries any interleaving of the streams' frame sequences that
   keeps every stream's own order.
   Receiver side: session = stream table; per stream a segmented receive buffer
   (one segment per Data frame; Read hands out bytes of the FIRST segment only,
   as segmentedBuffer.Read does), receive-window accounting (cap/len/recvWindow,
   GrowTo, the window update after each Read incl. the RTT-driven doubling, which
   is an input [tune] of the model), FIN => EOF once the buffer is drained,
   RST => error at once, local CloseWrite does not touch the read side. *)
From Coq Require Import List Arith NArith Bool.
Import ListNotations.

Definition byte := N.

Inductive ftype := TData | TWindow.

Record frame := mkF {
  f_sid : nat; f_ty : ftype;
  f_syn : bool; f_ack : bool; f_fin : bool; f_rst : bool;
  f_len : nat;            (* header length field: payload length (Data) / window delta (WindowUpdate) *)
  f_pay : list byte
}.

Inductive half := HOpen | HClosed | HReset.
Definition is_open (h : half) : bool := match h with HOpen => true | _ => false end.

Definition dframe (sid : nat) (pay : list byte) : frame := mkF sid TData false false false false (length pay) pay.
Definition wframe (sid : nat) (syn ack fin rst : bool) (d : nat) : frame := mkF sid TWindow syn ack fin rst d [].

Definition is_data (f : frame) : bool := match f_ty f with TData => true | TWindow => false end.

(* payload bytes carried by a frame sequence *)
Fixpoint payload (fs : list frame) : list byte :=
  match fs with
  | [] => []
  | f :: r => (if is_data f then f_pay f else []) ++ payload r
  end.

(* ---- sender side of one stream --------------------------------------------- *)
Record snd := mkSnd { s_sid : nat; s_win : nat; s_pend : list byte; s_st : half }.

Definition snd0 (W0 sid : nat) : snd := mkSnd sid W0 [] HOpen.

Inductive sop :=
  | SOpen (acceptor : bool)       (* OpenStream / AcceptStream: WindowUpdate(SYN|ACK, 0) *)
  | SWrite (bs : list byte)
  | SWnd (d : nat)                (* a WindowUpdate of the peer arrived *)
  | SCloseW
  | SReset.

(* stream.write, repeated: while window > 0 and bytes are pending, one Data
   frame of min(window, M, pending) bytes *)
Fixpoint cut (fuel M sid win : nat) (pend : list byte) : list frame * nat * list byte :=
  match fuel with
  | O => ([], win, pend)
  | S fu =>
      match Nat.min (Nat.min win M) (length pend) with
      | O => ([], win, pend)
      | S k' =>
          let k := S k' in
          let '(fs, w', p') := cut fu M sid (win - k) (skipn k pend) in
          (dframe sid (firstn k pend) :: fs, w', p')
      end
  end.

(* result: new state, frames put on the wire, bytes accepted by this Write *)
Definition snd_step (M : nat) (s : snd) (op : sop) : snd * list frame * list byte :=
  match op with
  | SOpen acc => (s, [wframe (s_sid s) (negb acc) acc false false 0], [])
  | SWrite bs =>
      if is_open (s_st s) then
        let p := s_pend s ++ bs in
        let '(fs, w, p') := cut (length p) M (s_sid s) (s_win s) p in
        (mkSnd (s_sid s) w p' HOpen, fs, bs)
      else (s, [], [])
  | SWnd d =>
      if is_open (s_st s) then
        let '(fs, w, p') := cut (length (s_pend s)) M (s_sid s) (s_win s + d) (s_pend s) in
        (mkSnd (s_sid s) w p' HOpen, fs, [])
      else (mkSnd (s_sid s) (s_win s + d) (s_pend s) (s_st s), [], [])
  | SCloseW =>
      if is_open (s_st s) then (mkSnd (s_sid s) (s_win s) [] HClosed, [wframe (s_sid s) false false true false 0], [])
      else (s, [], [])
  | SReset =>
      match s_st s with
      | HReset => (s, [], [])
      | _ => (mkSnd (s_sid s) (s_win s) [] HReset, [wframe (s_sid s) false false false true 0], [])
      end
  end.

(* what an observer between the two ends sees of this stream's sender: window
   updates going in, frames coming out *)
Inductive sev := EvW (d : nat) | EvF (f : frame).

Record srun := mkSrun { sr_st : snd; sr_ev : list sev; sr_acc : list byte }.

Definition op_ev (op : sop) : list sev := match op with SWnd d => [EvW d] | _ => [] end.

(* accumulator style: [evs], [acc] = what was seen / accepted so far *)
Fixpoint snd_run (M : nat) (s : snd) (evs : list sev) (acc : list byte) (ops : list sop) : srun :=
  match ops with
  | [] => mkSrun s evs acc
  | op :: r =>
      let '(s1, fs, a) := snd_step M s op in
      snd_run M s1 (evs ++ op_ev op ++ map EvF fs) (acc ++ a) r
  end.

Fixpoint ev_frames (evs : list sev) : list frame :=
  match evs with
  | [] => []
  | EvF f :: r => f :: ev_frames r
  | EvW _ :: r => ev_frames r
  end.

Fixpoint ev_credit (evs : list sev) : nat :=
  match evs with
  | [] => 0
  | EvW d :: r => d + ev_credit r
  | EvF _ :: r => ev_credit r
  end.

(* the window rules, as a checker over such an event sequence (this is what is
   run on the TAPPED frames of the real implementation): every Data frame is at
   most M bytes and at most the credit available when it is emitted *)
Fixpoint valid_cut (M win : nat) (evs : list sev) : bool :=
  match evs with
  | [] => true
  | EvW d :: r => valid_cut M (win + d) r
  | EvF f :: r =>
      if is_data f then
        (length (f_pay f) <=? M) && (length (f_pay f) <=? win) && valid_cut M (win - length (f_pay f)) r
      else valid_cut M win r
  end.

(* ---- receiver side ----------------------------------------------------------- *)
Record rstream := mkR {
  r_buf : list (list byte);   (* segmentedBuffer.b from bPos/readPos on: one segment per Data frame *)
  r_cap : nat;                (* segmentedBuffer.cap: bytes the peer may still send *)
  r_win : nat;                (* Stream.recvWindow *)
  r_rd : half;                (* readState *)
  r_wr : half;                (* writeState of the local side *)
  r_live : bool               (* still in Session.streams *)
}.

Definition rs0 (W0 : nat) : rstream := mkR [] W0 W0 HOpen HOpen true.

Definition buffered (r : rstream) : nat := length (concat (r_buf r)).

(* processFlags: FIN then RST *)
Definition flags_step (r : rstream) (fin rst : bool) : rstream :=
  let r1 :=
    if fin && is_open (r_rd r)
    then mkR (r_buf r) (r_cap r) (r_win r) HClosed (r_wr r) (r_live r && is_open (r_wr r))
    else r in
  if rst
  then mkR (r_buf r1) (r_cap r1) (r_win r1)
           (if is_open (r_rd r1) then HReset else r_rd r1)
           (if is_open (r_wr r1) then HReset else r_wr r1) false
  else r1.

(* handleStreamMessage for an existing stream; true = protocol error (receive
   window exceeded): the session dies *)
Definition rs_frame (r : rstream) (f : frame) : rstream * bool :=
  if negb (r_live r) then (r, false)      (* not in the table any more: drained and dropped *)
  else
    let r1 := flags_step r (f_fin f) (f_rst f) in
    match f_ty f with
    | TWindow => (r1, false)
    | TData =>
        match length (f_pay f) with
        | O => (r1, false)
        | l => if r_cap r1 <? l then (r1, true)
               else (mkR (r_buf r1 ++ [f_pay f]) (r_cap r1 - l) (r_win r1) (r_rd r1) (r_wr r1) (r_live r1), false)
        end
    end.

Inductive rres := RData (bs : list byte) | REOF | RErr | RBlock.

(* sendWindowUpdate after a Read (flags = 0): GrowTo(recvWindow, false); when the
   update is due and the RTT condition holds ([tune]) the window doubles (capped)
   and GrowTo runs again — only the SECOND delta goes on the wire (as the code does) *)
Definition grow (MAXW : nat) (r : rstream) (tune : bool) : rstream * option nat :=
  let cur := r_cap r + buffered r in
  if r_win r <=? cur then (r, None)
  else
    let delta := r_win r - cur in
    if delta <? r_win r / 2 then (r, None)
    else
      let w2 := Nat.min (2 * r_win r) MAXW in
      if tune && (r_win r <? w2)
      then (mkR (r_buf r) (r_cap r + delta + (w2 - r_win r)) w2 (r_rd r) (r_wr r) (r_live r), Some (w2 - r_win r))
      else (mkR (r_buf r) (r_cap r + delta) (r_win r) (r_rd r) (r_wr r) (r_live r), Some delta).

(* Stream.Read(b) with len(b) = n; [dead] = the session was shut down (forceClose) *)
Definition rs_read (MAXW : nat) (r : rstream) (n : nat) (tune dead : bool) : rstream * rres * option nat :=
  match (if dead && is_open (r_rd r) then HReset else r_rd r) with
  | HReset => (r, RErr, None)
  | st =>
      match r_buf r with
      | [] => (r, match st with HClosed => REOF | _ => RBlock end, None)
      | seg :: rest =>
          let k := Nat.min n (length seg) in
          let buf' := if k =? length seg then rest else skipn k seg :: rest in
          let r1 := mkR buf' (r_cap r) (r_win r) (r_rd r) (r_wr r) (r_live r) in
          let '(r2, wu) := if dead then (r1, None) else grow MAXW r1 tune in
          (r2, RData (firstn k seg), wu)
      end
  end.

(* local Stream.CloseWrite *)
Definition rs_closew (r : rstream) : rstream :=
  if is_open (r_wr r)
  then mkR (r_buf r) (r_cap r) (r_win r) (r_rd r) HClosed (r_live r && is_open (r_rd r))
  else r.

(* the session *)
Record ses := mkSes { streams : list (nat * rstream); broken : bool }.

Definition ses0 : ses := mkSes [] false.

Fixpoint lookup (sid : nat) (l : list (nat * rstream)) : option rstream :=
  match l with
  | [] => None
  | (k, r) :: t => if k =? sid then Some r else lookup sid t
  end.

Fixpoint update (sid : nat) (r : rstream) (l : list (nat * rstream)) : list (nat * rstream) :=
  match l with
  | [] => [(sid, r)]
  | (k, x) :: t => if k =? sid then (k, r) :: t else (k, x) :: update sid r t
  end.

Inductive rop :=
  | RDeliver (f : frame)
  | RRead (sid n : nat) (tune : bool)
  | RCloseW (sid : nat).

Inductive rout := ONone | ORead (sid : nat) (x : rres) (wu : option nat).

(* per-stream part of a step, on an optional stream (None = id never seen).
   A SYN for an id that is (or was) in use is a protocol error (the code accepts
   the re-use of a finished id as a NEW stream object; an honest peer never re-uses ids). *)
Definition ors_step (W0 MAXW : nat) (o : option rstream) (op : rop) (dead : bool) : option rstream * rout * bool :=
  match op with
  | RDeliver f =>
      if dead then (o, ONone, false)
      else
        match o with
        | None => if f_syn f then let '(r, e) := rs_frame (rs0 W0) f in (Some r, ONone, e) else (None, ONone, false)
        | Some r => if f_syn f then (o, ONone, true) else let '(r', e) := rs_frame r f in (Some r', ONone, e)
        end
  | RRead sid n tune =>
      match o with
      | None => (None, ORead sid RBlock None, false)
      | Some r => let '(r', x, wu) := rs_read MAXW r n tune dead in (Some r', ORead sid x wu, false)
      end
  | RCloseW sid =>
      match o with
      | None => (None, ONone, false)
      | Some r => (Some (rs_closew r), ONone, false)
      end
  end.

Definition op_sid (op : rop) : nat :=
  match op with RDeliver f => f_sid f | RRead sid _ _ => sid | RCloseW sid => sid end.

Definition ses_step (W0 MAXW : nat) (s : ses) (op : rop) : ses * rout :=
  let sid := op_sid op in
  let '(o, out, e) := ors_step W0 MAXW (lookup sid (streams s)) op (broken s) in
  (mkSes (match o with Some r => update sid r (streams s) | None => streams s end) (broken s || e), out).

(* accumulator style: [outs] = outputs so far *)
Fixpoint ses_run (W0 MAXW : nat) (s : ses) (outs : list rout) (ops : list rop) : ses * list rout :=
  match ops with
  | [] => (s, outs)
  | op :: r =>
      let '(s1, o) := ses_step W0 MAXW s op in
      ses_run W0 MAXW s1 (outs ++ [o]) r
  end.

(* ---- reading a run ------------------------------------------------------------ *)
Definition ops_of (sid : nat) (ops : list rop) : list rop := filter (fun op => op_sid op =? sid) ops.

Fixpoint frames_in (ops : list rop) : list frame :=
  match ops with
  | [] => []
  | RDeliver f :: r => f :: frames_in r
  | _ :: r => frames_in r
  end.

Definition frames_for (sid : nat) (fs : list frame) : list frame := filter (fun f => f_sid f =? sid) fs.

(* bytes the reads on [sid] handed to the application, in order *)
Fixpoint delivered (sid : nat) (outs : list rout) : list byte :=
  match outs with
  | [] => []
  | ORead k (RData bs) _ :: r => (if k =? sid then bs else []) ++ delivered sid r
  | _ :: r => delivered sid r
  end.

Definition outs_of (sid : nat) (outs : list rout) : list rout :=
  filter (fun o => match o with ORead k _ _ => k =? sid | ONone => false end) outs.

(* window updates the receiver put on the wire for [sid] *)
Fixpoint granted (sid : nat) (outs : list rout) : nat :=
  match outs with
  | [] => 0
  | ORead k _ (Some d) :: r => (if k =? sid then d else 0) + granted sid r
  | _ :: r => granted sid r
  end.

(* C02 — the byte-fidelity monitor of Spec.v accepts every trace of the model. *)
From Coq Require Import List Arith ZArith NArith Bool Lia.
From Verif Require Import lib.Wire c02.Model c02.Spec c02.Proofs gen.Consts_c02.
Import ListNotations.

(* ---- offsets --------------------------------------------------------------- *)
Lemma offs_length o n : length (offs o n) = n.
Proof. revert o; induction n as [|n IH]; intros o; cbn; [reflexivity|]. rewrite IH. reflexivity. Qed.

Lemma offs_app o a b : offs o (a + b) = offs o a ++ offs (o + N.of_nat a)%N b.
Proof.
  revert o; induction a as [|a IH]; intros o; cbn [Nat.add offs app].
  - rewrite N.add_0_r. reflexivity.
  - rewrite IH. replace (o + 1 + N.of_nat a)%N with (o + N.of_nat (S a))%N by (rewrite Nat2N.inj_succ; lia). reflexivity.
Qed.

Lemma consecutive_offs o n : consecutive o (offs o n) = true.
Proof. revert o; induction n as [|n IH]; intros o; cbn; [reflexivity|]. rewrite N.eqb_refl, IH. reflexivity. Qed.

Lemma concat_mk_writes wlens : forall o,
  concat (mk_writes o wlens) = offs o (fold_right Nat.add 0 wlens).
Proof.
  induction wlens as [|n r IH]; intros o; cbn [mk_writes concat fold_right]; [reflexivity|].
  rewrite IH, offs_app. reflexivity.
Qed.

Definition total_nat (wlens : list nat) : nat := fold_right Nat.add 0 wlens.

Lemma total_of_nat wlens : total_of wlens = Z.of_nat (total_nat wlens).
Proof.
  unfold total_of, total_nat. induction wlens as [|n r IH]; cbn [fold_right]; [reflexivity|].
  rewrite IH, Nat2Z.inj_add. reflexivity.
Qed.

Lemma app_eq_app_len {A} (a b c d : list A) : a ++ b = c ++ d -> length a = length c -> a = c /\ b = d.
Proof.
  revert c; induction a as [|x a IH]; intros c H L; destruct c as [|y c]; cbn in L; try discriminate.
  - split; [reflexivity|exact H].
  - cbn [app] in H. injection H as -> H. destruct (IH c H) as [-> ->]; [lia|]. split; reflexivity.
Qed.

(* a piece of a stream of consecutive offsets is consecutive from its position *)
Lemma piece_consecutive (D bs t : list byte) T :
  D ++ bs ++ t = offs 0 T -> consecutive (N.of_nat (length D)) bs = true /\ length D + length bs <= T.
Proof.
  intros H.
  assert (HL : length D + (length bs + length t) = T).
  { apply (f_equal (@length _)) in H. rewrite !app_length, offs_length in H. exact H. }
  rewrite <- HL in H. rewrite offs_app, offs_app in H.
  apply app_eq_app_len in H; [|rewrite offs_length; reflexivity].
  destruct H as [_ H].
  apply app_eq_app_len in H; [|rewrite offs_length; reflexivity].
  destruct H as [H _]. split; [rewrite H, N.add_0_l; apply consecutive_offs|lia].
Qed.

Definition nondata (x : rres) : bool := match x with RData _ => false | _ => true end.

Lemma read_out_len oh r b : length (out (snd (read oh r b))) <= b.
Proof.
  unfold Model.read. destruct (qbuf r) as [q|].
  - destruct (skipn b q); cbn [snd out]; rewrite firstn_length; lia.
  - destruct (wire r) as [|f rest]; [destruct (closed r); cbn; lia|].
    destruct (open (rnonce r) f) as [pt|] eqn:Eo; [|cbn; lia].
    apply open_some in Eo. subst f.
    destruct (Nat.leb_spec (ctlen oh (Sealed (rnonce r) pt)) b) as [H|H]; cbn [snd out].
    + cbn [ctlen] in H. lia.
    + rewrite firstn_length. lia.
Qed.

Section Mon.
  Variable maxpt : nat.
  Variable oh : nat.
  Variable cs : list (list byte).
  Variable T : nat.
  Hypothesis Hmax : 1 <= maxpt.
  Hypothesis Hcs : concat cs = offs 0 T.

  Lemma RI_piece r D bs : RI cs r (D ++ bs) ->
    consecutive (N.of_nat (length D)) bs = true /\ length D + length bs <= T.
  Proof.
    intros (_ & HD & _).
    destruct (concat_firstn_prefix cs (rnonce r)) as [t Ht].
    apply (piece_consecutive D bs (qrest r ++ t) T).
    rewrite <- Hcs, <- Ht, <- HD, <- !app_assoc. reflexivity.
  Qed.

  Lemma mon_reads edited bls : forall r D saw,
    RI cs r D ->
    (edited = false -> UI cs r /\ closed r = true) ->
    mon (Z.of_nat T) edited (Z.of_nat (length D)) saw
        (obs_trace (N.of_nat (length D)) bls (snd (reads oh r bls)))
    = (negb edited || saw || existsb nondata (snd (reads oh r bls))).
  Proof.
    induction bls as [|b bls IH]; intros r D saw HR HU.
    - cbn. rewrite orb_false_r. reflexivity.
    - rewrite (reads_cons oh). cbn [snd obs_trace existsb].
      pose proof (read_RI maxpt oh Hmax cs r D b HR) as HR'.
      assert (HU' : edited = false -> UI cs (fst (read oh r b)) /\ closed (fst (read oh r b)) = true
                                      /\ snd (read oh r b) <> RErr).
      { intros He. destruct (HU He) as [U C].
        destruct (read_UI maxpt oh Hmax cs r b U) as [[U' Hne]|(_ & _ & Hf)]; [|congruence].
        rewrite (read_closed oh). auto. }
      destruct (snd (read oh r b)) as [bs| |] eqn:Ex; cbn [obs_of mon o_res o_n o_ok o_blen nondata out] in *.
      + (* data *)
        destruct (RI_piece _ D bs HR') as [Hok Hle].
        pose proof (read_out_len oh r b) as Hlen. rewrite Ex in Hlen. cbn [out] in Hlen.
        rewrite Hok. cbn [Z.eqb andb orb].
        replace (0 <=? Z.of_nat (length bs))%Z with true by (symmetry; apply Z.leb_le; lia).
        replace (Z.of_nat (length D) + Z.of_nat (length bs) <=? Z.of_nat T)%Z with true
          by (symmetry; apply Z.leb_le; lia).
        replace (Z.of_nat (length bs) <=? Z.of_nat b)%Z with true by (symmetry; apply Z.leb_le; lia).
        cbn [andb].
        replace (Z.of_nat (length D) + Z.of_nat (length bs))%Z with (Z.of_nat (length (D ++ bs)))
          by (rewrite app_length; lia).
        replace (N.of_nat (length D) + N.of_nat (length bs))%N with (N.of_nat (length (D ++ bs)))
          by (rewrite app_length; lia).
        apply IH; [exact HR'|]. intros He. destruct (HU' He) as (U & C & _). auto.
      + (* EOF *)
        rewrite app_nil_r in HR'. cbn [Z.eqb andb orb].
        assert (Hend : (edited || (Z.of_nat (length D) =? Z.of_nat T)%Z) = true).
        { destruct edited; [reflexivity|]. cbn [orb]. destruct (HU eq_refl) as [U C].
          destruct (reads_untampered maxpt oh Hmax cs [b] r D HR U C) as [_ H2].
          specialize (H2 [] REOF []). cbn [app] in H2.
          assert (E : snd (reads oh r [b]) = [REOF]).
          { cbn [Model.reads]. destruct (read oh r b) as [r1 x] eqn:E1. cbn [snd] in Ex. subst x. reflexivity. }
          specialize (H2 E eq_refl). unfold delivered in H2. cbn in H2. rewrite app_nil_r in H2.
          apply Z.eqb_eq. f_equal. rewrite H2, Hcs, offs_length. reflexivity. }
        rewrite Hend. cbn [andb].
        rewrite (IH _ D true HR'); [|intros He; destruct (HU' He) as (U & C & _); auto].
        rewrite !orb_true_r. reflexivity.
      + (* error: only on a tampered wire *)
        rewrite app_nil_r in HR'. cbn [Z.eqb andb orb].
        destruct edited.
        * cbn [andb]. rewrite (IH _ D true HR'); [|discriminate].
          rewrite !orb_true_r. reflexivity.
        * destruct (HU' eq_refl) as (_ & _ & Hne). congruence.
  Qed.
End Mon.

(* ---- instantiation with the constants of /repo ------------------------------ *)
Lemma MAXPT_pos : 1 <= MAXPT.
Proof. unfold MAXPT. assert (H : (1 <= MaxPlaintextLength)%Z) by (vm_compute; discriminate). lia. Qed.

Definition chunks_of (wlens : list nat) : list (list byte) := all_chunks MAXPT (mk_writes 0 wlens).

Lemma frames_of_eq wlens : frames_of wlens = seal_from 0 (chunks_of wlens).
Proof. unfold frames_of. rewrite (writes_frames MAXPT MAXPT_pos). reflexivity. Qed.

Lemma chunks_of_concat wlens : concat (chunks_of wlens) = offs 0 (total_nat wlens).
Proof. unfold chunks_of. rewrite (all_chunks_concat MAXPT MAXPT_pos). apply concat_mk_writes. Qed.

Lemma RI_start cs fs cl : Forall (honest cs) fs -> RI cs (reader0 fs cl) [].
Proof. intros H. unfold RI, reader0, qrest; cbn. repeat split; [exact H|lia]. Qed.

(* the writer's frames, untouched, the writer closing after the last write:
   the monitor accepts the reader's observations for ANY read-buffer sizes *)
Lemma holds_untampered wlens bls :
  holds (total_of wlens) false (model_trace wlens None true bls) = true.
Proof.
  unfold holds, model_trace. rewrite frames_of_eq, total_of_nat.
  set (cs := chunks_of wlens).
  pose proof (seal_from_honest MAXPT MAXPT_pos cs []) as Hh. cbn [app length] in Hh.
  pose proof (mon_reads MAXPT OVERHEAD cs (total_nat wlens) MAXPT_pos (chunks_of_concat wlens)
                false bls (reader0 (seal_from 0 cs) true) [] false (RI_start cs _ true Hh)) as H.
  cbn [length] in H. change (Z.of_nat 0) with 0%Z in H. change (N.of_nat 0) with 0%N in H.
  cbv iota. rewrite H; [reflexivity|].
  intros _. split; [unfold UI, reader0; cbn; reflexivity|reflexivity].
Qed.

(* any edit of the frame sequence: every byte handed to the reader is still the
   byte written at that position, and the monitor accepts as soon as the reader
   has seen a non-data result *)
Lemma holds_tampered wlens e bls :
  holds (total_of wlens) true (model_trace wlens (Some e) true bls) =
  existsb nondata (snd (reads OVERHEAD (reader0 (apply_edit OVERHEAD e (frames_of wlens)) true) bls)).
Proof.
  unfold holds, model_trace. rewrite frames_of_eq, total_of_nat.
  set (cs := chunks_of wlens).
  pose proof (edit_honest MAXPT OVERHEAD MAXPT_pos cs e) as Hh.
  pose proof (mon_reads MAXPT OVERHEAD cs (total_nat wlens) MAXPT_pos (chunks_of_concat wlens)
                true bls (reader0 (apply_edit OVERHEAD e (seal_from 0 cs)) true) [] false
                (RI_start cs _ true Hh)) as H.
  cbn [length] in H. change (Z.of_nat 0) with 0%Z in H. change (N.of_nat 0) with 0%N in H.
  cbv iota. rewrite H; [reflexivity|discriminate].
Qed.

Lemma In_existsb_nondata x xs : In x xs -> nondata x = true -> existsb nondata xs = true.
Proof. intros H1 H2. apply existsb_exists. exists x. split; assumption. Qed.

(* ... which happens within mu+1 reads when the buffers hold at least one byte *)
Lemma holds_tampered_long wlens e bls :
  Forall (fun b => 1 <= b) bls ->
  mu (reader0 (apply_edit OVERHEAD e (frames_of wlens)) true) < length bls ->
  holds (total_of wlens) true (model_trace wlens (Some e) true bls) = true.
Proof.
  intros Hb Hl. rewrite holds_tampered.
  pose proof (reads_reach_end MAXPT OVERHEAD MAXPT_pos bls _ Hb Hl) as H. cbn [closed reader0] in H.
  apply (In_existsb_nondata REOF); [exact H|reflexivity].
Qed.

(* and the non-data result is a genuine error (not EOF) for every edit except
   dropping the very last frame *)
Lemma tampered_gets_error wlens e bls :
  (match e with
   | EAlter i | ETrunc i | EDup i => i < length (chunks_of wlens)
   | EDrop i | ESwap i => S i < length (chunks_of wlens)
   end) ->
  Forall (fun b => 1 <= b) bls ->
  mu (reader0 (apply_edit OVERHEAD e (frames_of wlens)) true) < length bls ->
  In RErr (snd (reads OVERHEAD (reader0 (apply_edit OVERHEAD e (frames_of wlens)) true) bls)).
Proof.
  intros Hi Hb Hl. apply (reads_hit_bad MAXPT OVERHEAD MAXPT_pos); [exact Hb|exact Hl|].
  cbn [rnonce wire reader0]. rewrite frames_of_eq.
  apply (edit_has_bad MAXPT OVERHEAD MAXPT_pos). exact Hi.
Qed.

From Coq Require Import Extraction ExtrOcamlBasic.
From Verif Require Import c02.Spec.
Extraction Language OCaml.
Extraction "extract/c02_model.ml" conform_case monitor_case.

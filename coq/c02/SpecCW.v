(* C02 — several goroutines writing concurrently on ONE secured connection
   (kind 8 cases).  net.Conn allows concurrent Write calls; secureSession.Write
   holds the session's write lock for the whole call, so a Write is atomic with
   respect to other Writes: the wire carries the frames of the Writes in
   lock-acquisition order and the reader gets the concatenation of the WHOLE
   writes in that order.  The property text: bytes "reach the remote reader
   exactly once, in order and unmodified ... including writes larger than one
   encrypted frame ... concurrent readers/writers": the bytes of one Write
   arrive as one contiguous in-order run, every writer's Writes in its own order.

   Model: a state per writer (bytes of it already delivered, lengths of its Writes
   still to come); a schedule = the order in which the writers win the lock.
   Monitor: the delivered stream, cut by the harness into maximal runs
   (writer, offset in that writer's own stream, length) — every written byte
   carries its writer and position — must be a sequence of whole Writes.
   No proofs here (Proofs in Properties.v).

   Case line:  8 cfg K (nw len_1..len_nw)*K NR (wid start count)*NR res
     cfg : 0 = the writers are on the initiator's side, 1 = on the responder's
     per writer: its Write sizes, in its own order (all >= 1)
     runs: maximal runs of the delivered stream (wid = 255: bytes that are no valid record)
     res : how the reader's last Read ended: 1 = EOF (the writers' side closed after
           all Writes returned), 2 = another error *)
From Coq Require Import List Arith ZArith NArith Bool.
From Verif Require Import lib.Wire.
Import ListNotations.

(* sizes and offsets are binary numbers (N): the replay handles megabytes *)
Definition wst := list (N * list N).

Fixpoint set_nth {A} (n : nat) (x : A) (l : list A) : list A :=
  match l, n with
  | [], _ => []
  | _ :: t, O => x :: t
  | h :: t, S k => h :: set_nth k x t
  end.

(* [cnt] bytes = one or more whole Writes from the front of [ws] *)
Fixpoint take_whole (cnt : N) (ws : list N) : option (list N) :=
  match ws with
  | [] => None
  | l :: r => if (cnt <? l)%N then None else if (cnt =? l)%N then Some r else take_whole (cnt - l)%N r
  end.

Definition run := (nat * N * N)%type.     (* writer, offset in its stream, length *)

(* the monitor: every run starts where that writer's delivered bytes end and
   consists of whole Writes *)
Fixpoint whole_run (st : wst) (runs : list run) : option wst :=
  match runs with
  | [] => Some st
  | (w, start, cnt) :: r =>
      match nth_error st w with
      | Some (off, ws) =>
          if ((start =? off) && (1 <=? cnt))%N then
            match take_whole cnt ws with
            | Some ws' => whole_run (set_nth w ((off + cnt)%N, ws') st) r
            | None => None
            end
          else None
      | None => None
      end
  end.

Definition all_done (st : wst) : bool := forallb (fun p => match snd p with [] => true | _ => false end) st.

(* the model: [sched] = the writers in the order in which they acquire the write lock *)
Fixpoint cw_runs (st : wst) (sched : list nat) : list run :=
  match sched with
  | [] => []
  | w :: r =>
      match nth_error st w with
      | Some (off, l :: ws) => (w, off, l) :: cw_runs (set_nth w ((off + l)%N, ws) st) r
      | _ => cw_runs st r
      end
  end.

Fixpoint cw_final (st : wst) (sched : list nat) : wst :=
  match sched with
  | [] => st
  | w :: r =>
      match nth_error st w with
      | Some (off, l :: ws) => cw_final (set_nth w ((off + l)%N, ws) st) r
      | _ => cw_final st r
      end
  end.

(* the Write sizes in the order they go through the session *)
Fixpoint cw_order (st : wst) (sched : list nat) : list N :=
  match sched with
  | [] => []
  | w :: r =>
      match nth_error st w with
      | Some (off, l :: ws) => l :: cw_order (set_nth w ((off + l)%N, ws) st) r
      | _ => cw_order st r
      end
  end.

Definition st0 (writers : list (list N)) : wst := map (fun ws => (0%N, ws)) writers.

(* ---- wire ---------------------------------------------------------------------- *)
Local Open Scope Z_scope.

Fixpoint decode_writers (n : nat) (l : list Z) : option (list (list N) * list Z) :=
  match n with
  | O => Some ([], l)
  | S k =>
      match l with
      | nw :: r =>
          let wl := ztake nw r in
          if (zlen wl =? nw) && (0 <=? nw) && forallb (fun x => 1 <=? x) wl then
            match decode_writers k (zdrop nw r) with
            | Some (ws, r2) => Some (map Z.to_N wl :: ws, r2)
            | None => None
            end
          else None
      | [] => None
      end
  end.

Fixpoint decode_runs (fuel : nat) (n : nat) (l : list Z) : option (list run * list Z) :=
  match n with
  | O => Some ([], l)
  | S k =>
      match l with
      | w :: s :: c :: r =>
          if (0 <=? w) && (0 <=? s) && (0 <=? c) then
            match decode_runs fuel k r with
            | Some (rs, r2) => Some ((Z.to_nat w, Z.to_N s, Z.to_N c) :: rs, r2)
            | None => None
            end
          else None
      | _ => None
      end
  end.

Definition monitor8 (l : list Z) : list Z :=
  match l with
  | k :: cfg :: nwr :: r =>
      if (k =? 8) && (0 <=? nwr) then
        match decode_writers (Z.to_nat nwr) r with
        | Some (ws, nr :: r2) =>
            if 0 <=? nr then
              match decode_runs 0 (Z.to_nat nr) r2 with
              | Some (runs, [res]) =>
                  match whole_run (st0 ws) runs with
                  | Some st' => if (res =? 1) && all_done st' then [] else [ERR_PROPERTY; 8; res; 1]
                  | None => [ERR_PROPERTY; 8; res; 0]
                  end
              | _ => [ERR_MALFORMED; 8]
              end
            else [ERR_MALFORMED; 8]
        | _ => [ERR_MALFORMED; 8]
        end
      else [ERR_MALFORMED; 8]
  | _ => [ERR_MALFORMED; 8]
  end.

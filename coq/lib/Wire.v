(* Shared helpers for the correspondence wire format.
   A case is one line of integers (list Z).  Each property's Spec.v decodes
   that list into its own operations/observations and exposes

     conform_case : list Z -> list Z   ([] = model reproduces the observations)
     monitor_case : list Z -> list Z   ([] = the property's trace predicate holds
                                         on the implementation's observations)

   A non-empty result is a diagnostic: [code; index; expected...; got...]. *)
From Coq Require Import List ZArith Bool.
Import ListNotations.
Local Open Scope Z_scope.

Definition zbool (z : Z) : bool := negb (Z.eqb z 0).
Definition boolz (b : bool) : Z := if b then 1 else 0.
Definition znat (z : Z) : nat := Z.to_nat z.
Definition natz (n : nat) : Z := Z.of_nat n.

Definition testbit (z : Z) (k : Z) : bool := Z.testbit z k.

(* take n l / drop n l with n given as Z *)
Definition ztake {A} (n : Z) (l : list A) : list A := firstn (Z.to_nat n) l.
Definition zdrop {A} (n : Z) (l : list A) : list A := skipn (Z.to_nat n) l.

Definition zlen {A} (l : list A) : Z := Z.of_nat (length l).

Fixpoint list_eqb {A} (eqb : A -> A -> bool) (l1 l2 : list A) : bool :=
  match l1, l2 with
  | [], [] => true
  | x :: r1, y :: r2 => eqb x y && list_eqb eqb r1 r2
  | _, _ => false
  end.

Definition zlist_eqb := list_eqb Z.eqb.

(* Diagnostic codes shared by all properties *)
Definition ERR_MALFORMED : Z := 900.   (* the line does not decode *)
Definition ERR_MISMATCH  : Z := 901.   (* model/implementation disagree *)
Definition ERR_PROPERTY  : Z := 902.   (* property predicate false on impl trace *)

(* C06 — proofs, part 2: the WaitGroup counter, Close, and what holds once
   Close has passed wg.Wait / returned. *)
From Coq Require Import List Arith Bool Lia.
From Verif Require Import c06.Model c06.Spec c06.Proofs_base.
Import ListNotations.

Definition inwgA (a : apc) : nat :=
  match a with AEnqP | ACbP | AInCb | ALockP | ADiscP | AInDisc | AFinD | AFinC => 1 | _ => 0 end.
Definition inwgR (r : rpc) : nat :=
  match r with REnqP | RLockP | RDiscP | RInDisc | RFinD | RFinP => 1 | _ => 0 end.
Definition wgc (k : conn) : nat := inwgA (c_a k) + inwgR (c_r k).
Definition wsum_of (m : list (nat * conn)) (n : nat) : nat :=
  list_sum (map (fun c => wgc (get conn0 c m)) (seq 0 n)).

Lemma list_sum_upd (f f' : nat -> nat) c n :
  c < n -> (forall x, x <> c -> f' x = f x) ->
  list_sum (map f' (seq 0 n)) + f c = list_sum (map f (seq 0 n)) + f' c.
Proof.
  intros Hc Hx. induction n as [|n IH]; [lia|].
  rewrite seq_S, !map_app, !list_sum_app. cbn [map list_sum fold_right]. change (0 + n) with n.
  destruct (Nat.eq_dec c n) as [->|Hn].
  - assert (E : map f' (seq 0 n) = map f (seq 0 n)).
    { apply map_ext_in. intros x Hi. apply in_seq in Hi. apply Hx. lia. }
    rewrite E. lia.
  - rewrite (Hx n) by congruence. assert (c < n) by lia. lia.
Qed.

Lemma wsum_set m n c k : c < n ->
  wsum_of (set c k m) n + wgc (get conn0 c m) = wsum_of m n + wgc k.
Proof.
  intros Hc. unfold wsum_of.
  pose proof (list_sum_upd (fun c => wgc (get conn0 c m)) (fun x => wgc (get conn0 x (set c k m))) c n Hc) as H.
  cbv beta in H. rewrite get_set_same in H. apply H. intros x Hx. rewrite get_set_other by assumption. reflexivity.
Qed.

Lemma wsum_zero m n : wsum_of m n = 0 -> forall c, c < n -> wgc (get conn0 c m) = 0.
Proof.
  unfold wsum_of. induction n as [|n IH]; intros H c Hc; [lia|].
  rewrite seq_S, map_app, list_sum_app in H. cbn in H.
  destruct (Nat.eq_dec c n) as [->|]; [lia|]. apply IH; lia.
Qed.

Definition closed_of (c : cpc) : bool := match c with C0 | CSetP => false | _ => true end.
Definition cancelled_of (c : cpc) : bool := match c with CJoinP | CRetP | CDone => true | _ => false end.
Definition waited (c : cpc) : bool := match c with CCancelP | CJoinP | CRetP | CDone => true | _ => false end.
Definition returned (c : cpc) : bool := match c with CRetP | CDone => true | _ => false end.
Definition lexited (l : lpc) : bool := match l with LExited => true | _ => false end.

Record close_ok (o : list label) (s : state) : Prop := {
  ck_wg : wg s = wsum_of (conns s) (nconns s);
  ck_closed : closed s = closed_of (close_pc s);
  ck_cancelled : cancelled s = cancelled_of (close_pc s);
  ck_drain : drain s = true -> cancelled s = true;
  ck_exited : loop s = LExited -> drain s = true;
  ck_waited : waited (close_pc s) = true -> wg s = 0;
  ck_returned : returned (close_pc s) = true -> loop s = LExited;
  ck_ncall : cnt CloseCall o = match close_pc s with C0 => 0 | _ => 1 end;
  ck_nret : cnt CloseRet o = match close_pc s with CDone => 1 | _ => 0 end
}.

Lemma conn_lt cap o s c : exec cap o s ->
  (c_reg (gc s c) <> RNone \/ c_a (gc s c) <> A0 \/ c_r (gc s c) <> R0) -> c < nconns s.
Proof.
  intros He H. destruct (table_inv _ _ _ He) as [_ Ht].
  destruct (Nat.lt_ge_cases c (nconns s)) as [|Hge]; [assumption|].
  rewrite (Ht c Hge) in H. cbn in H. intuition congruence.
Qed.

Ltac wsum_step :=
  match goal with
  | |- context [wsum_of (set ?c ?k ?m) ?n] =>
      let W := fresh "W" in
      assert (W : c < n) by (eapply conn_lt; [eassumption | unfold gc; match goal with E : get conn0 c _ = _ |- _ => rewrite E end; prj; first [left; congruence | right; left; congruence | right; right; congruence]]);
      apply (wsum_set m n c k) in W; unfold wgc in W;
      match goal with E : get conn0 c _ = _ |- _ => rewrite E in W end
  end.

Lemma close_inv cap o s : exec cap o s -> close_ok o s.
Proof.
  induction 1 as [|o s l s' He IH Hs Hv|o s l s' He IH Hs Hv].
  - constructor; try reflexivity; cbn; congruence.
  - destruct IH.
    destruct l; try discriminate Hv; inv_step Hs; gcs 0;
      try (destruct (get conn0 c (conns s)) as [kp kl kg ka kr kcn kpd] eqn:Ek; prj; subst);
      (constructor; gcs 0; cnts; auto; try congruence;
       try (wsum_step; prj; cbn in *; lia);
       try (cbn in *; congruence);
       try (intro Hr; specialize (ck_returned0 Hr); congruence)).
    (* Reg *)
    apply Nat.eqb_eq in Heqb. subst c.
    unfold wsum_of in *. rewrite seq_S, map_app, list_sum_app. cbn [map list_sum fold_right].
    change (0 + nconns s) with (nconns s). rewrite get_set_same. cbn. rewrite ck_wg0.
    rewrite Nat.add_0_r. f_equal. apply map_ext_in.
    intros x Hx. apply in_seq in Hx. rewrite get_set_other by lia. reflexivity.
  - destruct IH.
    destruct l; try discriminate Hv; inv_step Hs; gcs 0;
      try (destruct (get conn0 c (conns s)) as [kp kl kg ka kr kcn kpd] eqn:Ek; prj; subst);
      (constructor; gcs 0; cnts; auto; try congruence;
       try (wsum_step; prj; cbn in *; lia);
       try (cbn in *; congruence);
       try (intro Hr; specialize (ck_returned0 Hr); congruence)).
    all: try (intro Hw; rewrite (ck_waited0 Hw); reflexivity).
    all: try (destruct (close_pc s); cbn in *; congruence).
    intros _. apply andb_prop in Heqb as [? ?]. assumption.
Qed.

(* consequences used by the property proofs *)
Lemma waited_no_thread cap o s c : exec cap o s -> waited (close_pc s) = true ->
  inwgA (c_a (gc s c)) = 0 /\ inwgR (c_r (gc s c)) = 0.
Proof.
  intros He Hw. destruct (close_inv _ _ _ He). destruct (table_inv _ _ _ He) as [_ Ht].
  destruct (Nat.lt_ge_cases c (nconns s)) as [Hlt|Hge].
  - pose proof (wsum_zero (conns s) (nconns s)) as Z. rewrite <- ck_wg0, (ck_waited0 Hw) in Z.
    specialize (Z eq_refl c Hlt). unfold wgc in Z. unfold gc. lia.
  - rewrite (Ht c Hge). split; reflexivity.
Qed.

(* C06 — swarm-level proofs, part 6: every clause of the swarm-level monitor
   (SpecSw.vcheck) holds at every observed step of every swarm-level execution. *)
From Coq Require Import List Arith Bool Lia.
From Verif Require Import c06.Model c06.Spec c06.SpecSw c06.SwModel c06.Proofs_base c06.Proofs_close c06.Proofs_loop
  c06.Proofs_truth c06.Proofs_truth2 c06.Proofs_main c06.SwProofs_base c06.SwProofs_rel c06.SwProofs_glob
  c06.SwProofs_skip c06.SwProofs_hist.
Import ListNotations.

Lemma T2_all cap vo bo ss : sexec cap vo bo ss -> T2 (base ss).
Proof.
  induction 1 as [|vo bo ss x ss' He IH Hs]; [intros p; left; reflexivity|].
  pose proof (sstep_base _ _ _ _ Hs) as Hb. destruct x as [l|e]; [|rewrite Hb; exact IH].
  pose proof (sexec_exec _ _ _ _ He) as Hx.
  eapply T2_step; [| |exact Hb| |exact IH].
  - intros c. apply (conn_inv_all _ _ _ Hx c).
  - apply (reg_lt _ _ _ Hx).
  - intros Hc c. pose proof (noskip_all _ _ _ _ (sexec_step _ _ _ _ _ _ He Hs) c) as N.
    split; intros ->; unfold step in Hb; rewrite Hc in Hb.
    + destruct (c_a (gc (base ss) c)); try discriminate Hb. injection Hb as Hb. rewrite <- Hb in N.
      unfold noskip, upd_a in N. rewrite gc_set_same in N. discriminate N.
    + destruct (c_r (gc (base ss) c)); try discriminate Hb. injection Hb as Hb. rewrite <- Hb in N.
      unfold noskip, upd_r in N. rewrite gc_set_same in N. cbn in N. rewrite andb_false_r in N. discriminate N.
Qed.

(* a conn below nconns whose threads are all finished: every callback ran exactly once *)
Lemma done_counts cap vo bo ss c : sexec cap vo bo ss ->
  s_pc (sg ss c) = LDone -> d_pc (sg ss c) = GFin ->
  cnt (ConnB c) bo = 1 /\ cnt (ConnE c) bo = 1 /\ cnt (DiscB c) bo = 1 /\ cnt (DiscE c) bo = 1.
Proof.
  intros He E1 E2. pose proof (rel_all _ _ _ _ He c) as [R1 R2 _ _ _ _].
  pose proof (noskip_all _ _ _ _ He c) as N. unfold noskip in N.
  destruct (conn_inv_all _ _ _ (sexec_exec _ _ _ _ He) c) as [[] P].
  rewrite E1 in R1. rewrite E2 in R2. unfold rel_sa in R1. unfold rel_dr in R2. unfold proto_ok in P.
  rewrite co_connb, co_conne, co_discb, co_disce.
  destruct (c_a (gc (base ss) c)); cbn in R1, N; rewrite ?andb_false_r in R1; try discriminate;
    destruct (c_r (gc (base ss) c)); cbn in R2, N; try discriminate; cbn; auto;
    destruct (c_conn (gc (base ss) c)), (c_pend (gc (base ss) c)); cbn in P; discriminate P.
Qed.

Lemma fresh_counts cap vo bo ss c : sexec cap vo bo ss -> nconns (base ss) <= c ->
  cnt (ConnB c) bo = 0 /\ cnt (ConnE c) bo = 0 /\ cnt (DiscB c) bo = 0 /\ cnt (DiscE c) bo = 0.
Proof.
  intros He Hc. pose proof (sexec_exec _ _ _ _ He) as Hx.
  destruct (table_inv _ _ _ Hx) as [_ T]. destruct (conn_inv_all _ _ _ Hx c) as [[] _].
  rewrite (T c Hc) in *. cbn in *. auto.
Qed.

Lemma vlive cap vo bo ss : sexec cap vo bo ss -> x_pc ss <> XDone -> vmem VCloseRet vo = false.
Proof.
  intros He H. destruct (glob_inv _ _ _ _ He) as [_ _ G3 _ _ _ _ _]. apply nvmem_of_cnt. rewrite G3.
  destruct (x_pc ss); congruence.
Qed.

(* a conn with a thread still running keeps Swarm.Close from passing refs.Wait *)
Lemma running_not_waited cap vo bo ss c : sexec cap vo bo ss -> inserted (s_pc (sg ss c)) = true ->
  (s_pc (sg ss c) <> LDone \/ d_pc (sg ss c) <> GFin) -> x_pc ss <> XDone.
Proof.
  intros He Hi Hr E. apply (inserted_lt _ _ _ _ c He) in Hi.
  destruct (all_done _ _ _ _ c He) as [A B]; [rewrite E; reflexivity|assumption|]. tauto.
Qed.

Ltac base_facts He c :=
  let C := fresh "C" in let P := fresh "P" in
  destruct (conn_inv_all _ _ _ (sexec_exec _ _ _ _ He) c) as [C P]; destruct C.

(* callbacks *)
Lemma vcheck_callbacks cap vo bo ss l ss' v : sexec cap vo bo ss -> sstep cap ss (XB l) = Some ss' ->
  svis (XB l) = Some v -> (forall p s, l <> Pub p s) -> vcheck v vo = [].
Proof.
  intros He Hs Hv Hnp. pose proof (sstep_base _ _ _ _ Hs) as Hb.
  destruct (proj_inv _ _ _ _ He) as [J1 J2 J3 J4 J5].
  destruct l; try discriminate Hv; injection Hv as <-; try (exfalso; eapply Hnp; reflexivity);
    pose proof (rel_all _ _ _ _ He c) as [R1 R2 R3 R4 R5 R6];
    destruct (hist_all _ _ _ _ He c) as [H1 H2 H3 H4 H5 H6 H7 H8];
    pose proof (noskip_all _ _ _ _ He c) as N; base_facts He c;
    pose proof (running_not_waited _ _ _ _ c He) as RW;
    unfold vcheck; rewrite ?J1, ?J2, ?J3, ?J4;
    rewrite ?(vmem_of_cnt (VConnB c) vo 0), ?(vmem_of_cnt (VConnE c) vo 0), ?(vmem_of_cnt (VDiscB c) vo 0) by (rewrite ?J1, ?J2, ?J3; congruence).
  all: unfold step in Hb; unfold rel_sa, rel_dr, proto_ok, noskip in *.
  all: destruct (c_a (gc (base ss) c)) eqn:Ea; try discriminate Hb;
       destruct (c_r (gc (base ss) c)) eqn:Er; try discriminate Hb; cbn in N; try discriminate N.
  all: destruct (s_pc (sg ss c)) eqn:Es; cbn in R1; rewrite ?andb_false_r in R1; try discriminate R1.
  all: destruct (d_pc (sg ss c)) eqn:Ed; cbn in R2; rewrite ?andb_false_r in R2; try discriminate R2.
  all: try (rewrite (vlive _ _ _ _ He) by (apply RW; [reflexivity|first [left; congruence|right; congruence]])).
  all: destruct (c_reg (gc (base ss) c)) eqn:Eg; cbn in R1, R2, P; rewrite ?andb_false_r in *; try discriminate.
  all: destruct (s_ret (sg ss c)); cbn in R5; try discriminate R5.
  all: rewrite ?co_connb, ?co_conne, ?co_discb, ?co_disce, ?H1.
  all: rewrite ?(nvmem_of_cnt _ _ H3), ?(nvmem_of_cnt _ _ H4).
  all: try rewrite (vmem_of_cnt _ _ 0 H6).
  all: try reflexivity.
  all: rewrite ?(vmem_of_cnt (VConnB c) vo 0) by (rewrite J1, co_connb; reflexivity).
  all: rewrite ?(vmem_of_cnt (VConnE c) vo 0) by (rewrite J2, co_conne; reflexivity).
  all: rewrite ?(vmem_of_cnt (VDiscB c) vo 0) by (rewrite J3, co_discb; reflexivity).
  all: try reflexivity.
Qed.

(* published events *)
Lemma vcheck_pub cap vo bo ss p s ss' : sexec cap vo bo ss -> sstep cap ss (XB (Pub p s)) = Some ss' ->
  vcheck (VPub p s) vo = [].
Proof.
  intros He Hs. pose proof (sstep_base _ _ _ _ Hs) as Hb. pose proof (sexec_exec _ _ _ _ He) as Hx.
  destruct (proj_inv _ _ _ _ He) as [_ _ _ _ J5]. unfold vcheck. rewrite J5.
  pose proof (ck_norepeat_ok _ _ _ _ _ Hx Hb) as K. cbn [ck_norepeat] in K.
  assert (E : negb (cst_eqb s (lastpub p bo)) || cst_eqb s NotConnected = true).
  { apply orb_true_iff in K. destruct K as [K|K]; [rewrite K; reflexivity|].
    apply andb_prop in K as [K _]. rewrite K. apply orb_true_r. }
  rewrite E. rewrite (vlive _ _ _ _ He); [reflexivity|].
  intros Ex. destruct (glob_inv _ _ _ _ He) as [_ _ _ G4 _ _ _ _]. rewrite Ex in G4.
  destruct (close_inv _ _ _ Hx) as [_ _ _ _ _ _ W7 _ _].
  unfold step in Hb. destruct (loop (base ss)) eqn:El; try discriminate Hb.
  assert (R : returned (close_pc (base ss)) = true) by (destruct (close_pc (base ss)); cbn in G4; try discriminate; reflexivity).
  specialize (W7 R). discriminate.
Qed.

(* addConn returning, the AcceptStream loop starting *)
Lemma started_connected cap vo bo ss c : sexec cap vo bo ss -> started (s_pc (sg ss c)) = true ->
  vcnt (VConnE c) vo = 1.
Proof.
  intros He Hst. destruct (proj_inv _ _ _ _ He) as [_ J2 _ _ _]. rewrite J2.
  pose proof (rel_all _ _ _ _ He c) as [R1 _ _ _ _ _]. pose proof (noskip_all _ _ _ _ He c) as N.
  base_facts He c. rewrite co_conne. unfold rel_sa, noskip in *.
  destruct (s_pc (sg ss c)); try discriminate Hst;
    destruct (c_a (gc (base ss) c)); cbn in R1, N; rewrite ?andb_false_r in R1; try discriminate; reflexivity.
Qed.

Lemma vcheck_addret cap vo bo ss c ok ss' : sexec cap vo bo ss -> sstep cap ss (XS (SAddRet c ok)) = Some ss' ->
  vcheck (VAddRet c ok) vo = [].
Proof.
  intros He Hs. destruct ok; inv_sstep Hs; unfold vcheck.
  - apply andb_prop in Heqb0 as [Hst _]. rewrite (started_connected _ _ _ _ c He Hst). reflexivity.
  - destruct (hist_all _ _ _ _ He c) as [_ _ _ _ _ _ _ H8]. rewrite Heqs in H8. specialize (H8 eq_refl).
    destruct (glob_inv _ _ _ _ He) as [G1 G2 _ _ _ _ _ _]. rewrite G1 in H8.
    rewrite (vmem_of_cnt VCloseCall vo 0) by (rewrite G2; destruct (x_pc ss); try discriminate; reflexivity).
    destruct (proj_inv _ _ _ _ He) as [J1 _ _ _ _]. rewrite J1.
    pose proof (rel_all _ _ _ _ He c) as [R1 _ _ _ _ _]. rewrite Heqs in R1. cbn in R1.
    base_facts He c. rewrite co_connb. unfold proto_ok in P.
    destruct (c_reg (gc (base ss) c)); try discriminate R1.
    destruct (c_a (gc (base ss) c)); try (rewrite ?andb_false_r in P; discriminate P). reflexivity.
Qed.

Lemma vcheck_accept cap vo bo ss c ss' : sexec cap vo bo ss -> sstep cap ss (XS (SAccept c)) = Some ss' ->
  vcheck (VAccept c) vo = [].
Proof.
  intros He Hs. inv_sstep Hs. unfold vcheck.
  rewrite (vmem_of_cnt (VConnE c) vo 0); [reflexivity|]. apply (started_connected _ _ _ _ c He). rewrite Heqs. reflexivity.
Qed.

(* Swarm.Close returns *)
Lemma vcheck_waited cap vo bo ss : sexec cap vo bo ss -> xwaited (x_pc ss) = true -> vcheck VCloseRet vo = [].
Proof.
  intros He Hw. unfold vcheck.
  destruct (proj_inv _ _ _ _ He) as [J1 J2 J3 J4 _].
  assert (A : forall c, c < nconns (base ss) ->
            cnt (ConnB c) bo = 1 /\ cnt (ConnE c) bo = 1 /\ cnt (DiscB c) bo = 1 /\ cnt (DiscE c) bo = 1).
  { intros c Hc. destruct (all_done _ _ _ _ c He Hw Hc) as [E1 E2]. eapply done_counts; eauto. }
  assert (B : forall c, nconns (base ss) <= c ->
            cnt (ConnB c) bo = 0 /\ cnt (ConnE c) bo = 0 /\ cnt (DiscB c) bo = 0 /\ cnt (DiscE c) bo = 0)
    by (intros c Hc; eapply fresh_counts; eauto).
  assert (E1 : vall vo (fun c => negb (vmem (VSeen c) vo || vmem (VConnB c) vo)
                           || (Nat.eqb (vcnt (VConnE c) vo) 1 && Nat.eqb (vcnt (VDiscE c) vo) 1)) = true).
  { unfold vall. apply forallb_forall. intros c _.
    destruct (Nat.lt_ge_cases c (nconns (base ss))) as [Hc|Hc].
    - destruct (A c Hc) as (_ & A2 & _ & A4). rewrite J2, J4, A2, A4. apply orb_true_r.
    - destruct (B c Hc) as (B1 & _). rewrite (nvmem_of_cnt (VConnB c) vo) by (rewrite J1; exact B1).
      destruct (vmem (VSeen c) vo) eqn:Es; [|reflexivity].
      apply vmem_true in Es. destruct (hist_all _ _ _ _ He c) as [_ _ _ _ _ _ H7 _].
      apply H7 in Es. apply (inserted_lt _ _ _ _ c He) in Es. lia. }
  assert (E2 : vall vo (fun c => Nat.eqb (vcnt (VConnB c) vo) (vcnt (VConnE c) vo)
                              && Nat.eqb (vcnt (VDiscB c) vo) (vcnt (VDiscE c) vo)) = true).
  { unfold vall. apply forallb_forall. intros c _. rewrite J1, J2, J3, J4.
    destruct (Nat.lt_ge_cases c (nconns (base ss))) as [Hc|Hc].
    - destruct (A c Hc) as (-> & -> & -> & ->). reflexivity.
    - destruct (B c Hc) as (-> & -> & -> & ->). reflexivity. }
  rewrite E1, E2. reflexivity.
Qed.

Lemma vcheck_closeret cap vo bo ss ss' : sexec cap vo bo ss -> sstep cap ss (XS SCloseRet) = Some ss' ->
  vcheck VCloseRet vo = [].
Proof. intros He Hs. inv_sstep Hs. eapply vcheck_waited; [exact He|rewrite Heqx; reflexivity]. Qed.

(* a further Swarm.Close call returns: the same *)
Lemma vcheck_close2ret cap vo bo ss ss' : sexec cap vo bo ss -> sstep cap ss (XS SClose2Ret) = Some ss' ->
  vcheck VClose2Ret vo = [].
Proof.
  intros He Hs. inv_sstep Hs; change (vcheck VClose2Ret vo) with (vcheck VCloseRet vo);
    (eapply vcheck_waited; [exact He|rewrite Heqx; reflexivity]).
Qed.

(* C06 — swarm-level proofs, part 1: executions of the swarm-level LTS, their
   projection to executions of the emitter LTS, and the agreement of the two
   observation streams on the labels they share. *)
From Coq Require Import List Arith Bool Lia.
From Verif Require Import c06.Model c06.Spec c06.SpecSw c06.SwModel c06.Proofs_base.
Import ListNotations.

(* what an observer of the swarm sees *)
Definition svis (x : xlabel) : option vlab :=
  match x with
  | XB (ConnB c) => Some (VConnB c) | XB (ConnE c) => Some (VConnE c)
  | XB (DiscB c) => Some (VDiscB c) | XB (DiscE c) => Some (VDiscE c)
  | XB (Pub p s) => Some (VPub p s)
  | XB _ => None
  | XS (SAddCall c p lim proxy) => Some (VAddCall c p lim proxy)
  | XS (SAddRet c ok) => Some (VAddRet c ok)
  | XS (SAccept c) => Some (VAccept c) | XS (SCloseReq c) => Some (VCloseReq c)
  | XS (STCloseB c) => Some (VTCloseB c) | XS (STCloseE c) => Some (VTCloseE c)
  | XS SCloseCall => Some VCloseCall | XS SCloseRet => Some VCloseRet
  | XS (SSeen c) => Some (VSeen c) | XS (SObsConn p s) => Some (VObsConn p s)
  | XS (SObsListed c b) => Some (VObsListed c b) | XS SQuiesce => Some VQuiesce
  | XS SClose2Call => Some VClose2Call | XS SClose2Ret => Some VClose2Ret
  | XS _ => None
  end.
Definition vpush (x : xlabel) (vo : list vlab) : list vlab :=
  match svis x with Some v => v :: vo | None => vo end.
Definition bpush (x : xlabel) (bo : list label) : list label :=
  match x with XB l => if vis l then l :: bo else bo | XS _ => bo end.

(* sexec cap vo bo ss: ss is reachable by some schedule; vo = what the swarm-level observer saw,
   bo = the observations of the embedded emitter LTS (both most recent first) *)
Inductive sexec (cap : nat) : list vlab -> list label -> sstate -> Prop :=
| sexec_init : sexec cap [] [] sinit
| sexec_step : forall vo bo ss x ss', sexec cap vo bo ss -> sstep cap ss x = Some ss' ->
    sexec cap (vpush x vo) (bpush x bo) ss'.

Fixpoint vobs_of (xs : list xlabel) (acc : list vlab) : list vlab :=
  match xs with [] => acc | x :: r => vobs_of r (vpush x acc) end.
Fixpoint bobs_of (xs : list xlabel) (acc : list label) : list label :=
  match xs with [] => acc | x :: r => bobs_of r (bpush x acc) end.
Definition vobs (xs : list xlabel) : list vlab := vobs_of xs [].

Lemma srun_sexec_gen cap xs : forall vo bo ss0 ss, sexec cap vo bo ss0 -> srun cap ss0 xs = Some ss ->
  sexec cap (vobs_of xs vo) (bobs_of xs bo) ss.
Proof.
  induction xs as [|x xs IH]; intros vo bo ss0 ss He Hr; cbn [srun vobs_of bobs_of] in *.
  - injection Hr as <-. exact He.
  - destruct (sstep cap ss0 x) as [s1|] eqn:Es; [|discriminate].
    eapply IH; [|exact Hr]. eapply sexec_step; eauto.
Qed.
Lemma srun_sexec cap xs ss : srun cap sinit xs = Some ss -> sexec cap (vobs xs) (bobs_of xs []) ss.
Proof. intros H. eapply srun_sexec_gen; [constructor|exact H]. Qed.

(* every swarm step is one step of the emitter LTS or leaves it unchanged *)
Lemma sstep_base cap ss x ss' : sstep cap ss x = Some ss' ->
  match x with
  | XB l => step cap (base ss) l = Some (base ss')
  | XS _ => base ss' = base ss
  end.
Proof.
  intros H. destruct x as [l|e]; unfold sstep, bstep in H.
  - repeat match type of H with
           | context [match ?x with _ => _ end] => destruct x eqn:?; try discriminate H
           end; injection H as <-; cbn [base set_base]; reflexivity.
  - repeat match type of H with
           | context [match ?x with _ => _ end] => destruct x eqn:?; try discriminate H
           end; injection H as <-; reflexivity.
Qed.

Lemma sexec_exec cap vo bo ss : sexec cap vo bo ss -> exec cap bo (base ss).
Proof.
  induction 1 as [|vo bo ss x ss' He IH Hs]; [constructor|].
  apply sstep_base in Hs. destruct x as [l|e]; cbn [bpush].
  - destruct (vis l) eqn:Ev; [eapply exec_vis|eapply exec_tau]; eauto.
  - rewrite Hs. exact IH.
Qed.

(* the two observation streams agree on callbacks and published events *)
Lemma vcnt_same l o : vcnt l (l :: o) = S (vcnt l o).
Proof. unfold vcnt. apply count_occ_cons_eq. reflexivity. Qed.
Lemma vcnt_diff l l' o : l' <> l -> vcnt l (l' :: o) = vcnt l o.
Proof. intros. unfold vcnt. apply count_occ_cons_neq. assumption. Qed.
Lemma vmem_true l o : vmem l o = true <-> In l o.
Proof. unfold vmem. destruct (in_dec vlab_eq_dec l o); split; auto; discriminate. Qed.
Lemma vmem_false l o : vmem l o = false <-> ~ In l o.
Proof. unfold vmem. destruct (in_dec vlab_eq_dec l o); split; auto; try discriminate; contradiction. Qed.
Lemma vcnt_pos_in l o : 0 < vcnt l o <-> In l o.
Proof. unfold vcnt. symmetry. apply count_occ_In. Qed.
Lemma vcnt_zero_notin l o : vcnt l o = 0 <-> ~ In l o.
Proof. unfold vcnt. symmetry. apply count_occ_not_In. Qed.
Lemma vmem_of_cnt l o n : vcnt l o = S n -> vmem l o = true.
Proof. intros H. apply vmem_true, vcnt_pos_in. lia. Qed.
Lemma nvmem_of_cnt l o : vcnt l o = 0 -> vmem l o = false.
Proof. intros H. apply vmem_false, vcnt_zero_notin. assumption. Qed.

Ltac vcnts := repeat first [ rewrite vcnt_same | rewrite vcnt_diff by congruence ].
Ltac cnts' := repeat first [ rewrite cnt_same | rewrite cnt_diff by congruence ].

Record proj_ok (vo : list vlab) (bo : list label) : Prop := {
  pj_connb : forall c, vcnt (VConnB c) vo = cnt (ConnB c) bo;
  pj_conne : forall c, vcnt (VConnE c) vo = cnt (ConnE c) bo;
  pj_discb : forall c, vcnt (VDiscB c) vo = cnt (DiscB c) bo;
  pj_disce : forall c, vcnt (VDiscE c) vo = cnt (DiscE c) bo;
  pj_pub : forall p, vlastpub p vo = lastpub p bo
}.

Lemma proj_inv cap vo bo ss : sexec cap vo bo ss -> proj_ok vo bo.
Proof.
  induction 1 as [|vo bo ss x ss' He IH Hs]; [constructor; reflexivity|].
  destruct IH. clear Hs.
  destruct x as [l|e]; [destruct l|destruct e]; unfold vpush, bpush; cbn [svis vis];
    constructor; intros; vcnts; cnts'; auto; cbn [vlastpub lastpub]; auto.
  - destruct (Nat.eq_dec c0 c) as [->|]; vcnts; cnts'; auto.
  - destruct (Nat.eq_dec c0 c) as [->|]; vcnts; cnts'; auto.
  - destruct (Nat.eq_dec c0 c) as [->|]; vcnts; cnts'; auto.
  - destruct (Nat.eq_dec c0 c) as [->|]; vcnts; cnts'; auto.
  - destruct (Nat.eqb p0 p); auto.
Qed.

(* C06 — proofs, part 1: executions, map lemmas, step inversion, and the
   per-connection invariants (conn table, label counts as functions of the
   program counters, the connected/pendingDisconnect protocol). *)
From Coq Require Import List Arith Bool Lia.
From Verif Require Import c06.Model c06.Spec.
Import ListNotations.

(* ---- executions -----------------------------------------------------------
   exec cap o s: s is reachable by SOME schedule whose visible labels, most
   recent first, are o.  Every schedule is covered (run_exec). *)
Inductive exec (cap : nat) : list label -> state -> Prop :=
| exec_init : exec cap [] init
| exec_vis : forall o s l s', exec cap o s -> step cap s l = Some s' -> vis l = true -> exec cap (l :: o) s'
| exec_tau : forall o s l s', exec cap o s -> step cap s l = Some s' -> vis l = false -> exec cap o s'.

Lemma run_exec_gen cap ls : forall o s0 s, exec cap o s0 -> run cap s0 ls = Some s ->
  exec cap (rev (filter vis ls) ++ o) s.
Proof.
  induction ls as [|l ls IH]; intros o s0 s He Hr; cbn [run filter rev] in *.
  - injection Hr as <-. exact He.
  - destruct (step cap s0 l) as [s1|] eqn:Es; [|discriminate].
    destruct (vis l) eqn:Ev.
    + cbn [rev]. rewrite <- app_assoc. cbn [app]. eapply IH; [|exact Hr]. eapply exec_vis; eauto.
    + eapply IH; [|exact Hr]. eapply exec_tau; eauto.
Qed.

Lemma run_exec cap ls s : run cap init ls = Some s -> exec cap (rev (filter vis ls)) s.
Proof.
  intros H. pose proof (run_exec_gen cap ls [] init s (exec_init cap) H) as E.
  rewrite app_nil_r in E. exact E.
Qed.

(* ---- maps ------------------------------------------------------------------ *)
Lemma get_set_same {A} (d : A) k v m : get d k (set k v m) = v.
Proof.
  induction m as [|[k' v'] m IH]; cbn [get set].
  - rewrite Nat.eqb_refl. reflexivity.
  - destruct (Nat.eqb k k') eqn:E; cbn [get]; rewrite ?Nat.eqb_refl, ?E; auto.
Qed.
Lemma get_set_other {A} (d : A) k k' v m : k' <> k -> get d k' (set k v m) = get d k' m.
Proof.
  intros Hn. induction m as [|[k2 v2] m IH]; cbn [get set].
  - apply Nat.eqb_neq in Hn. rewrite Hn. reflexivity.
  - destruct (Nat.eqb k k2) eqn:E; cbn [get].
    + apply Nat.eqb_eq in E. subst k2. apply Nat.eqb_neq in Hn. rewrite Hn. reflexivity.
    + destruct (Nat.eqb k' k2); auto.
Qed.

Lemma gc_set_same s c k : gc (set_conn s c k) c = k.
Proof. unfold gc, set_conn; cbn [conns]. apply get_set_same. Qed.
Lemma gc_set_other s c k c' : c' <> c -> gc (set_conn s c k) c' = gc s c'.
Proof. intros. unfold gc, set_conn; cbn [conns]. apply get_set_other; auto. Qed.

(* ---- counting labels ------------------------------------------------------- *)
Lemma cnt_same l o : cnt l (l :: o) = S (cnt l o).
Proof. unfold cnt. apply count_occ_cons_eq. reflexivity. Qed.
Lemma cnt_diff l l' o : l' <> l -> cnt l (l' :: o) = cnt l o.
Proof. intros. unfold cnt. apply count_occ_cons_neq. assumption. Qed.
Lemma memb_true l o : memb l o = true <-> In l o.
Proof. unfold memb. destruct (in_dec label_eq_dec l o); split; auto; discriminate. Qed.
Lemma memb_false l o : memb l o = false <-> ~ In l o.
Proof. unfold memb. destruct (in_dec label_eq_dec l o); split; auto; try discriminate; contradiction. Qed.
Lemma cnt_pos_in l o : 0 < cnt l o <-> In l o.
Proof. unfold cnt. symmetry. apply count_occ_In. Qed.
Lemma cnt_zero_notin l o : cnt l o = 0 <-> ~ In l o.
Proof. unfold cnt. symmetry. apply count_occ_not_In. Qed.

(* ---- step inversion ------------------------------------------------------- *)
Ltac inv_step H :=
  unfold step in H;
  repeat match type of H with
         | context [match ?x with _ => _ end] => destruct x eqn:?; try discriminate H
         end;
  injection H as <-.

(* every state produced by a step has its conns either unchanged or changed at one index *)
Ltac gcs c0 :=
  unfold upd_a, upd_r, set_conn, set_wg, set_queue, set_loop, set_cpc, gc in *;
  cbn [conns nconns closed wg close_pc cancelled queue loop drain last] in *;
  repeat first [ rewrite get_set_same in * | rewrite get_set_other in * by congruence ].

(* the registration / peer / limited part of a conn *)
Lemma minfo_cons_other l o c :
  (forall p lim, l <> Reg c p lim) -> l <> Unreg c -> minfo (l :: o) c = minfo o c.
Proof.
  intros H1 H2. destruct l; cbn [minfo]; auto.
  - destruct (Nat.eqb c c0) eqn:E; auto. apply Nat.eqb_eq in E. subst. exfalso. eapply H1. reflexivity.
  - destruct (Nat.eqb c c0) eqn:E; auto. apply Nat.eqb_eq in E. subst. contradiction.
Qed.

(* ---- the counts each program counter stands for ---------------------------- *)
Definition nAddCall (a : apc) : nat := match a with A0 => 0 | _ => 1 end.
Definition nAddRet (a : apc) : nat := if a_done a then 1 else 0.
Definition nConnB (a : apc) : nat :=
  match a with A0 | AChkP | ASkipRetP | ASkipDone | AEnqP | ACbP => 0 | _ => 1 end.
Definition nConnE (a : apc) : nat :=
  match a with A0 | AChkP | ASkipRetP | ASkipDone | AEnqP | ACbP | AInCb => 0 | _ => 1 end.
Definition dBA (a : apc) : nat := match a with AInDisc | AFinD | ARetD | ADoneD => 1 | _ => 0 end.
Definition dEA (a : apc) : nat := match a with AFinD | ARetD | ADoneD => 1 | _ => 0 end.
Definition nRemCall (r : rpc) : nat := match r with R0 => 0 | _ => 1 end.
Definition nRemRet (r : rpc) : nat := if r_done r then 1 else 0.
Definition dBR (r : rpc) : nat := match r with RInDisc | RFinD | RRetD | RDoneD => 1 | _ => 0 end.
Definition dER (r : rpc) : nat := match r with RFinD | RRetD | RDoneD => 1 | _ => 0 end.
Definition nUnreg (g : regst) : nat := match g with RGone => 1 | _ => 0 end.

Record counts_ok (c : nat) (o : list label) (k : conn) : Prop := {
  co_addcall : cnt (AddCall c) o = nAddCall (c_a k);
  co_addret : cnt (AddRet c) o = nAddRet (c_a k);
  co_connb : cnt (ConnB c) o = nConnB (c_a k);
  co_conne : cnt (ConnE c) o = nConnE (c_a k);
  co_remcall : cnt (RemCall c) o = nRemCall (c_r k);
  co_remret : cnt (RemRet c) o = nRemRet (c_r k);
  co_discb : cnt (DiscB c) o = dBA (c_a k) + dBR (c_r k);
  co_disce : cnt (DiscE c) o = dEA (c_a k) + dER (c_r k);
  co_unreg : cnt (Unreg c) o = nUnreg (c_reg k);
  co_info : minfo o c = info_of k
}.

(* the protocol between the two threads of a conn and the two maps *)
Definition aD (a : apc) : bool := match a with ADiscP | AInDisc | AFinD | ARetD | ADoneD => true | _ => false end.
Definition aC (a : apc) : bool := match a with AFinC | ARetC | ADoneC => true | _ => false end.
Definition rD (r : rpc) : bool := match r with RDiscP | RInDisc | RFinD | RRetD | RDoneD => true | _ => false end.
Definition rP (r : rpc) : bool := match r with RFinP | RRetP | RDoneP => true | _ => false end.
Definition proto_ok (k : conn) : bool :=
  Bool.eqb (c_conn k) (aC (c_a k) && negb (rD (c_r k))) &&
  Bool.eqb (c_pend k) (rP (c_r k) && negb (aD (c_a k))) &&
  implb (aD (c_a k)) (rP (c_r k)) &&
  implb (rD (c_r k)) (aC (c_a k)) &&
  implb (aC (c_a k)) (negb (rP (c_r k))) &&
  (* threads exist only for registered conns; RemoveConn only for removed ones *)
  match c_reg k with
  | RNone => match c_a k, c_r k with A0, R0 => true | _, _ => false end
  | ROpen => match c_r k with R0 => true | _ => false end
  | RGone => true
  end.

Definition conn_inv (c : nat) (o : list label) (k : conn) : Prop := counts_ok c o k /\ proto_ok k = true.

Lemma conn0_inv c : conn_inv c [] conn0.
Proof. split; [constructor; reflexivity | reflexivity]. Qed.

Ltac cnts :=
  repeat first [ rewrite cnt_same | rewrite cnt_diff by congruence ].

Ltac mi :=
  repeat first [ rewrite minfo_cons_other by (intros; congruence) ].

(* registered conns are exactly those below nconns *)
Definition table_ok (o : list label) (s : state) : Prop :=
  nregs o = nconns s /\ forall c, nconns s <= c -> gc s c = conn0.

Lemma table_inv cap o s : exec cap o s -> table_ok o s.
Proof.
  induction 1 as [|o s l s' He IH Hs Hv|o s l s' He IH Hs Hv].
  - split; [reflexivity|]. intros. reflexivity.
  - destruct IH as [IH1 IH2].
    assert (Hreg : forall c, nconns s <= c -> c_reg (gc s c) = RNone /\ c_a (gc s c) = A0 /\ c_r (gc s c) = R0)
      by (intros c Hc; rewrite (IH2 c Hc); auto).
    destruct l; try discriminate Hv; inv_step Hs; unfold table_ok; gcs 0;
      try (split; [cbn [nregs]; gcs 0; congruence|]; intros c1 Hc1;
           try (destruct (Nat.eq_dec c1 c); [subst c1; destruct (Hreg c Hc1) as (?&?&?); congruence|]);
           gcs 0; auto).
    apply Nat.eqb_eq in Heqb. subst c.
    rewrite get_set_other by lia. apply IH2. lia.
  - destruct IH as [IH1 IH2].
    assert (Hreg : forall c, nconns s <= c -> c_reg (gc s c) = RNone /\ c_a (gc s c) = A0 /\ c_r (gc s c) = R0)
      by (intros c Hc; rewrite (IH2 c Hc); auto).
    destruct l; try discriminate Hv; inv_step Hs; unfold table_ok; gcs 0;
      (split; [assumption|]); intros c1 Hc1;
      try (destruct (Nat.eq_dec c1 c); [subst c1; destruct (Hreg c Hc1) as (?&?&?); congruence|]);
      gcs 0; auto.
Qed.

Ltac split_conn c0 c :=
  destruct (Nat.eq_dec c0 c) as [->|?].

Ltac prj := cbn [c_a c_r c_reg c_peer c_lim c_conn c_pend with_a with_r with_reg with_maps info_of] in *.

(* IH : conn_inv c o k (k with concrete or variable components); goal: conn_inv c o' k' *)
Ltac fin_conn kcn kpd :=
  match goal with
  | IH : conn_inv ?c ?o _ |- conn_inv ?c _ _ =>
      let Hc := fresh "Hc" in let Hp := fresh "Hp" in
      destruct IH as [Hc Hp]; destruct Hc; prj;
      repeat match goal with
             | x : apc |- _ => destruct x
             | x : rpc |- _ => destruct x
             end;
      try destruct kcn; try destruct kpd;
      try discriminate Hp;
      (split; [ constructor; prj; cnts; mi; try assumption; try (cbn in *; congruence); try (cbn in *; lia)
              | try assumption; try reflexivity ])
  end.

Lemma conn_inv_all cap o s : exec cap o s -> forall c, conn_inv c o (gc s c).
Proof.
  induction 1 as [|o s l s' He IH Hs Hv|o s l s' He IH Hs Hv]; intros c0.
  - apply conn0_inv.
  - pose proof (table_inv _ _ _ He) as [Ht1 Ht2]. specialize (IH c0).
    destruct l; try discriminate Hv; inv_step Hs; gcs 0;
      try (split_conn c0 c; gcs 0;
           [ destruct (get conn0 c (conns s)) as [kp kl kg ka kr kcn kpd] eqn:Ek; prj; subst | ]);
      try solve [fin_conn kcn kpd].
    + (* Reg, the new conn *)
      apply Nat.eqb_eq in Heqb. subst c.
      rewrite (Ht2 (nconns s)) in Ek by lia. injection Ek as <- <- <- <- <- <- <-.
      destruct IH as [[] Hp]. split; [constructor; prj; cnts; auto|reflexivity].
      cbn [minfo]. rewrite Nat.eqb_refl. reflexivity.
    + (* Unreg *)
      destruct IH as [[] Hp]. prj. split; [constructor; prj; cnts; auto|].
      * cbn in *. congruence.
      * cbn [minfo]. rewrite Nat.eqb_refl, co_info0. reflexivity.
      * cbn in *. destruct ka, kr, kcn, kpd; try discriminate; reflexivity.
  - specialize (IH c0).
    destruct l; try discriminate Hv; inv_step Hs; gcs 0;
      try (split_conn c0 c; gcs 0;
           [ destruct (get conn0 c (conns s)) as [kp kl kg ka kr kcn kpd] eqn:Ek; prj; subst | ]);
      try assumption;
      try solve [fin_conn kcn kpd].
Qed.

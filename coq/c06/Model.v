(* C06 — executable LTS model of p2p/net/swarm/connection_events_emitter.go
   (plus the part of the swarm that feeds it: a connection is registered in
   Swarm.conns.m before AddConn is called, and removed from it before
   RemoveConn is called — swarm.go addConn / swarm_conn.go doClose).

   NO proofs in this file.

   One step of the LTS = one atomic action of the code:
     - a mutex-protected section (closeMu section of AddConn/RemoveConn/Close,
       notifsLk section of AddConn/RemoveConn),
     - a channel send / receive on peerConnectednessCh (capacity [cap]),
     - the begin or the end of an onConnected / onDisconnected callback,
     - the run loop's call of connectedness(p) (with the update of
       lastConnectednessEvent, which only the run loop touches) and its
       call of emitter.Emit,
     - wg.Done / wg.Wait / cancel / loopWG.Wait of Close,
     - call and return of AddConn / RemoveConn / Close.
   Threads: one AddConn thread and one RemoveConn thread per connection, the
   run loop, one Close thread, and the environment (Reg / Unreg = the swarm
   adding the conn to / removing it from conns.m).  A schedule is a list of
   labels; [step] is deterministic given the label, all non-determinism is in
   the choice of the next label (= which thread moves). *)
From Coq Require Import List Arith Bool.
Import ListNotations.

(* ---- finite maps nat -> A as association lists (replace-or-append) ------- *)
Section Maps.
  Context {A : Type}.
  Fixpoint get (d : A) (k : nat) (m : list (nat * A)) : A :=
    match m with
    | [] => d
    | (k', v) :: r => if Nat.eqb k k' then v else get d k r
    end.
  Fixpoint set (k : nat) (v : A) (m : list (nat * A)) : list (nat * A) :=
    match m with
    | [] => [(k, v)]
    | (k', v') :: r => if Nat.eqb k k' then (k, v) :: r else (k', v') :: set k v r
    end.
End Maps.

(* network.Connectedness (the three values the swarm produces) *)
Inductive cst := NotConnected | Connected | Limited.
Definition cst_eqb (a b : cst) : bool :=
  match a, b with
  | NotConnected, NotConnected | Connected, Connected | Limited, Limited => true
  | _, _ => false
  end.

(* registration of a conn in Swarm.conns.m *)
Inductive regst := RNone | ROpen | RGone.

(* program counter of the AddConn thread of one conn.  The suffix D / C
   remembers the local variable dispatchDisconnect (D = true: the parked
   disconnect is fired by AddConn; C = false: the conn was put into
   [connected]). *)
Inductive apc :=
| A0          (* AddConn not called yet *)
| AChkP       (* called; before the closeMu section *)
| ASkipRetP   (* emitter was closed: about to return without doing anything *)
| ASkipDone
| AEnqP       (* wg.Add(1) done; about to send the add event *)
| ACbP        (* event sent; about to call onConnected *)
| AInCb       (* inside onConnected *)
| ALockP      (* onConnected returned; before the notifsLk section *)
| ADiscP      (* dispatchDisconnect = true; about to call onDisconnected *)
| AInDisc     (* inside onDisconnected (called from AddConn) *)
| AFinD | AFinC   (* before the deferred wg.Done *)
| ARetD | ARetC   (* wg.Done done; return pending *)
| ADoneD | ADoneC.

(* program counter of the RemoveConn thread.  D: it fires onDisconnected
   itself; P: it parked the conn in pendingDisconnect. *)
Inductive rpc :=
| R0 | RChkP | RSkipRetP | RSkipDone
| REnqP       (* wg.Add(1) done; about to send the remove event *)
| RLockP      (* before the notifsLk section *)
| RDiscP | RInDisc
| RFinD | RFinP
| RRetD | RRetP
| RDoneD | RDoneP.

Inductive cpc := C0 | CSetP | CWaitP | CCancelP | CJoinP | CRetP | CDone.

Record conn := mkConn {
  c_peer : nat; c_lim : bool; c_reg : regst;
  c_a : apc; c_r : rpc;
  c_conn : bool;     (* conn in e.connected *)
  c_pend : bool      (* conn in e.pendingDisconnect *)
}.
Definition conn0 : conn := mkConn 0 false RNone A0 R0 false false.

(* an element of peerConnectednessCh: PeerID, Type (true = addConnEvent) and,
   as a ghost that no step reads for its decisions, the conn that sent it *)
Record ev := mkEv { e_peer : nat; e_add : bool; e_conn : nat }.

Inductive lpc :=
| LIdle                       (* in select *)
| LGot (e : ev)               (* received e; before connectedness(p) *)
| LPub (p : nat) (s : cst) (forced : option nat)
                              (* decided to emit; before emitter.Emit.  forced = the ghost conn
                                 of the add event when the emit is the forced NotConnected *)
| LExited.

Record state := mkState {
  conns : list (nat * conn);
  nconns : nat;               (* conns are numbered 0..nconns-1 in order of registration *)
  closed : bool;
  wg : nat;
  close_pc : cpc;
  cancelled : bool;           (* loop ctx cancelled *)
  queue : list ev;
  loop : lpc;
  drain : bool;               (* run loop is in the inner (draining) select *)
  last : list (nat * cst)     (* lastConnectednessEvent; absent = NotConnected *)
}.

Definition init : state := mkState [] 0 false 0 C0 false [] LIdle false [].

Definition gc (s : state) (c : nat) : conn := get conn0 c (conns s).

Definition set_conn (s : state) (c : nat) (k : conn) : state :=
  mkState (set c k (conns s)) (nconns s) (closed s) (wg s) (close_pc s) (cancelled s)
          (queue s) (loop s) (drain s) (last s).
Definition set_wg (s : state) (n : nat) : state :=
  mkState (conns s) (nconns s) (closed s) n (close_pc s) (cancelled s)
          (queue s) (loop s) (drain s) (last s).
Definition set_queue (s : state) (q : list ev) : state :=
  mkState (conns s) (nconns s) (closed s) (wg s) (close_pc s) (cancelled s)
          q (loop s) (drain s) (last s).
Definition set_loop (s : state) (l : lpc) : state :=
  mkState (conns s) (nconns s) (closed s) (wg s) (close_pc s) (cancelled s)
          (queue s) l (drain s) (last s).
Definition set_cpc (s : state) (c : cpc) : state :=
  mkState (conns s) (nconns s) (closed s) (wg s) c (cancelled s)
          (queue s) (loop s) (drain s) (last s).

Definition with_a (k : conn) (a : apc) : conn :=
  mkConn (c_peer k) (c_lim k) (c_reg k) a (c_r k) (c_conn k) (c_pend k).
Definition with_r (k : conn) (r : rpc) : conn :=
  mkConn (c_peer k) (c_lim k) (c_reg k) (c_a k) r (c_conn k) (c_pend k).
Definition with_reg (k : conn) (g : regst) : conn :=
  mkConn (c_peer k) (c_lim k) g (c_a k) (c_r k) (c_conn k) (c_pend k).
Definition with_maps (k : conn) (cn pd : bool) : conn :=
  mkConn (c_peer k) (c_lim k) (c_reg k) (c_a k) (c_r k) cn pd.

(* ---- connectedness (swarm.go connectednessUnlocked) ----------------------
   info c = (peer, limited, registration) of conn c; n = number of conns *)
Definition cinfo := (nat * bool * regst)%type.
Definition is_open (g : regst) : bool := match g with ROpen => true | _ => false end.
Definition open_to (p : nat) (lim : bool) (i : cinfo) : bool :=
  let '(p', l', g) := i in Nat.eqb p' p && Bool.eqb l' lim && is_open g.
Definition connectedness_of (n : nat) (info : nat -> cinfo) (p : nat) : cst :=
  if existsb (fun c => open_to p false (info c)) (seq 0 n) then Connected
  else if existsb (fun c => open_to p true (info c)) (seq 0 n) then Limited
  else NotConnected.

Definition info_of (k : conn) : cinfo := (c_peer k, c_lim k, c_reg k).
Definition connectedness (s : state) (p : nat) : cst :=
  connectedness_of (nconns s) (fun c => info_of (gc s c)) p.

(* ---- labels ----------------------------------------------------------- *)
Inductive label :=
(* visible: recorded by the harness *)
| Reg (c p : nat) (lim : bool) | Unreg (c : nat)
| AddCall (c : nat) | AddRet (c : nat) | RemCall (c : nat) | RemRet (c : nat)
| CloseCall | CloseRet
| ConnB (c : nat) | ConnE (c : nat) | DiscB (c : nat) | DiscE (c : nat)
| Read (p : nat) (s : cst) | Pub (p : nat) (s : cst)
| Quiesce
(* internal *)
| AChk (c : nat) | AEnq (c : nat) | ALock (c : nat) | AFin (c : nat)
| RChk (c : nat) | REnq (c : nat) | RLock (c : nat) | RFin (c : nat)
| CSet | CWaited | CCancel | CJoined
| LDeq | LDrain | LExit.

Definition vis (l : label) : bool :=
  match l with
  | Reg _ _ _ | Unreg _ | AddCall _ | AddRet _ | RemCall _ | RemRet _
  | CloseCall | CloseRet | ConnB _ | ConnE _ | DiscB _ | DiscE _
  | Read _ _ | Pub _ _ | Quiesce => true
  | _ => false
  end.

(* all threads of conn k are finished (or, for RemoveConn of a still-open
   conn, not started) *)
Definition a_done (a : apc) : bool :=
  match a with ASkipDone | ADoneD | ADoneC => true | _ => false end.
Definition r_done (r : rpc) : bool :=
  match r with RSkipDone | RDoneD | RDoneP => true | _ => false end.
Definition conn_quiet (k : conn) : bool :=
  match c_reg k with
  | RNone => true
  | ROpen => a_done (c_a k) && match c_r k with R0 => true | _ => false end
  | RGone => a_done (c_a k) && r_done (c_r k)
  end.
Definition quiescent (s : state) : bool :=
  forallb (fun c => conn_quiet (gc s c)) (seq 0 (nconns s)) &&
  match queue s with [] => true | _ => false end &&
  match loop s with LIdle | LExited => true | _ => false end &&
  match close_pc s with C0 | CDone => true | _ => false end.

Definition upd_a (s : state) (c : nat) (a : apc) : state := set_conn s c (with_a (gc s c) a).
Definition upd_r (s : state) (c : nat) (r : rpc) : state := set_conn s c (with_r (gc s c) r).

Definition step (cap : nat) (s : state) (l : label) : option state :=
  match l with
  (* ---- environment: Swarm.conns.m ---- *)
  | Reg c p lim =>
      if Nat.eqb c (nconns s) then
        Some (mkState (set c (mkConn p lim ROpen A0 R0 false false) (conns s)) (S (nconns s))
                      (closed s) (wg s) (close_pc s) (cancelled s) (queue s) (loop s) (drain s) (last s))
      else None
  | Unreg c =>
      match c_reg (gc s c) with
      | ROpen => Some (set_conn s c (with_reg (gc s c) RGone))
      | _ => None
      end
  (* ---- AddConn(c) ---- *)
  | AddCall c =>
      match c_reg (gc s c), c_a (gc s c) with
      | RNone, _ => None
      | _, A0 => Some (upd_a s c AChkP)
      | _, _ => None
      end
  | AChk c =>
      match c_a (gc s c) with
      | AChkP => if closed s then Some (upd_a s c ASkipRetP)
                 else Some (set_wg (upd_a s c AEnqP) (S (wg s)))
      | _ => None
      end
  | AEnq c =>
      match c_a (gc s c) with
      | AEnqP => if Nat.ltb (length (queue s)) cap
                 then Some (set_queue (upd_a s c ACbP) (queue s ++ [mkEv (c_peer (gc s c)) true c]))
                 else None
      | _ => None
      end
  | ConnB c => match c_a (gc s c) with ACbP => Some (upd_a s c AInCb) | _ => None end
  | ConnE c => match c_a (gc s c) with AInCb => Some (upd_a s c ALockP) | _ => None end
  | ALock c =>
      match c_a (gc s c) with
      | ALockP =>
          let k := gc s c in
          if c_pend k then Some (set_conn s c (with_a (with_maps k (c_conn k) false) ADiscP))
          else Some (set_conn s c (with_a (with_maps k true (c_pend k)) AFinC))
      | _ => None
      end
  | DiscB c =>
      match c_a (gc s c), c_r (gc s c) with
      | ADiscP, _ => Some (upd_a s c AInDisc)
      | _, RDiscP => Some (upd_r s c RInDisc)
      | _, _ => None
      end
  | DiscE c =>
      match c_a (gc s c), c_r (gc s c) with
      | AInDisc, _ => Some (upd_a s c AFinD)
      | _, RInDisc => Some (upd_r s c RFinD)
      | _, _ => None
      end
  | AFin c =>
      match c_a (gc s c) with
      | AFinD => Some (set_wg (upd_a s c ARetD) (pred (wg s)))
      | AFinC => Some (set_wg (upd_a s c ARetC) (pred (wg s)))
      | _ => None
      end
  | AddRet c =>
      match c_a (gc s c) with
      | ASkipRetP => Some (upd_a s c ASkipDone)
      | ARetD => Some (upd_a s c ADoneD)
      | ARetC => Some (upd_a s c ADoneC)
      | _ => None
      end
  (* ---- RemoveConn(c) ---- *)
  | RemCall c =>
      match c_reg (gc s c), c_r (gc s c) with
      | RGone, R0 => Some (upd_r s c RChkP)
      | _, _ => None
      end
  | RChk c =>
      match c_r (gc s c) with
      | RChkP => if closed s then Some (upd_r s c RSkipRetP)
                 else Some (set_wg (upd_r s c REnqP) (S (wg s)))
      | _ => None
      end
  | REnq c =>
      match c_r (gc s c) with
      | REnqP => if Nat.ltb (length (queue s)) cap
                 then Some (set_queue (upd_r s c RLockP) (queue s ++ [mkEv (c_peer (gc s c)) false c]))
                 else None
      | _ => None
      end
  | RLock c =>
      match c_r (gc s c) with
      | RLockP =>
          let k := gc s c in
          if c_conn k then Some (set_conn s c (with_r (with_maps k false (c_pend k)) RDiscP))
          else Some (set_conn s c (with_r (with_maps k (c_conn k) true) RFinP))
      | _ => None
      end
  | RFin c =>
      match c_r (gc s c) with
      | RFinD => Some (set_wg (upd_r s c RRetD) (pred (wg s)))
      | RFinP => Some (set_wg (upd_r s c RRetP) (pred (wg s)))
      | _ => None
      end
  | RemRet c =>
      match c_r (gc s c) with
      | RSkipRetP => Some (upd_r s c RSkipDone)
      | RRetD => Some (upd_r s c RDoneD)
      | RRetP => Some (upd_r s c RDoneP)
      | _ => None
      end
  (* ---- Close ---- *)
  | CloseCall => match close_pc s with C0 => Some (set_cpc s CSetP) | _ => None end
  | CSet =>
      match close_pc s with
      | CSetP => Some (mkState (conns s) (nconns s) true (wg s) CWaitP (cancelled s)
                               (queue s) (loop s) (drain s) (last s))
      | _ => None
      end
  | CWaited =>
      match close_pc s, wg s with
      | CWaitP, O => Some (set_cpc s CCancelP)
      | _, _ => None
      end
  | CCancel =>
      match close_pc s with
      | CCancelP => Some (mkState (conns s) (nconns s) (closed s) (wg s) CJoinP true
                                  (queue s) (loop s) (drain s) (last s))
      | _ => None
      end
  | CJoined =>
      match close_pc s, loop s with
      | CJoinP, LExited => Some (set_cpc s CRetP)
      | _, _ => None
      end
  | CloseRet => match close_pc s with CRetP => Some (set_cpc s CDone) | _ => None end
  (* ---- run loop ---- *)
  | LDeq =>
      match loop s, queue s with
      | LIdle, e :: q => Some (set_loop (set_queue s q) (LGot e))
      | _, _ => None
      end
  | LDrain =>
      match loop s with
      | LIdle => if cancelled s && negb (drain s)
                 then Some (mkState (conns s) (nconns s) (closed s) (wg s) (close_pc s) (cancelled s)
                                    (queue s) (loop s) true (last s))
                 else None
      | _ => None
      end
  | LExit =>
      match loop s, queue s with
      | LIdle, [] => if drain s then Some (set_loop s LExited) else None
      | _, _ => None
      end
  | Read p st =>
      match loop s with
      | LGot e =>
          if Nat.eqb p (e_peer e) && cst_eqb st (connectedness s p) then
            let old := get NotConnected p (last s) in
            let force := e_add e && cst_eqb st NotConnected in
            let nl := if negb (cst_eqb st old) then LPub p st (if force then Some (e_conn e) else None)
                      else if force then LPub p st (Some (e_conn e))
                      else LIdle in
            Some (mkState (conns s) (nconns s) (closed s) (wg s) (close_pc s) (cancelled s)
                          (queue s) nl (drain s) (set p st (last s)))
          else None
      | _ => None
      end
  | Pub p st =>
      match loop s with
      | LPub p' st' _ => if Nat.eqb p p' && cst_eqb st st' then Some (set_loop s LIdle) else None
      | _ => None
      end
  | Quiesce => if quiescent s then Some s else None
  end.

(* run a schedule (chronological list of labels) *)
Fixpoint run (cap : nat) (s : state) (ls : list label) : option state :=
  match ls with
  | [] => Some s
  | l :: r => match step cap s l with Some s' => run cap s' r | None => None end
  end.

(* the internal labels that can possibly be enabled in s *)
Definition tau_candidates (s : state) : list label :=
  flat_map (fun c => [AChk c; AEnq c; ALock c; AFin c; RChk c; REnq c; RLock c; RFin c])
           (seq 0 (nconns s))
  ++ [CSet; CWaited; CCancel; CJoined; LDeq; LDrain; LExit].

(* C06 — swarm-level proofs, part 8: the clauses judged at quiescence. *)
From Coq Require Import List Arith Bool Lia.
From Verif Require Import c06.Model c06.Spec c06.SpecSw c06.SwModel c06.Proofs_base c06.Proofs_close c06.Proofs_loop
  c06.Proofs_truth c06.Proofs_truth2 c06.Proofs_main c06.SwProofs_base c06.SwProofs_rel c06.SwProofs_glob
  c06.SwProofs_skip c06.SwProofs_hist c06.SwProofs_open c06.SwProofs_main.
Import ListNotations.

Lemma connectedness_open_ext n f g p :
  (forall c lim, c < n -> open_to p lim (f c) = open_to p lim (g c)) ->
  connectedness_of n f p = connectedness_of n g p.
Proof.
  intros H. unfold connectedness_of.
  rewrite (existsb_ext_all (fun c => open_to p false (f c)) (fun c => open_to p false (g c))),
          (existsb_ext_all (fun c => open_to p true (f c)) (fun c => open_to p true (g c))); auto;
    intros x Hx; apply in_seq in Hx; apply H; lia.
Qed.
Lemma connectedness_more n m f p : n <= m ->
  (forall c lim, n <= c -> open_to p lim (f c) = false) ->
  connectedness_of m f p = connectedness_of n f p.
Proof.
  intros Hnm H. induction Hnm as [|m Hnm IH]; [reflexivity|].
  rewrite <- IH. unfold connectedness_of. rewrite seq_S, !existsb_app. cbn [existsb plus].
  rewrite !(H m) by lia. rewrite !orb_false_r. reflexivity.
Qed.
Lemma no_open_notconnected n f p : (forall c, snd (f c) <> ROpen) -> connectedness_of n f p = NotConnected.
Proof.
  intros H. unfold connectedness_of.
  assert (E : forall lim, existsb (fun c => open_to p lim (f c)) (seq 0 n) = false).
  { intros lim. apply not_true_is_false. intros X. apply existsb_exists in X. destruct X as (c & _ & X).
    specialize (H c). destruct (f c) as [[pf lf] gf]. cbn in *. destruct gf; try (rewrite andb_false_r in X; discriminate). congruence. }
  rewrite !E. reflexivity.
Qed.

Record sq_facts (ss : sstate) : Prop := {
  q_queue : queue (base ss) = [];
  q_loop : loop (base ss) = LIdle \/ loop (base ss) = LExited;
  q_x : x_pc ss = X0 \/ x_pc ss = XDone;
  q_conn : forall c, sconn_quiet (sg ss c) = true
}.
Lemma squiet cap vo bo ss : sexec cap vo bo ss -> squiescent ss = true -> sq_facts ss.
Proof.
  intros He H. unfold squiescent in H.
  apply andb_prop in H as [H H4]. apply andb_prop in H as [H H3]. apply andb_prop in H as [H1 H2].
  constructor.
  - destruct (queue (base ss)); [reflexivity|discriminate].
  - destruct (loop (base ss)); try discriminate; auto.
  - destruct (x_pc ss); try discriminate; auto.
  - intros c. destruct (Nat.lt_ge_cases c (nsw ss)) as [Hc|Hc].
    + rewrite forallb_forall in H1. apply H1. apply in_seq. lia.
    + destruct (stab_inv _ _ _ _ He) as [_ T]. rewrite (T c Hc). reflexivity.
Qed.

(* at quiescence nothing is pending for any peer *)
Lemma squiet_not_pending cap vo bo ss p : sexec cap vo bo ss -> squiescent ss = true -> ~ pending (base ss) p.
Proof.
  intros He Hq Hp. destruct (squiet _ _ _ _ He Hq) as [Q1 Q2 Q3 Q4].
  destruct Hp as [e Hi _|e Hl _|c Hlt _ Hs].
  - rewrite Q1 in Hi. destruct Hi.
  - destruct Q2 as [Q2|Q2]; rewrite Q2 in Hl; discriminate.
  - pose proof (rel_all _ _ _ _ He c) as [R1 R2 _ _ _ _]. specialize (Q4 c).
    pose proof (proj1 (reg_lt _ _ _ (sexec_exec _ _ _ _ He) c) Hlt) as RL.
    pose proof (open_inv _ _ _ _ He c) as O. unfold open_ok in O.
    unfold sconn_quiet, rel_sa, rel_dr, srcb in *.
    destruct (s_pc (sg ss c)) eqn:Es, (d_pc (sg ss c)) eqn:Ed; try discriminate Q4;
      destruct (c_reg (gc (base ss) c)); try congruence; cbn in R1, R2, O;
      destruct (c_a (gc (base ss) c)); try discriminate R1; destruct (c_r (gc (base ss) c)); try discriminate R2;
      cbn in Hs; try discriminate Hs.
    all: destruct Q3 as [Q3|Q3]; rewrite Q3 in O; cbn in O; try discriminate O.
    all: destruct (glob_inv _ _ _ _ He) as [G1 _ _ _ G5 _ _ _]; rewrite Q3 in G1; specialize (G5 G1 c).
    all: try (destruct (all_done _ _ _ _ c He) as [A B]; [rewrite Q3; reflexivity|assumption|]; congruence).
Qed.

Lemma squiet_lastpub cap vo bo ss p : sexec cap vo bo ss -> squiescent ss = true ->
  vlastpub p vo = connectedness (base ss) p.
Proof.
  intros He Hq. destruct (proj_inv _ _ _ _ He) as [_ _ _ _ J5]. rewrite J5.
  destruct (T2_all _ _ _ _ He p) as [E|E]; [|exfalso; eapply squiet_not_pending; eauto].
  rewrite <- E. pose proof (loop_inv _ _ _ (sexec_exec _ _ _ _ He)) as L. unfold loop_ok in L.
  destruct (squiet _ _ _ _ He Hq) as [_ Q2 _ _]. destruct Q2 as [Q2|Q2]; rewrite Q2 in L; symmetry; apply L.
Qed.

(* at quiescence before any Swarm.Close: what the observer can tell about a conn being open is the conn table *)
Lemma vopen_agree cap vo bo ss c : sexec cap vo bo ss -> squiescent ss = true -> x_pc ss = X0 ->
  vopen vo c = is_open (c_reg (gc (base ss) c)) /\
  (vopen vo c = true -> vparams vo c = (c_peer (gc (base ss) c), c_lim (gc (base ss) c))).
Proof.
  intros He Hq Hx. destruct (squiet _ _ _ _ He Hq) as [_ _ _ Q4]. specialize (Q4 c).
  pose proof (rel_all _ _ _ _ He c) as [R1 R2 R3 R4 R5 R6].
  destruct (hist_all _ _ _ _ He c) as [H1 H2 H3 H4 H5 H6 H7 H8].
  pose proof (open_inv _ _ _ _ He c) as O. unfold open_ok in O. rewrite Hx in O.
  unfold vopen. unfold sconn_quiet, rel_sa, rel_dr in *.
  destruct (s_pc (sg ss c)) eqn:Es, (d_pc (sg ss c)) eqn:Ed; try discriminate Q4; cbn in *.
  - (* never called *) destruct (s_ret (sg ss c)); try discriminate R5.
    rewrite (nvmem_of_cnt _ _ H3). destruct (c_reg (gc (base ss) c)); try discriminate R1. split; [reflexivity|discriminate].
  - (* rejected *) destruct (s_ret (sg ss c)); try discriminate R5.
    rewrite (nvmem_of_cnt _ _ H3). destruct (c_reg (gc (base ss) c)); try discriminate R1. split; [reflexivity|discriminate].
  - (* open *) rewrite Q4 in H3. rewrite (vmem_of_cnt _ _ 0 H3), (nvmem_of_cnt _ _ H5).
    destruct (c_reg (gc (base ss) c)); try discriminate O. split; [reflexivity|]. intros _.
    rewrite (H2 eq_refl). destruct (R6 eq_refl) as [-> ->]. reflexivity.
  - (* closed and finished *) rewrite (vmem_of_cnt _ _ 0 H5). rewrite andb_false_r.
    destruct (c_reg (gc (base ss) c)); cbn in R2; rewrite ?andb_false_r in R2; try discriminate R2; split; auto; discriminate.
Qed.

Lemma vactual_agree cap vo bo ss p : sexec cap vo bo ss -> squiescent ss = true -> x_pc ss = X0 ->
  vactual vo p = connectedness (base ss) p.
Proof.
  intros He Hq Hx. unfold vactual, connectedness.
  destruct (stab_inv _ _ _ _ He) as [T1 _]. destruct (glob_inv _ _ _ _ He) as [_ _ _ _ _ G6 _ _].
  rewrite <- T1.
  rewrite <- (connectedness_more (nconns (base ss)) (nsw ss) (fun c => info_of (gc (base ss) c)) p G6).
  - apply connectedness_open_ext. intros c lim _.
    destruct (vopen_agree _ _ _ _ c He Hq Hx) as [E1 E2]. unfold vinfo, info_of.
    destruct (vopen vo c) eqn:Ev.
    + rewrite (E2 eq_refl). symmetry in E1. destruct (c_reg (gc (base ss) c)); try discriminate E1. reflexivity.
    + destruct (vparams vo c) as [pp ll]. symmetry in E1. unfold open_to.
      destruct (c_reg (gc (base ss) c)); try discriminate E1; cbn; rewrite !andb_false_r; reflexivity.
  - intros c lim Hc. destruct (table_inv _ _ _ (sexec_exec _ _ _ _ He)) as [_ T]. rewrite (T c Hc). cbn.
    rewrite andb_false_r. reflexivity.
Qed.

Lemma closed_notconnected cap vo bo ss p : sexec cap vo bo ss -> x_pc ss = XDone ->
  connectedness (base ss) p = NotConnected /\ forall c, is_open (c_reg (gc (base ss) c)) = false.
Proof.
  intros He Hx. destruct (glob_inv _ _ _ _ He) as [G1 _ _ _ G5 _ _ _]. rewrite Hx in G1. specialize (G5 G1).
  split; [|exact G5]. apply no_open_notconnected. intros c. specialize (G5 c). cbn.
  destruct (c_reg (gc (base ss) c)); try discriminate; congruence.
Qed.

Lemma x_of_history cap vo bo ss : sexec cap vo bo ss ->
  vmem VCloseRet vo = (match x_pc ss with XDone => true | _ => false end) /\
  vmem VCloseCall vo = (match x_pc ss with X0 => false | _ => true end).
Proof.
  intros He. destruct (glob_inv _ _ _ _ He) as [_ G2 G3 _ _ _ _ _]. split.
  - destruct (x_pc ss); first [apply (vmem_of_cnt _ _ 0 G3) | apply (nvmem_of_cnt _ _ G3)].
  - destruct (x_pc ss); first [apply (vmem_of_cnt _ _ 0 G2) | apply (nvmem_of_cnt _ _ G2)].
Qed.

Lemma vcheck_obs cap vo bo ss e ss' v : sexec cap vo bo ss -> sstep cap ss (XS e) = Some ss' ->
  svis (XS e) = Some v -> (exists p s, e = SObsConn p s) \/ (exists c b, e = SObsListed c b) -> vcheck v vo = [].
Proof.
  intros He Hs Hv Hk. destruct (x_of_history _ _ _ _ He) as [X1 X2].
  destruct Hk as [(p & s & ->)|(c & b & ->)]; injection Hv as <-; inv_sstep Hs; unfold vcheck; rewrite X1, X2;
    match goal with H : squiescent ss && _ = true |- _ => apply andb_prop in H as [Hq Hg] end; destruct (squiet _ _ _ _ He Hq) as [_ _ Q3 _]; destruct Q3 as [Q3|Q3]; rewrite Q3.
  - apply cst_eqb_eq in Hg. rewrite Hg, (vactual_agree _ _ _ _ p He Hq Q3).
    assert (E : cst_eqb (connectedness (base ss) p) (connectedness (base ss) p) = true) by (apply cst_eqb_eq; reflexivity).
    rewrite E. reflexivity.
  - apply cst_eqb_eq in Hg. destruct (closed_notconnected _ _ _ _ p He Q3) as [E _]. rewrite Hg, E. reflexivity.
  - apply eqb_prop in Hg. destruct (vopen_agree _ _ _ _ c He Hq Q3) as [E _]. rewrite Hg, E, eqb_reflx. reflexivity.
  - apply eqb_prop in Hg. destruct (closed_notconnected _ _ _ _ 0 He Q3) as [_ E]. rewrite Hg, E. reflexivity.
Qed.

Lemma vcheck_quiesce cap vo bo ss ss' : sexec cap vo bo ss -> sstep cap ss (XS SQuiesce) = Some ss' ->
  vcheck VQuiesce vo = [].
Proof.
  intros He Hs. inv_sstep Hs. match goal with H : squiescent ss = true |- _ => rename H into Hq end. destruct (x_of_history _ _ _ _ He) as [X1 X2].
  unfold vcheck. rewrite X1, X2. destruct (squiet _ _ _ _ He Hq) as [_ _ Q3 Q4]. destruct Q3 as [Q3|Q3]; rewrite Q3.
  - assert (E1 : forallb (fun p => cst_eqb (vlastpub p vo) (vactual vo p)) (vpeers vo) = true).
    { apply forallb_forall. intros p _. apply cst_eqb_eq.
      rewrite (squiet_lastpub _ _ _ _ p He Hq), (vactual_agree _ _ _ _ p He Hq Q3). reflexivity. }
    assert (E2 : vall vo (fun c => negb (vmem (VConnE c) vo && vmem (VTCloseE c) vo) || Nat.eqb (vcnt (VDiscE c) vo) 1) = true).
    { unfold vall. apply forallb_forall. intros c _.
      destruct (vmem (VConnE c) vo) eqn:M1; [|reflexivity]. destruct (vmem (VTCloseE c) vo) eqn:M2; [|reflexivity].
      cbn [andb negb orb]. apply vmem_true, vcnt_pos_in in M1, M2.
      destruct (proj_inv _ _ _ _ He) as [_ J2 _ J4 _]. rewrite J4. rewrite J2 in M1.
      destruct (hist_all _ _ _ _ He c) as [_ _ _ _ _ H6 _ _]. rewrite H6 in M2. specialize (Q4 c).
      unfold sconn_quiet in Q4.
      destruct (s_pc (sg ss c)) eqn:Es, (d_pc (sg ss c)) eqn:Ed; try discriminate Q4; cbn in M2; try lia.
      - (* rejected: never announced *)
        pose proof (rel_all _ _ _ _ He c) as [R1 _ _ _ _ _]. rewrite Es in R1. cbn in R1.
        destruct (conn_inv_all _ _ _ (sexec_exec _ _ _ _ He) c) as [[] P]. rewrite co_conne in M1.
        unfold proto_ok in P. destruct (c_reg (gc (base ss) c)); try discriminate R1.
        destruct (c_a (gc (base ss) c)); try (rewrite ?andb_false_r in P; discriminate P). cbn in M1. lia.
      - destruct (done_counts _ _ _ _ c He Es Ed) as (_ & _ & _ & ->). reflexivity. }
    rewrite E1, E2. reflexivity.
  - assert (E1 : forallb (fun p => cst_eqb (vlastpub p vo) NotConnected) (vpeers vo) = true).
    { apply forallb_forall. intros p _. apply cst_eqb_eq.
      rewrite (squiet_lastpub _ _ _ _ p He Hq). apply (closed_notconnected _ _ _ _ p He Q3). }
    rewrite E1. reflexivity.
Qed.

(* ---- the swarm-level monitor accepts every swarm-level execution ---------------- *)
Lemma vcheck_ok cap vo bo ss x ss' v : sexec cap vo bo ss -> sstep cap ss x = Some ss' -> svis x = Some v ->
  vcheck v vo = [].
Proof.
  intros He Hs Hv. destruct x as [l|e].
  - destruct l; try discriminate Hv;
      try (eapply vcheck_callbacks; [exact He|exact Hs|exact Hv|intros; congruence]).
    injection Hv as <-. eapply vcheck_pub; eauto.
  - destruct e; try discriminate Hv; try (injection Hv as <-; reflexivity).
    + injection Hv as <-. eapply vcheck_addret; eauto.
    + injection Hv as <-. eapply vcheck_accept; eauto.
    + injection Hv as <-. eapply vcheck_closeret; eauto.
    + eapply vcheck_obs; eauto.
    + eapply vcheck_obs; eauto.
    + injection Hv as <-. eapply vcheck_quiesce; eauto.
    + injection Hv as <-. eapply vcheck_close2ret; eauto.
Qed.

Lemma vholds_sexec cap vo bo ss : sexec cap vo bo ss -> vholds_from vo = [].
Proof.
  induction 1 as [|vo bo ss x ss' He IH Hs]; [reflexivity|].
  unfold vpush. destruct (svis x) as [v|] eqn:Ev; [|exact IH].
  cbn [vholds_from]. rewrite IH, (vcheck_ok _ _ _ _ _ _ _ He Hs Ev). reflexivity.
Qed.

Lemma vholds_srun cap xs ss : srun cap sinit xs = Some ss -> vholds_from (vobs xs) = [].
Proof. intros H. eapply vholds_sexec. apply srun_sexec. exact H. Qed.

Lemma srun_refines cap xs ss : srun cap sinit xs = Some ss -> exec cap (bobs_of xs []) (base ss).
Proof. intros H. eapply sexec_exec. apply srun_sexec. exact H. Qed.

(* readable consequences *)
Lemma swarm_close_delivers cap xs ss c : srun cap sinit xs = Some ss ->
  x_pc ss = XRetP \/ x_pc ss = XDone -> c < nconns (base ss) ->
  vcnt (VConnB c) (vobs xs) = 1 /\ vcnt (VConnE c) (vobs xs) = 1 /\
  vcnt (VDiscB c) (vobs xs) = 1 /\ vcnt (VDiscE c) (vobs xs) = 1.
Proof.
  intros H Hx Hc. apply srun_sexec in H. destruct (proj_inv _ _ _ _ H) as [J1 J2 J3 J4 _].
  rewrite J1, J2, J3, J4.
  destruct (all_done _ _ _ _ c H) as [E1 E2]; [destruct Hx as [-> | ->]; reflexivity|assumption|].
  eapply done_counts; eauto.
Qed.

Lemma seen_listed_admitted cap xs ss c : srun cap sinit xs = Some ss ->
  In (VSeen c) (vobs xs) \/ In (VConnB c) (vobs xs) -> c < nconns (base ss).
Proof.
  intros H Hi. apply srun_sexec in H. destruct Hi as [Hi|Hi].
  - destruct (hist_all _ _ _ _ H c) as [_ _ _ _ _ _ H7 _]. apply (inserted_lt _ _ _ _ c H). auto.
  - destruct (Nat.lt_ge_cases c (nconns (base ss))) as [|Hge]; [assumption|exfalso].
    destruct (fresh_counts _ _ _ _ c H Hge) as (B1 & _). destruct (proj_inv _ _ _ _ H) as [J1 _ _ _ _].
    apply vcnt_pos_in in Hi. rewrite J1, B1 in Hi. lia.
Qed.

Lemma vholds_split post l pre : vholds_from (post ++ l :: pre) = [] -> vcheck l pre = [].
Proof.
  induction post as [|x post IH]; cbn [app vholds_from]; intros H.
  - destruct (vholds_from pre); [|discriminate]. destruct (vcheck l pre); [reflexivity|discriminate].
  - destruct (vholds_from (post ++ l :: pre)); [|discriminate]. apply IH. reflexivity.
Qed.

Lemma disconnected_after_transport_close_l cap xs ss c post pre : srun cap sinit xs = Some ss ->
  vobs xs = post ++ VDiscB c :: pre -> In (VTCloseE c) pre /\ In (VConnE c) pre.
Proof.
  intros H E. pose proof (vholds_srun _ _ _ H) as V. rewrite E in V. apply vholds_split in V.
  unfold vcheck in V. destruct (vmem (VTCloseE c) pre) eqn:M1.
  - destruct (Nat.eqb (vcnt (VDiscB c) pre) 0 && vmem (VConnE c) pre) eqn:M2; [|discriminate V].
    apply andb_prop in M2 as [_ M2]. split; apply vmem_true; assumption.
  - destruct (Nat.eqb (vcnt (VDiscB c) pre) 0 && vmem (VConnE c) pre); discriminate V.
Qed.

Lemma closed_swarm_final_events_l cap xs ss p : srun cap sinit xs = Some ss ->
  squiescent ss = true -> x_pc ss = XDone -> vlastpub p (vobs xs) = NotConnected.
Proof.
  intros H Hq Hx. apply srun_sexec in H. rewrite (squiet_lastpub _ _ _ _ p H Hq).
  apply (closed_notconnected _ _ _ _ p H Hx).
Qed.

Lemma open_swarm_final_events_l cap xs ss p : srun cap sinit xs = Some ss ->
  squiescent ss = true -> x_pc ss = X0 ->
  vlastpub p (vobs xs) = vactual (vobs xs) p /\ vactual (vobs xs) p = connectedness (base ss) p.
Proof.
  intros H Hq Hx. apply srun_sexec in H.
  rewrite (squiet_lastpub _ _ _ _ p H Hq), (vactual_agree _ _ _ _ p H Hq Hx). auto.
Qed.

(* ---- every Swarm.Close call: once any of them has returned the shutdown is complete ---------- *)
Definition xret (x : xpc) : bool := match x with XRetP | XDone => true | _ => false end.
Lemma xret_mono cap ss x ss' : sstep cap ss x = Some ss' -> xret (x_pc ss) = true -> xret (x_pc ss') = true.
Proof.
  intros Hs H. destruct x as [l|e]; [destruct l|destruct e]; inv_sstep Hs; cbn [x_pc set_base set_sc set_refs set_x] in *;
    try assumption; try (rewrite Heqx in H; discriminate H); try reflexivity;
    try (unfold niling in *; destruct (x_pc ss); discriminate);
    try (rewrite Heqx; reflexivity).
Qed.
Lemma close_returned_inv cap vo bo ss : sexec cap vo bo ss ->
  In VCloseRet vo \/ In VClose2Ret vo -> xret (x_pc ss) = true.
Proof.
  induction 1 as [|vo bo ss x ss' He IH Hs]; [intros [[]|[]]|].
  intros Hi. unfold vpush in Hi. destruct (svis x) as [v|] eqn:Ev.
  - assert (Hold : In VCloseRet vo \/ In VClose2Ret vo -> xret (x_pc ss') = true)
      by (intros Ho; eapply xret_mono; [exact Hs|auto]).
    destruct Hi as [[Hi|Hi]|[Hi|Hi]]; auto; subst v.
    + destruct x as [l|e]; [destruct l; discriminate Ev|destruct e; try discriminate Ev]. inv_sstep Hs. reflexivity.
    + destruct x as [l|e]; [destruct l; discriminate Ev|destruct e; try discriminate Ev]. inv_sstep Hs; cbn; rewrite Heqx; reflexivity.
  - eapply xret_mono; [exact Hs|auto].
Qed.

Lemma any_close_return_delivers cap xs ss c : srun cap sinit xs = Some ss ->
  In VCloseRet (vobs xs) \/ In VClose2Ret (vobs xs) -> c < nconns (base ss) ->
  vcnt (VConnB c) (vobs xs) = 1 /\ vcnt (VConnE c) (vobs xs) = 1 /\
  vcnt (VDiscB c) (vobs xs) = 1 /\ vcnt (VDiscE c) (vobs xs) = 1.
Proof.
  intros H Hi Hc. pose proof (close_returned_inv _ _ _ _ (srun_sexec _ _ _ H) Hi) as X.
  eapply swarm_close_delivers; eauto. destruct (x_pc ss); try discriminate X; auto.
Qed.

(* C06 — swarm-level proofs, part 2: the relation between the swarm-level
   program counters of a conn and the emitter-level ones. *)
From Coq Require Import List Arith Bool Lia.
From Verif Require Import c06.Model c06.Spec c06.SpecSw c06.SwModel c06.Proofs_base c06.Proofs_loop c06.SwProofs_base.
Import ListNotations.

Ltac inv_sstep H :=
  unfold sstep, bstep, keep in H;
  repeat match type of H with
         | context [match ?x with _ => _ end] => destruct x eqn:?; try discriminate H
         end;
  injection H as <-.

Lemma sg_set_same ss c k : sg (set_sc ss c k) c = k.
Proof. unfold sg, set_sc; cbn [sconns]. apply get_set_same. Qed.
Lemma sg_set_other ss c k c' : c' <> c -> sg (set_sc ss c k) c' = sg ss c'.
Proof. intros. unfold sg, set_sc; cbn [sconns]. apply get_set_other; auto. Qed.

Ltac sgs :=
  unfold set_sc, set_base, set_refs, set_x, sg in *;
  cbn [base sconns nsw refs nild x_pc] in *;
  repeat first [ rewrite get_set_same in * | rewrite get_set_other in * by congruence ].
Ltac sprj := cbn [s_p s_lim s_proxy s_pc s_ret d_pc s_creq w_spc w_dpc] in *.

(* the emitter-level conn c is touched only by base labels that name it *)
Definition targets (l : label) (c : nat) : bool :=
  match l with
  | Reg c' _ _ | Unreg c' | AddCall c' | AddRet c' | RemCall c' | RemRet c' | ConnB c' | ConnE c'
  | DiscB c' | DiscE c' | AChk c' | AEnq c' | ALock c' | AFin c' | RChk c' | REnq c' | RLock c' | RFin c' => Nat.eqb c c'
  | _ => false
  end.
Lemma step_other cap s l s' c : step cap s l = Some s' -> targets l c = false -> gc s' c = gc s c.
Proof.
  intros Hs Ht. destruct l; cbn [targets] in Ht; try apply Nat.eqb_neq in Ht; inv_step Hs; gcs 0; auto.
Qed.

(* the part of a base conn the swarm level cares about *)
Definition isA0 (a : apc) : bool := match a with A0 => true | _ => false end.
Definition isR0 (r : rpc) : bool := match r with R0 => true | _ => false end.
Definition isNone (g : regst) : bool := match g with RNone => true | _ => false end.
Definition isD0 (d : dpc) : bool := match d with D0 => true | _ => false end.
Definition noskipA (a : apc) : bool := match a with ASkipRetP | ASkipDone => false | _ => true end.
Definition noskipR (r : rpc) : bool := match r with RSkipRetP | RSkipDone => false | _ => true end.

Definition rel_sa (sp : spc) (g : regst) (a : apc) : bool :=
  match sp with
  | S0 | SInsP | SRejP | SRejInTC | SRejRetP | SRejDone => isNone g
  | SWinP => negb (isNone g) && isA0 a
  | SInAdd => negb (isNone g) && negb (isA0 a) && negb (a_done a)
  | _ => negb (isNone g) && a_done a
  end.
Definition rel_dr (d : dpc) (g : regst) (r : rpc) : bool :=
  match d with
  | D0 | DUnregP => isR0 r
  | DTCloseP | DInTC | DSpawnP | GRemP => isR0 r && negb (is_open g)
  | GInRem => negb (isR0 r) && negb (r_done r) && negb (is_open g)
  | GDoneP | GFin => r_done r && negb (is_open g)
  end.

Record rel (k : sconn) (b : conn) : Prop := {
  r_sa : rel_sa (s_pc k) (c_reg b) (c_a b) = true;
  r_dr : rel_dr (d_pc k) (c_reg b) (c_r b) = true;
  r_di : implb (negb (isD0 (d_pc k))) (inserted (s_pc k)) = true;
  r_cq : implb (s_creq k) (inserted (s_pc k)) = true;
  r_rt : implb (s_ret k) (started (s_pc k)) = true;
  r_pp : inserted (s_pc k) = true -> c_peer b = s_p k /\ c_lim b = s_lim k
}.

(* one emitter-level step changes (reg, a, r) of its target conn compatibly *)
Definition keeps_rel (l : label) : Prop :=
  forall cap s s' c, step cap s l = Some s' ->
    c_reg (gc s' c) = c_reg (gc s c) /\ isA0 (c_a (gc s' c)) = isA0 (c_a (gc s c)) /\
    a_done (c_a (gc s' c)) = a_done (c_a (gc s c)) /\ isR0 (c_r (gc s' c)) = isR0 (c_r (gc s c)) /\
    r_done (c_r (gc s' c)) = r_done (c_r (gc s c)) /\
    c_peer (gc s' c) = c_peer (gc s c) /\ c_lim (gc s' c) = c_lim (gc s c).

Definition free_label (l : label) : bool :=
  match l with
  | Reg _ _ _ | Unreg _ | AddCall _ | AddRet _ | RemCall _ | RemRet _ | CloseCall | CloseRet | Quiesce => false
  | _ => true
  end.

Lemma free_keeps l : free_label l = true -> keeps_rel l.
Proof.
  intros Hf cap s s' c0 Hs.
  destruct l; try discriminate Hf; inv_step Hs; gcs 0;
    try (split_conn c0 c; gcs 0; prj);
    repeat split; try reflexivity;
    try (rewrite ?Heqa, ?Heqr; reflexivity).
Qed.

Ltac rw_pc c ss E1 E2 :=
  repeat match goal with H : context [s_pc (get sconn0 c (sconns ss))] |- _ => rewrite E1 in H end;
  repeat match goal with H : context [d_pc (get sconn0 c (sconns ss))] |- _ => rewrite E2 in H end.

Definition stab_ok (vo : list vlab) (ss : sstate) : Prop :=
  nsw ss = vnconns vo /\ forall c, nsw ss <= c -> sg ss c = sconn0.
Lemma stab_inv cap vo bo ss : sexec cap vo bo ss -> stab_ok vo ss.
Proof.
  induction 1 as [|vo bo ss x ss' He IH Hs]; [split; auto|]. destruct IH as [I1 I2].
  assert (Hk : forall c, nsw ss <= c -> s_pc (sg ss c) = S0 /\ d_pc (sg ss c) = D0 /\ s_ret (sg ss c) = false)
    by (intros c Hc; rewrite (I2 c Hc); auto).
  destruct x as [l|e]; [destruct l|destruct e]; inv_sstep Hs; unfold stab_ok, vpush; cbn [svis vnconns]; sgs;
    try (split; [assumption|]; intros c1 Hc1;
         try (destruct (Nat.eq_dec c1 c) as [->|?];
              [destruct (Hk c Hc1) as (E1&E2&E3); unfold sg in *;
               try rewrite E1 in *; try rewrite E2 in *;
               cbn in *; try discriminate; try congruence|]);
         sgs; auto).
  apply Nat.eqb_eq in Heqb0. subst c. split; [congruence|]. intros c1 Hc1.
  rewrite get_set_other by lia. apply I2. lia.
Qed.

Lemma sstep_free cap ss l ss' : free_label l = true -> sstep cap ss (XB l) = Some ss' ->
  ss' = set_base ss (base ss') /\ step cap (base ss) l = Some (base ss') /\ niling ss = false.
Proof.
  intros Hf H. destruct l; try discriminate Hf; inv_sstep H; cbn [base set_base]; auto.
Qed.

Lemma rel_keep k b b' :
  c_reg b' = c_reg b -> isA0 (c_a b') = isA0 (c_a b) -> a_done (c_a b') = a_done (c_a b) ->
  isR0 (c_r b') = isR0 (c_r b) -> r_done (c_r b') = r_done (c_r b) ->
  c_peer b' = c_peer b -> c_lim b' = c_lim b -> rel k b -> rel k b'.
Proof.
  intros E1 E2 E3 E4 E5 E6 E7 []. constructor; auto.
  - unfold rel_sa in *. rewrite E1, E2, E3. assumption.
  - unfold rel_dr in *. rewrite E1, E4, E5. assumption.
  - rewrite E6, E7. assumption.
Qed.

Ltac fin_rel :=
  match goal with
  | IH : rel _ _ |- rel _ _ =>
      destruct IH as [I1 I2 I3 I4 I5 I6]; sprj; prj;
      constructor; sprj; prj; cbn [inserted started isD0] in *;
      try assumption; try reflexivity; try (intros; auto; fail); try (intros; apply I6; reflexivity)
  end.

Lemma rel_all cap vo bo ss : sexec cap vo bo ss -> forall c, rel (sg ss c) (gc (base ss) c).
Proof.
  induction 1 as [|vo bo ss x ss' He IH Hs]; intros c0.
  - constructor; cbn; auto; discriminate.
  - specialize (IH c0). destruct x as [l|e].
    + destruct (free_label l) eqn:F.
      * destruct (sstep_free _ _ _ _ F Hs) as (E & Hb & _). rewrite E.
        destruct (free_keeps l F cap _ _ c0 Hb) as (K1 & K2 & K3 & K4 & K5 & K6 & K7).
        unfold sg, set_base; cbn [sconns base]. fold (sg ss c0). eapply rel_keep; eauto.
      * destruct l; try discriminate F; inv_sstep Hs;
          match goal with Hb : step _ _ _ = Some _ |- _ => inv_step Hb end; sgs; gcs 0.
        all: try (split_conn c0 c; sgs; gcs 0).
        all: try (destruct (get sconn0 c (sconns ss)) as [kp kl kx ks kr kd kq] eqn:Ek; sprj; subst).
        all: try (destruct (get conn0 c (conns (base ss))) as [bp bl bg ba br bcn bpd] eqn:Eb; prj; subst).
        all: try solve [fin_rel; cbn in *;
                        repeat match goal with
                               | x : dpc |- _ => destruct x | x : spc |- _ => destruct x
                               | x : apc |- _ => destruct x | x : rpc |- _ => destruct x
                               | x : regst |- _ => destruct x end;
                        cbn in *; try discriminate; try reflexivity; auto].
        all: try assumption.
        apply andb_prop in Heqb0 as [H1 H3]. apply andb_prop in H1 as [H1 H2].
        apply Nat.eqb_eq in H1. apply eqb_prop in H2. subst.
        destruct IH as [I1 I2 I3 I4 I5 I6]. sprj. prj. cbn in I3, I4, I5.
        destruct kd; try discriminate I3. destruct kq; try discriminate I4. destruct kr; try discriminate I5.
        constructor; sprj; prj; cbn; auto.
    + (* swarm-internal steps: the emitter LTS does not move *)
      pose proof (sstep_base _ _ _ _ Hs) as Eb. cbn in Eb. rewrite Eb.
      destruct e; inv_sstep Hs; sgs; try assumption.
      all: try (split_conn c0 c; sgs; try assumption).
      all: try (destruct (get sconn0 c (sconns ss)) as [kp kl kx ks kr kd kq] eqn:Ek; sprj; subst).
      all: try solve [fin_rel; cbn in *;
                      repeat match goal with
                             | x : dpc |- _ => destruct x | x : spc |- _ => destruct x end;
                      cbn in *; try discriminate; try reflexivity; auto].
      * (* SAddCall: a fresh swarm conn *)
        apply Nat.eqb_eq in Heqb0. subst c. destruct (stab_inv _ _ _ _ He) as [_ T].
        unfold sg in T. rewrite (T (nsw ss)) in Ek by lia. injection Ek as <- <- <- <- <- <- <-.
        destruct IH as [I1 I2 I3 I4 I5 I6]. constructor; sprj; cbn in *; auto. discriminate.
      * (* SStart *) destruct IH as [I1 I2 I3 I4 I5 I6]; sprj; constructor; sprj; cbn in *; auto; destruct kr; auto.
      * (* SDSkip *)
        destruct IH as [I1 I2 I3 I4 I5 I6]. sprj. constructor; sprj; auto.
        unfold gc in *. destruct (get conn0 c (conns (base ss))) as [bp bl bg ba br bcn bpd]. prj.
        cbn in *. rewrite Heqb0. rewrite andb_true_r. assumption.
Qed.

(* C06 — proofs, part 3: the run loop: events in flight, lastConnectednessEvent
   versus the published events, and truthfulness at quiescence. *)
From Coq Require Import List Arith Bool Lia.
From Verif Require Import c06.Model c06.Spec c06.Proofs_base c06.Proofs_close.
Import ListNotations.

Lemma cst_eqb_eq a b : cst_eqb a b = true <-> a = b.
Proof. destruct a, b; cbn; split; congruence. Qed.
Lemma cst_eqb_neq a b : cst_eqb a b = false <-> a <> b.
Proof. destruct a, b; cbn; split; congruence. Qed.

Lemma existsb_ext_all {A} (f g : A -> bool) l : (forall x, In x l -> f x = g x) -> existsb f l = existsb g l.
Proof.
  induction l as [|x l IH]; intros H; cbn [existsb]; [reflexivity|].
  rewrite (H x) by (left; reflexivity). rewrite IH; [reflexivity|]. intros y Hy. apply H. right. exact Hy.
Qed.

(* ---- connectedness -------------------------------------------------------- *)
Lemma connectedness_ext n f g p : (forall c, c < n -> f c = g c) ->
  connectedness_of n f p = connectedness_of n g p.
Proof.
  intros H. unfold connectedness_of.
  rewrite (existsb_ext_all (fun c => open_to p false (f c)) (fun c => open_to p false (g c))),
          (existsb_ext_all (fun c => open_to p true (f c)) (fun c => open_to p true (g c))); auto;
    intros x Hx; apply in_seq in Hx; rewrite H; auto; lia.
Qed.

Lemma connectedness_other_peer n f g p :
  (forall c, c < n -> f c = g c \/ (peer_of (f c) <> p /\ peer_of (g c) <> p)) ->
  connectedness_of n f p = connectedness_of n g p.
Proof.
  intros H. unfold connectedness_of.
  assert (E : forall lim c, c < n -> open_to p lim (f c) = open_to p lim (g c)).
  { intros lim c Hc. destruct (H c Hc) as [->|[H1 H2]]; [reflexivity|].
    destruct (f c) as [[pf lf] gf], (g c) as [[pg lg] gg]. cbn in *.
    apply Nat.eqb_neq in H1, H2. rewrite H1, H2. reflexivity. }
  rewrite (existsb_ext_all (fun c => open_to p false (f c)) (fun c => open_to p false (g c))),
          (existsb_ext_all (fun c => open_to p true (f c)) (fun c => open_to p true (g c))); auto;
    intros x Hx; apply in_seq in Hx; apply E; lia.
Qed.

Lemma connectedness_S n f p :
  peer_of (f n) <> p -> connectedness_of (S n) f p = connectedness_of n f p.
Proof.
  intros H. unfold connectedness_of. rewrite seq_S, !existsb_app. cbn [existsb plus].
  destruct (f n) as [[pf lf] gf]. cbn in *. apply Nat.eqb_neq in H. rewrite H. cbn.
  rewrite !orb_false_r. reflexivity.
Qed.

Lemma notconnected_no_open n f p c : connectedness_of n f p = NotConnected -> c < n ->
  peer_of (f c) = p -> snd (f c) <> ROpen.
Proof.
  unfold connectedness_of. intros H Hc Hp Ho.
  destruct (f c) as [[pf lf] gf] eqn:Ef. cbn in *. subst.
  assert (Hin : In c (seq 0 n)) by (apply in_seq; lia).
  destruct lf.
  - destruct (existsb (fun c => open_to p false (f c)) (seq 0 n)); [discriminate|].
    destruct (existsb (fun c => open_to p true (f c)) (seq 0 n)) eqn:E2; [discriminate|].
    assert (X : existsb (fun c => open_to p true (f c)) (seq 0 n) = true).
    { apply existsb_exists. exists c. split; [assumption|]. rewrite Ef. cbn. rewrite Nat.eqb_refl. reflexivity. }
    congruence.
  - destruct (existsb (fun c => open_to p false (f c)) (seq 0 n)) eqn:E1; [discriminate|].
    assert (X : existsb (fun c => open_to p false (f c)) (seq 0 n) = true).
    { apply existsb_exists. exists c. split; [assumption|]. rewrite Ef. cbn. rewrite Nat.eqb_refl. reflexivity. }
    congruence.
Qed.

(* ---- registered conns ------------------------------------------------------- *)
Lemma reg_lt cap o s : exec cap o s -> forall c, c < nconns s <-> c_reg (gc s c) <> RNone.
Proof.
  intros He c. split.
  - revert c. induction He as [|o s l s' He IH Hs Hv|o s l s' He IH Hs Hv]; intros c0 Hc.
    + cbn in Hc. lia.
    + destruct l; try discriminate Hv; inv_step Hs; gcs 0;
        try (split_conn c0 c; gcs 0; prj; try congruence); try (apply IH; assumption).
      all: try discriminate.
      all: try (apply Nat.eqb_eq in Heqb; apply IH; lia).
      all: try (apply IH in Hc; unfold gc in Hc; congruence).
    + destruct l; try discriminate Hv; inv_step Hs; gcs 0;
        try (split_conn c0 c; gcs 0; prj; try congruence); try (apply IH; assumption);
        apply IH in Hc; unfold gc in Hc; congruence.
  - intros H. eapply conn_lt; eauto.
Qed.

(* ---- facts about a conn that no step undoes ---------------------------------- *)
Lemma step_mono cap s l s' c : step cap s l = Some s' -> c < nconns s ->
  c < nconns s' /\ c_peer (gc s' c) = c_peer (gc s c) /\ c_lim (gc s' c) = c_lim (gc s c) /\
  (c_reg (gc s c) = RGone -> c_reg (gc s' c) = RGone) /\
  (c_a (gc s c) <> A0 -> c_a (gc s' c) <> A0).
Proof.
  intros Hs Hc. rename c into c0.
  destruct l; inv_step Hs; gcs 0;
    try (split_conn c0 c; gcs 0; prj);
    try (repeat split; auto; congruence).
  all: apply Nat.eqb_eq in Heqb; try lia.
Qed.

Definition ev_ok (s : state) (e : ev) : Prop :=
  e_conn e < nconns s /\ c_peer (gc s (e_conn e)) = e_peer e /\
  (e_add e = true -> c_a (gc s (e_conn e)) <> A0).
Definition wit (s : state) (p c : nat) : Prop :=
  c < nconns s /\ c_peer (gc s c) = p /\ c_reg (gc s c) = RGone /\ c_a (gc s c) <> A0.

Lemma ev_ok_step cap s l s' e : step cap s l = Some s' -> ev_ok s e -> ev_ok s' e.
Proof.
  intros Hs (H1 & H2 & H3). destruct (step_mono _ _ _ _ _ Hs H1) as (M1 & M2 & _ & _ & M5).
  repeat split; auto; congruence.
Qed.
Lemma wit_step cap s l s' p c : step cap s l = Some s' -> wit s p c -> wit s' p c.
Proof.
  intros Hs (H1 & H2 & H3 & H4). destruct (step_mono _ _ _ _ _ Hs H1) as (M1 & M2 & _ & M4 & M5).
  repeat split; auto; congruence.
Qed.

Definition events_ok (s : state) : Prop :=
  Forall (ev_ok s) (queue s) /\ match loop s with LGot e => ev_ok s e | _ => True end.

Lemma events_inv cap o s0 : exec cap o s0 -> events_ok s0.
Proof.
  assert (G : forall s l s', step cap s l = Some s' -> (forall c, (c_a (gc s c) <> A0 \/ c_r (gc s c) <> R0) -> c < nconns s) ->
              events_ok s -> events_ok s').
  { intros s l s' Hs Hlt [Hq Hl].
    assert (Hq' : Forall (ev_ok s') (queue s)) by (eapply Forall_impl; [|exact Hq]; intros e; eapply ev_ok_step; eauto).
    assert (Hl' : match loop s with LGot e => ev_ok s' e | _ => True end)
      by (destruct (loop s); auto; eapply ev_ok_step; eauto).
    pose proof Hs as Hs0.
    destruct l; inv_step Hs; split; gcs 0; auto;
      try exact Hq'; try exact Hl'; try exact I;
      try (match goal with E : queue s = _ :: _ |- _ => rewrite E in Hq'; inversion Hq'; subst; assumption end);
      try (match goal with E : loop s = _ |- _ => rewrite E in Hl'; exact Hl' end);
      try (match goal with E : loop s = _ |- _ => rewrite E; exact I end);
      try (inversion Hq'; subst; assumption);
      try (match goal with E : queue s = _ |- _ => rewrite E; first [exact Hq' | inversion Hq'; subst; assumption] end).
    - apply Forall_app. split; [assumption|]. constructor; [|constructor].
      assert (c < nconns s) by (apply Hlt; left; unfold gc; congruence).
      unfold ev_ok, gc; cbn [e_conn e_peer e_add conns nconns]. rewrite get_set_same. prj. repeat split; auto. congruence.
    - apply Forall_app. split; [assumption|]. constructor; [|constructor].
      assert (c < nconns s) by (apply Hlt; right; unfold gc; congruence).
      unfold ev_ok, gc; cbn [e_conn e_peer e_add conns nconns]. rewrite get_set_same. prj. repeat split; auto. discriminate. }
  induction 1 as [|o s l s' He IH Hs Hv|o s l s' He IH Hs Hv].
  - split; [constructor|exact I].
  - eapply G; [exact Hs | | exact IH]. intros c Hc. eapply conn_lt; [exact He|]. tauto.
  - eapply G; [exact Hs | | exact IH]. intros c Hc. eapply conn_lt; [exact He|]. tauto.
Qed.

(* ---- lastConnectednessEvent versus the events published so far ------------- *)
Definition lastof (s : state) (p : nat) : cst := get NotConnected p (last s).

Definition loop_ok (o : list label) (s : state) : Prop :=
  match loop s with
  | LPub p' s' f =>
      lastof s p' = s' /\ (forall p, p <> p' -> lastof s p = lastpub p o) /\
      (s' <> lastpub p' o \/ (s' = NotConnected /\ exists c, f = Some c /\ wit s p' c))
  | _ => forall p, lastof s p = lastpub p o
  end.

Lemma lastpub_other l o p : (forall s, l <> Pub p s) -> lastpub p (l :: o) = lastpub p o.
Proof.
  intros H. destruct l; cbn [lastpub]; auto.
  destruct (Nat.eqb p p0) eqn:E; auto. apply Nat.eqb_eq in E. subst. exfalso. eapply H. reflexivity.
Qed.

Lemma wit_of_event cap o s e p : exec cap o s -> ev_ok s e -> e_add e = true -> e_peer e = p ->
  connectedness s p = NotConnected -> wit s p (e_conn e).
Proof.
  intros He (H1 & H2 & H3) Ha Hp Hc. repeat split; auto; try congruence.
  pose proof (notconnected_no_open (nconns s) (fun c => info_of (gc s c)) p (e_conn e) Hc H1) as N.
  cbn in N. specialize (N (eq_trans H2 Hp)).
  pose proof (proj1 (reg_lt _ _ _ He (e_conn e)) H1) as R.
  destruct (c_reg (gc s (e_conn e))); congruence.
Qed.

Lemma loop_ok_frame o o' s s' :
  loop s' = loop s -> last s' = last s -> (forall p, lastpub p o' = lastpub p o) ->
  (forall p c, wit s p c -> wit s' p c) -> loop_ok o s -> loop_ok o' s'.
Proof.
  intros Hl Hla Hp Hw. unfold loop_ok, lastof. rewrite Hl, Hla.
  destruct (loop s) as [|e0|p' st' f|]; try (intros H p0; rewrite Hp; apply H).
  intros (I1 & I2 & I3). split; [assumption|]. split; [intros p0 Hp0; rewrite Hp; auto|].
  rewrite Hp. destruct I3 as [I3|(I3 & c1 & I4 & I5)]; [left; assumption|right; split; [assumption|]].
  exists c1. split; [assumption|]. apply Hw. assumption.
Qed.

Lemma loop_inv cap o s : exec cap o s -> loop_ok o s.
Proof.
  induction 1 as [|o s l s' He IH Hs Hv|o s l s' He IH Hs Hv].
  - intros p. reflexivity.
  - pose proof (events_inv _ _ _ He) as [Hq Hl]. pose proof Hs as Hs0.
    destruct l; try discriminate Hv;
      try solve [ inv_step Hs;
                  (eapply (loop_ok_frame o _ s); [reflexivity | reflexivity | intros; apply lastpub_other; intros; congruence
                                         | intros; eapply wit_step; [exact Hs0|assumption] | exact IH]) ].
    all: unfold loop_ok, lastof in *.
    + (* Read *)
      inv_step Hs; gcs 0; try rewrite Heql in *;
        apply andb_prop in Heqb as [Hp Hst]; apply Nat.eqb_eq in Hp; apply cst_eqb_eq in Hst; subst p.
      * (* changed and forced *)
        apply negb_true_iff, cst_eqb_neq in Heqb0. rewrite (IH (e_peer e)) in Heqb0.
        split; [reflexivity|]. split.
        -- intros p0 Hp0. rewrite get_set_other by assumption. rewrite lastpub_other by (intros; congruence). apply IH.
        -- left. rewrite lastpub_other by (intros; congruence). assumption.
      * apply negb_true_iff, cst_eqb_neq in Heqb0. rewrite (IH (e_peer e)) in Heqb0.
        split; [reflexivity|]. split.
        -- intros p0 Hp0. rewrite get_set_other by assumption. rewrite lastpub_other by (intros; congruence). apply IH.
        -- left. rewrite lastpub_other by (intros; congruence). assumption.
      * (* unchanged but forced *)
        apply andb_prop in Heqb1 as [Ha Hn]. apply cst_eqb_eq in Hn.
        split; [reflexivity|]. split.
        -- intros p0 Hp0. rewrite get_set_other by assumption. rewrite lastpub_other by (intros; congruence). apply IH.
        -- right. split; [assumption|]. exists (e_conn e). split; [reflexivity|].
           eapply wit_step; [exact Hs0|]. eapply wit_of_event; eauto. congruence.
      * (* unchanged, nothing to emit *)
        apply negb_false_iff, cst_eqb_eq in Heqb0.
        intros p0. rewrite lastpub_other by (intros; congruence).
        destruct (Nat.eq_dec p0 (e_peer e)) as [->|Hn].
        -- rewrite get_set_same. rewrite <- (IH (e_peer e)). assumption.
        -- rewrite get_set_other by assumption. apply IH.
    + (* Pub *)
      inv_step Hs; gcs 0. destruct IH as (I1 & I2 & I3).
      apply andb_prop in Heqb as [Hp Hst]. apply Nat.eqb_eq in Hp. apply cst_eqb_eq in Hst. subst.
      intros q. cbn [lastpub]. destruct (Nat.eqb q p0) eqn:E.
      * apply Nat.eqb_eq in E. subst. reflexivity.
      * apply Nat.eqb_neq in E. auto.
  - pose proof Hs as Hs0.
    destruct l; try discriminate Hv;
      try solve [ inv_step Hs;
                  (eapply (loop_ok_frame o o s); [reflexivity | reflexivity | reflexivity
                                         | intros; eapply wit_step; [exact Hs0|assumption] | exact IH]) ].
    all: unfold loop_ok, lastof in *; inv_step Hs; gcs 0; try rewrite Heql in IH; try assumption.
Qed.

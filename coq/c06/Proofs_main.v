(* C06 — proofs, part 5: every clause of the monitor holds at every visible
   step of every execution; hence the monitor accepts every trace of the LTS. *)
From Coq Require Import List Arith Bool Lia.
From Verif Require Import c06.Model c06.Spec c06.Proofs_base c06.Proofs_close c06.Proofs_loop c06.Proofs_truth.
Import ListNotations.

(* ---- a thread that returned without doing anything saw the emitter closed --- *)
Definition skip_ok (c : nat) (o : list label) (k : conn) : Prop :=
  (match c_a k with ASkipRetP | ASkipDone => In CloseCall o | _ => True end) /\
  (match c_r k with
   | RSkipRetP => In CloseCall o
   | RSkipDone => close_before_remret c o = true
   | _ => True
   end).

Lemma closed_in_call cap o s : exec cap o s -> closed s = true -> In CloseCall o.
Proof.
  intros He Hc. destruct (close_inv _ _ _ He) as [W1 W2 W3 W4 W5 W6 W7 W8 W9]. apply cnt_pos_in. rewrite W8.
  rewrite W2 in Hc. destruct (close_pc s); try discriminate; lia.
Qed.

Lemma cbr_other c l o : l <> RemRet c -> close_before_remret c (l :: o) = close_before_remret c o.
Proof. intros H. cbn [close_before_remret]. destruct (label_eq_dec l (RemRet c)); [contradiction|reflexivity]. Qed.
Lemma cbr_same c o : close_before_remret c (RemRet c :: o) = memb CloseCall o.
Proof. cbn [close_before_remret]. destruct (label_eq_dec (RemRet c) (RemRet c)); [reflexivity|contradiction]. Qed.

Lemma skip_ok_cons c o k l : (c_r k = RSkipDone -> l <> RemRet c) -> skip_ok c o k -> skip_ok c (l :: o) k.
Proof.
  unfold skip_ok. intros H [I1 I2]. split.
  - destruct (c_a k); auto; right; assumption.
  - destruct (c_r k); auto; try (right; assumption). rewrite cbr_other by auto. assumption.
Qed.

Lemma skip_inv cap o s : exec cap o s -> forall c, skip_ok c o (gc s c).
Proof.
  induction 1 as [|o s l s' He IH Hs Hv|o s l s' He IH Hs Hv]; intros c0.
  - split; exact I.
  - specialize (IH c0).
    destruct l; try discriminate Hv; inv_step Hs; gcs 0;
      try (split_conn c0 c; gcs 0;
           [ destruct (get conn0 c (conns s)) as [kp kl kg ka kr kcn kpd] eqn:Ek; prj; subst | ]);
      try solve [apply skip_ok_cons; [intros; congruence | exact IH]];
      try solve [unfold skip_ok in *; prj; destruct IH as [I1 I2];
                 split; [ try exact I; try (destruct ka; try exact I; right; assumption); try (right; assumption)
                        | try exact I; try (rewrite cbr_same; apply memb_true; assumption);
                          try (destruct kr; try exact I; try (right; assumption); try discriminate;
                               rewrite cbr_other by congruence; assumption) ]].
  - specialize (IH c0).
    destruct l; try discriminate Hv; inv_step Hs; gcs 0;
      try (split_conn c0 c; gcs 0;
           [ destruct (get conn0 c (conns s)) as [kp kl kg ka kr kcn kpd] eqn:Ek; prj; subst | ]);
      try assumption;
      unfold skip_ok in *; prj; destruct IH as [I1 I2];
      (split; try exact I; try assumption;
       try (eapply closed_in_call; eassumption)).
Qed.

Lemma memb_of_cnt l o n : cnt l o = S n -> memb l o = true.
Proof. intros H. apply memb_true, cnt_pos_in. lia. Qed.
Lemma nmemb_of_cnt l o : cnt l o = 0 -> memb l o = false.
Proof. intros H. apply memb_false, cnt_zero_notin. assumption. Qed.

Ltac conn_facts He c :=
  let C := fresh "C" in let P := fresh "P" in
  destruct (conn_inv_all _ _ _ He c) as [C P]; destruct C;
  unfold gc in *;
  destruct (get conn0 c (conns _)) as [kp kl kg ka kr kcn kpd] eqn:Ek; prj; subst.

(* clause 1 *)
Lemma ck_connected_ok cap o s l s' : exec cap o s -> step cap s l = Some s' -> ck_connected l o = true.
Proof.
  intros He Hs. destruct l; try reflexivity; inv_step Hs; conn_facts He c; unfold ck_connected; cbn in *.
  all: try (rewrite (memb_of_cnt _ _ _ co_addcall)); try (rewrite (nmemb_of_cnt _ _ co_addret));
       try (rewrite (memb_of_cnt _ _ _ co_connb)); rewrite ?co_connb, ?co_conne; cbn; try reflexivity.
  apply memb_true. destruct (skip_inv _ _ _ He c) as [S1 _].
  unfold gc in S1. rewrite Ek in S1. exact S1.
Qed.

(* clause 2 *)
Lemma ck_disconnected_ok cap o s l s' : exec cap o s -> step cap s l = Some s' -> ck_disconnected l o = true.
Proof.
  intros He Hs. destruct l; try reflexivity; inv_step Hs; conn_facts He c; unfold ck_disconnected; cbn in *;
    repeat match goal with
           | x : rpc |- _ => destruct x
           | x : apc |- _ => destruct x
           | x : regst |- _ => destruct x
           end; destruct kcn, kpd; try discriminate P; cbn in *;
    rewrite ?co_discb, ?co_disce; cbn;
    rewrite ?(memb_of_cnt _ _ _ co_conne), ?(memb_of_cnt _ _ _ co_unreg), ?(memb_of_cnt _ _ _ co_discb); reflexivity.
Qed.

(* clause 3 *)
Lemma not_closeret cap o s : exec cap o s -> close_pc s <> CDone -> memb CloseRet o = false.
Proof.
  intros He H. destruct (close_inv _ _ _ He) as [W1 W2 W3 W4 W5 W6 W7 W8 W9].
  apply nmemb_of_cnt. rewrite W9. destruct (close_pc s); congruence.
Qed.

Lemma in_wg_not_done cap o s c : exec cap o s ->
  inwgA (c_a (gc s c)) = 1 \/ inwgR (c_r (gc s c)) = 1 -> close_pc s <> CDone.
Proof.
  intros He H E. destruct (waited_no_thread _ _ _ c He) as [A B]; [rewrite E; reflexivity|]. lia.
Qed.

Lemma ck_close_ok cap o s l s' : exec cap o s -> step cap s l = Some s' -> ck_close l o = true.
Proof.
  intros He Hs. destruct l; try reflexivity; unfold ck_close.
  - (* CloseRet *)
    inv_step Hs. unfold all_conns. apply forallb_forall. intros c _.
    destruct (waited_no_thread _ _ _ c He) as [A B]; [rewrite Heqc; reflexivity|].
    conn_facts He c. unfold balanced. rewrite co_connb, co_conne, co_discb, co_disce.
    destruct ka; try discriminate A; destruct kr; try discriminate B; reflexivity.
  - inv_step Hs; rewrite (not_closeret _ _ _ He); auto; apply (in_wg_not_done _ _ _ c He); rewrite Heqa; auto.
  - inv_step Hs; rewrite (not_closeret _ _ _ He); auto; apply (in_wg_not_done _ _ _ c He); rewrite Heqa; auto.
  - inv_step Hs; rewrite (not_closeret _ _ _ He); auto; apply (in_wg_not_done _ _ _ c He);
      rewrite ?Heqa, ?Heqr; auto.
  - inv_step Hs; rewrite (not_closeret _ _ _ He); auto; apply (in_wg_not_done _ _ _ c He);
      rewrite ?Heqa, ?Heqr; auto.
  - inv_step Hs; rewrite (not_closeret _ _ _ He); auto;
      destruct (close_inv _ _ _ He) as [W1 W2 W3 W4 W5 W6 W7 W8 W9]; intros E; rewrite E in W7;
      specialize (W7 eq_refl); congruence.
  - inv_step Hs; rewrite (not_closeret _ _ _ He); auto;
      destruct (close_inv _ _ _ He) as [W1 W2 W3 W4 W5 W6 W7 W8 W9]; intros E; rewrite E in W7;
      specialize (W7 eq_refl); congruence.
Qed.

(* clause 4 *)
Lemma ck_norepeat_ok cap o s l s' : exec cap o s -> step cap s l = Some s' -> ck_norepeat l o = true.
Proof.
  intros He Hs. destruct l; try reflexivity. unfold ck_norepeat.
  pose proof (loop_inv _ _ _ He) as L. unfold loop_ok in L. inv_step Hs.
  apply andb_prop in Heqb as [Hp Hst]. apply Nat.eqb_eq in Hp. apply cst_eqb_eq in Hst. subst.
  destruct L as (L1 & L2 & [L3|(L3 & c & L4 & (Q1 & Q2 & Q3 & Q4))]).
  - apply orb_true_iff. left. apply negb_true_iff, cst_eqb_neq. assumption.
  - apply orb_true_iff. right. subst. rewrite L3. cbn [cst_eqb andb].
    destruct (table_inv _ _ _ He) as [T1 _]. apply existsb_exists. exists c. split; [apply in_seq; lia|].
    destruct (conn_inv_all _ _ _ He c) as [[] _]. unfold vanished. rewrite co_info. unfold info_of, peer_of, gone. cbn.
    rewrite Q3, Nat.eqb_refl. cbn. apply memb_true, cnt_pos_in. rewrite co_addcall.
    destruct (c_a (gc s c)); try congruence; cbn; lia.
Qed.

(* clause 5 *)
Lemma actual_is_connectedness cap o s p : exec cap o s -> actual o p = connectedness s p.
Proof.
  intros He. unfold actual, connectedness. destruct (table_inv _ _ _ He) as [T1 _]. rewrite T1.
  apply connectedness_ext. intros c _. destruct (conn_inv_all _ _ _ He c) as [[] _]. assumption.
Qed.

Lemma quiescent_not_pending cap o s p : exec cap o s -> quiescent s = true -> ~ pending s p.
Proof.
  intros He Hq Hp. unfold quiescent in Hq.
  apply andb_prop in Hq as [Hq H4]. apply andb_prop in Hq as [Hq H3]. apply andb_prop in Hq as [H1 H2].
  destruct Hp as [e Hi _|e Hl _|c Hlt _ Hs].
  - destruct (queue s); [contradiction|discriminate].
  - rewrite Hl in H3. discriminate.
  - rewrite forallb_forall in H1. specialize (H1 c). rewrite in_seq in H1. specialize (H1 ltac:(lia)).
    pose proof (proj1 (reg_lt _ _ _ He c) Hlt) as R.
    unfold conn_quiet, srcb in *. destruct (c_reg (gc s c)); try congruence;
      destruct (c_a (gc s c)); try discriminate; destruct (c_r (gc s c)); discriminate.
Qed.

Lemma truthful_at_quiescence cap o s p : exec cap o s -> quiescent s = true -> closed s = false ->
  lastpub p o = actual o p.
Proof.
  intros He Hq Hc. rewrite (actual_is_connectedness _ _ _ _ He).
  destruct (truthful_all _ _ _ He Hc p) as [H|H]; [|exfalso; eapply quiescent_not_pending; eauto].
  rewrite <- H. pose proof (loop_inv _ _ _ He) as L. unfold loop_ok in L.
  unfold quiescent in Hq. apply andb_prop in Hq as [Hq _]. apply andb_prop in Hq as [_ H3].
  destruct (loop s); try discriminate; symmetry; apply L.
Qed.

Lemma ck_quiesce_ok cap o s l s' : exec cap o s -> step cap s l = Some s' -> ck_quiesce l o = true.
Proof.
  intros He Hs. destruct l; try reflexivity. unfold ck_quiesce. inv_step Hs. apply andb_true_iff. split.
  - destruct (memb CloseCall o) eqn:Em; [reflexivity|]. cbn [orb].
    apply forallb_forall. intros p _. apply cst_eqb_eq. eapply truthful_at_quiescence; eauto.
    destruct (close_inv _ _ _ He) as [W1 W2 W3 W4 W5 W6 W7 W8 W9].
    apply memb_false, cnt_zero_notin in Em. rewrite W8 in Em. rewrite W2.
    destruct (close_pc s); try discriminate; reflexivity.
  - unfold all_conns. apply forallb_forall. intros c Hc. apply in_seq in Hc.
    destruct (table_inv _ _ _ He) as [T1 _]. rewrite T1 in Hc.
    pose proof Heqb as Hq. unfold quiescent in Hq.
    apply andb_prop in Hq as [Hq _]. apply andb_prop in Hq as [Hq _]. apply andb_prop in Hq as [H1 _].
    rewrite forallb_forall in H1. specialize (H1 c). rewrite in_seq in H1. specialize (H1 ltac:(lia)).
    pose proof (proj1 (reg_lt _ _ _ He c) ltac:(lia)) as R.
    destruct (skip_inv _ _ _ He c) as [_ S2].
    conn_facts He c. unfold conn_quiet in H1. prj.
    destruct (memb (ConnE c) o) eqn:E1; [|reflexivity].
    destruct (memb (RemRet c) o) eqn:E2; [|reflexivity]. cbn [andb negb orb].
    apply memb_true, cnt_pos_in in E1, E2. rewrite co_conne in E1. rewrite co_remret in E2. rewrite co_disce.
    destruct kg; try congruence; destruct ka; try discriminate H1; cbn in E1; try lia;
      destruct kr; try discriminate H1; cbn in E2; try lia;
      destruct kcn, kpd; try discriminate P; cbn; try reflexivity;
      rewrite S2; rewrite ?orb_true_r; reflexivity.
Qed.

(* ---- the monitor accepts every trace of the model ---------------------------- *)
Lemma check_at_ok cap o s l s' : exec cap o s -> step cap s l = Some s' -> check_at l o = [].
Proof.
  intros He Hs. unfold check_at.
  rewrite (ck_connected_ok _ _ _ _ _ He Hs), (ck_disconnected_ok _ _ _ _ _ He Hs), (ck_close_ok _ _ _ _ _ He Hs),
          (ck_norepeat_ok _ _ _ _ _ He Hs), (ck_quiesce_ok _ _ _ _ _ He Hs). reflexivity.
Qed.

Lemma holds_exec cap o s : exec cap o s -> holds_from o = [].
Proof.
  induction 1 as [|o s l s' He IH Hs Hv|o s l s' He IH Hs Hv]; [reflexivity| |assumption].
  cbn [holds_from]. rewrite IH. rewrite (check_at_ok _ _ _ _ _ He Hs). reflexivity.
Qed.

Lemma holds_from_suffix l o : holds_from (l :: o) = [] -> holds_from o = [] /\ check_at l o = [].
Proof.
  cbn [holds_from]. destruct (holds_from o); [|discriminate]. destruct (check_at l o); [auto|discriminate].
Qed.

(* C06 — swarm level with fake transport conns, inbound streams and mid-run
   listings (kind 8 of the wire format, superseding the label set of SpecSw.v).
   The monitor below is SpecSw.vcheck on the labels of SpecSw.v plus three clauses; it is
   proved to accept every schedule of the stream-level LTS of StModel.v
   (Properties.v: c06_stream_monitor_accepts_every_schedule).

   WIRE FORMAT: as SpecSw.v, with three more labels (4 integers each):
     44 c 0 0   the transport conn's AcceptStream returned an inbound stream of conn c to the swarm
     46 c 0 0   the swarm's stream handler was called with an inbound stream of conn c
     47 c b 0   a reader of the conn table (ConnsToPeer, any moment of the run) found c listed (b=1) / not listed (b=0)
   The error value a transport conn's Close / CloseWithError returns is not part of the model nor of the wire
   format: a conn whose Close reports an error is closed and delisted all the same (labels 33/34), and every clause
   judges it like any other conn.
   clauses (numbers as reported by the monitor):
      7  no inbound stream is accepted from the transport / handed to the stream handler before Connected(c) RETURNED
     11  truthful listing: a listed conn was given to addConn, was not refused, and its Disconnected has not begun;
         a conn whose Connected has begun and that nobody asked to close (no Conn.Close, no Swarm.Close) is listed *)
From Coq Require Import List Arith Bool ZArith.
From Verif Require Import lib.Wire c06.Model c06.Spec c06.SpecSw gen.Consts_c06.
Import ListNotations.

Inductive tvlab :=
| TV (v : vlab)
| TVStreamIn (c : nat) | TVHandle (c : nat) | TVListed (c : nat) (b : bool).

Fixpoint tproj (h : list tvlab) : list vlab :=
  match h with
  | [] => []
  | TV v :: r => v :: tproj r
  | _ :: r => tproj r
  end.

Definition tcheck (l : tvlab) (r : list tvlab) : list nat :=
  let ok (b : bool) (code : nat) := if b then [] else [code] in
  let pr := tproj r in
  match l with
  | TV v => vcheck v pr
  | TVStreamIn c => ok (vmem (VConnE c) pr) 7
  | TVHandle c => ok (vmem (VConnE c) pr) 7
  | TVListed c true => ok (vadded pr c && negb (vmem (VAddRet c false) pr) && negb (vmem (VDiscB c) pr)) 11
  | TVListed c false => ok (negb (vmem (VConnB c) pr) || vmem (VCloseReq c) pr || vmem VCloseCall pr) 11
  end.

Fixpoint tholds_from (h : list tvlab) : list nat :=
  match h with
  | [] => []
  | l :: r => match tholds_from r with
              | [] => match tcheck l r with [] => [] | cl => length r :: cl end
              | d => d
              end
  end.

Inductive twl := TW (l : tvlab) | TWStuck | TWBad.
Definition tdec_label (code x y z : Z) : twl :=
  let c := Z.to_nat x in
  if Z.ltb x 0 || Z.ltb y 0 then TWBad else
  match code with
  | 44 => TW (TVStreamIn c)
  | 46 => TW (TVHandle c)
  | 47 => TW (TVListed c (zbool y))
  | _ => match vdec_label code x y z with VW l => TW (TV l) | VWStuck => TWStuck | VWBad => TWBad end
  end%Z.
Fixpoint tdec_labels (fuel : nat) (t : list Z) : list tvlab * bool * bool :=
  match fuel with
  | O => ([], false, false)
  | S f =>
      match t with
      | [] => ([], false, true)
      | code :: x :: y :: z :: r =>
          match tdec_label code x y z with
          | TW l => let '(ls, st, ok) := tdec_labels f r in (l :: ls, st, ok)
          | TWStuck => ([], true, match r with [] => true | _ => false end)
          | TWBad => ([], false, false)
          end
      | _ => ([], false, false)
      end
  end.
Definition monitor_st (t : list Z) : list Z :=
  match sw_header t with
  | None => [ERR_MALFORMED; 0]
  | Some r =>
      let '(ls, stuck, ok) := tdec_labels (S (length r)) r in
      if negb ok then [ERR_MALFORMED; 1] else
      match tholds_from (rev ls) with
      | [] => if stuck then [ERR_PROPERTY; Z.of_nat (length ls); 6] else []
      | d => ERR_PROPERTY :: map Z.of_nat d
      end
  end%Z.
(* conformance for kind 8: well-formedness only (see SpecSw.conform_sw) *)
Definition conform_st (t : list Z) : list Z :=
  match sw_header t with
  | None => [ERR_MALFORMED; 0]
  | Some r => let '(_, _, ok) := tdec_labels (S (length r)) r in if ok then [] else [ERR_MALFORMED; 1]
  end%Z.

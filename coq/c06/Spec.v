(* C06 — the property as decidable predicates on the observed label trace,
   wire decoding, and the two entry points of the correspondence driver.

   WIRE FORMAT (one case per line, integers):
     6  cap  NC  CO  LI  m  <m integers: harness configuration and schedule, ignored here;
                             the replay test re-executes them>  <label>*
   cap = cap(e.peerConnectednessCh) read from the real emitter; NC CO LI =
   the Go values of network.NotConnected / Connected / Limited as the harness
   compiled them (compared here with the regenerated constants).  Each label
   is 4 integers  code x y z  in chronological order; only the labels the
   harness can observe from outside appear:
      1 c p lim   Reg     harness adds conn c (peer p, limited lim) to its conn table
                          (what Swarm.addConn does before calling AddConn)
      2 c 0 0     Unreg   harness removes c from its table (doClose -> removeConn)
      3 c 0 0     AddCall     4 c 0 0  AddRet      (call / return of e.AddConn(c))
      5 c 0 0     RemCall     6 c 0 0  RemRet      (e.RemoveConn(c))
      7 0 0 0     CloseCall   8 0 0 0  CloseRet    (e.Close())
      9 c 0 0     ConnB      10 c 0 0  ConnE       (onConnected(c) begins / ends)
     11 c 0 0     DiscB      12 c 0 0  DiscE       (onDisconnected(c))
     13 p s 0     Read    the run loop called connectedness(p); the harness answered s
     14 p s 0     Pub     the run loop called emitter.Emit({p, s})
     15 0 0 0     Quiesce the harness has released everything, synctest.Wait() returned and
                          every call it made has returned
     16 0 0 0     Stuck   as 15 but some call has not returned (the emitter is deadlocked)

   A history [h] below is the list of observed labels MOST RECENT FIRST. *)
From Coq Require Import List Arith Bool ZArith.
From Verif Require Import lib.Wire c06.Model gen.Consts_c06.
Import ListNotations.

Definition cst_eq_dec : forall a b : cst, {a = b} + {a <> b}.
Proof. decide equality. Defined.
Definition label_eq_dec : forall a b : label, {a = b} + {a <> b}.
Proof. decide equality; try apply Nat.eq_dec; try apply Bool.bool_dec; apply cst_eq_dec. Defined.

Definition cnt (l : label) (h : list label) : nat := count_occ label_eq_dec h l.
Definition memb (l : label) (h : list label) : bool :=
  if in_dec label_eq_dec l h then true else false.

(* ---- what the observed labels say about the conn table ------------------ *)
Fixpoint nregs (h : list label) : nat :=
  match h with
  | [] => 0
  | Reg _ _ _ :: r => S (nregs r)
  | _ :: r => nregs r
  end.
Fixpoint minfo (h : list label) (c : nat) : cinfo :=
  match h with
  | [] => (0, false, RNone)
  | Reg c' p lim :: r => if Nat.eqb c c' then (p, lim, ROpen) else minfo r c
  | Unreg c' :: r => if Nat.eqb c c' then (let '(p, l, _) := minfo r c in (p, l, RGone)) else minfo r c
  | _ :: r => minfo r c
  end.
(* the peer's actual connectedness according to the observed Reg / Unreg *)
Definition actual (h : list label) (p : nat) : cst := connectedness_of (nregs h) (minfo h) p.

(* the last state published for p (NotConnected when none was) *)
Fixpoint lastpub (p : nat) (h : list label) : cst :=
  match h with
  | [] => NotConnected
  | Pub p' s :: r => if Nat.eqb p p' then s else lastpub p r
  | _ :: r => lastpub p r
  end.

(* CloseCall is older than the return of RemoveConn(c) *)
Fixpoint close_before_remret (c : nat) (h : list label) : bool :=
  match h with
  | [] => false
  | l :: r => if label_eq_dec l (RemRet c) then memb CloseCall r else close_before_remret c r
  end.

Definition gone (i : cinfo) : bool := match i with (_, _, RGone) => true | _ => false end.
Definition peer_of (i : cinfo) : nat := fst (fst i).

(* conn c justifies a repeated NotConnected for p: it is a conn of p whose
   AddConn was called and which has been removed *)
Definition vanished (h : list label) (p c : nat) : bool :=
  Nat.eqb (peer_of (minfo h c)) p && gone (minfo h c) && memb (AddCall c) h.

Definition balanced (h : list label) (c : nat) : bool :=
  Nat.eqb (cnt (ConnB c) h) (cnt (ConnE c) h) && Nat.eqb (cnt (DiscB c) h) (cnt (DiscE c) h).

Fixpoint peers_seen (h : list label) : list nat :=
  match h with
  | [] => []
  | Reg _ p _ :: r => p :: peers_seen r
  | Pub p _ :: r => p :: peers_seen r
  | _ :: r => peers_seen r
  end.

(* ---- the clauses of the property, each evaluated when label l is observed
        after history r ---------------------------------------------------- *)
Definition all_conns (r : list label) (f : nat -> bool) : bool := forallb f (seq 0 (nregs r)).

(* 1: Connected exactly once, delivered inside AddConn *)
Definition ck_connected (l : label) (r : list label) : bool :=
  match l with
  | ConnB c => Nat.eqb (cnt (ConnB c) r) 0 && memb (AddCall c) r && negb (memb (AddRet c) r)
  | ConnE c => Nat.eqb (cnt (ConnE c) r) 0 && memb (ConnB c) r
  | AddRet c => (Nat.eqb (cnt (ConnB c) r) 1 && Nat.eqb (cnt (ConnE c) r) 1)
                || (Nat.eqb (cnt (ConnB c) r) 0 && memb CloseCall r)
  | _ => true
  end.
(* 2: Disconnected at most once, only for a removed conn, never before Connected returned *)
Definition ck_disconnected (l : label) (r : list label) : bool :=
  match l with
  | DiscB c => Nat.eqb (cnt (DiscB c) r) 0 && memb (ConnE c) r && memb (Unreg c) r
  | DiscE c => Nat.eqb (cnt (DiscE c) r) 0 && memb (DiscB c) r
  | _ => true
  end.
(* 3: Close returns only after everything was delivered; nothing is delivered later *)
Definition ck_close (l : label) (r : list label) : bool :=
  match l with
  | CloseRet => all_conns r (balanced r)
  | ConnB _ | ConnE _ | DiscB _ | DiscE _ | Read _ _ | Pub _ _ => negb (memb CloseRet r)
  | _ => true
  end.
(* 4: no state published twice in a row for a peer, except a NotConnected for a vanished conn *)
Definition ck_norepeat (l : label) (r : list label) : bool :=
  match l with
  | Pub p s => negb (cst_eqb s (lastpub p r))
               || (cst_eqb s NotConnected && existsb (vanished r p) (seq 0 (nregs r)))
  | _ => true
  end.
(* 5: at quiescence: last event truthful; Disconnected exactly once for every conn that saw
      Connected and whose RemoveConn ran (unless Close was called before RemoveConn returned) *)
Definition ck_quiesce (l : label) (r : list label) : bool :=
  match l with
  | Quiesce =>
      (memb CloseCall r || forallb (fun p => cst_eqb (lastpub p r) (actual r p)) (peers_seen r))
      && all_conns r (fun c => negb (memb (ConnE c) r && memb (RemRet c) r)
                               || Nat.eqb (cnt (DiscE c) r) 1 || close_before_remret c r)
  | _ => true
  end.

Definition check_at (l : label) (r : list label) : list nat :=
  (if ck_connected l r then [] else [1]) ++ (if ck_disconnected l r then [] else [2]) ++
  (if ck_close l r then [] else [3]) ++ (if ck_norepeat l r then [] else [4]) ++
  (if ck_quiesce l r then [] else [5]).

(* first failing position (counted from the oldest label) and its clauses *)
Fixpoint holds_from (h : list label) : list nat :=
  match h with
  | [] => []
  | l :: r => match holds_from r with
              | [] => match check_at l r with [] => [] | cl => length r :: cl end
              | d => d
              end
  end.
Definition holds (h : list label) : bool := match holds_from h with [] => true | _ => false end.

(* ---- acceptance of an observed trace by the LTS --------------------------
   subset construction: the set of model states compatible with the labels
   seen so far, closed under internal steps *)
Definition apc_eq_dec : forall a b : apc, {a = b} + {a <> b}. Proof. decide equality. Defined.
Definition rpc_eq_dec : forall a b : rpc, {a = b} + {a <> b}. Proof. decide equality. Defined.
Definition state_eq_dec : forall a b : state, {a = b} + {a <> b}.
Proof.
  repeat (decide equality; try apply Nat.eq_dec; try apply Bool.bool_dec; try apply cst_eq_dec).
Defined.

Definition in_states (s : state) (l : list state) : bool :=
  existsb (fun t => if state_eq_dec s t then true else false) l.
Fixpoint add_new (xs seen : list state) : list state * list state (* fresh, seen' *) :=
  match xs with
  | [] => ([], seen)
  | x :: r => if in_states x seen then add_new r seen
              else let '(f, sn) := add_new r (x :: seen) in (x :: f, sn)
  end.
Definition tau_succ (cap : nat) (s : state) : list state :=
  flat_map (fun l => match step cap s l with Some s' => [s'] | None => [] end) (tau_candidates s).
Fixpoint closure (fuel : nat) (cap : nat) (frontier seen : list state) : list state :=
  match fuel with
  | O => seen
  | S f => match frontier with
           | [] => seen
           | _ => let '(fresh, seen') := add_new (flat_map (tau_succ cap) frontier) seen in
                  closure f cap fresh seen'
           end
  end.
Definition after_label (cap : nat) (ss : list state) (l : label) : list state :=
  let cl := closure 4096 cap ss ss in
  fst (add_new (flat_map (fun s => match step cap s l with Some s' => [s'] | None => [] end) cl) []).
(* returns the number of labels consumed before the state set became empty
   (None = whole trace accepted) *)
Fixpoint accept_from (cap : nat) (ss : list state) (obs : list label) (i : nat) : option nat :=
  match obs with
  | [] => None
  | l :: r => match after_label cap ss l with
              | [] => Some i
              | ss' => accept_from cap ss' r (S i)
              end
  end.
Definition trace_accepted (cap : nat) (obs : list label) : bool :=
  match accept_from cap [init] obs 0 with None => true | Some _ => false end.

(* ---- wire decoding -------------------------------------------------------- *)
Inductive wlabel := WL (l : label) | WStuck | WBad.
Definition dec_cst (z : Z) : option cst :=
  if Z.eqb z network_NotConnected then Some NotConnected
  else if Z.eqb z network_Connected then Some Connected
  else if Z.eqb z network_Limited then Some Limited
  else None.
Definition dec_label (code x y z : Z) : wlabel :=
  let c := Z.to_nat x in
  if Z.ltb x 0 then WBad else
  match code with
  | 1 => WL (Reg c (Z.to_nat y) (zbool z))
  | 2 => WL (Unreg c) | 3 => WL (AddCall c) | 4 => WL (AddRet c)
  | 5 => WL (RemCall c) | 6 => WL (RemRet c) | 7 => WL CloseCall | 8 => WL CloseRet
  | 9 => WL (ConnB c) | 10 => WL (ConnE c) | 11 => WL (DiscB c) | 12 => WL (DiscE c)
  | 13 => match dec_cst y with Some s => WL (Read c s) | None => WBad end
  | 14 => match dec_cst y with Some s => WL (Pub c s) | None => WBad end
  | 15 => WL Quiesce
  | 16 => WStuck
  | _ => WBad
  end%Z.
(* decoded = (labels chronological, stuck?, ok?) *)
Fixpoint dec_labels (fuel : nat) (t : list Z) : list label * bool * bool :=
  match fuel with
  | O => ([], false, false)
  | S f =>
      match t with
      | [] => ([], false, true)
      | code :: x :: y :: z :: r =>
          match dec_label code x y z with
          | WL l => let '(ls, st, ok) := dec_labels f r in (l :: ls, st, ok)
          | WStuck => ([], true, match r with [] => true | _ => false end)
          | WBad => ([], false, false)
          end
      | _ => ([], false, false)
      end
  end.
Definition header_ok (t : list Z) : option (nat * list Z) :=
  match t with
  | 6 :: cap :: nc :: co :: li :: m :: r =>
      if Z.leb 0 cap && Z.eqb nc network_NotConnected && Z.eqb co network_Connected && Z.eqb li network_Limited
         && Z.leb 0 m && Z.leb m (zlen r)
      then Some (Z.to_nat cap, zdrop m r) else None
  | _ => None
  end%Z.

(* conformance: the observed label trace is a trace of the LTS *)
Definition conform_emitter (t : list Z) : list Z :=
  match header_ok t with
  | None => [ERR_MALFORMED; 0]
  | Some (cap, r) =>
      let '(ls, stuck, ok) := dec_labels (S (length r)) r in
      if negb ok then [ERR_MALFORMED; 1] else
      match accept_from cap [init] ls 0 with
      | Some i => [ERR_MISMATCH; Z.of_nat i]
      | None => if stuck then [ERR_MISMATCH; Z.of_nat (length ls); 16] else []
      end
  end%Z.

(* monitor: the property on the observed labels alone *)
Definition monitor_emitter (t : list Z) : list Z :=
  match header_ok t with
  | None => [ERR_MALFORMED; 0]
  | Some (_, r) =>
      let '(ls, stuck, ok) := dec_labels (S (length r)) r in
      if negb ok then [ERR_MALFORMED; 1] else
      match holds_from (rev ls) with
      | [] => if stuck then [ERR_PROPERTY; Z.of_nat (length ls); 6] else []
      | d => ERR_PROPERTY :: map Z.of_nat d
      end
  end%Z.

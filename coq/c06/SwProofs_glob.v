(* C06 — swarm-level proofs, part 3: Swarm.Close versus the emitter's Close, the
   nil-ed conn table, and the swarm's reference count. *)
From Coq Require Import List Arith Bool Lia.
From Verif Require Import c06.Model c06.Spec c06.SpecSw c06.SwModel c06.Proofs_base c06.Proofs_close c06.Proofs_loop
                          c06.SwProofs_base c06.SwProofs_rel.
Import ListNotations.

Definition cclass (c : cpc) : nat := match c with C0 => 0 | CDone => 2 | _ => 1 end.
Lemma free_cpc_class cap s l s' : free_label l = true -> step cap s l = Some s' ->
  cclass (close_pc s') = cclass (close_pc s).
Proof. intros Hf Hs. destruct l; try discriminate Hf; inv_step Hs; gcs 0; try reflexivity; rewrite ?Heqc; reflexivity. Qed.
Lemma free_nconns cap s l s' : free_label l = true -> step cap s l = Some s' -> nconns s' = nconns s.
Proof. intros Hf Hs. destruct l; try discriminate Hf; inv_step Hs; reflexivity. Qed.

Definition nild_of (x : xpc) : bool := match x with XWaitP | XEmP | XInEm | XRetP | XDone => true | _ => false end.
Definition xclass (x : xpc) : nat := match x with XInEm => 1 | XRetP | XDone => 2 | _ => 0 end.
Definition xwaited (x : xpc) : bool := match x with XEmP | XInEm | XRetP | XDone => true | _ => false end.

(* references a conn still holds: 2 at admission, one released by the close-notification goroutine,
   one by the AcceptStream loop *)
Definition rcount (k : sconn) : nat :=
  2 - (match d_pc k with GFin => 1 | _ => 0 end) - (match s_pc k with LDone => 1 | _ => 0 end).
Definition rsum_of (m : list (nat * sconn)) (n : nat) : nat :=
  list_sum (map (fun c => rcount (get sconn0 c m)) (seq 0 n)).

Lemma rsum_set m n c k : c < n ->
  rsum_of (set c k m) n + rcount (get sconn0 c m) = rsum_of m n + rcount k.
Proof.
  intros Hc. unfold rsum_of.
  pose proof (list_sum_upd (fun c => rcount (get sconn0 c m)) (fun x => rcount (get sconn0 x (set c k m))) c n Hc) as H.
  cbv beta in H. rewrite get_set_same in H. apply H. intros x Hx. rewrite get_set_other by assumption. reflexivity.
Qed.
Lemma rsum_set_out m n c k : n <= c -> rsum_of (set c k m) n = rsum_of m n.
Proof.
  intros Hc. unfold rsum_of. f_equal. apply map_ext_in. intros x Hx. apply in_seq in Hx.
  rewrite get_set_other by lia. reflexivity.
Qed.
Lemma rsum_zero m n : rsum_of m n = 0 -> forall c, c < n -> rcount (get sconn0 c m) = 0.
Proof.
  unfold rsum_of. induction n as [|n IH]; intros H c Hc; [lia|].
  rewrite seq_S, map_app, list_sum_app in H. cbn [map list_sum fold_right] in H. change (0 + n) with n in H.
  destruct (Nat.eq_dec c n) as [->|]; [lia|]. apply IH; lia.
Qed.
Lemma rsum_S m n : rsum_of m (S n) = rsum_of m n + rcount (get sconn0 n m).
Proof. unfold rsum_of. rewrite seq_S, map_app, list_sum_app. cbn [map list_sum fold_right]. change (0 + n) with n. lia. Qed.

Record glob_ok (vo : list vlab) (ss : sstate) : Prop := {
  g_nild : nild ss = nild_of (x_pc ss);
  g_call : vcnt VCloseCall vo = match x_pc ss with X0 => 0 | _ => 1 end;
  g_ret : vcnt VCloseRet vo = match x_pc ss with XDone => 1 | _ => 0 end;
  g_cpc : cclass (close_pc (base ss)) = xclass (x_pc ss);
  g_noopen : nild ss = true -> forall c, is_open (c_reg (gc (base ss) c)) = false;
  g_nconns : nconns (base ss) <= nsw ss;
  g_refs : refs ss = rsum_of (sconns ss) (nconns (base ss));
  g_wait : xwaited (x_pc ss) = true -> refs ss = 0
}.

(* admitted conns are exactly the conns of the emitter LTS *)
Lemma inserted_lt cap vo bo ss c : sexec cap vo bo ss ->
  inserted (s_pc (sg ss c)) = true <-> c < nconns (base ss).
Proof.
  intros He. pose proof (rel_all _ _ _ _ He c) as [R1 _ _ _ _ _].
  pose proof (reg_lt _ _ _ (sexec_exec _ _ _ _ He) c) as RL. rewrite RL.
  unfold rel_sa in R1. destruct (s_pc (sg ss c)), (c_reg (gc (base ss) c)); cbn in *; split; intros; try congruence; try discriminate.
Qed.

Lemma rsum_same m n c k : rcount k = rcount (get sconn0 c m) -> rsum_of (set c k m) n = rsum_of m n.
Proof.
  intros E. destruct (Nat.lt_ge_cases c n) as [H|H].
  - pose proof (rsum_set m n c k H). lia.
  - apply rsum_set_out. assumption.
Qed.

Ltac rsame :=
  match goal with
  | |- context [rsum_of (set ?c ?k ?m) ?n] =>
      rewrite (rsum_same m n c k) by (sprj; unfold rcount; sprj;
        repeat match goal with E : _ = _ |- _ => rewrite E end; reflexivity)
  end.

Lemma glob_inv cap vo bo ss : sexec cap vo bo ss -> glob_ok vo ss.
Proof.
  induction 1 as [|vo bo ss x ss' He IH Hs]; [constructor; cbn; auto; discriminate|].
  pose proof (stab_inv _ _ _ _ He) as [T1 T2].
  pose proof (rel_all _ _ _ _ He) as RA.
  destruct IH as [G1 G2 G3 G4 G5 G6 G7 G8].
  destruct x as [l|e].
  - destruct (free_label l) eqn:F.
    + destruct (sstep_free _ _ _ _ F Hs) as (E & Hb & Hn). rewrite E.
      constructor; cbn [set_base base nild x_pc refs sconns nsw]; auto.
      * destruct l; try discriminate F; unfold vpush; cbn [svis]; vcnts; assumption.
      * destruct l; try discriminate F; unfold vpush; cbn [svis]; vcnts; assumption.
      * rewrite (free_cpc_class _ _ _ _ F Hb). assumption.
      * intros Hnl c. destruct (free_keeps l F cap _ _ c Hb) as (K1 & _). rewrite K1. auto.
      * rewrite (free_nconns _ _ _ _ F Hb). assumption.
      * rewrite (free_nconns _ _ _ _ F Hb). assumption.
    + destruct l; try discriminate F; inv_sstep Hs;
        match goal with Hb : step _ _ _ = Some _ |- _ => pose proof Hb as Hb0; inv_step Hb end;
        unfold vpush; cbn [svis]; sgs; gcs 0;
        (constructor; cbn [base nild x_pc refs sconns nsw nconns close_pc conns]; auto; vcnts; auto;
         try (rewrite ?Heqx; reflexivity); try (rewrite Heqx in *; cbn in *; congruence);
         try rsame; auto).
      all: try (intros Hnl c1; specialize (G5 Hnl c1); unfold gc in *; cbn [conns] in *;
                destruct (Nat.eq_dec c1 c) as [->|?];
                [rewrite get_set_same; prj; first [reflexivity | exact G5] | rewrite get_set_other by assumption; exact G5]).
      all: try (rewrite Heqx in *; cbn in *; rewrite ?Heqc in *; cbn in *; congruence).
      all: apply andb_prop in Heqb0 as [_ Hnn]; apply negb_true_iff in Hnn; apply Nat.eqb_eq in Heqb1; subst c.
      * intros Hnl. congruence.
      * destruct (Nat.lt_ge_cases (nconns (base ss)) (nsw ss)) as [|Hge]; [lia|].
        pose proof (T2 _ Hge) as E. unfold sg in E. rewrite E in Heqs. discriminate.
      * rewrite rsum_S, <- G7. destruct (RA (nconns (base ss))) as [_ _ R3 _ _ _]. unfold sg in R3.
        unfold rcount. rewrite Heqs in *. cbn in R3.
        destruct (d_pc (get sconn0 (nconns (base ss)) (sconns ss))); try discriminate R3. cbn. lia.
      * intros Hw. rewrite G1 in Hnn. destruct (x_pc ss); discriminate.
  - (* swarm-internal steps *)
    pose proof (sstep_base _ _ _ _ Hs) as Eb. cbn in Eb.
    destruct e; inv_sstep Hs; unfold vpush; cbn [svis]; sgs;
      (constructor; cbn [base nild x_pc refs sconns nsw nconns]; auto; vcnts; auto;
       try (rewrite ?Heqx in *; cbn in *; congruence);
       try rsame; auto).
    + (* SAddCall *) apply Nat.eqb_eq in Heqb0. subst c. rewrite rsum_set_out by lia. assumption.
    + (* SLoopDone *)
      assert (Hlt : c < nconns (base ss)) by (apply (inserted_lt _ _ _ _ c He); unfold sg; rewrite Heqs; reflexivity).
      pose proof (rsum_set (sconns ss) (nconns (base ss)) c (w_spc (get sconn0 c (sconns ss)) LDone) Hlt) as W.
      unfold rcount in W. sprj. rewrite Heqs in W. rewrite G7.
      destruct (d_pc (get sconn0 c (sconns ss))); cbn in W; lia.
    + intros Hw. rewrite (G8 Hw). reflexivity.
    + (* SGDone *)
      assert (Hlt : c < nconns (base ss)).
      { apply (inserted_lt _ _ _ _ c He). destruct (RA c) as [_ _ R3 _ _ _]. unfold sg in *. rewrite Heqd in R3.
        cbn in R3. destruct (inserted (s_pc (get sconn0 c (sconns ss)))); [reflexivity|discriminate]. }
      pose proof (rsum_set (sconns ss) (nconns (base ss)) c (w_dpc (get sconn0 c (sconns ss)) GFin) Hlt) as W.
      unfold rcount in W. sprj. rewrite Heqd in W. rewrite G7.
      destruct (s_pc (get sconn0 c (sconns ss))); cbn in W; lia.
    + intros Hw. rewrite (G8 Hw). reflexivity.
    + unfold niling in Heqb. destruct (x_pc ss); try discriminate. assumption.
    + unfold niling in Heqb. destruct (x_pc ss); try discriminate. assumption.
    + unfold niling in Heqb. destruct (x_pc ss); try discriminate. assumption.
    + intros _ c. unfold no_open in Heqb0. rewrite forallb_forall in Heqb0.
      destruct (Nat.lt_ge_cases c (nconns (base ss))) as [Hlt|Hge].
      * specialize (Heqb0 c). rewrite in_seq in Heqb0. apply negb_true_iff. apply Heqb0. lia.
      * destruct (table_inv _ _ _ (sexec_exec _ _ _ _ He)) as [_ T]. rewrite (T c Hge). reflexivity.
Qed.

(* C06 — whole-swarm runs (kind 7 of the wire format): the swarm-level clauses
   of the property judged on what a real Swarm showed to its Notifiees, its
   stream handler, an event-bus subscriber and ConnsToPeer / Connectedness at
   the end.  These clauses are NOT part of the LTS of Model.v; they are covered
   by this monitor on the implementation's traces only.

   WIRE FORMAT:  7 0 NC CO LI m <m integers; the first is the number N of notifiees> <label>*
   labels, 4 integers each (one remote peer, conns numbered in order of first sight):
      9 c n 0  Connected(c) begins at notifiee n     10 c n 0  ... ends
     11 c n 0  Disconnected(c) begins at notifiee n  12 c n 0  ... ends
     17 c 0 0  the stream handler was called for an inbound stream of conn c
     14 0 s 0  the subscriber received EvtPeerConnectednessChanged{s}
     18 / 19   Swarm.Close called / returned
     20 0 s 0  at the end: Connectedness(peer) = s
     21 c b 0  at the end: conn c is (b=1) / is not (b=0) in ConnsToPeer(peer)
     15        quiescent end of run            16  the run did not reach quiescence *)
From Coq Require Import List Arith Bool ZArith.
From Verif Require Import lib.Wire c06.Model c06.Spec gen.Consts_c06.
Import ListNotations.

Inductive slabel :=
| SConnB (c n : nat) | SConnE (c n : nat) | SDiscB (c n : nat) | SDiscE (c n : nat)
| SStream (c : nat) | SPub (s : cst) | SCloseCall | SCloseRet
| SFinal (s : cst) | SListed (c : nat) (b : bool) | SQuiesce.

Definition slabel_eq_dec : forall a b : slabel, {a = b} + {a <> b}.
Proof. decide equality; try apply Nat.eq_dec; try apply Bool.bool_dec; apply cst_eq_dec. Defined.
Definition smem (l : slabel) (h : list slabel) : bool := if in_dec slabel_eq_dec l h then true else false.

Fixpoint slastpub (h : list slabel) : cst :=
  match h with
  | [] => NotConnected
  | SPub s :: _ => s
  | _ :: r => slastpub r
  end.

Definition all_notifiees (N : nat) (f : nat -> bool) : bool := forallb f (seq 0 N).

Definition scheck (N : nat) (l : slabel) (r : list slabel) : list nat :=
  let ok (b : bool) (code : nat) := if b then [] else [code] in
  match l with
  | SConnB c n => ok (negb (smem l r)) 1 ++ ok (negb (smem SCloseRet r)) 3
  | SConnE c n => ok (negb (smem l r) && smem (SConnB c n) r) 1 ++ ok (negb (smem SCloseRet r)) 3
  | SDiscB c n => ok (negb (smem l r) && smem (SConnE c n) r) 2 ++ ok (negb (smem SCloseRet r)) 3
  | SDiscE c n => ok (negb (smem l r) && smem (SDiscB c n) r) 2 ++ ok (negb (smem SCloseRet r)) 3
  | SStream c => ok (all_notifiees N (fun n => smem (SConnE c n) r)) 7
  | SCloseRet =>
      ok (forallb (fun x => match x with
                            | SConnB c n => smem (SConnE c n) r
                            | SDiscB c n => smem (SDiscE c n) r
                            | _ => true
                            end) r) 3
  | SPub s => ok (negb (cst_eqb s (slastpub r)) || cst_eqb s NotConnected) 4
  | SQuiesce =>
      if smem SCloseCall r then [] else
      ok (forallb (fun x => match x with
                            | SFinal s =>
                                cst_eqb (slastpub r) s &&
                                Bool.eqb (cst_eqb s Connected)
                                         (existsb (fun y => match y with SListed _ true => true | _ => false end) r)
                            | SListed c true =>
                                all_notifiees N (fun n => smem (SConnE c n) r && negb (smem (SDiscB c n) r))
                            | SListed c false =>
                                all_notifiees N (fun n => negb (smem (SConnB c n) r) || smem (SDiscE c n) r)
                            | SConnE c n => all_notifiees N (fun n' => smem (SConnE c n') r)
                            | _ => true
                            end) r) 5
  | _ => []
  end.

Fixpoint sholds_from (N : nat) (h : list slabel) : list nat :=
  match h with
  | [] => []
  | l :: r => match sholds_from N r with
              | [] => match scheck N l r with [] => [] | cl => length r :: cl end
              | d => d
              end
  end.

Inductive swl := SW (l : slabel) | SWStuck | SWBad.
Definition sdec_label (code x y : Z) : swl :=
  let c := Z.to_nat x in let n := Z.to_nat y in
  if Z.ltb x 0 || Z.ltb y 0 then SWBad else
  match code with
  | 9 => SW (SConnB c n) | 10 => SW (SConnE c n) | 11 => SW (SDiscB c n) | 12 => SW (SDiscE c n)
  | 17 => SW (SStream c)
  | 14 => match dec_cst y with Some s => SW (SPub s) | None => SWBad end
  | 18 => SW SCloseCall | 19 => SW SCloseRet
  | 20 => match dec_cst y with Some s => SW (SFinal s) | None => SWBad end
  | 21 => SW (SListed c (zbool y))
  | 15 => SW SQuiesce
  | 16 => SWStuck
  | _ => SWBad
  end%Z.
Fixpoint sdec_labels (fuel : nat) (t : list Z) : list slabel * bool * bool :=
  match fuel with
  | O => ([], false, false)
  | S f =>
      match t with
      | [] => ([], false, true)
      | code :: x :: y :: _ :: r =>
          match sdec_label code x y with
          | SW l => let '(ls, st, ok) := sdec_labels f r in (l :: ls, st, ok)
          | SWStuck => ([], true, match r with [] => true | _ => false end)
          | SWBad => ([], false, false)
          end
      | _ => ([], false, false)
      end
  end.

Definition swarm_header (t : list Z) : option (nat * list Z) :=
  match t with
  | 7 :: _ :: nc :: co :: li :: m :: r =>
      if Z.eqb nc network_NotConnected && Z.eqb co network_Connected && Z.eqb li network_Limited
         && Z.leb 1 m && Z.leb m (zlen r)
      then Some (Z.to_nat (hd 0%Z r), zdrop m r) else None
  | _ => None
  end%Z.

Definition monitor_swarm (t : list Z) : list Z :=
  match swarm_header t with
  | None => [ERR_MALFORMED; 0]
  | Some (N, r) =>
      let '(ls, stuck, ok) := sdec_labels (S (length r)) r in
      if negb ok then [ERR_MALFORMED; 1] else
      match sholds_from N (rev ls) with
      | [] => if stuck then [ERR_PROPERTY; Z.of_nat (length ls); 6] else []
      | d => ERR_PROPERTY :: map Z.of_nat d
      end
  end%Z.
(* nothing to conform to: the whole swarm is not modelled; only well-formedness *)
Definition conform_swarm (t : list Z) : list Z :=
  match swarm_header t with
  | None => [ERR_MALFORMED; 0]
  | Some (N, r) => let '(_, _, ok) := sdec_labels (S (length r)) r in if ok then [] else [ERR_MALFORMED; 1]
  end%Z.

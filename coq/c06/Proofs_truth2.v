(* C06 — proofs, part 4b: the pending-event invariant without the "emitter not
   closed" guard, for executions in which no AddConn / RemoveConn is skipped
   (the swarm guarantees that: SwProofs_skip.v), and: an exited run loop left
   nothing in the channel. *)
From Coq Require Import List Arith Bool Lia.
From Verif Require Import c06.Model c06.Spec c06.Proofs_base c06.Proofs_close c06.Proofs_loop c06.Proofs_truth.
Import ListNotations.

Definition unclose (s : state) : state :=
  mkState (conns s) (nconns s) false (wg s) (close_pc s) (cancelled s) (queue s) (loop s) (drain s) (last s).
Definition T2 (s : state) : Prop := forall p, lastof s p = connectedness s p \/ pending s p.

Lemma pending_unclose s p : pending (unclose s) p <-> pending s p.
Proof.
  split; intros [e Hi Hp|e Hl Hp|c Hlt Hp Hs].
  - eapply pend_q; eauto. - eapply pend_l; eauto. - eapply pend_c; eauto.
  - eapply pend_q; eauto. - eapply pend_l; eauto. - eapply pend_c; eauto.
Qed.
Lemma T2_unclose s : T2 s <-> truthful_inv (unclose s).
Proof.
  unfold T2, truthful_inv. split.
  - intros H _ p. destruct (H p) as [E|E]; [left; exact E|right; apply pending_unclose; exact E].
  - intros H p. destruct (H eq_refl p) as [E|E]; [left; exact E|right; apply pending_unclose; exact E].
Qed.

Lemma gc_unclose s c : gc (unclose s) c = gc s c.
Proof. reflexivity. Qed.

Lemma step_unclose cap s l s' : step cap s l = Some s' ->
  (closed s = true -> forall c, l <> AChk c /\ l <> RChk c) ->
  exists u', step cap (unclose s) l = Some u' /\ unclose u' = unclose s'.
Proof.
  intros Hs Hc. pose proof Hs as Hs0. move Hs0 at top.
  destruct l;
    try solve [inv_step Hs; (eexists; split;
               [unfold step; rewrite ?gc_unclose; cbn [unclose conns nconns closed wg close_pc cancelled queue loop drain last];
                repeat match goal with E : _ = _ |- _ => rewrite E end; reflexivity
               | reflexivity])];
    try solve [inv_step Hs;
               try (match goal with
                    | |- context [AChk ?c] => destruct (Hc ltac:(first [assumption|reflexivity]) c) as [H1 H2]; congruence
                    | |- context [RChk ?c] => destruct (Hc ltac:(first [assumption|reflexivity]) c) as [H1 H2]; congruence
                    end);
               (eexists; split;
               [unfold step; rewrite ?gc_unclose; cbn [unclose conns nconns closed wg close_pc cancelled queue loop drain last];
                repeat match goal with E : _ = _ |- _ => rewrite E end; reflexivity
               | reflexivity])].
  all: clear Hs; unfold step in Hs0 |- *; try change (quiescent (unclose s)) with (quiescent s);
    change (loop (unclose s)) with (loop s) in *; change (queue (unclose s)) with (queue s) in *;
    change (close_pc (unclose s)) with (close_pc s) in *; change (nconns (unclose s)) with (nconns s) in *;
    change (last (unclose s)) with (last s) in *;
    try change (connectedness (unclose s) p) with (connectedness s p) in *;
    repeat match type of Hs0 with
           | context [match ?x with _ => _ end] => destruct x eqn:?; try discriminate Hs0
           end; injection Hs0 as <-; eexists; split; reflexivity.
Qed.

Lemma T2_step cap s l s' :
  (forall c, proto_ok (gc s c) = true) -> (forall c, c < nconns s <-> c_reg (gc s c) <> RNone) ->
  step cap s l = Some s' -> (closed s = true -> forall c, l <> AChk c /\ l <> RChk c) -> T2 s -> T2 s'.
Proof.
  intros CI RL Hs Hc H.
  destruct (step_unclose _ _ _ _ Hs Hc) as (u' & Hu & E).
  apply T2_unclose. rewrite <- E.
  assert (G : truthful_inv u') by (eapply (truthful_step_gen cap (unclose s)); [exact CI|exact RL|exact Hu|apply T2_unclose; exact H]).
  destruct (closed u') eqn:Ec.
  - (* only CSet closes *)
    assert (l = CSet) by (destruct l; inv_step Hu; cbn in Ec; try discriminate; try (rewrite ?Heqb in *; discriminate); reflexivity).
    subst l. inv_step Hu. inv_step Hs. apply T2_unclose. intros p. destruct (H p) as [X|X]; [left; exact X|right].
    destruct X as [e Hi Hp|e Hl Hp|c Hlt Hp Hs]; [eapply pend_q|eapply pend_l|eapply pend_c]; eauto.
  - intros _ p. destruct (G Ec p) as [X|X]; [left; exact X|right; apply pending_unclose; exact X].
Qed.

(* after the run loop has exited nothing is left in (or can enter) the channel *)
Lemma exited_queue_empty cap o s : exec cap o s -> loop s = LExited -> queue s = [].
Proof.
  induction 1 as [|o s l s' He IH Hs Hv|o s l s' He IH Hs Hv]; [discriminate| |].
  all: intros Hl; pose proof (close_inv _ _ _ He) as [W1 W2 W3 W4 W5 W6 W7 W8 W9];
    destruct l; try discriminate Hv; pose proof Hs as Hs0; inv_step Hs; gcs 0; try discriminate Hl; auto.
  all: try (exfalso;
            assert (Hw : waited (close_pc s) = true)
              by (rewrite (W4 (W5 Hl)) in W3; destruct (close_pc s); try discriminate W3; reflexivity);
            destruct (waited_no_thread _ _ _ c He Hw) as [A B]; unfold gc in *;
            rewrite ?Heqa in A; rewrite ?Heqr in B; discriminate).
Qed.

(* C06 — swarm-level proofs, part 5: what the observed labels say about a conn's
   swarm-level program counters. *)
From Coq Require Import List Arith Bool Lia.
From Verif Require Import c06.Model c06.Spec c06.SpecSw c06.SwModel c06.Proofs_base c06.SwProofs_base c06.SwProofs_rel.
Import ListNotations.

Definition isS0 (p : spc) : bool := match p with S0 => true | _ => false end.
Definition rejstate (p : spc) : bool := match p with SRejP | SRejInTC | SRejRetP | SRejDone => true | _ => false end.
Definition tbs (p : spc) : nat := match p with SRejInTC | SRejRetP | SRejDone => 1 | _ => 0 end.
Definition tes (p : spc) : nat := match p with SRejRetP | SRejDone => 1 | _ => 0 end.
Definition tbd (d : dpc) : nat := match d with D0 | DUnregP | DTCloseP => 0 | _ => 1 end.
Definition ted (d : dpc) : nat := if tclosed_d d then 1 else 0.

Record hist_ok (c : nat) (vo : list vlab) (ss : sstate) : Prop := {
  h_added : vadded vo c = negb (isS0 (s_pc (sg ss c)));
  h_params : isS0 (s_pc (sg ss c)) = false -> vparams vo c = (s_p (sg ss c), s_lim (sg ss c));
  h_retT : vcnt (VAddRet c true) vo = if s_ret (sg ss c) then 1 else 0;
  h_retF : vcnt (VAddRet c false) vo = match s_pc (sg ss c) with SRejDone => 1 | _ => 0 end;
  h_tcb : vcnt (VTCloseB c) vo = tbs (s_pc (sg ss c)) + tbd (d_pc (sg ss c));
  h_tce : vcnt (VTCloseE c) vo = tes (s_pc (sg ss c)) + ted (d_pc (sg ss c));
  h_seen : In (VSeen c) vo -> inserted (s_pc (sg ss c)) = true;
  h_rej : rejstate (s_pc (sg ss c)) = true -> nild ss = true
}.

Lemma vadded_cons_other l vo c : (forall p lim px, l <> VAddCall c p lim px) -> vadded (l :: vo) c = vadded vo c.
Proof.
  intros H. unfold vadded. cbn [existsb]. destruct l; auto.
  destruct (Nat.eqb c c0) eqn:E; auto. apply Nat.eqb_eq in E. subst. exfalso. eapply H. reflexivity.
Qed.
Lemma vparams_cons_other l vo c : (forall p lim px, l <> VAddCall c p lim px) -> vparams (l :: vo) c = vparams vo c.
Proof.
  intros H. cbn [vparams]. destruct l; auto.
  destruct (Nat.eqb c c0) eqn:E; auto. apply Nat.eqb_eq in E. subst. exfalso. eapply H. reflexivity.
Qed.

Ltac hrw := repeat first [ rewrite vadded_cons_other by (intros; congruence)
                         | rewrite vparams_cons_other by (intros; congruence) ].

(* a step that leaves the swarm-level record of conn c alone and shows nothing about c *)
Lemma hist_frame c vo ss l ss' :
  sg ss' c = sg ss c -> (nild ss = true -> nild ss' = true) ->
  (forall p lim px, l <> VAddCall c p lim px) -> (forall b, l <> VAddRet c b) ->
  l <> VTCloseB c -> l <> VTCloseE c -> l <> VSeen c ->
  hist_ok c vo ss -> hist_ok c (l :: vo) ss'.
Proof.
  intros E Hn H1 H2 H3 H4 H5 []. constructor; rewrite ?E; hrw;
    try (rewrite vcnt_diff by (first [apply H2 | congruence])); auto.
  intros [Hi|Hi]; [congruence|auto].
Qed.
Lemma hist_frame0 c vo ss ss' :
  sg ss' c = sg ss c -> (nild ss = true -> nild ss' = true) -> hist_ok c vo ss -> hist_ok c vo ss'.
Proof. intros E Hn []. constructor; rewrite ?E; auto. Qed.

Lemma hist_all cap vo bo ss : sexec cap vo bo ss -> forall c, hist_ok c vo ss.
Proof.
  induction 1 as [|vo bo ss x ss' He IH Hs]; intros c0.
  - constructor; cbn; auto; try discriminate; intros [] || idtac.
  - specialize (IH c0). pose proof (rel_all _ _ _ _ He c0) as [_ _ R3 _ _ _].
    destruct x as [l|e].
    + (* base labels never touch what the history facts mention, except pcs moved by AddCall etc. *)
      assert (Hk : s_ret (sg ss' c0) = s_ret (sg ss c0) /\ isS0 (s_pc (sg ss' c0)) = isS0 (s_pc (sg ss c0)) /\
                   s_p (sg ss' c0) = s_p (sg ss c0) /\ s_lim (sg ss' c0) = s_lim (sg ss c0) /\
                   tbs (s_pc (sg ss' c0)) = tbs (s_pc (sg ss c0)) /\ tes (s_pc (sg ss' c0)) = tes (s_pc (sg ss c0)) /\
                   tbd (d_pc (sg ss' c0)) = tbd (d_pc (sg ss c0)) /\ ted (d_pc (sg ss' c0)) = ted (d_pc (sg ss c0)) /\
                   rejstate (s_pc (sg ss' c0)) = rejstate (s_pc (sg ss c0)) /\
                   (inserted (s_pc (sg ss c0)) = true -> inserted (s_pc (sg ss' c0)) = true) /\
                   (match s_pc (sg ss' c0) with SRejDone => 1 | _ => 0 end) = (match s_pc (sg ss c0) with SRejDone => 1 | _ => 0 end) /\
                   nild ss' = nild ss).
      { destruct l; inv_sstep Hs; sgs; try (repeat split; auto; fail);
          (split_conn c0 c; sgs; [sprj; rewrite ?Heqs, ?Heqd; repeat split; auto|repeat split; auto]). }
      destruct Hk as (K1&K2&K3&K4&K5&K6&K7&K8&K9&K10&K11&K12). destruct IH.
      assert (G : hist_ok c0 vo ss') by (constructor; rewrite ?K1, ?K2, ?K3, ?K4, ?K5, ?K6, ?K7, ?K8, ?K9, ?K11, ?K12; auto).
      unfold vpush. destruct (svis (XB l)) as [v|] eqn:Ev; [|exact G].
      destruct G. destruct l; try discriminate Ev; injection Ev as <-;
        (constructor; hrw; vcnts; auto; intros [Hi|Hi]; [congruence|auto]).
    + destruct (stab_inv _ _ _ _ He) as [_ T].
      pose proof (rel_all _ _ _ _ He c0) as RA.
      destruct e; inv_sstep Hs; unfold vpush; cbn [svis];
        try (first [ apply (hist_frame0 c0 vo ss); [sgs; reflexivity | cbn; auto | exact IH]
                   | apply (hist_frame c0 vo ss); [sgs; reflexivity | cbn; auto | intros; congruence | intros; congruence
                                       | congruence | congruence | congruence | exact IH] ]);
        try (split_conn c0 c;
             [| first [ apply (hist_frame0 c0 vo ss); [sgs; reflexivity | cbn; auto | exact IH]
                      | apply (hist_frame c0 vo ss); [sgs; reflexivity | cbn; auto | intros; congruence | intros; congruence
                                          | congruence | congruence | congruence | exact IH] ]]).
      all: destruct IH as [I1 I2 I3 I4 I5 I6 I7 I8]; unfold sg in *; sgs;
        try (destruct (get sconn0 c (sconns ss)) as [kp kl kx ks kr kd kq] eqn:Ek; sprj; subst).
      all: try solve [constructor; sgs; sprj; hrw; vcnts; cbn in *; auto;
                      try (rewrite I1; reflexivity); try lia;
                      try (intros [Hi|Hi]; [congruence|auto])].
      * (* SAddCall: fresh conn *)
        apply Nat.eqb_eq in Heqb0. subst c. rewrite (T (nsw ss)) in Ek by lia. injection Ek as <- <- <- <- <- <- <-.
        cbn in *. constructor; sgs; sprj; vcnts; cbn; rewrite ?Nat.eqb_refl; auto; try discriminate.
        intros [Hi|Hi]; [congruence|auto].
      * (* SAddRet c true *)
        apply andb_prop in Heqb1 as [Hst Hr]. apply negb_true_iff in Hr. subst kr.
        constructor; sgs; sprj; hrw; vcnts; cbn in *; auto; try lia. intros [Hi|Hi]; [congruence|auto].
      * (* SSeen *)
        constructor; unfold sg; rewrite ?Ek; sprj; hrw; vcnts; auto. intros _. apply andb_prop in Heqb0 as [Ho _].
        destruct RA as [R1 _ _ _ _ _]. sprj. unfold rel_sa in R1.
        destruct (c_reg (gc (base ss) c)); try discriminate Ho. destruct ks; try discriminate R1; reflexivity.
Qed.

(* C06 — swarm-level LTS: the emitter LTS of Model.v (the [base] component,
   stepped by its own labels) under the discipline of swarm.go / swarm_conn.go.
   NO proofs here.

   Per conn c (numbered in the order Swarm.addConn is called; conns are
   admitted in that order):
     addConn thread [s_pc]: call; conns-lock section (swarm closed -> reject:
       transport Close, return error; else insert = base Reg, refs += 2);
       the window before connectionEventsEmitter.AddConn (base AddCall ..
       AddRet); c.start() spawns the AcceptStream loop; the loop calls
       AcceptStream, ends when the transport conn is closed, calls c.Close()
       (waits for closeOnce) and releases its ref; addConn returns [s_ret].
     doClose thread [d_pc] (closeOnce winner; needs a Conn.Close() caller: a
       harness call [s_creq] or Swarm.close): removeConn (base Unreg, or
       nothing when the table is already nil), transport Close begin / end,
       spawn the goroutine that runs RemoveConn (base RemCall .. RemRet) and
       then releases its ref.
   Further Swarm.Close calls (SClose2Call / SClose2Ret) wait on closeOnce: they return only once the call
   that runs the shutdown has finished it.
   Swarm.Close [x_pc]: call; conns.m = nil under the lock (every open conn
     leaves the table in one atomic block: x_pc = XNiling admits only the base
     Unreg steps), Conn.Close on each; refs.Wait; connectionEventsEmitter.Close
     (base CloseCall .. CloseRet); return.
   Every other base label (callbacks, channel, run loop, lock sections) steps
   the base LTS freely. *)
From Coq Require Import List Arith Bool.
From Verif Require Import c06.Model.
Import ListNotations.

Inductive spc := S0 | SInsP | SRejP | SRejInTC | SRejRetP | SRejDone
               | SWinP | SInAdd | SStartP | LSpawned | LRun | LClosing | LDone.
Inductive dpc := D0 | DUnregP | DTCloseP | DInTC | DSpawnP | GRemP | GInRem | GDoneP | GFin.
Inductive xpc := X0 | XNilP | XNiling | XWaitP | XEmP | XInEm | XRetP | XDone.

Record sconn := mkS {
  s_p : nat; s_lim : bool; s_proxy : bool;
  s_pc : spc; s_ret : bool; d_pc : dpc; s_creq : bool
}.
Definition sconn0 : sconn := mkS 0 false false S0 false D0 false.

Record sstate := mkSS {
  base : state; sconns : list (nat * sconn); nsw : nat; refs : nat; nild : bool; x_pc : xpc
}.
Definition sinit : sstate := mkSS init [] 0 0 false X0.

Definition sg (ss : sstate) (c : nat) : sconn := get sconn0 c (sconns ss).
Definition set_sc (ss : sstate) (c : nat) (k : sconn) : sstate :=
  mkSS (base ss) (set c k (sconns ss)) (nsw ss) (refs ss) (nild ss) (x_pc ss).
Definition set_base (ss : sstate) (b : state) : sstate :=
  mkSS b (sconns ss) (nsw ss) (refs ss) (nild ss) (x_pc ss).
Definition set_refs (ss : sstate) (n : nat) : sstate :=
  mkSS (base ss) (sconns ss) (nsw ss) n (nild ss) (x_pc ss).
Definition set_x (ss : sstate) (x : xpc) : sstate :=
  mkSS (base ss) (sconns ss) (nsw ss) (refs ss) (nild ss) x.
Definition w_spc (k : sconn) (p : spc) : sconn := mkS (s_p k) (s_lim k) (s_proxy k) p (s_ret k) (d_pc k) (s_creq k).
Definition w_dpc (k : sconn) (d : dpc) : sconn := mkS (s_p k) (s_lim k) (s_proxy k) (s_pc k) (s_ret k) d (s_creq k).

Inductive slab :=
| SAddCall (c p : nat) (lim proxy : bool) | SRej (c : nat) | SAddRet (c : nat) (ok : bool)
| SStart (c : nat) | SAccept (c : nat) | SLoopEnd (c : nat) | SLoopDone (c : nat)
| SCloseReq (c : nat) | SDBegin (c : nat) | SDSkip (c : nat)
| STCloseB (c : nat) | STCloseE (c : nat) | SDSpawn (c : nat) | SGDone (c : nat)
| SCloseCall | SNilBegin | SNilEnd | SWaited | SCloseRet
| SSeen (c : nat) | SObsConn (p : nat) (s : cst) | SObsListed (c : nat) (b : bool) | SQuiesce
| SClose2Call | SClose2Ret.
Inductive xlabel := XB (l : label) | XS (e : slab).

Definition inserted (p : spc) : bool :=
  match p with SWinP | SInAdd | SStartP | LSpawned | LRun | LClosing | LDone => true | _ => false end.
Definition started (p : spc) : bool :=
  match p with LSpawned | LRun | LClosing | LDone => true | _ => false end.
Definition tclosed_d (d : dpc) : bool :=
  match d with DSpawnP | GRemP | GInRem | GDoneP | GFin => true | _ => false end.
Definition spawned_d (d : dpc) : bool :=
  match d with GRemP | GInRem | GDoneP | GFin => true | _ => false end.
Definition niling (ss : sstate) : bool := match x_pc ss with XNiling => true | _ => false end.
Definition no_open (b : state) : bool :=
  forallb (fun c => negb (is_open (c_reg (gc b c)))) (seq 0 (nconns b)).

Definition sconn_quiet (k : sconn) : bool :=
  match s_pc k, d_pc k with
  | S0, D0 | SRejDone, D0 => true
  | LRun, D0 => s_ret k
  | LDone, GFin => s_ret k
  | _, _ => false
  end.
Definition squiescent (ss : sstate) : bool :=
  forallb (fun c => sconn_quiet (sg ss c)) (seq 0 (nsw ss)) &&
  match queue (base ss) with [] => true | _ => false end &&
  match loop (base ss) with LIdle | LExited => true | _ => false end &&
  match x_pc ss with X0 | XDone => true | _ => false end.

Definition bstep (cap : nat) (ss : sstate) (l : label) (upd : sstate -> sstate) : option sstate :=
  match step cap (base ss) l with
  | Some b' => Some (set_base (upd ss) b')
  | None => None
  end.
Definition keep (ss : sstate) : sstate := ss.

Definition sstep (cap : nat) (ss : sstate) (x : xlabel) : option sstate :=
  match x with
  | XB l =>
      if niling ss then
        match l with Unreg _ => bstep cap ss l keep | _ => None end
      else
      match l with
      | Reg c p lim =>
          let k := sg ss c in
          match s_pc k with
          | SInsP => if Nat.eqb (s_p k) p && Bool.eqb (s_lim k) lim && negb (nild ss)
                     then bstep cap ss l (fun s => set_refs (set_sc s c (w_spc k SWinP)) (S (S (refs s))))
                     else None
          | _ => None
          end
      | Unreg c =>
          match d_pc (sg ss c) with
          | DUnregP => bstep cap ss l (fun s => set_sc s c (w_dpc (sg ss c) DTCloseP))
          | _ => None
          end
      | AddCall c =>
          match s_pc (sg ss c) with
          | SWinP => bstep cap ss l (fun s => set_sc s c (w_spc (sg ss c) SInAdd))
          | _ => None
          end
      | AddRet c =>
          match s_pc (sg ss c) with
          | SInAdd => bstep cap ss l (fun s => set_sc s c (w_spc (sg ss c) SStartP))
          | _ => None
          end
      | RemCall c =>
          match d_pc (sg ss c) with
          | GRemP => bstep cap ss l (fun s => set_sc s c (w_dpc (sg ss c) GInRem))
          | _ => None
          end
      | RemRet c =>
          match d_pc (sg ss c) with
          | GInRem => bstep cap ss l (fun s => set_sc s c (w_dpc (sg ss c) GDoneP))
          | _ => None
          end
      | CloseCall => match x_pc ss with XEmP => bstep cap ss l (fun s => set_x s XInEm) | _ => None end
      | CloseRet => match x_pc ss with XInEm => bstep cap ss l (fun s => set_x s XRetP) | _ => None end
      | Quiesce => None
      | _ => bstep cap ss l keep
      end
  | XS e =>
      if niling ss then
        match e with
        | SNilEnd => if no_open (base ss)
                     then Some (mkSS (base ss) (sconns ss) (nsw ss) (refs ss) true XWaitP) else None
        | _ => None
        end
      else
      match e with
      | SAddCall c p lim proxy =>
          if Nat.eqb c (nsw ss) then
            Some (mkSS (base ss) (set c (mkS p lim proxy SInsP false D0 false) (sconns ss)) (S (nsw ss))
                       (refs ss) (nild ss) (x_pc ss))
          else None
      | SRej c =>
          match s_pc (sg ss c) with
          | SInsP => if nild ss then Some (set_sc ss c (w_spc (sg ss c) SRejP)) else None
          | _ => None
          end
      | STCloseB c =>
          match s_pc (sg ss c), d_pc (sg ss c) with
          | SRejP, _ => Some (set_sc ss c (w_spc (sg ss c) SRejInTC))
          | _, DTCloseP => Some (set_sc ss c (w_dpc (sg ss c) DInTC))
          | _, _ => None
          end
      | STCloseE c =>
          match s_pc (sg ss c), d_pc (sg ss c) with
          | SRejInTC, _ => Some (set_sc ss c (w_spc (sg ss c) SRejRetP))
          | _, DInTC => Some (set_sc ss c (w_dpc (sg ss c) DSpawnP))
          | _, _ => None
          end
      | SAddRet c false =>
          match s_pc (sg ss c) with SRejRetP => Some (set_sc ss c (w_spc (sg ss c) SRejDone)) | _ => None end
      | SAddRet c true =>
          let k := sg ss c in
          if started (s_pc k) && negb (s_ret k)
          then Some (set_sc ss c (mkS (s_p k) (s_lim k) (s_proxy k) (s_pc k) true (d_pc k) (s_creq k)))
          else None
      | SStart c =>
          match s_pc (sg ss c) with SStartP => Some (set_sc ss c (w_spc (sg ss c) LSpawned)) | _ => None end
      | SAccept c =>
          match s_pc (sg ss c) with LSpawned => Some (set_sc ss c (w_spc (sg ss c) LRun)) | _ => None end
      | SLoopEnd c =>
          match s_pc (sg ss c) with
          | LRun => if tclosed_d (d_pc (sg ss c)) then Some (set_sc ss c (w_spc (sg ss c) LClosing)) else None
          | _ => None
          end
      | SLoopDone c =>
          match s_pc (sg ss c) with
          | LClosing => if spawned_d (d_pc (sg ss c))
                        then Some (set_refs (set_sc ss c (w_spc (sg ss c) LDone)) (pred (refs ss))) else None
          | _ => None
          end
      | SCloseReq c =>
          let k := sg ss c in
          if inserted (s_pc k)
          then Some (set_sc ss c (mkS (s_p k) (s_lim k) (s_proxy k) (s_pc k) (s_ret k) (d_pc k) true))
          else None
      | SDBegin c =>
          let k := sg ss c in
          match d_pc k with
          | D0 => if inserted (s_pc k) && (s_creq k || nild ss) then Some (set_sc ss c (w_dpc k DUnregP)) else None
          | _ => None
          end
      | SDSkip c =>
          match d_pc (sg ss c) with
          | DUnregP => if is_open (c_reg (gc (base ss) c)) then None else Some (set_sc ss c (w_dpc (sg ss c) DTCloseP))
          | _ => None
          end
      | SDSpawn c =>
          match d_pc (sg ss c) with DSpawnP => Some (set_sc ss c (w_dpc (sg ss c) GRemP)) | _ => None end
      | SGDone c =>
          match d_pc (sg ss c) with
          | GDoneP => Some (set_refs (set_sc ss c (w_dpc (sg ss c) GFin)) (pred (refs ss)))
          | _ => None
          end
      | SCloseCall => match x_pc ss with X0 => Some (set_x ss XNilP) | _ => None end
      | SNilBegin => match x_pc ss with XNilP => Some (set_x ss XNiling) | _ => None end
      | SNilEnd => None
      | SWaited => match x_pc ss, refs ss with XWaitP, O => Some (set_x ss XEmP) | _, _ => None end
      | SCloseRet => match x_pc ss with XRetP => Some (set_x ss XDone) | _ => None end
      | SSeen c => if is_open (c_reg (gc (base ss) c)) && negb (nild ss) then Some ss else None
      | SObsConn p s => if squiescent ss && cst_eqb s (connectedness (base ss) p) then Some ss else None
      | SObsListed c b => if squiescent ss && Bool.eqb b (is_open (c_reg (gc (base ss) c))) then Some ss else None
      | SQuiesce => if squiescent ss then Some ss else None
      (* a further Swarm.Close call: closeOnce makes it wait until the call that runs close() has finished *)
      | SClose2Call => Some ss
      | SClose2Ret => match x_pc ss with XRetP | XDone => Some ss | _ => None end
      end
  end.

Fixpoint srun (cap : nat) (ss : sstate) (xs : list xlabel) : option sstate :=
  match xs with
  | [] => Some ss
  | x :: r => match sstep cap ss x with Some s' => srun cap s' r | None => None end
  end.

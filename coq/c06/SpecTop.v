(* C06 — entry points of the correspondence driver: kind 6 = emitter-level
   label traces (Spec.v), kind 7 = whole-swarm runs (SpecSwarm.v),
   kind 8 = swarm-level runs with fake transport conns, inbound streams and mid-run listings (SpecSw.v + SpecSt.v). *)
From Coq Require Import List ZArith.
From Verif Require Import lib.Wire c06.Spec c06.SpecSwarm c06.SpecSw c06.SpecSt.
Import ListNotations.

Definition conform_case (t : list Z) : list Z :=
  match t with
  | 7%Z :: _ => conform_swarm t
  | 8%Z :: _ => conform_st t
  | _ => conform_emitter t
  end.
Definition monitor_case (t : list Z) : list Z :=
  match t with
  | 7%Z :: _ => monitor_swarm t
  | 8%Z :: _ => monitor_st t
  | _ => monitor_emitter t
  end.

(* C06 — entry points of the correspondence driver: kind 6 = emitter-level
   label traces (Spec.v), kind 7 = whole-swarm runs (SpecSwarm.v). *)
From Coq Require Import List ZArith.
From Verif Require Import lib.Wire c06.Spec c06.SpecSwarm c06.SpecSw.
Import ListNotations.

Definition conform_case (t : list Z) : list Z :=
  match t with
  | 7%Z :: _ => conform_swarm t
  | 8%Z :: _ => conform_sw t
  | _ => conform_emitter t
  end.
Definition monitor_case (t : list Z) : list Z :=
  match t with
  | 7%Z :: _ => monitor_swarm t
  | 8%Z :: _ => monitor_sw t
  | _ => monitor_emitter t
  end.

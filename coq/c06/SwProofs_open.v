(* C06 — swarm-level proofs, part 7: an admitted conn whose doClose has not yet
   removed it is in the conn table as long as Swarm.Close has not nil-ed the table. *)
From Coq Require Import List Arith Bool Lia.
From Verif Require Import c06.Model c06.Spec c06.SpecSw c06.SwModel c06.Proofs_base c06.Proofs_loop
                          c06.SwProofs_base c06.SwProofs_rel.
Import ListNotations.

Definition early_d (d : dpc) : bool := match d with D0 | DUnregP => true | _ => false end.
Definition early_x (x : xpc) : bool := match x with X0 | XNilP => true | _ => false end.
Definition open_ok (ss : sstate) (c : nat) : bool :=
  implb (inserted (s_pc (sg ss c)) && early_d (d_pc (sg ss c)) && early_x (x_pc ss)) (is_open (c_reg (gc (base ss) c))).

Lemma open_inv cap vo bo ss : sexec cap vo bo ss -> forall c, open_ok ss c = true.
Proof.
  induction 1 as [|vo bo ss x ss' He IH Hs]; intros c0; [reflexivity|].
  specialize (IH c0). unfold open_ok in *. destruct x as [l|e].
  - destruct (free_label l) eqn:F.
    + destruct (sstep_free _ _ _ _ F Hs) as (E & Hb & _). rewrite E.
      destruct (free_keeps l F cap _ _ c0 Hb) as (K1 & _).
      unfold sg, set_base; cbn [sconns base x_pc]. fold (sg ss c0). rewrite K1. exact IH.
    + destruct l; try discriminate F; inv_sstep Hs;
        match goal with Hb : step _ _ _ = Some _ |- _ => inv_step Hb end; sgs; gcs 0;
        try (split_conn c0 c; sgs; gcs 0; sprj; prj); try exact IH;
        try (rewrite ?Heqs, ?Heqd, ?Heqx in *; cbn in *; rewrite ?andb_false_r in *; try reflexivity; try exact IH).
      all: try (unfold niling in *; destruct (x_pc ss); try discriminate; cbn; rewrite ?andb_false_r; reflexivity).
      all: try (apply implb_true_r || (destruct (early_d _ && early_x _); reflexivity)).
  - pose proof (sstep_base _ _ _ _ Hs) as Eb. cbn in Eb. rewrite Eb.
    destruct e; inv_sstep Hs; sgs; try exact IH;
      try (split_conn c0 c; sgs; sprj; try exact IH);
      try (rewrite ?Heqs, ?Heqd, ?Heqx in *; cbn in *; rewrite ?andb_false_r in *; try reflexivity; try exact IH).
Qed.

(* C06 — proofs, part 4: while the emitter is not closed, a peer whose last
   recorded state differs from its actual connectedness has an event on its
   way (a thread that has not sent its event yet, an event in the channel, or
   the event the run loop is holding). *)
From Coq Require Import List Arith Bool Lia.
From Verif Require Import c06.Model c06.Spec c06.Proofs_base c06.Proofs_close c06.Proofs_loop.
Import ListNotations.

Definition srcA (a : apc) : bool := match a with A0 | AChkP | AEnqP => true | _ => false end.
Definition srcR (r : rpc) : bool := match r with R0 | RChkP | REnqP => true | _ => false end.
Definition is_gone (g : regst) : bool := match g with RGone => true | _ => false end.
Definition srcb (k : conn) : bool := srcA (c_a k) || (is_gone (c_reg k) && srcR (c_r k)).

Inductive pending (s : state) (p : nat) : Prop :=
| pend_q e : In e (queue s) -> e_peer e = p -> pending s p
| pend_l e : loop s = LGot e -> e_peer e = p -> pending s p
| pend_c c : c < nconns s -> c_peer (gc s c) = p -> srcb (gc s c) = true -> pending s p.

Definition truthful_inv (s : state) : Prop :=
  closed s = false -> forall p, lastof s p = connectedness s p \/ pending s p.

Lemma connectedness_same s s' p :
  nconns s' = nconns s -> (forall c, info_of (gc s' c) = info_of (gc s c)) ->
  connectedness s' p = connectedness s p.
Proof. intros Hn Hi. unfold connectedness. rewrite Hn. apply connectedness_ext. intros. apply Hi. Qed.

Lemma truthful_frame s s' :
  nconns s' = nconns s -> last s' = last s ->
  (forall e, In e (queue s) -> In e (queue s')) ->
  (forall e, loop s = LGot e -> loop s' = LGot e) ->
  (forall c, info_of (gc s' c) = info_of (gc s c)) ->
  (forall c, c < nconns s -> srcb (gc s c) = true ->
     srcb (gc s' c) = true \/ exists e, In e (queue s') /\ e_peer e = c_peer (gc s c)) ->
  (closed s' = false -> closed s = false) ->
  truthful_inv s -> truthful_inv s'.
Proof.
  intros Hn Hla Hq Hl Hi Hsrc Hcl IH Hc p.
  rewrite (connectedness_same s s' p Hn Hi). unfold lastof. rewrite Hla.
  destruct (IH (Hcl Hc) p) as [H|H]; [left; exact H|right].
  destruct H as [e He Hp|e He Hp|c Hlt Hp Hs].
  - eapply pend_q; eauto.
  - eapply pend_l; eauto.
  - destruct (Hsrc c Hlt Hs) as [H|(e & He & Hpe)].
    + apply (pend_c s' p c); [lia| |assumption].
      pose proof (Hi c) as E. unfold info_of in E. congruence.
    + eapply pend_q; eauto. congruence.
Qed.

Ltac frame_conn c k :=
  intros c0 Hlt0 Hs0; destruct (Nat.eq_dec c0 c) as [->|Hne];
  [ rewrite ?gc_set_same in *; try (left; assumption)
  | rewrite ?gc_set_other in * by assumption; left; assumption ].

Lemma gc_mk m n cl w cp ca q lp d la c :
  gc (mkState m n cl w cp ca q lp d la) c = get conn0 c m.
Proof. reflexivity. Qed.

Ltac info_goal s c :=
  let c0 := fresh "c0" in
  intros c0; unfold upd_a, upd_r, set_conn, set_wg, set_queue, set_loop, set_cpc; rewrite ?gc_mk; cbn [conns]; fold (gc s c0);
  try reflexivity;
  destruct (Nat.eq_dec c0 c) as [->|?];
  [ rewrite get_set_same; fold (gc s c); reflexivity
  | rewrite get_set_other by assumption; reflexivity ].

Lemma truthful_step_gen cap s l s' :
  (forall c, proto_ok (gc s c) = true) -> (forall c, c < nconns s <-> c_reg (gc s c) <> RNone) ->
  step cap s l = Some s' -> truthful_inv s -> truthful_inv s'.
Proof.
  intros CI RL Hs IH.
  destruct l.
  all: try solve [ inv_step Hs; (apply (truthful_frame s);
    [ reflexivity | reflexivity
    | intros e0; unfold upd_a, upd_r, set_conn, set_wg, set_queue, set_loop, set_cpc; cbn [queue]; try (rewrite in_app_iff); tauto
    | unfold upd_a, upd_r, set_conn, set_wg, set_queue, set_loop, set_cpc; cbn [loop]; intros e0 H0; (assumption || congruence)
    | first [info_goal s c | intros; reflexivity]
    | first [ intros; left; assumption
            | intros c0 Hlt0 Hs0; unfold upd_a, upd_r, set_conn, set_wg, set_queue, set_loop, set_cpc; rewrite ?gc_mk; cbn [conns queue];
              destruct (Nat.eq_dec c0 c) as [->|?];
              [ rewrite get_set_same; fold (gc s c) in *;
                destruct (gc s c) as [kp kl kg ka kr kcn kpd]; prj; subst; cbn in *;
                first [ left; assumption | left; reflexivity
                      | right; eexists; split; [apply in_or_app; right; left; reflexivity|reflexivity] ]
              | rewrite get_set_other by assumption; left; exact Hs0 ] ]
    | unfold upd_a, upd_r, set_conn, set_wg, set_queue, set_loop, set_cpc; cbn [closed]; congruence
    | exact IH ]) ].
  - (* Reg *)
    inv_step Hs. apply Nat.eqb_eq in Heqb. subst c. intros Hc q. specialize (IH Hc q).
    unfold lastof, connectedness in *. cbn [last nconns] in *.
    assert (Hold : forall c, c < nconns s ->
              gc (mkState (set (nconns s) (mkConn p lim ROpen A0 R0 false false) (conns s)) (S (nconns s))
                          (closed s) (wg s) (close_pc s) (cancelled s) (queue s) (loop s) (drain s) (last s)) c = gc s c).
    { intros c Hlt. rewrite gc_mk. rewrite get_set_other by lia. reflexivity. }
    destruct (Nat.eq_dec p q) as [->|Hpq].
    + right. apply (pend_c _ q (nconns s)); cbn [nconns]; [lia| |]; rewrite gc_mk, get_set_same; reflexivity.
    + destruct IH as [IH|IH].
      * left. rewrite IH. rewrite connectedness_S.
        -- apply connectedness_ext. intros c Hlt. rewrite Hold by assumption. reflexivity.
        -- rewrite gc_mk, get_set_same. cbn. congruence.
      * right. destruct IH as [e Hi Hp|e Hl Hp|c Hlt Hp Hs].
        -- eapply pend_q; eauto.
        -- eapply pend_l; eauto.
        -- apply (pend_c _ q c); cbn [nconns]; [lia| |]; rewrite Hold by assumption; assumption.
  - (* Unreg *)
    inv_step Hs. intros Hc q. specialize (IH Hc q).
    pose proof (CI c) as Hp. unfold proto_ok in Hp. rewrite Heqr in Hp.
    destruct (c_r (gc s c)) eqn:Er; try (rewrite !andb_false_r in Hp; discriminate Hp).
    assert (Hlt : c < nconns s) by (apply RL; congruence).
    destruct (Nat.eq_dec (c_peer (gc s c)) q) as [Hq|Hq].
    + right. apply (pend_c _ q c); [exact Hlt| |]; rewrite gc_set_same; prj; [assumption|].
      unfold srcb. prj. rewrite Er. cbn. apply orb_true_r.
    + destruct IH as [IH|IH].
      * left. unfold lastof in *. cbn [last set_conn]. rewrite IH. unfold connectedness. cbn [nconns set_conn].
        apply connectedness_other_peer. intros c0 Hc0. destruct (Nat.eq_dec c0 c) as [->|Hne].
        -- right. rewrite gc_set_same. cbn. split; assumption.
        -- left. rewrite gc_set_other by assumption. reflexivity.
      * right. destruct IH as [e Hi Hpe|e Hl Hpe|c0 Hlt0 Hp0 Hs0].
        -- eapply pend_q; eauto.
        -- eapply pend_l; eauto.
        -- destruct (Nat.eq_dec c0 c) as [->|Hne]; [congruence|].
           apply (pend_c _ q c0); [exact Hlt0| |]; rewrite gc_set_other by assumption; assumption.
  - (* Read *)
    assert (G : forall lp, truthful_inv (mkState (conns s) (nconns s) (closed s) (wg s) (close_pc s) (cancelled s)
                                                (queue s) lp (drain s) (set p s0 (last s))) ->
                truthful_inv (mkState (conns s) (nconns s) (closed s) (wg s) (close_pc s) (cancelled s)
                                      (queue s) lp (drain s) (set p s0 (last s)))) by auto.
    assert (K : forall lp e, loop s = LGot e -> p = e_peer e -> s0 = connectedness s p ->
                (forall e', lp <> LGot e') ->
                truthful_inv (mkState (conns s) (nconns s) (closed s) (wg s) (close_pc s) (cancelled s)
                                      (queue s) lp (drain s) (set p s0 (last s)))).
    { intros lp e El Hp Hst Hlp Hc q. specialize (IH Hc q). unfold lastof, connectedness in *. cbn [last nconns conns] in *.
      destruct (Nat.eq_dec q p) as [->|Hne].
      - left. rewrite get_set_same. exact Hst.
      - rewrite get_set_other by assumption. destruct IH as [IH|IH]; [left; exact IH|right].
        destruct IH as [e' Hi Hpe|e' Hl Hpe|c0 Hlt0 Hp0 Hs0].
        + eapply pend_q; eauto.
        + rewrite El in Hl. injection Hl as <-. congruence.
        + apply (pend_c _ q c0); assumption. }
    inv_step Hs; apply andb_prop in Heqb as [Hp Hst]; apply Nat.eqb_eq in Hp; apply cst_eqb_eq in Hst;
      eapply K; eauto; intros; discriminate.
  - (* AChk *)
    inv_step Hs.
    + intros Hc. cbn in Hc. congruence.
    + apply (truthful_frame s); try reflexivity; auto.
      * info_goal s c.
      * intros c0 Hlt0 Hs0. unfold upd_a, set_conn, set_wg. rewrite gc_mk. cbn [conns].
        destruct (Nat.eq_dec c0 c) as [->|?].
        -- left. rewrite get_set_same. reflexivity.
        -- left. rewrite get_set_other by assumption. exact Hs0.
  - (* RChk *)
    inv_step Hs.
    + intros Hc. cbn in Hc. congruence.
    + apply (truthful_frame s); try reflexivity; auto.
      * info_goal s c.
      * intros c0 Hlt0 Hs0. unfold upd_r, set_conn, set_wg. rewrite gc_mk. cbn [conns].
        destruct (Nat.eq_dec c0 c) as [->|?].
        -- left. rewrite get_set_same. unfold srcb in *. prj. fold (gc s c) in *. rewrite Heqr in Hs0. cbn in *. exact Hs0.
        -- left. rewrite get_set_other by assumption. exact Hs0.
  - (* LDeq *)
    inv_step Hs. intros Hc q. specialize (IH Hc q). unfold lastof, connectedness in *. cbn [last nconns conns] in *.
    destruct IH as [IH|IH]; [left; exact IH|right].
    destruct IH as [e' Hi Hpe|e' Hl Hpe|c0 Hlt0 Hp0 Hs0].
    + rewrite Heql0 in Hi. destruct Hi as [->|Hi].
      * eapply pend_l; [reflexivity|assumption].
      * eapply pend_q; eauto.
    + congruence.
    + apply (pend_c _ q c0); assumption.
Qed.

Lemma truthful_step cap o s l s' : exec cap o s -> step cap s l = Some s' -> truthful_inv s -> truthful_inv s'.
Proof.
  intros He. apply truthful_step_gen.
  - intros c. apply (conn_inv_all _ _ _ He c).
  - apply (reg_lt _ _ _ He).
Qed.

Lemma truthful_all cap o s : exec cap o s -> truthful_inv s.
Proof.
  induction 1 as [|o s l s' He IH Hs Hv|o s l s' He IH Hs Hv].
  - intros _ p. left. reflexivity.
  - eapply truthful_step; eauto.
  - eapply truthful_step; eauto.
Qed.

(* C06 — stream level: the swarm-level LTS of SwModel.v (component [sw], stepped
   by its own labels) extended with what swarm_conn.go's AcceptStream loop does
   with inbound streams, with the part of Swarm.refs they hold, and with a
   reader of the conn table (ConnsToPeer / Conns under conns.RLock) at ANY moment.
   NO proofs here.

   Per conn c, after c.start() spawned the loop and the loop called AcceptStream
   (s_pc = LRun):
     TStreamIn c        AcceptStream returned an inbound stream; the loop does
                        swarm.refs.Add(1) and spawns the stream goroutine
     TStreamAdded c ok  the stream goroutine's c.addStream returned and the
                        goroutine released its ref (refs.Done is NOT deferred:
                        the handler runs outside Swarm.Close's wait).  ok=true:
                        addStream registered the stream in c.streams.m and took a
                        ref for it (so the count is unchanged), possible only
                        before the transport Close begins; ok=false (the stream
                        is dropped, the ref is gone) only once doClose has nil-ed
                        c.streams.m (after removeConn, before the transport Close)
     THandle c          the swarm's stream handler is called with a stream of c
     TStreamClosed c    an open stream of c is closed / reset (by its user at any
                        time, or by doClose's reset loop) and releases its ref
   doClose resets every registered stream before it spawns the notification
   goroutine: SDSpawn c needs no open stream of c.
   Swarm.Close's refs.Wait (label SWaited of SwModel) additionally needs the
   stream goroutines' and the open streams' refs to be released: the real
   WaitGroup is refs (sw) + t_refs.
     TListed c b        a reader takes conns.RLock and finds c listed (b=true) or
                        not: b = c is in the table.  Not while Swarm.close holds
                        the lock (niling). *)
From Coq Require Import List Arith Bool.
From Verif Require Import c06.Model c06.SwModel.
Import ListNotations.

Record tstate := mkT {
  sw : sstate;
  t_refs : nat;                 (* refs held by stream goroutines still in addStream and by open streams *)
  t_add : list (nat * nat);     (* per conn: accepted streams whose addStream has not returned *)
  t_hand : list (nat * nat);    (* per conn: added streams not yet given to the handler *)
  t_open : list (nat * nat)     (* per conn: registered streams not yet closed *)
}.
Definition tinit : tstate := mkT sinit 0 [] [] [].

Inductive tlabel :=
| TX (x : xlabel)
| TStreamIn (c : nat) | TStreamAdded (c : nat) (ok : bool) | THandle (c : nat) | TStreamClosed (c : nat)
| TListed (c : nat) (b : bool).

(* c.streams.m is certainly still there / certainly nil *)
Definition streams_open (d : dpc) : bool := match d with D0 | DUnregP | DTCloseP => true | _ => false end.
Definition streams_nil_possible (d : dpc) : bool := match d with D0 | DUnregP => false | _ => true end.

Definition lift_sw (ts : tstate) (o : option sstate) : option tstate :=
  match o with Some s' => Some (mkT s' (t_refs ts) (t_add ts) (t_hand ts) (t_open ts)) | None => None end.

Definition tstep (cap : nat) (ts : tstate) (l : tlabel) : option tstate :=
  match l with
  | TX (XS SWaited) =>
      match t_refs ts with O => lift_sw ts (sstep cap (sw ts) (XS SWaited)) | S _ => None end
  | TX (XS (SDSpawn c)) =>
      match get 0 c (t_open ts) with O => lift_sw ts (sstep cap (sw ts) (XS (SDSpawn c))) | S _ => None end
  | TX x => lift_sw ts (sstep cap (sw ts) x)
  | TStreamIn c =>
      match s_pc (sg (sw ts) c) with
      | LRun => Some (mkT (sw ts) (S (t_refs ts)) (set c (S (get 0 c (t_add ts))) (t_add ts)) (t_hand ts) (t_open ts))
      | _ => None
      end
  | TStreamAdded c ok =>
      match get 0 c (t_add ts) with
      | S n =>
          let d := d_pc (sg (sw ts) c) in
          if ok then
            if streams_open d
            then Some (mkT (sw ts) (t_refs ts) (set c n (t_add ts)) (set c (S (get 0 c (t_hand ts))) (t_hand ts))
                           (set c (S (get 0 c (t_open ts))) (t_open ts)))
            else None
          else
            if streams_nil_possible d
            then Some (mkT (sw ts) (pred (t_refs ts)) (set c n (t_add ts)) (t_hand ts) (t_open ts))
            else None
      | O => None
      end
  | THandle c =>
      match get 0 c (t_hand ts) with
      | S n => Some (mkT (sw ts) (t_refs ts) (t_add ts) (set c n (t_hand ts)) (t_open ts))
      | O => None
      end
  | TStreamClosed c =>
      match get 0 c (t_open ts) with
      | S n => Some (mkT (sw ts) (pred (t_refs ts)) (t_add ts) (t_hand ts) (set c n (t_open ts)))
      | O => None
      end
  | TListed c b =>
      if negb (niling (sw ts)) && Bool.eqb b (is_open (c_reg (gc (base (sw ts)) c))) then Some ts else None
  end.

Fixpoint trun (cap : nat) (ts : tstate) (ls : list tlabel) : option tstate :=
  match ls with
  | [] => Some ts
  | l :: r => match tstep cap ts l with Some t' => trun cap t' r | None => None end
  end.

(* the swarm-level schedule inside a stream-level schedule *)
Fixpoint tsched (ls : list tlabel) : list xlabel :=
  match ls with
  | [] => []
  | TX x :: r => x :: tsched r
  | _ :: r => tsched r
  end.

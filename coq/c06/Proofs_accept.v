(* C06 — proofs, part 7: soundness of the acceptance check used for the
   correspondence: a label trace accepted by [trace_accepted] is the visible
   projection of a schedule of the LTS; hence it satisfies the monitor. *)
From Coq Require Import List Arith Bool Lia.
From Verif Require Import c06.Model c06.Spec c06.Proofs_base c06.Proofs_main c06.Proofs_thms.
Import ListNotations.

Lemma run_app cap s a b : run cap s (a ++ b) =
  match run cap s a with Some s1 => run cap s1 b | None => None end.
Proof.
  revert s. induction a as [|l a IH]; intros s; cbn [app run]; [reflexivity|].
  destruct (step cap s l); [apply IH|reflexivity].
Qed.

Lemma in_states_true s l : in_states s l = true -> In s l.
Proof.
  unfold in_states. intros H. apply existsb_exists in H. destruct H as (t & Ht & E).
  destruct (state_eq_dec s t); [subst; assumption|discriminate].
Qed.

Lemma add_new_incl xs : forall seen,
  (forall x, In x (fst (add_new xs seen)) -> In x xs) /\
  (forall x, In x (snd (add_new xs seen)) -> In x xs \/ In x seen).
Proof.
  induction xs as [|y xs IH]; intros seen; cbn [add_new].
  - split; intros x H; [destruct H|right; exact H].
  - destruct (in_states y seen) eqn:E.
    + destruct (IH seen) as [I1 I2]. split; intros x H; [right; auto|]. destruct (I2 x H); [left; right|right]; assumption.
    + destruct (IH (y :: seen)) as [I1 I2]. destruct (add_new xs (y :: seen)) as [f sn]. cbn [fst snd] in *.
      split; intros x H.
      * destruct H as [->|H]; [left; reflexivity|right; auto].
      * destruct (I2 x H) as [H'|[->|H']]; [left; right; assumption|left; left; reflexivity|right; assumption].
Qed.

Lemma tau_candidates_invisible s l : In l (tau_candidates s) -> vis l = false.
Proof.
  unfold tau_candidates. intros H. apply in_app_or in H. destruct H as [H|H].
  - apply in_flat_map in H. destruct H as (c & _ & H). cbn in H. intuition (subst; reflexivity).
  - cbn in H. intuition (subst; reflexivity).
Qed.

(* y is reachable from a state of S by internal steps only *)
Definition treach (cap : nat) (S : list state) (y : state) : Prop :=
  exists s0 ls, In s0 S /\ run cap s0 ls = Some y /\ filter vis ls = [].

Lemma tau_succ_reach cap S x y : treach cap S x -> In y (tau_succ cap x) -> treach cap S y.
Proof.
  intros (s0 & ls & Hi & Hr & Hf) Hy. unfold tau_succ in Hy. apply in_flat_map in Hy.
  destruct Hy as (l & Hl & Hy). destruct (step cap x l) as [x'|] eqn:Es; [|destruct Hy].
  destruct Hy as [<-|[]]. exists s0, (ls ++ [l]). split; [assumption|]. split.
  - rewrite run_app, Hr. cbn [run]. rewrite Es. reflexivity.
  - rewrite filter_app, Hf. cbn [filter app]. rewrite (tau_candidates_invisible _ _ Hl). reflexivity.
Qed.

Lemma closure_sound cap S fuel : forall frontier seen,
  (forall x, In x frontier -> treach cap S x) -> (forall x, In x seen -> treach cap S x) ->
  forall x, In x (closure fuel cap frontier seen) -> treach cap S x.
Proof.
  induction fuel as [|f IH]; intros frontier seen Hf Hs x Hx; cbn [closure] in Hx; [auto|].
  destruct frontier as [|y fr]; [auto|].
  remember (y :: fr) as frontier.
  assert (Hn : forall z, In z (flat_map (tau_succ cap) frontier) -> treach cap S z).
  { intros z Hz. apply in_flat_map in Hz. destruct Hz as (w & Hw & Hz). eapply tau_succ_reach; eauto. }
  destruct (add_new_incl (flat_map (tau_succ cap) frontier) seen) as [I1 I2].
  destruct (add_new (flat_map (tau_succ cap) frontier) seen) as [fresh seen'] eqn:E. cbn [fst snd] in *.
  eapply IH; [| |exact Hx].
  - intros z Hz. apply Hn, I1, Hz.
  - intros z Hz. destruct (I2 z Hz); auto.
Qed.

Lemma after_label_sound cap S l x : In x (after_label cap S l) ->
  exists s0 ls, In s0 S /\ run cap s0 (ls ++ [l]) = Some x /\ filter vis ls = [].
Proof.
  unfold after_label. intros H.
  destruct (add_new_incl (flat_map (fun s => match step cap s l with Some s' => [s'] | None => [] end)
                                   (closure 4096 cap S S)) []) as [I1 _].
  apply I1 in H. apply in_flat_map in H. destruct H as (y & Hy & Hx).
  destruct (step cap y l) as [y'|] eqn:Es; [|destruct Hx]. destruct Hx as [<-|[]].
  assert (R : treach cap S y).
  { eapply closure_sound; [| |exact Hy]; intros z Hz; exists z, []; auto. }
  destruct R as (s0 & ls & Hi & Hr & Hf). exists s0, ls. split; [assumption|]. split; [|assumption].
  rewrite run_app, Hr. cbn [run]. rewrite Es. reflexivity.
Qed.

Lemma accept_from_sound cap obs : forall S i, S <> [] -> forallb vis obs = true ->
  accept_from cap S obs i = None ->
  exists s0 sched s, In s0 S /\ run cap s0 sched = Some s /\ filter vis sched = obs.
Proof.
  induction obs as [|l obs IH]; intros S i Hne Hv H.
  - destruct S as [|s0 S]; [contradiction|]. exists s0, [], s0. cbn. auto.
  - cbn [accept_from] in H. cbn [forallb] in Hv. apply andb_prop in Hv as [Hl Hv].
    destruct (after_label cap S l) as [|y S'] eqn:E; [discriminate|].
    destruct (IH (y :: S') (Datatypes.S i) ltac:(discriminate) Hv H) as (s1 & sched & s & Hi & Hr & Hf).
    rewrite <- E in Hi. apply after_label_sound in Hi. destruct Hi as (s0 & ls & Hi & Hr0 & Hf0).
    exists s0, ((ls ++ [l]) ++ sched), s. split; [assumption|]. split.
    + rewrite run_app, Hr0. assumption.
    + rewrite !filter_app, Hf0, Hf. cbn [filter app]. rewrite Hl. reflexivity.
Qed.

Lemma trace_accepted_sound cap obs : forallb vis obs = true -> trace_accepted cap obs = true ->
  exists sched s, run cap init sched = Some s /\ filter vis sched = obs.
Proof.
  unfold trace_accepted. intros Hv H. destruct (accept_from cap [init] obs 0) eqn:E; [discriminate|].
  destruct (accept_from_sound cap obs [init] 0 ltac:(discriminate) Hv E) as (s0 & sched & s & [<-|[]] & Hr & Hf).
  eauto.
Qed.

Lemma accepted_trace_holds cap tr : forallb vis tr = true -> trace_accepted cap tr = true ->
  holds_from (rev tr) = [].
Proof.
  intros Hv H. destruct (trace_accepted_sound cap tr Hv H) as (sched & s & Hr & Hf).
  pose proof (holds_sched _ _ _ Hr) as Ho. unfold obs in Ho. rewrite Hf in Ho. exact Ho.
Qed.

(* C06 — property theorems only.  Each is closed by [exact] of a lemma from
   Proofs_*.v and followed by Print Assumptions.

   Reading guide.  [run cap init sched = Some s]: sched is a schedule of the
   LTS of Model.v — a chronological list of labels, one per atomic step of
   some thread (AddConn / RemoveConn thread of a conn, run loop, Close, the
   swarm registering / removing a conn); ANY interleaving, any number of conns
   and peers, any channel capacity cap.  [filter vis sched] is what an
   observer (the harness) sees; [obs sched] is the same list most recent
   first.  [cnt l h] counts occurrences of label l. *)
From Coq Require Import List Arith Bool ZArith.
From Verif Require Import lib.Wire c06.Model c06.Spec c06.Proofs_base c06.Proofs_main c06.Proofs_thms
                          c06.Proofs_accept gen.Consts_c06
                          c06.SpecSw c06.SwModel c06.SwProofs_base c06.SwProofs_quiet
                          c06.StModel c06.SpecSt c06.StProofs c06.StProofs2.
Import ListNotations.

(* THE property on traces: the monitor that judges the implementation's traces
   (clauses 1-5 of Spec.v, evaluated at every observed label) accepts the
   observable trace of every schedule of the model. *)
Theorem c06_monitor_accepts_every_schedule : forall cap sched s,
  run cap init sched = Some s -> holds_from (obs sched) = [].
Proof. exact holds_sched. Qed.
Print Assumptions c06_monitor_accepts_every_schedule.

(* the acceptance check of the correspondence is sound: an accepted label trace
   is the visible part of a schedule of the model, hence satisfies the monitor *)
Theorem c06_accepted_trace_is_model_trace : forall cap tr,
  forallb vis tr = true -> trace_accepted cap tr = true ->
  exists sched s, run cap init sched = Some s /\ filter vis sched = tr.
Proof. exact trace_accepted_sound. Qed.
Print Assumptions c06_accepted_trace_is_model_trace.

Theorem c06_accepted_trace_holds : forall cap tr,
  forallb vis tr = true -> trace_accepted cap tr = true -> holds_from (rev tr) = [].
Proof. exact accepted_trace_holds. Qed.
Print Assumptions c06_accepted_trace_holds.

(* Connected begins and ends at most once per conn; when AddConn(c) has
   returned it was delivered exactly once — unless the emitter had been closed
   (Close called), in which case it was not delivered at all *)
Theorem connected_exactly_once : forall cap sched s c, run cap init sched = Some s ->
  cnt (ConnB c) (obs sched) <= 1 /\ cnt (ConnE c) (obs sched) <= 1 /\
  (In (AddRet c) (obs sched) ->
     (cnt (ConnB c) (obs sched) = 1 /\ cnt (ConnE c) (obs sched) = 1) \/
     (cnt (ConnB c) (obs sched) = 0 /\ In CloseCall (obs sched))).
Proof. exact connected_exactly_once_l. Qed.
Print Assumptions connected_exactly_once.

Theorem disconnected_at_most_once : forall cap sched s c, run cap init sched = Some s ->
  cnt (DiscB c) (obs sched) <= 1 /\ cnt (DiscE c) (obs sched) <= 1.
Proof. exact disconnected_at_most_once_l. Qed.
Print Assumptions disconnected_at_most_once.

(* at quiescence (every call returned, channel empty, loop idle): a conn that saw
   Connected and whose RemoveConn returned saw Disconnected exactly once, unless
   Close was called before that RemoveConn returned; and if Close was never
   called, every conn that saw Connected and was removed from the swarm saw
   Disconnected begin and end exactly once *)
Theorem disconnected_exactly_once_at_quiescence : forall cap sched s c,
  run cap init sched = Some s -> quiescent s = true ->
  (In (ConnE c) (obs sched) -> In (RemRet c) (obs sched) ->
     cnt (DiscE c) (obs sched) = 1 \/ close_before_remret c (obs sched) = true) /\
  (~ In CloseCall (obs sched) -> In (ConnB c) (obs sched) -> In (Unreg c) (obs sched) ->
     cnt (DiscB c) (obs sched) = 1 /\ cnt (DiscE c) (obs sched) = 1).
Proof. exact disconnected_exactly_once_at_quiescence_l. Qed.
Print Assumptions disconnected_exactly_once_at_quiescence.

(* Disconnected(c) never begins before Connected(c) has returned (the parked
   path), only for a conn that was removed, and not a second time *)
Theorem disconnect_after_connected_returned : forall cap sched s c before after,
  run cap init sched = Some s -> filter vis sched = before ++ DiscB c :: after ->
  In (ConnE c) before /\ In (Unreg c) before /\ ~ In (DiscB c) before.
Proof. exact disconnect_after_connected_returned_l. Qed.
Print Assumptions disconnect_after_connected_returned.

(* when Close returns every callback that began has ended, and afterwards no
   callback begins or ends and the run loop neither reads nor publishes *)
Theorem close_waits_for_callbacks : forall cap sched s before after,
  run cap init sched = Some s -> filter vis sched = before ++ CloseRet :: after ->
  (forall c, cnt (ConnB c) before = cnt (ConnE c) before /\ cnt (DiscB c) before = cnt (DiscE c) before) /\
  (forall l, In l after -> delivery l = false).
Proof. exact close_waits_l. Qed.
Print Assumptions close_waits_for_callbacks.

(* a published state differs from the previous one published for that peer
   (initially NotConnected), except a NotConnected for which there is a conn of
   the peer whose AddConn was called and which has already been removed *)
Theorem no_repeated_state : forall cap sched s p st before after,
  run cap init sched = Some s -> filter vis sched = before ++ Pub p st :: after ->
  st <> lastpub p (rev before) \/
  (st = NotConnected /\ exists c, vanished (rev before) p c = true).
Proof. exact no_repeated_state_l. Qed.
Print Assumptions no_repeated_state.

(* at quiescence, Close never called: for every peer the last published state is
   the peer's actual connectedness (as the observed Reg / Unreg define it), and
   the model's conn table is exactly what Reg / Unreg say *)
Theorem last_event_truthful : forall cap sched s,
  run cap init sched = Some s -> quiescent s = true -> ~ In CloseCall (obs sched) ->
  (forall p, lastpub p (obs sched) = actual (obs sched) p) /\
  (forall c, minfo (obs sched) c = info_of (gc s c)) /\ nregs (obs sched) = nconns s.
Proof. exact last_event_truthful_l. Qed.
Print Assumptions last_event_truthful.

(* ---- swarm level (SwModel.v): the emitter LTS under the discipline of swarm.go / swarm_conn.go ----
   [srun cap sinit xs = Some ss]: xs is a schedule of the swarm-level LTS: Swarm.addConn threads (conns-lock
   section with the closed check, insert + two refs, the window before AddConn, AddConn, c.start(), the
   AcceptStream loop), doClose threads (removeConn, transport Close begin/end, the notification goroutine),
   Swarm.Close (nil the table, close every conn, refs.Wait, emitter Close), interleaved arbitrarily with every
   step of the emitter LTS.  [vobs xs]: what the swarm's observer sees, most recent first. *)

(* every swarm-level schedule is a schedule of the emitter LTS (so all theorems above apply to it) *)
Theorem c06_swarm_refines_emitter : forall cap xs ss,
  srun cap sinit xs = Some ss -> exec cap (bobs_of xs []) (base ss).
Proof. exact srun_refines. Qed.
Print Assumptions c06_swarm_refines_emitter.

(* THE swarm-level property on traces: the monitor of SpecSw.v (run on the implementation's swarm-level
   traces) accepts the observable trace of every swarm-level schedule *)
Theorem c06_swarm_monitor_accepts_every_schedule : forall cap xs ss,
  srun cap sinit xs = Some ss -> vholds_from (vobs xs) = [].
Proof. exact vholds_srun. Qed.
Print Assumptions c06_swarm_monitor_accepts_every_schedule.

(* Swarm.Close returns only after every admitted conn was announced and retired exactly once *)
Theorem swarm_close_waits_for_admitted_conns : forall cap xs ss c,
  srun cap sinit xs = Some ss -> x_pc ss = XRetP \/ x_pc ss = XDone -> c < nconns (base ss) ->
  vcnt (VConnB c) (vobs xs) = 1 /\ vcnt (VConnE c) (vobs xs) = 1 /\
  vcnt (VDiscB c) (vobs xs) = 1 /\ vcnt (VDiscE c) (vobs xs) = 1.
Proof. exact swarm_close_delivers. Qed.
Print Assumptions swarm_close_waits_for_admitted_conns.

(* the same for EVERY Swarm.Close call (closeOnce: a further, overlapping call waits for the shutdown): once any
   Swarm.Close call has returned, every admitted conn has had each callback exactly once *)
Theorem every_swarm_close_call_waits_for_admitted_conns : forall cap xs ss c,
  srun cap sinit xs = Some ss -> In VCloseRet (vobs xs) \/ In VClose2Ret (vobs xs) -> c < nconns (base ss) ->
  vcnt (VConnB c) (vobs xs) = 1 /\ vcnt (VConnE c) (vobs xs) = 1 /\
  vcnt (VDiscB c) (vobs xs) = 1 /\ vcnt (VDiscE c) (vobs xs) = 1.
Proof. exact any_close_return_delivers. Qed.
Print Assumptions every_swarm_close_call_waits_for_admitted_conns.

(* ... where a conn that was seen listed in Conns(), or announced, is an admitted one *)
Theorem listed_conn_is_admitted : forall cap xs ss c, srun cap sinit xs = Some ss ->
  In (VSeen c) (vobs xs) \/ In (VConnB c) (vobs xs) -> c < nconns (base ss).
Proof. exact seen_listed_admitted. Qed.
Print Assumptions listed_conn_is_admitted.

(* Disconnected(c) begins only after the transport-level Close of c has returned (and after Connected returned) *)
Theorem disconnected_after_transport_close : forall cap xs ss c post pre,
  srun cap sinit xs = Some ss -> vobs xs = post ++ VDiscB c :: pre -> In (VTCloseE c) pre /\ In (VConnE c) pre.
Proof. exact disconnected_after_transport_close_l. Qed.
Print Assumptions disconnected_after_transport_close.

(* once a closed swarm is quiescent the last event published for every peer is NotConnected *)
Theorem closed_swarm_last_events_notconnected : forall cap xs ss p, srun cap sinit xs = Some ss ->
  squiescent ss = true -> x_pc ss = XDone -> vlastpub p (vobs xs) = NotConnected.
Proof. exact closed_swarm_final_events_l. Qed.
Print Assumptions closed_swarm_last_events_notconnected.

(* quiescent, Swarm.Close never called: the last event of every peer is its connectedness as the observer
   computes it from Stat().Limited of the conns addConn returned and that were not closed - and that is the
   connectedness of the model's conn table *)
Theorem open_swarm_last_events_truthful : forall cap xs ss p, srun cap sinit xs = Some ss ->
  squiescent ss = true -> x_pc ss = X0 ->
  vlastpub p (vobs xs) = vactual (vobs xs) p /\ vactual (vobs xs) p = connectedness (base ss) p.
Proof. exact open_swarm_final_events_l. Qed.
Print Assumptions open_swarm_last_events_truthful.

(* ---- stream level (StModel.v): the swarm-level LTS plus inbound streams, their share of Swarm.refs, and a
   reader of the conn table at any moment ----
   [trun cap tinit ls = Some t]: ls is a schedule of the stream-level LTS: every step of the swarm-level LTS
   (hence of the emitter LTS), interleaved arbitrarily with, per conn: AcceptStream returning an inbound stream
   (only while the loop spawned by c.start() runs; takes a ref), the stream goroutine finishing addStream (the
   registered stream keeps a ref until it is closed / reset; doClose resets them all before it spawns the
   notification goroutine), the stream handler being called; and ConnsToPeer-style reads of the conn table.
   Swarm.Close's refs.Wait passes only when the conns' AND the streams' refs are all released.
   [tobs ls]: what the observer sees, most recent first; [TV v] are the swarm-level observations of SpecSw.v. *)

(* every stream-level schedule contains a swarm-level schedule reaching the same swarm state, and the observer's
   view restricted to swarm-level labels is that schedule's view (so all theorems above apply to it) *)
Theorem c06_stream_refines_swarm : forall cap ls t,
  trun cap tinit ls = Some t -> srun cap sinit (tsched ls) = Some (sw t) /\ tproj (tobs ls) = vobs (tsched ls).
Proof. intros cap ls t H. split; [exact (trun_srun cap ls t H)|exact (tproj_tobs ls)]. Qed.
Print Assumptions c06_stream_refines_swarm.

(* THE property on kind-8 traces: the monitor of SpecSt.v (the one run on the implementation's traces: all
   clauses of SpecSw.v + no stream before Connected returned + truthful listings) accepts every schedule *)
Theorem c06_stream_monitor_accepts_every_schedule : forall cap ls t,
  trun cap tinit ls = Some t -> tholds_from (tobs ls) = [].
Proof. exact tholds_trun. Qed.
Print Assumptions c06_stream_monitor_accepts_every_schedule.

(* no inbound stream is handed to the stream handler before Connected(c) has RETURNED ... *)
Theorem no_stream_handled_before_connected : forall cap ls t c post pre,
  trun cap tinit ls = Some t -> tobs ls = post ++ TVHandle c :: pre -> In (TV (VConnE c)) pre.
Proof. exact handle_after_connected. Qed.
Print Assumptions no_stream_handled_before_connected.

(* ... nor even taken from the transport conn *)
Theorem no_stream_accepted_before_connected : forall cap ls t c post pre,
  trun cap tinit ls = Some t -> tobs ls = post ++ TVStreamIn c :: pre -> In (TV (VConnE c)) pre.
Proof. exact streamin_after_connected. Qed.
Print Assumptions no_stream_accepted_before_connected.

(* once Swarm.Close has returned, no Connected / Disconnected begins or ends and no connectedness event is
   published, ever *)
Theorem nothing_delivered_after_swarm_close_returned : forall cap ls t post pre v,
  trun cap tinit ls = Some t -> tobs ls = post ++ TV VCloseRet :: pre -> In (TV v) post ->
  match v with VConnB _ | VConnE _ | VDiscB _ | VDiscE _ | VPub _ _ => False | _ => True end.
Proof.
  intros cap ls t post pre v H E Hi. pose proof (nothing_after_close_l cap ls t post pre v H E Hi) as D.
  destruct v; try exact I; discriminate D.
Qed.
Print Assumptions nothing_delivered_after_swarm_close_returned.

(* Swarm.close calls connectionEventsEmitter.Close only after refs.Wait: whenever the emitter's Close has been
   entered, every ref of Swarm.refs - two per admitted conn, one per stream in addStream, one per open stream - has been released *)
Theorem emitter_closed_only_after_refs_released : forall cap ls t,
  trun cap tinit ls = Some t -> close_pc (base (sw t)) <> C0 -> refs (sw t) = 0 /\ t_refs t = 0.
Proof. exact emitter_close_after_refs. Qed.
Print Assumptions emitter_closed_only_after_refs_released.

(* listings versus notifications, at ANY moment: a conn found in the table was given to addConn, was not
   refused, and its Disconnected has not begun ... *)
Theorem listed_conn_truthful : forall cap ls t c post pre,
  trun cap tinit ls = Some t -> tobs ls = post ++ TVListed c true :: pre ->
  (exists p lim px, In (TV (VAddCall c p lim px)) pre) /\ ~ In (TV (VAddRet c false)) pre /\ ~ In (TV (VDiscB c)) pre.
Proof. exact listed_truthful_l. Qed.
Print Assumptions listed_conn_truthful.

(* ... and a conn whose Connected has begun is in the table unless somebody asked for its Close or Swarm.Close
   was called *)
Theorem announced_conn_listed_until_closed : forall cap ls t c post pre,
  trun cap tinit ls = Some t -> tobs ls = post ++ TVListed c false :: pre -> In (TV (VConnB c)) pre ->
  In (TV (VCloseReq c)) pre \/ In (TV VCloseCall) pre.
Proof. exact unlisted_truthful_l. Qed.
Print Assumptions announced_conn_listed_until_closed.

(* regenerated obligation: the three connectedness values the wire format uses are distinct and the
   zero value of network.Connectedness (what a missing lastConnectednessEvent entry reads as) is NotConnected *)
Theorem c06_connectedness_consts :
  network_NotConnected = 0%Z /\ network_Connected <> network_NotConnected /\
  network_Limited <> network_NotConnected /\ network_Limited <> network_Connected.
Proof. vm_compute. repeat split; discriminate. Qed.
Print Assumptions c06_connectedness_consts.

(* ---- non-vacuity ----------------------------------------------------------- *)
(* the parked path is reachable: RemoveConn overtakes AddConn, AddConn fires the disconnect *)
Example parked_path_reachable :
  exists s, run 32 init [Reg 0 7 false; AddCall 0; AChk 0; AEnq 0; ConnB 0; Unreg 0; RemCall 0; RChk 0; REnq 0;
                         RLock 0; RFin 0; RemRet 0; ConnE 0; ALock 0; DiscB 0] = Some s
            /\ c_a (gc s 0) = AInDisc /\ c_r (gc s 0) = RDoneP.
Proof. eexists. split; [vm_compute; reflexivity|]. split; reflexivity. Qed.

(* the forced NotConnected is reachable, and a quiescent state after it *)
Example forced_notconnected_reachable :
  exists s, run 32 init [Reg 0 7 false; Unreg 0; AddCall 0; AChk 0; AEnq 0; LDeq; Read 7 NotConnected;
                         Pub 7 NotConnected; ConnB 0; ConnE 0; ALock 0; AFin 0; AddRet 0;
                         RemCall 0; RChk 0; REnq 0; RLock 0; DiscB 0; DiscE 0; RFin 0; RemRet 0;
                         LDeq; Read 7 NotConnected; Quiesce] = Some s /\ quiescent s = true.
Proof. eexists. split; [vm_compute; reflexivity|reflexivity]. Qed.

(* Close while a callback is running waits for it *)
Example close_blocks_on_callback :
  run 32 init [Reg 0 7 false; AddCall 0; AChk 0; AEnq 0; ConnB 0; CloseCall; CSet; CWaited] = None.
Proof. vm_compute. reflexivity. Qed.

(* the monitor rejects: Disconnected before Connected returned; a second Connected; a repeated
   Connected event; an untruthful last event at quiescence; a delivery after Close returned *)
Example monitor_rejects_early_disconnect :
  holds_from (rev [Reg 0 7 false; AddCall 0; ConnB 0; Unreg 0; RemCall 0; DiscB 0]) <> [].
Proof. vm_compute. discriminate. Qed.
Example monitor_rejects_double_connected :
  holds_from (rev [Reg 0 7 false; AddCall 0; ConnB 0; ConnE 0; ConnB 0]) <> [].
Proof. vm_compute. discriminate. Qed.
Example monitor_rejects_repeated_state :
  holds_from (rev [Reg 0 7 false; Reg 1 7 false; AddCall 0; Read 7 Connected; Pub 7 Connected;
                   AddCall 1; Read 7 Connected; Pub 7 Connected]) <> [].
Proof. vm_compute. discriminate. Qed.
Example monitor_rejects_untruthful_last_event :
  holds_from (rev [Reg 0 7 false; AddCall 0; ConnB 0; ConnE 0; AddRet 0; Read 7 Connected; Quiesce]) <> [].
Proof. vm_compute. discriminate. Qed.
Example monitor_rejects_delivery_after_close :
  holds_from (rev [Reg 0 7 false; AddCall 0; ConnB 0; CloseCall; CloseRet; ConnE 0]) <> [].
Proof. vm_compute. discriminate. Qed.
Example monitor_rejects_missing_disconnect :
  holds_from (rev [Reg 0 7 false; AddCall 0; ConnB 0; ConnE 0; AddRet 0; Read 7 Connected; Pub 7 Connected;
                   Unreg 0; RemCall 0; RemRet 0; Read 7 NotConnected; Pub 7 NotConnected; Quiesce]) <> [].
Proof. vm_compute. discriminate. Qed.

(* ---- swarm level: non-vacuity -------------------------------------------------------------------- *)
Definition sw_lifecycle : list xlabel :=
  [XS (SAddCall 0 7 false true); XB (Reg 0 7 false); XB (AddCall 0); XB (AChk 0); XB (AEnq 0); XB (ConnB 0); XB (ConnE 0);
   XB (ALock 0); XB (AFin 0); XB (AddRet 0); XS (SStart 0); XS (SAccept 0); XS (SAddRet 0 true); XB LDeq;
   XB (Read 7 Connected); XB (Pub 7 Connected); XS SCloseCall; XS SNilBegin; XB (Unreg 0); XS SNilEnd; XS (SDBegin 0);
   XS (SDSkip 0); XS (STCloseB 0); XS (STCloseE 0); XS (SDSpawn 0); XB (RemCall 0); XB (RChk 0); XB (REnq 0);
   XB (RLock 0); XB (DiscB 0); XB (DiscE 0); XB (RFin 0); XB (RemRet 0); XS (SGDone 0); XS (SLoopEnd 0); XS (SLoopDone 0);
   XS SWaited; XB CloseCall; XB CSet; XB CWaited; XB LDeq; XB (Read 7 NotConnected); XB (Pub 7 NotConnected); XB CCancel;
   XB LDrain; XB LExit; XB CJoined; XB CloseRet; XS SCloseRet; XS (SObsConn 7 NotConnected); XS SQuiesce].
Example swarm_lifecycle_reachable :
  exists ss, srun 32 sinit sw_lifecycle = Some ss /\ x_pc ss = XDone /\ squiescent ss = true /\ refs ss = 0.
Proof. eexists. split; [vm_compute; reflexivity|]. repeat split. Qed.
(* Swarm.Close cannot pass refs.Wait while an admitted conn sits in the window before AddConn *)
Example swarm_close_blocks_on_window :
  srun 32 sinit [XS (SAddCall 0 7 false false); XB (Reg 0 7 false); XS SCloseCall; XS SNilBegin; XB (Unreg 0); XS SNilEnd;
                 XS (SDBegin 0); XS (SDSkip 0); XS (STCloseB 0); XS (STCloseE 0); XS (SDSpawn 0); XB (RemCall 0); XB (RChk 0);
                 XB (REnq 0); XB (RLock 0); XB (RFin 0); XB (RemRet 0); XS (SGDone 0); XS SWaited] = None.
Proof. vm_compute. reflexivity. Qed.
(* a second Swarm.Close call cannot return while the first is still shutting down *)
Example second_close_waits :
  srun 32 sinit [XS (SAddCall 0 7 false false); XB (Reg 0 7 false); XS SCloseCall; XS SClose2Call; XS SClose2Ret] = None.
Proof. vm_compute. reflexivity. Qed.
Example swmonitor_rejects_early_second_close :
  vholds_from (rev [VAddCall 0 7 false false; VConnB 0; VConnE 0; VAddRet 0 true; VCloseCall; VTCloseB 0; VTCloseE 0; VDiscB 0;
                    VClose2Call; VClose2Ret]) <> [].
Proof. vm_compute. discriminate. Qed.
(* the swarm-level monitor rejects: Swarm.Close returning before a listed conn was announced; Disconnected while the
   transport conn is still open; a relayed-unlimited conn published as Limited; a peer left Connected after Close *)
Example swmonitor_rejects_early_swarm_close :
  vholds_from (rev [VAddCall 0 7 false false; VSeen 0; VCloseCall; VTCloseB 0; VTCloseE 0; VCloseRet]) <> [].
Proof. vm_compute. discriminate. Qed.
Example swmonitor_rejects_disconnect_before_transport_close :
  vholds_from (rev [VAddCall 0 7 false false; VConnB 0; VConnE 0; VAddRet 0 true; VCloseReq 0; VTCloseB 0; VDiscB 0]) <> [].
Proof. vm_compute. discriminate. Qed.
Example swmonitor_rejects_unlimited_relayed_as_limited :
  vholds_from (rev [VAddCall 0 7 false true; VConnB 0; VConnE 0; VAddRet 0 true; VPub 7 Limited; VQuiesce]) <> [].
Proof. vm_compute. discriminate. Qed.
Example swmonitor_rejects_connected_after_close :
  vholds_from (rev [VAddCall 0 7 false false; VConnB 0; VConnE 0; VAddRet 0 true; VPub 7 Connected; VCloseCall; VTCloseB 0;
                    VTCloseE 0; VDiscB 0; VDiscE 0; VCloseRet; VQuiesce]) <> [].
Proof. vm_compute. discriminate. Qed.

(* ---- stream level: non-vacuity -------------------------------------------------------------------- *)
Definition st_prefix : list tlabel :=
  map TX [XS (SAddCall 0 7 false false); XB (Reg 0 7 false); XB (AddCall 0); XB (AChk 0); XB (AEnq 0); XB (ConnB 0)].
Definition st_started : list tlabel :=
  st_prefix ++ map TX [XB (ConnE 0); XB (ALock 0); XB (AFin 0); XB (AddRet 0); XS (SStart 0); XS (SAccept 0)].
(* a stream arrives, is added and handled; the conn is listed meanwhile; Swarm.Close then runs to the end *)
Example stream_lifecycle_reachable :
  exists t, trun 32 tinit (st_started ++ [TStreamIn 0; TListed 0 true; TStreamAdded 0 true; THandle 0] ++
                           map TX [XS (SAddRet 0 true); XS SCloseCall; XS SNilBegin; XB (Unreg 0); XS SNilEnd; XS (SDBegin 0);
                                   XS (SDSkip 0)] ++ [TListed 0 false] ++
                           map TX [XS (STCloseB 0); XS (STCloseE 0)] ++ [TStreamClosed 0] ++
                           map TX [XS (SDSpawn 0); XB (RemCall 0); XB (RChk 0); XB (REnq 0);
                                   XB (RLock 0); XB (DiscB 0); XB (DiscE 0); XB (RFin 0); XB (RemRet 0); XS (SGDone 0);
                                   XS (SLoopEnd 0); XS (SLoopDone 0); XS SWaited; XB CloseCall]) = Some t
            /\ refs (sw t) = 0 /\ t_refs t = 0 /\ close_pc (base (sw t)) <> C0.
Proof. eexists. split; [vm_compute; reflexivity|]. repeat split. discriminate. Qed.
(* the model has no step handing out a stream while Connected is still running (c.start() comes after AddConn) *)
Example no_stream_step_while_connected_runs : trun 32 tinit (st_prefix ++ [TStreamIn 0]) = None.
Proof. vm_compute. reflexivity. Qed.
(* Swarm.Close cannot pass refs.Wait while a stream goroutine is still in addStream *)
Example swarm_close_blocks_on_stream_in_addstream :
  trun 32 tinit (st_started ++ [TStreamIn 0] ++
                 map TX [XS SCloseCall; XS SNilBegin; XB (Unreg 0); XS SNilEnd; XS (SDBegin 0); XS (SDSkip 0); XS (STCloseB 0);
                         XS (STCloseE 0); XS (SDSpawn 0); XB (RemCall 0); XB (RChk 0); XB (REnq 0); XB (RLock 0); XB (DiscB 0);
                         XB (DiscE 0); XB (RFin 0); XB (RemRet 0); XS (SGDone 0); XS (SLoopEnd 0); XS (SLoopDone 0); XS SWaited]) = None.
Proof. vm_compute. reflexivity. Qed.
(* doClose resets the conn's open streams before it spawns the notification goroutine *)
Example doclose_resets_streams_before_notifying :
  trun 32 tinit (st_started ++ [TStreamIn 0; TStreamAdded 0 true] ++
                 map TX [XS (SCloseReq 0); XS (SDBegin 0); XB (Unreg 0); XS (STCloseB 0); XS (STCloseE 0); XS (SDSpawn 0)]) = None.
Proof. vm_compute. reflexivity. Qed.
(* ... and a stream whose addStream comes after doClose nil-ed the stream table is dropped, never handled *)
Example late_stream_is_dropped :
  trun 32 tinit (st_started ++ [TStreamIn 0] ++ map TX [XS (SCloseReq 0); XS (SDBegin 0); XB (Unreg 0); XS (STCloseB 0)] ++
                 [TStreamAdded 0 true]) = None /\
  trun 32 tinit (st_started ++ [TStreamIn 0] ++ map TX [XS (SCloseReq 0); XS (SDBegin 0); XB (Unreg 0); XS (STCloseB 0)] ++
                 [TStreamAdded 0 false; THandle 0]) = None.
Proof. split; vm_compute; reflexivity. Qed.
(* the monitor rejects: a stream handled / accepted before Connected returned; a Disconnected or an event after
   Swarm.Close returned; a conn listed after its Disconnected began; an announced, unclosed conn missing from the table *)
Example stmonitor_rejects_stream_handled_before_connected :
  tholds_from (rev [TV (VAddCall 0 7 false false); TV (VConnB 0); TVStreamIn 0; TVHandle 0; TV (VConnE 0)]) <> [].
Proof. vm_compute. discriminate. Qed.
Example stmonitor_rejects_stream_handled_while_connected_blocked :
  tholds_from (rev [TV (VAddCall 0 7 false false); TV (VConnB 0); TVHandle 0]) <> [].
Proof. vm_compute. discriminate. Qed.
Example stmonitor_accepts_stream_after_connected :
  tholds_from (rev [TV (VAddCall 0 7 false false); TV (VConnB 0); TV (VConnE 0); TV (VAccept 0); TVStreamIn 0; TVHandle 0]) = [].
Proof. vm_compute. reflexivity. Qed.
Example stmonitor_rejects_disconnected_after_close_returned :
  tholds_from (rev [TV (VAddCall 0 7 false false); TV (VConnB 0); TV (VConnE 0); TV (VAddRet 0 true); TV VCloseCall;
                    TV (VTCloseB 0); TV (VTCloseE 0); TV VCloseRet; TV (VDiscB 0)]) <> [].
Proof. vm_compute. discriminate. Qed.
Example stmonitor_rejects_event_after_close_returned :
  tholds_from (rev [TV (VAddCall 0 7 false false); TV (VConnB 0); TV (VConnE 0); TV (VAddRet 0 true); TV (VPub 7 Connected);
                    TV VCloseCall; TV (VTCloseB 0); TV (VTCloseE 0); TV (VDiscB 0); TV (VDiscE 0); TV VCloseRet;
                    TV (VPub 7 NotConnected)]) <> [].
Proof. vm_compute. discriminate. Qed.
Example stmonitor_rejects_listed_after_disconnected :
  tholds_from (rev [TV (VAddCall 0 7 false false); TV (VConnB 0); TV (VConnE 0); TV (VAddRet 0 true); TV (VCloseReq 0);
                    TV (VTCloseB 0); TV (VTCloseE 0); TV (VDiscB 0); TVListed 0 true]) <> [].
Proof. vm_compute. discriminate. Qed.
Example stmonitor_rejects_announced_conn_not_listed :
  tholds_from (rev [TV (VAddCall 0 7 false false); TV (VConnB 0); TVListed 0 false]) <> [].
Proof. vm_compute. discriminate. Qed.

(* C06 — property theorems only. *)
From Coq Require Import List Arith Bool ZArith.
From Verif Require Import lib.Wire c06.Model c06.Spec gen.Consts_c06.
Import ListNotations.

(* regenerated obligation: the three connectedness values the wire format uses are distinct and the
   zero value of network.Connectedness (what a missing lastConnectednessEvent entry reads as) is NotConnected *)
Theorem c06_connectedness_consts :
  network_NotConnected = 0%Z /\ network_Connected <> network_NotConnected /\
  network_Limited <> network_NotConnected /\ network_Limited <> network_Connected.
Proof. vm_compute. repeat split; discriminate. Qed.
Print Assumptions c06_connectedness_consts.

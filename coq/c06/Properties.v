(* C06 — property theorems only.  Each is closed by [exact] of a lemma from
   Proofs_*.v and followed by Print Assumptions.

   Reading guide.  [run cap init sched = Some s]: sched is a schedule of the
   LTS of Model.v — a chronological list of labels, one per atomic step of
   some thread (AddConn / RemoveConn thread of a conn, run loop, Close, the
   swarm registering / removing a conn); ANY interleaving, any number of conns
   and peers, any channel capacity cap.  [filter vis sched] is what an
   observer (the harness) sees; [obs sched] is the same list most recent
   first.  [cnt l h] counts occurrences of label l. *)
From Coq Require Import List Arith Bool ZArith.
From Verif Require Import lib.Wire c06.Model c06.Spec c06.Proofs_base c06.Proofs_main c06.Proofs_thms
                          c06.Proofs_accept gen.Consts_c06.
Import ListNotations.

(* THE property on traces: the monitor that judges the implementation's traces
   (clauses 1-5 of Spec.v, evaluated at every observed label) accepts the
   observable trace of every schedule of the model. *)
Theorem c06_monitor_accepts_every_schedule : forall cap sched s,
  run cap init sched = Some s -> holds_from (obs sched) = [].
Proof. exact holds_sched. Qed.
Print Assumptions c06_monitor_accepts_every_schedule.

(* the acceptance check of the correspondence is sound: an accepted label trace
   is the visible part of a schedule of the model, hence satisfies the monitor *)
Theorem c06_accepted_trace_is_model_trace : forall cap tr,
  forallb vis tr = true -> trace_accepted cap tr = true ->
  exists sched s, run cap init sched = Some s /\ filter vis sched = tr.
Proof. exact trace_accepted_sound. Qed.
Print Assumptions c06_accepted_trace_is_model_trace.

Theorem c06_accepted_trace_holds : forall cap tr,
  forallb vis tr = true -> trace_accepted cap tr = true -> holds_from (rev tr) = [].
Proof. exact accepted_trace_holds. Qed.
Print Assumptions c06_accepted_trace_holds.

(* Connected begins and ends at most once per conn; when AddConn(c) has
   returned it was delivered exactly once — unless the emitter had been closed
   (Close called), in which case it was not delivered at all *)
Theorem connected_exactly_once : forall cap sched s c, run cap init sched = Some s ->
  cnt (ConnB c) (obs sched) <= 1 /\ cnt (ConnE c) (obs sched) <= 1 /\
  (In (AddRet c) (obs sched) ->
     (cnt (ConnB c) (obs sched) = 1 /\ cnt (ConnE c) (obs sched) = 1) \/
     (cnt (ConnB c) (obs sched) = 0 /\ In CloseCall (obs sched))).
Proof. exact connected_exactly_once_l. Qed.
Print Assumptions connected_exactly_once.

Theorem disconnected_at_most_once : forall cap sched s c, run cap init sched = Some s ->
  cnt (DiscB c) (obs sched) <= 1 /\ cnt (DiscE c) (obs sched) <= 1.
Proof. exact disconnected_at_most_once_l. Qed.
Print Assumptions disconnected_at_most_once.

(* at quiescence (every call returned, channel empty, loop idle): a conn that saw
   Connected and whose RemoveConn returned saw Disconnected exactly once, unless
   Close was called before that RemoveConn returned; and if Close was never
   called, every conn that saw Connected and was removed from the swarm saw
   Disconnected begin and end exactly once *)
Theorem disconnected_exactly_once_at_quiescence : forall cap sched s c,
  run cap init sched = Some s -> quiescent s = true ->
  (In (ConnE c) (obs sched) -> In (RemRet c) (obs sched) ->
     cnt (DiscE c) (obs sched) = 1 \/ close_before_remret c (obs sched) = true) /\
  (~ In CloseCall (obs sched) -> In (ConnB c) (obs sched) -> In (Unreg c) (obs sched) ->
     cnt (DiscB c) (obs sched) = 1 /\ cnt (DiscE c) (obs sched) = 1).
Proof. exact disconnected_exactly_once_at_quiescence_l. Qed.
Print Assumptions disconnected_exactly_once_at_quiescence.

(* Disconnected(c) never begins before Connected(c) has returned (the parked
   path), only for a conn that was removed, and not a second time *)
Theorem disconnect_after_connected_returned : forall cap sched s c before after,
  run cap init sched = Some s -> filter vis sched = before ++ DiscB c :: after ->
  In (ConnE c) before /\ In (Unreg c) before /\ ~ In (DiscB c) before.
Proof. exact disconnect_after_connected_returned_l. Qed.
Print Assumptions disconnect_after_connected_returned.

(* when Close returns every callback that began has ended, and afterwards no
   callback begins or ends and the run loop neither reads nor publishes *)
Theorem close_waits_for_callbacks : forall cap sched s before after,
  run cap init sched = Some s -> filter vis sched = before ++ CloseRet :: after ->
  (forall c, cnt (ConnB c) before = cnt (ConnE c) before /\ cnt (DiscB c) before = cnt (DiscE c) before) /\
  (forall l, In l after -> delivery l = false).
Proof. exact close_waits_l. Qed.
Print Assumptions close_waits_for_callbacks.

(* a published state differs from the previous one published for that peer
   (initially NotConnected), except a NotConnected for which there is a conn of
   the peer whose AddConn was called and which has already been removed *)
Theorem no_repeated_state : forall cap sched s p st before after,
  run cap init sched = Some s -> filter vis sched = before ++ Pub p st :: after ->
  st <> lastpub p (rev before) \/
  (st = NotConnected /\ exists c, vanished (rev before) p c = true).
Proof. exact no_repeated_state_l. Qed.
Print Assumptions no_repeated_state.

(* at quiescence, Close never called: for every peer the last published state is
   the peer's actual connectedness (as the observed Reg / Unreg define it), and
   the model's conn table is exactly what Reg / Unreg say *)
Theorem last_event_truthful : forall cap sched s,
  run cap init sched = Some s -> quiescent s = true -> ~ In CloseCall (obs sched) ->
  (forall p, lastpub p (obs sched) = actual (obs sched) p) /\
  (forall c, minfo (obs sched) c = info_of (gc s c)) /\ nregs (obs sched) = nconns s.
Proof. exact last_event_truthful_l. Qed.
Print Assumptions last_event_truthful.

(* regenerated obligation: the three connectedness values the wire format uses are distinct and the
   zero value of network.Connectedness (what a missing lastConnectednessEvent entry reads as) is NotConnected *)
Theorem c06_connectedness_consts :
  network_NotConnected = 0%Z /\ network_Connected <> network_NotConnected /\
  network_Limited <> network_NotConnected /\ network_Limited <> network_Connected.
Proof. vm_compute. repeat split; discriminate. Qed.
Print Assumptions c06_connectedness_consts.

(* ---- non-vacuity ----------------------------------------------------------- *)
(* the parked path is reachable: RemoveConn overtakes AddConn, AddConn fires the disconnect *)
Example parked_path_reachable :
  exists s, run 32 init [Reg 0 7 false; AddCall 0; AChk 0; AEnq 0; ConnB 0; Unreg 0; RemCall 0; RChk 0; REnq 0;
                         RLock 0; RFin 0; RemRet 0; ConnE 0; ALock 0; DiscB 0] = Some s
            /\ c_a (gc s 0) = AInDisc /\ c_r (gc s 0) = RDoneP.
Proof. eexists. split; [vm_compute; reflexivity|]. split; reflexivity. Qed.

(* the forced NotConnected is reachable, and a quiescent state after it *)
Example forced_notconnected_reachable :
  exists s, run 32 init [Reg 0 7 false; Unreg 0; AddCall 0; AChk 0; AEnq 0; LDeq; Read 7 NotConnected;
                         Pub 7 NotConnected; ConnB 0; ConnE 0; ALock 0; AFin 0; AddRet 0;
                         RemCall 0; RChk 0; REnq 0; RLock 0; DiscB 0; DiscE 0; RFin 0; RemRet 0;
                         LDeq; Read 7 NotConnected; Quiesce] = Some s /\ quiescent s = true.
Proof. eexists. split; [vm_compute; reflexivity|reflexivity]. Qed.

(* Close while a callback is running waits for it *)
Example close_blocks_on_callback :
  run 32 init [Reg 0 7 false; AddCall 0; AChk 0; AEnq 0; ConnB 0; CloseCall; CSet; CWaited] = None.
Proof. vm_compute. reflexivity. Qed.

(* the monitor rejects: Disconnected before Connected returned; a second Connected; a repeated
   Connected event; an untruthful last event at quiescence; a delivery after Close returned *)
Example monitor_rejects_early_disconnect :
  holds_from (rev [Reg 0 7 false; AddCall 0; ConnB 0; Unreg 0; RemCall 0; DiscB 0]) <> [].
Proof. vm_compute. discriminate. Qed.
Example monitor_rejects_double_connected :
  holds_from (rev [Reg 0 7 false; AddCall 0; ConnB 0; ConnE 0; ConnB 0]) <> [].
Proof. vm_compute. discriminate. Qed.
Example monitor_rejects_repeated_state :
  holds_from (rev [Reg 0 7 false; Reg 1 7 false; AddCall 0; Read 7 Connected; Pub 7 Connected;
                   AddCall 1; Read 7 Connected; Pub 7 Connected]) <> [].
Proof. vm_compute. discriminate. Qed.
Example monitor_rejects_untruthful_last_event :
  holds_from (rev [Reg 0 7 false; AddCall 0; ConnB 0; ConnE 0; AddRet 0; Read 7 Connected; Quiesce]) <> [].
Proof. vm_compute. discriminate. Qed.
Example monitor_rejects_delivery_after_close :
  holds_from (rev [Reg 0 7 false; AddCall 0; ConnB 0; CloseCall; CloseRet; ConnE 0]) <> [].
Proof. vm_compute. discriminate. Qed.
Example monitor_rejects_missing_disconnect :
  holds_from (rev [Reg 0 7 false; AddCall 0; ConnB 0; ConnE 0; AddRet 0; Read 7 Connected; Pub 7 Connected;
                   Unreg 0; RemCall 0; RemRet 0; Read 7 NotConnected; Pub 7 NotConnected; Quiesce]) <> [].
Proof. vm_compute. discriminate. Qed.

(* C06 — swarm level with fake transport conns (kind 8 of the wire format).
   The property judged on what a real Swarm (NewSwarm, Swarm.addConn fed with
   harness conns, Conn.Close, Swarm.Close) showed to its Notifiee, to the event
   emitter and to the transport conns.  The clauses below are theorems of the
   swarm-level LTS of SwModel.v (Properties.v: c06_swarm_monitor_accepts_every_schedule).

   WIRE FORMAT:  8 0 NC CO LI m <m integers: harness mode, configuration, schedule> <label>*
   labels, 4 integers each; conns are numbered in order of admission (rejected ones last):
     31 c p k   Swarm.addConn(conn c of peer p) called; k = limited + 2*proxy
                (limited = Stat().Limited, proxy = Transport().Proxy())
     32 c b 0   addConn returned (b=1 nil error, b=0 error)
      9/10 c    Connected(c) begins / ends at the notifiee      11/12 c  Disconnected(c) begins / ends
     33/34 c    the transport conn's Close() begins / returns    35 c     AcceptStream first called on c
     36 c       a harness goroutine / handler calls Conn.Close() on c
     14 p s     emitter.Emit(EvtPeerConnectednessChanged{p, s})
     37 / 38    Swarm.Close() called / returned (the call that runs the shutdown)
     42 / 43    a further, overlapping Swarm.Close() call from another goroutine called / returned
     39 c       the harness saw conn c listed in Swarm.Conns()
     40 p s     at quiescence: Connectedness(p) = s       41 c b   at quiescence: c is (not) listed in Conns()
     15         quiescent end of run                      16  some call never returned *)
From Coq Require Import List Arith Bool ZArith.
From Verif Require Import lib.Wire c06.Model c06.Spec gen.Consts_c06.
Import ListNotations.

Inductive vlab :=
| VAddCall (c p : nat) (lim proxy : bool) | VAddRet (c : nat) (ok : bool)
| VConnB (c : nat) | VConnE (c : nat) | VDiscB (c : nat) | VDiscE (c : nat)
| VTCloseB (c : nat) | VTCloseE (c : nat) | VAccept (c : nat) | VCloseReq (c : nat)
| VPub (p : nat) (s : cst) | VCloseCall | VCloseRet | VSeen (c : nat)
| VObsConn (p : nat) (s : cst) | VObsListed (c : nat) (b : bool) | VQuiesce
| VClose2Call | VClose2Ret.

Definition vlab_eq_dec : forall a b : vlab, {a = b} + {a <> b}.
Proof. decide equality; try apply Nat.eq_dec; try apply Bool.bool_dec; apply cst_eq_dec. Defined.
Definition vcnt (l : vlab) (h : list vlab) : nat := count_occ vlab_eq_dec h l.
Definition vmem (l : vlab) (h : list vlab) : bool := if in_dec vlab_eq_dec l h then true else false.

Fixpoint vnconns (h : list vlab) : nat :=
  match h with [] => 0 | VAddCall _ _ _ _ :: r => S (vnconns r) | _ :: r => vnconns r end.
Fixpoint vlastpub (p : nat) (h : list vlab) : cst :=
  match h with
  | [] => NotConnected
  | VPub p' s :: r => if Nat.eqb p p' then s else vlastpub p r
  | _ :: r => vlastpub p r
  end.
(* peer and Stat().Limited of conn c as given to addConn *)
Fixpoint vparams (h : list vlab) (c : nat) : nat * bool :=
  match h with
  | [] => (0, false)
  | VAddCall c' p lim _ :: r => if Nat.eqb c c' then (p, lim) else vparams r c
  | _ :: r => vparams r c
  end.
Definition vadded (h : list vlab) (c : nat) : bool :=
  existsb (fun l => match l with VAddCall c' _ _ _ => Nat.eqb c c' | _ => false end) h.
(* at quiescence a conn is open iff addConn returned it and its transport Close was never called *)
Definition vopen (h : list vlab) (c : nat) : bool := vmem (VAddRet c true) h && negb (vmem (VTCloseB c) h).
Definition vinfo (h : list vlab) (c : nat) : cinfo :=
  let '(p, lim) := vparams h c in (p, lim, if vopen h c then ROpen else RGone).
Definition vactual (h : list vlab) (p : nat) : cst := connectedness_of (vnconns h) (vinfo h) p.
Fixpoint vpeers (h : list vlab) : list nat :=
  match h with
  | [] => []
  | VAddCall _ p _ _ :: r => p :: vpeers r
  | VPub p _ :: r => p :: vpeers r
  | _ :: r => vpeers r
  end.
Definition vall (h : list vlab) (f : nat -> bool) : bool := forallb f (seq 0 (vnconns h)).

Definition vcheck (l : vlab) (r : list vlab) : list nat :=
  let ok (b : bool) (code : nat) := if b then [] else [code] in
  let live := negb (vmem VCloseRet r) in
  match l with
  | VConnB c => ok (Nat.eqb (vcnt l r) 0 && vadded r c && negb (vmem (VAddRet c true) r) && negb (vmem (VAddRet c false) r)) 1
                ++ ok live 3
  | VConnE c => ok (Nat.eqb (vcnt l r) 0 && vmem (VConnB c) r) 1 ++ ok live 3
  | VDiscB c => ok (Nat.eqb (vcnt l r) 0 && vmem (VConnE c) r) 2 ++ ok (vmem (VTCloseE c) r) 8 ++ ok live 3
  | VDiscE c => ok (Nat.eqb (vcnt l r) 0 && vmem (VDiscB c) r) 2 ++ ok live 3
  | VAccept c => ok (vmem (VConnE c) r) 7
  | VAddRet c true => ok (Nat.eqb (vcnt (VConnE c) r) 1) 1
  | VAddRet c false => ok (vmem VCloseCall r && Nat.eqb (vcnt (VConnB c) r) 0) 1
  | VPub p s => ok (negb (cst_eqb s (vlastpub p r)) || cst_eqb s NotConnected) 4 ++ ok live 3
  | VCloseRet | VClose2Ret =>
      (* when ANY Swarm.Close call returns: every conn that was seen listed / announced has had Connected and
         Disconnected exactly once *)
      ok (vall r (fun c => negb (vmem (VSeen c) r || vmem (VConnB c) r)
                           || (Nat.eqb (vcnt (VConnE c) r) 1 && Nat.eqb (vcnt (VDiscE c) r) 1))) 9
      ++ ok (vall r (fun c => Nat.eqb (vcnt (VConnB c) r) (vcnt (VConnE c) r)
                              && Nat.eqb (vcnt (VDiscB c) r) (vcnt (VDiscE c) r))) 3
  | VObsConn p s =>
      ok (if vmem VCloseRet r then cst_eqb s NotConnected
          else if vmem VCloseCall r then true else cst_eqb s (vactual r p)) 5
  | VObsListed c b =>
      ok (if vmem VCloseRet r then negb b
          else if vmem VCloseCall r then true else Bool.eqb b (vopen r c)) 5
  | VQuiesce =>
      ok (if vmem VCloseRet r then forallb (fun p => cst_eqb (vlastpub p r) NotConnected) (vpeers r)
          else if vmem VCloseCall r then true
          else forallb (fun p => cst_eqb (vlastpub p r) (vactual r p)) (vpeers r)
               && vall r (fun c => negb (vmem (VConnE c) r && vmem (VTCloseE c) r) || Nat.eqb (vcnt (VDiscE c) r) 1)) 5
  | _ => []
  end.

Fixpoint vholds_from (h : list vlab) : list nat :=
  match h with
  | [] => []
  | l :: r => match vholds_from r with
              | [] => match vcheck l r with [] => [] | cl => length r :: cl end
              | d => d
              end
  end.

Inductive vwl := VW (l : vlab) | VWStuck | VWBad.
Definition vdec_label (code x y z : Z) : vwl :=
  let c := Z.to_nat x in
  if Z.ltb x 0 || Z.ltb y 0 then VWBad else
  match code with
  | 31 => VW (VAddCall c (Z.to_nat y) (Z.odd z) (Z.leb 2 z))
  | 32 => VW (VAddRet c (zbool y))
  | 9 => VW (VConnB c) | 10 => VW (VConnE c) | 11 => VW (VDiscB c) | 12 => VW (VDiscE c)
  | 33 => VW (VTCloseB c) | 34 => VW (VTCloseE c) | 35 => VW (VAccept c) | 36 => VW (VCloseReq c)
  | 14 => match dec_cst y with Some s => VW (VPub c s) | None => VWBad end
  | 37 => VW VCloseCall | 38 => VW VCloseRet | 39 => VW (VSeen c)
  | 42 => VW VClose2Call | 43 => VW VClose2Ret
  | 40 => match dec_cst y with Some s => VW (VObsConn c s) | None => VWBad end
  | 41 => VW (VObsListed c (zbool y))
  | 15 => VW VQuiesce
  | 16 => VWStuck
  | _ => VWBad
  end%Z.
Fixpoint vdec_labels (fuel : nat) (t : list Z) : list vlab * bool * bool :=
  match fuel with
  | O => ([], false, false)
  | S f =>
      match t with
      | [] => ([], false, true)
      | code :: x :: y :: z :: r =>
          match vdec_label code x y z with
          | VW l => let '(ls, st, ok) := vdec_labels f r in (l :: ls, st, ok)
          | VWStuck => ([], true, match r with [] => true | _ => false end)
          | VWBad => ([], false, false)
          end
      | _ => ([], false, false)
      end
  end.
Definition sw_header (t : list Z) : option (list Z) :=
  match t with
  | 8 :: _ :: nc :: co :: li :: m :: r =>
      if Z.eqb nc network_NotConnected && Z.eqb co network_Connected && Z.eqb li network_Limited
         && Z.leb 0 m && Z.leb m (zlen r)
      then Some (zdrop m r) else None
  | _ => None
  end%Z.
Definition monitor_sw (t : list Z) : list Z :=
  match sw_header t with
  | None => [ERR_MALFORMED; 0]
  | Some r =>
      let '(ls, stuck, ok) := vdec_labels (S (length r)) r in
      if negb ok then [ERR_MALFORMED; 1] else
      match vholds_from (rev ls) with
      | [] => if stuck then [ERR_PROPERTY; Z.of_nat (length ls); 6] else []
      | d => ERR_PROPERTY :: map Z.of_nat d
      end
  end%Z.
(* conformance for kind 8: well-formedness only.  The tie between the swarm-level LTS and the code is the
   emitter-level acceptance (kind 6) plus the proved refinement SwModel -> Model; kind-8 traces are judged by
   the monitor above, which is proved to accept every schedule of SwModel. *)
Definition conform_sw (t : list Z) : list Z :=
  match sw_header t with
  | None => [ERR_MALFORMED; 0]
  | Some r => let '(_, _, ok) := vdec_labels (S (length r)) r in if ok then [] else [ERR_MALFORMED; 1]
  end%Z.

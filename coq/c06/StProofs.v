(* C06 — stream-level proofs: every stream-level execution projects to a swarm-level
   execution; the monitor of SpecSt.v accepts every stream-level execution. *)
From Coq Require Import List Arith Bool Lia.
From Verif Require Import c06.Model c06.Spec c06.SpecSw c06.SwModel c06.Proofs_base c06.Proofs_close c06.Proofs_loop
  c06.SwProofs_base c06.SwProofs_rel c06.SwProofs_glob c06.SwProofs_skip c06.SwProofs_hist c06.SwProofs_open
  c06.SwProofs_main c06.SwProofs_quiet c06.StModel c06.SpecSt.
Import ListNotations.

Definition tvis (l : tlabel) : option tvlab :=
  match l with
  | TX x => match svis x with Some v => Some (TV v) | None => None end
  | TStreamIn c => Some (TVStreamIn c)
  | TStreamAdded _ _ => None
  | THandle c => Some (TVHandle c)
  | TStreamClosed _ => None
  | TListed c b => Some (TVListed c b)
  end.
Definition tpush (l : tlabel) (o : list tvlab) : list tvlab :=
  match tvis l with Some v => v :: o | None => o end.
Fixpoint tobs_of (ls : list tlabel) (acc : list tvlab) : list tvlab :=
  match ls with [] => acc | l :: r => tobs_of r (tpush l acc) end.
(* what the observer of a stream-level schedule sees, most recent first *)
Definition tobs (ls : list tlabel) : list tvlab := tobs_of ls [].

Inductive texec (cap : nat) : list tvlab -> tstate -> Prop :=
| texec_init : texec cap [] tinit
| texec_step : forall o ts l ts', texec cap o ts -> tstep cap ts l = Some ts' -> texec cap (tpush l o) ts'.

Lemma trun_texec_gen cap ls : forall o t0 t, texec cap o t0 -> trun cap t0 ls = Some t -> texec cap (tobs_of ls o) t.
Proof.
  induction ls as [|l ls IH]; intros o t0 t He Hr; cbn [trun tobs_of] in *.
  - injection Hr as <-. exact He.
  - destruct (tstep cap t0 l) as [t1|] eqn:Es; [|discriminate].
    eapply IH; [|exact Hr]. eapply texec_step; eauto.
Qed.
Lemma trun_texec cap ls t : trun cap tinit ls = Some t -> texec cap (tobs ls) t.
Proof. intros H. eapply trun_texec_gen; [constructor|exact H]. Qed.

(* one stream-level step: either a step of the swarm-level LTS or the swarm-level state stays *)
Lemma lift_sw_inv ts o ts' : lift_sw ts o = Some ts' ->
  o = Some (sw ts') /\ t_refs ts' = t_refs ts /\ t_add ts' = t_add ts /\ t_hand ts' = t_hand ts.
Proof. unfold lift_sw. destruct o; [|discriminate]. intros H. injection H as <-. cbn. auto. Qed.

Lemma tstep_tx cap ts x ts' : tstep cap ts (TX x) = Some ts' ->
  sstep cap (sw ts) x = Some (sw ts') /\ t_refs ts' = t_refs ts /\ t_add ts' = t_add ts /\ t_hand ts' = t_hand ts.
Proof.
  intros H. cbn [tstep] in H.
  assert (G : lift_sw ts (sstep cap (sw ts) x) = Some ts').
  { destruct x as [l|e]; [exact H|]. destruct e; try exact H.
    - destruct (get 0 c (t_open ts)); [exact H|discriminate].
    - destruct (t_refs ts); [exact H|discriminate]. }
  apply lift_sw_inv in G. exact G.
Qed.
Lemma tstep_other_sw cap ts l ts' : tstep cap ts l = Some ts' -> (forall x, l <> TX x) -> sw ts' = sw ts.
Proof.
  intros H Hn. destruct l; [exfalso; eapply Hn; reflexivity| | | | |]; cbn [tstep] in H;
    repeat match type of H with
           | context [match ?x with _ => _ end] => destruct x eqn:?; try discriminate H
           end; injection H as <-; reflexivity.
Qed.

Lemma tproj_push_tx x o : tproj (tpush (TX x) o) = vpush x (tproj o).
Proof. unfold tpush, vpush. cbn [tvis]. destruct (svis x); reflexivity. Qed.
Lemma tproj_push_other l o : (forall x, l <> TX x) -> tproj (tpush l o) = tproj o.
Proof.
  intros Hn. destruct l; [exfalso; eapply Hn; reflexivity| | | | |]; unfold tpush; cbn [tvis tproj]; reflexivity.
Qed.

Lemma texec_sexec cap o ts : texec cap o ts -> exists bo, sexec cap (tproj o) bo (sw ts).
Proof.
  induction 1 as [|o ts l ts' He [bo IH] Hs]; [exists []; constructor|].
  destruct l as [x| | | | |].
  - apply tstep_tx in Hs as (Hs & _). exists (bpush x bo). rewrite tproj_push_tx. eapply sexec_step; eauto.
  - rewrite (tstep_other_sw _ _ _ _ Hs), tproj_push_other by (intros; congruence). eauto.
  - rewrite (tstep_other_sw _ _ _ _ Hs), tproj_push_other by (intros; congruence). eauto.
  - rewrite (tstep_other_sw _ _ _ _ Hs), tproj_push_other by (intros; congruence). eauto.
  - rewrite (tstep_other_sw _ _ _ _ Hs), tproj_push_other by (intros; congruence). eauto.
  - rewrite (tstep_other_sw _ _ _ _ Hs), tproj_push_other by (intros; congruence). eauto.
Qed.

(* the swarm-level schedule inside a stream-level schedule runs on the swarm-level LTS *)
Lemma trun_srun_gen cap ls : forall t0 t, trun cap t0 ls = Some t -> srun cap (sw t0) (tsched ls) = Some (sw t).
Proof.
  induction ls as [|l ls IH]; intros t0 t Hr; cbn [trun tsched] in *.
  - injection Hr as <-. reflexivity.
  - destruct (tstep cap t0 l) as [t1|] eqn:Es; [|discriminate]. destruct l as [x| | | | |].
    + apply tstep_tx in Es as (Es & _). cbn [srun]. rewrite Es. apply IH. exact Hr.
    + rewrite <- (tstep_other_sw _ _ _ _ Es) by (intros; congruence). apply IH. exact Hr.
    + rewrite <- (tstep_other_sw _ _ _ _ Es) by (intros; congruence). apply IH. exact Hr.
    + rewrite <- (tstep_other_sw _ _ _ _ Es) by (intros; congruence). apply IH. exact Hr.
    + rewrite <- (tstep_other_sw _ _ _ _ Es) by (intros; congruence). apply IH. exact Hr.
    + rewrite <- (tstep_other_sw _ _ _ _ Es) by (intros; congruence). apply IH. exact Hr.
Qed.
Lemma trun_srun cap ls t : trun cap tinit ls = Some t -> srun cap sinit (tsched ls) = Some (sw t).
Proof. apply trun_srun_gen. Qed.

Lemma tproj_tobs_gen ls : forall o, tproj (tobs_of ls o) = vobs_of (tsched ls) (tproj o).
Proof.
  induction ls as [|l ls IH]; intros o; cbn [tobs_of tsched vobs_of]; [reflexivity|].
  rewrite IH. destruct l as [x| | | | |]; cbn [vobs_of];
    [rewrite tproj_push_tx; reflexivity| | | | |]; rewrite tproj_push_other by (intros; congruence); reflexivity.
Qed.
Lemma tproj_tobs ls : tproj (tobs ls) = vobs (tsched ls).
Proof. apply tproj_tobs_gen. Qed.

(* ---- streams: a conn with a stream in flight had its Connected return ----------------------- *)
Lemma tproj_push_incl l o v : In v (tproj o) -> In v (tproj (tpush l o)).
Proof.
  intros H. destruct l as [x| | | | |]; [rewrite tproj_push_tx; unfold vpush; destruct (svis x); [right|]; exact H| | | | |];
    rewrite tproj_push_other by (intros; congruence); exact H.
Qed.

Lemma get_set_nat_same c (v : nat) m : get 0 c (set c v m) = v.
Proof. apply get_set_same. Qed.

Lemma stream_inv cap o ts : texec cap o ts -> forall c,
  0 < get 0 c (t_add ts) \/ 0 < get 0 c (t_hand ts) -> In (VConnE c) (tproj o).
Proof.
  induction 1 as [|o ts l ts' He IH Hs]; intros c0 H0.
  - cbn in H0. lia.
  - destruct l as [x|c|c ok|c|c|c b].
    + apply tstep_tx in Hs as (_ & _ & E2 & E3). rewrite E2, E3 in H0. apply tproj_push_incl. auto.
    + apply tproj_push_incl. cbn [tstep] in Hs. destruct (s_pc (sg (sw ts) c)) eqn:Ep; try discriminate Hs.
      injection Hs as <-. cbn [t_add t_hand] in H0.
      destruct (Nat.eq_dec c0 c) as [->|Hne]; [|rewrite get_set_other in H0 by assumption; auto].
      destruct (texec_sexec _ _ _ He) as [bo Hx]. apply vmem_true. eapply vmem_of_cnt.
      apply (started_connected _ _ _ _ c Hx). rewrite Ep. reflexivity.
    + apply tproj_push_incl. cbn [tstep] in Hs. destruct (get 0 c (t_add ts)) eqn:Ea; try discriminate Hs.
      assert (Hc : In (VConnE c) (tproj o)) by (apply IH; left; lia).
      destruct ok; [destruct (streams_open _)|destruct (streams_nil_possible _)]; try discriminate Hs;
        injection Hs as <-; cbn [t_add t_hand] in H0;
        (destruct (Nat.eq_dec c0 c) as [->|Hne]; [exact Hc|]);
        rewrite ?get_set_other in H0 by assumption; auto.
    + apply tproj_push_incl. cbn [tstep] in Hs. destruct (get 0 c (t_hand ts)) eqn:Ea; try discriminate Hs.
      assert (Hc : In (VConnE c) (tproj o)) by (apply IH; right; lia).
      injection Hs as <-; cbn [t_add t_hand] in H0.
      destruct (Nat.eq_dec c0 c) as [->|Hne]; [exact Hc|]. rewrite ?get_set_other in H0 by assumption; auto.
    + apply tproj_push_incl. cbn [tstep] in Hs. destruct (get 0 c (t_open ts)); try discriminate Hs.
      injection Hs as <-. cbn [t_add t_hand] in H0. auto.
    + apply tproj_push_incl. cbn [tstep] in Hs. destruct (negb _ && _); try discriminate Hs. injection Hs as <-. auto.
Qed.

(* ---- Swarm.Close's refs.Wait also covers the stream goroutines --------------------------- *)
Lemma xwaited_pre cap ss x ss' : sstep cap ss x = Some ss' -> x <> XS SWaited ->
  xwaited (x_pc ss') = true -> xwaited (x_pc ss) = true.
Proof.
  intros Hs Hn H. destruct x as [l|e]; [destruct l|destruct e]; try congruence; inv_sstep Hs;
    cbn [x_pc set_base set_sc set_refs set_x] in *;
    try assumption; try (rewrite Heqx; reflexivity); try discriminate H; try reflexivity;
    try (unfold niling in *; destruct (x_pc ss); discriminate).
Qed.

Lemma stream_refs_inv cap o ts : texec cap o ts -> xwaited (x_pc (sw ts)) = true -> t_refs ts = 0.
Proof.
  induction 1 as [|o ts l ts' He IH Hs]; intros Hw; [reflexivity|].
  destruct l as [x|c|c ok|c|c|c b].
  - destruct (tstep_tx _ _ _ _ Hs) as (Hx & E1 & _). rewrite E1.
    destruct x as [l|e]; [apply IH; eapply xwaited_pre; eauto; congruence|].
    destruct e; try (apply IH; eapply xwaited_pre; eauto; congruence).
    cbn [tstep] in Hs. destruct (t_refs ts); [reflexivity|discriminate].
  - (* a conn whose loop is in AcceptStream keeps Swarm.Close in refs.Wait *)
    exfalso. pose proof (tstep_other_sw _ _ _ _ Hs) as E. rewrite E in Hw by (intros; congruence).
    cbn [tstep] in Hs. destruct (s_pc (sg (sw ts) c)) eqn:Ep; try discriminate Hs.
    destruct (texec_sexec _ _ _ He) as [bo Hx].
    assert (Hi : inserted (s_pc (sg (sw ts) c)) = true) by (rewrite Ep; reflexivity).
    apply (inserted_lt _ _ _ _ c Hx) in Hi.
    destruct (all_done _ _ _ _ c Hx Hw Hi) as [A _]. congruence.
  - pose proof (tstep_other_sw _ _ _ _ Hs) as E. rewrite E in Hw by (intros; congruence). specialize (IH Hw).
    cbn [tstep] in Hs. destruct (get 0 c (t_add ts)); try discriminate Hs.
    destruct ok; [destruct (streams_open _)|destruct (streams_nil_possible _)]; try discriminate Hs;
      injection Hs as <-; cbn [t_refs]; rewrite IH; reflexivity.
  - pose proof (tstep_other_sw _ _ _ _ Hs) as E. rewrite E in Hw by (intros; congruence). specialize (IH Hw).
    cbn [tstep] in Hs. destruct (get 0 c (t_hand ts)); try discriminate Hs. injection Hs as <-. exact IH.
  - pose proof (tstep_other_sw _ _ _ _ Hs) as E. rewrite E in Hw by (intros; congruence). specialize (IH Hw).
    cbn [tstep] in Hs. destruct (get 0 c (t_open ts)); try discriminate Hs. injection Hs as <-. cbn [t_refs]. rewrite IH. reflexivity.
  - pose proof (tstep_other_sw _ _ _ _ Hs) as E. rewrite E in Hw by (intros; congruence). specialize (IH Hw).
    cbn [tstep] in Hs. destruct (negb _ && _); try discriminate Hs. injection Hs as <-. exact IH.
Qed.

(* C06 — proofs, part 6: the individual sentences of the property, stated on
   schedules (chronological lists of labels, internal ones included). *)
From Coq Require Import List Arith Bool Lia.
From Verif Require Import c06.Model c06.Spec c06.Proofs_base c06.Proofs_close c06.Proofs_loop c06.Proofs_truth c06.Proofs_main.
Import ListNotations.

(* the observed history (most recent first) of a schedule *)
Definition obs (sched : list label) : list label := rev (filter vis sched).

Lemma obs_split sched before l after : filter vis sched = before ++ l :: after ->
  obs sched = rev after ++ l :: rev before.
Proof. intros H. unfold obs. rewrite H, rev_app_distr. cbn [rev]. rewrite <- app_assoc. reflexivity. Qed.

Lemma holds_split post l pre : holds_from (post ++ l :: pre) = [] -> check_at l pre = [].
Proof.
  induction post as [|x post IH]; cbn [app]; intros H.
  - apply holds_from_suffix in H. tauto.
  - apply holds_from_suffix in H. tauto.
Qed.

Lemma check_at_nil l r : check_at l r = [] ->
  ck_connected l r = true /\ ck_disconnected l r = true /\ ck_close l r = true /\
  ck_norepeat l r = true /\ ck_quiesce l r = true.
Proof.
  unfold check_at. destruct (ck_connected l r), (ck_disconnected l r), (ck_close l r), (ck_norepeat l r), (ck_quiesce l r);
    cbn; intros H; try discriminate; auto.
Qed.

Lemma holds_sched cap sched s : run cap init sched = Some s -> holds_from (obs sched) = [].
Proof. intros H. eapply holds_exec. apply run_exec. exact H. Qed.

(* 1 *)
Lemma connected_exactly_once_l cap sched s c : run cap init sched = Some s ->
  cnt (ConnB c) (obs sched) <= 1 /\ cnt (ConnE c) (obs sched) <= 1 /\
  (In (AddRet c) (obs sched) ->
     (cnt (ConnB c) (obs sched) = 1 /\ cnt (ConnE c) (obs sched) = 1) \/
     (cnt (ConnB c) (obs sched) = 0 /\ In CloseCall (obs sched))).
Proof.
  intros H. apply run_exec in H. fold (obs sched) in H.
  destruct (conn_inv_all _ _ _ H c) as [[] _]. destruct (skip_inv _ _ _ H c) as [S1 _].
  rewrite co_connb, co_conne. repeat split.
  - destruct (c_a (gc s c)); cbn; lia.
  - destruct (c_a (gc s c)); cbn; lia.
  - intros Hi. apply cnt_pos_in in Hi. rewrite co_addret in Hi.
    destruct (c_a (gc s c)); cbn in *; try lia; auto.
Qed.

(* 2 *)
Lemma disconnected_at_most_once_l cap sched s c : run cap init sched = Some s ->
  cnt (DiscB c) (obs sched) <= 1 /\ cnt (DiscE c) (obs sched) <= 1.
Proof.
  intros H. apply run_exec in H. fold (obs sched) in H.
  destruct (conn_inv_all _ _ _ H c) as [[] P]. rewrite co_discb, co_disce.
  unfold proto_ok in P. destruct (c_a (gc s c)), (c_r (gc s c)); cbn in *; try lia;
    rewrite ?andb_false_r in P; try discriminate P;
    destruct (c_conn (gc s c)), (c_pend (gc s c)); discriminate P.
Qed.

Lemma cbr_in_call c o : close_before_remret c o = true -> In CloseCall o.
Proof.
  induction o as [|l o IH]; cbn [close_before_remret]; [discriminate|].
  destruct (label_eq_dec l (RemRet c)); intros H.
  - right. apply memb_true. assumption.
  - right. auto.
Qed.

(* 3 *)
Lemma disconnected_exactly_once_at_quiescence_l cap sched s c : run cap init sched = Some s ->
  quiescent s = true ->
  (In (ConnE c) (obs sched) -> In (RemRet c) (obs sched) ->
     cnt (DiscE c) (obs sched) = 1 \/ close_before_remret c (obs sched) = true) /\
  (~ In CloseCall (obs sched) -> In (ConnB c) (obs sched) -> In (Unreg c) (obs sched) ->
     cnt (DiscB c) (obs sched) = 1 /\ cnt (DiscE c) (obs sched) = 1).
Proof.
  intros H Hq. apply run_exec in H. fold (obs sched) in H.
  destruct (table_inv _ _ _ H) as [T1 T2].
  destruct (conn_inv_all _ _ _ H c) as [[] P]. destruct (skip_inv _ _ _ H c) as [S1 S2].
  pose proof Hq as Hq0. unfold quiescent in Hq.
  apply andb_prop in Hq as [Hq _]. apply andb_prop in Hq as [Hq _]. apply andb_prop in Hq as [H1 _].
  rewrite forallb_forall in H1.
  assert (Q : c < nconns s -> conn_quiet (gc s c) = true) by (intros; apply H1, in_seq; lia).
  pose proof (reg_lt _ _ _ H c) as RL. unfold conn_quiet, skip_ok, proto_ok in *.
  unfold gc in *. destruct (get conn0 c (conns s)) as [kp kl kg ka kr kcn kpd] eqn:Ek. prj.
  rewrite co_discb, co_disce. split.
  - intros E1 E2. apply cnt_pos_in in E1, E2. rewrite co_conne in E1. rewrite co_remret in E2.
    destruct kg.
    + exfalso. destruct ka; try discriminate P; cbn in E1; lia.
    + destruct kr; try (rewrite ?andb_false_r in P; discriminate P). cbn in E2. lia.
    + specialize (Q ltac:(apply RL; congruence)).
      destruct ka; try discriminate Q; cbn in E1; try lia;
        destruct kr; try discriminate Q; cbn in E2; try lia; cbn; auto;
        destruct kcn, kpd; discriminate P.
  - intros Hn E1 E2. apply cnt_pos_in in E1, E2. rewrite co_connb in E1. rewrite co_unreg in E2.
    destruct kg; cbn in E2; try lia.
    specialize (Q ltac:(apply RL; congruence)).
    destruct ka; try discriminate Q; cbn in E1; try lia;
      destruct kr; try discriminate Q; cbn; auto;
      try (exfalso; apply Hn; first [exact S1 | apply (cbr_in_call c); exact S2]);
      destruct kcn, kpd; discriminate P.
Qed.

(* 4 *)
Lemma disconnect_after_connected_returned_l cap sched s c before after : run cap init sched = Some s ->
  filter vis sched = before ++ DiscB c :: after ->
  In (ConnE c) before /\ In (Unreg c) before /\ ~ In (DiscB c) before.
Proof.
  intros H Hf. pose proof (holds_sched _ _ _ H) as Ho. rewrite (obs_split _ _ _ _ Hf) in Ho.
  apply holds_split, check_at_nil in Ho. destruct Ho as (_ & H2 & _). cbn [ck_disconnected] in H2.
  apply andb_prop in H2 as [H2 H3]. apply andb_prop in H2 as [H1 H2].
  apply memb_true in H2, H3. apply Nat.eqb_eq, cnt_zero_notin in H1.
  rewrite <- !in_rev in *. auto.
Qed.

(* 5: Close returns only after everything was delivered *)
Definition delivery (l : label) : bool :=
  match l with ConnB _ | ConnE _ | DiscB _ | DiscE _ | Read _ _ | Pub _ _ => true | _ => false end.

Lemma exec_last_vis cap l o s : exec cap (l :: o) s ->
  exists s0 s1, exec cap o s0 /\ step cap s0 l = Some s1.
Proof.
  intros H. remember (l :: o) as lo eqn:E. revert l o E.
  induction H as [|o' s l' s' He IH Hs Hv|o' s l' s' He IH Hs Hv]; intros l o E.
  - discriminate.
  - injection E as <- <-. eauto.
  - eapply IH. exact E.
Qed.

Lemma exec_suffix cap post pre s : exec cap (post ++ pre) s -> exists s0, exec cap pre s0.
Proof.
  revert s. induction post as [|x post IH]; cbn [app]; intros s H; [eauto|].
  apply exec_last_vis in H. destruct H as (s0 & s1 & H & _). eapply IH. exact H.
Qed.

Lemma closeret_balanced cap o s s' c : exec cap o s -> step cap s CloseRet = Some s' ->
  cnt (ConnB c) o = cnt (ConnE c) o /\ cnt (DiscB c) o = cnt (DiscE c) o.
Proof.
  intros He Hs. inv_step Hs.
  destruct (waited_no_thread _ _ _ c He) as [A B]; [rewrite Heqc0; reflexivity|].
  destruct (conn_inv_all _ _ _ He c) as [[] _]. rewrite co_connb, co_conne, co_discb, co_disce.
  destruct (c_a (gc s c)); try discriminate A; destruct (c_r (gc s c)); try discriminate B; auto.
Qed.

Lemma close_waits_l cap sched s before after : run cap init sched = Some s ->
  filter vis sched = before ++ CloseRet :: after ->
  (forall c, cnt (ConnB c) before = cnt (ConnE c) before /\ cnt (DiscB c) before = cnt (DiscE c) before) /\
  (forall l, In l after -> delivery l = false).
Proof.
  intros H Hf. pose proof (run_exec _ _ _ H) as He. fold (obs sched) in He.
  pose proof (holds_sched _ _ _ H) as Ho. rewrite (obs_split _ _ _ _ Hf) in *. split.
  - intros c. apply exec_suffix in He. destruct He as (s0 & He).
    apply exec_last_vis in He. destruct He as (s1 & s2 & He & Hs).
    pose proof (closeret_balanced _ _ _ _ c He Hs) as B. unfold cnt in *.
    rewrite !count_occ_rev in B. exact B.
  - intros l Hl. destruct (delivery l) eqn:D; [exfalso|reflexivity].
    apply in_rev in Hl. apply in_split in Hl. destruct Hl as (p1 & p2 & E). rewrite E in Ho.
    rewrite <- app_assoc in Ho. cbn [app] in Ho.
    apply holds_split, check_at_nil in Ho. destruct Ho as (_ & _ & H3 & _).
    assert (M : memb CloseRet (p2 ++ CloseRet :: rev before) = true)
      by (apply memb_true, in_or_app; right; left; reflexivity).
    destruct l; try discriminate D; cbn [ck_close] in H3; rewrite M in H3; discriminate H3.
Qed.

(* 6 *)
Lemma no_repeated_state_l cap sched s p st before after : run cap init sched = Some s ->
  filter vis sched = before ++ Pub p st :: after ->
  st <> lastpub p (rev before) \/
  (st = NotConnected /\ exists c, vanished (rev before) p c = true).
Proof.
  intros H Hf. pose proof (holds_sched _ _ _ H) as Ho. rewrite (obs_split _ _ _ _ Hf) in Ho.
  apply holds_split, check_at_nil in Ho. destruct Ho as (_ & _ & _ & H4 & _). cbn [ck_norepeat] in H4.
  apply orb_true_iff in H4. destruct H4 as [H4|H4].
  - left. apply negb_true_iff, cst_eqb_neq in H4. assumption.
  - right. apply andb_prop in H4 as [H4 H5]. apply cst_eqb_eq in H4. split; [assumption|].
    apply existsb_exists in H5. destruct H5 as (c & _ & H5). eauto.
Qed.

(* 7 *)
Lemma last_event_truthful_l cap sched s : run cap init sched = Some s ->
  quiescent s = true -> ~ In CloseCall (obs sched) ->
  (forall p, lastpub p (obs sched) = actual (obs sched) p) /\
  (forall c, minfo (obs sched) c = info_of (gc s c)) /\ nregs (obs sched) = nconns s.
Proof.
  intros H Hq Hn. apply run_exec in H. fold (obs sched) in H. repeat split.
  - intros p. eapply truthful_at_quiescence; eauto.
    destruct (close_inv _ _ _ H) as [W1 W2 W3 W4 W5 W6 W7 W8 W9].
    apply cnt_zero_notin in Hn. rewrite W8 in Hn. rewrite W2. destruct (close_pc s); try discriminate; reflexivity.
  - intros c. destruct (conn_inv_all _ _ _ H c) as [[] _]. assumption.
  - apply (table_inv _ _ _ H).
Qed.

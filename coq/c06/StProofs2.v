(* C06 — stream-level proofs, part 2: who asked for a conn's doClose; the listing clause;
   the monitor of SpecSt.v accepts every stream-level execution. *)
From Coq Require Import List Arith Bool Lia.
From Verif Require Import c06.Model c06.Spec c06.SpecSw c06.SwModel c06.Proofs_base c06.Proofs_close c06.Proofs_loop
  c06.SwProofs_base c06.SwProofs_rel c06.SwProofs_glob c06.SwProofs_skip c06.SwProofs_hist c06.SwProofs_open
  c06.SwProofs_main c06.SwProofs_quiet c06.StModel c06.SpecSt c06.StProofs.
Import ListNotations.

(* one swarm-level step versus the close request flag, the doClose thread and the nil-ed table *)
Lemma creq_step cap ss x ss' c0 : sstep cap ss x = Some ss' ->
  (s_creq (sg ss' c0) = true -> s_creq (sg ss c0) = true \/ x = XS (SCloseReq c0)) /\
  (isD0 (d_pc (sg ss' c0)) = false -> isD0 (d_pc (sg ss c0)) = false \/ s_creq (sg ss c0) || nild ss = true) /\
  (nild ss = true -> nild ss' = true) /\
  (s_creq (sg ss c0) = true -> s_creq (sg ss' c0) = true \/ isD0 (d_pc (sg ss' c0)) = true).
Proof.
  intros Hs.
  destruct x as [l|e]; [destruct l|destruct e]; inv_sstep Hs; sgs;
    try (split_conn c0 c; sgs; sprj); cbn [isD0]; rewrite ?Heqd;
    repeat split; intros; auto; try discriminate; try congruence.
  right. apply andb_prop in Heqb0 as [_ Hq]. exact Hq.
Qed.

Record creq_ok (c : nat) (vo : list vlab) (ss : sstate) : Prop := {
  q_req : s_creq (sg ss c) = true -> In (VCloseReq c) vo;
  q_d : isD0 (d_pc (sg ss c)) = false -> s_creq (sg ss c) = true \/ nild ss = true
}.

Lemma vpush_incl x vo v : In v vo -> In v (vpush x vo).
Proof. unfold vpush. destruct (svis x); [right|]; auto. Qed.

Lemma creq_all cap vo bo ss : sexec cap vo bo ss -> forall c, creq_ok c vo ss.
Proof.
  induction 1 as [|vo bo ss x ss' He IH Hs]; intros c0.
  - constructor; cbn; intros; discriminate.
  - destruct (IH c0) as [I1 I2]. destruct (creq_step _ _ _ _ c0 Hs) as (P1 & P2 & P3 & P4). constructor.
    + intros H. destruct (P1 H) as [H1| ->]; [apply vpush_incl; auto|]. unfold vpush. cbn [svis]. left. reflexivity.
    + intros H. destruct (P2 H) as [H1|H1].
      * destruct (I2 H1) as [H2|H2]; [|right; auto].
        destruct (P4 H2) as [H3|H3]; [left; exact H3|congruence].
      * apply orb_true_iff in H1. destruct H1 as [H1|H1]; [|right; auto].
        destruct (P4 H1) as [H3|H3]; [left; exact H3|congruence].
Qed.

(* the table reader's clause *)
Lemma tcheck_listed cap vo bo ss c b : sexec cap vo bo ss -> niling ss = false ->
  b = is_open (c_reg (gc (base ss) c)) ->
  (if b then vadded vo c && negb (vmem (VAddRet c false) vo) && negb (vmem (VDiscB c) vo)
   else negb (vmem (VConnB c) vo) || vmem (VCloseReq c) vo || vmem VCloseCall vo) = true.
Proof.
  intros He Hn Hb.
  pose proof (rel_all _ _ _ _ He c) as [R1 R2 R3 R4 R5 R6].
  destruct (hist_all _ _ _ _ He c) as [H1 H2 H3 H4 H5 H6 H7 H8].
  destruct b.
  - symmetry in Hb.
    assert (Hins : inserted (s_pc (sg ss c)) = true).
    { unfold rel_sa in R1. destruct (c_reg (gc (base ss) c)); try discriminate Hb.
      destruct (s_pc (sg ss c)); cbn in R1; try discriminate R1; reflexivity. }
    rewrite H1. rewrite (nvmem_of_cnt (VAddRet c false) vo) by (rewrite H4; destruct (s_pc (sg ss c)); try discriminate Hins; reflexivity).
    assert (Hd : vmem (VDiscB c) vo = false).
    { apply vmem_false. intros Hi. apply in_split in Hi as (post & pre & E).
      pose proof (vholds_sexec _ _ _ _ He) as V. rewrite E in V. apply vholds_split in V.
      unfold vcheck in V. destruct (vmem (VTCloseE c) pre) eqn:M1;
        [|destruct (Nat.eqb (vcnt (VDiscB c) pre) 0 && vmem (VConnE c) pre); discriminate V].
      apply vmem_true in M1.
      assert (Hin : In (VTCloseE c) vo) by (rewrite E; apply in_or_app; right; right; exact M1).
      apply vcnt_pos_in in Hin. rewrite H6 in Hin.
      assert (Ht : tes (s_pc (sg ss c)) = 0) by (destruct (s_pc (sg ss c)); try discriminate Hins; reflexivity).
      rewrite Ht in Hin. unfold ted in Hin. destruct (tclosed_d (d_pc (sg ss c))) eqn:Etc; [|lia].
      unfold rel_dr in R2. rewrite Hb in R2.
      destruct (d_pc (sg ss c)); try discriminate Etc; cbn in R2; rewrite ?andb_false_r in R2; discriminate R2. }
    rewrite Hd. destruct (s_pc (sg ss c)); try discriminate Hins; reflexivity.
  - destruct (vmem (VConnB c) vo) eqn:Mb; [|reflexivity]. cbn [negb orb].
    apply vmem_true in Mb.
    assert (Hlt : c < nconns (base ss)).
    { destruct (Nat.lt_ge_cases c (nconns (base ss))) as [Hlt|Hge]; [exact Hlt|].
      destruct (fresh_counts _ _ _ _ c He Hge) as (B1 & _). destruct (proj_inv _ _ _ _ He) as [J1 _ _ _ _].
      apply vcnt_pos_in in Mb. rewrite J1, B1 in Mb. lia. }
    apply (inserted_lt _ _ _ _ c He) in Hlt.
    pose proof (open_inv _ _ _ _ He c) as O. unfold open_ok in O. rewrite Hlt, <- Hb in O. cbn [andb] in O.
    destruct (creq_all _ _ _ _ He c) as [Q1 Q2].
    destruct (glob_inv _ _ _ _ He) as [G1 G2 _ _ _ _ _ _].
    assert (Hcall : x_pc ss <> X0 -> vmem VCloseCall vo = true).
    { intros Hx. apply (vmem_of_cnt _ _ 0). rewrite G2. destruct (x_pc ss); congruence. }
    destruct (early_x (x_pc ss)) eqn:Ex.
    + destruct (early_d (d_pc (sg ss c))) eqn:Ed; [discriminate O|].
      destruct Q2 as [Q2|Q2]; [destruct (d_pc (sg ss c)); try discriminate Ed; reflexivity| |].
      * apply Q1 in Q2. apply vmem_true in Q2. rewrite Q2. reflexivity.
      * rewrite Hcall; [apply orb_true_r|]. rewrite G1 in Q2. destruct (x_pc ss); try discriminate Q2; congruence.
    + rewrite Hcall; [apply orb_true_r|]. destruct (x_pc ss); try discriminate Ex; congruence.
Qed.

(* ---- the stream-level monitor accepts every stream-level execution ------------------------- *)
Lemma tcheck_ok cap o ts l ts' v : texec cap o ts -> tstep cap ts l = Some ts' -> tvis l = Some v -> tcheck v o = [].
Proof.
  intros He Hs Hv. destruct (texec_sexec _ _ _ He) as [bo Hx].
  destruct l as [x|c|c ok|c|c|c b]; cbn [tvis] in Hv.
  - destruct (svis x) as [w|] eqn:Ew; [|discriminate Hv]. injection Hv as <-.
    apply tstep_tx in Hs as (Hs & _). cbn [tcheck]. eapply vcheck_ok; eauto.
  - injection Hv as <-. cbn [tcheck tstep] in *. destruct (s_pc (sg (sw ts) c)) eqn:Ep; try discriminate Hs.
    rewrite (vmem_of_cnt (VConnE c) (tproj o) 0); [reflexivity|].
    apply (started_connected _ _ _ _ c Hx). rewrite Ep. reflexivity.
  - discriminate Hv.
  - injection Hv as <-. cbn [tcheck tstep] in *. destruct (get 0 c (t_hand ts)) eqn:Eh; try discriminate Hs.
    assert (Hi : In (VConnE c) (tproj o)) by (apply (stream_inv _ _ _ He c); right; lia).
    apply vmem_true in Hi. rewrite Hi. reflexivity.
  - discriminate Hv.
  - injection Hv as <-. cbn [tstep] in Hs.
    destruct (negb (niling (sw ts)) && Bool.eqb b (is_open (c_reg (gc (base (sw ts)) c)))) eqn:Eg; [|discriminate Hs].
    apply andb_prop in Eg as [Hn Hb]. apply negb_true_iff in Hn. apply eqb_prop in Hb.
    pose proof (tcheck_listed _ _ _ _ c b Hx Hn Hb) as T. unfold tcheck. destruct b; rewrite T; reflexivity.
Qed.

Lemma tholds_texec cap o ts : texec cap o ts -> tholds_from o = [].
Proof.
  induction 1 as [|o ts l ts' He IH Hs]; [reflexivity|].
  unfold tpush. destruct (tvis l) as [v|] eqn:Ev; [|exact IH].
  cbn [tholds_from]. rewrite IH, (tcheck_ok _ _ _ _ _ _ He Hs Ev). reflexivity.
Qed.

Lemma tholds_trun cap ls t : trun cap tinit ls = Some t -> tholds_from (tobs ls) = [].
Proof. intros H. eapply tholds_texec. apply trun_texec. exact H. Qed.

Lemma tholds_split post l pre : tholds_from (post ++ l :: pre) = [] -> tcheck l pre = [].
Proof.
  induction post as [|x post IH]; cbn [app tholds_from]; intros H.
  - destruct (tholds_from pre); [|discriminate]. destruct (tcheck l pre); [reflexivity|discriminate].
  - destruct (tholds_from (post ++ l :: pre)); [|discriminate]. apply IH. reflexivity.
Qed.

Lemma in_tproj v o : In v (tproj o) <-> In (TV v) o.
Proof.
  induction o as [|l o IH]; [tauto|]. destruct l; cbn [tproj In]; rewrite IH; split; intros H; auto.
  - destruct H as [->|H]; auto.
  - destruct H as [H|H]; [injection H as ->; auto|auto].
  - destruct H as [H|H]; [discriminate|auto].
  - destruct H as [H|H]; [discriminate|auto].
  - destruct H as [H|H]; [discriminate|auto].
Qed.

(* the individual sentences *)
Lemma handle_after_connected cap ls t c post pre : trun cap tinit ls = Some t ->
  tobs ls = post ++ TVHandle c :: pre -> In (TV (VConnE c)) pre.
Proof.
  intros H E. pose proof (tholds_trun _ _ _ H) as V. rewrite E in V. apply tholds_split in V.
  cbn [tcheck] in V. destruct (vmem (VConnE c) (tproj pre)) eqn:M; [|discriminate V].
  apply in_tproj, vmem_true. exact M.
Qed.
Lemma streamin_after_connected cap ls t c post pre : trun cap tinit ls = Some t ->
  tobs ls = post ++ TVStreamIn c :: pre -> In (TV (VConnE c)) pre.
Proof.
  intros H E. pose proof (tholds_trun _ _ _ H) as V. rewrite E in V. apply tholds_split in V.
  cbn [tcheck] in V. destruct (vmem (VConnE c) (tproj pre)) eqn:M; [|discriminate V].
  apply in_tproj, vmem_true. exact M.
Qed.

(* a notification or published event is never observed after Swarm.Close has returned *)
Definition is_delivery (v : vlab) : bool :=
  match v with VConnB _ | VConnE _ | VDiscB _ | VDiscE _ | VPub _ _ => true | _ => false end.
Lemma tproj_app a b : tproj (a ++ b) = tproj a ++ tproj b.
Proof. induction a as [|l a IH]; [reflexivity|]. destruct l; cbn [app tproj]; rewrite IH; reflexivity. Qed.
Lemma nothing_after_close_l cap ls t post pre v : trun cap tinit ls = Some t ->
  tobs ls = post ++ TV VCloseRet :: pre -> In (TV v) post -> is_delivery v = false.
Proof.
  intros H E Hi. apply in_split in Hi as (p1 & p2 & ->).
  pose proof (tholds_trun _ _ _ H) as V. rewrite E, <- app_assoc in V. cbn [app] in V. apply tholds_split in V.
  cbn [tcheck] in V.
  assert (L : vmem VCloseRet (tproj (p2 ++ TV VCloseRet :: pre)) = true).
  { apply vmem_true. rewrite tproj_app. apply in_or_app. right. left. reflexivity. }
  destruct v; try reflexivity; exfalso; unfold vcheck in V; rewrite L in V;
    repeat match type of V with _ ++ _ = [] => apply app_eq_nil in V as [_ V] end; cbn in V; discriminate V.
Qed.

(* the emitter is closed only once every ref of Swarm.refs - conns' and streams' - has been released *)
Lemma emitter_close_after_refs cap ls t : trun cap tinit ls = Some t ->
  close_pc (base (sw t)) <> C0 -> refs (sw t) = 0 /\ t_refs t = 0.
Proof.
  intros H Hc. pose proof (trun_texec _ _ _ H) as He. destruct (texec_sexec _ _ _ He) as [bo Hx].
  destruct (glob_inv _ _ _ _ Hx) as [_ _ _ G4 _ _ _ G8].
  assert (W : xwaited (x_pc (sw t)) = true).
  { destruct (close_pc (base (sw t))); try congruence; destruct (x_pc (sw t)); cbn in G4; try discriminate G4; reflexivity. }
  split; [apply G8; exact W|]. eapply stream_refs_inv; eauto.
Qed.

(* listings, read off the monitor *)
Lemma listed_truthful_l cap ls t c post pre : trun cap tinit ls = Some t ->
  tobs ls = post ++ TVListed c true :: pre ->
  (exists p lim px, In (TV (VAddCall c p lim px)) pre) /\ ~ In (TV (VAddRet c false)) pre /\ ~ In (TV (VDiscB c)) pre.
Proof.
  intros H E. pose proof (tholds_trun _ _ _ H) as V. rewrite E in V. apply tholds_split in V.
  cbn [tcheck] in V.
  destruct (vadded (tproj pre) c && negb (vmem (VAddRet c false) (tproj pre)) && negb (vmem (VDiscB c) (tproj pre))) eqn:M;
    [|discriminate V].
  apply andb_prop in M as [M M3]. apply andb_prop in M as [M1 M2].
  apply negb_true_iff in M2, M3. rewrite vmem_false in M2, M3. rewrite in_tproj in M2, M3.
  split; [|split; assumption].
  unfold vadded in M1. apply existsb_exists in M1 as (l & Hl & Hm).
  destruct l; try discriminate Hm. apply Nat.eqb_eq in Hm. subst c0. exists p, lim, proxy. apply in_tproj. exact Hl.
Qed.
Lemma unlisted_truthful_l cap ls t c post pre : trun cap tinit ls = Some t ->
  tobs ls = post ++ TVListed c false :: pre -> In (TV (VConnB c)) pre ->
  In (TV (VCloseReq c)) pre \/ In (TV VCloseCall) pre.
Proof.
  intros H E Hb. pose proof (tholds_trun _ _ _ H) as V. rewrite E in V. apply tholds_split in V.
  cbn [tcheck] in V. apply in_tproj, vmem_true in Hb. rewrite Hb in V. cbn [negb orb] in V.
  destruct (vmem (VCloseReq c) (tproj pre)) eqn:M1; [left; apply in_tproj, vmem_true; exact M1|].
  destruct (vmem VCloseCall (tproj pre)) eqn:M2; [right; apply in_tproj, vmem_true; exact M2|discriminate V].
Qed.

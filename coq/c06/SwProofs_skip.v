(* C06 — swarm-level proofs, part 4: once Swarm.Close has passed refs.Wait every
   admitted conn is completely finished; hence under the swarm's discipline no
   AddConn / RemoveConn ever finds the emitter closed. *)
From Coq Require Import List Arith Bool Lia.
From Verif Require Import c06.Model c06.Spec c06.SpecSw c06.SwModel c06.Proofs_base c06.Proofs_close c06.Proofs_loop
                          c06.SwProofs_base c06.SwProofs_rel c06.SwProofs_glob.
Import ListNotations.

Lemma all_done cap vo bo ss c : sexec cap vo bo ss -> xwaited (x_pc ss) = true -> c < nconns (base ss) ->
  s_pc (sg ss c) = LDone /\ d_pc (sg ss c) = GFin.
Proof.
  intros He Hw Hc. destruct (glob_inv _ _ _ _ He) as [G1 G2 G3 G4 G5 G6 G7 G8].
  pose proof (rsum_zero (sconns ss) (nconns (base ss))) as Z. rewrite <- G7, (G8 Hw) in Z.
  specialize (Z eq_refl c Hc). unfold rcount in Z. unfold sg.
  destruct (d_pc (get sconn0 c (sconns ss))), (s_pc (get sconn0 c (sconns ss))); cbn in Z; try lia; auto.
Qed.

Lemma closed_xwaited cap vo bo ss : sexec cap vo bo ss -> closed (base ss) = true -> xwaited (x_pc ss) = true.
Proof.
  intros He Hc. destruct (glob_inv _ _ _ _ He) as [G1 G2 G3 G4 G5 G6 G7 G8].
  destruct (close_inv _ _ _ (sexec_exec _ _ _ _ He)) as [W1 W2 W3 W4 W5 W6 W7 W8 W9].
  rewrite W2 in Hc. destruct (close_pc (base ss)), (x_pc ss); cbn in *; try discriminate; reflexivity.
Qed.

Definition noskip (b : conn) : bool := noskipA (c_a b) && noskipR (c_r b).

Lemma step_noskip cap s l s' c : step cap s l = Some s' -> noskip (gc s c) = true ->
  (closed s = true -> l <> AChk c /\ l <> RChk c) -> noskip (gc s' c) = true.
Proof.
  intros Hs Hn Hc. rename c into c0. unfold noskip in *.
  destruct l; inv_step Hs; gcs 0; try assumption;
    try (split_conn c0 c; gcs 0; try assumption; prj;
         destruct (get conn0 c (conns s)) as [bp bl bg ba br bcn bpd]; prj; subst; cbn in *; try assumption; try reflexivity;
         try (rewrite andb_true_r in *; assumption); try (apply andb_prop in Hn as [? ?]; assumption)).
  all: try (destruct (Hc eq_refl) as [H1 H2]; congruence).
  all: try (apply andb_prop in Hn as [H1 H2]; rewrite ?H1, ?H2; reflexivity).
Qed.

Lemma noskip_all cap vo bo ss : sexec cap vo bo ss -> forall c, noskip (gc (base ss) c) = true.
Proof.
  induction 1 as [|vo bo ss x ss' He IH Hs]; intros c0; [reflexivity|].
  pose proof (sstep_base _ _ _ _ Hs) as Hb. destruct x as [l|e]; [|rewrite Hb; apply IH].
  eapply step_noskip; [exact Hb|apply IH|]. intros Hc.
  pose proof (closed_xwaited _ _ _ _ He Hc) as Hw.
  pose proof (rel_all _ _ _ _ He c0) as [R1 R2 _ _ _ _].
  pose proof (reg_lt _ _ _ (sexec_exec _ _ _ _ He) c0) as RL.
  split; intros ->; unfold step in Hb.
  - destruct (c_a (gc (base ss) c0)) eqn:Ea; try discriminate Hb.
    assert (Hlt : c0 < nconns (base ss)).
    { apply RL. intros E. destruct (conn_inv_all _ _ _ (sexec_exec _ _ _ _ He) c0) as [_ P].
      unfold proto_ok in P. rewrite E, Ea in P. rewrite ?andb_false_r in P. discriminate P. }
    destruct (all_done _ _ _ _ c0 He Hw Hlt) as [E1 _]. unfold rel_sa in R1. rewrite E1 in R1.
    cbn in R1. rewrite andb_false_r in R1. discriminate.
  - destruct (c_r (gc (base ss) c0)) eqn:Er; try discriminate Hb.
    assert (Hlt : c0 < nconns (base ss)).
    { apply RL. intros E. destruct (conn_inv_all _ _ _ (sexec_exec _ _ _ _ He) c0) as [_ P].
      unfold proto_ok in P. rewrite E, Er in P. destruct (c_a (gc (base ss) c0)); rewrite ?andb_false_r in P; discriminate P. }
    destruct (all_done _ _ _ _ c0 He Hw Hlt) as [_ E2]. unfold rel_dr in R2. rewrite E2 in R2. discriminate.
Qed.

(* C04 — proofs about closeOnce + refs (CloseOnce.v): whenever ANY caller's
   Swarm.Close has returned, close() has finished and every count of s.refs has
   been given back — for every schedule, any number of callers and activities. *)
From Coq Require Import List Arith Bool ZArith Lia.
From Verif Require Import lib.Wire c04.CloseOnce.
Import ListNotations.

Definition notret (k : kst) : bool := negb (kst_eqb KReturned k).

Lemma forallb_upd {A} (P : A -> bool) i x l : forallb P l = true -> P x = true -> forallb P (upd i x l) = true.
Proof.
  revert i. induction l as [|y l IH]; intros [|i]; cbn [upd forallb]; auto.
  - intros H Hx. apply andb_prop in H. destruct H as [_ H]. rewrite Hx, H. reflexivity.
  - intros H Hx. apply andb_prop in H. destruct H as [H1 H2]. rewrite H1. cbn [andb]. apply IH; assumption.
Qed.

Lemma forallb_nth_c {A} (P : A -> bool) l i x : forallb P l = true -> nth_error l i = Some x -> P x = true.
Proof.
  revert i. induction l as [|y l IH]; intros [|i]; cbn [nth_error forallb]; try discriminate.
  - intros H E. injection E as <-. apply andb_prop in H. tauto.
  - intros H E. apply andb_prop in H. eapply IH; [apply H|exact E].
Qed.

Lemma body_eqb_eq a b : body_eqb a b = true -> a = b.
Proof. destruct a, b; cbn; congruence. Qed.

Definition cinv (s : cstate) : Prop :=
  (bd s <> B3 -> forallb notret (callers s) = true) /\
  ((bd s = B2 \/ bd s = B3) -> all_done s = true).

Lemma cinv0 n : cinv (c0 n).
Proof.
  split; cbn [c0 bd callers holders all_done forallb].
  - intros _. induction n as [|n IH]; cbn [repeat forallb]; [reflexivity|exact IH].
  - reflexivity.
Qed.

Lemma cinv_step s o s' : cinv s -> cstep_opt s o = Some s' -> cinv s'.
Proof.
  intros [J1 J2] E. destruct o; cbn [cstep_opt] in E.
  - destruct (body_eqb (bd s) B0) eqn:G; [|discriminate]. injection E as <-. apply body_eqb_eq in G.
    split; cbn [bd callers holders all_done]; [exact J1|]. intros [H|H]; congruence.
  - destruct (nth_error (holders s) p) as [[]|] eqn:En; try discriminate. injection E as <-.
    split; cbn [bd callers holders all_done]; [exact J1|]. intros H. specialize (J2 H).
    unfold all_done in J2. pose proof (forallb_nth_c _ _ _ _ J2 En) as C. discriminate C.
  - destruct (nth_error (holders s) i) as [[]|] eqn:En; try discriminate. injection E as <-.
    split; cbn [bd callers holders all_done]; [exact J1|]. intros H. apply forallb_upd; [exact (J2 H)|reflexivity].
  - destruct (nth_error (callers s) k) as [[]|] eqn:En; try discriminate.
    destruct (started s); injection E as <-; (split; cbn [bd callers holders all_done]; [|exact J2]);
      intros H; apply forallb_upd; [exact (J1 H)|reflexivity|exact (J1 H)|reflexivity].
  - destruct (started s && body_eqb (bd s) B0) eqn:G; [|discriminate]. injection E as <-.
    apply andb_prop in G. destruct G as [_ G]. apply body_eqb_eq in G.
    split; cbn [bd callers holders all_done]; [intros _; apply J1; congruence|]. intros [H|H]; discriminate.
  - destruct (body_eqb (bd s) B1) eqn:G; [|discriminate]. injection E as <-. apply body_eqb_eq in G.
    split; cbn [bd callers holders all_done]; [exact J1|]. intros [H|H]; congruence.
  - destruct (body_eqb (bd s) B1 && forallb hst_done (holders s)) eqn:G; [|discriminate]. injection E as <-.
    apply andb_prop in G. destruct G as [G1 G2]. apply body_eqb_eq in G1.
    split; cbn [bd callers holders all_done]; [intros _; apply J1; congruence|]. intros _. exact G2.
  - destruct (body_eqb (bd s) B2) eqn:G; [|discriminate]. injection E as <-. apply body_eqb_eq in G.
    split; cbn [bd callers holders all_done]; [intros H; congruence|]. intros _. apply J2. left. exact G.
  - destruct (nth_error (callers s) k) as [[]|] eqn:En; try discriminate.
    destruct (body_eqb (bd s) B3) eqn:G; [|discriminate]. injection E as <-. apply body_eqb_eq in G.
    split; cbn [bd callers holders all_done]; [intros H; congruence|exact J2].
Qed.

Lemma cinv_run ops : forall s, cinv s -> cinv (crun s ops).
Proof.
  induction ops as [|o r IH]; intros s H; [exact H|]. cbn [crun fold_left]. apply IH.
  unfold cstep_do. destruct (cstep_opt s o) as [s'|] eqn:E; [eapply cinv_step; eassumption|exact H].
Qed.

Lemma exists_not_forall l : existsb (kst_eqb KReturned) l = true -> forallb notret l = true -> False.
Proof.
  induction l as [|y l IH]; cbn [existsb forallb]; [discriminate|].
  intros A B. apply andb_prop in B. destruct B as [B1 B2]. apply orb_prop in A. destruct A as [A|A].
  - unfold notret in B1. rewrite A in B1. discriminate.
  - exact (IH A B2).
Qed.

Lemma returned_all_done s : cinv s -> some_returned s = true -> bd s = B3 /\ all_done s = true.
Proof.
  intros [J1 J2] H. assert (E : bd s = B3).
  { destruct (bd s) eqn:Eb; try reflexivity; exfalso; apply (exists_not_forall _ H); apply J1; congruence. }
  split; [exact E|apply J2; right; exact E].
Qed.

Lemma filter_nonempty_exists l : filter (kst_eqb KReturned) l <> [] -> existsb (kst_eqb KReturned) l = true.
Proof.
  induction l as [|y l IH]; cbn [filter existsb]; [congruence|].
  destruct (kst_eqb KReturned y); [reflexivity|]. exact IH.
Qed.

Lemma once_case_accepted s : cinv s -> once_monitor (once_case s) = [].
Proof.
  intros Hs. unfold once_case, once_monitor. rewrite map_length, Z.eqb_refl. cbn [andb].
  destruct (filter (kst_eqb KReturned) (callers s)) as [|k r] eqn:Ef; [reflexivity|].
  assert (Hr : some_returned s = true) by (apply filter_nonempty_exists; rewrite Ef; discriminate).
  destruct (returned_all_done s Hs Hr) as [_ Hd]. rewrite Hd.
  assert (A : forall (l : list kst), forallb (fun x => (x =? 1)%Z) (map (fun _ => boolz true) l) = true)
    by (induction l as [|y l IH]; cbn [map forallb]; [reflexivity|exact IH]).
  rewrite A. reflexivity.
Qed.

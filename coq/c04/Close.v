(* C04 — "after a swarm has been closed ... all of its connections and streams
   are gone", for every interleaving of Close with in-flight addConn / addStream
   / Conn.Close / stream close.

   The swarm and every swarm connection use the same protocol for what they own
   (p2p/net/swarm/swarm.go addConn / close / removeConn, swarm_conn.go addStream
   / doClose / removeStream): a registry that is a map or nil, guarded by a
   mutex.
     add:    lock; if map == nil { unlock; release the item; refuse }
                   else { map[item] = ...; unlock }
     close:  lock; taken := map; map = nil; unlock; release every item of taken
     remove: an item closed on its own deletes itself from the map
   This file models that protocol as a labelled transition system in which every
   critical section and every release is one step, two levels deep (the swarm's
   registry of connections; each connection's registry of streams; releasing a
   connection closes its registry).  No proofs in this file. *)
From Coq Require Import List Arith Bool ZArith.
From Verif Require Import lib.Wire.
Import ListNotations.

Inductive ist :=
| Offered        (* add has been called, its critical section has not run yet *)
| Registered     (* in the map *)
| Refused        (* the critical section found the registry closed; release pending *)
| Released.      (* closed / reset; scope done *)

Definition ist_eqb (a b : ist) : bool :=
  match a, b with
  | Offered, Offered | Registered, Registered | Refused, Refused | Released, Released => true
  | _, _ => false
  end.

Record reg := mkReg {
  closed : bool;                 (* map == nil *)
  taken : list nat;              (* snapshot taken by close, not yet released *)
  items : list (nat * ist)       (* every item ever offered *)
}.

Definition reg0 := mkReg false [] [].

Fixpoint get (i : nat) (l : list (nat * ist)) : option ist :=
  match l with
  | [] => None
  | (j, x) :: r => if Nat.eqb i j then Some x else get i r
  end.

Fixpoint set (i : nat) (x : ist) (l : list (nat * ist)) : list (nat * ist) :=
  match l with
  | [] => []
  | (j, y) :: r => if Nat.eqb i j then (j, x) :: r else (j, y) :: set i x r
  end.

Definition registered_ids (l : list (nat * ist)) : list nat :=
  map fst (filter (fun p => ist_eqb (snd p) Registered) l).

Fixpoint remove_id (i : nat) (l : list nat) : list nat :=
  match l with
  | [] => []
  | j :: r => if Nat.eqb i j then remove_id i r else j :: remove_id i r
  end.

Definition mem (i : nat) (l : list nat) : bool := existsb (Nat.eqb i) l.

(* registry operations; each is a no-op when it is not enabled *)
Definition r_offer (i : nat) (r : reg) : reg :=
  match get i (items r) with
  | None => mkReg (closed r) (taken r) ((i, Offered) :: items r)
  | Some _ => r
  end.

Definition r_addcs (i : nat) (r : reg) : reg :=
  match get i (items r) with
  | Some Offered => mkReg (closed r) (taken r) (set i (if closed r then Refused else Registered) (items r))
  | _ => r
  end.

Definition r_addrel (i : nat) (r : reg) : reg :=
  match get i (items r) with
  | Some Refused => mkReg (closed r) (taken r) (set i Released (items r))
  | _ => r
  end.

Definition r_closecs (r : reg) : reg :=
  if closed r then r else mkReg true (registered_ids (items r)) (items r).

(* the closer releases one item of its snapshot (Close / Reset are idempotent) *)
Definition r_closerel (i : nat) (r : reg) : reg :=
  if mem i (taken r) then mkReg (closed r) (remove_id i (taken r)) (set i Released (items r)) else r.

(* a registered item is closed by somebody else and removes itself *)
Definition r_remove (i : nat) (r : reg) : reg :=
  match get i (items r) with
  | Some Registered => mkReg (closed r) (taken r) (set i Released (items r))
  | _ => r
  end.

(* ---- two levels ----------------------------------------------------------- *)
Record sw := mkSw {
  conns : reg;                       (* Swarm.conns *)
  strs : list (nat * reg);           (* Conn.streams of every connection that was registered *)
  lsts : reg                         (* Swarm.listeners: same protocol (AddListenAddr / close) *)
}.

Definition sw0 := mkSw reg0 [] reg0.

Fixpoint sget (c : nat) (l : list (nat * reg)) : reg :=
  match l with
  | [] => reg0
  | (j, r) :: t => if Nat.eqb c j then r else sget c t
  end.

Fixpoint has_conn (c : nat) (l : list (nat * reg)) : bool :=
  match l with [] => false | (j, _) :: t => Nat.eqb c j || has_conn c t end.

Fixpoint sset (c : nat) (x : reg) (l : list (nat * reg)) : list (nat * reg) :=
  match l with
  | [] => [(c, x)]
  | (j, r) :: t => if Nat.eqb c j then (j, x) :: t else (j, r) :: sset c x t
  end.

Definition on_strs (c : nat) (f : reg -> reg) (s : sw) : sw :=
  mkSw (conns s) (sset c (f (sget c (strs s))) (strs s)) (lsts s).

Definition on_conns (f : reg -> reg) (s : sw) : sw := mkSw (f (conns s)) (strs s) (lsts s).
Definition on_lsts (f : reg -> reg) (s : sw) : sw := mkSw (conns s) (strs s) (f (lsts s)).

Inductive step :=
| SOffer (c : nat)          (* addConn called with a new upgraded connection *)
| SAddCS (c : nat)          (* addConn's critical section *)
| SAddRel (c : nat)         (* addConn: tc.Close() after ErrSwarmClosed *)
| SCloseCS                  (* Swarm.close: conns := s.conns.m; s.conns.m = nil *)
| SCloseRel (c : nat)       (* Swarm.close: go c.Close() for a connection of the snapshot *)
| SRemove (c : nat)         (* Conn.Close by anybody else (user, the accept loop's defer) *)
| TOffer (c t : nat)        (* addStream called on connection c *)
| TAddCS (c t : nat)        (* addStream's critical section *)
| TAddRel (c t : nat)       (* addStream: ts.Reset() after ErrConnClosed; the caller Dones the scope *)
| TCloseRel (c t : nat)     (* doClose: s.Reset() for a stream of the snapshot *)
| TRemove (c t : nat)       (* a stream closed by its user: removeStream, scope.Done *)
| LOffer (l : nat)          (* AddListenAddr: tpt.Listen returned a listener *)
| LAddCS (l : nat)          (* AddListenAddr's critical section *)
| LAddRel (l : nat)         (* AddListenAddr: list.Close() after ErrSwarmClosed *)
| LCloseCS                  (* Swarm.close: listeners := s.listeners.m; s.listeners.m = nil *)
| LCloseRel (l : nat)       (* Swarm.close: go l.Close() for a listener of the snapshot *)
| LRemove (l : nat).        (* the accept loop ends on its own (listener error): deletes itself, closes *)

Definition is_registered (c : nat) (r : reg) : bool :=
  match get c (items r) with Some Registered => true | _ => false end.

(* Conn.doClose: take the connection's streams (its registry is closed) *)
Definition conn_close (c : nat) (s : sw) : sw := on_strs c r_closecs s.

Definition sstep (s : sw) (o : step) : sw :=
  match o with
  | SOffer c => on_conns (r_offer c) s
  | SAddCS c => on_conns (r_addcs c) s
  | SAddRel c => on_conns (r_addrel c) s
  | SCloseCS => on_conns r_closecs s
  | SCloseRel c =>
      if mem c (taken (conns s))
      then conn_close c (on_conns (r_closerel c) s) else s
  | SRemove c =>
      if is_registered c (conns s)
      then conn_close c (on_conns (r_remove c) s) else s
  | LOffer l => on_lsts (r_offer l) s
  | LAddCS l => on_lsts (r_addcs l) s
  | LAddRel l => on_lsts (r_addrel l) s
  | LCloseCS => on_lsts r_closecs s
  | LCloseRel l => on_lsts (r_closerel l) s
  | LRemove l => on_lsts (r_remove l) s
  (* streams can only be offered to a connection that is (or was) registered *)
  | TOffer c t =>
      match get c (items (conns s)) with
      | Some Registered | Some Released =>
          if is_registered c (conns s) || has_conn c (strs s) then on_strs c (r_offer t) s else s
      | _ => s
      end
  | TAddCS c t => if has_conn c (strs s) then on_strs c (r_addcs t) s else s
  | TAddRel c t => if has_conn c (strs s) then on_strs c (r_addrel t) s else s
  | TCloseRel c t => if has_conn c (strs s) then on_strs c (r_closerel t) s else s
  | TRemove c t => if has_conn c (strs s) then on_strs c (r_remove t) s else s
  end.

Definition srun (s : sw) (ops : list step) : sw := fold_left sstep ops s.

(* ---- what must hold -------------------------------------------------------- *)
(* nothing is in flight in a registry: no add between its call and its end, and
   the closer has released all it took *)
Definition r_quiescent (r : reg) : bool :=
  forallb (fun p => negb (ist_eqb (snd p) Offered) && negb (ist_eqb (snd p) Refused)) (items r) &&
  match taken r with [] => true | _ => false end.

Definition r_all_released (r : reg) : bool :=
  forallb (fun p => ist_eqb (snd p) Released) (items r).

Definition quiescent (s : sw) : bool :=
  r_quiescent (conns s) && forallb (fun cr => r_quiescent (snd cr)) (strs s) && r_quiescent (lsts s).

Definition all_gone (s : sw) : bool :=
  r_all_released (conns s) && forallb (fun cr => r_all_released (snd cr)) (strs s) && r_all_released (lsts s).

(* Swarm.close runs both critical sections *)
Definition swarm_closed (s : sw) : bool := closed (conns s) && closed (lsts s).

(* ---- wire format of a close-race case -------------------------------------
     5 nconn  then per connection: add_ok closed nstream, then per stream: open_ok released
     then: nlisten, per listener: add_ok closed
     then: conns_left listeners_left usage_conns usage_streams
   add_ok: 1 = addConn returned no error; open_ok: 1 = addStream registered the
   stream, 0 = addStream refused it (connection closed), 2 = no muxed stream was
   created at all; closed / released: 1 = the harness's fake connection / muxed
   stream saw Close / Reset (2 for a stream that never existed).
   Observed after Swarm.Close and every adder have returned. *)
Local Open Scope Z_scope.

Fixpoint dec_streams (n : nat) (l : list Z) : option (list (Z * Z) * list Z) :=
  match n with
  | O => Some ([], l)
  | S n' =>
      match l with
      | a :: b :: r =>
          match dec_streams n' r with
          | Some (t, r') => Some ((a, b) :: t, r')
          | None => None
          end
      | _ => None
      end
  end.

Fixpoint dec_conns (n : nat) (l : list Z) : option (list (Z * Z * list (Z * Z)) * list Z) :=
  match n with
  | O => Some ([], l)
  | S n' =>
      match l with
      | a :: b :: k :: r =>
          if (k <? 0) || (1000 <? k) then None else
          match dec_streams (Z.to_nat k) r with
          | Some (ss, r1) =>
              match dec_conns n' r1 with
              | Some (t, r2) => Some ((a, b, ss) :: t, r2)
              | None => None
              end
          | None => None
          end
      | _ => None
      end
  end.

(* the schedule the observations determine: connections whose add succeeded are
   registered before the swarm's close, the others are refused after it; streams
   whose open succeeded are registered before their connection closes *)
Fixpoint offer_streams (c : nat) (t : nat) (ss : list (Z * Z)) (okflag : bool) : list step :=
  match ss with
  | [] => []
  | (o, _) :: r =>
      (if (if okflag then o =? 1 else o =? 0) then [TOffer c t; TAddCS c t; TAddRel c t] else []) ++
      offer_streams c (S t) r okflag
  end%list.

Fixpoint rel_streams (c : nat) (t : nat) (ss : list (Z * Z)) : list step :=
  match ss with
  | [] => []
  | _ :: r => TCloseRel c t :: rel_streams c (S t) r
  end.

Fixpoint sched_before (c : nat) (cs : list (Z * Z * list (Z * Z))) : list step :=
  match cs with
  | [] => []
  | (a, _, ss) :: r =>
      (if a =? 1 then [SOffer c; SAddCS c] ++ offer_streams c 0 ss true else []) ++ sched_before (S c) r
  end%list.

Fixpoint sched_after (c : nat) (cs : list (Z * Z * list (Z * Z))) : list step :=
  match cs with
  | [] => []
  | (a, _, ss) :: r =>
      (if a =? 1 then SCloseRel c :: offer_streams c 0 ss false ++ rel_streams c 0 ss
       else [SOffer c; SAddCS c; SAddRel c]) ++ sched_after (S c) r
  end%list.

Fixpoint lsched_before (l : nat) (ls : list (Z * Z)) : list step :=
  match ls with
  | [] => []
  | (a, _) :: r => ((if a =? 1 then [LOffer l; LAddCS l] else []) ++ lsched_before (S l) r)%list
  end.

Fixpoint lsched_after (l : nat) (ls : list (Z * Z)) : list step :=
  match ls with
  | [] => []
  | (a, _) :: r => ((if a =? 1 then [LCloseRel l] else [LOffer l; LAddCS l; LAddRel l]) ++ lsched_after (S l) r)%list
  end.

Definition schedule (cs : list (Z * Z * list (Z * Z))) (ls : list (Z * Z)) : list step :=
  (sched_before 0 cs ++ lsched_before 0 ls ++ [LCloseCS; SCloseCS] ++ sched_after 0 cs ++ lsched_after 0 ls)%list.


Definition status_z (o : option ist) : Z :=
  match o with Some Released => 1 | Some _ => 0 | None => 2 end.

Fixpoint lmodel_obs (s : sw) (l : nat) (ls : list (Z * Z)) : list Z :=
  match ls with
  | [] => []
  | _ :: r => status_z (get l (items (lsts s))) :: lmodel_obs s (S l) r
  end.

(* model's final observation for the same case: per connection (registered?,
   released?), per stream likewise *)
Fixpoint model_streams (r : reg) (t : nat) (ss : list (Z * Z)) (cok : bool) : list Z :=
  match ss with
  | [] => []
  | (o, _) :: rest =>
      (* a stream offered to a refused connection does not exist in the model *)
      (if cok then status_z (get t (items r)) else 2) :: model_streams r (S t) rest cok
  end.

Fixpoint model_obs (s : sw) (c : nat) (cs : list (Z * Z * list (Z * Z))) : list Z :=
  match cs with
  | [] => []
  | (a, _, ss) :: r =>
      (status_z (get c (items (conns s))) :: model_streams (sget c (strs s)) 0 ss (a =? 1)) ++
      model_obs s (S c) r
  end%list.

Fixpoint impl_obs (cs : list (Z * Z * list (Z * Z))) : list Z :=
  match cs with
  | [] => []
  | (a, b, ss) :: r =>
      (b :: map (fun ob : Z * Z => if (a =? 1) && negb (fst ob =? 2) then snd ob else 2) ss) ++ impl_obs r
  end%list.

(* conns, listeners, and the four trailing numbers *)
Definition dec_case (l : list Z) : option (list (Z * Z * list (Z * Z)) * list (Z * Z) * (Z * Z * Z * Z)) :=
  match l with
  | n :: r =>
      if (n <? 0) || (1000 <? n) then None else
      match dec_conns (Z.to_nat n) r with
      | Some (cs, k :: r1) =>
          if (k <? 0) || (1000 <? k) then None else
          match dec_streams (Z.to_nat k) r1 with
          | Some (ls, [cleft; lleft; uc; us]) => Some (cs, ls, (cleft, lleft, uc, us))
          | _ => None
          end
      | _ => None
      end
  | _ => None
  end.

Definition close_conform (l : list Z) : list Z :=
  match dec_case l with
  | Some (cs, ls, _) =>
      let s := srun sw0 (schedule cs ls) in
      if negb (quiescent s && swarm_closed s) then [ERR_MISMATCH; 51]
      else if list_eqb Z.eqb (model_obs s 0 cs ++ lmodel_obs s 0 ls) (impl_obs cs ++ map snd ls) then []
      else ERR_MISMATCH :: 52 :: (model_obs s 0 cs ++ lmodel_obs s 0 ls)
  | None => [ERR_MALFORMED; 51]
  end%list.

(* the property on the implementation's observations alone: every connection
   given to the swarm is closed, every stream opened on one is released, the
   swarm holds no connection, and usage is zero *)
Definition close_monitor (l : list Z) : list Z :=
  match dec_case l with
  | Some (cs, ls, (cleft, lleft, uc, us)) =>
      let conns_closed := forallb (fun c : Z * Z * list (Z * Z) => snd (fst c) =? 1) cs in
      let streams_gone :=
        forallb (fun c : Z * Z * list (Z * Z) =>
                   forallb (fun ob : Z * Z => (fst ob =? 2) || (snd ob =? 1)) (snd c)) cs in
      let listeners_closed := forallb (fun ob : Z * Z => snd ob =? 1) ls in
      if conns_closed && streams_gone && listeners_closed && (cleft =? 0) && (lleft =? 0) && (uc =? 0) && (us =? 0) then []
      else [ERR_PROPERTY; 5; boolz conns_closed; boolz streams_gone; boolz listeners_closed; cleft; lleft; uc; us]
  | None => [ERR_MALFORMED; 51]
  end.

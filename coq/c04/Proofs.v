(* C04 — lemmas about the path interpreter (independent of the regenerated
   paths) and the reflection of the finite balance check. *)
From Coq Require Import List String Bool Arith.
From Verif Require Import c04.Events c04.Model c04.Spec gen.Paths_c04.
Import ListNotations.

(* running a concatenation = running the pieces in sequence: this is what
   justifies inlining a callee's path into its caller's *)
Lemma arun_app p q : forall s,
  arun s (p ++ q) = match arun s p with Some s' => arun s' q | None => None end.
Proof.
  induction p as [|a p IH]; intros s; cbn [app arun]; [reflexivity|].
  destruct (astep s a) as [s'|]; [apply IH|reflexivity].
Qed.

(* releases are idempotent: a second Close / Done / Reset changes nothing *)
Lemma release_idempotent s e :
  e = RelRaw \/ e = RelScope \/ e = RelStrm \/ e = RelSScope \/ e = RelConn ->
  apply_eff (apply_eff s e) e = apply_eff s e.
Proof. intros [->|[->|[->|[->| ->]]]]; reflexivity. Qed.

(* what ok_end means, spelled out *)
Lemma ok_end_spec vr s : ok_end vr s = true ->
  bad s = [] /\ gor s = 0 /\
  (handed s = false -> (vr = true /\ lastret s = Some ROk) \/
     (raw s <> Held /\ cscope s <> Held /\ strm s <> Held /\ sscope s <> Held)).
Proof.
  unfold ok_end. intros H.
  apply andb_prop in H. destruct H as [H H3]. apply andb_prop in H. destruct H as [H1 H2].
  split; [destruct (bad s); [reflexivity|discriminate]|].
  split; [apply Nat.eqb_eq, H2|].
  intros Hh. rewrite Hh in H3. cbn [orb] in H3.
  apply orb_prop in H3. destruct H3 as [H3|H3].
  - left. apply andb_prop in H3. destruct H3 as [Hv Hr]. split; [exact Hv|].
    destruct (lastret s) as [[]|]; try discriminate; reflexivity.
  - right. unfold nothing_held, not_held in H3.
    repeat (apply andb_prop in H3; destruct H3 as [H3 ?]).
    repeat split; intros E; rewrite E in *; discriminate.
Qed.

(* an error return of a value-returning function leaves nothing held *)
Lemma err_return_releases s : ok_end true s = true -> handed s = false ->
  lastret s = Some RErr ->
  raw s <> Held /\ cscope s <> Held /\ strm s <> Held /\ sscope s <> Held.
Proof.
  intros H Hh Hr. destruct (ok_end_spec true s H) as (_ & _ & H3).
  destruct (H3 Hh) as [[_ E]|E]; [rewrite Hr in E; discriminate|exact E].
Qed.

(* reflection: the finite check over the regenerated paths *)
Lemma entries_ok_reflect :
  forallb entry_ok entries = true ->
  forall name vr init ps, In (name, vr, init, ps) entries ->
  forall p s, In p ps -> arun init p = Some s -> ok_end vr s = true.
Proof.
  intros H name vr init ps Hin p s Hp Hrun.
  rewrite forallb_forall in H. specialize (H _ Hin). cbn in H.
  rewrite forallb_forall in H. specialize (H _ Hp). unfold path_ok in H.
  rewrite Hrun in H. exact H.
Qed.

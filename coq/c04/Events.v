(* C04 — the event language emitted by tools/genpaths (the go/ast translator).
   gen/Paths_c04.v, regenerated from /repo on every run, is a set of
   definitions of type [list (list ev)]: every control-flow path of the listed
   functions. *)
From Coq Require Import String.

Inductive outcome := OK | FAIL | NA.
Inductive retk := ROk | RErr | RTail.

Inductive ev :=
| Call (callee : string) (o : outcome)
| Cond (text : string) (taken : bool)
| Comm (text : string)
| CaseOf (text : string)
| Ret (r : retk)
| Deferred (callee : string)
| GoStart (what : string)
| Cont
| Brk
| LoopEnd
| Unknown (what : string).
